(* C20 — theorems (statements; proofs in Lemmas.v / Proofs.v / Main.v).

   Setting of the c20_* theorems about runs: `clients` is any list of clients, each an arbitrary list of AutoAssign /
   ReleaseIPs / ReleaseByHandle operations (each AutoAssign names its own node, use, namespace, requested pools,
   per-request block limit); `evs` is ANY schedule: which client performs its next datastore access, with a
   spurious CAS conflict or a crash before / after the access.  `completed cf clients evs i l` : client i has
   returned the list l of (operation, result).  `final cf clients evs` : the datastore at that moment; H' with
   `store_hist (final ..) H'` is a history of the writes that really happened, consistent with that datastore.
   Domain (cfg_ok): pools pairwise disjoint, blocks not empty.  Single-client histories are the special case
   clients = [ops]. *)
From Coq Require Import List NArith Bool Arith Lia.
From Verif.Common Require Import Cas.
From Verif.C19 Require Import Model.
From Verif.C20 Require Import Model Spec Lemmas Proofs Main Cap CapSeq.
Import ListNotations.
Open Scope N_scope.

(* Every pool AutoAssign may draw from (determinePools followed by filterPoolsByUse) is a configured pool that the
   specification allows for the request: enabled, right use, and either named by the request or Automatic and
   selecting the node and the namespace. *)
Theorem c20_pool_selection_meets_spec : forall cf q sel p,
  determine_pools cf q = Some sel -> In p (by_use (q_use q) sel) ->
  In p (g_pools cf) /\ spec_pool_allowed cf q p = true.
Proof. exact allowed_meets_spec. Qed.
Print Assumptions c20_pool_selection_meets_spec.

(* Every automatically assigned address lies in an enabled pool allowed for the request's use, node and namespace
   (and among the requested pools if any were given). *)
Theorem c20_in_allowed_pool : forall cf clients evs i l q ips e a plen,
  cfg_ok cf -> completed cf clients evs i l -> In (OpAutoAssign q, RIPs ips e) l -> In (a, plen) ips ->
  spec_allowed cf q a = true.
Proof.
  intros cf clients evs i l q ips e a plen OK C Hin Ha.
  destruct (completed_good cf clients evs i l q ips e OK C Hin) as (H' & _ & _ & F).
  rewrite Forall_forall in F. eapply good_in_allowed. apply (F _ Ha).
Qed.
Print Assumptions c20_in_allowed_pool.

(* ... is never inside a reservation *)
Theorem c20_not_reserved : forall cf clients evs i l q ips e a plen,
  cfg_ok cf -> completed cf clients evs i l -> In (OpAutoAssign q, RIPs ips e) l -> In (a, plen) ips ->
  reserved cf a = false.
Proof.
  intros cf clients evs i l q ips e a plen OK C Hin Ha.
  destruct (completed_good cf clients evs i l q ips e OK C Hin) as (H' & _ & _ & F).
  rewrite Forall_forall in F. destruct (F _ Ha) as (p & c & o & rev & b2 & G). tauto.
Qed.
Print Assumptions c20_not_reserved.

(* ... and comes back with the mask of its block: the address is ordinal o of a block c of an allowed pool p, the
   returned mask length is that of p's blocks, and a version of block c (stored under its own CIDR) with exactly
   that many addresses was written to the datastore *)
Theorem c20_block_mask_returned : forall cf clients evs i l q ips e a plen,
  cfg_ok cf -> completed cf clients evs i l -> In (OpAutoAssign q, RIPs ips e) l -> In (a, plen) ips ->
  exists H' p c o rev b,
    Cas.store_hist (final cf clients evs) H' /\
    In p (g_pools cf) /\ spec_pool_allowed cf q p = true /\ is_block p c /\
    a = c + N.of_nat o /\ (o < p_bsize p)%nat /\ plen = (32 - Nat.log2 (p_bsize p))%nat /\
    H' rev = Some (KBlock c, VBlock b) /\ bk_cidr b = c /\ length (bk_allocs b) = p_bsize p.
Proof.
  intros cf clients evs i l q ips e a plen OK C Hin Ha.
  destruct (completed_good cf clients evs i l q ips e OK C Hin) as (H' & SH & _ & F).
  rewrite Forall_forall in F. destruct (F _ Ha) as (p & c & o & rev & b2 & G).
  destruct G as (Ip & Ig & IB & EA & OB & INP & RV & EL & HR & LEN & ST & CB).
  assert (SP : spec_pool_allowed cf q p = true).
  { unfold allowed in Ip. destruct (determine_pools cf q) as [sel|] eqn:D; [|destruct Ip].
    eapply allowed_meets_spec; eauto. }
  exists H', p, c, o, rev, b2. split; [exact SH|]. repeat split; auto.
Qed.
Print Assumptions c20_block_mask_returned.

(* With StrictAffinity no address comes from a block affine to another host: the write that recorded the address
   wrote a version of its block whose affinity is the requesting host's ("host:<node>", or "virtual:<node>" for
   LoadBalancer requests). *)
Theorem c20_strict_affinity : forall cf clients evs i l q ips e a plen,
  cfg_ok cf -> g_strict cf = true ->
  completed cf clients evs i l -> In (OpAutoAssign q, RIPs ips e) l -> In (a, plen) ips ->
  exists H' c rev b,
    Cas.store_hist (final cf clients evs) H' /\ H' rev = Some (KBlock c, VBlock b) /\ bk_cidr b = c /\
    c <= a < c + N.of_nat (length (bk_allocs b)) /\ bk_aff b = Some (host_of q).
Proof.
  intros cf clients evs i l q ips e a plen OK STR C Hin Ha.
  destruct (completed_good cf clients evs i l q ips e OK C Hin) as (H' & SH & _ & F).
  rewrite Forall_forall in F. destruct (F _ Ha) as (p & c & o & rev & b2 & G).
  destruct G as (Ip & Ig & IB & EA & OB & INP & RV & EL & HR & LEN & ST & CB).
  exists H', c, rev, b2. split; [exact SH|]. repeat split; auto; rewrite ?LEN; subst a; lia.
Qed.
Print Assumptions c20_strict_affinity.

(* Requests fail / return fewer addresses rather than violate the limits: whatever error class the call returns
   (none, block limit, anything else), it returns at most the requested number of addresses and every one of
   them satisfies all clauses above; a request for which no pool is allowed returns no address ... *)
Theorem c20_fail_rather_than_violate : forall cf clients evs i l q ips e,
  cfg_ok cf -> completed cf clients evs i l -> In (OpAutoAssign q, RIPs ips e) l ->
  (length ips <= q_num q)%nat /\
  (forall a plen, In (a, plen) ips -> spec_allowed cf q a = true /\ reserved cf a = false) /\
  (forallb (fun p => negb (spec_pool_allowed cf q p)) (g_pools cf) = true -> ips = []).
Proof.
  intros cf clients evs i l q ips e OK C Hin.
  destruct (completed_good cf clients evs i l q ips e OK C Hin) as (H' & _ & LE & F).
  split; [exact LE|]. rewrite Forall_forall in F. split.
  - intros a plen Ha. split; [eapply good_in_allowed; apply (F _ Ha)|].
    destruct (F _ Ha) as (p & c & o & rev & b2 & G). tauto.
  - intros NONE. destruct ips as [|[a plen] t]; auto. exfalso.
    destruct (F (a, plen) (or_introl eq_refl)) as (p & c & o & rev & b2 & G).
    destruct G as (Ip & Ig & _).
    assert (SP : spec_pool_allowed cf q p = true).
    { unfold allowed in Ip. destruct (determine_pools cf q) as [sel|] eqn:D; [|destruct Ip].
      eapply allowed_meets_spec; eauto. }
    rewrite forallb_forall in NONE. specialize (NONE _ Ig). rewrite SP in NONE. discriminate.
Qed.
Print Assumptions c20_fail_rather_than_violate.

(* ... and does not touch the datastore at all: the operation is a bare return *)
Theorem c20_no_pool_no_access : forall cf q, allowed cf q = [] -> auto_assign cf q = Ret (RIPs [] EOther).
Proof. exact no_pool_no_access. Qed.
Print Assumptions c20_no_pool_no_access.

(* Every reachable datastore (any clients, any schedule): each block is stored under its own CIDR, is a block of a
   configured pool with that pool's block size, and its free list stays inside it; each affinity names a pool block. *)
Theorem c20_store_invariant : forall cf clients evs en,
  cfg_ok cf -> In en (st_ents (final cf clients evs)) -> VI cf (e_key en) (e_val en).
Proof. intros cf clients evs en [D B]. apply reachable_values; auto. Qed.
Print Assumptions c20_store_invariant.

(* Block cap.  The limit the code enforces is the specification's cap ... *)
Theorem c20_effective_cap : forall cf q, eff_maxblocks cf q = spec_cap cf q.
Proof. exact eff_maxblocks_spec. Qed.
Print Assumptions c20_effective_cap.

(* ... but it is compared with the number of the host's affine blocks INSIDE the pools usable by the request, so "a
   host never holds more affine blocks than MaxBlocksPerHost", read over all blocks of the host, is false of the
   faithful model (and of the code: known finding block-cap-counts-only-allowed-pools): pools A (Workload) and B
   (Tunnel), MaxBlocksPerHost = 1, node 0 asks for a Workload and then a Tunnel address; both succeed and the
   node holds two affine blocks. *)
Theorem c20_block_cap_refuted :
  let '(s, rs) := run_ops (cap_cfg false) init_store cap_ops in
  rs = [RIPs [(167772416, 30%nat)] ENone; RIPs [(167772672, 30%nat)] ENone] /\
  count_affs (snap_of (st_ents s)) 0 (fun _ => true) = 2%nat /\ g_maxblocks (cap_cfg false) = 1%nat.
Proof. exact cap_literal_refuted. Qed.
Print Assumptions c20_block_cap_refuted.

(* On the variant g_capfix = true (fixes/C20-count-all-affine-blocks.patch: the limit counts every block that stays
   affine to the host) the same history ends with the block-limit error and one affine block. *)
Theorem c20_block_cap_fixed_witness :
  let '(s, rs) := run_ops (cap_cfg true) init_store cap_ops in
  rs = [RIPs [(167772416, 30%nat)] ENone; RIPs [] EBlockLimit] /\
  count_affs (snap_of (st_ents s)) 0 (fun _ => true) = 1%nat.
Proof. exact cap_fixed_witness. Qed.
Print Assumptions c20_block_cap_fixed_witness.

(* Both variants, every answer of the datastore (hence every interleaving): AutoAssign's loop, once numBlocksOwned
   has reached the effective limit, never asks the datastore to create a block affinity (`nac`); it can only use
   blocks the host already holds or fail with the block-limit error.  numBlocksOwned starts from the host's affine
   blocks in the usable pools (g_capfix = false, the code as found) or from every block that stays affine to the
   host (g_capfix = true), and grows by one per newly claimed block. *)
Theorem c20_at_cap_creates_no_affinity : forall cf fuel ips rem owned maxb num h tag host node ps,
  (maxb <= owned)%nat -> nac (aa_loop cf fuel ips rem owned maxb num h tag host node ps).
Proof. exact aa_loop_at_cap_creates_no_affinity. Qed.
Print Assumptions c20_at_cap_creates_no_affinity.

(* The positive cap for the REPAIRED variant (g_capfix = true), on the concrete datastore semantics, one client:
   from ANY datastore with distinct keys, after AutoAssign the host (its "host:" or "virtual:" identity) has at most
   max(effective limit, what it had before) block affinities; by c20_effective_cap the limit is the specification's
   cap.  By induction over a history: a host that starts below the cap never exceeds it.
   PARTIAL because of two hypotheses:
     (a) every enabled pool's node selector matches the node, so prepareAffinityBlocksForHost releases nothing and
         numBlocksOwned starts at exactly the number of the host's affinities (otherwise one also needs: each release
         counted by the repaired code removes one affinity that was listed);
     (b) g_retries = 1 (every CAS loop gives up after one attempt).  Used in one lemma only (CapSeq.claim_outer_bound:
         findOrClaimBlock's claim loop adds at most one affinity).  For the real bound 100 the missing lemma is:
         "when claim_inner answers try-another-block, the pending affinity it created is gone again", which needs
         "a single client never receives RConflict from Cas.exec" (the delete's answer is ignored on the
         claim-conflict path and a run of EConflict answers exhausts the inner retry loop).
   The same bound, without (a) and (b), is checked by the oracle (ok_cap_global) on every implementation run. *)
Theorem c20_block_cap_fixed_partial : forall cf q s,
  g_capfix cf = true -> g_retries cf = 1%nat ->
  (forall p, In p (enabled_pools cf) -> selects_node cf q p = true) ->
  NoDup (Cas.keys s) ->
  (Nh (host_of q) (fst (run s (auto_assign cf q))) <= Nat.max (eff_maxblocks cf q) (Nh (host_of q) s))%nat.
Proof. exact block_cap_fixed. Qed.
Print Assumptions c20_block_cap_fixed_partial.

Example c20_block_cap_fixed_hyps_inhabited :
  g_capfix cap_cfg1 = true /\ g_retries cap_cfg1 = 1%nat /\
  forallb (fun p => selects_node cap_cfg1 cap_req1 p) (enabled_pools cap_cfg1) = true /\
  snd (run init_store (auto_assign cap_cfg1 cap_req1)) = RIPs [(167772416, 30%nat)] ENone.
Proof. exact cap_fixed_hyps_inhabited. Qed.

(* A fact about the code, not a defect: when the request names pools, the node selector is ignored (determinePools:
   "for backwards compatibility").  Node 0 has no labels, the pool requires has(k0): without requested pools the
   request fails, with the pool named it is served from it. *)
Theorem c20_requested_pools_bypass_selectors :
  snd (run init_store (auto_assign byp_cfg (byp_req []))) = RIPs [] EOther /\
  snd (run init_store (auto_assign byp_cfg (byp_req [(167772416, 8)]))) = RIPs [(167772416, 30%nat)] ENone.
Proof. exact requested_bypass. Qed.
Print Assumptions c20_requested_pools_bypass_selectors.

(* the hypotheses are satisfiable: cap_cfg is in the domain *)
Example c20_domain_inhabited : forall fx, cfg_ok (cap_cfg fx).
Proof.
  intros fx. split.
  - intros p p' a [<-|[<-|[]]] [<-|[<-|[]]] A B; auto; exfalso;
      unfold in_pool, p_size in A, B; simpl in A, B;
      apply andb_true_iff in A; apply andb_true_iff in B; destruct A as [A1 A2], B as [B1 B2];
      apply N.leb_le in A1, B1; apply N.ltb_lt in A2, B2; lia.
  - intros p [<-|[<-|[]]]; simpl; lia.
Qed.
