(* C20 — specification level.
   Property text: "Every automatically assigned address lies in an enabled pool that is allowed for the
   request's use, node and namespace, is never inside a reservation, and comes back as its block's CIDR.  With
   strict affinity no address comes from a block affine to another host, a host never holds more affine blocks
   than the configured cap, and requests fail rather than violate these limits."

   Everything below reads ONLY the configuration, the requests, the results the implementation returned and
   summaries of the datastore after each operation; it never runs the model.

   Reading of "allowed" (spec_pool_allowed): the pool is enabled, lists the request's IntendedUse in AllowedUses
   and - when the request names pools - is one of the named pools; otherwise it is an Automatic pool whose node
   selector matches the node's labels and whose namespace selector matches the namespace's labels.  (When
   pools are named, ipam.go deliberately ignores both selectors "for backwards compatibility"; theorem
   c20_requested_pools_bypass_selectors records that as a fact about the code.) *)
From Coq Require Import List NArith Bool Arith.
From Verif.Common Require Import Cas.
From Verif.C19 Require Import Model.
From Verif.C20 Require Import Model.
Import ListNotations.
Open Scope N_scope.

(* ------------------------------------------------------------------ the specification *)
Definition spec_pool_allowed (cf : config) (q : request) (p : pool) : bool :=
  negb (p_disabled p) && existsb (use_eqb (q_use q)) (p_uses p) &&
  match q_pools q with
  | [] => negb (p_manual p) && sel_eval (p_nodesel p) (req_labels cf q) && sel_eval (p_nssel p) (q_ns q)
  | rs => existsb (fun r => N.eqb (p_base p) (fst r) && N.eqb (p_size p) (snd r)) rs
  end.

Definition spec_allowed (cf : config) (q : request) (a : N) : bool :=
  existsb (fun p => spec_pool_allowed cf q p && in_pool p a) (g_pools cf).

(* the configured cap: the more restrictive of the global and the per-request value; 20 when neither is set *)
Definition spec_cap (cf : config) (q : request) : nat :=
  match g_maxblocks cf, q_maxblocks q with
  | O, O => 20%nat
  | O, r => r
  | g, O => g
  | g, r => Nat.min g r
  end.

(* summary of the datastore *)
Record snap := {
  s_blocks : list (N * option N * nat);     (* block: first address, affinity, number of addresses *)
  s_affs : list (N * N)                     (* block affinity: host identity, first address of the block *)
}.

Definition block_at (s : snap) (a : N) : option (N * option N * nat) :=
  find (fun b => let '(c, _, n) := b in N.leb c a && N.ltb a (c + N.of_nat n)) (s_blocks s).

Definition count_affs (s : snap) (host : N) (f : N -> bool) : nat :=
  length (filter (fun x => N.eqb (fst x) host && f (snd x)) (s_affs s)).

Definition is_err (e : err) : bool := match e with ENone => false | _ => true end.

(* one completed AutoAssign: request, datastore before and after, returned addresses and error *)
Definition ok_assign (cf : config) (q : request) (pre post : snap) (ips : list (N * nat)) (e : err) : bool :=
  let host := host_of q in
  (* at most what was asked for *)
  Nat.leb (length ips) (q_num q) &&
  forallb (fun ipl =>
    let '(a, plen) := ipl in
    (* in an enabled pool allowed for use, node, namespace (and among the requested pools) *)
    spec_allowed cf q a &&
    (* never inside a reservation *)
    negb (reserved cf a) &&
    (* comes back with the mask of the block that now records it *)
    match block_at post a with
    | Some (c, aff, n) =>
        Nat.eqb plen (32 - Nat.log2 n) &&
        (* strict affinity: the block is affine to the requesting host *)
        (negb (g_strict cf) || optN_eqb aff (Some host))
    | None => false
    end) ips &&
  (* the host holds no more affine blocks, within the pools this request may use, than the cap
     (or than it already held) *)
  Nat.leb (count_affs post host (spec_allowed cf q)) (Nat.max (spec_cap cf q) (count_affs pre host (spec_allowed cf q))) &&
  (* a request for which no pool is allowed fails, returns nothing and claims nothing *)
  (existsb (spec_pool_allowed cf q) (g_pools cf) ||
   (is_err e && match ips with [] => true | _ => false end &&
    Nat.eqb (count_affs post host (fun _ => true)) (count_affs pre host (fun _ => true)))).

(* the cap read literally: ALL blocks affine to the host, whatever pool they are in *)
Definition ok_cap_global (cf : config) (q : request) (pre post : snap) : bool :=
  let host := host_of q in
  Nat.leb (count_affs post host (fun _ => true)) (Nat.max (spec_cap cf q) (count_affs pre host (fun _ => true))).

(* ------------------------------------------------------------------ cases *)
(* one completed operation as the implementation showed it: the datastore summary when it started, its result, the
   datastore summary when it returned.  Operations run one after the other, except that an AutoAssign may be
   preempted once, before its first block write, by other complete operations (of other nodes, or ReleaseAffinity). *)
Record obs := { b_op : op; b_res : result; b_pre : snap; b_post : snap }.

Record case := {
  c_cfg : config;
  c_items : list item;              (* the schedule: operations, some preempted after k accesses by others *)
  c_obs : list obs;                 (* what the implementation did, in the order: preempted operation, preempting ones *)
  c_final : list (key * value);     (* datastore contents at the end (sequence numbers zeroed) *)
  c_literal : bool                  (* also judge the cap read literally (all blocks affine to the host) *)
}.

Definition empty_snap : snap := {| s_blocks := []; s_affs := [] |}.

Definition ok_obs (cf : config) (glob : bool) (o : obs) : bool :=
  match b_op o, b_res o with
  | OpAutoAssign q, RIPs ips e =>
      if glob then ok_cap_global cf q (b_pre o) (b_post o) else ok_assign cf q (b_pre o) (b_post o) ips e
  | OpAutoAssign _, _ => false
  | _, _ => true
  end.

Definition ok_case (c : case) : bool := forallb (ok_obs (c_cfg c) false) (c_obs c).
Definition ok_case_global_cap (c : case) : bool := forallb (ok_obs (c_cfg c) true) (c_obs c).

(* ------------------------------------------------------------------ model side of the comparison *)
Definition norm_block (b : block) : block :=
  {| bk_cidr := bk_cidr b; bk_aff := bk_aff b; bk_allocs := bk_allocs b; bk_unalloc := bk_unalloc b;
     bk_attrs := bk_attrs b; bk_seq := 0; bk_seqs := [] |}.
Definition norm_value (v : value) : value := match v with VBlock b => VBlock (norm_block b) | _ => v end.

Definition store_dump (s : store) : list (key * value) := map (fun e => (e_key e, norm_value (e_val e))) (st_ents s).

Fixpoint snap_of (es : list (Cas.entry key value)) : snap :=
  match es with
  | [] => empty_snap
  | e :: t =>
      let s := snap_of t in
      match e_key e, e_val e with
      | KBlock c, VBlock b => {| s_blocks := (c, bk_aff b, length (bk_allocs b)) :: s_blocks s; s_affs := s_affs s |}
      | KAff h c, _ => {| s_blocks := s_blocks s; s_affs := (h, c) :: s_affs s |}
      | _, _ => s
      end
  end.

Definition err_class (e : err) : N := match e with ENone => 0 | EBlockLimit => 4 | EOutOfModel => 99 | _ => 5 end.
Definition ipl_eqb (a b : N * nat) : bool := N.eqb (fst a) (fst b) && Nat.eqb (snd a) (snd b).
Definition result_eqb (a b : result) : bool :=
  match a, b with
  | RIPs x e, RIPs y f => list_eqb ipl_eqb x y && N.eqb (err_class e) (err_class f)
  | RRel x e, RRel y f => list_eqb N.eqb x y && N.eqb (err_class e) (err_class f)
  | RErr e, RErr f => N.eqb (err_class e) (err_class f)
  | _, _ => false
  end.
Definition blk3_eqb (a b : N * option N * nat) : bool :=
  let '(c, f, n) := a in let '(c', f', n') := b in N.eqb c c' && optN_eqb f f' && Nat.eqb n n'.
Definition snap_eqb (a b : snap) : bool :=
  list_eqb blk3_eqb (s_blocks a) (s_blocks b) &&
  list_eqb (fun x y => N.eqb (fst x) (fst y) && N.eqb (snd x) (snd y)) (s_affs a) (s_affs b).

Definition snap_st (s : store) : snap := snap_of (st_ents s).

Fixpoint run_seq_obs (cf : config) (s : store) (ops : list op) : store * list (result * snap * snap) :=
  match ops with
  | [] => (s, [])
  | o :: t => let '(s1, r) := run s (compile cf o) in
              let '(s2, rs) := run_seq_obs cf s1 t in (s2, (r, snap_st s, snap_st s1) :: rs)
  end.

Fixpoint run_items (cf : config) (s : store) (items : list item) : store * list (result * snap * snap) :=
  match items with
  | [] => (s, [])
  | IOp o :: t =>
      let '(s1, r) := run s (compile cf o) in
      let '(s2, rs) := run_items cf s1 t in (s2, (r, snap_st s, snap_st s1) :: rs)
  | IPre o k inner :: t =>
      let '(s1, p1) := run_upto s (compile cf o) k in
      let '(s2, io) := run_seq_obs cf s1 inner in
      let '(s3, r) := run s2 p1 in
      let '(s4, rs) := run_items cf s3 t in (s4, (r, snap_st s, snap_st s3) :: io ++ rs)
  end.

Definition obs_eqb (m : result * snap * snap) (o : obs) : bool :=
  let '(r, pre, post) := m in result_eqb r (b_res o) && snap_eqb pre (b_pre o) && snap_eqb post (b_post o).

(* index of the first observation that differs (for replays) *)
Fixpoint first_diff (i : nat) (rs : list (result * snap * snap)) (os : list obs) : option nat :=
  match rs, os with
  | m :: t, o :: to => if obs_eqb m o then first_diff (S i) t to else Some i
  | [], [] => None
  | _, _ => Some i
  end.
Definition model_agrees (c : case) : bool :=
  let '(s, rs) := run_items (c_cfg c) init_store (c_items c) in
  match first_diff 0 rs (c_obs c) with None => true | Some _ => false end &&
  list_eqb (fun a b => key_eqb (fst a) (fst b) && value_eqb (snd a) (snd b)) (store_dump s) (c_final c).

Definition first_bad (c : case) : option nat :=
  first_diff 0 (snd (run_items (c_cfg c) init_store (c_items c))) (c_obs c).

Definition check_case (c : case) : bool * bool :=
  (model_agrees c, ok_case c && (negb (c_literal c) || ok_case_global_cap c)).
