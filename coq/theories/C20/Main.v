(* C20 — the property's clauses for every completed AutoAssign of every client under every schedule. *)
From Coq Require Import List NArith Bool Arith Lia.
From Verif.Common Require Import Cas.
From Verif.C19 Require Import Model BlockLemmas.
From Verif.C20 Require Import Model Spec Lemmas Proofs.
Import ListNotations.
Open Scope N_scope.

(* the domain of the model: pools pairwise disjoint, blocks not empty *)
Definition cfg_ok (cf : config) : Prop :=
  (forall p p' a, In p (g_pools cf) -> In p' (g_pools cf) -> in_pool p a = true -> in_pool p' a = true -> p = p') /\
  (forall p, In p (g_pools cf) -> (0 < p_bsize p)%nat).

Notation sys_run := (@Cas.sys_run key value lopt key_eqb key_ltb lmatch (list (op * result))).

(* final datastore of a run of the clients under a schedule (list of events: which client moves, with which fault) *)
Definition final (cf : config) (clients : list (list op)) (evs : list Cas.event) :=
  sy_store (sys_run (sys0 cf clients) evs).
(* client i has completed all its operations and returned l *)
Definition completed (cf : config) (clients : list (list op)) (evs : list Cas.event) (i : nat) (l : list (op * result)) :=
  nth_error (sy_clients (sys_run (sys0 cf clients) evs)) i = Some (CRun (Ret l)).

Lemma completed_good cf clients evs i l q ips e :
  cfg_ok cf -> completed cf clients evs i l -> In (OpAutoAssign q, RIPs ips e) l ->
  exists H', Cas.store_hist (final cf clients evs) H' /\ (length ips <= q_num q)%nat /\
             Forall (good cf (allowed cf q) (host_of q) H') ips.
Proof.
  intros [D B] C Hin. destruct (completed_results cf D B clients evs i l C) as (H' & SH & _ & F).
  exists H'. split; [exact SH|]. rewrite Forall_forall in F. specialize (F _ Hin). simpl in F. exact F.
Qed.

Lemma in_allowed_spec cf q p a : In p (allowed cf q) -> in_pool p a = true -> spec_allowed cf q a = true.
Proof.
  unfold allowed. destruct (determine_pools cf q) as [sel|] eqn:D; [|intros []].
  intros Hin IP. destruct (allowed_meets_spec _ _ _ _ D Hin) as [Ig SP].
  unfold spec_allowed. apply existsb_exists. exists p. split; auto. rewrite SP, IP. reflexivity.
Qed.

Lemma good_in_allowed cf q H a l : good cf (allowed cf q) (host_of q) H (a, l) -> spec_allowed cf q a = true.
Proof. intros (p & c & o & rev & b2 & G). eapply in_allowed_spec; [apply G | apply G]. Qed.

Lemma no_pool_no_access cf q : allowed cf q = [] -> auto_assign cf q = Ret (RIPs [] EOther).
Proof.
  unfold allowed, auto_assign. destruct (determine_pools cf q) as [[|s0 st]|]; auto.
  intros ->. reflexivity.
Qed.

(* the literal reading of the cap fails on the model exactly as on the code: two pools with different allowed
   uses, MaxBlocksPerHost = 1, one node asks for a Workload and then for a Tunnel address *)
Definition cap_cfg (capfix : bool) : config :=
  {| g_pools := [ {| p_base := 167772416; p_nblocks := 2; p_bsize := 4; p_disabled := false; p_manual := false;
                     p_uses := [UWorkload]; p_nodesel := []; p_nssel := []; p_starts := [] |};
                  {| p_base := 167772672; p_nblocks := 2; p_bsize := 4; p_disabled := false; p_manual := false;
                     p_uses := [UTunnel]; p_nodesel := []; p_nssel := []; p_starts := [] |} ];
     g_resv := []; g_strict := true; g_autoalloc := true; g_maxblocks := 1; g_retries := 100; g_nodes := [(0, [])];
     g_fx := false; g_capfix := capfix |}.
Definition cap_ops : list op :=
  [ OpAutoAssign {| q_node := 0; q_use := UWorkload; q_ns := []; q_pools := []; q_maxblocks := 0; q_handle := 1; q_tag := 0; q_num := 1 |};
    OpAutoAssign {| q_node := 0; q_use := UTunnel; q_ns := []; q_pools := []; q_maxblocks := 0; q_handle := 2; q_tag := 0; q_num := 1 |} ].

Lemma cap_literal_refuted :
  let '(s, rs) := run_ops (cap_cfg false) init_store cap_ops in
  rs = [RIPs [(167772416, 30%nat)] ENone; RIPs [(167772672, 30%nat)] ENone] /\
  count_affs (snap_of (st_ents s)) 0 (fun _ => true) = 2%nat /\ g_maxblocks (cap_cfg false) = 1%nat.
Proof. vm_compute. repeat split. Qed.

(* the same history on the variant with fixes/C20-count-all-affine-blocks.patch: the second request fails with the
   block-limit error, returns nothing, and the node keeps one affine block *)
Lemma cap_fixed_witness :
  let '(s, rs) := run_ops (cap_cfg true) init_store cap_ops in
  rs = [RIPs [(167772416, 30%nat)] ENone; RIPs [] EBlockLimit] /\
  count_affs (snap_of (st_ents s)) 0 (fun _ => true) = 1%nat.
Proof. vm_compute. repeat split. Qed.

(* requested pools bypass the node selector (documented in determinePools: "for backwards compatibility") *)
Definition byp_cfg : config :=
  {| g_pools := [ {| p_base := 167772416; p_nblocks := 2; p_bsize := 4; p_disabled := false; p_manual := false;
                     p_uses := [UWorkload]; p_nodesel := [SHas 0]; p_nssel := []; p_starts := [] |} ];
     g_resv := []; g_strict := false; g_autoalloc := true; g_maxblocks := 0; g_retries := 100; g_nodes := [(0, [])];
     g_fx := false; g_capfix := false |}.
Definition byp_req (rq : list (N * N)) : request :=
  {| q_node := 0; q_use := UWorkload; q_ns := []; q_pools := rq; q_maxblocks := 0; q_handle := 1; q_tag := 0; q_num := 1 |}.

Lemma requested_bypass :
  snd (run init_store (auto_assign byp_cfg (byp_req []))) = RIPs [] EOther /\
  snd (run init_store (auto_assign byp_cfg (byp_req [(167772416, 8)]))) = RIPs [(167772416, 30%nat)] ENone.
Proof. vm_compute. split; reflexivity. Qed.

(* the hypotheses of the sequential cap theorem are satisfiable by a run that really claims a block *)
Definition cap_cfg1 : config :=
  {| g_pools := g_pools (cap_cfg true); g_resv := []; g_strict := true; g_autoalloc := true; g_maxblocks := 1;
     g_retries := 1; g_nodes := [(0, [])]; g_fx := true; g_capfix := true |}.
Definition cap_req1 : request :=
  {| q_node := 0; q_use := UWorkload; q_ns := []; q_pools := []; q_maxblocks := 0; q_handle := 1; q_tag := 0; q_num := 1 |}.

Lemma cap_fixed_hyps_inhabited :
  g_capfix cap_cfg1 = true /\ g_retries cap_cfg1 = 1%nat /\
  forallb (fun p => selects_node cap_cfg1 cap_req1 p) (enabled_pools cap_cfg1) = true /\
  snd (run init_store (auto_assign cap_cfg1 cap_req1)) = RIPs [(167772416, 30%nat)] ENone.
Proof. vm_compute. repeat split. Qed.
