(* C20 — pure lemmas: the block functions with reservations, pool selection, pool geometry. *)
From Coq Require Import List NArith Bool Arith Lia.
From Verif.Common Require Import Cas.
From Verif.C19 Require Import Model BlockLemmas.
From Verif.C20 Require Import Model Spec.
Import ListNotations.
Open Scope N_scope.

(* ------------------------------------------------------------------ allocationBlock.autoAssign with reservations *)
Lemma pick_spec resv cidr : forall un num tk rm, pick resv cidr num un = (tk, rm) ->
  (forall o, In o tk -> In o un /\ resv (cidr + N.of_nat o) = false) /\
  (forall o, In o rm -> In o un) /\ (length tk <= num)%nat.
Proof.
  induction un as [|o un IH]; intros num tk rm E; simpl in E.
  - inversion E; subst. split; [intros o []|]. split; [intros o []|]. simpl; lia.
  - destruct num as [|n'].
    + inversion E; subst. split; [intros x []|]. split; [auto|]. simpl; lia.
    + destruct (resv (cidr + N.of_nat o)) eqn:RV.
      * destruct (pick resv cidr (S n') un) as [tk' rm'] eqn:P. inversion E; subst.
        destruct (IH _ _ _ P) as (A & B & C). split; [|split].
        -- intros x X. destruct (A _ X). split; simpl; auto.
        -- intros x [->|X]; simpl; auto.
        -- exact C.
      * destruct (pick resv cidr n' un) as [tk' rm'] eqn:P. inversion E; subst.
        destruct (IH _ _ _ P) as (A & B & C). split; [|split].
        -- intros x [->|X]; [split; simpl; auto|]. destruct (A _ X). split; simpl; auto.
        -- intros x X; simpl; auto.
        -- simpl. lia.
Qed.

Lemma aff_check_ok_true b host : aff_check_ok b true host = true -> bk_aff b = Some host.
Proof.
  unfold aff_check_ok. destruct (bk_aff b) as [h|]; simpl; [|discriminate].
  intros E. apply N.eqb_eq in E. subst; auto.
Qed.

Lemma baa_spec resv b num h tag ac host b' ips :
  blk_auto_assign_r resv b num h tag ac host = Some (b', ips) ->
  bk_cidr b' = bk_cidr b /\ bk_aff b' = bk_aff b /\ length (bk_allocs b') = length (bk_allocs b) /\
  (forall o, In o (bk_unalloc b') -> In o (bk_unalloc b)) /\
  (length ips <= num)%nat /\
  (ac = true -> bk_aff b = Some host) /\
  (forall a l, In (a, l) ips ->
     exists o, In o (bk_unalloc b) /\ a = bk_cidr b + N.of_nat o /\ resv a = false /\ l = blk_plen b).
Proof.
  unfold blk_auto_assign_r. destruct (aff_check_ok b ac host) eqn:AC; simpl; [|discriminate].
  destruct (pick resv (bk_cidr b) num (bk_unalloc b)) as [take rm] eqn:P.
  destruct (pick_spec _ _ _ _ _ _ P) as (A & B & C).
  assert (ACH : ac = true -> bk_aff b = Some host) by (intros ->; apply aff_check_ok_true; auto).
  destruct take as [|t0 take'].
  - intros E; inversion E; subst. repeat split; auto; simpl; try lia; intros a l [].
  - remember (t0 :: take') as take.
    destruct (find_or_add_attr (bk_attrs b) {| at_handle := Some h; at_tag := tag |}) as [attrs idx].
    intros E; inversion E; subst b' ips; simpl. repeat split; auto.
    + apply fold_set_length.
    + rewrite map_length; auto.
    + intros a l Hin. apply in_map_iff in Hin. destruct Hin as (o & E1 & Hin). inversion E1; subst.
      exists o. destruct (A _ Hin). repeat split; auto.
Qed.

(* ------------------------------------------------------------------ pool geometry *)
Definition is_block (p : pool) (c : N) : Prop := exists i, (i < p_nblocks p)%nat /\ c = pool_block p i.

Lemma pool_order_is_block p node c : In c (pool_order p node) -> is_block p c.
Proof.
  unfold pool_order. intros Hin. apply in_map_iff in Hin. destruct Hin as (i & E & Hin).
  exists i. split; auto. apply in_app_or in Hin. destruct Hin as [X|X]; apply in_seq in X; lia.
Qed.

Lemma block_addr_in_pool p c o : is_block p c -> (o < p_bsize p)%nat -> in_pool p (c + N.of_nat o) = true.
Proof.
  intros (i & Hi & ->) Ho. unfold in_pool, pool_block, p_size.
  assert (X : (i * p_bsize p + o < p_nblocks p * p_bsize p)%nat) by nia.
  apply andb_true_iff. split; [apply N.leb_le | apply N.ltb_lt]; lia.
Qed.

Lemma is_block_in_pool p c : is_block p c -> (0 < p_bsize p)%nat -> in_pool p c = true.
Proof.
  intros IB BP. replace c with (c + N.of_nat 0) by (simpl; lia). apply block_addr_in_pool; auto.
Qed.

Lemma find_pool_some ps a p : find_pool ps a = Some p -> In p ps /\ in_pool p a = true.
Proof. unfold find_pool. intros E. apply find_some in E. auto. Qed.

Lemma with_bsize_spec ps cs c bs : In (c, bs) (with_bsize ps cs) ->
  exists p, In p ps /\ in_pool p c = true /\ bs = p_bsize p /\ In c cs.
Proof.
  induction cs as [|c0 cs IH]; simpl; [tauto|].
  destruct (find_pool ps c0) as [p|] eqn:F.
  - intros [X|X].
    + inversion X; subst. apply find_pool_some in F. exists p. tauto.
    + destruct (IH X) as (p' & A & B & C & D). exists p'. tauto.
  - intros X. destruct (IH X) as (p' & A & B & C & D). exists p'. tauto.
Qed.

(* ------------------------------------------------------------------ pool selection meets the specification *)
Lemma find_requested_spec en r p : find_requested en r = Some p ->
  In p en /\ N.eqb (p_base p) (fst r) && N.eqb (p_size p) (snd r) = true.
Proof.
  induction en as [|p0 en IH]; simpl; [discriminate|].
  destruct (N.eqb (p_base p0) (fst r) && N.eqb (p_size p0) (snd r)) eqn:E.
  - intros X; inversion X; subst. auto.
  - intros X. destruct (IH X). auto.
Qed.

Lemma lookup_requested_spec en : forall rs l p, lookup_requested en rs = Some l -> In p l ->
  In p en /\ existsb (fun r => N.eqb (p_base p) (fst r) && N.eqb (p_size p) (snd r)) rs = true.
Proof.
  induction rs as [|r rs IH]; simpl; intros l p E Hin.
  - inversion E; subst. destruct Hin.
  - destruct (find_requested en r) as [p0|] eqn:F; [|discriminate].
    destruct (lookup_requested en rs) as [l0|] eqn:L; [|discriminate].
    inversion E; subst. destruct Hin as [->|Hin].
    + destruct (find_requested_spec _ _ _ F) as [A B]. split; auto. rewrite B. auto.
    + destruct (IH _ _ eq_refl Hin) as [A B]. split; auto. rewrite B. apply orb_true_r.
Qed.

Lemma lookup_requested_nil en rs : lookup_requested en rs = Some [] -> rs = [].
Proof.
  destruct rs as [|r rs]; simpl; auto.
  destruct (find_requested en r); [|discriminate]. destruct (lookup_requested en rs); discriminate.
Qed.

(* every pool AutoAssign may draw from is a configured pool the specification allows for the request *)
Lemma allowed_meets_spec cf q sel p :
  determine_pools cf q = Some sel -> In p (by_use (q_use q) sel) ->
  In p (g_pools cf) /\ spec_pool_allowed cf q p = true.
Proof.
  unfold determine_pools, by_use, spec_pool_allowed. intros D Hin.
  apply filter_In in Hin. destruct Hin as [Hin US].
  assert (EN : forall x, In x (enabled_pools cf) -> In x (g_pools cf) /\ p_disabled x = false).
  { intros x X. unfold enabled_pools in X. apply filter_In in X. destruct X as [X Y].
    split; auto. destruct (p_disabled x); auto; discriminate. }
  destruct (enabled_pools cf) as [|e0 en] eqn:EE; [discriminate|]. rewrite <- EE in *.
  destruct (lookup_requested (enabled_pools cf) (q_pools q)) as [[|p0 l]|] eqn:L; [| |discriminate].
  - apply lookup_requested_nil in L. rewrite L. inversion D; subst sel.
    apply filter_In in Hin. destruct Hin as [Hin SEL]. destruct (EN _ Hin) as [A B].
    split; auto. rewrite B, US. simpl. unfold selects_node in SEL. exact SEL.
  - inversion D; subst sel. destruct (lookup_requested_spec _ _ _ _ L Hin) as [A B].
    destruct (EN _ A) as [A' B']. split; auto. rewrite B', US. simpl.
    destruct (q_pools q) as [|r rs]; [simpl in L; discriminate|]. exact B.
Qed.

(* the effective limit of the code is the cap of the specification *)
Lemma eff_maxblocks_spec cf q : eff_maxblocks cf q = spec_cap cf q.
Proof.
  unfold eff_maxblocks, spec_cap. destruct (g_maxblocks cf) as [|g], (q_maxblocks q) as [|r]; simpl; auto.
  destruct (Nat.ltb (S g) (S r)) eqn:E.
  - apply Nat.ltb_lt in E. rewrite Nat.min_l by lia. reflexivity.
  - apply Nat.ltb_ge in E. rewrite Nat.min_r by lia. reflexivity.
Qed.
