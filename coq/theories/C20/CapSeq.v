(* C20 — block cap of the REPAIRED variant (g_capfix = true, fixes/C20-count-all-affine-blocks.patch), sequential
   executions on the concrete datastore semantics (Cas.exec): after an AutoAssign the host has at most
   max(limit, what it had before) block affinities.

   Proved under the hypotheses stated at c20_block_cap_fixed below.  Two of them are restrictions:
     - every enabled pool's node selector matches the node (so prepareAffinityBlocksForHost releases nothing and
       numBlocksOwned starts at exactly the number of the host's affinities);
     - g_retries = 1 (each CAS loop gives up after one attempt).  It is used in exactly one lemma, claim_outer_bound:
       "findOrClaimBlock's claim loop adds at most one affinity".  For the real bound 100 that lemma additionally needs:
       when claim_inner answers "try another block" (claim conflict / stale affinity) the pending affinity it created
       is gone again.  The program deletes it, but the delete's answer is ignored on the claim-conflict path and a
       run of EConflict answers exhausts the inner loop; so the missing lemma is "a single client never receives
       RConflict from Cas.exec" (revision tracking through getPendingAffinity / getBlockFromAffinity). *)
From Coq Require Import List NArith Bool Arith Lia.
From Verif.Common Require Import Cas.
From Verif.C19 Require Import Model ModelV BlockLemmas.
From Verif.C20 Require Import Model Lemmas Cap.
Import ListNotations.
Open Scope N_scope.

Notation keys := (@Cas.keys key value).

(* ------------------------------------------------------------------ counting keys *)
Definition countP (P : key -> bool) (s : store) : nat := length (filter P (keys s)).

Definition affh (host : N) (k : key) : bool := match k with KAff h _ => N.eqb h host | _ => false end.
Definition affx (host c : N) (k : key) : bool := affh host k && negb (key_eqb k (KAff host c)).

(* the program never creates a key satisfying P, on any path *)
Fixpoint nacP {A} (P : key -> bool) (p : prog A) : Prop :=
  match p with
  | Ret _ => True
  | Act rq k => match rq with RCreate k' _ => P k' = false | _ => True end /\ forall rs, nacP P (k rs)
  end.

Lemma nacP_bind {A B} P (p : prog A) (f : A -> prog B) : nacP P p -> (forall a, nacP P (f a)) -> nacP P (Cas.bind p f).
Proof.
  induction p as [a | rq k IH]; simpl; intros Np Nf; [apply Nf|].
  destruct Np as [N1 N2]. split; [exact N1|]. intros rs. apply IH; auto.
Qed.

Lemma nac_nacP {A} P (p : prog A) : (forall k, P k = true -> exists h c, k = KAff h c) -> nac p -> nacP P p.
Proof.
  intros HP. induction p as [a | rq k IH]; simpl; auto. intros [N1 N2]. split; [|intros rs; apply IH; apply N2].
  destruct rq; auto. destruct (P k0) eqn:E; auto. destruct (HP _ E) as (h & c & ->). destruct N1.
Qed.

Section Lists.
  Variable P : key -> bool.
  Notation entry := (Cas.entry key value).

  Lemma filter_sinsert (es : list entry) n : P (e_key n) = false ->
    filter P (map (@e_key key value) (Cas.sinsert key_ltb es n)) = filter P (map (@e_key key value) es).
  Proof.
    intros Pn. induction es as [|a es IH]; simpl; [rewrite Pn; auto|].
    destruct (key_ltb (e_key n) (e_key a)); simpl; [rewrite Pn; auto|]. rewrite IH. auto.
  Qed.

  Lemma filter_remove_le (es : list entry) k :
    (length (filter P (map (@e_key key value) (Cas.remove key_eqb es k))) <= length (filter P (map (@e_key key value) es)))%nat.
  Proof.
    induction es as [|a es IH]; simpl; auto. destruct (key_eqb (e_key a) k); simpl.
    - destruct (P (e_key a)); simpl; lia.
    - destruct (P (e_key a)); simpl; lia.
  Qed.
End Lists.

Lemma exec_count P s rq : (forall k v, rq = RCreate k v -> P k = false) ->
  (countP P (fst (exec s rq)) <= countP P s)%nat.
Proof.
  intros HC. unfold countP, exec, Cas.keys. destruct rq as [k | l | k v | k v rev | k rev]; simpl; auto.
  - destruct (Cas.lookup key_eqb (st_ents s) k) eqn:L; simpl; auto.
    unfold Cas.insert; simpl. rewrite L. rewrite filter_sinsert; auto. simpl. eapply HC; eauto.
  - destruct (Cas.lookup key_eqb (st_ents s) k) as [e0|] eqn:L; simpl; auto.
    destruct (N.eqb (e_rev e0) rev); simpl; auto.
    unfold Cas.insert; simpl. rewrite L.
    rewrite (@Cas.keys_replace key value key_eqb key_eqb_eq); simpl; auto. congruence.
  - destruct (Cas.lookup key_eqb (st_ents s) k) as [e0|] eqn:L; simpl; auto.
    destruct (N.eqb (e_rev e0) rev); simpl; auto. apply filter_remove_le.
Qed.

Lemma run_count {A} P (p : prog A) : forall s, nacP P p -> (countP P (fst (run s p)) <= countP P s)%nat.
Proof.
  induction p as [a | rq k IH]; intros s Np; simpl; auto. destruct Np as [N1 N2].
  destruct (exec s rq) as [s' rs] eqn:E. eapply Nat.le_trans; [apply IH; apply N2|].
  replace s' with (fst (exec s rq)) by (rewrite E; auto). apply exec_count.
  intros k0 v ->. exact N1.
Qed.

Lemma run_nodup {A} (p : prog A) : forall s, NoDup (keys s) -> NoDup (keys (fst (run s p))).
Proof.
  induction p as [a | rq k IH]; intros s ND; simpl; auto.
  destruct (exec s rq) as [s' rs] eqn:E. apply IH.
  replace s' with (fst (exec s rq)) by (rewrite E; auto).
  apply (@Cas.exec_keys_nodup key value lopt key_eqb key_ltb lmatch key_eqb_eq); exact ND.
Qed.

Lemma run_bind {A B} (p : prog A) (f : A -> prog B) : forall s,
  run s (Cas.bind p f) = let '(s1, a) := run s p in run s1 (f a).
Proof.
  induction p as [a | rq k IH]; intros s; simpl; auto. destruct (exec s rq) as [s' rs]. apply IH.
Qed.

(* with pairwise distinct keys, at most one key is (host, c) *)
Lemma affh_le_affx host c (l : list key) : NoDup l ->
  (length (filter (affh host) l) <= length (filter (affx host c) l) + 1)%nat.
Proof.
  assert (SUB : forall l, ~ In (KAff host c) l -> filter (affh host) l = filter (affx host c) l).
  { induction l0 as [|a t IH]; simpl; auto. intros NI. unfold affx at 1.
    destruct (affh host a) eqn:Ea; simpl.
    - destruct (key_eqb a (KAff host c)) eqn:Ek; simpl.
      + apply key_eqb_eq in Ek. subst a. exfalso. apply NI; auto.
      + f_equal. apply IH. intros X; apply NI; auto.
    - apply IH. intros X; apply NI; auto. }
  induction l as [|a t IH]; simpl; intros ND; [lia|]. inversion ND as [|? ? NI ND']; subst.
  unfold affx at 1. destruct (affh host a) eqn:Ea; simpl; [|apply IH; auto].
  destruct (key_eqb a (KAff host c)) eqn:Ek; simpl.
  - apply key_eqb_eq in Ek. subst a. rewrite (SUB t NI). lia.
  - specialize (IH ND'). lia.
Qed.

Definition Nh (host : N) (s : store) : nat := countP (affh host) s.

(* a program that creates no affinity of the host except for block c adds at most one *)
Lemma run_plus_one {A} host c (p : prog A) s : NoDup (keys s) -> nacP (affx host c) p ->
  (Nh host (fst (run s p)) <= Nh host s + 1)%nat.
Proof.
  intros ND Np. pose proof (run_count _ p s Np) as C. pose proof (run_nodup p s ND) as ND'.
  pose proof (affh_le_affx host c _ ND') as B.
  assert (countP (affx host c) s <= Nh host s)%nat.
  { unfold Nh, countP. generalize (keys s). induction l as [|a t IH]; simpl; auto.
    unfold affx at 1. destruct (affh host a); simpl; [|auto]. destruct (negb _); simpl; lia. }
  unfold Nh, countP in *. lia.
Qed.

Lemma run_no_more {A} host (p : prog A) s : nac p -> (Nh host (fst (run s p)) <= Nh host s)%nat.
Proof.
  intros Np. apply run_count. apply nac_nacP; auto.
  intros k E. destruct k; simpl in E; try discriminate. eauto.
Qed.

Lemma allres_run {A} (Q : A -> Prop) (p : prog A) : forall s, allres Q p -> Q (snd (run s p)).
Proof.
  induction p as [a | rq k IH]; intros s AR; simpl; auto. destruct (exec s rq) as [s' rs]. apply IH. apply AR.
Qed.

(* ------------------------------------------------------------------ programs *)
Lemma nac_find_usable cf host node ps : nac (find_usable cf host node ps).
Proof.
  unfold find_usable. destruct ps as [|p0 pt]; [exact I|]. remember (p0 :: pt) as ps'.
  cbn [nac]. split; [exact I|]. intros rs.
  destruct rs; try exact I. destruct (first_usable cf es host node ps'); exact I.
Qed.

Lemma affx_kaff host c k : affx host c k = true -> exists h c', k = KAff h c'.
Proof. unfold affx. destruct k; simpl; try discriminate. eauto. Qed.

Lemma nacP_of_nac {A} host c (p : prog A) : nac p -> nacP (affx host c) p.
Proof. apply nac_nacP. apply affx_kaff. Qed.

Lemma affx_self host c : affx host c (KAff host c) = false.
Proof. unfold affx. simpl. rewrite !N.eqb_refl. reflexivity. Qed.

Lemma nacP_get_pending_aff host c : nacP (affx host c) (get_pending_aff host c).
Proof.
  unfold get_pending_aff. apply nacP_bind.
  - unfold create_aff. simpl. split; [apply affx_self|]. intros rs. destruct rs; exact I.
  - intros [rev|e]; [exact I|]. destruct e; try exact I.
    apply nacP_bind; [apply nacP_of_nac, nac_get_aff|]. intros [[st rev]|e]; [|exact I].
    destruct st; try exact I; (apply nacP_bind; [apply nacP_of_nac, nac_update_aff|]; intros [r|e]; exact I).
Qed.

Lemma nacP_claim_inner cf fuel : forall host c bs, nacP (affx host c) (claim_inner cf fuel host c bs).
Proof.
  induction fuel as [|f IH]; intros host c bs; cbn [claim_inner]; [exact I|].
  apply nacP_bind; [apply nacP_get_pending_aff|]. intros [aff|e].
  - apply nacP_bind; [apply nacP_of_nac, nac_get_block_from_aff|]. intros [[b brev]|e].
    + destruct (Nat.leb 1 (num_free_r (reserved cf) b)); exact I.
    + destruct e; try exact I. apply IH.
  - destruct e; try exact I. apply IH.
Qed.

Section Seq.
  Variable cf : config.
  Hypothesis ONE : g_retries cf = 1%nat.

  (* findOrClaimBlock's claim loop adds at most one affinity (the only place that uses g_retries = 1) *)
  Lemma claim_outer_bound host node ps s : NoDup (keys s) ->
    (Nh host (fst (run s (claim_outer cf (g_retries cf) host node ps))) <= Nh host s + 1)%nat.
  Proof.
    intros ND. rewrite ONE. cbn [claim_outer]. rewrite run_bind.
    pose proof (run_no_more host (find_usable cf host node ps) s (nac_find_usable _ _ _ _)) as N0.
    pose proof (run_nodup (find_usable cf host node ps) s ND) as ND0.
    destruct (run s (find_usable cf host node ps)) as [s0 u]. simpl in N0, ND0.
    destruct u as [[c bs]|e]; [|simpl; lia].
    rewrite run_bind.
    pose proof (run_plus_one host c (claim_inner cf (g_retries cf) host c bs) s0 ND0 (nacP_claim_inner _ _ _ _ _)) as N1.
    destruct (run s0 (claim_inner cf (g_retries cf) host c bs)) as [s1 r]. simpl in N1.
    destruct r as [bk | | e]; simpl; lia.
  Qed.

  Definition fc_post (host : N) (allow : bool) (s s1 : store) (r : res (block * N * N * bool) * list (N * nat)) : Prop :=
    NoDup (keys s1) /\ (Nh host s1 <= Nh host s + 1)%nat /\
    (allow = false -> (Nh host s1 <= Nh host s)%nat) /\
    (forall x rest, r = (inl (x, false), rest) -> (Nh host s1 <= Nh host s)%nat).

  Lemma find_or_claim_bound rem host node ps allow s : NoDup (keys s) ->
    fc_post host allow s (fst (run s (find_or_claim cf rem host node ps allow)))
            (snd (run s (find_or_claim cf rem host node ps allow))).
  Proof.
    intros ND. unfold fc_post. split; [apply run_nodup; exact ND|].
    unfold find_or_claim. rewrite run_bind.
    pose proof (run_no_more host (scan_affine cf rem host) s (nac_scan_affine _ _ _)) as N0.
    pose proof (run_nodup (scan_affine cf rem host) s ND) as ND0.
    destruct (run s (scan_affine cf rem host)) as [s0 sc]. simpl in N0, ND0.
    destruct sc as [[[bk c]|] rest]; simpl.
    - repeat split; intros; lia.
    - destruct allow; simpl.
      + destruct (g_autoalloc cf); simpl; [|repeat split; intros; try discriminate; lia].
        rewrite run_bind.
        pose proof (claim_outer_bound host node ps s0 ND0) as N1.
        destruct (run s0 (claim_outer cf (g_retries cf) host node ps)) as [s1 r]. simpl in N1.
        destruct r as [[bk c]|e]; simpl; repeat split; intros; try discriminate; try lia.
      + repeat split; intros; lia.
  Qed.

  (* the loop of autoAssign, entered with the host's affinities not exceeding numBlocksOwned *)
  Lemma aa_loop_bound fuel : forall s ips rem owned maxb num h tag host node ps,
    NoDup (keys s) -> (Nh host s <= owned)%nat ->
    (Nh host (fst (run s (aa_loop cf fuel ips rem owned maxb num h tag host node ps))) <= Nat.max owned maxb)%nat.
  Proof.
    induction fuel as [|f IH]; intros s ips rem owned maxb num h tag host node ps ND LE; cbn [aa_loop].
    - destruct (Nat.leb num (length ips)); simpl; lia.
    - destruct (Nat.leb num (length ips)); [simpl; lia|].
      rewrite run_bind.
      pose proof (find_or_claim_bound rem host node ps (Nat.ltb owned maxb) s ND) as FC.
      pose proof (allres_run _ _ s (find_or_claim_at_cap_never_new cf rem host node ps)) as NN.
      destruct (Nat.ltb owned maxb) eqn:LT.
      + apply Nat.ltb_lt in LT.
        destruct (run s (find_or_claim cf rem host node ps true)) as [s1 fc].
        destruct FC as (ND1 & P1 & _ & PF). simpl in ND1, P1, PF.
        destruct fc as [[[[bk c] newly]|e] rem'].
        * rewrite run_bind.
          pose proof (run_no_more host (assign_retry cf (g_retries cf) bk c (num - length ips) h tag host) s1
                        (nac_assign_retry _ _ _ _ _ _ _ _)) as N2.
          pose proof (run_nodup (assign_retry cf (g_retries cf) bk c (num - length ips) h tag host) s1 ND1) as ND2.
          destruct (run s1 (assign_retry cf (g_retries cf) bk c (num - length ips) h tag host)) as [s2 new].
          simpl in N2, ND2. destruct newly.
          -- eapply Nat.le_trans; [apply IH; [exact ND2 | lia]|]. lia.
          -- specialize (PF _ _ eq_refl). eapply Nat.le_trans; [apply IH; [exact ND2 | lia]|]. lia.
        * assert (X : (Nh host s1 <= Nat.max owned maxb)%nat) by lia.
          destruct e; simpl; try exact X.
          destruct (negb (g_strict cf)); simpl; [|exact X].
          rewrite run_bind.
          pose proof (run_no_more host (na_loop cf (na_order cf node ps) ips num h tag host) s1 (nac_na_loop _ _ _ _ _ _ _)) as N2.
          destruct (run s1 (na_loop cf (na_order cf node ps) ips num h tag host)) as [s2 ips']. simpl in *. lia.
      + destruct (run s (find_or_claim cf rem host node ps false)) as [s1 fc].
        destruct FC as (ND1 & _ & P0 & _). simpl in ND1, P0, NN. specialize (P0 eq_refl).
        destruct fc as [[[[bk c] newly]|e] rem'].
        * simpl in NN. subst newly. rewrite run_bind.
          pose proof (run_no_more host (assign_retry cf (g_retries cf) bk c (num - length ips) h tag host) s1
                        (nac_assign_retry _ _ _ _ _ _ _ _)) as N2.
          pose proof (run_nodup (assign_retry cf (g_retries cf) bk c (num - length ips) h tag host) s1 ND1) as ND2.
          destruct (run s1 (assign_retry cf (g_retries cf) bk c (num - length ips) h tag host)) as [s2 new].
          simpl in N2, ND2. eapply Nat.le_trans; [apply IH; [exact ND2 | lia]|]. lia.
        * assert (X : (Nh host s1 <= Nat.max owned maxb)%nat) by lia.
          destruct e; simpl; try exact X.
          destruct (negb (g_strict cf)); simpl; [|exact X].
          rewrite run_bind.
          pose proof (run_no_more host (na_loop cf (na_order cf node ps) ips num h tag host) s1 (nac_na_loop _ _ _ _ _ _ _)) as N2.
          destruct (run s1 (na_loop cf (na_order cf node ps) ips num h tag host)) as [s2 ips']. simpl in *. lia.
  Qed.
End Seq.

(* ------------------------------------------------------------------ AutoAssign *)
Lemma aff_cidrs_count host (ents : list (Cas.entry key value)) :
  length (aff_cidrs (filter (fun e => lmatch (LAffs host) (e_key e)) ents)) =
  length (filter (affh host) (map (@e_key key value) ents)).
Proof.
  induction ents as [|e t IH]; simpl; auto.
  destruct (e_key e) eqn:EK; simpl; auto.
  destruct (N.eqb host host0) eqn:E1.
  - apply N.eqb_eq in E1. subst host0. rewrite N.eqb_refl. simpl. rewrite EK. simpl. f_equal. exact IH.
  - rewrite N.eqb_sym, E1. exact IH.
Qed.

Lemma filter_none {A} (f : A -> bool) l : (forall x, f x = false) -> filter f l = [].
Proof. intros F. induction l as [|a t IH]; simpl; auto. rewrite F. exact IH. Qed.

Theorem block_cap_fixed cf q s :
  g_capfix cf = true -> g_retries cf = 1%nat ->
  (forall p, In p (enabled_pools cf) -> selects_node cf q p = true) ->
  NoDup (keys s) ->
  (Nh (host_of q) (fst (run s (auto_assign cf q))) <= Nat.max (eff_maxblocks cf q) (Nh (host_of q) s))%nat.
Proof.
  intros CAP ONE SEL ND. unfold auto_assign.
  destruct (determine_pools cf q) as [[|s0 st]|]; try (simpl; lia).
  destruct (by_use (q_use q) (s0 :: st)) as [|a0 at_] eqn:BU; [simpl; lia|]. rewrite <- BU. clear BU.
  cbn [run]. unfold exec at 1. cbn [Cas.exec].
  match goal with |- context [release_all cf ?l _] => assert (E : l = []) end.
  { apply filter_none. intros c. destruct (find_pool (enabled_pools cf) c) as [p|] eqn:F; auto.
    apply find_pool_some in F. destruct F as [Ip _]. rewrite (SEL _ Ip). reflexivity. }
  rewrite E. cbn [release_all]. rewrite run_bind. cbn [run]. rewrite CAP, Nat.sub_0_r.
  rewrite Nat.max_comm.
  assert (LEN : length (aff_cidrs (filter (fun e => lmatch (LAffs (host_of q)) (e_key e)) (st_ents s))) = Nh (host_of q) s).
  { unfold Nh, countP, Cas.keys. apply aff_cidrs_count. }
  rewrite LEN. apply aa_loop_bound; auto.
Qed.
