(* C20 — executable model of ipamClient.AutoAssign with pools, allowed uses, node / namespace selectors,
   requested pools, IP reservations, StrictAffinity, AutoAllocateBlocks and MaxBlocksPerHost
   (libcalico-go/lib/ipam: ipam.go autoAssign / determinePools / prepareAffinityBlocksForHost /
   findOrClaimBlock, pools.go, addr_filter.go, ipam_block.go autoAssign / NumFreeAddresses,
   ipam_block_reader_writer.go findUsableBlock).  Definitions only.

   Built on C19's model: same keys / values / primitive datastore accesses (Verif.C19.Model), same Cas.prog
   programs for incrementHandle, decrementHandle, getPendingAffinity, claimAffineBlock, getBlockFromAffinity,
   releaseBlockAffinity, releaseIPsFromBlock and releaseByHandle.  What C19 fixes to "one pool selecting every
   node, no reservations" is modelled here.

   * A host identity is a number: 2*n for "host:n<n>", 2*n+1 for "virtual:n<n>" (LoadBalancer use).
   * Selectors are conjunctions of atoms  k == 'v' | k != 'v' | has(k) | !has(k)  over label maps.
   * Inputs that the model does not compute: the start index of randomBlockGenerator per (pool, node) and the
     Go map order in which ReleaseByHandle visits the blocks of a handle.
   * Two variants of the code are modelled, selected by flags that the driver sets after probing the tree under
     test: g_fx (claimAffineBlock writes an already owned block back before confirming the affinity,
     fixes/C22-claim-existing-block-bumps-revision.patch; programs of C19/ModelV.v) and g_capfix (numBlocksOwned
     starts from every block that stays affine to the host, fixes/C20-count-all-affine-blocks.patch, instead of
     the host's blocks inside the pools usable by the request).
   * Domain: IPv4, pools pairwise disjoint with block sizes 2^k >= 2 (a /32 block makes the generator's seed
     time dependent), IPCooldownSeconds = 0, no HostReservedAttr, no MaxAllocToHandlePerIPVersion, blocks
     claimed less than a minute ago are never reclaimed (EmptyBlockMinReclaimAge). *)
From Coq Require Import List NArith Bool Arith.
From Verif.Common Require Import Cas.
From Verif.C19 Require Import Model ModelV.
Import ListNotations.
Open Scope N_scope.

(* ------------------------------------------------------------------ configuration *)
Inductive use := UWorkload | UTunnel | ULB.
Definition use_eqb (a b : use) : bool :=
  match a, b with UWorkload, UWorkload | UTunnel, UTunnel | ULB, ULB => true | _, _ => false end.

Inductive atom := SEq (k v : N) | SNe (k v : N) | SHas (k : N) | SNotHas (k : N).
Definition labels := list (N * N).
Fixpoint lab_get (l : labels) (k : N) : option N :=
  match l with [] => None | (k', v) :: t => if N.eqb k' k then Some v else lab_get t k end.
Definition atom_eval (l : labels) (a : atom) : bool :=
  match a with
  | SEq k v => match lab_get l k with Some v' => N.eqb v' v | None => false end
  | SNe k v => match lab_get l k with Some v' => negb (N.eqb v' v) | None => true end
  | SHas k => match lab_get l k with Some _ => true | None => false end
  | SNotHas k => match lab_get l k with Some _ => false | None => true end
  end.
(* the empty selector selects everything (pools.go SelectsNode / SelectsNamespace) *)
Definition sel_eval (s : list atom) (l : labels) : bool := forallb (atom_eval l) s.

Record pool := {
  p_base : N;                    (* first address of the pool *)
  p_nblocks : nat;
  p_bsize : nat;                 (* addresses per block *)
  p_disabled : bool;
  p_manual : bool;               (* AssignmentMode <> Automatic *)
  p_uses : list use;             (* AllowedUses *)
  p_nodesel : list atom;
  p_nssel : list atom;
  p_starts : list (N * nat)      (* node -> start index of randomBlockGenerator in this pool *)
}.

Record config := {
  g_pools : list pool;           (* every IPPool, in the order the accessor returns them (by name) *)
  g_resv : list (N * N);         (* reserved ranges (first address, number of addresses) *)
  g_strict : bool;               (* IPAMConfig.StrictAffinity *)
  g_autoalloc : bool;            (* IPAMConfig.AutoAllocateBlocks *)
  g_maxblocks : nat;             (* IPAMConfig.MaxBlocksPerHost, 0 = unset *)
  g_retries : nat;               (* datastoreRetries *)
  g_nodes : list (N * labels);   (* node -> labels *)
  g_fx : bool;                   (* variant probed by the driver: claimAffineBlock writes an already owned block back before
                                    confirming the affinity (fixes/C22-claim-existing-block-bumps-revision.patch) *)
  g_capfix : bool                (* variant probed by the driver: the block limit counts every block affine to the host
                                    (fixes/C20-count-all-affine-blocks.patch) instead of those in the usable pools only *)
}.

Definition p_size (p : pool) : N := N.of_nat (p_nblocks p * p_bsize p).
Definition in_pool (p : pool) (a : N) : bool := N.leb (p_base p) a && N.ltb a (p_base p + p_size p).
Definition pool_block (p : pool) (i : nat) : N := p_base p + N.of_nat (i * p_bsize p).
Definition pool_order (p : pool) (node : N) : list N :=
  let n := p_nblocks p in
  let s := assoc_nat (p_starts p) node in
  map (pool_block p) (seq s (n - s) ++ seq 0 (Nat.min s n)).

Definition reserved (cf : config) (a : N) : bool :=
  existsb (fun r => N.leb (fst r) a && N.ltb a (fst r + snd r)) (g_resv cf).
(* cidrSliceFilter.MatchesWholeCIDR: every address of the block is reserved *)
Definition whole_reserved (cf : config) (c : N) (bsize : nat) : bool :=
  forallb (fun o => reserved cf (c + N.of_nat o)) (seq 0 bsize).

Fixpoint node_labels (l : list (N * labels)) (n : N) : labels :=
  match l with [] => [] | (k, v) :: t => if N.eqb k n then v else node_labels t n end.

(* the C19 configuration record carries the retry bound and the size of a new block *)
Definition c19cfg (cf : config) (bsize : nat) : Verif.C19.Model.config :=
  {| cf_strict := g_strict cf; cf_autoalloc := g_autoalloc cf; cf_maxblocks := 0%nat; cf_pool_base := 0;
     cf_nblocks := 0%nat; cf_bsize := bsize; cf_retries := g_retries cf; cf_starts := [];
     cf_count_requested := false; cf_aip_leak := false; cf_stale_cache := false |}.

(* ------------------------------------------------------------------ requests *)
Record request := {
  q_node : N;                    (* Hostname "n<q_node>" *)
  q_use : use;                   (* IntendedUse *)
  q_ns : labels;                 (* labels of the Namespace argument (nil namespace = no labels) *)
  q_pools : list (N * N);        (* requested IPv4Pools as (first address, size) *)
  q_maxblocks : nat;             (* AutoAssignArgs.MaxBlocksPerHost, 0 = unset *)
  q_handle : N;
  q_tag : N;
  q_num : nat
}.

(* affinity identity: "host:n<k>" = 2k, "virtual:n<k>" = 2k+1 *)
Definition host_of (q : request) : N :=
  match q_use q with ULB => 2 * q_node q + 1 | _ => 2 * q_node q end.
(* prepareAffinityBlocksForHost: the LoadBalancer node is a fresh virtual node without labels *)
Definition req_labels (cf : config) (q : request) : labels :=
  match q_use q with ULB => [] | _ => node_labels (g_nodes cf) (q_node q) end.

Definition enabled_pools (cf : config) : list pool := filter (fun p => negb (p_disabled p)) (g_pools cf).

Definition selects_node (cf : config) (q : request) (p : pool) : bool := sel_eval (p_nodesel p) (req_labels cf q).

Fixpoint find_requested (en : list pool) (r : N * N) : option pool :=
  match en with
  | [] => None
  | p :: t => if N.eqb (p_base p) (fst r) && N.eqb (p_size p) (snd r) then Some p else find_requested t r
  end.
Fixpoint lookup_requested (en : list pool) (rs : list (N * N)) : option (list pool) :=
  match rs with
  | [] => Some []
  | r :: t => match find_requested en r, lookup_requested en t with
              | Some p, Some l => Some (p :: l)
              | _, _ => None
              end
  end.

(* determinePools: None = error *)
Definition determine_pools (cf : config) (q : request) : option (list pool) :=
  let en := enabled_pools cf in
  match en with
  | [] => None
  | _ =>
    match lookup_requested en (q_pools q) with
    | None => None
    | Some (p :: l) => Some (p :: l)
    | Some [] =>
        Some (filter (fun p => negb (p_manual p) && selects_node cf q p && sel_eval (p_nssel p) (q_ns q)) en)
    end
  end.

(* filterPoolsByUse *)
Definition by_use (u : use) (ps : list pool) : list pool := filter (fun p => existsb (use_eqb u) (p_uses p)) ps.

Definition find_pool (ps : list pool) (a : N) : option pool := find (fun p => in_pool p a) ps.
Definition in_pools (ps : list pool) (a : N) : bool := match find_pool ps a with Some _ => true | None => false end.

(* effective per-host block limit (autoAssign) *)
Definition eff_maxblocks (cf : config) (q : request) : nat :=
  let g := g_maxblocks cf in
  let r := q_maxblocks q in
  let m := if Nat.ltb 0 g && Nat.ltb 0 r && Nat.ltb g r then g else if Nat.eqb r 0 then g else r in
  if Nat.eqb m 0 then 20%nat else m.

(* ------------------------------------------------------------------ block functions with reservations *)
(* allocationBlock.autoAssign's walk over Unallocated: (taken, remaining) *)
Fixpoint pick (resv : N -> bool) (cidr : N) (num : nat) (un : list nat) : list nat * list nat :=
  match un with
  | [] => ([], [])
  | o :: t =>
      match num with
      | O => ([], un)
      | S n' => if resv (cidr + N.of_nat o)
                then let '(tk, rm) := pick resv cidr num t in (tk, o :: rm)
                else let '(tk, rm) := pick resv cidr n' t in (o :: tk, rm)
      end
  end.

(* mask of the block's CIDR *)
Definition blk_plen (b : block) : nat := 32 - Nat.log2 (length (bk_allocs b)).

Definition blk_auto_assign_r (resv : N -> bool) (b : block) (num : nat) (h : N) (tag : N) (aff_check : bool) (host : N)
  : option (block * list (N * nat)) :=
  if negb (aff_check_ok b aff_check host) then None else
  let '(take, rm) := pick resv (bk_cidr b) num (bk_unalloc b) in
  match take with
  | [] => Some (b, [])
  | _ =>
    let '(attrs, idx) := find_or_add_attr (bk_attrs b) {| at_handle := Some h; at_tag := tag |} in
    let allocs := fold_left (fun al o => set_nth_opt al o (Some idx)) take (bk_allocs b) in
    let seqs := fold_left (fun sq o => seqs_set sq o (bk_seq b)) take (bk_seqs b) in
    Some ({| bk_cidr := bk_cidr b; bk_aff := bk_aff b; bk_allocs := allocs;
             bk_unalloc := rm; bk_attrs := attrs; bk_seq := bk_seq b; bk_seqs := seqs |},
          map (fun o => (bk_cidr b + N.of_nat o, blk_plen b)) take)
  end.

(* allocationBlock.NumFreeAddresses(reservations) *)
Definition num_free_r (resv : N -> bool) (b : block) : nat :=
  length (filter (fun o => negb (resv (bk_cidr b + N.of_nat o))) (bk_unalloc b)).

(* ------------------------------------------------------------------ programs *)
Notation "x <- p ;; q" := (Cas.bind p (fun x => q)) (at level 61, p at next level, right associativity).

Inductive result :=
| RIPs (ips : list (N * nat)) (e : err)     (* AutoAssign: (address, mask length) in order, error class *)
| RRel (unalloc : list N) (e : err)         (* ReleaseIPs *)
| RErr (e : err).                           (* ReleaseByHandle *)

Section Ops.
  Variable cf : config.
  Let R := g_retries cf.
  Let resv := reserved cf.

  (* ipamClient.assignFromExistingBlock *)
  Definition assign_from_block (bk : block * N) (c : N) (num : nat) (h tag : N) (host : N) (aff_check : bool)
    : prog (res (list (N * nat))) :=
    let '(b, rev) := bk in
    match blk_auto_assign_r resv b num h tag aff_check host with
    | None => Ret (inr EOther)
    | Some (b', ips) =>
      match ips with
      | [] => Ret (inl [])
      | _ =>
        let cnt := N.of_nat (length ips) in
        i <- inc_handle R h c cnt ;;
        match i with
        | inr e => Ret (inr e)
        | inl _ =>
          w <- update_block c b' rev ;;
          match w with
          | inl _ => Ret (inl ips)
          | inr e => u_ <- dec_handle false R h c cnt None ;; Ret (inr e)
          end
        end
      end
    end.

  (* findOrClaimBlock, first half: one existing affine block, with its CAS retry loop *)
  Fixpoint try_affine (fuel : nat) (host c : N) (bsize : nat) : prog (option (block * N)) :=
    match fuel with
    | O => Ret None
    | S f =>
      r <- get_aff host c ;;
      match r with
      | inr _ => Ret None
      | inl aff =>
          g <- get_block_from_aff_v (c19cfg cf bsize) (g_fx cf) host c aff ;;
          match g with
          | inr EConflict => try_affine f host c bsize
          | inr _ => Ret None
          | inl (b, brev) => if Nat.leb 1 (num_free_r resv b) then Ret (Some (b, brev)) else Ret None
          end
      end
    end.

  (* rem: remaining affine blocks (cidr, block size of the allowed pool containing it) *)
  Fixpoint scan_affine (rem : list (N * nat)) (host : N) : prog (option (block * N * N) * list (N * nat)) :=
    match rem with
    | [] => Ret (None, [])
    | (c, bs) :: rest =>
        if whole_reserved cf c bs then scan_affine rest host
        else
          r <- try_affine R host c bs ;;
          match r with
          | Some bk => Ret (Some (bk, c), rest)
          | None => scan_affine rest host
          end
    end.

  (* blockReaderWriter.findUsableBlock over the allowed pools, in order *)
  Definition usable (es : list entry) (host : N) (p : pool) (c : N) : bool :=
    negb (whole_reserved cf c (p_bsize p)) &&
    match find_block_entry es c with
    | None => true
    | Some b => optN_eqb (bk_aff b) (Some host) && negb (Nat.eqb (num_free_r resv b) 0)
    end.

  Fixpoint first_usable (es : list entry) (host node : N) (ps : list pool) : option (N * nat) :=
    match ps with
    | [] => None
    | p :: t => match find (usable es host p) (pool_order p node) with
                | Some c => Some (c, p_bsize p)
                | None => first_usable es host node t
                end
    end.

  Definition find_usable (host node : N) (ps : list pool) : prog (res (N * nat)) :=
    match ps with
    | [] => Ret (inr EOther)
    | _ =>
      Act (RList LBlocks) (fun rs =>
        match rs with
        | RListed es => match first_usable es host node ps with
                        | Some x => Ret (inl x)
                        | None => Ret (inr ENoFree)
                        end
        | _ => Ret (inr EOther)
        end)
    end.

  Inductive claim_res := CRBlock (bk : block * N) | CRAgain | CRErr (e : err).

  Fixpoint claim_inner (fuel : nat) (host c : N) (bsize : nat) : prog claim_res :=
    match fuel with
    | O => Ret CRAgain
    | S f =>
      pa <- get_pending_aff host c ;;
      match pa with
      | inr EConflict => claim_inner f host c bsize
      | inr e => Ret (CRErr e)
      | inl aff =>
          g <- get_block_from_aff_v (c19cfg cf bsize) (g_fx cf) host c aff ;;
          match g with
          | inr EConflict => claim_inner f host c bsize
          | inr EClaimConflict => Ret CRAgain
          | inr EStale => Ret CRAgain
          | inr e => Ret (CRErr e)
          | inl (b, brev) => if Nat.leb 1 (num_free_r resv b) then Ret (CRBlock (b, brev)) else Ret (CRErr EOther)
          end
      end
    end.

  Fixpoint claim_outer (fuel : nat) (host node : N) (ps : list pool) : prog (res (block * N * N)) :=
    match fuel with
    | O => Ret (inr EMaxRetries)
    | S f =>
      u <- find_usable host node ps ;;
      match u with
      | inr e => Ret (inr e)
      | inl (c, bs) =>
          r <- claim_inner R host c bs ;;
          match r with
          | CRBlock bk => Ret (inl (bk, c))
          | CRAgain => claim_outer f host node ps
          | CRErr e => Ret (inr e)
          end
      end
    end.

  (* findOrClaimBlock: result, remaining affine blocks, newly claimed? *)
  Definition find_or_claim (rem : list (N * nat)) (host node : N) (ps : list pool) (allow_new : bool)
    : prog (res (block * N * N * bool) * list (N * nat)) :=
    s <- scan_affine rem host ;;
    match s with
    | (Some (bk, c), rest) => Ret (inl (bk, c, false), rest)
    | (None, _) =>
        if negb allow_new then Ret (inr EBlockLimit, [])
        else if g_autoalloc cf then
          r <- claim_outer R host node ps ;;
          match r with
          | inl (bk, c) => Ret (inl (bk, c, true), [])
          | inr e => Ret (inr e, [])
          end
        else Ret (inr EOther, [])
    end.

  (* the CAS retry loop around assignFromExistingBlock inside autoAssign's affine phase *)
  Fixpoint assign_retry (fuel : nat) (bk : block * N) (c : N) (rem : nat) (h tag host : N) : prog (list (N * nat)) :=
    match fuel with
    | O => Ret []
    | S f =>
      r <- assign_from_block bk c rem h tag host (g_strict cf) ;;
      match r with
      | inl ips => Ret ips
      | inr EConflict =>
          g <- get_block c ;;
          match g with
          | inr _ => Ret []
          | inl bk' => assign_retry f bk' c rem h tag host
          end
      | inr _ => Ret []
      end
    end.

  (* non-affine phase: one block *)
  Fixpoint na_try (fuel : nat) (c : N) (rem : nat) (h tag host : N) : prog (list (N * nat)) :=
    match fuel with
    | O => Ret []
    | S f =>
      g <- get_block c ;;
      match g with
      | inr _ => Ret []
      | inl bk =>
          r <- assign_from_block bk c rem h tag host false ;;
          match r with
          | inl ips => Ret ips
          | inr EConflict => na_try f c rem h tag host
          | inr _ => Ret []
          end
      end
    end.

  (* the blocks the non-affine hunt visits: every allowed pool in order, entirely reserved blocks skipped *)
  Definition na_order (node : N) (ps : list pool) : list N :=
    flat_map (fun p => filter (fun c => negb (whole_reserved cf c (p_bsize p))) (pool_order p node)) ps.

  Fixpoint na_loop (order : list N) (ips : list (N * nat)) (num : nat) (h tag host : N) : prog (list (N * nat)) :=
    match order with
    | [] => Ret ips
    | c :: rest =>
        if Nat.leb num (length ips) then Ret ips
        else new <- na_try R c (num - length ips) h tag host ;; na_loop rest (ips ++ new) num h tag host
    end.

  (* ipamClient.autoAssign: outer loop over blocks *)
  Fixpoint aa_loop (fuel : nat) (ips : list (N * nat)) (rem_aff : list (N * nat)) (owned maxb : nat) (num : nat)
           (h tag host node : N) (ps : list pool) : prog result :=
    if Nat.leb num (length ips) then Ret (RIPs ips ENone) else
    match fuel with
    | O => Ret (RIPs ips EOutOfModel)
    | S f =>
      fc <- find_or_claim rem_aff host node ps (Nat.ltb owned maxb) ;;
      match fc with
      | (inr ENoFree, _) =>
          if negb (g_strict cf) then
            ips' <- na_loop (na_order node ps) ips num h tag host ;; Ret (RIPs ips' ENone)
          else Ret (RIPs ips ENone)
      | (inr e, _) => Ret (RIPs ips e)
      | (inl (bk, c, newly), rem') =>
          new <- assign_retry R bk c (num - length ips) h tag host ;;
          aa_loop f (ips ++ new) rem' (if newly then S owned else owned) maxb num h tag host node ps
      end
    end.

  (* prepareAffinityBlocksForHost: release empty blocks in enabled pools that do not select the node *)
  (* result: was the affinity released by this call? *)
  Fixpoint release_stale (fuel : nat) (host c : N) : prog bool :=
    match fuel with
    | O => Ret false
    | S f =>
      r <- release_block_affinity host c true ;;
      match r with
      | inl _ => Ret true
      | inr EClaimConflict => Ret false
      | inr ENotEmpty => Ret false
      | inr ENotFound => Ret false
      | inr _ => release_stale f host c
      end
    end.

  (* number of affinities released *)
  Fixpoint release_all (cs : list N) (host : N) : prog nat :=
    match cs with
    | [] => Ret O
    | c :: t => d <- release_stale R host c ;; n <- release_all t host ;; Ret (if d then S n else n)
    end.

  Fixpoint with_bsize (ps : list pool) (cs : list N) : list (N * nat) :=
    match cs with
    | [] => []
    | c :: t => match find_pool ps c with
                | Some p => (c, p_bsize p) :: with_bsize ps t
                | None => with_bsize ps t
                end
    end.

  Definition total_blocks (ps : list pool) : nat := fold_right (fun p n => (p_nblocks p + n)%nat) O ps.

  (* ipamClient.AutoAssign for IPv4 *)
  Definition auto_assign (q : request) : prog result :=
    let host := host_of q in
    match determine_pools cf q with
    | None => Ret (RIPs [] EOther)
    | Some [] => Ret (RIPs [] EOther)
    | Some sel =>
      match by_use (q_use q) sel with
      | [] => Ret (RIPs [] EOther)
      | allowed =>
        Act (RList (LAffs host)) (fun rs =>
          match rs with
          | RListed es =>
              let all := aff_cidrs es in
              let affs := filter (in_pools allowed) all in
              let non_allowed := filter (fun c => negb (in_pools allowed c)) all in
              let to_release := filter (fun c => negb (in_pools sel c)) non_allowed in
              let stale := filter (fun c => match find_pool (enabled_pools cf) c with
                                            | Some p => negb (selects_node cf q p)
                                            | None => false end) to_release in
              released <- release_all stale host ;;
              (* numBlocksOwned: the host's affine blocks inside the usable pools (pinned code), or every block that
                 stays affine to the host (fixes/C20-count-all-affine-blocks.patch) *)
              let owned := if g_capfix cf then (length all - released)%nat else length affs in
              aa_loop (S (S (length affs + total_blocks allowed))) [] (with_bsize allowed affs) owned
                      (eff_maxblocks cf q) (q_num q) (q_handle q) (q_tag q) host (q_node q) allowed
          | _ => Ret (RIPs [] EOther)
          end)
      end
    end.

  (* the pool block containing an address (ReleaseIPs finds it through the pools / existing blocks) *)
  Definition block_of (a : N) : N :=
    match find_pool (g_pools cf) a with
    | Some p => p_base p + ((a - p_base p) / N.of_nat (p_bsize p)) * N.of_nat (p_bsize p)
    | None => a
    end.

  (* ipamClient.ensureConsistentAffinity: after a release, give up the affinity of an empty block whose (enabled)
     pool does not select the node named by the affinity.  The node is looked up by the host name of the
     affinity whatever its type, so "virtual:n1" is judged by the labels of node n1. *)
  Definition ensure_consistent (b : block) : prog unit :=
    match bk_aff b with
    | None => Ret tt
    | Some h =>
      let node := h / 2 in
      if negb (existsb (fun x => N.eqb (fst x) node) (g_nodes cf)) then Ret tt else
      match find_pool (enabled_pools cf) (bk_cidr b) with
      | None => Ret tt
      | Some p =>
          if sel_eval (p_nodesel p) (node_labels (g_nodes cf) node) then Ret tt
          else u_ <- release_block_affinity h (bk_cidr b) true ;; Ret tt
      end
    end.

  Fixpoint dec_all (l : list (N * nat)) (c : N) (cache : list entry) : prog unit :=
    match l with
    | [] => Ret tt
    | (h, n) :: t => u_ <- dec_handle false R h c (N.of_nat n) (find_cached cache h) ;; dec_all t c cache
    end.

  (* ipamClient.releaseIPsFromBlock *)
  Fixpoint release_loop (fuel : nat) (c : N) (opts : list (N * option N)) (cache : list entry) : prog result :=
    match fuel with
    | O => Ret (RRel [] EMaxRetries)
    | S f =>
      g <- get_block c ;;
      match g with
      | inr ENotFound => Ret (RRel (sortN (map fst opts)) ENone)
      | inr e => Ret (RRel [] e)
      | inl (b, brev) =>
        match blk_release b opts with
        | inr e => Ret (RRel [] e)
        | inl (b', unalloc, counts) =>
          if Nat.eqb (length opts) (length unalloc) then Ret (RRel unalloc ENone)
          else
            w <- (if blk_empty b' && optN_eqb (bk_aff b') None
                  then delete_block c brev
                  else (u <- update_block c b' brev ;; match u with inl _ => Ret (inl tt) | inr e => Ret (inr e) end)) ;;
            match w with
            | inr EConflict => release_loop f c opts cache
            | inr e => Ret (RRel [] e)
            | inl _ => u_ <- dec_all counts c cache ;; v_ <- ensure_consistent b' ;; Ret (RRel unalloc ENone)
            end
        end
      end
    end.

  (* ipamClient.ReleaseIPs restricted to addresses of one block (and one handle) *)
  Definition release_ips (opts : list (N * option N)) : prog result :=
    match opts with
    | [] => Ret (RRel [] ENone)
    | (a, _) :: _ =>
      let c := block_of a in
      if Nat.ltb 2 (length opts)
      then Act (RList LHandles) (fun rs =>
             match rs with
             | RListed es => release_loop R c opts es
             | _ => Ret (RRel [] EOther)
             end)
      else release_loop R c opts []
    end.

  (* ipamClient.releaseByHandle (one block) *)
  Fixpoint rbh_one (fuel : nat) (c h : N) : prog (res unit) :=
    match fuel with
    | O => Ret (inr EOutOfModel)
    | S f =>
      g <- get_block c ;;
      match g with
      | inr ENotFound => Ret (inl tt)
      | inr e => Ret (inr e)
      | inl (b, brev) =>
        let '(b', n) := blk_release_by_handle b h in
        match n with
        | O => Ret (inl tt)
        | _ =>
          let after : prog (res unit) :=
            u_ <- dec_handle false R h c (N.of_nat n) None ;; v_ <- ensure_consistent b' ;; Ret (inl tt) in
          if blk_empty b' && optN_eqb (bk_aff b') None then
            w <- delete_block c brev ;;
            match w with
            | inr EConflict => rbh_one f c h
            | inr ENotFound => Ret (inl tt)   (* somebody else deleted the block: nothing released, no decrement *)
            | inl _ => after
            | inr e => Ret (inr e)
            end
          else
            w <- update_block c b' brev ;;
            match w with
            | inr EConflict => rbh_one f c h
            | inr e => Ret (inr e)
            | inl _ => after
            end
        end
      end
    end.

  Fixpoint rbh_blocks (cs : list N) (h : N) : prog result :=
    match cs with
    | [] => Ret (RErr ENone)
    | c :: t =>
        r <- rbh_one R c h ;;
        match r with inr e => Ret (RErr e) | inl _ => rbh_blocks t h end
    end.

  (* ipamClient.ReleaseByHandle; hint = Go map order of handle.Block *)
  Definition release_by_handle (h : N) (hint : list N) : prog result :=
    r <- get_handle h ;;
    match r with
    | inr e => Ret (RErr e)
    | inl (m, _) => rbh_blocks (map fst (order_by hint m)) h
    end.

  (* c is a block of pool p *)
  Definition is_blockb (p : pool) (c : N) : bool := existsb (N.eqb c) (map (pool_block p) (seq 0 (p_nblocks p))).

  (* ipamClient.ReleaseAffinity(cidr, host, mustBeEmpty) for a CIDR that is exactly one block of its pool
     (the affinity released is always "host:<node>") *)
  Definition release_affinity (node c : N) (must : bool) : prog result :=
    match find_pool (enabled_pools cf) c with
    | None => Ret (RErr EOther)
    | Some p =>
        if is_blockb p c then
          r <- release_aff_loop R (2 * node) c must ;;
          match r with
          | ResErr e => Ret (RErr e)
          | ResIPs _ e => Ret (RErr e)
          | ResClaim _ _ e => Ret (RErr e)
          end
        else Ret (RErr EOutOfModel)
    end.

  Inductive op :=
  | OpAutoAssign (q : request)
  | OpRelease (opts : list (N * option N))
  | OpReleaseByHandle (h : N) (hint : list N)
  | OpReleaseAffinity (node c : N) (must : bool).

  Definition compile (o : op) : prog result :=
    match o with
    | OpAutoAssign q => auto_assign q
    | OpRelease opts => release_ips opts
    | OpReleaseByHandle h hint => release_by_handle h hint
    | OpReleaseAffinity node c must => release_affinity node c must
    end.
End Ops.

(* ------------------------------------------------------------------ sequential execution *)
Definition exec := @Cas.exec key value lopt key_eqb key_ltb lmatch.

(* one client, no faults: every access is answered by the store *)
Fixpoint run {A} (s : store) (p : prog A) : store * A :=
  match p with
  | Ret a => (s, a)
  | Act rq k => let '(s', rs) := exec s rq in run s' (k rs)
  end.

Fixpoint run_ops (cf : config) (s : store) (ops : list op) : store * list result :=
  match ops with
  | [] => (s, [])
  | o :: t => let '(s1, r) := run s (compile cf o) in
              let '(s2, rs) := run_ops cf s1 t in (s2, r :: rs)
  end.

(* ------------------------------------------------------------------ one preemption
   An operation performs its first k datastore accesses, then other (complete) operations run, then it resumes.
   The correspondence driver produces such schedules with the membackend scheduler. *)
Fixpoint run_upto {A} (s : store) (p : prog A) (k : nat) : store * prog A :=
  match k, p with
  | S k', Act rq cont => let '(s', rs) := exec s rq in run_upto s' (cont rs) k'
  | _, _ => (s, p)
  end.

Inductive item :=
| IOp (o : op)
| IPre (o : op) (k : nat) (inner : list op).
