(* C20 — block cap, the part that is proved: once numBlocksOwned has reached the limit, findOrClaimBlock issues no
   create of a block affinity, whatever the datastore answers (so: under every interleaving).  What numBlocksOwned
   counts is the variant flag g_capfix (Model.v auto_assign). *)
From Coq Require Import List NArith Bool Arith Lia.
From Verif.Common Require Import Cas.
From Verif.C19 Require Import Model ModelV.
From Verif.C20 Require Import Model.
Import ListNotations.
Open Scope N_scope.

(* the program never asks the datastore to create a block affinity, on any path *)
Fixpoint nac {A} (p : prog A) : Prop :=
  match p with
  | Ret _ => True
  | Act rq k => match rq with RCreate (KAff _ _) _ => False | _ => True end /\ forall rs, nac (k rs)
  end.

Lemma nac_bind {A B} (p : prog A) (f : A -> prog B) : nac p -> (forall a, nac (f a)) -> nac (Cas.bind p f).
Proof.
  induction p as [a | rq k IH]; simpl; intros Np Nf; [apply Nf|].
  destruct Np as [N1 N2]. split; [exact N1|]. intros rs. apply IH; auto.
Qed.

Ltac nac1 :=
  first
    [ exact I
    | apply nac_bind; [|intros ?]
    | match goal with
      | |- nac (Ret _) => exact I
      | |- nac (Act _ _) => simpl; split; [exact I | intros ?]
      | |- nac (match ?x with _ => _ end) => destruct x
      | |- nac (if ?x then _ else _) => destruct x
      | |- nac (let '(_, _) := ?x in _) => destruct x
      end ].
Ltac nacs := repeat nac1.

Lemma nac_get_block c : nac (get_block c). Proof. unfold get_block. nacs. Qed.
Lemma nac_update_block c b rev : nac (update_block c b rev). Proof. unfold update_block. nacs. Qed.
Lemma nac_create_block c b : nac (create_block c b). Proof. unfold create_block. nacs. Qed.
Lemma nac_get_aff h c : nac (get_aff h c). Proof. unfold get_aff. nacs. Qed.
Lemma nac_update_aff h c s rev : nac (update_aff h c s rev). Proof. unfold update_aff. nacs. Qed.
Lemma nac_delete_aff h c rev : nac (delete_aff h c rev). Proof. unfold delete_aff. nacs. Qed.

Lemma nac_confirm_aff h c rev : nac (confirm_aff h c rev).
Proof.
  unfold confirm_aff. apply nac_bind; [apply nac_update_aff|]. intros [r|e]; [exact I|].
  apply nac_bind; [apply nac_get_aff|]. intros r. nacs.
Qed.

Lemma nac_claim_affine_block cf fx h c rev : nac (claim_affine_block_v cf fx h c rev).
Proof.
  unfold claim_affine_block_v. apply nac_bind; [apply nac_create_block|]. intros [bk|e].
  - apply nac_bind; [apply nac_confirm_aff|]. intros r. nacs.
  - destruct e; try exact I. apply nac_bind; [apply nac_get_block|]. intros [[b brev]|e]; [|exact I].
    destruct (optN_eqb (bk_aff b) (Some h)).
    + destruct fx.
      * apply nac_bind; [apply nac_update_block|]. intros [bk'|e]; [|exact I].
        apply nac_bind; [apply nac_confirm_aff|]. intros r. nacs.
      * apply nac_bind; [apply nac_confirm_aff|]. intros r. nacs.
    + apply nac_bind; [apply nac_delete_aff|]. intros r. exact I.
Qed.

Lemma nac_get_block_from_aff cf fx h c aff : nac (get_block_from_aff_v cf fx h c aff).
Proof.
  unfold get_block_from_aff_v. destruct aff as [st affrev].
  apply nac_bind; [apply nac_get_block|]. intros [[b brev]|e].
  - destruct (negb (optN_eqb (bk_aff b) (Some h))).
    + apply nac_bind; [apply nac_delete_aff|]. intros r. nacs.
    + destruct (affst_eqb st AConfirmed); [exact I|].
      apply nac_bind; [apply nac_update_aff|]. intros [rev1|e]; [|exact I].
      apply nac_bind; [apply nac_update_block|]. intros [bk'|e]; [|exact I].
      apply nac_bind; [apply nac_update_aff|]. intros r. nacs.
  - destruct e; try exact I.
    apply nac_bind; [apply nac_update_aff|]. intros [rev'|e]; [|exact I]. apply nac_claim_affine_block.
Qed.

Lemma nac_try_affine cf fuel : forall h c bs, nac (try_affine cf fuel h c bs).
Proof.
  induction fuel as [|f IH]; intros h c bs; cbn [try_affine]; [exact I|].
  apply nac_bind; [apply nac_get_aff|]. intros [aff|e]; [|exact I].
  apply nac_bind; [apply nac_get_block_from_aff|]. intros [[b brev]|e].
  - nacs.
  - destruct e; try exact I. apply IH.
Qed.

Lemma nac_scan_affine cf rem : forall h, nac (scan_affine cf rem h).
Proof.
  induction rem as [|[c bs] rest IH]; intros h; cbn [scan_affine]; [exact I|].
  destruct (whole_reserved cf c bs); [apply IH|].
  apply nac_bind; [apply nac_try_affine|]. intros [bk|]; [exact I | apply IH].
Qed.

(* findOrClaimBlock with allowNewClaim = false creates no affinity *)
Lemma nac_find_or_claim_at_cap cf rem host node ps : nac (find_or_claim cf rem host node ps false).
Proof.
  unfold find_or_claim. apply nac_bind; [apply nac_scan_affine|].
  intros [[[bk c]|] rest]; simpl; exact I.
Qed.

(* ------------------------------------------------------------------ the rest of the AutoAssign loop *)
Lemma nac_get_handle h : nac (get_handle h). Proof. unfold get_handle. nacs. Qed.
Lemma nac_update_handle h m rev : nac (update_handle h m rev). Proof. unfold update_handle. nacs. Qed.
Lemma nac_create_handle h m : nac (create_handle h m). Proof. unfold create_handle. nacs. Qed.
Lemma nac_delete_handle h rev : nac (delete_handle h rev). Proof. unfold delete_handle. nacs. Qed.

Lemma nac_inc_handle fuel : forall h c n, nac (inc_handle fuel h c n).
Proof.
  induction fuel as [|f IH]; intros h c n; cbn [inc_handle]; [exact I|].
  apply nac_bind; [apply nac_get_handle|]. intros [[m rev]|e].
  - apply nac_bind; [apply nac_update_handle|]. intros [u|e]; [exact I | apply IH].
  - destruct e; try exact I. apply nac_bind; [apply nac_create_handle|]. intros [u|e]; [exact I | apply IH].
Qed.

Lemma nac_dec_handle sb fuel : forall h c n cached, nac (dec_handle sb fuel h c n cached).
Proof.
  induction fuel as [|f IH]; intros h c n cached; cbn [dec_handle]; [exact I|].
  apply nac_bind; [destruct cached; [exact I | apply nac_get_handle]|]. intros [[m rev]|e]; [|exact I].
  destruct (hdec m c n) as [[|x m']|].
  - apply nac_bind; [apply nac_delete_handle|]. intros [u|e]; [exact I|]. destruct e; try exact I. apply IH.
  - apply nac_bind; [apply nac_update_handle|]. intros [u|e]; [exact I|]. destruct e; try exact I. apply IH.
  - destruct cached; [|exact I]. destruct sb; [exact I | apply IH].
Qed.

Lemma nac_assign_from_block cf bk c num h tag host ac : nac (assign_from_block cf bk c num h tag host ac).
Proof.
  unfold assign_from_block. destruct bk as [b rev].
  destruct (blk_auto_assign_r (reserved cf) b num h tag ac host) as [[b' ips]|]; [|exact I].
  destruct ips as [|a0 ips']; [exact I|].
  apply nac_bind; [apply nac_inc_handle|]. intros [u|e]; [|exact I].
  apply nac_bind; [apply nac_update_block|]. intros [w|e]; [exact I|].
  apply nac_bind; [apply nac_dec_handle|]. intros u_. exact I.
Qed.

Lemma nac_assign_retry cf fuel : forall bk c rem h tag host, nac (assign_retry cf fuel bk c rem h tag host).
Proof.
  induction fuel as [|f IH]; intros bk c rem h tag host; cbn [assign_retry]; [exact I|].
  apply nac_bind; [apply nac_assign_from_block|]. intros [ips|e]; [exact I|].
  destruct e; try exact I. apply nac_bind; [apply nac_get_block|]. intros [bk'|e]; [apply IH | exact I].
Qed.

Lemma nac_na_try cf fuel : forall c rem h tag host, nac (na_try cf fuel c rem h tag host).
Proof.
  induction fuel as [|f IH]; intros c rem h tag host; cbn [na_try]; [exact I|].
  apply nac_bind; [apply nac_get_block|]. intros [bk|e]; [|exact I].
  apply nac_bind; [apply nac_assign_from_block|]. intros [ips|e]; [exact I|].
  destruct e; try exact I. apply IH.
Qed.

Lemma nac_na_loop cf order : forall ips num h tag host, nac (na_loop cf order ips num h tag host).
Proof.
  induction order as [|c rest IH]; intros ips num h tag host; cbn [na_loop]; [exact I|].
  destruct (Nat.leb num (length ips)); [exact I|].
  apply nac_bind; [apply nac_na_try|]. intros new. apply IH.
Qed.

(* every result the program can return, whatever the datastore answers, satisfies Q *)
Fixpoint allres {A} (Q : A -> Prop) (p : prog A) : Prop :=
  match p with
  | Ret a => Q a
  | Act _ k => forall rs, allres Q (k rs)
  end.

Lemma allres_bind {A B} (Q : B -> Prop) (p : prog A) (f : A -> prog B) :
  (forall a, allres Q (f a)) -> allres Q (Cas.bind p f).
Proof. induction p as [a | rq k IH]; simpl; intros Nf; [apply Nf|]. intros rs. apply IH; auto. Qed.

Lemma nac_bind_post {A B} (Q : A -> Prop) (p : prog A) (f : A -> prog B) :
  nac p -> allres Q p -> (forall a, Q a -> nac (f a)) -> nac (Cas.bind p f).
Proof.
  induction p as [a | rq k IH]; simpl; intros Np Pp Nf; [apply Nf; exact Pp|].
  destruct Np as [N1 N2]. split; [exact N1|]. intros rs. apply IH; [apply N2 | apply Pp | exact Nf].
Qed.

(* a result of findOrClaimBlock with allowNewClaim = false never reports a newly claimed block *)
Definition not_new (r : res (block * N * N * bool) * list (N * nat)) : Prop :=
  match r with (inl (_, newly), _) => newly = false | _ => True end.

Lemma find_or_claim_at_cap_never_new cf rem host node ps : allres not_new (find_or_claim cf rem host node ps false).
Proof.
  unfold find_or_claim. apply allres_bind. intros [[[bk c]|] rest]; simpl; auto.
Qed.

(* AutoAssign's loop, entered with numBlocksOwned at or above the limit, never creates a block affinity:
   for every answer of the datastore, hence in every interleaving. *)
Theorem aa_loop_at_cap_creates_no_affinity cf fuel : forall ips rem owned maxb num h tag host node ps,
  (maxb <= owned)%nat -> nac (aa_loop cf fuel ips rem owned maxb num h tag host node ps).
Proof.
  induction fuel as [|f IH]; intros ips rem owned maxb num h tag host node ps LE; cbn [aa_loop].
  - destruct (Nat.leb num (length ips)); exact I.
  - destruct (Nat.leb num (length ips)); [exact I|].
    assert (LT : Nat.ltb owned maxb = false) by (apply Nat.ltb_ge; exact LE). rewrite LT.
    apply (nac_bind_post not_new).
    + apply nac_find_or_claim_at_cap.
    + apply find_or_claim_at_cap_never_new.
    + intros [[[[bk c] newly]|e] rem'] Q.
      * simpl in Q. subst newly. apply nac_bind; [apply nac_assign_retry|]. intros new. apply IH; exact LE.
      * destruct e; try exact I. destruct (negb (g_strict cf)); [|exact I].
        apply nac_bind; [apply nac_na_loop|]. intros ips'. exact I.
Qed.
