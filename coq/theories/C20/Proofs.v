(* C20 — proofs.  Every operation of C20/Model.v is "safe" in the sense of Common/Cas.v for the value
   invariant
       block stored under key c:  CIDR = c, c is a block of a configured pool, the allocation array has that
                                   pool's block size, every ordinal of the free list is inside the array;
       affinity key (host, c):     c is a block of a configured pool;
   whatever the datastore answers (hence: for every interleaving with other clients, injected conflicts,
   crashes).  The result returned by AutoAssign satisfies the property's per-address clauses with respect to
   the history of writes that really happened. *)
From Coq Require Import List NArith Bool Arith Lia.
From Verif.Common Require Import Cas.
From Verif.C19 Require Import Model ModelV BlockLemmas.
From Verif.C20 Require Import Model Spec Lemmas.
Import ListNotations.
Open Scope N_scope.

Notation "x <- p ;; q" := (Cas.bind p (fun x => q)) (at level 61, p at next level, right associativity).

Section Safe.
  Variable cf : config.
  (* the domain: pools are pairwise disjoint, blocks are not empty *)
  Hypothesis DISJ : forall p p' a, In p (g_pools cf) -> In p' (g_pools cf) ->
                                   in_pool p a = true -> in_pool p' a = true -> p = p'.
  Hypothesis BPOS : forall p, In p (g_pools cf) -> (0 < p_bsize p)%nat.

  Definition blockc (c : N) (bs : nat) : Prop := exists p, In p (g_pools cf) /\ is_block p c /\ bs = p_bsize p.
  Definition bwf (c : N) (b : block) : Prop :=
    bk_cidr b = c /\ Forall (fun o => (o < length (bk_allocs b))%nat) (bk_unalloc b) /\
    blockc c (length (bk_allocs b)).

  Definition VI (k : key) (v : value) : Prop :=
    match k, v with
    | KBlock c, VBlock b => bwf c b
    | KBlock _, _ => False
    | KAff _ c, _ => exists bs, blockc c bs
    | _, _ => True
    end.
  Definition create_ok := VI.
  Definition update_ok (k : key) (v0 v : value) : Prop := VI k v.
  Definition delete_ok (k : key) (v : value) : Prop := True.

  Lemma vi_create k v : create_ok k v -> VI k v.
  Proof. auto. Qed.
  Lemma vi_update k v0 v : update_ok k v0 v -> VI k v0 -> VI k v.
  Proof. auto. Qed.

  Definition hist := Cas.hist key value.
  Notation safe := (@Cas.safeQ key value lopt create_ok update_ok delete_ok VI).
  Notation hext := (@Cas.hext key value).
  Notation hist_ok := (@Cas.hist_ok key value VI).

  Definition Pblk (c : N) (H : hist) (r : res (block * N)) : Prop :=
    match r with inl (b, _) => bwf c b | inr _ => True end.
  Definition Ptrue {A} (H : hist) (r : A) : Prop := True.

  Lemma safe_ret {A} H (r : A) (Q : hist -> A -> Prop) : Q H r -> safe H (Ret r) Q.
  Proof. auto. Qed.

  Lemma safe_act {A} H rq (k : Cas.resp key value -> Cas.prog key value lopt A) (Q : hist -> A -> Prop) :
    Cas.justified create_ok update_ok delete_ok H rq ->
    (forall H' rs, hext H H' -> hist_ok H' -> Cas.resp_ok H' rq rs -> safe H' (k rs) Q) ->
    safe H (Act rq k) Q.
  Proof. intros J C. simpl. split; auto. Qed.

  Lemma bwf_bump c b : bwf c b -> bwf c (bump b).
  Proof. intros (A & B & C). split; [|split]; simpl; auto. Qed.

  Lemma bwf_blockc c b : bwf c b -> exists bs, blockc c bs.
  Proof. intros (_ & _ & C). eauto. Qed.

  (* ---------------------------------------------------------------- primitives *)
  Lemma safe_get_block H c : safe H (get_block c) (Pblk c).
  Proof.
    simpl. split; auto. intros H' rs E HO OK. destruct rs; simpl; auto.
    destruct (e_val e) eqn:EV; simpl; auto.
    destruct OK as [EI EK]. unfold entry_in in EI. rewrite EK, EV in EI. apply HO in EI. exact EI.
  Qed.

  Lemma safe_update_block H c b' rev : bwf c b' ->
    safe H (update_block c b' rev)
         (fun H' r => match r with
                      | inl (b2, rev') => b2 = bump b' /\ H' rev' = Some (KBlock c, VBlock b2)
                      | inr _ => True end).
  Proof.
    intros W. simpl. split.
    - left. intros v0. apply bwf_bump; exact W.
    - intros H' rs E HO OK. destruct rs; simpl; auto.
      destruct OK as [EI [EK EV]]. unfold entry_in in EI. rewrite EK, EV in EI. auto.
  Qed.

  Lemma safe_create_block H c b : bwf c b -> safe H (create_block c b) (Pblk c).
  Proof.
    intros W. simpl. split; [exact W|]. intros H' rs E HO OK. destruct rs; simpl; auto.
  Qed.

  Lemma safe_delete_block H c rev : safe H (delete_block c rev) Ptrue.
  Proof. simpl. split; [left; intros; exact I|]. intros H' rs E HO OK. destruct rs; simpl; exact I. Qed.

  Lemma safe_get_aff H host c : safe H (get_aff host c) Ptrue.
  Proof. simpl. split; auto. intros H' rs E HO OK. destruct rs; simpl; try exact I. destruct (e_val e); exact I. Qed.
  Lemma safe_update_aff H host c s rev : (exists bs, blockc c bs) -> safe H (update_aff host c s rev) Ptrue.
  Proof. intros B. simpl. split; [left; intros; exact B|]. intros H' rs E HO OK. destruct rs; exact I. Qed.
  Lemma safe_create_aff H host c s : (exists bs, blockc c bs) -> safe H (create_aff host c s) Ptrue.
  Proof. intros B. simpl. split; [exact B|]. intros H' rs E HO OK. destruct rs; exact I. Qed.
  Lemma safe_delete_aff H host c rev : safe H (delete_aff host c rev) Ptrue.
  Proof. simpl. split; [left; intros; exact I|]. intros H' rs E HO OK. destruct rs; exact I. Qed.

  Lemma safe_get_handle H h : safe H (get_handle h) Ptrue.
  Proof. simpl. split; auto. intros H' rs E HO OK. destruct rs; simpl; try exact I. destruct (e_val e); exact I. Qed.
  Lemma safe_update_handle H h m rev : safe H (update_handle h m rev) Ptrue.
  Proof. simpl. split; [left; intros; exact I|]. intros H' rs E HO OK. destruct rs; exact I. Qed.
  Lemma safe_create_handle H h m : safe H (create_handle h m) Ptrue.
  Proof. simpl. split; [exact I|]. intros H' rs E HO OK. destruct rs; exact I. Qed.
  Lemma safe_delete_handle H h rev : safe H (delete_handle h rev) Ptrue.
  Proof. simpl. split; [left; intros; exact I|]. intros H' rs E HO OK. destruct rs; exact I. Qed.

  Opaque get_block update_block create_block delete_block get_aff update_aff create_aff delete_aff
         get_handle update_handle create_handle delete_handle.
  Opaque Cas.bind.

  Ltac sb L := eapply (@Cas.safeQ_bind key value lopt create_ok update_ok delete_ok VI);
               [ eapply L | cbv beta; intros ?H ?r ?E ?P ].
  Ltac dif := match goal with |- Cas.safeQ _ _ _ _ _ (if ?c then _ else _) _ => destruct c end.
  Ltac sret := cbv iota; apply safe_ret; first [exact I | unfold Ptrue; simpl; auto].

  (* ---------------------------------------------------------------- programs shared with C19 *)
  Lemma inc_handle_safe fuel : forall h c n H, safe H (inc_handle fuel h c n) Ptrue.
  Proof.
    induction fuel as [|f IH]; intros h c n H; simpl; [exact I|].
    sb safe_get_handle. destruct r as [[m rev]|e].
    - sb safe_update_handle. destruct r; [sret | apply IH].
    - destruct e; try sret. sb safe_create_handle. destruct r; [sret | apply IH].
  Qed.

  Lemma dec_handle_safe sb_ fuel : forall h c n cached H, safe H (dec_handle sb_ fuel h c n cached) Ptrue.
  Proof.
    induction fuel as [|f IH]; intros h c n cached H; simpl; [exact I|].
    eapply (@Cas.safeQ_bind key value lopt create_ok update_ok delete_ok VI _ _ _ _ _ Ptrue).
    - destruct cached; [sret | apply safe_get_handle].
    - cbv beta. intros H0 r E P. destruct r as [[m rev]|e]; [|sret].
      destruct (hdec m c n) as [[|x m']|].
      + sb safe_delete_handle. destruct r as [|e]; [sret|]. destruct e; try sret. apply IH.
      + sb safe_update_handle. destruct r as [|e]; [sret|]. destruct e; try sret. apply IH.
      + destruct cached; [|sret]. destruct sb_; [sret | apply IH].
  Qed.

  Lemma confirm_aff_safe H host c rev : (exists bs, blockc c bs) -> safe H (confirm_aff host c rev) Ptrue.
  Proof.
    intros B. unfold confirm_aff. sb safe_update_aff; [exact B|]. destruct r; [sret|].
    sb safe_get_aff. destruct r as [[[| |] rev2]|]; sret.
  Qed.

  Lemma get_pending_aff_safe H host c : (exists bs, blockc c bs) -> safe H (get_pending_aff host c) Ptrue.
  Proof.
    intros B. unfold get_pending_aff. sb safe_create_aff; [exact B|]. destruct r as [rev|e]; [sret|].
    destruct e; try sret. sb safe_get_aff. destruct r as [[st rev]|e]; [|sret].
    destruct st; try sret; (sb safe_update_aff; [exact B|]; destruct r; sret).
  Qed.

  Lemma bwf_new_block c bs host : blockc c bs -> bwf c (new_block (c19cfg cf bs) c host).
  Proof.
    intros B. split; [reflexivity|]. simpl. rewrite repeat_length. split; [|exact B].
    apply Forall_forall. intros o Hin. apply in_seq in Hin. lia.
  Qed.

  Lemma claim_affine_block_safe H fx host c bs affrev : blockc c bs ->
    safe H (claim_affine_block_v (c19cfg cf bs) fx host c affrev) (Pblk c).
  Proof.
    intros B. assert (B' : exists bs, blockc c bs) by eauto.
    unfold claim_affine_block_v. sb safe_create_block; [apply bwf_new_block; exact B|].
    destruct r as [[b rev]|e].
    - sb confirm_aff_safe; [exact B'|]. destruct r; sret.
    - destruct e; try sret. sb safe_get_block. destruct r as [[b rev]|e]; [|sret].
      destruct (optN_eqb (bk_aff b) (Some host)).
      + destruct fx.
        * sb safe_update_block; [exact P0|]. destruct r as [[b2 rev2]|e]; [|sret].
          sb confirm_aff_safe; [exact B'|]. destruct r; sret. destruct P1 as [-> _]. apply bwf_bump; exact P0.
        * sb confirm_aff_safe; [exact B'|]. destruct r; sret.
      + sb safe_delete_aff. sret.
  Qed.

  Lemma get_block_from_aff_safe H fx host c bs aff : blockc c bs ->
    safe H (get_block_from_aff_v (c19cfg cf bs) fx host c aff) (Pblk c).
  Proof.
    intros B. assert (B' : exists bs, blockc c bs) by eauto.
    unfold get_block_from_aff_v. destruct aff as [st affrev].
    sb safe_get_block. destruct r as [[b brev]|e].
    - destruct (negb (optN_eqb (bk_aff b) (Some host))).
      + sb safe_delete_aff. destruct r; sret.
      + destruct (affst_eqb st AConfirmed); [sret|].
        sb safe_update_aff; [exact B'|]. destruct r as [rev1|e]; [|sret].
        sb safe_update_block; [exact P|].
        destruct r as [[b2 rev2]|e]; [|sret].
        sb safe_update_aff; [exact B'|]. destruct r; sret. destruct P1 as [-> _]. apply bwf_bump; exact P.
    - destruct e; try sret. sb safe_update_aff; [exact B'|]. destruct r as [rev'|e]; [|sret].
      apply claim_affine_block_safe; exact B.
  Qed.

  Lemma bwf_clear_aff c b : bwf c b -> bwf c (clear_aff b).
  Proof. intros (A & B & C). split; [|split]; simpl; auto. Qed.

  Lemma release_block_affinity_safe H host c must : (exists bs, blockc c bs) ->
    safe H (release_block_affinity host c must) Ptrue.
  Proof.
    intros B. unfold release_block_affinity. sb safe_get_aff. destruct r as [[st affrev]|e]; [|sret].
    sb safe_get_block. destruct r as [[b brev]|e]; [|sret].
    dif; [sb safe_delete_aff; sret|]. dif; [sret|].
    sb safe_update_aff; [exact B|]. destruct r as [affrev'|e]; [|sret].
    assert (FIN : forall H', safe H' (d2 <- delete_aff host c affrev' ;;
                                      match d2 with
                                      | inl _ => Ret (inl tt)
                                      | inr ENotFound => Ret (inl tt)
                                      | inr e => Ret (inr e)
                                      end) (@Ptrue (res unit))).
    { intros H'. sb safe_delete_aff. destruct r as [|e]; [sret|]. destruct e; sret. }
    dif.
    - sb safe_delete_block. destruct r as [|e]; [apply FIN|]. destruct e; try sret. apply FIN.
    - sb safe_update_block; [apply bwf_clear_aff; exact P0|]. destruct r as [|e]; [apply FIN | sret].
  Qed.

  (* ---------------------------------------------------------------- AutoAssign *)
  (* c is a block of one of the pools ps (all of them configured pools) with block size bs *)
  Definition okc (ps : list pool) (c : N) (bs : nat) : Prop :=
    exists p, In p ps /\ In p (g_pools cf) /\ is_block p c /\ bs = p_bsize p.

  Lemma okc_blockc ps c bs : okc ps c bs -> blockc c bs.
  Proof. intros (p & _ & A & B & C). exists p. auto. Qed.

  (* a returned address: taken from a block of an allowed pool, inside it, not reserved, with that block's
     mask, recorded by a write of that block whose affinity is the host's when the affinity check is on *)
  Definition good (ps : list pool) (host : N) (H : hist) (x : N * nat) : Prop :=
    let '(a, l) := x in
    exists p c o rev b2,
      In p ps /\ In p (g_pools cf) /\ is_block p c /\ a = c + N.of_nat o /\ (o < p_bsize p)%nat /\
      in_pool p a = true /\ reserved cf a = false /\ l = (32 - Nat.log2 (p_bsize p))%nat /\
      H rev = Some (KBlock c, VBlock b2) /\ length (bk_allocs b2) = p_bsize p /\
      (g_strict cf = true -> bk_aff b2 = Some host) /\ bk_cidr b2 = c.

  Lemma good_mono ps host H H' x : hext H H' -> good ps host H x -> good ps host H' x.
  Proof.
    intros E. destruct x as [a l]. intros (p & c & o & rev & b2 & G). exists p, c, o, rev, b2.
    repeat split; try tauto. apply E. tauto.
  Qed.
  Lemma Forall_good_mono ps host H H' l : hext H H' -> Forall (good ps host H) l -> Forall (good ps host H') l.
  Proof. intros E F. eapply Forall_impl; [|apply F]. intros x. apply good_mono; auto. Qed.

  Lemma bwf_size ps c bs b : okc ps c bs -> bwf c b -> length (bk_allocs b) = bs.
  Proof.
    intros (p & _ & Ip & IB & ->) (_ & _ & (p' & Ip' & IB' & L)).
    rewrite L. f_equal. apply (DISJ p' p c); auto; apply is_block_in_pool; auto.
  Qed.

  Definition Pips (ps : list pool) (host : N) (num : nat) (H : hist) (r : res (list (N * nat))) : Prop :=
    match r with inl ips => (length ips <= num)%nat /\ Forall (good ps host H) ips | inr _ => True end.

  Lemma assign_from_block_safe H ps b rev c bs num h tag host ac :
    okc ps c bs -> bwf c b -> (g_strict cf = true -> ac = true) ->
    safe H (assign_from_block cf (b, rev) c num h tag host ac) (Pips ps host num).
  Proof.
    intros OK W ST. unfold assign_from_block.
    destruct (blk_auto_assign_r (reserved cf) b num h tag ac host) as [[b' ips]|] eqn:AA; [|sret].
    destruct ips as [|a0 ips']; [sret; split; [simpl; lia|constructor]|].
    remember (a0 :: ips') as ips.
    destruct (baa_spec _ _ _ _ _ _ _ _ _ AA) as (C1 & A1 & L1 & U1 & N1 & AC1 & IPS).
    assert (W' : bwf c b').
    { destruct W as (WA & WB & WC). split; [congruence|]. split; [|rewrite L1; exact WC].
      rewrite L1. apply Forall_forall. intros o Ho. rewrite Forall_forall in WB. apply WB. apply U1; exact Ho. }
    sb inc_handle_safe. destruct r as [u|e]; [|sret].
    sb safe_update_block; [exact W'|].
    destruct r as [[b2 rev2]|e].
    - sret. destruct P0 as [-> HR]. split; [exact N1|].
      apply Forall_forall. intros [a l] Hin. destruct (IPS a l Hin) as (o & Ho & EA & RV & EL).
      pose proof (bwf_size _ _ _ _ OK W) as SZ.
      destruct OK as (p & Ip & Ig & IB & ->).
      destruct W as (WA & WB & WC). rewrite Forall_forall in WB. pose proof (WB _ Ho) as OB. rewrite SZ in OB.
      exists p, c, o, rev2, (bump b'). simpl.
      repeat split; auto.
      + congruence.
      + subst a. rewrite WA. apply block_addr_in_pool; auto.
      + subst l. unfold blk_plen. rewrite SZ. reflexivity.
      + congruence.
      + intros S. rewrite A1. apply AC1. apply ST; exact S.
      + destruct W' as [X _]; exact X.
    - sb dec_handle_safe. sret.
  Qed.

  Definition Popt (c : N) (H : hist) (r : option (block * N)) : Prop :=
    match r with Some (b, _) => bwf c b | None => True end.

  Lemma try_affine_safe ps fuel : forall H host c bs, okc ps c bs -> safe H (try_affine cf fuel host c bs) (Popt c).
  Proof.
    induction fuel as [|f IH]; intros H host c bs OK; simpl; [exact I|].
    sb safe_get_aff. destruct r as [aff|e]; [|sret].
    sb get_block_from_aff_safe; [eapply okc_blockc; eauto|]. destruct r as [[b brev]|e].
    - dif; sret.
    - destruct e; try sret. apply IH; exact OK.
  Qed.

  Definition okrem (ps : list pool) (rem : list (N * nat)) : Prop := Forall (fun x => okc ps (fst x) (snd x)) rem.

  Definition Pscan (ps : list pool) (H : hist) (r : option (block * N * N) * list (N * nat)) : Prop :=
    okrem ps (snd r) /\ match fst r with Some (b, _, c) => bwf c b /\ exists bs, okc ps c bs | None => True end.

  Lemma scan_affine_safe ps rem : forall H host, okrem ps rem -> safe H (scan_affine cf rem host) (Pscan ps).
  Proof.
    induction rem as [|[c bs] rest IH]; intros H host OR; simpl; [split; [constructor|exact I]|].
    inversion OR as [|? ? OKC OR']; subst. simpl in OKC.
    dif; [apply IH; exact OR'|].
    sb try_affine_safe; [exact OKC|]. destruct r as [[b rev]|]; [|apply IH; exact OR'].
    sret. split; [exact OR'|]. split; [exact P|eauto].
  Qed.

  Lemma first_usable_okc es host node : forall ps0 ps c bs, incl ps ps0 -> incl ps0 (g_pools cf) ->
    first_usable cf es host node ps = Some (c, bs) -> okc ps0 c bs.
  Proof.
    induction ps as [|p t IH]; simpl; intros c bs I1 I2 E; [discriminate|].
    destruct (find (usable cf es host p) (pool_order p node)) as [c0|] eqn:F.
    - inversion E; subst. apply find_some in F. destruct F as [F _].
      exists p. split; [apply I1; left; reflexivity|]. split; [apply I2, I1; left; reflexivity|].
      split; [eapply pool_order_is_block; eauto | reflexivity].
    - apply IH; auto. intros x X. apply I1. right; exact X.
  Qed.

  Definition Pusable (ps : list pool) (H : hist) (r : res (N * nat)) : Prop :=
    match r with inl (c, bs) => okc ps c bs | inr _ => True end.

  Lemma find_usable_safe H host node ps : incl ps (g_pools cf) -> safe H (find_usable cf host node ps) (Pusable ps).
  Proof.
    intros IG. unfold find_usable. destruct ps as [|p0 pt]; [sret|]. remember (p0 :: pt) as ps.
    apply safe_act; [exact I|]. intros H' rs E HO OK.
    destruct rs; try sret. destruct (first_usable cf es host node ps) as [[c bs]|] eqn:F; sret.
    eapply first_usable_okc; eauto. apply incl_refl.
  Qed.

  Definition Pclaim (c : N) (H : hist) (r : claim_res) : Prop :=
    match r with CRBlock (b, _) => bwf c b | _ => True end.

  Lemma claim_inner_safe ps fuel : forall H host c bs, okc ps c bs -> safe H (claim_inner cf fuel host c bs) (Pclaim c).
  Proof.
    induction fuel as [|f IH]; intros H host c bs OK; simpl; [exact I|].
    assert (B : blockc c bs) by (eapply okc_blockc; eauto).
    sb get_pending_aff_safe; [eauto|]. destruct r as [aff|e].
    - sb get_block_from_aff_safe; [exact B|]. destruct r as [[b brev]|e].
      + dif; sret.
      + destruct e; try sret. apply IH; exact OK.
    - destruct e; try sret. apply IH; exact OK.
  Qed.

  Definition Pclaimed (ps : list pool) (H : hist) (r : res (block * N * N)) : Prop :=
    match r with inl (b, _, c) => bwf c b /\ exists bs, okc ps c bs | inr _ => True end.

  Lemma claim_outer_safe ps fuel : forall H host node, incl ps (g_pools cf) ->
    safe H (claim_outer cf fuel host node ps) (Pclaimed ps).
  Proof.
    induction fuel as [|f IH]; intros H host node IG; simpl; [exact I|].
    sb find_usable_safe; [exact IG|]. destruct r as [[c bs]|e]; [|sret].
    sb claim_inner_safe; [exact P|]. destruct r as [[b rev]| |e]; [sret; eauto | apply IH; exact IG | sret].
  Qed.

  Definition Pfc (ps : list pool) (H : hist) (r : res (block * N * N * bool) * list (N * nat)) : Prop :=
    okrem ps (snd r) /\ match fst r with inl (b, _, c, _) => bwf c b /\ exists bs, okc ps c bs | inr _ => True end.

  Lemma find_or_claim_safe H ps rem host node allow : incl ps (g_pools cf) -> okrem ps rem ->
    safe H (find_or_claim cf rem host node ps allow) (Pfc ps).
  Proof.
    intros IG OR. unfold find_or_claim. sb scan_affine_safe; [exact OR|].
    destruct r as [[[[b rev] c]|] rest]; destruct P as [PR PB]; simpl in PR, PB.
    - sret. split; [exact PR | exact PB].
    - destruct (negb allow); [sret; unfold Pfc; simpl; split; [constructor|exact I]|].
      destruct (g_autoalloc cf); [|sret; unfold Pfc; simpl; split; [constructor|exact I]].
      sb claim_outer_safe; [exact IG|]. destruct r as [[[b rev] c]|e]; sret; unfold Pfc; simpl; (split; [constructor|]); [exact P | exact I].
  Qed.

  Definition Plist (ps : list pool) (host : N) (num : nat) (H : hist) (ips : list (N * nat)) : Prop :=
    (length ips <= num)%nat /\ Forall (good ps host H) ips.

  Lemma assign_retry_safe ps fuel : forall H b rev c bs rem h tag host,
    okc ps c bs -> bwf c b -> safe H (assign_retry cf fuel (b, rev) c rem h tag host) (Plist ps host rem).
  Proof.
    induction fuel as [|f IH]; intros H b rev c bs rem h tag host OK W; simpl; [split; [simpl; lia|constructor]|].
    sb assign_from_block_safe; [exact OK | exact W | auto |]. destruct r as [ips|e]; [sret|].
    destruct e; try (sret; split; [simpl; lia|constructor]).
    sb safe_get_block. destruct r as [[b' rev']|e]; [|sret; split; [simpl; lia|constructor]].
    eapply IH; eauto.
  Qed.

  Lemma na_try_safe ps fuel : forall H c bs rem h tag host, g_strict cf = false -> okc ps c bs ->
    safe H (na_try cf fuel c rem h tag host) (Plist ps host rem).
  Proof.
    induction fuel as [|f IH]; intros H c bs rem h tag host NS OK; simpl; [split; [simpl; lia|constructor]|].
    sb safe_get_block. destruct r as [[b rev]|e]; [|sret; split; [simpl; lia|constructor]].
    sb assign_from_block_safe; [exact OK | exact P | rewrite NS; discriminate |]. destruct r as [ips|e]; [sret|].
    destruct e; try (sret; split; [simpl; lia|constructor]). eapply IH; eauto.
  Qed.

  Lemma na_loop_safe ps order : forall H ips num h tag host, g_strict cf = false ->
    Forall (fun c => exists bs, okc ps c bs) order ->
    (length ips <= num)%nat -> Forall (good ps host H) ips ->
    safe H (na_loop cf order ips num h tag host) (Plist ps host num).
  Proof.
    induction order as [|c rest IH]; intros H ips num h tag host NS FO LE F; simpl; [split; auto|].
    inversion FO as [|? ? [bs OK] FO']; subst.
    destruct (Nat.leb num (length ips)) eqn:LB; [sret; split; auto|].
    apply Nat.leb_gt in LB.
    sb na_try_safe; [exact NS | exact OK |]. destruct P as [PL PF]. apply IH; [exact NS | exact FO' | |].
    - rewrite app_length. lia.
    - apply Forall_app. split; [eapply Forall_good_mono; eauto | exact PF].
  Qed.

  Lemma na_order_ok ps node : incl ps (g_pools cf) -> Forall (fun c => exists bs, okc ps c bs) (na_order cf node ps).
  Proof.
    intros IG. apply Forall_forall. intros c Hin. unfold na_order in Hin. apply in_flat_map in Hin.
    destruct Hin as (p & Ip & Hc). apply filter_In in Hc. destruct Hc as [Hc _].
    exists (p_bsize p), p. split; auto. split; [apply IG; exact Ip|]. split; [|reflexivity].
    eapply pool_order_is_block; eauto.
  Qed.

  Definition Pres (ps : list pool) (host : N) (num : nat) (H : hist) (r : result) : Prop :=
    match r with RIPs ips _ => (length ips <= num)%nat /\ Forall (good ps host H) ips | _ => True end.

  Lemma aa_loop_safe ps fuel : forall H ips rem_aff owned maxb num h tag host node,
    incl ps (g_pools cf) -> okrem ps rem_aff -> (length ips <= num)%nat -> Forall (good ps host H) ips ->
    safe H (aa_loop cf fuel ips rem_aff owned maxb num h tag host node ps) (Pres ps host num).
  Proof.
    induction fuel as [|f IH]; intros H ips rem_aff owned maxb num h tag host node IG OR LE F; simpl.
    - dif; sret.
    - destruct (Nat.leb num (length ips)) eqn:LB; [sret|]. apply Nat.leb_gt in LB.
      sb find_or_claim_safe; [exact IG | exact OR |].
      destruct r as [[[[[b rev] c] newly]|e] rem']; destruct P as [PR PB]; simpl in PR, PB.
      + destruct PB as [W [bs OK]].
        sb assign_retry_safe; [exact OK | exact W |]. destruct P as [PL PF]. apply IH; auto.
        * rewrite app_length. lia.
        * apply Forall_app. split; [|exact PF]. eapply Forall_good_mono; [|exact F].
          eapply (@Cas.hext_trans key value); eauto.
      + assert (F0 : Forall (good ps host H0) ips) by (eapply Forall_good_mono; eauto).
        destruct e; try sret.
        destruct (g_strict cf) eqn:ST; simpl; [split; [lia | exact F0]|].
        sb na_loop_safe; [exact ST | apply na_order_ok; exact IG | lia | exact F0 |]. sret.
  Qed.

  Lemma release_stale_safe fuel : forall H host c, (exists bs, blockc c bs) -> safe H (release_stale fuel host c) Ptrue.
  Proof.
    induction fuel as [|f IH]; intros H host c B; simpl; [exact I|].
    sb release_block_affinity_safe; [exact B|]. destruct r as [|e]; [sret|]. destruct e; try sret; apply IH; exact B.
  Qed.

  Lemma release_all_safe cs : forall H host, Forall (fun c => exists bs, blockc c bs) cs -> safe H (release_all cf cs host) Ptrue.
  Proof.
    induction cs as [|c t IH]; intros H host F; simpl; [exact I|].
    inversion F; subst. sb release_stale_safe; [assumption|]. sb IH; [assumption|]. sret.
  Qed.

  (* what the List of the host's affinities tells: every listed CIDR is a block of a configured pool *)
  Lemma aff_cidrs_blockc H es : hist_ok H -> Forall (Cas.entry_in H) es ->
    Forall (fun c => exists bs, blockc c bs) (aff_cidrs es).
  Proof.
    intros HO F. induction es as [|e t IH]; simpl; [constructor|].
    inversion F as [|? ? EI F']; subst. destruct (e_key e) eqn:EK; auto.
    constructor; auto. unfold Cas.entry_in in EI. rewrite EK in EI. apply HO in EI. exact EI.
  Qed.

  Lemma with_bsize_okrem ps cs : incl ps (g_pools cf) -> Forall (fun c => exists bs, blockc c bs) cs ->
    okrem ps (with_bsize ps cs).
  Proof.
    intros IG F. apply Forall_forall. intros [c bs] Hin. simpl.
    destruct (with_bsize_spec _ _ _ _ Hin) as (p & Ip & INP & -> & Hc).
    rewrite Forall_forall in F. destruct (F _ Hc) as (bs' & p' & Ip' & IB' & _).
    assert (p' = p) by (apply (DISJ p' p c); auto; apply is_block_in_pool; auto). subst p'.
    exists p. auto.
  Qed.

  (* the pools AutoAssign may use for the request *)
  Definition allowed (q : request) : list pool :=
    match determine_pools cf q with Some sel => by_use (q_use q) sel | None => [] end.

  Lemma allowed_incl q : incl (allowed q) (g_pools cf).
  Proof.
    unfold allowed. destruct (determine_pools cf q) as [sel|] eqn:D; [|intros x []].
    intros p Hin. eapply allowed_meets_spec; eauto.
  Qed.

  Definition Paa (q : request) (H : hist) (r : result) : Prop := Pres (allowed q) (host_of q) (q_num q) H r.

  Theorem auto_assign_safe H q : safe H (auto_assign cf q) (Paa q).
  Proof.
    unfold auto_assign, Paa. pose proof (allowed_incl q) as IG. unfold allowed in *.
    destruct (determine_pools cf q) as [sel|] eqn:D; [|sret; split; [simpl; lia|constructor]].
    destruct sel as [|s0 st]; [sret; split; [simpl; lia|constructor]|]. remember (s0 :: st) as sel.
    destruct (by_use (q_use q) sel) as [|a0 at_] eqn:BU; [sret; split; [simpl; lia|constructor]|].
    rewrite <- BU in *. clear BU.
    apply safe_act; [exact I|]. intros H' rs E HO OK.
    destruct rs; try (sret; split; [simpl; lia|constructor]).
    simpl in OK. pose proof (aff_cidrs_blockc _ _ HO OK) as FB.
    assert (SUB : forall f, Forall (fun c => exists bs, blockc c bs) (filter f (aff_cidrs es))).
    { intros f. apply Forall_forall. intros c Hin. apply filter_In in Hin. rewrite Forall_forall in FB. apply FB. tauto. }
    sb release_all_safe.
    { apply Forall_forall. intros c Hin. apply filter_In in Hin. destruct Hin as [Hin _].
      apply filter_In in Hin. destruct Hin as [Hin _]. pose proof (SUB (fun c => negb (in_pools (by_use (q_use q) sel) c))) as S.
      rewrite Forall_forall in S. apply S. exact Hin. }
    apply aa_loop_safe; auto.
    - apply with_bsize_okrem; auto.
    - simpl; lia.
  Qed.

  (* ---------------------------------------------------------------- releases *)
  Lemma bwf_free_ordinals c b ords : bwf c b -> bwf c (free_ordinals b ords).
  Proof.
    intros (A & B & C). unfold free_ordinals, compact. unfold bwf. cbn [bk_cidr bk_allocs bk_unalloc].
    rewrite map_length, fold_set_length.
    split; [exact A|]. split; [|exact C].
    apply Forall_app. split; [exact B|]. apply Forall_forall. intros o Ho. apply filter_In in Ho.
    destruct Ho as [Ho _]. apply in_seq in Ho. lia.
  Qed.

  Lemma bwf_blk_release c b opts b' un cnt : blk_release b opts = inl (b', un, cnt) -> bwf c b -> bwf c b'.
  Proof.
    unfold blk_release.
    match goal with |- context [if ?x then _ else _] => destruct x end; [discriminate|].
    match goal with |- context [match ?l with [] => _ | _ :: _ => _ end] => destruct l as [|a0 al] eqn:AL end.
    - intros X W; inversion X; subst. exact W.
    - intros X W; inversion X; subst. apply bwf_free_ordinals; exact W.
  Qed.

  Lemma bwf_blk_release_by_handle c b h b' n : blk_release_by_handle b h = (b', n) -> bwf c b -> bwf c b'.
  Proof.
    unfold blk_release_by_handle.
    match goal with |- context [match ?l with [] => _ | _ :: _ => _ end] => destruct l as [|a0 al] eqn:AL end.
    - intros X W; inversion X; subst. exact W.
    - intros X W; inversion X; subst. apply bwf_free_ordinals; exact W.
  Qed.

  Lemma ensure_consistent_safe H c b : bwf c b -> safe H (ensure_consistent cf b) Ptrue.
  Proof.
    intros W. unfold ensure_consistent. destruct (bk_aff b) as [h|]; [|sret].
    dif; [sret|]. destruct (find_pool (enabled_pools cf) (bk_cidr b)) as [p|]; [|sret].
    dif; [sret|]. destruct W as (A & _ & C). rewrite A.
    sb release_block_affinity_safe; [eauto|]. sret.
  Qed.

  Lemma dec_all_safe l : forall H c cache, safe H (dec_all cf l c cache) Ptrue.
  Proof.
    induction l as [|[h n] t IH]; intros H c cache; simpl; [exact I|].
    sb dec_handle_safe. apply IH.
  Qed.

  Lemma release_loop_safe fuel : forall H c opts cache, safe H (release_loop cf fuel c opts cache) Ptrue.
  Proof.
    induction fuel as [|f IH]; intros H c opts cache; simpl; [exact I|].
    sb safe_get_block. destruct r as [[b brev]|e]; [|destruct e; sret].
    destruct (blk_release b opts) as [[[b' un] cnt]|e] eqn:BR; [|sret].
    pose proof (bwf_blk_release _ _ _ _ _ _ BR P) as W'.
    dif; [sret|].
    eapply (@Cas.safeQ_bind key value lopt create_ok update_ok delete_ok VI) with (P := Ptrue).
    { dif; [apply safe_delete_block|].
      sb safe_update_block; [exact W'|]. destruct r; sret. }
    cbv beta; intros H1 r E1 P1. destruct r as [u|e].
    - sb dec_all_safe. sb ensure_consistent_safe; [exact W'|]. sret.
    - destruct e; try sret. apply IH.
  Qed.

  Lemma release_ips_safe H opts : safe H (release_ips cf opts) Ptrue.
  Proof.
    unfold release_ips. destruct opts as [|[a oh] t]; [sret|].
    dif; [|apply release_loop_safe].
    apply safe_act; [exact I|]. intros H' rs E HO OK. destruct rs; try sret. apply release_loop_safe.
  Qed.

  Lemma rbh_one_safe fuel : forall H c h, safe H (rbh_one cf fuel c h) Ptrue.
  Proof.
    induction fuel as [|f IH]; intros H c h; simpl; [exact I|].
    sb safe_get_block. destruct r as [[b brev]|e]; [|destruct e; sret].
    destruct (blk_release_by_handle b h) as [b' n] eqn:BR.
    pose proof (bwf_blk_release_by_handle _ _ _ _ _ BR P) as W'.
    destruct n as [|n]; [sret|].
    assert (AFTER : forall H', safe H' (u_ <- dec_handle false (g_retries cf) h c (N.of_nat (S n)) None ;;
                                        v_ <- ensure_consistent cf b' ;; Ret (inl tt)) (@Ptrue (res unit))).
    { intros H'. sb dec_handle_safe. sb ensure_consistent_safe; [exact W'|]. sret. }
    dif.
    - sb safe_delete_block. destruct r as [u|e]; [apply AFTER|].
      destruct e; try sret. apply IH.
    - sb safe_update_block; [exact W'|].
      destruct r as [[b2 rev2]|e]; [apply AFTER|].
      destruct e; try sret. apply IH.
  Qed.

  Lemma rbh_blocks_safe cs : forall H h, safe H (rbh_blocks cf cs h) Ptrue.
  Proof.
    induction cs as [|c t IH]; intros H h; simpl; [exact I|].
    sb rbh_one_safe. destruct r; [apply IH | sret].
  Qed.

  Lemma release_by_handle_safe H h hint : safe H (release_by_handle cf h hint) Ptrue.
  Proof.
    unfold release_by_handle. sb safe_get_handle. destruct r as [[m rev]|e]; [apply rbh_blocks_safe | sret].
  Qed.

  Lemma release_aff_loop_safe fuel : forall H host c must, (exists bs, blockc c bs) ->
    safe H (release_aff_loop fuel host c must) Ptrue.
  Proof.
    induction fuel as [|f IH]; intros H host c must B; simpl; [exact I|].
    sb release_block_affinity_safe; [exact B|]. destruct r as [|e]; [sret|].
    destruct e; try sret. apply IH; exact B.
  Qed.

  Lemma is_blockb_spec p c : is_blockb p c = true -> is_block p c.
  Proof.
    unfold is_blockb. intros E. apply existsb_exists in E. destruct E as (x & Hin & Ex).
    apply N.eqb_eq in Ex. subst x. apply in_map_iff in Hin. destruct Hin as (i & Ei & Hi).
    apply in_seq in Hi. exists i. split; [lia | auto].
  Qed.

  Lemma release_affinity_safe H node c must : safe H (release_affinity cf node c must) Ptrue.
  Proof.
    unfold release_affinity. destruct (find_pool (enabled_pools cf) c) as [p|] eqn:F; [|sret].
    destruct (is_blockb p c) eqn:IB; [|sret].
    apply find_pool_some in F. destruct F as [Ip _].
    unfold enabled_pools in Ip. apply filter_In in Ip. destruct Ip as [Ip _].
    sb release_aff_loop_safe.
    { exists (p_bsize p), p. split; auto. split; auto. apply is_blockb_spec; exact IB. }
    destruct r; sret.
  Qed.

  (* ---------------------------------------------------------------- operations, clients, system *)
  Definition op_post (o : op) (H : hist) (r : result) : Prop :=
    match o with
    | OpAutoAssign q => Paa q H r
    | _ => True
    end.

  Theorem compile_safe H o : safe H (compile cf o) (op_post o).
  Proof.
    destruct o; simpl.
    - apply auto_assign_safe.
    - apply release_ips_safe.
    - apply release_by_handle_safe.
    - apply release_affinity_safe.
  Qed.

  (* a client = its operations in sequence (each names its own node); it returns every (operation, result) *)
  Fixpoint client_prog (ops : list op) : prog (list (op * result)) :=
    match ops with
    | [] => Ret []
    | o :: t => Cas.bind (compile cf o) (fun r =>
                Cas.bind (client_prog t) (fun rest => Ret ((o, r) :: rest)))
    end.

  Definition Qclient (H : hist) (l : list (op * result)) : Prop :=
    Forall (fun p => op_post (fst p) H (snd p)) l.

  Lemma op_post_mono o H H' r : hext H H' -> op_post o H r -> op_post o H' r.
  Proof.
    intros E. destruct o; simpl; auto.
    unfold Paa, Pres. destruct r; auto. intros [A B]. split; auto. eapply Forall_good_mono; eauto.
  Qed.

  Lemma Qclient_mono : Cas.Qmono Qclient.
  Proof.
    intros H H' l E F. eapply Forall_impl; [|apply F]. intros [o r]. apply op_post_mono; auto.
  Qed.

  Lemma client_prog_safe ops : forall H, safe H (client_prog ops) Qclient.
  Proof.
    induction ops as [|o t IH]; intros H; simpl; [constructor|].
    sb compile_safe. sb IH. sret. constructor; [|exact P0].
    simpl. eapply op_post_mono; eauto.
  Qed.

  Definition sys0 (clients : list (list op)) : Cas.sys key value lopt (list (op * result)) :=
    {| sy_store := init_store;
       sy_clients := map (fun ops => CRun (client_prog ops)) clients |}.

  Definition hist0 : hist := fun _ => None.

  Notation sys_ok := (@Cas.sys_ok key value lopt create_ok update_ok delete_ok VI (list (op * result)) Qclient).
  Notation sys_run := (@Cas.sys_run key value lopt key_eqb key_ltb lmatch (list (op * result))).

  Lemma sys0_ok clients : sys_ok (sys0 clients) hist0.
  Proof.
    split; [|split].
    - split; simpl; [intros e []|intros r kv X; discriminate].
    - intros r k v X; discriminate.
    - simpl. apply Forall_forall. intros c Hin. apply in_map_iff in Hin. destruct Hin as (ops & <- & _).
      simpl. apply client_prog_safe.
  Qed.

  (* every reachable datastore: blocks are pool blocks of the right size stored under their own CIDR, affinities
     name pool blocks *)
  Lemma reachable_values clients evs e :
    In e (st_ents (sy_store (sys_run (sys0 clients) evs))) -> VI (e_key e) (e_val e).
  Proof.
    intros Hin.
    apply (@Cas.safe_system_values key value lopt key_eqb key_ltb lmatch key_eqb_eq
             create_ok update_ok delete_ok VI vi_create vi_update (list (op * result)) Qclient Qclient_mono
             (sys0 clients) hist0 evs e (sys0_ok clients) Hin).
  Qed.

  (* every completed client: each of its AutoAssign results satisfies Paa w.r.t. a history H' of the writes that
     really happened (consistent with the final datastore) *)
  Lemma completed_results clients evs i l :
    nth_error (sy_clients (sys_run (sys0 clients) evs)) i = Some (CRun (Ret l)) ->
    exists H', Cas.store_hist (sy_store (sys_run (sys0 clients) evs)) H' /\ hist_ok H' /\
      Forall (fun p => op_post (fst p) H' (snd p)) l.
  Proof.
    intros NE.
    destruct (@Cas.safe_system_results key value lopt key_eqb key_ltb lmatch key_eqb_eq
             create_ok update_ok delete_ok VI vi_create vi_update (list (op * result)) Qclient Qclient_mono
             (sys0 clients) hist0 evs i l (sys0_ok clients) NE) as (H' & _ & SH & HO & Q).
    exists H'. auto.
  Qed.
End Safe.
