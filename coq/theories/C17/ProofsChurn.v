(* C17 — interface churn WITHOUT a full resync: oper-state flaps of known interfaces (the link keeps its ifindex), reported
   truthfully by the interface monitor at any later point, keep the tracker in sync; the per-interface resyncs that the
   "up" events queue run inside the next Apply, which converges like any other. *)
From Coq Require Import List NArith Bool String Lia.
From Verif.C17 Require Import Model Spec Proofs ProofsAttempt ProofsWinner ProofsApply ProofsEvery ProofsSound ProofsFull ProofsView ProofsRefresh ProofsSync ProofsHistory.
Import ListNotations.
Open Scope N_scope.
Arguments set : simpl never.

(* the view agrees with the links, except that the recorded oper state of the interfaces in D may be out of date *)
Definition VMx (cfg : config) (s : st) (e : env) (D : list string) : Prop :=
  (forall n, lookup String.eqb (s_n2i s) n =
             if iface_is_ours (c_pol cfg) n then option_map l_idx (lookup String.eqb (e_links e) n) else None) /\
  (forall i n, lookup N.eqb (s_i2n s) i = Some n <->
               (iface_is_ours (c_pol cfg) n = true /\ exists l, lookup String.eqb (e_links e) n = Some l /\ l_idx l = i)) /\
  (forall i x, lookup N.eqb (s_istate s) i = Some x ->
               exists n l, iface_is_ours (c_pol cfg) n = true /\ lookup String.eqb (e_links e) n = Some l /\ l_idx l = i /\
                           (In n D \/ x = link_state l)) /\
  (forall n l, iface_is_ours (c_pol cfg) n = true -> lookup String.eqb (e_links e) n = Some l ->
               exists x, lookup N.eqb (s_istate s) (l_idx l) = Some x /\ (In n D \/ x = link_state l)).

Lemma VMx_nil : forall cfg s e, VMx cfg s e [] <-> VM cfg s e.
Proof.
  intros cfg s e. split.
  - intros [V1 [V2 [V3 V4]]]. split; auto. split; auto. intros i x. split.
    + intros H. destruct (V3 _ _ H) as [n [l [A [B [C [[]|E]]]]]]. exists n, l. auto.
    + intros [n [l [A [B [C E]]]]]. destruct (V4 n l A B) as [x' [X [[]|Y]]]. congruence.
  - intros [V1 [V2 V3]]. split; auto. split; auto. split.
    + intros i x H. apply V3 in H. destruct H as [n [l [A [B [C E]]]]]. exists n, l. auto.
    + intros n l A B. exists (link_state l). split; auto. apply V3. exists n, l. auto.
Qed.

Record JD (cfg : config) (e : env) (s : st) (D : list string) : Prop := {
  jd_sub : Sub cfg s e;
  jd_ours : Ours cfg s;
  jd_own : Own cfg s e;
  jd_vm : VMx cfg s e D;
  jd_i1 : I1 cfg s;
  jd_pol : pol_ok cfg s
}.

Lemma JD_nil : forall cfg e s, JD cfg e s [] <-> J cfg e s.
Proof.
  intros. split; intros [A B C D E F]; constructor; auto; apply VMx_nil; auto.
Qed.

Lemma ours_i2n : forall cfg s s' r, (forall i, lookup N.eqb (s_i2n s) i = lookup N.eqb (s_i2n s') i) ->
  kroute_is_ours cfg s r = kroute_is_ours cfg s' r.
Proof. intros cfg s s' r H. Transparent kroute_is_ours. unfold kroute_is_ours. Opaque kroute_is_ours. rewrite H. reflexivity. Qed.

(* a link changes its flags (oper state) and keeps its ifindex *)
Lemma JD_link_flags : forall cfg e s D name l l0,
  lookup String.eqb (e_links e) name = Some l0 -> l_idx l = l_idx l0 ->
  JD cfg e s D -> JD cfg (env_step (ESetLink name l) e) s (name :: D).
Proof.
  intros cfg e s D name l l0 L0 EI [A B C [V1 [V2 [V3 V4]]] E F].
  assert (forall n, n <> name -> lookup String.eqb (e_links (env_step (ESetLink name l) e)) n = lookup String.eqb (e_links e) n) as LN.
  { intros n Hn. cbn. apply (lookup_set_neq String.eqb string_eqb_spec). congruence. }
  assert (lookup String.eqb (e_links (env_step (ESetLink name l) e)) name = Some l) as LS.
  { cbn. apply (lookup_set_eq String.eqb string_eqb_spec). }
  constructor; auto.
  split; [|split; [|split]].
  - intros n. destruct (string_dec n name) as [->|Hn].
    + rewrite V1, LS, L0. simpl. rewrite EI. auto.
    + rewrite V1, LN; auto.
  - intros i n. rewrite V2. split; intros [X [l' [Y Z]]]; split; auto.
    + destruct (string_dec n name) as [->|Hn]; [exists l; split; auto; congruence|exists l'; rewrite LN; auto].
    + destruct (string_dec n name) as [->|Hn]; [exists l0; split; auto; congruence|exists l'; rewrite LN in Y; auto].
  - intros i x H. destruct (V3 _ _ H) as [n [l' [X [Y [Z W]]]]].
    destruct (string_dec n name) as [->|Hn].
    + exists name, l. repeat split; auto; [congruence|left; left; auto].
    + exists n, l'. rewrite LN by auto. repeat split; auto. destruct W; [left; right; auto|right; auto].
  - intros n l' X Y. destruct (string_dec n name) as [->|Hn].
    + rewrite LS in Y. injection Y as <-. destruct (V4 name l0 X L0) as [x [P _]]. exists x. rewrite EI. split; auto. left; left; auto.
    + rewrite LN in Y by auto. destruct (V4 n l' X Y) as [x [P Q]]. exists x. split; auto. destruct Q; [left; right; auto|right; auto].
Qed.

Lemma in_sdel : forall name n D, In n (sdel String.eqb name D) <-> (In n D /\ n <> name).
Proof.
  intros. unfold sdel. rewrite filter_In. split; intros [A B]; split; auto.
  - intro; subst. rewrite String.eqb_refl in B. discriminate.
  - apply negb_true_iff. apply String.eqb_neq. congruence.
Qed.

(* the interface monitor reports the current oper state of a known interface *)
Lemma JD_tell : forall cfg now e s D name l, wf_links e ->
  lookup String.eqb (e_links e) name = Some l ->
  JD cfg e s D -> JD cfg e (on_iface cfg now name (l_idx l) (link_state l) s) (sdel String.eqb name D).
Proof.
  intros cfg now e s D name l WL L [A B C [V1 [V2 [V3 V4]]] E F].
  pose proof WL as [WI WZ].
  destruct (iface_is_ours (c_pol cfg) name) eqn:EO.
  2:{ rewrite on_iface_notours by auto. constructor; auto. split; auto. split; auto. split.
      - intros i x H. destruct (V3 _ _ H) as [n [l' [X [Y [Z W]]]]]. exists n, l'. repeat split; auto.
        destruct W; [left; apply in_sdel; split; [auto|intro; subst; congruence]|right; auto].
      - intros n l' X Y. destruct (V4 n l' X Y) as [x [P Q]]. exists x. split; auto.
        destruct Q; [left; apply in_sdel; split; [auto|intro; subst; congruence]|right; auto]. }
  assert (lookup String.eqb (s_n2i s) name = Some (l_idx l)) as N0 by (rewrite V1, EO, L; reflexivity).
  assert (lookup N.eqb (s_i2n s) (l_idx l) = Some name) as I0 by (apply V2; split; auto; exists l; auto).
  destruct (on_iface_ud_view cfg now name (l_idx l) (link_state l) s EO (link_state_not_np l) (or_intror N0))
    as [N1 [N2 [I1' [I2 [S1 S2]]]]].
  set (s' := on_iface cfg now name (l_idx l) (link_state l) s) in *.
  assert (forall n, lookup String.eqb (s_n2i s') n = lookup String.eqb (s_n2i s) n) as NE.
  { intros n. destruct (string_dec n name) as [->|Hn]; [congruence|auto]. }
  assert (forall i, lookup N.eqb (s_i2n s') i = lookup N.eqb (s_i2n s) i) as IE.
  { intros i. destruct (N.eq_dec i (l_idx l)) as [->|Hi]; [congruence|auto]. }
  assert (s_dp s' = s_dp s) as DP by apply on_iface_dp.
  assert (wf_ifaces s) as WFI.
  { split.
    - intros n n' i H H'. rewrite V1 in H, H'.
      destruct (iface_is_ours (c_pol cfg) n); [|discriminate]. destruct (iface_is_ours (c_pol cfg) n'); [|discriminate].
      destruct (lookup String.eqb (e_links e) n) as [l1|] eqn:L1; [|discriminate].
      destruct (lookup String.eqb (e_links e) n') as [l2|] eqn:L2; [|discriminate].
      simpl in H, H'. eapply WI; eauto. congruence.
    - intros n H. rewrite V1 in H. destruct (iface_is_ours (c_pol cfg) n); [|discriminate].
      destruct (lookup String.eqb (e_links e) n) as [l1|] eqn:L1; [|discriminate]. simpl in H. injection H as H. eapply WZ; eauto. }
  assert (wf_event s name (l_idx l) (link_state l)) as WE.
  { assert (l_idx l <> 0 /\ forall n, n <> name -> lookup String.eqb (s_n2i s) n <> Some (l_idx l)) as X.
    { split; [eapply WZ; eauto|]. intros n Hn H. rewrite V1 in H. destruct (iface_is_ours (c_pol cfg) n); [|discriminate].
      destruct (lookup String.eqb (e_links e) n) as [l'|] eqn:L'; [|discriminate]. simpl in H. injection H as H.
      apply Hn. eapply WI; eauto. }
    unfold wf_event, link_state. destruct (l_running l); exact X. }
  constructor.
  - unfold Sub. rewrite DP. exact A.
  - unfold Ours. rewrite DP. intros k r H. rewrite (ours_i2n cfg s' s) by auto. eapply B; eauto.
  - unfold Own. rewrite DP. intros k r T O. rewrite (ours_i2n cfg s' s) in O by auto. eapply C; eauto.
  - split; [intros n; rewrite NE; apply V1|]. split; [intros i n; rewrite IE; apply V2|]. split.
    + intros i x H. destruct (N.eq_dec i (l_idx l)) as [->|Hi].
      * rewrite S1 in H. injection H as <-. exists name, l. repeat split; auto.
      * rewrite S2 in H by auto. destruct (V3 _ _ H) as [n [l' [X [Y [Z W]]]]]. exists n, l'. repeat split; auto.
        destruct W; [left; apply in_sdel; split; [auto|intro; subst; congruence]|right; auto].
    + intros n l' X Y. destruct (string_dec n name) as [->|Hn].
      * rewrite L in Y. injection Y as <-. exists (link_state l). split; auto.
      * assert (l_idx l' <> l_idx l) as Hi by (intro Q; apply Hn; eapply WI; eauto).
        rewrite S2 by auto. destruct (V4 n l' X Y) as [x [P Q]]. exists x. split; auto.
        destruct Q; [left; apply in_sdel; split; auto|right; auto].
  - apply (on_iface_I1 cfg now name (l_idx l) (link_state l) s WFI WE E).
  - unfold pol_ok. unfold s'. rewrite on_iface_routes. exact F.
Qed.

(* ---- histories with flaps ---- *)
Definition flag := (bool * list string)%type.

Definition is_flag_change (e : env) (name : string) (l : link) : bool :=
  match lookup String.eqb (e_links e) name with Some l0 => N.eqb (l_idx l) (l_idx l0) | None => false end.
Definition is_truthful_known (e : env) (name : string) (idx : N) (state : ifstate) : bool :=
  match lookup String.eqb (e_links e) name with
  | Some l => N.eqb idx (l_idx l) && ifstate_eqb state (link_state l)
  | None => false
  end.

(* the flag: (resync pending or in sync is known, interfaces whose last oper-state change has not been reported yet) *)
Definition op_ok2 (cfg : config) (f : flag) (s : st) (e : env) (o : op) : Prop :=
  match o with
  | OApply p => fst f = true /\ plan_honest p = true /\ (snd f = [] \/ s_full s = true)
  | _ => op_ok cfg (fst f) s e o
  end.

Definition flag_after (f : flag) (s : st) (e : env) (o : op) : flag :=
  match o with
  | ESetLink name l => if is_flag_change e name l then (fst f, name :: snd f) else (fst f && s_full s, snd f)
  | EDelLink _ => (fst f && s_full s, snd f)
  | OIface name idx state =>
      if is_truthful_known e name idx state then (fst f, sdel String.eqb name (snd f)) else (fst f && s_full s, snd f)
  | OQueueResync => (true, snd f)
  | OApply _ => (true, [])
  | _ => f
  end.

Fixpoint hist_ok2 (cfg : config) (f : flag) (ops : list op) (se : st * env) : Prop :=
  match ops with
  | [] => True
  | o :: ops' => op_ok2 cfg f (fst se) (snd se) o /\
                 hist_ok2 cfg (flag_after f (fst se) (snd se) o) ops' (let '(s', e', _) := step cfg o se in (s', e'))
  end.

Fixpoint flag_end (cfg : config) (f : flag) (ops : list op) (se : st * env) : flag :=
  match ops with
  | [] => f
  | o :: ops' => flag_end cfg (flag_after f (fst se) (snd se) o) ops' (let '(s', e', _) := step cfg o se in (s', e'))
  end.

Definition HI2 (cfg : config) (f : flag) (s : st) (e : env) : Prop :=
  B_inv cfg s e /\ (fst f = true -> s_full s = true \/ JD cfg e s (snd f)).

Lemma JD_lists : forall cfg e s s' D, JD cfg e s D ->
  s_n2i s' = s_n2i s -> s_i2n s' = s_i2n s -> s_istate s' = s_istate s -> s_dp s' = s_dp s ->
  I1 cfg s' -> pol_ok cfg s' -> JD cfg e s' D.
Proof.
  intros cfg e s s' D [A B C V E F] P1 P2 P3 P4 HI HP. constructor; auto.
  - unfold Sub. rewrite P4. exact A.
  - unfold Ours. rewrite P4. intros k r L. rewrite (ours_ext cfg s' s); auto. eapply B; eauto.
  - unfold Own. rewrite P4. intros k r T O. rewrite (ours_ext cfg s' s) in O by auto. eapply C; eauto.
  - unfold VMx in *. rewrite P1, P2, P3. exact V.
Qed.

Lemma JD_env : forall cfg e e' s D, e_links e' = e_links e -> e_routes e' = e_routes e -> JD cfg e s D -> JD cfg e' s D.
Proof.
  intros cfg e e' s D L R [A B C V E F]. constructor; auto.
  - intros k r H. unfold tbl. rewrite R. apply A; auto.
  - intros k r T O. unfold tbl in T. rewrite R in T. eapply C; eauto.
  - unfold VMx in *. rewrite L. exact V.
Qed.

Lemma HI2_lists : forall cfg f e s s', HI2 cfg f s e ->
  s_n2i s' = s_n2i s -> s_i2n s' = s_i2n s -> s_istate s' = s_istate s -> s_dp s' = s_dp s -> s_full s' = s_full s ->
  I1 cfg s' -> pol_ok cfg s' -> HI2 cfg f s' e.
Proof.
  intros cfg f e s s' [HB HS] A B C D F HI' HP. split; [eapply B_inv_lists; eauto|].
  intros X. destruct (HS X) as [SY|SY]; [left; congruence|right; eapply JD_lists; eauto].
Qed.

Lemma is_truthful_known_spec : forall e name idx state, is_truthful_known e name idx state = true ->
  exists l, lookup String.eqb (e_links e) name = Some l /\ idx = l_idx l /\ state = link_state l.
Proof.
  unfold is_truthful_known. intros e name idx state H.
  destruct (lookup String.eqb (e_links e) name) as [l|]; [|discriminate].
  apply andb_true_iff in H. destruct H as [H1 H2]. apply N.eqb_eq in H1. apply ifstate_eqb_spec in H2. eauto.
Qed.

Lemma step_HI2 : forall cfg f o s e, c_fixB cfg = true ->
  op_ok2 cfg f s e o -> HI2 cfg f s e ->
  let '(s', e', _) := step cfg o (s, e) in HI2 cfg (flag_after f s e o) s' e'.
Proof.
  intros cfg [ok D] o s e FB OK [HB HS]. cbn [fst snd] in *.
  (* everything that is not a link flag change, a truthful report or an Apply goes as in step_HI *)
  assert (HI cfg ok s e -> forall ok', (ok' = true -> ok = true) -> True) as _ by auto.
  pose proof HB as [WF ND PO [KA KB]].
  destruct o; cbn [step op_ok2 op_ok flag_after fst snd] in *; try contradiction.
  - destruct (set_routes_proj cfg c name ts s) as [A [B [C [D' F]]]].
    apply (HI2_lists cfg (ok, D) e s); auto; [split; auto|apply set_routes_I1; auto|apply set_routes_pol; auto].
  - destruct (route_update_proj cfg c name k t s) as [A [B [C [D' F]]]].
    apply (HI2_lists cfg (ok, D) e s); auto; [split; auto|apply route_update_I1; auto|apply route_update_pol; auto].
  - destruct (route_remove_proj cfg c name k s) as [A [B [C [D' F]]]].
    apply (HI2_lists cfg (ok, D) e s); auto; [split; auto|apply route_remove_I1; auto|apply route_remove_pol; auto].
  - (* interface event *)
    pose proof (step_HI cfg ok (OIface name idx state) s e FB OK) as GEN. cbn [step ok_after] in GEN.
    assert (HI cfg false s e) as H0 by (split; [auto | intros X; discriminate X]).
    destruct (is_truthful_known e name idx state) eqn:TK.
    + apply is_truthful_known_spec in TK. destruct TK as [l [L [-> ->]]].
      pose proof (step_HI cfg false (OIface name (l_idx l) (link_state l)) s e FB OK H0) as G0. cbn [step ok_after] in G0.
      destruct G0 as [HB' _]. split; auto. cbn [fst snd]. intros X.
      destruct (HS X) as [SF|HJ]; [left; rewrite on_iface_full; auto|right].
      apply JD_tell; auto. apply wfl_wf_links; auto.
    + pose proof (step_HI cfg false (OIface name idx state) s e FB OK H0) as G0. cbn [step ok_after] in G0.
      destruct G0 as [HB' _]. split; auto. cbn [fst snd]. intros X.
      apply andb_true_iff in X. destruct X as [_ X]. left. rewrite on_iface_full. exact X.
  - (* QueueResync *)
    split; [|left; reflexivity].
    apply (B_inv_lists cfg e s); auto. apply (I1_eq cfg s); auto.
  - apply (HI2_lists cfg (ok, D) e s); auto; [split; auto|apply (I1_eq cfg s); auto].
  - (* Apply *)
    destruct OK as [-> [PH DS]].
    assert (S_inv cfg s e) as SI.
    { apply S_inv_split. split; auto. destruct (HS eq_refl) as [SF|HJ]; [left; auto|].
      destruct DS as [->|SF]; [right; apply JD_nil; auto|left; auto]. }
    destruct (apply cfg p s e) as [[err s'] e'] eqn:A.
    destruct (apply_inv _ _ _ _ _ _ _ PH FB SI A) as [SI' _].
    apply S_inv_split in SI'. destruct SI' as [HB' HS']. split; auto. cbn [fst snd]. intros _.
    destruct HS' as [SF|HJ]; [left; auto|right; apply JD_nil; auto].
  - (* link change *)
    destruct (is_flag_change e name l) eqn:FC.
    + unfold is_flag_change in FC. destruct (lookup String.eqb (e_links e) name) as [l0|] eqn:L0; [|discriminate].
      apply N.eqb_eq in FC. split; [constructor; auto; cbn; auto; split; auto|]. cbn [fst snd]. intros X.
      destruct (HS X) as [SF|HJ]; [left; auto|right; eapply JD_link_flags; eauto].
    + split; [constructor; auto; cbn; auto; split; auto|]. cbn [fst snd].
      intros X. apply andb_true_iff in X. destruct X as [_ X]. left. exact X.
  - split; [constructor; auto; cbn; auto; split; auto|]. cbn [fst snd].
    intros X. apply andb_true_iff in X. destruct X as [_ X]. left. exact X.
  - split; [constructor; auto; cbn; auto; split; auto|]. cbn [fst snd].
    intros X. destruct (HS X) as [SY|SY]; [left; auto|right; apply (JD_env cfg e); auto].
Qed.

Lemma hist_HI2 : forall cfg ops f s e, c_fixB cfg = true ->
  hist_ok2 cfg f ops (s, e) -> HI2 cfg f s e ->
  HI2 cfg (flag_end cfg f ops (s, e)) (fst (run_st cfg ops (s, e))) (snd (run_st cfg ops (s, e))).
Proof.
  induction ops as [|o ops IH]; intros f s e FB HO H; cbn [run_st flag_end hist_ok2 fst snd] in *; auto.
  destruct HO as [O1 O2].
  pose proof (step_HI2 cfg f o s e FB O1 H) as P.
  destruct (step cfg o (s, e)) as [[s' e'] ob]. apply IH; auto.
Qed.

Lemma HI2_start : forall cfg e0, wfl (e_links e0) -> NoDup (keys (e_routes e0)) -> HI2 cfg (true, []) st0 e0.
Proof. intros cfg e0 WF ND. destruct (HI_start cfg e0 WF ND) as [A _]. split; auto. Qed.

(* c17_any_history with interface churn and no resync request: as any_history, but oper-state flaps of known interfaces
   (link keeps its ifindex) and their truthful reports, in any order and interleaved with everything else, no longer
   require a QueueResync before the next Apply; the Apply must only wait until every flap has been reported
   (snd flag = []) or a resync is pending anyway. *)
Lemma any_history_flaps : forall cfg e0 ops p s' e',
  c_fixB cfg = true -> wfl (e_links e0) -> NoDup (keys (e_routes e0)) ->
  hist_ok2 cfg (true, []) ops (st0, e0) ->
  let s := fst (run_st cfg ops (st0, e0)) in
  let e := snd (run_st cfg ops (st0, e0)) in
  fst (flag_end cfg (true, []) ops (st0, e0)) = true ->
  (snd (flag_end cfg (true, []) ops (st0, e0)) = [] \/ s_full s = true) ->
  plan_honest p = true ->
  apply cfg p s e = (false, s', e') ->
  ConvStale cfg s' e' /\ Fgn cfg e s' e' /\
  (forall k, lookup rkey_eqb (s_desired s') k = winner cfg s' k) /\ VM cfg s' e'.
Proof.
  intros cfg e0 ops p s' e' FB WF ND HO s e OE DE PH A.
  destruct (hist_HI2 cfg ops (true, []) st0 e0 FB HO (HI2_start cfg e0 WF ND)) as [HB HS].
  fold s e in HB, HS.
  assert (S_inv cfg s e) as SI.
  { apply S_inv_split. split; auto. destruct (HS OE) as [SF|HJ]; [left; auto|].
    destruct DE as [DE|SF]; [right; rewrite DE in HJ; apply JD_nil; auto|left; auto]. }
  destruct (apply_inv _ _ _ _ _ _ _ PH FB SI A) as [_ [_ [_ G]]].
  destruct (G eq_refl) as [CS [FG HJ]]. split; auto. split; auto. split; [apply (j_i1 _ _ _ HJ)|apply (j_vm _ _ _ HJ)].
Qed.
