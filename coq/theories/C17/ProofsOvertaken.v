(* C17 — the fault excluded by plan_simple, inside a theorem: whole-table dumps that yield part of the routes, are
   overtaken by somebody else changing the kernel and fail with EINTR (FEintrP), any number of times, with any other
   failures: the Apply whose successful attempt ran the full resync still ends with every desired route present and every
   stale route of ours gone, with respect to the kernel AS CHANGED. *)
From Coq Require Import List NArith Bool String Lia.
From Verif.C17 Require Import Model Spec Proofs ProofsAttempt ProofsWinner ProofsApply ProofsEvery ProofsSound ProofsFull ProofsView ProofsRefresh ProofsSync.
Import ListNotations.
Open Scope N_scope.
Arguments set : simpl never.

Lemma env_mut_nodup : forall muts e, NoDup (keys (e_routes e)) -> NoDup (keys (e_routes (env_mut e muts))).
Proof.
  intros muts e. unfold env_mut. cbn [e_routes]. generalize (e_routes e) as m.
  induction muts as [|[k v] muts IH]; intros m ND; cbn [fold_left]; auto.
  apply IH. cbn [snd fst]. destruct v; [apply nodup_set|apply nodup_remove]; auto.
Qed.

Lemma full_list_nodup : forall cfg p now fuel w b w',
  full_list cfg p now fuel w = (b, w') -> NoDup (keys (e_routes (w_env w))) -> NoDup (keys (e_routes (w_env w'))).
Proof.
  induction fuel as [|fuel IH]; intros w b w' H ND; cbn [full_list] in H.
  - injection H as <- <-. auto.
  - destruct (nl_call p NRouteListAll w) as [f w1] eqn:E. apply nl_call_frame in E. destruct E as [_ E2].
    destruct f as [[| | |ks muts]|].
    + injection H as <- <-. rewrite E2. auto.
    + eapply IH; eauto. rewrite E2. auto.
    + injection H as <- <-. rewrite E2. auto.
    + destruct (absorb cfg now true (filter (fun kr : rkey * kroute => mem rkey_eqb (fst kr) ks) (table_routes cfg (w_env w1))) (w_st w1)) as [s2 seen].
      eapply IH; eauto. cbn [w_env wenv wst]. apply env_mut_nodup. rewrite E2. auto.
    + injection H as <- <-. rewrite E2. auto.
Qed.

Lemma full_resync_ok_gen : forall cfg p w w',
  NoDup (keys (e_routes (w_env w))) ->
  do_full_resync cfg p w = (false, w') ->
  NoDup (keys (e_routes (w_env w'))) /\ s_rescan (w_st w') = [] /\
  (forall k r, dpk w' k = Some r -> tbl cfg (w_env w') k = Some r) /\
  (forall k r, dpk w' k = Some r -> kroute_is_ours cfg (w_st w') r = true) /\
  (forall k r, tbl cfg (w_env w') k = Some r -> kroute_is_ours cfg (w_st w') r = true -> dpk w' k = Some r).
Proof.
  intros cfg p w w' ND H. unfold do_full_resync in H.
  destruct (nl_call p NLinkList w) as [f w1] eqn:E1. apply nl_call_frame in E1. destruct E1 as [A1 A2].
  destruct f; [discriminate|].
  remember (refresh_all cfg (e_now (w_env w)) (e_links (w_env w1)) (w_st w1)) as s1.
  destruct (full_list cfg p (e_now (w_env w)) 5 (wst w1 s1)) as [failed w2] eqn:E2.
  apply full_list_nodup in E2; [|simpl; rewrite A2; auto].
  destruct failed; [discriminate|].
  destruct (absorb cfg (e_now (w_env w)) true (table_routes cfg (w_env w2)) (w_st w2)) as [s2 seen] eqn:E3.
  injection H as <-. rewrite absorb_unfold in E3.
  apply astep_fold in E3; [|apply table_routes_nodup; auto].
  destruct E3 as [I [D [S [_ C]]]].
  cbn [w_env w_st wst s_rescan s_full upd_full upd_rescan upd_dp s_dp s_i2n].
  split; [exact E2|]. split; [reflexivity|].
  assert (forall r, kroute_is_ours cfg (upd_full (upd_rescan (upd_dp s2 (filter (fun kr => mem rkey_eqb (fst kr) seen) (s_dp s2))) []) false) r
                    = kroute_is_ours cfg (w_st w2) r) as OE.
  { intros. apply ours_ext. cbn. exact I. }
  unfold dpk. cbn [w_st wst s_dp upd_full upd_rescan upd_dp].
  split; [|split].
  - intros k r Hl. rewrite (lookup_filter_keys (fun k => mem rkey_eqb k seen)) in Hl. destruct (mem rkey_eqb k seen) eqn:M; [|discriminate].
    apply S in M. destruct M as [M|[r0 [L O]]]; [discriminate|].
    rewrite (C _ _ L O) in Hl. injection Hl as <-. rewrite <- table_routes_lookup. exact L.
  - intros k r Hl. rewrite OE. rewrite (lookup_filter_keys (fun k => mem rkey_eqb k seen)) in Hl. destruct (mem rkey_eqb k seen) eqn:M; [|discriminate].
    apply S in M. destruct M as [M|[r0 [L O]]]; [discriminate|].
    rewrite (C _ _ L O) in Hl. injection Hl as <-. exact O.
  - intros k r Ht Ho. rewrite OE in Ho. rewrite <- table_routes_lookup in Ht.
    rewrite (lookup_filter_keys (fun k => mem rkey_eqb k seen)).
    assert (mem rkey_eqb k seen = true) as M by (apply S; right; exists r; auto).
    rewrite M. apply C; auto.
Qed.

Lemma full_attempt_convstale_gen : forall cfg p w w',
  NoDup (keys (e_routes (w_env w))) -> s_full (w_st w) = true ->
  attempt cfg p w = (false, w') -> s_rescan (w_st w') = [] ->
  ConvStale cfg (w_st w') (w_env w').
Proof.
  intros cfg p w w' ND FULL H RS. unfold attempt in H.
  destruct (handle p w) as [ok w1] eqn:Eh. apply handle_frame in Eh. destruct Eh as [H1 H2].
  destruct ok; simpl in H; [|discriminate].
  rewrite H1, FULL in H.
  destruct (do_full_resync cfg p w1) as [e1 w2] eqn:Ef.
  destruct e1; [discriminate|].
  destruct (apply_updates cfg p w2) as [e2 w3] eqn:Ea.
  destruct e2; [discriminate|].
  injection H as <-.
  apply full_resync_ok_gen in Ef; [|rewrite H2; auto].
  destruct Ef as [ND2 [R2 [Sub [Ours Own]]]].
  destruct (cleanup_grace_frame cfg (e_now (w_env w3)) (w_st w3)) as [CD [CI [CR CP]]].
  cbn [w_st w_env wst] in *.
  apply apply_updates_ok in Ea; auto; [|rewrite <- CR; auto].
  destruct Ea as [F [CONV [STALE _]]].
  split.
  - intros k d Hd. rewrite CD in Hd. apply CONV. unfold desk. rewrite <- (fr_des _ _ _ F). exact Hd.
  - intros k r Hd Ht Ho. rewrite CD in Hd.
    rewrite (ours_ext cfg _ (w_st w2)) in Ho by (rewrite CI; apply (fr_i2n _ _ _ F)).
    apply in_grace_cleanup.
    rewrite (in_grace_ext cfg _ (w_st w3) (w_st w2)); [|apply F|apply F].
    rewrite (fr_now _ _ _ F). apply (STALE k r); auto. unfold desk. rewrite <- (fr_des _ _ _ F). exact Hd.
Qed.

Lemma do_full_resync_nodup_gen : forall cfg p w b w',
  do_full_resync cfg p w = (b, w') -> NoDup (keys (e_routes (w_env w))) -> NoDup (keys (e_routes (w_env w'))).
Proof.
  intros cfg p w b w' H ND. unfold do_full_resync in H.
  destruct (nl_call p NLinkList w) as [f w1] eqn:E1. apply nl_call_frame in E1. destruct E1 as [A1 A2].
  destruct f; [injection H as <- <-; rewrite A2; auto|].
  remember (refresh_all cfg (e_now (w_env w)) (e_links (w_env w1)) (w_st w1)) as s1.
  destruct (full_list cfg p (e_now (w_env w)) 5 (wst w1 s1)) as [failed w2] eqn:E2.
  apply full_list_nodup in E2; [|simpl; rewrite A2; auto].
  destruct failed; [injection H as <- <-; auto|].
  destruct (absorb cfg (e_now (w_env w)) true (table_routes cfg (w_env w2)) (w_st w2)) as [s2 seen].
  injection H as <- <-. simpl. auto.
Qed.

Lemma attempt_nodup_gen : forall cfg p w b w',
  attempt cfg p w = (b, w') -> NoDup (keys (e_routes (w_env w))) -> NoDup (keys (e_routes (w_env w'))).
Proof.
  intros cfg p w b w' H ND. unfold attempt in H.
  destruct (handle p w) as [ok w1] eqn:Eh. apply handle_frame in Eh. destruct Eh as [_ H2].
  destruct ok; simpl in H.
  2:{ injection H as <- <-. simpl. rewrite H2. auto. }
  assert (exists e1 w2, (if s_full (w_st w1) then do_full_resync cfg p w1 else (false, resync_ifaces cfg p w1)) = (e1, w2)
                        /\ NoDup (keys (e_routes (w_env w2)))) as [e1 [w2 [E R]]].
  { destruct (s_full (w_st w1)).
    - destruct (do_full_resync cfg p w1) as [e1 w2] eqn:Ef. exists e1, w2. split; auto.
      eapply do_full_resync_nodup_gen; eauto. rewrite H2. auto.
    - exists false, (resync_ifaces cfg p w1). split; auto. rewrite resync_ifaces_env, H2. auto. }
  rewrite E in H.
  destruct e1; [injection H as <- <-; simpl; auto|].
  destruct (apply_updates cfg p w2) as [e2 w3] eqn:Ea. apply apply_updates_nodup in Ea; auto.
  destruct e2; injection H as <- <-; simpl; auto.
Qed.

(* Apply level: whatever happened in the first attempt (it may have been overtaken too), if the attempt that produces
   the result ran the full resync and Apply reports success, the kernel as it then is has converged *)
Lemma apply_convstale_gen : forall cfg p s e s' e',
  NoDup (keys (e_routes e)) -> s_full s = true ->
  last_attempt_full cfg p s e = true ->
  apply cfg p s e = (false, s', e') ->
  ConvStale cfg s' e'.
Proof.
  intros cfg p s e s' e' ND FULL LF H. unfold apply in H. unfold last_attempt_full in LF.
  fold (wof s e) in H, LF.
  destruct (attempt cfg p (wof s e)) as [err0 w1] eqn:A0.
  destruct (err0 || negb (match s_rescan (w_st w1) with [] => true | _ => false end)) eqn:C.
  - destruct (attempt cfg p w1) as [err1 w2] eqn:A1.
    destruct (s_rescan (w_st w2)) eqn:R2; [|discriminate].
    injection H as -> <- <-. apply ConvStale_upd_conn.
    eapply full_attempt_convstale_gen; eauto. eapply attempt_nodup_gen; eauto.
  - apply orb_false_iff in C. destruct C as [-> C].
    destruct (s_rescan (w_st w1)) eqn:R1; [|discriminate].
    injection H as <- <-. apply ConvStale_upd_conn.
    eapply (full_attempt_convstale_gen cfg p (wof s e)); eauto.
Qed.
