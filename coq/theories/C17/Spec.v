(* C17 — specification: what the property text says, written without looking at how RouteTable works.

   "After a successful apply, the kernel holds exactly the desired routes for every route Felix owns (with
    conflicting desired routes for the same destination resolved by route class priority), routes Felix does not
    own are unchanged, and routes Felix owns but no longer wants are removed, from any starting kernel state and
    across netlink failures and interface churn."

   Vocabulary shared with the model: the ownership policy (route_is_ours / iface_is_ours), the kernel world
   (env, env_step) and `render` (the kernel route a Target asks for: defs.go RouteType/RouteScope/Flags).
   Everything else here is a fold over the history as seen from OUTSIDE the RouteTable: the calls made to it, the
   things done to the kernel behind its back, and the kernel contents observed after each Apply. *)
From Coq Require Import List NArith Bool String.
From Verif.C17 Require Import Model.
Import ListNotations.
Open Scope N_scope.

(* ---------- desired routes: the fold of SetRoutes / RouteUpdate / RouteRemove ---------- *)
Definition D_step (cfg : config) (o : op) (D : list (dkey * target)) : list (dkey * target) :=
  match o with
  | OSetRoutes c n ts =>
      if negb (iface_is_ours (c_pol cfg) n) then D else
      fold_left (fun m kt => set dkey_eqb m (c, n, fst kt) (snd kt)) ts (filter (fun e => negb (of_class_iface c n e)) D)
  | ORouteUpdate c n k t => if negb (iface_is_ours (c_pol cfg) n) then D else set dkey_eqb D (c, n, k) t
  | ORouteRemove c n k => if negb (iface_is_ours (c_pol cfg) n) then D else remove dkey_eqb D (c, n, k)
  | _ => D
  end.

(* ---------- who wins a destination ---------- *)
(* usable candidates for key k: the interface exists and is oper-up in the kernel (or the route has no interface) *)
Definition sp_cands (cfg : config) (D : list (dkey * target)) (links : list (string * link)) (k : rkey)
  : list (N * kroute) :=
  flat_map (fun e =>
      let '((c, n, k'), t) := e in
      if negb (rkey_eqb k k') then []
      else if String.eqb n NoOIF then [(c, render cfg t 0)]
      else match lookup String.eqb links n with
           | Some l => if l_running l then [(c, render cfg t (l_idx l))] else []
           | None => []
           end) D.

Definition min_class (l : list (N * kroute)) : N := fold_left (fun m cr => N.min m (fst cr)) l 1000.

(* the routes the property allows at k: those of the best (numerically lowest) class present *)
Definition allowed (cfg : config) (D : list (dkey * target)) (links : list (string * link)) (k : rkey) : list kroute :=
  let cs := sp_cands cfg D links k in
  map snd (filter (fun cr => N.eqb (fst cr) (min_class cs)) cs).

(* ---------- ownership, evaluated on the real links ---------- *)
Definition name_of_idx (links : list (string * link)) (idx : N) : option string :=
  match filter (fun nl => N.eqb (l_idx (snd nl)) idx) links with
  | [] => None
  | nl :: _ => Some (fst nl)
  end.

(* Some true = Felix's, Some false = somebody else's, None = route through a link that does not exist *)
Definition sp_owner (cfg : config) (links : list (string * link)) (r : kroute) : option bool :=
  if special_noif r then Some (route_is_ours (c_pol cfg) NoOIF (kr_proto r))
  else match name_of_idx links (kr_ifx r) with
       | None => None
       | Some n => Some (iface_is_ours (c_pol cfg) n && route_is_ours (c_pol cfg) n (kr_proto r))
       end.

(* ---------- bookkeeping of what Felix can be expected to know ---------- *)
Record sp := {
  p_D : list (dkey * target);
  p_env : env;                     (* links, clock; routes = kernel as last observed + later outside changes *)
  p_dirtyL : list string;          (* links changed behind Felix's back and not (truthfully) reported since *)
  p_covL : list string;            (* ... but a full resync was requested afterwards *)
  p_dirtyK : list kkey;            (* kernel routes changed behind Felix's back (not by a link going away) *)
  p_covK : list kkey;
  p_dirtyAll : bool; p_covAll : bool;
  p_freshq : bool;                 (* a full resync is requested and no Apply has run since *)
  p_told : list (N * N)            (* ifindex -> time of the first interface event that named it *)
}.

Definition sp0 : sp :=
  {| p_D := []; p_env := env0; p_dirtyL := []; p_covL := ["lo"%string]; p_dirtyK := []; p_covK := [];
     p_dirtyAll := false; p_covAll := false; p_freshq := true; p_told := [] |}.

Definition truthful (links : list (string * link)) (name : string) (idx : N) (state : ifstate) : bool :=
  match lookup String.eqb links name, state with
  | None, IfNP => true
  | Some l, IfUp => N.eqb (l_idx l) idx && l_running l
  | Some l, IfDown => N.eqb (l_idx l) idx && negb (l_running l)
  | _, _ => false
  end.

Definition dirt_link (s : sp) (name : string) : sp :=
  if p_freshq s
  then {| p_D := p_D s; p_env := p_env s; p_dirtyL := p_dirtyL s; p_covL := sadd String.eqb name (p_covL s);
          p_dirtyK := p_dirtyK s; p_covK := p_covK s; p_dirtyAll := p_dirtyAll s; p_covAll := p_covAll s;
          p_freshq := p_freshq s; p_told := p_told s |}
  else {| p_D := p_D s; p_env := p_env s; p_dirtyL := sadd String.eqb name (p_dirtyL s); p_covL := p_covL s;
          p_dirtyK := p_dirtyK s; p_covK := p_covK s; p_dirtyAll := p_dirtyAll s; p_covAll := p_covAll s;
          p_freshq := p_freshq s; p_told := p_told s |}.

Definition dirt_key (s : sp) (k : kkey) : sp :=
  if p_freshq s
  then {| p_D := p_D s; p_env := p_env s; p_dirtyL := p_dirtyL s; p_covL := p_covL s;
          p_dirtyK := p_dirtyK s; p_covK := sadd kkey_eqb k (p_covK s); p_dirtyAll := p_dirtyAll s; p_covAll := p_covAll s;
          p_freshq := p_freshq s; p_told := p_told s |}
  else {| p_D := p_D s; p_env := p_env s; p_dirtyL := p_dirtyL s; p_covL := p_covL s;
          p_dirtyK := sadd kkey_eqb k (p_dirtyK s); p_covK := p_covK s; p_dirtyAll := p_dirtyAll s; p_covAll := p_covAll s;
          p_freshq := p_freshq s; p_told := p_told s |}.

Definition dirt_all (s : sp) : sp :=
  if p_freshq s
  then {| p_D := p_D s; p_env := p_env s; p_dirtyL := p_dirtyL s; p_covL := p_covL s;
          p_dirtyK := p_dirtyK s; p_covK := p_covK s; p_dirtyAll := p_dirtyAll s; p_covAll := true;
          p_freshq := p_freshq s; p_told := p_told s |}
  else {| p_D := p_D s; p_env := p_env s; p_dirtyL := p_dirtyL s; p_covL := p_covL s;
          p_dirtyK := p_dirtyK s; p_covK := p_covK s; p_dirtyAll := true; p_covAll := p_covAll s;
          p_freshq := p_freshq s; p_told := p_told s |}.

Definition with_env (s : sp) (e : env) : sp :=
  {| p_D := p_D s; p_env := e; p_dirtyL := p_dirtyL s; p_covL := p_covL s; p_dirtyK := p_dirtyK s; p_covK := p_covK s;
     p_dirtyAll := p_dirtyAll s; p_covAll := p_covAll s; p_freshq := p_freshq s; p_told := p_told s |}.

(* a step that is not an Apply *)
Definition sp_step (cfg : config) (o : op) (s : sp) : sp :=
  match o with
  | OSetRoutes _ _ _ | ORouteUpdate _ _ _ _ | ORouteRemove _ _ _ =>
      {| p_D := D_step cfg o (p_D s); p_env := p_env s; p_dirtyL := p_dirtyL s; p_covL := p_covL s;
         p_dirtyK := p_dirtyK s; p_covK := p_covK s; p_dirtyAll := p_dirtyAll s; p_covAll := p_covAll s;
         p_freshq := p_freshq s; p_told := p_told s |}
  | OIface name idx state =>
      let told := match state, lookup N.eqb (p_told s) idx with
                  | IfNP, _ => p_told s
                  | _, Some _ => p_told s
                  | _, None => set N.eqb (p_told s) idx (e_now (p_env s))
                  end in
      if negb (iface_is_ours (c_pol cfg) name) then s
      else if truthful (e_links (p_env s)) name idx state
      then {| p_D := p_D s; p_env := p_env s; p_dirtyL := sdel String.eqb name (p_dirtyL s);
              p_covL := sdel String.eqb name (p_covL s); p_dirtyK := p_dirtyK s; p_covK := p_covK s;
              p_dirtyAll := p_dirtyAll s; p_covAll := p_covAll s; p_freshq := p_freshq s; p_told := told |}
      else {| p_D := p_D s; p_env := p_env s; p_dirtyL := sadd String.eqb name (p_dirtyL s);
              p_covL := sdel String.eqb name (p_covL s); p_dirtyK := p_dirtyK s; p_covK := p_covK s;
              p_dirtyAll := p_dirtyAll s; p_covAll := p_covAll s; p_freshq := p_freshq s; p_told := told |}
  | OQueueResync =>
      {| p_D := p_D s; p_env := p_env s; p_dirtyL := []; p_covL := p_dirtyL s ++ p_covL s;
         p_dirtyK := []; p_covK := p_dirtyK s ++ p_covK s; p_dirtyAll := false; p_covAll := p_dirtyAll s || p_covAll s;
         p_freshq := true; p_told := p_told s |}
  | OQueueResyncIface _ => s
  | OApply _ => s
  | ESetLink name _ | EDelLink name =>
      (* interfaces Felix does not track are not its business *)
      let s' := with_env s (env_step o (p_env s)) in
      if iface_is_ours (c_pol cfg) name then dirt_link s' name else s'
  | EFlush idx =>
      let s' := with_env s (env_step o (p_env s)) in
      (* the kernel flushes the routes of a link that is down or gone; anything else is an outside change *)
      match name_of_idx (e_links (p_env s)) idx with
      | None => s'
      | Some n => match lookup String.eqb (e_links (p_env s)) n with
                  | Some l => if l_running l then dirt_all s' else s'
                  | None => s'
                  end
      end
  | EAddRoute k _ | EDelRoute k => dirt_key (with_env s (env_step o (p_env s))) k
  | ETime _ => with_env s (env_step o (p_env s))
  end.

(* ---------- the checks at an Apply ---------- *)
Definition is_foreign (cfg : config) (links : list (string * link)) (r : kroute) : bool :=
  match sp_owner cfg links r with Some false => true | _ => false end.
Definition is_ours (cfg : config) (links : list (string * link)) (r : kroute) : bool :=
  match sp_owner cfg links r with Some true => true | _ => false end.

(* c17_foreign_untouched, on observations: routes in other tables, and routes that are not Felix's at a destination
   Felix has no desired route for, are still there, unchanged (unless the destination is in doubt because somebody
   else changed it and no resync has been asked for since) *)
Definition ok_foreign (cfg : config) (s : sp) (after : list (kkey * kroute)) : bool :=
  forallb (fun kr =>
      let '((t, k), r) := kr in
      let must :=
        if negb (N.eqb t (c_table cfg)) then true
        else is_foreign cfg (e_links (p_env s)) r
             && negb (mem rkey_eqb k (map (fun e => snd (fst e)) (p_D s)))
             && negb (mem kkey_eqb (t, k) (p_dirtyK s ++ p_covK s))
             && negb (p_dirtyAll s || p_covAll s) in
      if must then match lookup kkey_eqb after (t, k) with Some r' => kroute_eqb r r' | None => false end
      else true) (e_routes (p_env s)).

(* may a stale route of ours legitimately still be there because of the route-cleanup grace period? *)
Definition grace_may_apply (cfg : config) (s : sp) (r : kroute) : bool :=
  if N.eqb (c_grace cfg) 0 then false
  else match name_of_idx (e_links (p_env s)) (kr_ifx r) with
       | None => false
       | Some n =>
           iface_has_grace (c_pol cfg) n &&
           match lookup N.eqb (p_told s) (kr_ifx r) with
           | Some t => e_now (p_env s) - t <? c_grace cfg
           | None => true
           end
       end.

(* c17_converges + c17_stale_removed + c17_conflict_by_class_priority, on observations *)
Definition ok_key (cfg : config) (s : sp) (after : list (kkey * kroute)) (k : rkey) : bool :=
  match allowed cfg (p_D s) (e_links (p_env s)) k, lookup kkey_eqb after (c_table cfg, k) with
  | [], None => true
  | [], Some r => negb (is_ours cfg (e_links (p_env s)) r) || grace_may_apply cfg s r
  | _ :: _, None => false
  | rs, Some r => existsb (kroute_eqb r) rs
  end.

Definition ok_converged (cfg : config) (s : sp) (after : list (kkey * kroute)) : bool :=
  let ks := map (fun e => snd (fst e)) (p_D s)
            ++ flat_map (fun kr => if N.eqb (fst (fst kr)) (c_table cfg) then [snd (fst kr)] else []) after in
  forallb (fun k => mem kkey_eqb (c_table cfg, k) (p_dirtyK s) || ok_key cfg s after k) ks.

(* the whole history *)
Fixpoint ok_from (cfg : config) (s : sp) (ops : list op) (obs : list obs) : bool :=
  match ops with
  | [] => match obs with [] => true | _ => false end
  | OApply p :: ops' =>
      match obs with
      | [] => false
      | (err, after) :: obs' =>
          (* routes changed by somebody else in the middle of this Apply's whole-table dump: the dump is repeated after
             them, so they are covered by the full resync this Apply is running; until it succeeds nothing is required
             at those keys *)
          let mkeys := flat_map (fun e => match e with (_, _, FEintrP _ muts) => map fst muts | _ => [] end) p in
          let s := {| p_D := p_D s; p_env := p_env s; p_dirtyL := p_dirtyL s; p_covL := p_covL s; p_dirtyK := p_dirtyK s;
                      p_covK := mkeys ++ p_covK s; p_dirtyAll := p_dirtyAll s; p_covAll := p_covAll s;
                      p_freshq := p_freshq s; p_told := p_told s |} in
          let f := ok_foreign cfg s after in
          (* a successful Apply has certainly done any full resync that was asked for *)
          let s1 := if err then s
                    else {| p_D := p_D s; p_env := p_env s; p_dirtyL := p_dirtyL s; p_covL := []; p_dirtyK := p_dirtyK s;
                            p_covK := []; p_dirtyAll := p_dirtyAll s; p_covAll := false; p_freshq := false; p_told := p_told s |} in
          (* a LinkByName that (falsely) answered "no such interface" during this Apply has told Felix something untrue:
             nothing can be expected about that interface's routes until it is reported again or a resync is asked for *)
          let lied := flat_map (fun e => match e with (NLinkByName n, _, FNotFound) => [n] | _ => [] end) p in
          let s2 := {| p_D := p_D s1; p_env := p_env s1; p_dirtyL := lied ++ p_dirtyL s1; p_covL := p_covL s1; p_dirtyK := p_dirtyK s1;
                       p_covK := p_covK s1; p_dirtyAll := p_dirtyAll s1; p_covAll := p_covAll s1; p_freshq := false; p_told := p_told s1 |} in
          let c := if err then true
                   else match p_dirtyL s2 with
                        | [] => if p_dirtyAll s2 then true else ok_converged cfg s2 after
                        | _ => true
                        end in
          let s3 := {| p_D := p_D s2; p_env := {| e_links := e_links (p_env s2); e_routes := after; e_now := e_now (p_env s2) |};
                       p_dirtyL := p_dirtyL s2; p_covL := p_covL s2; p_dirtyK := p_dirtyK s2; p_covK := p_covK s2;
                       p_dirtyAll := p_dirtyAll s2; p_covAll := p_covAll s2; p_freshq := false; p_told := p_told s2 |} in
          f && c && ok_from cfg s3 ops' obs'
      end
  | o :: ops' => ok_from cfg (sp_step cfg o s) ops' obs
  end.

Definition ok_history (cfg : config) (ops : list op) (obs : list obs) : bool := ok_from cfg sp0 ops obs.

(* one correspondence case, as written by the Go harness *)
Record case := { c_cfg : config; c_ops : list op; c_obs : list obs }.
Definition check_case (c : case) : bool * bool :=
  (obss_eqb (run (c_cfg c) (c_ops c) (st0, env0)) (c_obs c),
   ok_history (c_cfg c) (c_ops c) (c_obs c)).

(* classification of an oracle failure against the two known findings: does the history satisfy the oracle when the
   model runs with fix A (resp. fix B, resp. both)?  Used only to tell known findings from new violations. *)
Definition with_fixes (cfg : config) (a b : bool) : config :=
  {| c_pol := c_pol cfg; c_table := c_table cfg; c_defproto := c_defproto cfg; c_src := c_src cfg; c_grace := c_grace cfg;
     c_fixA := a; c_fixB := b; c_fixC := c_fixC cfg |}.
Definition fixed_ok (c : case) (a b : bool) : bool :=
  ok_history (c_cfg c) (c_ops c) (run (with_fixes (c_cfg c) a b) (c_ops c) (st0, env0)).
Definition classify_case (c : case) : bool * bool :=
  if fixed_ok c true true
  then (fixed_ok c true (c_fixB (c_cfg c)), fixed_ok c (c_fixA (c_cfg c)) true)
  else (true, true).   (* not explained by the known findings *)

(* third known finding (stale interface state after a renumbering): does the history satisfy the oracle when the model
   runs with fix C? *)
Definition with_fixC (cfg : config) : config :=
  {| c_pol := c_pol cfg; c_table := c_table cfg; c_defproto := c_defproto cfg; c_src := c_src cfg; c_grace := c_grace cfg;
     c_fixA := c_fixA cfg; c_fixB := c_fixB cfg; c_fixC := true |}.
Definition fixedC_ok (c : case) : bool :=
  ok_history (c_cfg c) (c_ops c) (run (with_fixC (c_cfg c)) (c_ops c) (st0, env0)).

(* short constructors used by the harness when it prints a case *)
Definition rk (c p : N) : rkey := (c, p).
Definition kk (t c p : N) : kkey := (t, (c, p)).
Definition mkr (ty sc src proto : N) (onl : bool) (gw ifx mtu : N) : kroute :=
  {| kr_type := ty; kr_scope := sc; kr_src := src; kr_proto := proto; kr_onlink := onl; kr_gw := gw; kr_ifx := ifx; kr_mtu := mtu |}.
Definition mkt (ty : ttype) (gw src proto mtu : N) : target :=
  {| t_type := ty; t_gw := gw; t_src := src; t_proto := proto; t_mtu := mtu |}.
Definition mkl (idx : N) (up running : bool) : link := {| l_idx := idx; l_up := up; l_running := running |}.
Definition kt (c p : N) (t : target) : rkey * target := ((c, p), t).
Definition kr (t c p : N) (r : kroute) : kkey * kroute := ((t, (c, p)), r).
Definition pl (o : nlop) (n : N) (f : fkind) : nlop * N * fkind := (o, n, f).
Definition ob (err : bool) (l : list (kkey * kroute)) : obs := (err, l).
Definition mkcfg (p : policy) (table defproto src grace : N) (fixA fixB fixC : bool) : config :=
  {| c_pol := p; c_table := table; c_defproto := defproto; c_src := src; c_grace := grace; c_fixA := fixA; c_fixB := fixB; c_fixC := fixC |}.
Definition mkcase (cfg : config) (ops : list op) (o : list obs) : case := {| c_cfg := cfg; c_ops := ops; c_obs := o |}.
