(* C17 — executable model of felix/routetable/route_table.go (RouteTable) together with the
   ownership policies of felix/routetable/ownershippol and the kernel side played by
   felix/netlinkshim/mocknetlink (a map of routes keyed by (table, dst, priority) and a map of links).
   Definitions only.  Tied to the Go code by the correspondence run (harness/C17).

   Domain (stated, enforced by the generator, counted by the driver):
     IPv4, TOS = 0, no multi-path targets, static ARP off, conntrack cleanup off (NoOpRouteTracker),
     two different interface names never carry the same ifindex at the same time,
     at most one connection failure per Apply (handlemgr panics after three in a row).
   Destination CIDRs are opaque numbers.  Go map iteration order never matters for the observables
   (kernel routes, error of Apply); the model iterates association lists in list order. *)
From Coq Require Import List NArith Bool String.
Import ListNotations.
Open Scope N_scope.

(* ---------- association maps ---------- *)
Section AMap.
  Context {K V : Type} (keq : K -> K -> bool).
  Fixpoint lookup (m : list (K * V)) (k : K) : option V :=
    match m with
    | [] => None
    | (k', v) :: m' => if keq k k' then Some v else lookup m' k
    end.
  Fixpoint remove (m : list (K * V)) (k : K) : list (K * V) :=
    match m with
    | [] => []
    | (k', v) :: m' => if keq k k' then remove m' k else (k', v) :: remove m' k
    end.
  Definition set (m : list (K * V)) (k : K) (v : V) : list (K * V) := (k, v) :: remove m k.
  Definition keys (m : list (K * V)) : list K := map fst m.
End AMap.

Definition mem {A} (eq : A -> A -> bool) (x : A) (l : list A) : bool := existsb (eq x) l.
Definition sadd {A} (eq : A -> A -> bool) (x : A) (l : list A) : list A := if mem eq x l then l else x :: l.
Definition sdel {A} (eq : A -> A -> bool) (x : A) (l : list A) : list A := filter (fun y => negb (eq x y)) l.

(* ---------- basic types ---------- *)
Definition rkey := (N * N)%type.                 (* RouteKey: (CIDR id, priority); TOS is always 0 *)
Definition kkey := (N * rkey)%type.              (* mock kernel key: (table, dst, priority) *)
Definition rkey_eqb (a b : rkey) : bool := N.eqb (fst a) (fst b) && N.eqb (snd a) (snd b).
Definition kkey_eqb (a b : kkey) : bool := N.eqb (fst a) (fst b) && rkey_eqb (snd a) (snd b).

(* kernelRoute (and, field for field, the netlink.Route the mock stores) *)
Record kroute := { kr_type : N; kr_scope : N; kr_src : N; kr_proto : N; kr_onlink : bool;
                   kr_gw : N; kr_ifx : N; kr_mtu : N }.
Definition kroute_eqb (a b : kroute) : bool :=
  N.eqb (kr_type a) (kr_type b) && N.eqb (kr_scope a) (kr_scope b) && N.eqb (kr_src a) (kr_src b)
  && N.eqb (kr_proto a) (kr_proto b) && Bool.eqb (kr_onlink a) (kr_onlink b)
  && N.eqb (kr_gw a) (kr_gw b) && N.eqb (kr_ifx a) (kr_ifx b) && N.eqb (kr_mtu a) (kr_mtu b).

Inductive ttype := TLocal | TVXLAN | TNoEncap | TOnLink | TGlobal | TLinkLocal
                 | TBlackhole | TProhibit | TThrow | TUnreachable | TDefault.
Record target := { t_type : ttype; t_gw : N; t_src : N; t_proto : N; t_mtu : N }.

(* defs.go: RouteType / RouteScope / Flags *)
Definition route_type (t : ttype) : N :=
  match t with TLocal => 2 | TThrow => 9 | TBlackhole => 6 | TProhibit => 8 | TUnreachable => 7 | _ => 1 end.
Definition route_scope (t : ttype) : N :=
  match t with
  | TLocal => 254
  | TLinkLocal => 253
  | TGlobal | TNoEncap | TVXLAN | TThrow | TBlackhole | TProhibit | TOnLink => 0
  | _ => 253
  end.
Definition route_onlink (t : ttype) : bool :=
  match t with TVXLAN | TNoEncap | TOnLink => true | _ => false end.

Definition NoOIF : string := "*NoOIF*".

(* ---------- ownership policies (ownershippol) ---------- *)
Inductive policy :=
| PMain (wl_prefixes : list string) (remove_ext : bool) (special : list string)
        (all_protos excl_protos : list N) (own_bird : bool)
| PExcl (names : option (list string)).

Definition is_workload (pfx : list string) (name : string) : bool :=
  existsb (fun p => String.prefix p name) pfx.

Definition iface_is_ours (p : policy) (name : string) : bool :=
  match p with
  | PMain _ _ _ _ _ _ => true
  | PExcl None => true
  | PExcl (Some l) => mem String.eqb name l
  end.

Definition iface_has_grace (p : policy) (name : string) : bool :=
  match p with
  | PMain pfx _ _ _ _ _ => is_workload pfx name
  | PExcl _ => true
  end.

(* RouteIsOurs(ifaceName, route): only the protocol of the route matters (IsWorkloadBGPPeerIface = nil) *)
Definition route_is_ours (p : policy) (name : string) (proto : N) : bool :=
  match p with
  | PExcl _ => true
  | PMain pfx remove_ext special allp exclp own_bird =>
      if mem N.eqb proto exclp then true
      else if String.eqb name NoOIF then false
      else if is_workload pfx name then (if remove_ext then true else mem N.eqb proto allp)
      else if own_bird && String.eqb name "tunl0" && N.eqb proto 12 then true
      else mem String.eqb name special
  end.

(* c_fixA / c_fixB select between the code as pinned (false) and the code with fixes/C17-*.patch applied (true);
   the driver probes the tree it was built from and sets them, so the model follows the tree:
     fixA: a failed per-interface route listing keeps the interface queued for rescan (resyncIface returns the error);
     fixB: the per-interface resync forgets a tracked route only if the tracker believed it to be on that interface;
     fixC: OnIfaceStateChanged, when an interface shows up under a new ifindex without its deletion having been reported,
           also forgets the state recorded for the old ifindex (fixes/C17-renumber-forgets-old-ifindex-state.patch). *)
Record config := { c_pol : policy; c_table : N; c_defproto : N; c_src : N; c_grace : N; c_fixA : bool; c_fixB : bool; c_fixC : bool }.

(* ---------- the world outside Felix: links, kernel routes, clock ---------- *)
Record link := { l_idx : N; l_up : bool; l_running : bool }.
Record env := { e_links : list (string * link); e_routes : list (kkey * kroute); e_now : N }.

Inductive ifstate := IfUp | IfDown | IfNP.
Definition ifstate_eqb (a b : ifstate) : bool :=
  match a, b with IfUp, IfUp | IfDown, IfDown | IfNP, IfNP => true | _, _ => false end.

(* ---------- RouteTable state ---------- *)
Definition dkey := (N * string * rkey)%type.     (* (class, iface name, route key) *)
Definition dkey_eqb (a b : dkey) : bool :=
  let '(c1, n1, k1) := a in let '(c2, n2, k2) := b in N.eqb c1 c2 && String.eqb n1 n2 && rkey_eqb k1 k2.

Record st := {
  s_routes  : list (dkey * target);          (* ifaceToRoutes (cidrToIfaces is its inverse index) *)
  s_desired : list (rkey * kroute);          (* kernelRoutes.Desired() *)
  s_dp      : list (rkey * kroute);          (* kernelRoutes.Dataplane(): what Felix believes is in the kernel *)
  s_n2i     : list (string * N);
  s_i2n     : list (N * string);
  s_istate  : list (N * ifstate);
  s_grace   : list (N * (N * bool));         (* ifindex -> (FirstSeen, GraceExpired) *)
  s_full    : bool;                          (* fullResyncNeeded *)
  s_rescan  : list string;                   (* ifacesToRescan *)
  s_lastgc  : option N;                      (* lastGracePeriodCleanup (None = zero time) *)
  s_cached  : bool;                          (* handle manager: cachedHandle != nil *)
  s_reopen  : bool                           (* handle manager: reopenHandleNextTime *)
}.

Definition st0 : st :=
  {| s_routes := []; s_desired := []; s_dp := []; s_n2i := []; s_i2n := []; s_istate := []; s_grace := [];
     s_full := true; s_rescan := []; s_lastgc := None; s_cached := false; s_reopen := false |}.

Definition upd_routes s v := {| s_routes := v; s_desired := s_desired s; s_dp := s_dp s; s_n2i := s_n2i s; s_i2n := s_i2n s;
  s_istate := s_istate s; s_grace := s_grace s; s_full := s_full s; s_rescan := s_rescan s; s_lastgc := s_lastgc s;
  s_cached := s_cached s; s_reopen := s_reopen s |}.
Definition upd_desired s v := {| s_routes := s_routes s; s_desired := v; s_dp := s_dp s; s_n2i := s_n2i s; s_i2n := s_i2n s;
  s_istate := s_istate s; s_grace := s_grace s; s_full := s_full s; s_rescan := s_rescan s; s_lastgc := s_lastgc s;
  s_cached := s_cached s; s_reopen := s_reopen s |}.
Definition upd_dp s v := {| s_routes := s_routes s; s_desired := s_desired s; s_dp := v; s_n2i := s_n2i s; s_i2n := s_i2n s;
  s_istate := s_istate s; s_grace := s_grace s; s_full := s_full s; s_rescan := s_rescan s; s_lastgc := s_lastgc s;
  s_cached := s_cached s; s_reopen := s_reopen s |}.
Definition upd_ifmaps s n2i i2n ist := {| s_routes := s_routes s; s_desired := s_desired s; s_dp := s_dp s; s_n2i := n2i; s_i2n := i2n;
  s_istate := ist; s_grace := s_grace s; s_full := s_full s; s_rescan := s_rescan s; s_lastgc := s_lastgc s;
  s_cached := s_cached s; s_reopen := s_reopen s |}.
Definition upd_grace s v := {| s_routes := s_routes s; s_desired := s_desired s; s_dp := s_dp s; s_n2i := s_n2i s; s_i2n := s_i2n s;
  s_istate := s_istate s; s_grace := v; s_full := s_full s; s_rescan := s_rescan s; s_lastgc := s_lastgc s;
  s_cached := s_cached s; s_reopen := s_reopen s |}.
Definition upd_full s v := {| s_routes := s_routes s; s_desired := s_desired s; s_dp := s_dp s; s_n2i := s_n2i s; s_i2n := s_i2n s;
  s_istate := s_istate s; s_grace := s_grace s; s_full := v; s_rescan := s_rescan s; s_lastgc := s_lastgc s;
  s_cached := s_cached s; s_reopen := s_reopen s |}.
Definition upd_rescan s v := {| s_routes := s_routes s; s_desired := s_desired s; s_dp := s_dp s; s_n2i := s_n2i s; s_i2n := s_i2n s;
  s_istate := s_istate s; s_grace := s_grace s; s_full := s_full s; s_rescan := v; s_lastgc := s_lastgc s;
  s_cached := s_cached s; s_reopen := s_reopen s |}.
Definition upd_lastgc s v := {| s_routes := s_routes s; s_desired := s_desired s; s_dp := s_dp s; s_n2i := s_n2i s; s_i2n := s_i2n s;
  s_istate := s_istate s; s_grace := s_grace s; s_full := s_full s; s_rescan := s_rescan s; s_lastgc := v;
  s_cached := s_cached s; s_reopen := s_reopen s |}.
Definition upd_conn s c r := {| s_routes := s_routes s; s_desired := s_desired s; s_dp := s_dp s; s_n2i := s_n2i s; s_i2n := s_i2n s;
  s_istate := s_istate s; s_grace := s_grace s; s_full := s_full s; s_rescan := s_rescan s; s_lastgc := s_lastgc s;
  s_cached := c; s_reopen := r |}.

(* ifaceIndexForName / ifaceNameForIndex (IPv4) *)
Definition idx_for_name (s : st) (name : string) : option N :=
  if String.eqb name NoOIF then Some 0 else lookup String.eqb (s_n2i s) name.
Definition name_for_idx (s : st) (idx : N) : option string :=
  if idx <=? 1 then Some NoOIF else lookup N.eqb (s_i2n s) idx.
Definition state_of (s : st) (idx : N) : ifstate :=
  match lookup N.eqb (s_istate s) idx with Some x => x | None => IfNP end.

(* onIfaceSeen *)
Definition on_iface_seen (now : N) (idx : N) (s : st) : st :=
  if idx <=? 1 then s
  else match lookup N.eqb (s_grace s) idx with
       | Some _ => s
       | None => upd_grace s (set N.eqb (s_grace s) idx (now, false))
       end.

(* ---------- recalculateDesiredKernelRoute ---------- *)
Definition render (cfg : config) (t : target) (idx : N) : kroute :=
  {| kr_type := route_type (t_type t); kr_scope := route_scope (t_type t);
     kr_src := if N.eqb (t_src t) 0 then c_src cfg else t_src t;
     kr_proto := if N.eqb (t_proto t) 0 then c_defproto cfg else t_proto t;
     kr_onlink := route_onlink (t_type t); kr_gw := t_gw t; kr_ifx := idx; kr_mtu := t_mtu t |}.

(* candidates for a key: (class, iface name, target) *)
Definition cands (routes : list (dkey * target)) (k : rkey) : list (N * string * target) :=
  flat_map (fun e => let '((c, n, k'), t) := e in if rkey_eqb k k' then [(c, n, t)] else []) routes.

(* one pass over the candidates: force-expire grace periods, pick the best *)
Definition better (c idx : N) (best : option (N * N * target)) : bool :=
  match best with
  | None => true
  | Some (bc, bidx, _) => (c <? bc) || (N.eqb c bc && (bidx <? idx))
  end.

Fixpoint pick (s : st) (l : list (N * string * target)) (best : option (N * N * target)) : option (N * N * target) :=
  match l with
  | [] => best
  | (c, n, t) :: l' =>
      match idx_for_name s n with
      | None => pick s l' best
      | Some idx =>
          if negb (String.eqb n NoOIF) && negb (ifstate_eqb (state_of s idx) IfUp) then pick s l' best
          else if better c idx best then pick s l' (Some (c, idx, t)) else pick s l' best
      end
  end.

Fixpoint expire_grace (s : st) (l : list (N * string * target)) (g : list (N * (N * bool))) : list (N * (N * bool)) :=
  match l with
  | [] => g
  | (_, n, _) :: l' =>
      let g' := match idx_for_name s n with
                | None => g
                | Some idx => match lookup N.eqb g idx with
                              | Some (fs, _) => set N.eqb g idx (fs, true)
                              | None => g
                              end
                end in
      expire_grace s l' g'
  end.

Definition winner (cfg : config) (s : st) (k : rkey) : option kroute :=
  match pick s (cands (s_routes s) k) None with
  | None => None
  | Some (_, idx, t) => Some (render cfg t idx)
  end.

Definition recalc (cfg : config) (k : rkey) (s : st) : st :=
  let cs := cands (s_routes s) k in
  let s1 := upd_grace s (expire_grace s cs (s_grace s)) in
  match winner cfg s k with
  | None => upd_desired s1 (remove rkey_eqb (s_desired s1) k)
  | Some r => upd_desired s1 (set rkey_eqb (s_desired s1) k r)
  end.

Definition recalc_all (cfg : config) (ks : list rkey) (s : st) : st := fold_left (fun s k => recalc cfg k s) ks s.

(* keys of all routes of one interface, over all classes *)
Definition keys_of_iface (s : st) (name : string) : list rkey :=
  flat_map (fun e => let '((_, n, k), _) := e in if String.eqb n name then [k] else []) (s_routes s).

(* ---------- OnIfaceStateChanged ---------- *)
Definition on_iface (cfg : config) (now : N) (name : string) (idx : N) (state : ifstate) (s : st) : st :=
  if negb (iface_is_ours (c_pol cfg) name) then s else
  let s1 :=
    match state with
    | IfNP =>
        let old := match lookup String.eqb (s_n2i s) name with Some o => o | None => 0 end in
        let s' := upd_ifmaps s (remove String.eqb (s_n2i s) name) (remove N.eqb (s_i2n s) old) (remove N.eqb (s_istate s) old) in
        upd_rescan s' (sdel String.eqb name (s_rescan s'))
    | _ =>
        let s' := on_iface_seen now idx s in
        let ist0 := match lookup String.eqb (s_n2i s') name with
                    | Some old => if N.eqb old idx then s_istate s'
                                  else if c_fixC cfg then remove N.eqb (s_istate s') old else s_istate s'
                    | None => s_istate s'
                    end in
        let ist := set N.eqb ist0 idx state in
        let i2n := match lookup String.eqb (s_n2i s') name with
                   | Some old => if N.eqb old idx then s_i2n s' else remove N.eqb (s_i2n s') old
                   | None => s_i2n s'
                   end in
        upd_ifmaps s' (set String.eqb (s_n2i s') name idx) (set N.eqb i2n idx name) ist
    end in
  let s2 := match state with IfUp => upd_rescan s1 (sadd String.eqb name (s_rescan s1)) | _ => s1 end in
  recalc_all cfg (keys_of_iface s2 name) s2.

(* ---------- SetRoutes / RouteUpdate / RouteRemove ---------- *)
Definition of_class_iface (c : N) (n : string) (e : dkey * target) : bool :=
  let '((c', n', _), _) := e in N.eqb c c' && String.eqb n n'.

Definition set_routes (cfg : config) (c : N) (name : string) (ts : list (rkey * target)) (s : st) : st :=
  if negb (iface_is_ours (c_pol cfg) name) then s else
  let oldks := map (fun e => snd (fst e)) (filter (of_class_iface c name) (s_routes s)) in
  let rest := filter (fun e => negb (of_class_iface c name e)) (s_routes s) in
  let routes := fold_left (fun m kt => set dkey_eqb m (c, name, fst kt) (snd kt)) ts rest in
  recalc_all cfg (oldks ++ map fst ts) (upd_routes s routes).

Definition route_update (cfg : config) (c : N) (name : string) (k : rkey) (t : target) (s : st) : st :=
  if negb (iface_is_ours (c_pol cfg) name) then s else
  recalc cfg k (upd_routes s (set dkey_eqb (s_routes s) (c, name, k) t)).

Definition route_remove (cfg : config) (c : N) (name : string) (k : rkey) (s : st) : st :=
  if negb (iface_is_ours (c_pol cfg) name) then s else
  match lookup dkey_eqb (s_routes s) (c, name, k) with
  | None => s
  | Some _ => recalc cfg k (upd_routes s (remove dkey_eqb (s_routes s) (c, name, k)))
  end.

(* ---------- netlink calls with injected failures ---------- *)
Inductive nlop := NConn | NLinkList | NRouteListAll
                | NLinkByName (name : string) | NRouteListIf (idx : N)
                | NReplace (k : rkey) | NDel (k : rkey).
Definition nlop_eqb (a b : nlop) : bool :=
  match a, b with
  | NConn, NConn | NLinkList, NLinkList | NRouteListAll, NRouteListAll => true
  | NLinkByName x, NLinkByName y => String.eqb x y
  | NRouteListIf x, NRouteListIf y => N.eqb x y
  | NReplace x, NReplace y | NDel x, NDel y => rkey_eqb x y
  | _, _ => false
  end.
(* FEintrP ks muts (whole-table route dump only): the dump yields the routes with keys ks, then somebody else changes
   the kernel (muts: key -> new route or deletion) and the dump fails with EINTR ("table changed mid-dump") *)
Inductive fkind := FErr | FEintr | FNotFound
                 | FEintrP (ks : list rkey) (muts : list (kkey * option kroute)).
(* a plan names the calls that fail during one Apply: (operation, how many calls of exactly that
   operation preceded it within this Apply, kind of error) *)
Definition plan := list (nlop * N * fkind).
Definition counters := list (nlop * N).

(* the netlink connection state of the handle manager (cachedHandle != nil, reopenHandleNextTime) is carried next
   to the state during one Apply and stored back into s_cached / s_reopen at its end *)
Record world := { w_st : st; w_env : env; w_cnt : counters; w_cached : bool; w_reopen : bool }.
Definition wst (w : world) (s : st) : world :=
  {| w_st := s; w_env := w_env w; w_cnt := w_cnt w; w_cached := w_cached w; w_reopen := w_reopen w |}.
Definition wenv (w : world) (e : env) : world :=
  {| w_st := w_st w; w_env := e; w_cnt := w_cnt w; w_cached := w_cached w; w_reopen := w_reopen w |}.
Definition wconn (w : world) (c r : bool) : world :=
  {| w_st := w_st w; w_env := w_env w; w_cnt := w_cnt w; w_cached := c; w_reopen := r |}.

Definition planned (p : plan) (op : nlop) (n : N) : option fkind :=
  match filter (fun e => nlop_eqb op (fst (fst e)) && N.eqb n (snd (fst e))) p with
  | [] => None
  | e :: _ => Some (snd e)
  end.

Definition nl_call (p : plan) (op : nlop) (w : world) : option fkind * world :=
  let n := match lookup nlop_eqb (w_cnt w) op with Some n => n | None => 0 end in
  (planned p op n, {| w_st := w_st w; w_env := w_env w; w_cnt := set nlop_eqb (w_cnt w) op (n + 1);
                      w_cached := w_cached w; w_reopen := w_reopen w |}).

(* handlemgr.Handle(): true = a handle is available *)
Definition handle (p : plan) (w : world) : bool * world :=
  let cached := if w_reopen w && w_cached w then false else w_cached w in
  if cached then (true, wconn w true false)
  else
    let '(f, w') := nl_call p NConn (wconn w false false) in
    match f with
    | Some _ => (false, w')
    | None => (true, wconn w' true false)
    end.

Definition mark_reopen (w : world) : world := wconn w (w_cached w) true.

(* ---------- resync ---------- *)
Definition link_state (l : link) : ifstate := if l_running l then IfUp else IfDown.

(* refreshAllIfaceStates *)
Definition refresh_all (cfg : config) (now : N) (links : list (string * link)) (s : st) : st :=
  let pass1 := fold_left (fun s nl =>
      let '(name, l) := nl in
      let s1 := match lookup String.eqb (s_n2i s) name with
                | Some old => if N.eqb old (l_idx l) then s else on_iface cfg now name old IfNP s
                | None => s
                end in
      match lookup N.eqb (s_i2n s1) (l_idx l) with
      | Some oldname => if String.eqb oldname name then s1 else on_iface cfg now oldname (l_idx l) IfNP s1
      | None => s1
      end) links s in
  let pass2 := fold_left (fun s nl =>
      let '(name, l) := nl in
      if ifstate_eqb (link_state l) (state_of s (l_idx l)) then s
      else on_iface cfg now name (l_idx l) (link_state l) s) links pass1 in
  fold_left (fun s name =>
      if mem String.eqb name (map fst links) then s
      else match lookup String.eqb (s_n2i s) name with
           | Some _ => on_iface cfg now name 0 IfNP s
           | None => s
           end) (keys (s_n2i pass2)) pass2.

(* routeIsOurs for a route listed from the kernel *)
Definition special_noif (r : kroute) : bool :=
  (kr_ifx r <=? 1) && (mem N.eqb (kr_type r) [2; 9; 6; 8; 7]).
Definition kroute_is_ours (cfg : config) (s : st) (r : kroute) : bool :=
  if special_noif r then route_is_ours (c_pol cfg) NoOIF (kr_proto r)
  else match lookup N.eqb (s_i2n s) (kr_ifx r) with
       | None => false
       | Some name => if String.eqb name "" then false else route_is_ours (c_pol cfg) name (kr_proto r)
       end.

Definition table_routes (cfg : config) (e : env) : list (rkey * kroute) :=
  flat_map (fun kr => let '((t, k), r) := kr in if N.eqb t (c_table cfg) then [(k, r)] else []) (e_routes e).

(* the listing callback of doFullResync / resyncIface: returns the state and the seen keys *)
Definition absorb (cfg : config) (now : N) (seen_iface : bool) (rs : list (rkey * kroute)) (s : st) : st * list rkey :=
  fold_left (fun acc kr =>
      let '(s, seen) := acc in
      let '(k, r) := kr in
      let s1 := if seen_iface then on_iface_seen now (kr_ifx r) s else s in
      if kroute_is_ours cfg s1 r then (upd_dp s1 (set rkey_eqb (s_dp s1) k r), k :: seen)
      else (s1, seen)) rs (s, []).

(* the route-list call with its EINTR retry loop (routeListFilterAttempts = 5): true = listing failed *)
Fixpoint list_retry (p : plan) (op : nlop) (fuel : nat) (w : world) : bool * world :=
  match fuel with
  | O => (true, w)
  | S fuel' =>
      let '(f, w1) := nl_call p op w in
      match f with
      | None => (false, w1)
      | Some FEintr => list_retry p op fuel' w1
      | Some _ => (true, w1)
      end
  end.

Definition env_mut (e : env) (muts : list (kkey * option kroute)) : env :=
  {| e_links := e_links e;
     e_routes := fold_left (fun m kv => match snd kv with
                                        | Some r => set kkey_eqb m (fst kv) r
                                        | None => remove kkey_eqb m (fst kv)
                                        end) muts (e_routes e);
     e_now := e_now e |}.

(* the whole-table dump of doFullResync with its retry loop: an interrupted dump has already passed the routes it
   yielded to the callback (they are recorded in the tracker's dataplane view); seenKeys is cleared before the retry,
   so only the dump that completes decides what the end-of-resync sweep keeps.  true = listing failed *)
Fixpoint full_list (cfg : config) (p : plan) (now : N) (fuel : nat) (w : world) : bool * world :=
  match fuel with
  | O => (true, w)
  | S fuel' =>
      let '(f, w1) := nl_call p NRouteListAll w in
      match f with
      | None => (false, w1)
      | Some FEintr => full_list cfg p now fuel' w1
      | Some (FEintrP ks muts) =>
          let rs := filter (fun kr => mem rkey_eqb (fst kr) ks) (table_routes cfg (w_env w1)) in
          let '(s2, _) := absorb cfg now true rs (w_st w1) in
          full_list cfg p now fuel' (wenv (wst w1 s2) (env_mut (w_env w1) muts))
      | Some _ => (true, w1)
      end
  end.

Definition do_full_resync (cfg : config) (p : plan) (w : world) : bool * world :=
  let now := e_now (w_env w) in
  let '(f, w1) := nl_call p NLinkList w in
  match f with
  | Some _ => (true, w1)
  | None =>
      let s1 := refresh_all cfg now (e_links (w_env w1)) (w_st w1) in
      let '(failed, w2) := full_list cfg p now 5 (wst w1 s1) in
      if failed then (true, w2)
      else
        let '(s2, seen) := absorb cfg now true (table_routes cfg (w_env w2)) (w_st w2) in
        let dp := filter (fun kr => mem rkey_eqb (fst kr) seen) (s_dp s2) in
        let s3 := upd_full (upd_rescan (upd_dp s2 dp) []) false in
        (false, wst w2 s3)
  end.

(* filterErrorByIfaceState for a "dummy error": what the error turns into *)
Inductive ferr := EDefault | EIfaceDown | EIfaceNotPresent | EConnect.
Definition filter_error (p : plan) (name : string) (w : world) : ferr * world :=
  if String.eqb name NoOIF then (EDefault, w)
  else
    let '(ok, w1) := handle p w in
    if negb ok then (EConnect, w1)
    else
      let '(f, w2) := nl_call p (NLinkByName name) w1 in
      match f with
      | Some FNotFound => (EIfaceNotPresent, w2)
      | Some _ => (EDefault, w2)
      | None =>
          match lookup String.eqb (e_links (w_env w2)) name with
          | None => (EIfaceNotPresent, w2)
          | Some l => if l_up l then (EDefault, w2) else (EIfaceDown, w2)
          end
      end.

(* resyncIface: true = error (interface stays queued) *)
Definition resync_iface (cfg : config) (p : plan) (name : string) (w : world) : bool * world :=
  let now := e_now (w_env w) in
  (* refreshIfaceStateBestEffort *)
  let '(f, w1) := nl_call p (NLinkByName name) w in
  let refreshed : option world :=
    match f with
    | Some FNotFound => Some (wst w1 (on_iface cfg now name 0 IfNP (w_st w1)))
    | Some _ => None
    | None =>
        match lookup String.eqb (e_links (w_env w1)) name with
        | None => Some (wst w1 (on_iface cfg now name 0 IfNP (w_st w1)))
        | Some l => Some (wst w1 (on_iface cfg now name (l_idx l) (link_state l) (w_st w1)))
        end
    end in
  match refreshed with
  | None => (true, mark_reopen w1)
  | Some w2 =>
      match idx_for_name (w_st w2) name with
      | None => (false, w2)
      | Some idx =>
          let '(failed, w3) := list_retry p (NRouteListIf idx) 5 w2 in
          if failed then
            (* error is filtered, logged and swallowed *)
            let '(fe, w4) := filter_error p name w3 in
            match fe with
            | EDefault => (c_fixA cfg, mark_reopen w4)
            | _ => (false, w4)
            end
          else
            let rs := filter (fun kr => N.eqb (kr_ifx (snd kr)) idx) (table_routes cfg (w_env w3)) in
            let '(s4, seen) := absorb cfg now false rs (w_st w3) in
            let missing := filter (fun k =>
                negb (mem rkey_eqb k seen) &&
                match lookup rkey_eqb (s_desired s4) k with
                | Some d => N.eqb (kr_ifx d) idx
                | None => false
                end &&
                (negb (c_fixB cfg) ||
                 match lookup rkey_eqb (s_dp s4) k with
                 | Some r => N.eqb (kr_ifx r) idx
                 | None => false
                 end)) (keys_of_iface s4 name) in
            let s5 := upd_dp s4 (fold_left (fun m k => remove rkey_eqb m k) missing (s_dp s4)) in
            (false, wst w3 s5)
      end
  end.

Definition resync_ifaces (cfg : config) (p : plan) (w : world) : world :=
  fold_left (fun w name =>
      if negb (mem String.eqb name (s_rescan (w_st w))) then w   (* discarded meanwhile *)
      else
        let '(err, w1) := resync_iface cfg p name w in
        if err then mark_reopen w1
        else wst w1 (upd_rescan (w_st w1) (sdel String.eqb name (s_rescan (w_st w1)))))
    (s_rescan (w_st w)) w.

(* ---------- applyUpdates ---------- *)
Definition in_grace (cfg : config) (now : N) (s : st) (idx : N) : bool :=
  match lookup N.eqb (s_grace s) idx with
  | None => false
  | Some (fs, expired) =>
      if expired then false
      else match name_for_idx s idx with
           | None => false
           | Some name => iface_has_grace (c_pol cfg) name && (now - fs <? c_grace cfg)
           end
  end.

Definition env_set_route (e : env) (k : kkey) (r : kroute) : env :=
  {| e_links := e_links e; e_routes := set kkey_eqb (e_routes e) k r; e_now := e_now e |}.
Definition env_del_route (e : env) (k : kkey) : env :=
  {| e_links := e_links e; e_routes := remove kkey_eqb (e_routes e) k; e_now := e_now e |}.

Definition del_step (cfg : config) (p : plan) (acc : bool * world) (k : rkey) : bool * world :=
  let '(err, w) := acc in
  let s := w_st w in
  match lookup rkey_eqb (s_dp s) k, lookup rkey_eqb (s_desired s) k with
  | Some r, None =>
      if in_grace cfg (e_now (w_env w)) s (kr_ifx r) then (err, w)
      else
        let '(f, w1) := nl_call p (NDel k) w in
        match f with
        | Some _ => (true, w1)
        | None => (err, wenv (wst w1 (upd_dp (w_st w1) (remove rkey_eqb (s_dp (w_st w1)) k)))
                             (env_del_route (w_env w1) (c_table cfg, k)))
        end
  | _, _ => (err, w)
  end.

Definition upd_step (cfg : config) (p : plan) (acc : bool * world) (k : rkey) : bool * world :=
  let '(err, w) := acc in
  let s := w_st w in
  match lookup rkey_eqb (s_desired s) k with
  | None => (err, w)
  | Some d =>
      let pending := match lookup rkey_eqb (s_dp s) k with Some r => negb (kroute_eqb r d) | None => true end in
      if negb pending then (err, w)
      else
        let '(f, w1) := nl_call p (NReplace k) w in
        match f with
        | None => (err, wenv (wst w1 (upd_dp (w_st w1) (set rkey_eqb (s_dp (w_st w1)) k d)))
                             (env_set_route (w_env w1) (c_table cfg, k) d))
        | Some fk =>
            match name_for_idx (w_st w1) (kr_ifx d) with
            | None => (true, w1)
            | Some name =>
                let '(fe, w2) := match fk with
                                 | FNotFound => if String.eqb name NoOIF then (EDefault, w1) else (EIfaceNotPresent, w1)
                                 | _ => filter_error p name w1
                                 end in
                match fe with
                | EIfaceDown | EIfaceNotPresent =>
                    (err, wst w2 (upd_rescan (w_st w2) (sadd String.eqb name (s_rescan (w_st w2)))))
                | _ => (true, w2)
                end
            end
        end
  end.

Definition apply_updates (cfg : config) (p : plan) (w : world) : bool * world :=
  let '(ok, w1) := handle p w in
  if negb ok then (true, w1)
  else
    let acc1 := fold_left (del_step cfg p) (keys (s_dp (w_st w1))) (false, w1) in
    fold_left (upd_step cfg p) (keys (s_desired (w_st (snd acc1)))) acc1.

(* maybeCleanUpGracePeriods *)
Definition cleanup_grace (cfg : config) (now : N) (s : st) : st :=
  let due := match s_lastgc s with None => true | Some t => negb (now - t <? c_grace cfg) end in
  if negb due then s
  else
    let g := filter (fun e =>
        let '(idx, (fs, _)) := e in
        (now - fs <? c_grace cfg) || match lookup N.eqb (s_i2n s) idx with Some _ => true | None => false end)
        (s_grace s) in
    upd_lastgc (upd_grace s g) (Some now).

(* attemptApply: true = error *)
Definition attempt (cfg : config) (p : plan) (w : world) : bool * world :=
  let fail (w : world) := (true, mark_reopen w) in
  let '(ok, w1) := handle p w in
  if negb ok then fail w1
  else
    let '(e1, w2) := if s_full (w_st w1) then do_full_resync cfg p w1 else (false, resync_ifaces cfg p w1) in
    if e1 then fail w2
    else
      let '(e2, w3) := apply_updates cfg p w2 in
      if e2 then fail w3
      else (false, wst w3 (cleanup_grace cfg (e_now (w_env w3)) (w_st w3))).

(* Apply: one attempt, one inline retry *)
Definition apply (cfg : config) (p : plan) (s : st) (e : env) : bool * st * env :=
  let w0 := {| w_st := s; w_env := e; w_cnt := []; w_cached := s_cached s; w_reopen := s_reopen s |} in
  let '(err0, w1) := attempt cfg p w0 in
  let '(err, w2) :=
    if err0 || negb (match s_rescan (w_st w1) with [] => true | _ => false end)
    then attempt cfg p w1 else (err0, w1) in
  let err' := match s_rescan (w_st w2) with [] => err | _ => true end in
  (err', upd_conn (w_st w2) (w_cached w2) (w_reopen w2), w_env w2).

(* ---------- histories ---------- *)
Inductive op :=
(* calls into the RouteTable *)
| OSetRoutes (c : N) (name : string) (ts : list (rkey * target))
| ORouteUpdate (c : N) (name : string) (k : rkey) (t : target)
| ORouteRemove (c : N) (name : string) (k : rkey)
| OIface (name : string) (idx : N) (state : ifstate)
| OQueueResync
| OQueueResyncIface (name : string)
| OApply (p : plan)
(* things that happen to the kernel behind Felix's back *)
| ESetLink (name : string) (l : link)         (* create / renumber / change flags *)
| EDelLink (name : string)
| EFlush (idx : N)                            (* kernel drops every route through a link that went down or away *)
| EAddRoute (k : kkey) (r : kroute)
| EDelRoute (k : kkey)
| ETime (dt : N).

Definition env_step (o : op) (e : env) : env :=
  match o with
  | ESetLink name l => {| e_links := set String.eqb (e_links e) name l; e_routes := e_routes e; e_now := e_now e |}
  | EDelLink name => {| e_links := remove String.eqb (e_links e) name; e_routes := e_routes e; e_now := e_now e |}
  | EFlush idx => {| e_links := e_links e; e_routes := filter (fun kr => negb (N.eqb (kr_ifx (snd kr)) idx)) (e_routes e); e_now := e_now e |}
  | EAddRoute k r => env_set_route e k r
  | EDelRoute k => env_del_route e k
  | ETime dt => {| e_links := e_links e; e_routes := e_routes e; e_now := e_now e + dt |}
  | _ => e
  end.

(* one step of a history; an Apply yields an observation (error?, kernel routes) *)
Definition obs := (bool * list (kkey * kroute))%type.

Definition step (cfg : config) (o : op) (se : st * env) : st * env * option obs :=
  let '(s, e) := se in
  match o with
  | OSetRoutes c n ts => (set_routes cfg c n ts s, e, None)
  | ORouteUpdate c n k t => (route_update cfg c n k t s, e, None)
  | ORouteRemove c n k => (route_remove cfg c n k s, e, None)
  | OIface n idx state => (on_iface cfg (e_now e) n idx state s, e, None)
  | OQueueResync => (upd_full s true, e, None)
  | OQueueResyncIface n => (upd_rescan s (sadd String.eqb n (s_rescan s)), e, None)
  | OApply p => let '(err, s', e') := apply cfg p s e in (s', e', Some (err, e_routes e'))
  | _ => (s, env_step o e, None)
  end.

Fixpoint run (cfg : config) (ops : list op) (se : st * env) : list obs :=
  match ops with
  | [] => []
  | o :: ops' =>
      let '(s', e', ob) := step cfg o se in
      match ob with Some x => x :: run cfg ops' (s', e') | None => run cfg ops' (s', e') end
  end.

Definition env0 : env := {| e_links := [("lo"%string, {| l_idx := 1; l_up := true; l_running := true |})]; e_routes := []; e_now := 0 |}.

(* comparison of kernels as finite maps *)
Definition kernel_eqb (a b : list (kkey * kroute)) : bool :=
  forallb (fun k => match lookup kkey_eqb a k, lookup kkey_eqb b k with
                    | Some x, Some y => kroute_eqb x y
                    | None, None => true
                    | _, _ => false
                    end) (keys a ++ keys b).

Definition obs_eqb (a b : obs) : bool := Bool.eqb (fst a) (fst b) && kernel_eqb (snd a) (snd b).
Fixpoint obss_eqb (a b : list obs) : bool :=
  match a, b with
  | [], [] => true
  | x :: a', y :: b' => obs_eqb x y && obss_eqb a' b'
  | _, _ => false
  end.
