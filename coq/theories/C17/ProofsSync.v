(* C17 — every Apply on a synchronised or resync-pending state: invariants, stale removal, foreign routes untouched. *)
From Coq Require Import List NArith Bool String Lia.
From Verif.C17 Require Import Model Spec Proofs ProofsAttempt ProofsWinner ProofsApply ProofsEvery ProofsSound ProofsFull ProofsView ProofsRefresh.
Import ListNotations.
Open Scope N_scope.
Arguments set : simpl never.

Lemma wfl_wf_links : forall e, wfl (e_links e) -> wf_links e.
Proof.
  intros e [ND1 [ND2 NZ]]. split.
  - intros n n' l l' H H' E.
    apply (al_lookup_in String.eqb string_eqb_spec) in H. apply (al_lookup_in String.eqb string_eqb_spec) in H'.
    clear NZ. induction (e_links e) as [|[n0 l0] m IH]; [contradiction|].
    simpl in ND1, ND2. inversion ND1 as [|x xs NI1 ND1']; subst. inversion ND2 as [|x xs NI2 ND2']; subst.
    destruct H as [H|H]; destruct H' as [H'|H'].
    + congruence.
    + injection H as -> ->. exfalso. apply NI2. apply (in_map (fun nl : string * link => l_idx (snd nl))) in H'. simpl in H'. congruence.
    + injection H' as -> ->. exfalso. apply NI2. apply (in_map (fun nl : string * link => l_idx (snd nl))) in H. simpl in H. congruence.
    + auto.
  - intros n l H. apply (al_lookup_in String.eqb string_eqb_spec) in H. eauto.
Qed.

Lemma VM_K0 : forall cfg s e, VM cfg s e -> wf_links e -> K0 cfg s.
Proof.
  intros cfg s e [V1 [V2 V3]] [WI WZ]. repeat split.
  - intros n i H. apply V2. rewrite V1 in H. destruct (iface_is_ours (c_pol cfg) n); [|discriminate]. split; auto.
    destruct (lookup String.eqb (e_links e) n) as [l|]; [|discriminate]. simpl in H. injection H as H. eauto.
  - intros i n H. apply V2 in H. destruct H as [EO [l [L Hi]]]. rewrite V1, EO, L. simpl. congruence.
  - intros i x H. apply V3 in H. destruct H as [n [l [EO [L [Hi _]]]]]. exists n. apply V2. eauto.
  - intros n i H. rewrite V1 in H. destruct (iface_is_ours (c_pol cfg) n); [auto|discriminate].
  - intros n H. rewrite V1 in H. destruct (iface_is_ours (c_pol cfg) n); [|discriminate].
    destruct (lookup String.eqb (e_links e) n) as [l|] eqn:L; [|discriminate]. simpl in H. injection H as H. eapply WZ; eauto.
Qed.

Lemma VM_unique : forall cfg s s' e, VM cfg s e -> VM cfg s' e -> veq s s'.
Proof.
  intros cfg s s' e [A1 [A2 A3]] [B1 [B2 B3]]. repeat split.
  - intros n. rewrite A1, B1. auto.
  - intros i. destruct (lookup N.eqb (s_i2n s) i) as [n|] eqn:X.
    + apply A2 in X. apply B2 in X. auto.
    + destruct (lookup N.eqb (s_i2n s') i) as [n|] eqn:Y; auto. apply B2 in Y. apply A2 in Y. congruence.
  - intros i. destruct (lookup N.eqb (s_istate s) i) as [x|] eqn:X.
    + apply A3 in X. apply B3 in X. auto.
    + destruct (lookup N.eqb (s_istate s') i) as [x|] eqn:Y; auto. apply B3 in Y. apply A3 in Y. congruence.
Qed.

Lemma J_KI : forall cfg e s, wf_links e -> J cfg e s -> KI cfg s.
Proof. intros cfg e s WL HJ. split; [eapply VM_K0; eauto; apply HJ|apply HJ]. Qed.

(* routes in Felix's table that are not Felix's, at destinations it does not want, survive applyUpdates whatever fails *)
Lemma apply_updates_foreign : forall cfg p w b w',
  apply_updates cfg p w = (b, w') -> Sub cfg (w_st w) (w_env w) -> Ours cfg (w_st w) ->
  forall k r, tbl cfg (w_env w) k = Some r -> kroute_is_ours cfg (w_st w) r = false -> desk w k = None ->
              tbl cfg (w_env w') k = Some r.
Proof.
  intros cfg p w b w' H S O k r Ht Ho Hd. unfold apply_updates in H.
  destruct (handle p w) as [ok w1] eqn:Eh. apply handle_frame in Eh. destruct Eh as [H1 H2].
  destruct ok; simpl in H.
  2:{ injection H as <- <-. rewrite H2. auto. }
  destruct (fold_left (del_step cfg p) (keys (s_dp (w_st w1))) (false, w1)) as [e1 w2] eqn:Ed.
  cbn [snd] in H.
  destruct (upd_fold _ _ _ _ _ _ _ H) as [[UF [_ UK]] _]. destruct (del_fold _ _ _ _ _ _ _ Ed) as [[DF [_ DK]] _].
  assert (forall k, desk w2 k = desk w k) as DS2 by (intros; unfold desk; rewrite (fr_des _ _ _ DF), H1; auto).
  destruct (UK k) as [[D T]|[d' [X _]]]; [|rewrite DS2 in X; congruence].
  rewrite T.
  destruct (DK k) as [[D2 T2]|[_ [_ [r' [X Y]]]]].
  - rewrite T2, H2. auto.
  - unfold dpk in X. rewrite H1 in X. pose proof (S _ _ X) as Ht'. rewrite Ht in Ht'. injection Ht' as <-.
    rewrite (O _ _ X) in Ho. discriminate.
Qed.

Lemma fold_projG : forall {A B} (f : st -> B) (g : st -> A -> st) (l : list A) s,
  (forall s a, f (g s a) = f s) -> f (fold_left g l s) = f s.
Proof. induction l as [|a l IH]; intros s H; simpl; auto. rewrite IH; auto. Qed.

Lemma refresh_all_routes : forall cfg now links s, s_routes (refresh_all cfg now links s) = s_routes s.
Proof.
  intros. rewrite refresh_all_unfold. cbv zeta.
  rewrite (fold_projG s_routes).
  2:{ intros s0 a. unfold f3. destruct (mem String.eqb a (map fst links)); auto.
      destruct (lookup String.eqb (s_n2i s0) a); auto. apply on_iface_routes. }
  rewrite (fold_projG s_routes).
  2:{ intros s0 [name l]. unfold f2. destruct (ifstate_eqb (link_state l) (state_of s0 (l_idx l))); auto. apply on_iface_routes. }
  rewrite (fold_projG s_routes); auto.
  intros s0 [name l]. unfold f1.
  match goal with |- s_routes (match lookup N.eqb (s_i2n ?s1) _ with _ => _ end) = _ => assert (s_routes s1 = s_routes s0) as E1 end.
  { destruct (lookup String.eqb (s_n2i s0) name); auto. destruct (N.eqb n (l_idx l)); auto. apply on_iface_routes. }
  match goal with |- s_routes (match ?X with _ => _ end) = _ => destruct X end; auto.
  destruct (String.eqb s1 name); auto. rewrite on_iface_routes. auto.
Qed.

Lemma astep_fold_proj : forall cfg now b rs s seen0 s2 seen,
  fold_left (astep cfg now b) rs (s, seen0) = (s2, seen) ->
  s_routes s2 = s_routes s /\ s_n2i s2 = s_n2i s /\ s_i2n s2 = s_i2n s /\ s_istate s2 = s_istate s /\ s_desired s2 = s_desired s.
Proof.
  induction rs as [|[k0 r0] rs IH]; intros s seen0 s2 seen H; cbn [fold_left] in H.
  - injection H as <- <-. repeat split; auto.
  - set (s1 := if b then on_iface_seen now (kr_ifx r0) s else s) in *.
    assert (s_routes s1 = s_routes s /\ s_desired s1 = s_desired s /\ s_n2i s1 = s_n2i s /\ s_i2n s1 = s_i2n s /\ s_istate s1 = s_istate s)
      as [A1 [A2 [A3 [A4 A5]]]].
    { unfold s1. destruct b; [apply on_iface_seen_all|repeat split; auto]. }
    unfold astep at 2 in H. fold s1 in H.
    destruct (kroute_is_ours cfg s1 r0); apply IH in H; cbn [s_routes s_n2i s_i2n s_istate s_desired upd_dp] in H;
      destruct H as [B1 [B2 [B3 [B4 B5]]]]; repeat split; congruence.
Qed.

Lemma K0_eq : forall cfg s s', s_n2i s' = s_n2i s -> s_i2n s' = s_i2n s -> s_istate s' = s_istate s -> K0 cfg s -> K0 cfg s'.
Proof. intros cfg s s' A B C H. unfold K0 in *. rewrite A, B, C. exact H. Qed.

Lemma I1_eq : forall cfg s s', s_routes s' = s_routes s -> s_n2i s' = s_n2i s -> s_istate s' = s_istate s ->
  s_desired s' = s_desired s -> I1 cfg s -> I1 cfg s'.
Proof. intros cfg s s' A B C D H k. unfold I1at. rewrite D, (winner_ext cfg s' s); auto. apply H. Qed.

Lemma pol_ok_eq : forall cfg s s', s_routes s' = s_routes s -> pol_ok cfg s -> pol_ok cfg s'.
Proof. intros cfg s s' A H. unfold pol_ok. rewrite A. exact H. Qed.

Lemma full_resync_J : forall cfg p w b w',
  plan_simple p = true -> NoDup (keys (e_routes (w_env w))) -> wfl (e_links (w_env w)) ->
  KI cfg (w_st w) -> pol_ok cfg (w_st w) ->
  do_full_resync cfg p w = (b, w') ->
  w_env w' = w_env w /\ pol_ok cfg (w_st w') /\ KI cfg (w_st w') /\
  (b = false -> J cfg (w_env w') (w_st w')) /\
  (b = true -> s_full (w_st w') = s_full (w_st w)) /\
  (VM cfg (w_st w) (w_env w) -> VM cfg (w_st w') (w_env w')).
Proof.
  intros cfg p w b w' PS ND WF HK PO H.
  pose proof (do_full_resync_env _ _ _ _ _ PS H) as EV.
  assert (b = true -> s_full (w_st w') = s_full (w_st w)) as FF by (intros ->; eapply do_full_resync_failed_full; eauto).
  assert (b = false -> Sub cfg (w_st w') (w_env w') /\ Ours cfg (w_st w') /\ Own cfg (w_st w') (w_env w')) as SOO.
  { intros ->. destruct (full_resync_ok _ _ _ _ PS ND H) as [_ [_ [_ [X [Y Z]]]]]. auto. }
  split; [exact EV|]. rewrite EV.
  unfold do_full_resync in H.
  destruct (nl_call p NLinkList w) as [f w1] eqn:E1. apply nl_call_frame in E1. destruct E1 as [A1 A2].
  destruct f.
  { injection H as <- <-. split; [rewrite A1; auto|]. split; [rewrite A1; auto|]. split; [discriminate|]. split; [exact FF|intros X; rewrite A1; auto]. }
  remember (refresh_all cfg (e_now (w_env w)) (e_links (w_env w1)) (w_st w1)) as s1.
  assert (VM cfg s1 (w_env w) /\ KI cfg s1) as [V1 K1].
  { subst s1. rewrite A2, A1. apply refresh_all_VM; auto. }
  assert (pol_ok cfg s1) as P1 by (subst s1; eapply pol_ok_eq; [apply refresh_all_routes|rewrite A1; auto]).
  rewrite (full_list_simple cfg p _ PS) in H.
  destruct (list_retry p NRouteListAll 5 (wst w1 s1)) as [failed w2] eqn:E2.
  apply list_retry_frame in E2. simpl in E2. destruct E2 as [B1 B2].
  destruct failed.
  { injection H as <- <-. split; [rewrite B1; auto|]. split; [rewrite B1; auto|]. split; [discriminate|]. split; [exact FF|intros _; rewrite B1; auto]. }
  destruct (absorb cfg (e_now (w_env w)) true (table_routes cfg (w_env w2)) (w_st w2)) as [s2 seen] eqn:E3.
  injection H as <- <-. rewrite absorb_unfold in E3. apply astep_fold_proj in E3. rewrite B1 in E3.
  destruct E3 as [R1 [R2 [R3 [R4 R5]]]].
  cbn [w_st wst] in *.
  set (s3 := upd_full (upd_rescan (upd_dp s2 (filter (fun kr : rkey * kroute => mem rkey_eqb (fst kr) seen) (s_dp s2))) []) false) in *.
  assert (VM cfg s3 (w_env w)) as V3 by (apply (VM_veq cfg s1); [apply veq_of_eq; auto|auto]).
  assert (KI cfg s3) as K3.
  { destruct K1 as [KA KB]. split; [apply (K0_eq cfg s1); auto|apply (I1_eq cfg s1); auto]. }
  assert (pol_ok cfg s3) as P3 by (apply (pol_ok_eq cfg s1); auto).
  split; auto. split; auto. split; [|split; [discriminate|auto]].
  intros _. destruct (SOO eq_refl) as [X [Y Z]]. rewrite EV in *. constructor; auto. apply K3.
Qed.

Lemma cleanup_grace_proj : forall cfg now s,
  s_routes (cleanup_grace cfg now s) = s_routes s /\ s_n2i (cleanup_grace cfg now s) = s_n2i s /\
  s_i2n (cleanup_grace cfg now s) = s_i2n s /\ s_istate (cleanup_grace cfg now s) = s_istate s /\
  s_desired (cleanup_grace cfg now s) = s_desired s /\ s_dp (cleanup_grace cfg now s) = s_dp s /\
  s_rescan (cleanup_grace cfg now s) = s_rescan s /\ s_full (cleanup_grace cfg now s) = s_full s.
Proof. intros. unfold cleanup_grace. destruct (negb _); repeat split; reflexivity. Qed.

Record A_inv (cfg : config) (w : world) : Prop := {
  a_wfl : wfl (e_links (w_env w));
  a_nd : NoDup (keys (e_routes (w_env w)));
  a_pol : pol_ok cfg (w_st w);
  a_ki : KI cfg (w_st w);
  a_sync : s_full (w_st w) = true \/ J cfg (w_env w) (w_st w)
}.

Definition Fgn (cfg : config) (e : env) (s' : st) (e' : env) : Prop :=
  forall kk r, lookup kkey_eqb (e_routes e) kk = Some r ->
    (fst kk <> c_table cfg \/ (kroute_is_ours cfg s' r = false /\ lookup rkey_eqb (s_desired s') (snd kk) = None)) ->
    lookup kkey_eqb (e_routes e') kk = Some r.

Definition ConvStale (cfg : config) (s' : st) (e' : env) : Prop :=
  (forall k d, lookup rkey_eqb (s_desired s') k = Some d -> tbl cfg e' k = Some d) /\
  (forall k r, lookup rkey_eqb (s_desired s') k = None -> tbl cfg e' k = Some r ->
       kroute_is_ours cfg s' r = true -> in_grace cfg (e_now e') s' (kr_ifx r) = true).

Lemma finish_attempt : forall cfg p w2 e2 w3,
  wfl (e_links (w_env w2)) -> NoDup (keys (e_routes (w_env w2))) -> J cfg (w_env w2) (w_st w2) ->
  apply_updates cfg p w2 = (e2, w3) ->
  forall w', w' = (if e2 then mark_reopen w3 else wst w3 (cleanup_grace cfg (e_now (w_env w3)) (w_st w3))) ->
  A_inv cfg w' /\ J cfg (w_env w') (w_st w') /\ Fgn cfg (w_env w2) (w_st w') (w_env w') /\
  e_links (w_env w') = e_links (w_env w2) /\
  (e2 = false -> s_rescan (w_st w') = [] -> ConvStale cfg (w_st w') (w_env w')).
Proof.
  intros cfg p w2 e2 w3 WF ND J2 Ea w' EW.
  pose proof (wfl_wf_links _ WF) as WL.
  pose proof (apply_updates_J _ _ _ _ _ WL J2 Ea) as J3.
  pose proof (apply_updates_core _ _ _ _ _ Ea) as C. unfold core in C. injection C as C1 C2 C3 C4 C5 C6 C7 C8 C9.
  pose proof (apply_updates_nodup _ _ _ _ _ Ea ND) as ND3.
  destruct (cleanup_grace_proj cfg (e_now (w_env w3)) (w_st w3)) as [G1 [G2 [G3 [G4 [G5 [G6 [G7 G8]]]]]]].
  assert (w_env w' = w_env w3) as EV by (subst w'; destruct e2; reflexivity).
  assert (J cfg (w_env w3) (w_st w')) as J'.
  { subst w'. destruct e2; cbn [w_st wst mark_reopen wconn]; auto.
    apply (J_same cfg _ (w_st w3)); auto.
    - unfold Sub. rewrite G6. apply J3.
    - unfold Ours. rewrite G6. intros k r L. rewrite (ours_ext cfg _ (w_st w3)); auto. eapply (j_ours _ _ _ J3); eauto.
    - unfold Own. rewrite G6. intros k r T O. rewrite (ours_ext cfg _ (w_st w3)) in O; auto. eapply (j_own _ _ _ J3); eauto. }
  assert (s_i2n (w_st w') = s_i2n (w_st w2) /\ s_desired (w_st w') = s_desired (w_st w2)) as [I' D'].
  { subst w'. destruct e2; cbn [w_st wst mark_reopen wconn]; split; congruence. }
  assert (wfl (e_links (w_env w3))) as WF3 by (rewrite C8; auto).
  rewrite EV. split; [|split; [exact J'|split; [|split; [exact C8|]]]].
  - constructor; rewrite ?EV; auto.
    + apply J'.
    + eapply J_KI; [apply wfl_wf_links; eauto|eauto].
  - intros [t k] r Hl Hc. simpl in Hc.
    destruct (N.eq_dec t (c_table cfg)) as [->|NE].
    + destruct Hc as [Hc|[Ho Hd]]; [congruence|].
      rewrite (ours_ext cfg _ (w_st w2)) in Ho by auto. rewrite D' in Hd.
      apply (apply_updates_foreign _ _ _ _ _ Ea (j_sub _ _ _ J2) (j_ours _ _ _ J2) k r); auto.
    + rewrite (apply_updates_other _ _ _ _ _ Ea (t, k)); auto.
  - intros -> RS. subst w'. cbn [w_st wst] in *. rewrite G7 in RS.
    destruct (apply_updates_ok _ _ _ _ Ea RS (j_sub _ _ _ J2) (j_ours _ _ _ J2) (j_own _ _ _ J2)) as [F [CONV [STALE _]]].
    split.
    + intros k d Hd. rewrite G5 in Hd. unfold desk in CONV. apply CONV. congruence.
    + intros k r Hd Ht Ho. rewrite G5 in Hd. rewrite (ours_ext cfg _ (w_st w2)) in Ho by congruence.
      apply in_grace_cleanup.
      rewrite (in_grace_ext cfg _ (w_st w3) (w_st w2)); [|apply F|apply F].
      rewrite C9. apply (STALE k r); auto. unfold desk. congruence.
Qed.

Lemma honest_simple : forall p, plan_honest p = true -> plan_simple p = true.
Proof. intros p H. unfold plan_honest in H. apply andb_true_iff in H. tauto. Qed.

Lemma attempt_inv : forall cfg p w b w',
  plan_honest p = true -> c_fixB cfg = true -> A_inv cfg w ->
  attempt cfg p w = (b, w') ->
  A_inv cfg w' /\ Fgn cfg (w_env w) (w_st w') (w_env w') /\ e_links (w_env w') = e_links (w_env w) /\
  (J cfg (w_env w') (w_st w') \/ e_routes (w_env w') = e_routes (w_env w)) /\
  (b = false -> J cfg (w_env w') (w_st w')) /\
  (b = false -> s_rescan (w_st w') = [] -> ConvStale cfg (w_st w') (w_env w')).
Proof.
  intros cfg p w b w' PH FB [WF ND PO HK SY] H.
  pose proof (honest_simple _ PH) as PS.
  unfold attempt in H.
  destruct (handle p w) as [ok w1] eqn:Eh. apply handle_frame in Eh. destruct Eh as [H1 H2].
  destruct ok; simpl in H.
  2:{ injection H as <- <-.
      split; [constructor; cbn [w_st w_env mark_reopen wconn]; rewrite ?H1, ?H2; auto|].
      cbn [w_st w_env mark_reopen wconn]. rewrite H1, H2.
      split; [unfold Fgn; intros kk r L _; auto|]. split; auto. split; [right; auto|split; intros X; discriminate X]. }
  rewrite <- H1, <- H2 in *.
  destruct (s_full (w_st w1)) eqn:EF.
  - destruct (do_full_resync cfg p w1) as [e1 w2] eqn:Ef.
    destruct (full_resync_J _ _ _ _ _ PS ND WF HK PO Ef) as [EV [P2 [K2 [JJ [FF _]]]]].
    destruct e1.
    + injection H as <- <-.
      split; [constructor; cbn [w_st w_env mark_reopen wconn]; rewrite ?EV; auto; left; rewrite (FF eq_refl); auto|].
      cbn [w_st w_env mark_reopen wconn]. rewrite EV.
      split; [unfold Fgn; intros kk r L _; auto|]. split; auto. split; [right; auto|split; intros X; discriminate X].
    + specialize (JJ eq_refl).
      destruct (apply_updates cfg p w2) as [e2 w3] eqn:Ea.
      rewrite <- EV in WF, ND.
      destruct (finish_attempt cfg p w2 e2 w3 WF ND JJ Ea w') as [AI [J' [FG [EL CS]]]].
      { destruct e2; injection H as <- <-; reflexivity. }
      rewrite EV in *. split; auto. split; auto. split; auto. split; auto. split; auto.
      destruct e2; injection H as <- _; [discriminate|auto].
  - destruct SY as [SY|SY]; [congruence|].
    pose proof (wfl_wf_links _ WF) as WL.
    destruct (resync_ifaces_J cfg p w1 (w_env w1) PH FB WL ND eq_refl SY) as [EV J2].
    cbv beta iota in H.
    destruct (apply_updates cfg p (resync_ifaces cfg p w1)) as [e2 w3] eqn:Ea.
    rewrite <- EV in WF, ND, J2 at 1.
    destruct (finish_attempt cfg p _ e2 w3 WF ND J2 Ea w') as [AI [J' [FG [EL CS]]]].
    { destruct e2; injection H as <- <-; reflexivity. }
    rewrite EV in *. split; auto. split; auto. split; auto. split; auto. split; auto.
    destruct e2; injection H as <- _; [discriminate|auto].
Qed.

(* ---- the desired-route inputs are not touched by an attempt ---- *)
Lemma resync_iface_routes : forall cfg p name w b w', resync_iface cfg p name w = (b, w') -> s_routes (w_st w') = s_routes (w_st w).
Proof.
  intros cfg p name w b w' H. unfold resync_iface in H.
  destruct (nl_call p (NLinkByName name) w) as [f w1] eqn:E1. apply nl_call_frame in E1. destruct E1 as [A1 _].
  match type of H with (match ?R with Some _ => _ | None => _ end) = _ => destruct R as [w2|] eqn:ER end.
  2:{ injection H as <- <-. simpl. congruence. }
  assert (s_routes (w_st w2) = s_routes (w_st w)) as B1.
  { destruct f as [[| | |ks0 m0]|]; try discriminate.
    - injection ER as <-. simpl. rewrite on_iface_routes. congruence.
    - destruct (lookup String.eqb (e_links (w_env w1)) name); injection ER as <-; simpl; rewrite on_iface_routes; congruence. }
  destruct (idx_for_name (w_st w2) name) as [idx|].
  2:{ injection H as <- <-. auto. }
  destruct (list_retry p (NRouteListIf idx) 5 w2) as [failed w3] eqn:E3.
  apply list_retry_frame in E3. destruct E3 as [C1 _].
  destruct failed.
  - destruct (filter_error p name w3) as [fe w4] eqn:E4. apply filter_error_frame in E4. destruct E4 as [D1 _].
    destruct fe; injection H as <- <-; simpl; congruence.
  - match type of H with (let '(s4, seen) := absorb ?c ?n ?bb ?rs ?ss in _) = _ =>
      destruct (absorb c n bb rs ss) as [s4 seen] eqn:EA; rewrite absorb_unfold in EA; apply astep_fold_proj in EA end.
    destruct EA as [R1 _]. injection H as <- <-. simpl. congruence.
Qed.

Lemma resync_ifaces_routes : forall cfg p w, s_routes (w_st (resync_ifaces cfg p w)) = s_routes (w_st w).
Proof.
  intros cfg p w. unfold resync_ifaces.
  generalize (s_rescan (w_st w)) as names. intros names. revert w.
  induction names as [|n names IH]; intros w; cbn [fold_left]; auto.
  rewrite IH. destruct (negb (mem String.eqb n (s_rescan (w_st w)))); auto.
  destruct (resync_iface cfg p n w) as [err w1] eqn:E. apply resync_iface_routes in E.
  destruct err; simpl; auto.
Qed.

Lemma do_full_resync_routes : forall cfg p w b w', plan_simple p = true ->
  do_full_resync cfg p w = (b, w') -> s_routes (w_st w') = s_routes (w_st w).
Proof.
  intros cfg p w b w' PS H. unfold do_full_resync in H.
  destruct (nl_call p NLinkList w) as [f w1] eqn:E1. apply nl_call_frame in E1. destruct E1 as [A1 A2].
  destruct f; [injection H as <- <-; congruence|].
  remember (refresh_all cfg (e_now (w_env w)) (e_links (w_env w1)) (w_st w1)) as s1.
  assert (s_routes s1 = s_routes (w_st w)) as R1 by (subst s1; rewrite refresh_all_routes; congruence).
  rewrite (full_list_simple cfg p _ PS) in H.
  destruct (list_retry p NRouteListAll 5 (wst w1 s1)) as [failed w2] eqn:E2.
  apply list_retry_frame in E2. simpl in E2. destruct E2 as [B1 B2].
  destruct failed; [injection H as <- <-; congruence|].
  destruct (absorb cfg (e_now (w_env w)) true (table_routes cfg (w_env w2)) (w_st w2)) as [s2 seen] eqn:E3.
  rewrite absorb_unfold in E3. apply astep_fold_proj in E3. destruct E3 as [R2 _].
  injection H as <- <-. simpl. congruence.
Qed.

Lemma attempt_routes : forall cfg p w b w', plan_simple p = true ->
  attempt cfg p w = (b, w') -> s_routes (w_st w') = s_routes (w_st w).
Proof.
  intros cfg p w b w' PS H. unfold attempt in H.
  destruct (handle p w) as [ok w1] eqn:Eh. apply handle_frame in Eh. destruct Eh as [H1 _].
  destruct ok; simpl in H.
  2:{ injection H as <- <-. simpl. congruence. }
  assert (exists e1 w2, (if s_full (w_st w1) then do_full_resync cfg p w1 else (false, resync_ifaces cfg p w1)) = (e1, w2)
                        /\ s_routes (w_st w2) = s_routes (w_st w)) as [e1 [w2 [E R]]].
  { destruct (s_full (w_st w1)).
    - destruct (do_full_resync cfg p w1) as [e1 w2] eqn:Ef. exists e1, w2. split; auto.
      apply do_full_resync_routes in Ef; auto. congruence.
    - exists false, (resync_ifaces cfg p w1). split; auto. rewrite resync_ifaces_routes. congruence. }
  rewrite E in H.
  destruct e1; [injection H as <- <-; simpl; congruence|].
  destruct (apply_updates cfg p w2) as [e2 w3] eqn:Ea.
  pose proof (apply_updates_core _ _ _ _ _ Ea) as C. unfold core in C. injection C as C1 _.
  destruct e2; injection H as <- <-; simpl; [congruence|].
  destruct (cleanup_grace_proj cfg (e_now (w_env w3)) (w_st w3)) as [G1 _]. congruence.
Qed.

(* ---- Apply ---- *)
Definition wof (s : st) (e : env) : world :=
  {| w_st := s; w_env := e; w_cnt := []; w_cached := s_cached s; w_reopen := s_reopen s |}.
Definition S_inv (cfg : config) (s : st) (e : env) : Prop := A_inv cfg (wof s e).

Lemma VM_links : forall cfg s e e', e_links e' = e_links e -> VM cfg s e -> VM cfg s e'.
Proof. intros cfg s e e' H V. unfold VM in *. rewrite H. exact V. Qed.

Lemma J_upd_conn : forall cfg e s c r, J cfg e s -> J cfg e (upd_conn s c r).
Proof.
  intros cfg e s c r HJ. apply (J_same cfg e s); auto.
  - exact (j_sub _ _ _ HJ).
  - intros k x L. rewrite (ours_ext cfg _ s) by reflexivity. eapply (j_ours _ _ _ HJ); eauto.
  - intros k x T O. rewrite (ours_ext cfg _ s) in O by reflexivity. eapply (j_own _ _ _ HJ); eauto.
Qed.

Lemma A_inv_final : forall cfg w, A_inv cfg w -> S_inv cfg (upd_conn (w_st w) (w_cached w) (w_reopen w)) (w_env w).
Proof.
  intros cfg w [WF ND PO [KA KB] SY]. constructor; cbn [w_st w_env wof]; auto.
  - split; [apply (K0_eq cfg (w_st w)); auto|apply (I1_eq cfg (w_st w)); auto].
  - destruct SY as [SY|SY]; [left; auto|right; apply J_upd_conn; auto].
Qed.

Lemma ConvStale_upd_conn : forall cfg s e c r, ConvStale cfg s e -> ConvStale cfg (upd_conn s c r) e.
Proof.
  intros cfg s e c r [A B]. split; [exact A|].
  intros k x Hd Ht Ho. rewrite (ours_ext cfg _ s) in Ho by reflexivity.
  rewrite (in_grace_ext cfg _ _ s) by reflexivity. eauto.
Qed.

Lemma Fgn_upd_conn : forall cfg e s e' c r, Fgn cfg e s e' -> Fgn cfg e (upd_conn s c r) e'.
Proof.
  intros cfg e s e' c r F kk x L Hc. apply (F kk x L).
  destruct Hc as [Hc|[Ho Hd]]; [left; auto|right]. rewrite (ours_ext cfg _ s) in Ho by reflexivity. auto.
Qed.

Lemma Fgn_compose : forall cfg e0 s1 e1 s2 e2,
  Fgn cfg e0 s1 e1 -> Fgn cfg e1 s2 e2 ->
  (forall r, kroute_is_ours cfg s1 r = kroute_is_ours cfg s2 r) ->
  (forall k, lookup rkey_eqb (s_desired s1) k = lookup rkey_eqb (s_desired s2) k) ->
  Fgn cfg e0 s2 e2.
Proof.
  intros cfg e0 s1 e1 s2 e2 F0 F1 EO ED kk r L Hc. apply F1; auto. apply F0; auto.
  destruct Hc as [Hc|[Ho Hd]]; [left; auto|right]. rewrite EO, ED. auto.
Qed.

Lemma apply_inv : forall cfg p s e err s' e',
  plan_honest p = true -> c_fixB cfg = true -> S_inv cfg s e ->
  apply cfg p s e = (err, s', e') ->
  S_inv cfg s' e' /\ e_links e' = e_links e /\ s_routes s' = s_routes s /\
  (err = false -> ConvStale cfg s' e' /\ Fgn cfg e s' e' /\ J cfg e' s').
Proof.
  intros cfg p s e err s' e' PH FB SI H. pose proof (honest_simple _ PH) as PS.
  unfold apply in H. fold (wof s e) in H.
  destruct (attempt cfg p (wof s e)) as [err0 w1] eqn:A0.
  destruct (attempt_inv _ _ _ _ _ PH FB SI A0) as [AI1 [FG0 [EL0 [JS0 [JOK0 CS0]]]]].
  pose proof (attempt_routes _ _ _ _ _ PS A0) as R0. cbn [wof w_st w_env] in *.
  destruct (err0 || negb (match s_rescan (w_st w1) with [] => true | _ => false end)) eqn:C.
  - destruct (attempt cfg p w1) as [err1 w2] eqn:A1.
    destruct (attempt_inv _ _ _ _ _ PH FB AI1 A1) as [AI2 [FG1 [EL1 [JS1 [JOK1 CS1]]]]].
    pose proof (attempt_routes _ _ _ _ _ PS A1) as R1.
    injection H as <- <- <-.
    split; [apply A_inv_final; auto|]. split; [congruence|]. split; [cbn; congruence|].
    destruct (s_rescan (w_st w2)) eqn:R2; [|discriminate]. intros ->.
    specialize (JOK1 eq_refl). specialize (CS1 eq_refl eq_refl).
    split; [apply ConvStale_upd_conn; auto|]. split; [|apply J_upd_conn; auto].
    apply Fgn_upd_conn.
    destruct JS0 as [J1|SAME].
    + assert (veq (w_st w1) (w_st w2)) as VE.
      { eapply VM_unique; [apply J1|]. eapply VM_links; [|apply JOK1]. congruence. }
      eapply Fgn_compose; eauto.
      * intros r. apply ours_veq. auto.
      * intros k. rewrite (j_i1 _ _ _ J1 k), (j_i1 _ _ _ JOK1 k). apply winner_veq; auto.
    + intros kk r L Hc. apply FG1; auto. rewrite SAME. auto.
  - apply orb_false_iff in C. destruct C as [-> C].
    injection H as <- <- <-.
    split; [apply A_inv_final; auto|]. split; [congruence|]. split; [cbn; congruence|].
    destruct (s_rescan (w_st w1)) eqn:R1; [|discriminate]. intros _.
    specialize (JOK0 eq_refl). specialize (CS0 eq_refl eq_refl).
    split; [apply ConvStale_upd_conn; auto|]. split; [apply Fgn_upd_conn; auto|apply J_upd_conn; auto].
Qed.
