(* C17 — histories: the invariants of ProofsSync hold along every well-formed history, from ANY starting kernel. *)
From Coq Require Import List NArith Bool String Lia.
From Verif.C17 Require Import Model Spec Proofs ProofsAttempt ProofsWinner ProofsApply ProofsEvery ProofsSound ProofsFull ProofsView ProofsRefresh ProofsSync.
Import ListNotations.
Open Scope N_scope.
Arguments set : simpl never.

Record B_inv (cfg : config) (s : st) (e : env) : Prop := {
  b_wfl : wfl (e_links e);
  b_nd : NoDup (keys (e_routes e));
  b_pol : pol_ok cfg s;
  b_ki : KI cfg s
}.

Lemma S_inv_split : forall cfg s e, S_inv cfg s e <-> (B_inv cfg s e /\ (s_full s = true \/ J cfg e s)).
Proof.
  intros. split.
  - intros [A B C D E]. split; [constructor; auto|auto].
  - intros [[A B C D] E]. constructor; auto.
Qed.

(* --- desired-route calls --- *)
Lemma in_remove_d : forall (m : list (dkey * target)) k x, In x (remove dkey_eqb m k) -> In x m.
Proof.
  induction m as [|[k0 v0] m IH]; simpl; intros k x H; auto.
  destruct (dkey_eqb k k0); [right; eauto|]. destruct H as [H|H]; [left; auto|right; eauto].
Qed.

Lemma in_set_d : forall (m : list (dkey * target)) k v x, In x (set dkey_eqb m k v) -> x = (k, v) \/ In x m.
Proof. intros m k v x H. unfold set in H. destruct H as [H|H]; [left; auto|right; eapply in_remove_d; eauto]. Qed.

Lemma in_fold_set : forall c n (ts : list (rkey * target)) m x,
  In x (fold_left (fun m kt => set dkey_eqb m (c, n, fst kt) (snd kt)) ts m) ->
  In x m \/ exists k t, x = ((c, n, k), t) /\ In (k, t) ts.
Proof.
  induction ts as [|[k0 t0] ts IH]; intros m x H; cbn [fold_left fst snd] in H; auto.
  apply IH in H. destruct H as [H|[k [t [E HI]]]].
  - apply in_set_d in H. destruct H as [H|H]; auto. right. exists k0, t0. split; auto. left; auto.
  - right. exists k, t. split; auto. right; auto.
Qed.

Lemma view_lists_J : forall cfg e s s', J cfg e s ->
  s_n2i s' = s_n2i s -> s_i2n s' = s_i2n s -> s_istate s' = s_istate s -> s_dp s' = s_dp s ->
  I1 cfg s' -> pol_ok cfg s' -> J cfg e s'.
Proof.
  intros cfg e s s' HJ A B C D HI HP. constructor; auto.
  - unfold Sub. rewrite D. apply HJ.
  - unfold Ours. rewrite D. intros k r L. rewrite (ours_ext cfg s' s); auto. eapply (j_ours _ _ _ HJ); eauto.
  - unfold Own. rewrite D. intros k r T O. rewrite (ours_ext cfg s' s) in O; auto. eapply (j_own _ _ _ HJ); eauto.
  - apply (VM_veq cfg s); [apply veq_of_eq; auto|apply HJ].
Qed.

Lemma S_inv_lists : forall cfg e s s', S_inv cfg s e ->
  s_n2i s' = s_n2i s -> s_i2n s' = s_i2n s -> s_istate s' = s_istate s -> s_dp s' = s_dp s -> s_full s' = s_full s ->
  I1 cfg s' -> pol_ok cfg s' -> S_inv cfg s' e.
Proof.
  intros cfg e s s' SI A B C D F HI HP. apply S_inv_split in SI. destruct SI as [[WF ND PO [KA KB]] SY].
  apply S_inv_split. split.
  - constructor; auto. split; [apply (K0_eq cfg s); auto|auto].
  - destruct SY as [SY|SY]; [left; congruence|right; eapply view_lists_J; eauto].
Qed.

Lemma B_inv_lists : forall cfg e s s', B_inv cfg s e ->
  s_n2i s' = s_n2i s -> s_i2n s' = s_i2n s -> s_istate s' = s_istate s ->
  I1 cfg s' -> pol_ok cfg s' -> B_inv cfg s' e.
Proof.
  intros cfg e s s' [WF ND PO [KA KB]] A B C HI HP. constructor; auto. split; [apply (K0_eq cfg s); auto|auto].
Qed.

Lemma set_routes_proj : forall cfg c n ts s,
  s_n2i (set_routes cfg c n ts s) = s_n2i s /\ s_i2n (set_routes cfg c n ts s) = s_i2n s /\
  s_istate (set_routes cfg c n ts s) = s_istate s /\ s_dp (set_routes cfg c n ts s) = s_dp s /\
  s_full (set_routes cfg c n ts s) = s_full s.
Proof.
  intros. unfold set_routes. destruct (negb (iface_is_ours (c_pol cfg) n)); [repeat split; auto|].
  match goal with |- context [recalc_all cfg ?ks ?s2] => destruct (recalc_all_proj cfg ks s2) as [_ [B [C [D E]]]]; rewrite B, C, D, E, recalc_all_full end.
  repeat split; reflexivity.
Qed.

Lemma set_routes_pol : forall cfg c n ts s, pol_ok cfg s -> (forall k t, In (k, t) ts -> target_ok cfg n t) ->
  pol_ok cfg (set_routes cfg c n ts s).
Proof.
  intros cfg c n ts s PO HT. unfold set_routes. destruct (negb (iface_is_ours (c_pol cfg) n)); auto.
  unfold pol_ok. match goal with |- context [recalc_all cfg ?ks ?s2] => destruct (recalc_all_proj cfg ks s2) as [A _]; rewrite A end.
  cbn [s_routes upd_routes]. intros c0 n0 k0 t0 HI. apply in_fold_set in HI. destruct HI as [HI|[k [t [E HI]]]].
  - apply filter_In in HI. destruct HI as [HI _]. eapply PO; eauto.
  - injection E as -> -> -> ->. eauto.
Qed.

Lemma route_update_proj : forall cfg c n k t s,
  s_n2i (route_update cfg c n k t s) = s_n2i s /\ s_i2n (route_update cfg c n k t s) = s_i2n s /\
  s_istate (route_update cfg c n k t s) = s_istate s /\ s_dp (route_update cfg c n k t s) = s_dp s /\
  s_full (route_update cfg c n k t s) = s_full s.
Proof.
  intros. unfold route_update. destruct (negb (iface_is_ours (c_pol cfg) n)); [repeat split; auto|].
  destruct (recalc_proj cfg k (upd_routes s (set dkey_eqb (s_routes s) (c, n, k) t))) as [_ [B [C [D E]]]].
  rewrite B, C, D, E, recalc_full. repeat split; reflexivity.
Qed.

Lemma route_update_pol : forall cfg c n k t s, pol_ok cfg s -> target_ok cfg n t -> pol_ok cfg (route_update cfg c n k t s).
Proof.
  intros cfg c n k t s PO HT. unfold route_update. destruct (negb (iface_is_ours (c_pol cfg) n)); auto.
  unfold pol_ok. destruct (recalc_proj cfg k (upd_routes s (set dkey_eqb (s_routes s) (c, n, k) t))) as [A _]. rewrite A.
  cbn [s_routes upd_routes]. intros c0 n0 k0 t0 HI. apply in_set_d in HI. destruct HI as [HI|HI]; [injection HI as -> -> -> ->; auto|eapply PO; eauto].
Qed.

Lemma route_remove_proj : forall cfg c n k s,
  s_n2i (route_remove cfg c n k s) = s_n2i s /\ s_i2n (route_remove cfg c n k s) = s_i2n s /\
  s_istate (route_remove cfg c n k s) = s_istate s /\ s_dp (route_remove cfg c n k s) = s_dp s /\
  s_full (route_remove cfg c n k s) = s_full s.
Proof.
  intros. unfold route_remove. destruct (negb (iface_is_ours (c_pol cfg) n)); [repeat split; auto|].
  destruct (lookup dkey_eqb (s_routes s) (c, n, k)); [|repeat split; auto].
  destruct (recalc_proj cfg k (upd_routes s (remove dkey_eqb (s_routes s) (c, n, k)))) as [_ [B [C [D E]]]].
  rewrite B, C, D, E, recalc_full. repeat split; reflexivity.
Qed.

Lemma route_remove_pol : forall cfg c n k s, pol_ok cfg s -> pol_ok cfg (route_remove cfg c n k s).
Proof.
  intros cfg c n k s PO. unfold route_remove. destruct (negb (iface_is_ours (c_pol cfg) n)); auto.
  destruct (lookup dkey_eqb (s_routes s) (c, n, k)); auto.
  unfold pol_ok. destruct (recalc_proj cfg k (upd_routes s (remove dkey_eqb (s_routes s) (c, n, k)))) as [A _]. rewrite A.
  cbn [s_routes upd_routes]. intros c0 n0 k0 t0 HI. apply in_remove_d in HI. eapply PO; eauto.
Qed.

(* --- well-formed histories --- *)
(* an interface event is acceptable: the ifindex is not 0 and not held by ANOTHER name; the same name may show up under
   a new ifindex without its deletion having been reported only on code with fix C (c_fixC), where the state recorded
   for the old ifindex is forgotten too (on the pinned code that breaks the view: c17_refresh_refuted_C) *)
Definition ev_ok (cfg : config) (s : st) (name : string) (idx : N) (state : ifstate) : Prop :=
  state = IfNP \/
  (idx <> 0 /\ (forall n, n <> name -> lookup String.eqb (s_n2i s) n <> Some idx) /\
   (lookup String.eqb (s_n2i s) name = None \/ lookup String.eqb (s_n2i s) name = Some idx \/ c_fixC cfg = true)).

(* `ok` = it is known that a full resync is pending or that the tracker and the interface view are in sync *)
Definition op_ok (cfg : config) (ok : bool) (s : st) (e : env) (o : op) : Prop :=
  match o with
  | OSetRoutes c n ts => forall k t, In (k, t) ts -> target_ok cfg n t
  | ORouteUpdate c n k t => target_ok cfg n t
  | OIface n idx state => ev_ok cfg s n idx state
  | ESetLink _ _ | EDelLink _ => wfl (e_links (env_step o e))
  | OApply p => ok = true /\ plan_honest p = true
  | EFlush _ | EAddRoute _ _ | EDelRoute _ => False
  | _ => True
  end.

Definition ok_after (ok : bool) (s : st) (o : op) : bool :=
  match o with
  | OIface _ _ _ | ESetLink _ _ | EDelLink _ => ok && s_full s
  | OQueueResync | OApply _ => true
  | _ => ok
  end.

Fixpoint hist_ok (cfg : config) (ok : bool) (ops : list op) (se : st * env) : Prop :=
  match ops with
  | [] => True
  | o :: ops' => op_ok cfg ok (fst se) (snd se) o /\
                 hist_ok cfg (ok_after ok (fst se) o) ops' (let '(s', e', _) := step cfg o se in (s', e'))
  end.

Fixpoint ok_end (cfg : config) (ok : bool) (ops : list op) (se : st * env) : bool :=
  match ops with
  | [] => ok
  | o :: ops' => ok_end cfg (ok_after ok (fst se) o) ops' (let '(s', e', _) := step cfg o se in (s', e'))
  end.

Definition HI (cfg : config) (ok : bool) (s : st) (e : env) : Prop :=
  B_inv cfg s e /\ (ok = true -> s_full s = true \/ J cfg e s).

Lemma J_env : forall cfg e e' s, e_links e' = e_links e -> e_routes e' = e_routes e -> J cfg e s -> J cfg e' s.
Proof.
  intros cfg e e' s L R HJ. constructor; try apply HJ.
  - intros k r H. unfold tbl. rewrite R. apply (j_sub _ _ _ HJ); auto.
  - intros k r T O. unfold tbl in T. rewrite R in T. eapply (j_own _ _ _ HJ); eauto.
  - eapply VM_links; eauto. apply HJ.
Qed.

Lemma HI_lists : forall cfg ok e s s', HI cfg ok s e ->
  s_n2i s' = s_n2i s -> s_i2n s' = s_i2n s -> s_istate s' = s_istate s -> s_dp s' = s_dp s -> s_full s' = s_full s ->
  I1 cfg s' -> pol_ok cfg s' -> HI cfg ok s' e.
Proof.
  intros cfg ok e s s' [HB HS] A B C D F HI' HP. split; [eapply B_inv_lists; eauto|].
  intros X. destruct (HS X) as [SY|SY]; [left; congruence|right; eapply view_lists_J; eauto].
Qed.

Lemma step_HI : forall cfg ok o s e, c_fixB cfg = true ->
  op_ok cfg ok s e o -> HI cfg ok s e ->
  let '(s', e', _) := step cfg o (s, e) in HI cfg (ok_after ok s o) s' e'.
Proof.
  intros cfg ok o s e FB OK [HB HS]. pose proof HB as [WF ND PO [KA KB]].
  destruct o; cbn [step op_ok ok_after] in *; try contradiction.
  - destruct (set_routes_proj cfg c name ts s) as [A [B [C [D F]]]].
    apply (HI_lists cfg ok e s); auto; [split; auto|apply set_routes_I1; auto|apply set_routes_pol; auto].
  - destruct (route_update_proj cfg c name k t s) as [A [B [C [D F]]]].
    apply (HI_lists cfg ok e s); auto; [split; auto|apply route_update_I1; auto|apply route_update_pol; auto].
  - destruct (route_remove_proj cfg c name k s) as [A [B [C [D F]]]].
    apply (HI_lists cfg ok e s); auto; [split; auto|apply route_remove_I1; auto|apply route_remove_pol; auto].
  - (* interface event *)
    assert (KI cfg (on_iface cfg (e_now e) name idx state s)) as K'.
    { destruct OK as [->|[NZ [W1 W2]]]; [apply np_KI; split; auto|].
      assert (forall st', st' <> IfNP -> KI cfg (on_iface cfg (e_now e) name idx st' s)) as UD.
      { intros st' NS. destruct W2 as [W2|[W2|W2]]; [apply ud_KI; auto; split; auto|apply ud_KI; auto; split; auto|].
        destruct (lookup String.eqb (s_n2i s) name) as [old|] eqn:EO; [|apply ud_KI; auto; split; auto].
        destruct (N.eq_dec old idx) as [->|NE]; [apply ud_KI; auto; split; auto|].
        eapply renum_KI; eauto. split; auto. }
      destruct state; [apply UD; discriminate | apply UD; discriminate | apply np_KI; split; auto]. }
    split.
    + constructor; auto. unfold pol_ok. rewrite on_iface_routes. exact PO.
    + intros X. apply andb_true_iff in X. destruct X as [_ X]. left. rewrite on_iface_full. exact X.
  - (* QueueResync *)
    split; [|left; reflexivity].
    apply (B_inv_lists cfg e s); auto. apply (I1_eq cfg s); auto.
  - (* QueueResyncIface *)
    apply (HI_lists cfg ok e s); auto; [split; auto|apply (I1_eq cfg s); auto].
  - (* Apply *)
    destruct OK as [-> PH].
    assert (S_inv cfg s e) as SI by (apply S_inv_split; split; auto).
    destruct (apply cfg p s e) as [[err s'] e'] eqn:A.
    destruct (apply_inv _ _ _ _ _ _ _ PH FB SI A) as [SI' _].
    apply S_inv_split in SI'. destruct SI' as [HB' HS']. split; auto.
  - split; [constructor; auto; cbn; auto; split; auto|].
    intros X. apply andb_true_iff in X. destruct X as [_ X]. left. exact X.
  - split; [constructor; auto; cbn; auto; split; auto|].
    intros X. apply andb_true_iff in X. destruct X as [_ X]. left. exact X.
  - split; [constructor; auto; cbn; auto; split; auto|].
    intros X. destruct (HS X) as [SY|SY]; [left; auto|right; apply (J_env cfg e); auto].
Qed.

Lemma hist_HI : forall cfg ops ok s e, c_fixB cfg = true ->
  hist_ok cfg ok ops (s, e) -> HI cfg ok s e ->
  HI cfg (ok_end cfg ok ops (s, e)) (fst (run_st cfg ops (s, e))) (snd (run_st cfg ops (s, e))).
Proof.
  induction ops as [|o ops IH]; intros ok s e FB HO H; cbn [run_st ok_end hist_ok fst snd] in *; auto.
  destruct HO as [O1 O2].
  pose proof (step_HI cfg ok o s e FB O1 H) as P.
  destruct (step cfg o (s, e)) as [[s' e'] ob]. apply IH; auto.
Qed.

Lemma HI_start : forall cfg e0, wfl (e_links e0) -> NoDup (keys (e_routes e0)) -> HI cfg true st0 e0.
Proof.
  intros cfg e0 WF ND. split; [|left; reflexivity].
  constructor; auto.
  - intros c n k t [].
  - split; [|apply I1_st0]. repeat split; intros; simpl in *; try discriminate.
Qed.

(* c17_any_history: start of day over ANY kernel (a finite map, links well-formed), then any well-formed history --
   desired-route calls for routes the policy recognises, interface events, link changes, clock steps, resync requests,
   Applies under any honest failure plan, nobody else touching Felix's routes meanwhile -- then an Apply that reports
   success (and is known to start with a resync pending or in sync: ok_end) leaves the kernel converged:
   every desired route present exactly, every stale route of ours gone (modulo grace), every foreign route and every
   other table untouched; the desired routes are the class-priority winners for the kernel's own links. *)
Lemma any_history : forall cfg e0 ops p s' e',
  c_fixB cfg = true -> wfl (e_links e0) -> NoDup (keys (e_routes e0)) ->
  hist_ok cfg true ops (st0, e0) -> ok_end cfg true ops (st0, e0) = true -> plan_honest p = true ->
  let s := fst (run_st cfg ops (st0, e0)) in
  let e := snd (run_st cfg ops (st0, e0)) in
  apply cfg p s e = (false, s', e') ->
  ConvStale cfg s' e' /\ Fgn cfg e s' e' /\
  (forall k, lookup rkey_eqb (s_desired s') k = winner cfg s' k) /\ VM cfg s' e'.
Proof.
  intros cfg e0 ops p s' e' FB WF ND HO OE PH s e A.
  destruct (hist_HI cfg ops true st0 e0 FB HO (HI_start cfg e0 WF ND)) as [HB HS].
  rewrite OE in HS. fold s e in HB, HS.
  assert (S_inv cfg s e) as SI by (apply S_inv_split; split; auto).
  destruct (apply_inv _ _ _ _ _ _ _ PH FB SI A) as [_ [_ [_ G]]].
  destruct (G eq_refl) as [CS [FG HJ]]. split; auto. split; auto. split; [apply (j_i1 _ _ _ HJ)|apply (j_vm _ _ _ HJ)].
Qed.

(* every Apply from a synchronised (or resync-pending) state, in the form used by Props *)
Lemma every_apply : forall cfg p s e s' e',
  plan_honest p = true -> c_fixB cfg = true -> S_inv cfg s e ->
  apply cfg p s e = (false, s', e') ->
  ConvStale cfg s' e' /\ Fgn cfg e s' e' /\ S_inv cfg s' e'.
Proof.
  intros cfg p s e s' e' PH FB SI A. destruct (apply_inv _ _ _ _ _ _ _ PH FB SI A) as [SI' [_ [_ G]]].
  destruct (G eq_refl) as [CS [FG _]]. auto.
Qed.

Lemma every_apply_keeps_inv : forall cfg p s e err s' e',
  plan_honest p = true -> c_fixB cfg = true -> S_inv cfg s e ->
  apply cfg p s e = (err, s', e') -> S_inv cfg s' e'.
Proof. intros cfg p s e err s' e' PH FB SI A. destruct (apply_inv _ _ _ _ _ _ _ PH FB SI A) as [SI' _]. exact SI'. Qed.

(* the clauses separately, for Props *)
Lemma every_apply_stale_removed : forall cfg p s e s' e',
  plan_honest p = true -> c_fixB cfg = true -> S_inv cfg s e -> apply cfg p s e = (false, s', e') ->
  forall k r, lookup rkey_eqb (s_desired s') k = None -> tbl cfg e' k = Some r ->
       kroute_is_ours cfg s' r = true -> in_grace cfg (e_now e') s' (kr_ifx r) = true.
Proof. intros cfg p s e s' e' PH FB SI A. destruct (every_apply _ _ _ _ _ _ PH FB SI A) as [[_ X] _]. exact X. Qed.

Lemma every_apply_converges : forall cfg p s e s' e',
  plan_honest p = true -> c_fixB cfg = true -> S_inv cfg s e -> apply cfg p s e = (false, s', e') ->
  forall k d, lookup rkey_eqb (s_desired s') k = Some d -> tbl cfg e' k = Some d.
Proof. intros cfg p s e s' e' PH FB SI A. destruct (every_apply _ _ _ _ _ _ PH FB SI A) as [[X _] _]. exact X. Qed.

Lemma every_apply_foreign_untouched : forall cfg p s e s' e',
  plan_honest p = true -> c_fixB cfg = true -> S_inv cfg s e -> apply cfg p s e = (false, s', e') ->
  forall kk r, lookup kkey_eqb (e_routes e) kk = Some r ->
       (fst kk <> c_table cfg \/ (kroute_is_ours cfg s' r = false /\ lookup rkey_eqb (s_desired s') (snd kk) = None)) ->
       lookup kkey_eqb (e_routes e') kk = Some r.
Proof. intros cfg p s e s' e' PH FB SI A. destruct (every_apply _ _ _ _ _ _ PH FB SI A) as [_ [X _]]. exact X. Qed.

Lemma S_inv_start : forall cfg e0, wfl (e_links e0) -> NoDup (keys (e_routes e0)) -> S_inv cfg st0 e0.
Proof. intros cfg e0 WF ND. apply S_inv_split. destruct (HI_start cfg e0 WF ND) as [A B]. split; auto. Qed.

Lemma history_keeps_invariant : forall cfg e0 ops, c_fixB cfg = true -> wfl (e_links e0) -> NoDup (keys (e_routes e0)) ->
  hist_ok cfg true ops (st0, e0) ->
  B_inv cfg (fst (run_st cfg ops (st0, e0))) (snd (run_st cfg ops (st0, e0))) /\
  (ok_end cfg true ops (st0, e0) = true -> S_inv cfg (fst (run_st cfg ops (st0, e0))) (snd (run_st cfg ops (st0, e0)))).
Proof.
  intros cfg e0 ops FB WF ND HO. destruct (hist_HI cfg ops true st0 e0 FB HO (HI_start cfg e0 WF ND)) as [HB HS].
  split; auto. intros X. apply S_inv_split. split; auto.
Qed.
