(* C17 — c17_converges at full strength: from ANY state with the full resync pending, over ANY kernel (a finite map),
   under ANY failure plan, an Apply that reports success leaves every desired route in the kernel, whichever attempt
   succeeded and whatever kind of resync it ran. *)
From Coq Require Import List NArith Bool String Lia.
From Verif.C17 Require Import Model Spec Proofs ProofsAttempt ProofsWinner ProofsApply ProofsEvery ProofsSound.
Import ListNotations.
Open Scope N_scope.
Arguments set : simpl never.

Lemma recalc_full : forall cfg k s, s_full (recalc cfg k s) = s_full s.
Proof. intros. unfold recalc. destruct (winner cfg s k); reflexivity. Qed.

Lemma recalc_all_full : forall cfg ks s, s_full (recalc_all cfg ks s) = s_full s.
Proof. unfold recalc_all. induction ks as [|k ks IH]; intros s; simpl; auto. rewrite IH. apply recalc_full. Qed.

Lemma on_iface_seen_full : forall now idx s, s_full (on_iface_seen now idx s) = s_full s.
Proof.
  intros. Transparent on_iface_seen. unfold on_iface_seen. Opaque on_iface_seen.
  destruct (idx <=? 1); auto. destruct (lookup N.eqb (s_grace s) idx); auto.
Qed.

Lemma on_iface_full : forall cfg now name idx state s, s_full (on_iface cfg now name idx state s) = s_full s.
Proof.
  intros. unfold on_iface. destruct (negb (iface_is_ours (c_pol cfg) name)); auto.
  rewrite recalc_all_full. destruct state; cbn; rewrite ?on_iface_seen_full; reflexivity.
Qed.

Lemma fold_full : forall {A} (f : st -> A -> st) (l : list A) s,
  (forall s a, s_full (f s a) = s_full s) -> s_full (fold_left f l s) = s_full s.
Proof. induction l as [|a l IH]; intros s H; simpl; auto. rewrite IH; auto. Qed.

Lemma refresh_all_full : forall cfg now links s, s_full (refresh_all cfg now links s) = s_full s.
Proof.
  intros. unfold refresh_all.
  rewrite fold_full.
  2:{ intros s0 a. destruct (mem String.eqb a (map fst links)); auto.
      destruct (lookup String.eqb (s_n2i s0) a); auto. apply on_iface_full. }
  rewrite fold_full.
  2:{ intros s0 [name l]. destruct (ifstate_eqb (link_state l) (state_of s0 (l_idx l))); auto. apply on_iface_full. }
  rewrite fold_full; auto.
  intros s0 [name l].
  match goal with |- s_full (match lookup N.eqb (s_i2n ?s1) _ with _ => _ end) = _ => assert (s_full s1 = s_full s0) as E1 end.
  { destruct (lookup String.eqb (s_n2i s0) name); auto. destruct (N.eqb n (l_idx l)); auto. apply on_iface_full. }
  match goal with |- s_full (match ?X with _ => _ end) = _ => destruct X end; auto.
  destruct (String.eqb s1 name); auto. rewrite on_iface_full. auto.
Qed.

Lemma do_full_resync_failed_full : forall cfg p w w', plan_simple p = true -> do_full_resync cfg p w = (true, w') -> s_full (w_st w') = s_full (w_st w).
Proof.
  intros cfg p w w' PS H. unfold do_full_resync in H.
  destruct (nl_call p NLinkList w) as [f w1] eqn:E1. apply nl_call_frame in E1. destruct E1 as [A1 A2].
  destruct f.
  { injection H as <-. rewrite A1. auto. }
  remember (refresh_all cfg (e_now (w_env w)) (e_links (w_env w1)) (w_st w1)) as s1.
  rewrite (full_list_simple cfg p _ PS) in H.
  destruct (list_retry p NRouteListAll 5 (wst w1 s1)) as [failed w2] eqn:E2.
  apply list_retry_frame in E2. simpl in E2. destruct E2 as [B1 B2].
  destruct failed.
  - injection H as <-. rewrite B1, Heqs1, refresh_all_full, A1. auto.
  - destruct (absorb cfg (e_now (w_env w)) true (table_routes cfg (w_env w2)) (w_st w2)) as [s2 seen]. discriminate.
Qed.

(* an attempt with the full resync pending either completes the resync (tracker sound from then on) or leaves it pending *)
Lemma attempt_full_sub : forall cfg p w b w',
  plan_simple p = true ->
  NoDup (keys (e_routes (w_env w))) -> s_full (w_st w) = true ->
  attempt cfg p w = (b, w') ->
  (Sub cfg (w_st w') (w_env w') \/ s_full (w_st w') = true) /\
  (b = false -> s_rescan (w_st w') = [] -> forall k d, desk w' k = Some d -> dpk w' k = Some d /\ tbl cfg (w_env w') k = Some d).
Proof.
  intros cfg p w b w' PS ND FULL H. unfold attempt in H.
  destruct (handle p w) as [ok w1] eqn:Eh. apply handle_frame in Eh. destruct Eh as [H1 H2].
  destruct ok; simpl in H.
  2:{ injection H as <- <-. simpl. rewrite H1. split; [right; auto|discriminate]. }
  rewrite H1, FULL in H.
  destruct (do_full_resync cfg p w1) as [e1 w2] eqn:Ef.
  destruct e1.
  { injection H as <- <-. simpl. apply do_full_resync_failed_full in Ef; [|exact PS]. split; [right; congruence|discriminate]. }
  assert (Sub cfg (w_st w2) (w_env w2)) as S2.
  { apply full_resync_ok in Ef; [|exact PS|rewrite H2; auto]. destruct Ef as [_ [_ [_ [X _]]]]. exact X. }
  destruct (apply_updates cfg p w2) as [e2 w3] eqn:Ea.
  pose proof (apply_updates_sub _ _ _ _ _ Ea S2) as S3.
  destruct e2; injection H as <- <-; simpl.
  - split; [left; auto|discriminate].
  - destruct (cleanup_grace_frame cfg (e_now (w_env w3)) (w_st w3)) as [CD [_ [CR CP]]].
    assert (Sub cfg (cleanup_grace cfg (e_now (w_env w3)) (w_st w3)) (w_env w3)) as S4 by (unfold Sub; rewrite CP; exact S3).
    split; [left; exact S4|].
    intros _ RS k d Hd. unfold desk, dpk in *. cbn [w_st wst] in *. rewrite CD in Hd. rewrite CR in RS.
    pose proof (apply_updates_desired_in_dp _ _ _ _ Ea RS k d Hd) as X.
    split; [rewrite CP; exact X|]. apply S3. exact X.
Qed.

Lemma apply_converges_full : forall cfg p s e s' e',
  plan_simple p = true ->
  NoDup (keys (e_routes e)) -> s_full s = true ->
  apply cfg p s e = (false, s', e') ->
  forall k d, lookup rkey_eqb (s_desired s') k = Some d -> tbl cfg e' k = Some d.
Proof.
  intros cfg p s e s' e' PS ND FULL H. unfold apply in H.
  set (w0 := {| w_st := s; w_env := e; w_cnt := []; w_cached := s_cached s; w_reopen := s_reopen s |}) in *.
  destruct (attempt cfg p w0) as [err0 w1] eqn:A0.
  destruct (attempt_full_sub cfg p w0 err0 w1 PS ND FULL A0) as [D0 G0].
  pose proof (proj2 (attempt_other _ _ _ _ _ PS A0) ND) as ND1.
  destruct (err0 || negb (match s_rescan (w_st w1) with [] => true | _ => false end)) eqn:C.
  - destruct (attempt cfg p w1) as [err1 w2] eqn:A1.
    destruct (s_rescan (w_st w2)) eqn:R2; [|discriminate].
    injection H as -> <- <-.
    destruct D0 as [S1|F1].
    + destruct (attempt_sub cfg p w1 false w2 PS ND1 A1 S1) as [S2 G2].
      intros k d Hd. apply S2. apply (G2 eq_refl R2 k d). exact Hd.
    + destruct (attempt_full_sub cfg p w1 false w2 PS ND1 F1 A1) as [_ G1].
      intros k d Hd. apply (G1 eq_refl R2 k d). exact Hd.
  - apply orb_false_iff in C. destruct C as [-> C].
    destruct (s_rescan (w_st w1)) eqn:R1; [|discriminate].
    injection H as <- <-.
    intros k d Hd. apply (G0 eq_refl eq_refl k d). exact Hd.
Qed.
