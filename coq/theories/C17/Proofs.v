(* C17 — lemmas about the model. *)
From Coq Require Import List NArith Bool String Lia.
From Verif.C17 Require Import Model Spec.
Import ListNotations.
Open Scope N_scope.

(* ---------- association maps ---------- *)
Section AMapFacts.
  Context {K V : Type} (keq : K -> K -> bool).
  Hypothesis keq_spec : forall a b, keq a b = true <-> a = b.

  Lemma keq_refl : forall a, keq a a = true.
  Proof. intros. apply keq_spec. reflexivity. Qed.

  Lemma keq_neq : forall a b, a <> b -> keq a b = false.
  Proof. intros a b H. destruct (keq a b) eqn:E; auto. apply keq_spec in E. contradiction. Qed.

  Lemma lookup_remove_eq : forall (m : list (K * V)) k, lookup keq (remove keq m k) k = None.
  Proof.
    induction m as [|[k' v] m IH]; intros; simpl; auto.
    destruct (keq k k') eqn:E; simpl; auto. rewrite E. auto.
  Qed.

  Lemma lookup_remove_neq : forall (m : list (K * V)) k k', k <> k' -> lookup keq (remove keq m k) k' = lookup keq m k'.
  Proof.
    induction m as [|[k0 v] m IH]; intros; simpl; auto.
    destruct (keq k k0) eqn:E.
    - apply keq_spec in E. subst. rewrite (keq_neq k' k0) by congruence. auto.
    - simpl. destruct (keq k' k0); auto.
  Qed.

  Lemma lookup_set_eq : forall (m : list (K * V)) k v, lookup keq (set keq m k v) k = Some v.
  Proof. intros. unfold set. simpl. rewrite keq_refl. auto. Qed.

  Lemma lookup_set_neq : forall (m : list (K * V)) k k' v, k <> k' -> lookup keq (set keq m k v) k' = lookup keq m k'.
  Proof. intros. unfold set. simpl. rewrite (keq_neq k' k) by congruence. apply lookup_remove_neq; auto. Qed.
End AMapFacts.

Lemma rkey_eqb_spec : forall a b : rkey, rkey_eqb a b = true <-> a = b.
Proof.
  intros [a1 a2] [b1 b2]. unfold rkey_eqb. simpl. rewrite andb_true_iff, !N.eqb_eq.
  split; [intros [-> ->]; auto | intros H; inversion H; auto].
Qed.

Lemma kkey_eqb_spec : forall a b : kkey, kkey_eqb a b = true <-> a = b.
Proof.
  intros [a1 a2] [b1 b2]. unfold kkey_eqb. simpl. rewrite andb_true_iff, N.eqb_eq, rkey_eqb_spec.
  split; [intros [-> ->]; auto | intros H; inversion H; auto].
Qed.

Lemma string_eqb_spec : forall a b : string, String.eqb a b = true <-> a = b.
Proof. intros. apply String.eqb_eq. Qed.

Lemma N_eqb_spec : forall a b : N, N.eqb a b = true <-> a = b.
Proof. intros. apply N.eqb_eq. Qed.

(* ---------- recalculateDesiredKernelRoute ---------- *)
Lemma recalc_desired_at : forall cfg k s, lookup rkey_eqb (s_desired (recalc cfg k s)) k = winner cfg s k.
Proof.
  intros. unfold recalc. destruct (winner cfg s k) eqn:W; simpl.
  - apply (lookup_set_eq rkey_eqb rkey_eqb_spec).
  - apply (lookup_remove_eq rkey_eqb).
Qed.

Lemma recalc_desired_other : forall cfg k k' s, k <> k' ->
  lookup rkey_eqb (s_desired (recalc cfg k s)) k' = lookup rkey_eqb (s_desired s) k'.
Proof.
  intros. unfold recalc. destruct (winner cfg s k) eqn:W; simpl.
  - apply (lookup_set_neq rkey_eqb rkey_eqb_spec); auto.
  - apply (lookup_remove_neq rkey_eqb rkey_eqb_spec); auto.
Qed.

Lemma recalc_sets_winner : forall cfg k s,
  lookup rkey_eqb (s_desired (recalc cfg k s)) k = winner cfg s k
  /\ forall k', k <> k' -> lookup rkey_eqb (s_desired (recalc cfg k s)) k' = lookup rkey_eqb (s_desired s) k'.
Proof. intros; split; [apply recalc_desired_at | intros; apply recalc_desired_other; auto]. Qed.

(* ================================================================================================
   Convergence of one attemptApply that performs the full resync.
   ================================================================================================ *)

Lemma kroute_eqb_spec : forall a b, kroute_eqb a b = true <-> a = b.
Proof.
  intros [a1 a2 a3 a4 a5 a6 a7 a8] [b1 b2 b3 b4 b5 b6 b7 b8]. unfold kroute_eqb. simpl.
  rewrite !andb_true_iff, !N.eqb_eq, Bool.eqb_true_iff.
  split.
  - intros [[[[[[[-> ->] ->] ->] ->] ->] ->] ->]. reflexivity.
  - intros H. inversion H. subst. repeat split; reflexivity.
Qed.

Definition tbl (cfg : config) (e : env) (k : rkey) : option kroute := lookup kkey_eqb (e_routes e) (c_table cfg, k).

(* things that only depend on a few fields of the state *)
Lemma ours_ext : forall cfg s s' r, s_i2n s = s_i2n s' -> kroute_is_ours cfg s r = kroute_is_ours cfg s' r.
Proof. intros. unfold kroute_is_ours. rewrite H. reflexivity. Qed.

Lemma in_grace_ext : forall cfg now s s' idx, s_grace s = s_grace s' -> s_i2n s = s_i2n s' ->
  in_grace cfg now s idx = in_grace cfg now s' idx.
Proof. intros. unfold in_grace, name_for_idx. rewrite H, H0. reflexivity. Qed.

Arguments set : simpl never.
Arguments nl_call : simpl never.
Arguments handle : simpl never.
Arguments filter_error : simpl never.
Arguments planned : simpl never.
Arguments in_grace : simpl never.
Arguments kroute_is_ours : simpl never.

(* ---------- netlink plumbing never touches the state proper or the kernel ---------- *)
Lemma nl_call_frame : forall p op w f w', nl_call p op w = (f, w') -> w_st w' = w_st w /\ w_env w' = w_env w.
Proof. unfold nl_call. intros. inversion H. simpl. auto. Qed.

(* plans without "partial dump, then somebody else changes the kernel, then EINTR" items *)
Definition plan_simple (p : plan) : bool :=
  forallb (fun e : nlop * N * fkind => match snd e with FEintrP _ _ => false | _ => true end) p.

Lemma nl_call_simple : forall p op w ks m w', plan_simple p = true -> nl_call p op w = (Some (FEintrP ks m), w') -> False.
Proof.
  unfold nl_call, planned. intros p op w ks m w' PS H. injection H as H _.
  match type of H with (match ?L with _ => _ end) = _ => destruct L as [|e l] eqn:EL end; [discriminate|].
  injection H as H.
  assert (In e p) as HI.
  { assert (In e (e :: l)) as X by (left; auto). rewrite <- EL in X. apply filter_In in X. tauto. }
  unfold plan_simple in PS. rewrite forallb_forall in PS. specialize (PS e HI). rewrite H in PS. discriminate.
Qed.
Opaque nl_call.

Lemma full_list_simple : forall cfg p now, plan_simple p = true ->
  forall fuel w, full_list cfg p now fuel w = list_retry p NRouteListAll fuel w.
Proof.
  intros cfg p now PS. induction fuel as [|fuel IH]; intros w; cbn [full_list list_retry]; auto.
  destruct (nl_call p NRouteListAll w) as [f w1] eqn:E.
  destruct f as [[| | |ks m]|]; auto.
  exfalso. eapply nl_call_simple; eauto.
Qed.

Lemma handle_frame : forall p w b w', handle p w = (b, w') -> w_st w' = w_st w /\ w_env w' = w_env w.
Proof.
  unfold handle. intros p w b w' H.
  destruct (if w_reopen w && w_cached w then false else w_cached w).
  - inversion H. simpl. auto.
  - destruct (nl_call p NConn (wconn w false false)) as [f w1] eqn:E.
    apply nl_call_frame in E. simpl in E. destruct E as [E1 E2].
    destruct f; inversion H; subst; simpl; auto.
Qed.
Opaque handle.

Lemma list_retry_frame : forall p op fuel w b w', list_retry p op fuel w = (b, w') -> w_st w' = w_st w /\ w_env w' = w_env w.
Proof.
  induction fuel; simpl; intros.
  - inversion H. auto.
  - destruct (nl_call p op w) as [f w1] eqn:E. apply nl_call_frame in E. destruct E as [E1 E2].
    destruct f as [[| | |ks m]|].
    + inversion H; subst; split; assumption.
    + apply IHfuel in H. destruct H as [H1 H2]. rewrite H1, H2. split; assumption.
    + inversion H; subst; split; assumption.
    + inversion H; subst; split; assumption.
    + inversion H; subst; split; assumption.
Qed.

Lemma filter_error_frame : forall p name w fe w', filter_error p name w = (fe, w') -> w_st w' = w_st w /\ w_env w' = w_env w.
Proof.
  unfold filter_error. intros p name w fe w' H.
  destruct (String.eqb name NoOIF). { inversion H; auto. }
  destruct (handle p w) as [ok w1] eqn:E1. apply handle_frame in E1. destruct E1 as [A1 A2].
  destruct ok; simpl in H.
  2:{ inversion H; subst; auto. }
  destruct (nl_call p (NLinkByName name) w1) as [f w2] eqn:E2. apply nl_call_frame in E2. destruct E2 as [B1 B2].
  assert (w_st w2 = w_st w /\ w_env w2 = w_env w) as G by (rewrite B1, B2; auto).
  destruct f as [[| | |ks m]|]; try (inversion H; subst; exact G).
  destruct (lookup String.eqb (e_links (w_env w2)) name) as [l|]; [destruct (l_up l)|]; inversion H; subst; exact G.
Qed.
Opaque filter_error.

(* ---------- one step of the deletion pass / the update pass of applyUpdates ---------- *)
Lemma del_step_cases : forall cfg p err w k err' w',
  del_step cfg p (err, w) k = (err', w') ->
  (w_st w' = w_st w /\ w_env w' = w_env w /\ err' = err /\
     (forall r, lookup rkey_eqb (s_dp (w_st w)) k = Some r -> lookup rkey_eqb (s_desired (w_st w)) k = None ->
                in_grace cfg (e_now (w_env w)) (w_st w) (kr_ifx r) = true))
  \/ (w_st w' = w_st w /\ w_env w' = w_env w /\ err' = true)
  \/ (exists r, lookup rkey_eqb (s_dp (w_st w)) k = Some r /\ lookup rkey_eqb (s_desired (w_st w)) k = None /\
        w_st w' = upd_dp (w_st w) (remove rkey_eqb (s_dp (w_st w)) k) /\
        w_env w' = env_del_route (w_env w) (c_table cfg, k) /\ err' = err).
Proof.
  intros cfg p err w k err' w' H. unfold del_step in H.
  destruct (lookup rkey_eqb (s_dp (w_st w)) k) as [r|] eqn:Edp.
  2:{ injection H as <- <-. left. repeat split; auto. intros; discriminate. }
  destruct (lookup rkey_eqb (s_desired (w_st w)) k) as [d|] eqn:Edes.
  { injection H as <- <-. left. repeat split; auto. intros; discriminate. }
  destruct (in_grace cfg (e_now (w_env w)) (w_st w) (kr_ifx r)) eqn:Eg.
  { injection H as <- <-. left. repeat split; auto. intros r0 Hr _. inversion Hr; subst; auto. }
  destruct (nl_call p (NDel k) w) as [f w1] eqn:Ec. apply nl_call_frame in Ec. destruct Ec as [C1 C2].
  destruct f.
  - injection H as <- <-. right; left. auto.
  - injection H as <- <-. right; right. exists r. simpl. rewrite C1, C2. auto.
Qed.

Lemma upd_step_cases : forall cfg p err w k err' w',
  upd_step cfg p (err, w) k = (err', w') ->
  (w_st w' = w_st w /\ w_env w' = w_env w /\ err' = err /\
     (forall d, lookup rkey_eqb (s_desired (w_st w)) k = Some d -> lookup rkey_eqb (s_dp (w_st w)) k = Some d))
  \/ (w_st w' = w_st w /\ w_env w' = w_env w /\ err' = true)
  \/ (exists name, w_st w' = upd_rescan (w_st w) (sadd String.eqb name (s_rescan (w_st w))) /\ w_env w' = w_env w /\ err' = err)
  \/ (exists d, lookup rkey_eqb (s_desired (w_st w)) k = Some d /\
        w_st w' = upd_dp (w_st w) (set rkey_eqb (s_dp (w_st w)) k d) /\
        w_env w' = env_set_route (w_env w) (c_table cfg, k) d /\ err' = err).
Proof.
  intros cfg p err w k err' w' H. unfold upd_step in H.
  destruct (lookup rkey_eqb (s_desired (w_st w)) k) as [d|] eqn:Edes.
  2:{ injection H as <- <-. left. repeat split; auto. intros; discriminate. }
  destruct (negb match lookup rkey_eqb (s_dp (w_st w)) k with Some r => negb (kroute_eqb r d) | None => true end) eqn:Epend.
  { injection H as <- <-. left. repeat split; auto. intros d0 Hd. inversion Hd; subst.
    destruct (lookup rkey_eqb (s_dp (w_st w)) k) as [r|]; simpl in Epend; try discriminate.
    rewrite negb_involutive in Epend. apply kroute_eqb_spec in Epend. subst. reflexivity. }
  destruct (nl_call p (NReplace k) w) as [f w1] eqn:Ec. apply nl_call_frame in Ec. destruct Ec as [C1 C2].
  destruct f as [fk|].
  2:{ injection H as <- <-. right; right; right. exists d. simpl. rewrite C1, C2. auto. }
  destruct (name_for_idx (w_st w1) (kr_ifx d)) as [name|].
  2:{ injection H as <- <-. right; left. auto. }
  assert (forall fe w2, (fe, w2) = match fk with
                                   | FNotFound => if String.eqb name NoOIF then (EDefault, w1) else (EIfaceNotPresent, w1)
                                   | _ => filter_error p name w1
                                   end -> w_st w2 = w_st w /\ w_env w2 = w_env w) as FR.
  { intros fe w2 E. destruct fk.
    - symmetry in E. apply filter_error_frame in E. destruct E as [E1 E2]. rewrite E1, E2. auto.
    - symmetry in E. apply filter_error_frame in E. destruct E as [E1 E2]. rewrite E1, E2. auto.
    - destruct (String.eqb name NoOIF); injection E as -> ->; auto.
    - symmetry in E. apply filter_error_frame in E. destruct E as [E1 E2]. rewrite E1, E2. auto. }
  destruct (match fk with
            | FNotFound => if String.eqb name NoOIF then (EDefault, w1) else (EIfaceNotPresent, w1)
            | _ => filter_error p name w1
            end) as [fe w2] eqn:E2.
  destruct (FR fe w2 eq_refl) as [F1 F2].
  destruct fe; injection H as <- <-.
  - right; left. auto.
  - right; right; left. exists name. simpl. rewrite F1, F2. auto.
  - right; right; left. exists name. simpl. rewrite F1, F2. auto.
  - right; left. auto.
Qed.

(* ---------- the kernel table under single-route writes ---------- *)
Lemma tbl_del_eq : forall cfg e k, tbl cfg (env_del_route e (c_table cfg, k)) k = None.
Proof. intros. unfold tbl, env_del_route. simpl. apply lookup_remove_eq. Qed.

Lemma tbl_del_neq : forall cfg e k k', k <> k' -> tbl cfg (env_del_route e (c_table cfg, k)) k' = tbl cfg e k'.
Proof. intros. unfold tbl, env_del_route. simpl. apply (lookup_remove_neq kkey_eqb kkey_eqb_spec). congruence. Qed.

Lemma tbl_set_eq : forall cfg e k d, tbl cfg (env_set_route e (c_table cfg, k) d) k = Some d.
Proof. intros. unfold tbl, env_set_route. simpl. apply (lookup_set_eq kkey_eqb kkey_eqb_spec). Qed.

Lemma tbl_set_neq : forall cfg e k k' d, k <> k' -> tbl cfg (env_set_route e (c_table cfg, k) d) k' = tbl cfg e k'.
Proof. intros. unfold tbl, env_set_route. simpl. apply (lookup_set_neq kkey_eqb kkey_eqb_spec). congruence. Qed.

Lemma other_del : forall cfg e k kk, fst kk <> c_table cfg ->
  lookup kkey_eqb (e_routes (env_del_route e (c_table cfg, k))) kk = lookup kkey_eqb (e_routes e) kk.
Proof. intros. unfold env_del_route. simpl. apply (lookup_remove_neq kkey_eqb kkey_eqb_spec). destruct kk; simpl in *; congruence. Qed.

Lemma other_set : forall cfg e k d kk, fst kk <> c_table cfg ->
  lookup kkey_eqb (e_routes (env_set_route e (c_table cfg, k) d)) kk = lookup kkey_eqb (e_routes e) kk.
Proof. intros. unfold env_set_route. simpl. apply (lookup_set_neq kkey_eqb kkey_eqb_spec). destruct kk; simpl in *; congruence. Qed.

Lemma rkey_dec : forall a b : rkey, a = b \/ a <> b.
Proof. intros. destruct (rkey_eqb a b) eqn:E; [left; apply rkey_eqb_spec; auto | right; intro; subst; rewrite (keq_refl rkey_eqb rkey_eqb_spec) in E; discriminate]. Qed.

(* what stays fixed during applyUpdates *)
Record frame (cfg : config) (w0 w : world) : Prop := {
  fr_des : s_desired (w_st w) = s_desired (w_st w0);
  fr_i2n : s_i2n (w_st w) = s_i2n (w_st w0);
  fr_grace : s_grace (w_st w) = s_grace (w_st w0);
  fr_now : e_now (w_env w) = e_now (w_env w0);
  fr_other : forall kk, fst kk <> c_table cfg ->
             lookup kkey_eqb (e_routes (w_env w)) kk = lookup kkey_eqb (e_routes (w_env w0)) kk
}.

Lemma frame_refl : forall cfg w, frame cfg w w.
Proof. intros; constructor; auto. Qed.

Lemma frame_trans : forall cfg a b c, frame cfg a b -> frame cfg b c -> frame cfg a c.
Proof.
  intros cfg a b c [A1 A2 A3 A4 A5] [B1 B2 B3 B4 B5]. constructor; try congruence.
  intros. rewrite B5, A5; auto.
Qed.

Definition dpk (w : world) (k : rkey) := lookup rkey_eqb (s_dp (w_st w)) k.
Definition desk (w : world) (k : rkey) := lookup rkey_eqb (s_desired (w_st w)) k.

(* --- deletion pass --- *)
Definition del_rel (cfg : config) (w0 w : world) : Prop :=
  frame cfg w0 w /\ s_rescan (w_st w) = s_rescan (w_st w0) /\
  forall k, (dpk w k = dpk w0 k /\ tbl cfg (w_env w) k = tbl cfg (w_env w0) k)
            \/ (dpk w k = None /\ tbl cfg (w_env w) k = None /\ exists r, dpk w0 k = Some r /\ desk w0 k = None).

Lemma del_rel_refl : forall cfg w, del_rel cfg w w.
Proof. intros. split; [apply frame_refl|]. split; auto. Qed.

Lemma del_rel_trans : forall cfg a b c, del_rel cfg a b -> del_rel cfg b c -> del_rel cfg a c.
Proof.
  intros cfg a b c [F1 [R1 K1]] [F2 [R2 K2]]. split; [eapply frame_trans; eauto|]. split; [congruence|].
  intros k. destruct (K2 k) as [[D2 T2]|[D2 [T2 [r [X2 Y2]]]]]; destruct (K1 k) as [[D1 T1]|[D1 [T1 [r1 [X1 Y1]]]]].
  - left. split; congruence.
  - right. repeat split; try congruence. exists r1; auto.
  - right. repeat split; auto. exists r. split; [congruence|]. unfold desk in *. rewrite <- (fr_des _ _ _ F1). auto.
  - right. repeat split; auto. exists r1; auto.
Qed.

Lemma del_step_rel : forall cfg p err w k err' w',
  del_step cfg p (err, w) k = (err', w') -> del_rel cfg w w'.
Proof.
  intros cfg p err w k err' w' H. apply del_step_cases in H.
  destruct H as [[S [E _]]|[[S [E _]]|[r [Hdp [Hdes [S [E _]]]]]]].
  - split; [constructor; rewrite ?S, ?E; auto|]. split; [rewrite S; auto|]. intros k0. left. unfold dpk. rewrite S, E. auto.
  - split; [constructor; rewrite ?S, ?E; auto|]. split; [rewrite S; auto|]. intros k0. left. unfold dpk. rewrite S, E. auto.
  - split; [constructor; rewrite ?S, ?E; simpl; auto; intros; apply other_del; auto|]. split; [rewrite S; auto|].
    intros k0. destruct (rkey_dec k k0) as [->|N].
    + right. unfold dpk. rewrite S, E. simpl. rewrite lookup_remove_eq, tbl_del_eq. repeat split; auto. exists r. auto.
    + left. unfold dpk. rewrite S, E. simpl. rewrite (lookup_remove_neq rkey_eqb rkey_eqb_spec) by auto. rewrite tbl_del_neq by auto. auto.
Qed.

Lemma del_step_sticky : forall cfg p w k err' w', del_step cfg p (true, w) k = (err', w') -> err' = true.
Proof.
  intros cfg p w k err' w' H. apply del_step_cases in H.
  destruct H as [[_ [_ [E _]]]|[[_ [_ E]]|[r [_ [_ [_ [_ E]]]]]]]; auto.
Qed.

Lemma del_fold : forall cfg p ks e0 w0 e w,
  fold_left (del_step cfg p) ks (e0, w0) = (e, w) ->
  del_rel cfg w0 w /\ (e0 = true -> e = true) /\
  (e = false -> forall k, In k ks -> forall r, dpk w k = Some r -> desk w0 k = None ->
                in_grace cfg (e_now (w_env w0)) (w_st w0) (kr_ifx r) = true).
Proof.
  induction ks as [|k ks IH]; intros e0 w0 e w H; cbn [fold_left] in H.
  - injection H as <- <-. split; [apply del_rel_refl|]. split; [auto|]. intros _ k [].
  - destruct (del_step cfg p (e0, w0) k) as [e1 w1] eqn:S1.
    destruct (IH _ _ _ _ H) as [R [ST G]].
    pose proof (del_step_rel _ _ _ _ _ _ _ S1) as R1.
    split; [eapply del_rel_trans; eauto|]. split.
    + intros ->. apply ST. eapply del_step_sticky; eauto.
    + intros Ef k0 [<-|Hin] r Hr Hd.
      * (* the key handled by this step *)
        destruct R as [_ [_ RK]].
        assert (dpk w1 k = Some r) as Hr1.
        { destruct (RK k) as [[D _]|[D _]]; congruence. }
        apply del_step_cases in S1.
        destruct S1 as [[S [E [_ GG]]]|[[_ [_ E1]]|[r' [_ [_ [S _]]]]]].
        -- apply GG; auto. unfold dpk in Hr1. rewrite S in Hr1. auto.
        -- subst e1. rewrite (ST eq_refl) in Ef. discriminate.
        -- unfold dpk in Hr1. rewrite S in Hr1. simpl in Hr1. rewrite lookup_remove_eq in Hr1. discriminate.
      * destruct R1 as [F1 _].
        rewrite <- (fr_now _ _ _ F1).
        rewrite <- (in_grace_ext cfg _ (w_st w1) (w_st w0)) by (apply F1).
        apply (G Ef k0 Hin r Hr). unfold desk in *. rewrite (fr_des _ _ _ F1). auto.
Qed.

(* --- update pass --- *)
Lemma sadd_nonempty : forall {A} (eq : A -> A -> bool) x l, sadd eq x l <> [].
Proof. intros. unfold sadd. destruct (mem eq x l) eqn:E; [|discriminate]. destruct l; [simpl in E; discriminate|discriminate]. Qed.

Definition upd_rel (cfg : config) (w0 w : world) : Prop :=
  frame cfg w0 w /\ (s_rescan (w_st w0) <> [] -> s_rescan (w_st w) <> []) /\
  forall k, (dpk w k = dpk w0 k /\ tbl cfg (w_env w) k = tbl cfg (w_env w0) k)
            \/ (exists d, desk w0 k = Some d /\ dpk w k = Some d /\ tbl cfg (w_env w) k = Some d).

Lemma upd_rel_refl : forall cfg w, upd_rel cfg w w.
Proof. intros. split; [apply frame_refl|]. split; auto. Qed.

Lemma upd_rel_trans : forall cfg a b c, upd_rel cfg a b -> upd_rel cfg b c -> upd_rel cfg a c.
Proof.
  intros cfg a b c [F1 [R1 K1]] [F2 [R2 K2]]. split; [eapply frame_trans; eauto|]. split; [auto|].
  intros k. destruct (K2 k) as [[D2 T2]|[d [X2 [Y2 Z2]]]].
  - destruct (K1 k) as [[D1 T1]|[d [X1 [Y1 Z1]]]].
    + left. split; congruence.
    + right. exists d. repeat split; congruence.
  - right. exists d. repeat split; auto. unfold desk in *. rewrite <- (fr_des _ _ _ F1). auto.
Qed.

Lemma upd_step_rel : forall cfg p err w k err' w',
  upd_step cfg p (err, w) k = (err', w') -> upd_rel cfg w w'.
Proof.
  intros cfg p err w k err' w' H. apply upd_step_cases in H.
  destruct H as [[S [E _]]|[[S [E _]]|[[name [S [E _]]]|[d [Hdes [S [E _]]]]]]].
  - split; [constructor; rewrite ?S, ?E; auto|]. split; [rewrite S; auto|]. intros k0. left. unfold dpk. rewrite S, E. auto.
  - split; [constructor; rewrite ?S, ?E; auto|]. split; [rewrite S; auto|]. intros k0. left. unfold dpk. rewrite S, E. auto.
  - split; [constructor; rewrite ?S, ?E; simpl; auto|]. split; [rewrite S; simpl; intros _; apply sadd_nonempty|].
    intros k0. left. unfold dpk. rewrite S, E. auto.
  - split; [constructor; rewrite ?S, ?E; simpl; auto; intros; apply other_set; auto|]. split; [rewrite S; auto|].
    intros k0. destruct (rkey_dec k k0) as [->|N].
    + right. exists d. unfold dpk. rewrite S, E. cbn [s_dp upd_dp].
      rewrite (lookup_set_eq rkey_eqb rkey_eqb_spec), tbl_set_eq. auto.
    + left. unfold dpk. rewrite S, E. cbn [s_dp upd_dp]. rewrite (lookup_set_neq rkey_eqb rkey_eqb_spec) by auto. rewrite tbl_set_neq by auto. auto.
Qed.

Lemma upd_step_sticky : forall cfg p w k err' w', upd_step cfg p (true, w) k = (err', w') -> err' = true.
Proof.
  intros cfg p w k err' w' H. apply upd_step_cases in H.
  destruct H as [[_ [_ [E _]]]|[[_ [_ E]]|[[name [_ [_ E]]]|[d [_ [_ [_ E]]]]]]]; auto.
Qed.

Lemma upd_fold : forall cfg p ks e0 w0 e w,
  fold_left (upd_step cfg p) ks (e0, w0) = (e, w) ->
  upd_rel cfg w0 w /\ (e0 = true -> e = true) /\
  (e = false -> s_rescan (w_st w) = [] -> forall k, In k ks -> forall d, desk w0 k = Some d -> dpk w k = Some d).
Proof.
  induction ks as [|k ks IH]; intros e0 w0 e w H; cbn [fold_left] in H.
  - injection H as <- <-. split; [apply upd_rel_refl|]. split; [auto|]. intros _ _ k [].
  - destruct (upd_step cfg p (e0, w0) k) as [e1 w1] eqn:S1.
    destruct (IH _ _ _ _ H) as [R [ST G]].
    pose proof (upd_step_rel _ _ _ _ _ _ _ S1) as R1.
    split; [eapply upd_rel_trans; eauto|]. split.
    + intros ->. apply ST. eapply upd_step_sticky; eauto.
    + intros Ef Er k0 [<-|Hin] d Hd.
      * destruct R as [F [RM RK]].
        assert (desk w1 k = Some d) as Hd1.
        { destruct R1 as [F1 _]. unfold desk in *. rewrite (fr_des _ _ _ F1). auto. }
        assert (dpk w1 k = Some d -> dpk w k = Some d) as KEEP.
        { intros X. destruct (RK k) as [[D _]|[d' [X' [Y' _]]]]; congruence. }
        apply upd_step_cases in S1.
        destruct S1 as [[S [E [_ GG]]]|[[_ [_ E1]]|[[name [S _]]|[d' [Hd' [S _]]]]]].
        -- apply KEEP. unfold dpk. rewrite S. apply GG. auto.
        -- subst e1. rewrite (ST eq_refl) in Ef. discriminate.
        -- exfalso. apply RM; auto. rewrite S. simpl. apply sadd_nonempty.
        -- apply KEEP. unfold dpk. rewrite S. cbn [s_dp upd_dp]. unfold desk in Hd. rewrite Hd in Hd'. injection Hd' as <-.
           apply (lookup_set_eq rkey_eqb rkey_eqb_spec).
      * destruct R1 as [F1 _]. apply (G Ef Er k0 Hin d). unfold desk in *. rewrite (fr_des _ _ _ F1). auto.
Qed.
