(* C17 — lemmas about the model. *)
From Coq Require Import List NArith Bool String Lia.
From Verif.C17 Require Import Model Spec.
Import ListNotations.
Open Scope N_scope.

(* ---------- association maps ---------- *)
Section AMapFacts.
  Context {K V : Type} (keq : K -> K -> bool).
  Hypothesis keq_spec : forall a b, keq a b = true <-> a = b.

  Lemma keq_refl : forall a, keq a a = true.
  Proof. intros. apply keq_spec. reflexivity. Qed.

  Lemma keq_neq : forall a b, a <> b -> keq a b = false.
  Proof. intros a b H. destruct (keq a b) eqn:E; auto. apply keq_spec in E. contradiction. Qed.

  Lemma lookup_remove_eq : forall (m : list (K * V)) k, lookup keq (remove keq m k) k = None.
  Proof.
    induction m as [|[k' v] m IH]; intros; simpl; auto.
    destruct (keq k k') eqn:E; simpl; auto. rewrite E. auto.
  Qed.

  Lemma lookup_remove_neq : forall (m : list (K * V)) k k', k <> k' -> lookup keq (remove keq m k) k' = lookup keq m k'.
  Proof.
    induction m as [|[k0 v] m IH]; intros; simpl; auto.
    destruct (keq k k0) eqn:E.
    - apply keq_spec in E. subst. rewrite (keq_neq k' k0) by congruence. auto.
    - simpl. destruct (keq k' k0); auto.
  Qed.

  Lemma lookup_set_eq : forall (m : list (K * V)) k v, lookup keq (set keq m k v) k = Some v.
  Proof. intros. unfold set. simpl. rewrite keq_refl. auto. Qed.

  Lemma lookup_set_neq : forall (m : list (K * V)) k k' v, k <> k' -> lookup keq (set keq m k v) k' = lookup keq m k'.
  Proof. intros. unfold set. simpl. rewrite (keq_neq k' k) by congruence. apply lookup_remove_neq; auto. Qed.
End AMapFacts.

Lemma rkey_eqb_spec : forall a b : rkey, rkey_eqb a b = true <-> a = b.
Proof.
  intros [a1 a2] [b1 b2]. unfold rkey_eqb. simpl. rewrite andb_true_iff, !N.eqb_eq.
  split; [intros [-> ->]; auto | intros H; inversion H; auto].
Qed.

Lemma kkey_eqb_spec : forall a b : kkey, kkey_eqb a b = true <-> a = b.
Proof.
  intros [a1 a2] [b1 b2]. unfold kkey_eqb. simpl. rewrite andb_true_iff, N.eqb_eq, rkey_eqb_spec.
  split; [intros [-> ->]; auto | intros H; inversion H; auto].
Qed.

Lemma string_eqb_spec : forall a b : string, String.eqb a b = true <-> a = b.
Proof. intros. apply String.eqb_eq. Qed.

Lemma N_eqb_spec : forall a b : N, N.eqb a b = true <-> a = b.
Proof. intros. apply N.eqb_eq. Qed.

(* ---------- recalculateDesiredKernelRoute ---------- *)
Lemma recalc_desired_at : forall cfg k s, lookup rkey_eqb (s_desired (recalc cfg k s)) k = winner cfg s k.
Proof.
  intros. unfold recalc. destruct (winner cfg s k) eqn:W; simpl.
  - apply (lookup_set_eq rkey_eqb rkey_eqb_spec).
  - apply (lookup_remove_eq rkey_eqb).
Qed.

Lemma recalc_desired_other : forall cfg k k' s, k <> k' ->
  lookup rkey_eqb (s_desired (recalc cfg k s)) k' = lookup rkey_eqb (s_desired s) k'.
Proof.
  intros. unfold recalc. destruct (winner cfg s k) eqn:W; simpl.
  - apply (lookup_set_neq rkey_eqb rkey_eqb_spec); auto.
  - apply (lookup_remove_neq rkey_eqb rkey_eqb_spec); auto.
Qed.

Lemma recalc_sets_winner : forall cfg k s,
  lookup rkey_eqb (s_desired (recalc cfg k s)) k = winner cfg s k
  /\ forall k', k <> k' -> lookup rkey_eqb (s_desired (recalc cfg k s)) k' = lookup rkey_eqb (s_desired s) k'.
Proof. intros; split; [apply recalc_desired_at | intros; apply recalc_desired_other; auto]. Qed.
