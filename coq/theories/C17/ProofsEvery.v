(* C17 — facts about EVERY Apply (any outcome): other tables are never touched, the kernel table stays a finite map;
   and the link between the specification's fold of the desired routes and the model's ifaceToRoutes. *)
From Coq Require Import List NArith Bool String Lia.
From Verif.C17 Require Import Model Spec Proofs ProofsAttempt ProofsWinner ProofsApply.
Import ListNotations.
Open Scope N_scope.
Arguments set : simpl never.

Lemma resync_iface_env : forall cfg p name w b w', resync_iface cfg p name w = (b, w') -> w_env w' = w_env w.
Proof.
  intros cfg p name w b w' H. unfold resync_iface in H.
  destruct (nl_call p (NLinkByName name) w) as [f w1] eqn:E1. apply nl_call_frame in E1. destruct E1 as [_ A2].
  match type of H with (match ?R with Some _ => _ | None => _ end) = _ => destruct R as [w2|] eqn:ER end.
  2:{ injection H as <- <-. simpl. auto. }
  assert (w_env w2 = w_env w) as B2.
  { destruct f as [[| | |ks0 m0]|]; try discriminate.
    - injection ER as <-. simpl. auto.
    - destruct (lookup String.eqb (e_links (w_env w1)) name); injection ER as <-; simpl; auto. }
  destruct (idx_for_name (w_st w2) name) as [idx|].
  2:{ injection H as <- <-. auto. }
  destruct (list_retry p (NRouteListIf idx) 5 w2) as [failed w3] eqn:E3.
  apply list_retry_frame in E3. destruct E3 as [_ C2].
  destruct failed.
  - destruct (filter_error p name w3) as [fe w4] eqn:E4. apply filter_error_frame in E4. destruct E4 as [_ D2].
    destruct fe; injection H as <- <-; simpl; congruence.
  - destruct (absorb cfg (e_now (w_env w)) false _ (w_st w3)) as [s4 seen].
    injection H as <- <-. simpl. congruence.
Qed.

Lemma resync_ifaces_env : forall cfg p w, w_env (resync_ifaces cfg p w) = w_env w.
Proof.
  intros cfg p w. unfold resync_ifaces.
  generalize (s_rescan (w_st w)) as names. intros names. revert w.
  induction names as [|n names IH]; intros w; cbn [fold_left]; auto.
  rewrite IH.
  destruct (negb (mem String.eqb n (s_rescan (w_st w)))); auto.
  destruct (resync_iface cfg p n w) as [err w1] eqn:E. apply resync_iface_env in E.
  destruct err; simpl; auto.
Qed.

Definition same_other_tables (cfg : config) (e e' : env) : Prop :=
  forall kk, fst kk <> c_table cfg -> lookup kkey_eqb (e_routes e') kk = lookup kkey_eqb (e_routes e) kk.

Lemma apply_updates_other : forall cfg p w b w', apply_updates cfg p w = (b, w') -> same_other_tables cfg (w_env w) (w_env w').
Proof.
  intros cfg p w b w' H kk Hk. unfold apply_updates in H.
  destruct (handle p w) as [ok w1] eqn:Eh. apply handle_frame in Eh. destruct Eh as [_ H2].
  destruct ok; simpl in H.
  2:{ injection H as <- <-. rewrite H2. auto. }
  destruct (fold_left (del_step cfg p) (keys (s_dp (w_st w1))) (false, w1)) as [e1 w2] eqn:Ed.
  cbn [snd] in H.
  destruct (upd_fold _ _ _ _ _ _ _ H) as [[UF _] _]. destruct (del_fold _ _ _ _ _ _ _ Ed) as [[DF _] _].
  rewrite (fr_other _ _ _ UF), (fr_other _ _ _ DF), H2; auto.
Qed.

Lemma attempt_other : forall cfg p w b w', plan_simple p = true -> attempt cfg p w = (b, w') ->
  same_other_tables cfg (w_env w) (w_env w') /\
  (NoDup (keys (e_routes (w_env w))) -> NoDup (keys (e_routes (w_env w')))).
Proof.
  intros cfg p w b w' PS H. unfold attempt in H.
  destruct (handle p w) as [ok w1] eqn:Eh. apply handle_frame in Eh. destruct Eh as [_ H2].
  destruct ok; simpl in H.
  2:{ injection H as <- <-. simpl. rewrite H2. split; auto. intros kk _. auto. }
  assert (exists e1 w2, (if s_full (w_st w1) then do_full_resync cfg p w1 else (false, resync_ifaces cfg p w1)) = (e1, w2)
                        /\ w_env w2 = w_env w) as [e1 [w2 [E R]]].
  { destruct (s_full (w_st w1)).
    - destruct (do_full_resync cfg p w1) as [e1 w2] eqn:Ef. exists e1, w2. split; auto.
      apply do_full_resync_env in Ef; [|exact PS]. congruence.
    - exists false, (resync_ifaces cfg p w1). split; auto. rewrite resync_ifaces_env. auto. }
  rewrite E in H.
  destruct e1.
  { injection H as <- <-. simpl. rewrite R. split; auto. intros kk _. auto. }
  destruct (apply_updates cfg p w2) as [e2 w3] eqn:Ea.
  pose proof (apply_updates_other _ _ _ _ _ Ea) as O. pose proof (apply_updates_nodup _ _ _ _ _ Ea) as N.
  rewrite R in O, N.
  destruct e2; injection H as <- <-; simpl; split; auto.
Qed.

Lemma apply_other_tables : forall cfg p s e err s' e', plan_simple p = true -> apply cfg p s e = (err, s', e') ->
  same_other_tables cfg e e' /\ (NoDup (keys (e_routes e)) -> NoDup (keys (e_routes e'))).
Proof.
  intros cfg p s e err s' e' PS H. unfold apply in H.
  set (w0 := {| w_st := s; w_env := e; w_cnt := []; w_cached := s_cached s; w_reopen := s_reopen s |}) in *.
  destruct (attempt cfg p w0) as [err0 w1] eqn:A0. apply attempt_other in A0; [|exact PS]. destruct A0 as [O0 N0].
  destruct (err0 || negb (match s_rescan (w_st w1) with [] => true | _ => false end)).
  - destruct (attempt cfg p w1) as [err1 w2] eqn:A1. apply attempt_other in A1; [|exact PS]. destruct A1 as [O1 N1].
    injection H as _ _ <-. split; [|auto].
    intros kk Hk. rewrite O1, O0; auto.
  - injection H as _ _ <-. split; auto.
Qed.

(* histories whose Applies have no "partial dump + concurrent outside change" items *)
Definition plans_simple (ops : list op) : bool :=
  forallb (fun o => match o with OApply p => plan_simple p | _ => true end) ops.

(* every kernel reachable by a history from a finite map is a finite map *)
Lemma run_st_nodup : forall cfg ops s e, plans_simple ops = true -> NoDup (keys (e_routes e)) -> NoDup (keys (e_routes (snd (run_st cfg ops (s, e))))).
Proof.
  induction ops as [|o ops IH]; intros s e PSS ND; cbn [run_st]; auto.
  cbn [plans_simple forallb] in PSS. apply andb_true_iff in PSS. destruct PSS as [PS PSS].
  destruct (step cfg o (s, e)) as [[s' e'] ob] eqn:E. apply IH; [exact PSS|].
  pose proof (env_step_nodup o e ND) as EN.
  destruct o; cbn [step] in E; try (injection E as <- <- <-; first [exact ND | exact EN]; fail).
  destruct (apply cfg p s e) as [[err s1] e1] eqn:A. injection E as <- <- <-.
  apply apply_other_tables in A; [|exact PS]. destruct A as [_ N]. auto.
Qed.

(* the specification's fold of the desired routes is, literally, the model's ifaceToRoutes *)
Lemma remove_absent : forall (m : list (dkey * target)) k, lookup dkey_eqb m k = None -> remove dkey_eqb m k = m.
Proof.
  induction m as [|[k0 v0] m IH]; simpl; intros k H; auto.
  destruct (dkey_eqb k k0); [discriminate|]. rewrite IH; auto.
Qed.

Lemma recalc_routes : forall cfg k s, s_routes (recalc cfg k s) = s_routes s.
Proof. intros. unfold recalc. destruct (winner cfg s k); reflexivity. Qed.

Lemma step_routes : forall cfg o s e, s_routes (fst (fst (step cfg o (s, e)))) = D_step cfg o (s_routes s) \/ (exists p, o = OApply p).
Proof.
  intros cfg o s e. destruct o; cbn [step fst D_step]; try (left; reflexivity); try (right; eauto; fail).
  - left. unfold set_routes. destruct (negb (iface_is_ours (c_pol cfg) name)); auto.
    match goal with |- s_routes (recalc_all cfg ?ks ?s2) = _ => destruct (recalc_all_ifmaps cfg ks s2) as [_ B]; rewrite B end. reflexivity.
  - left. unfold route_update. destruct (negb (iface_is_ours (c_pol cfg) name)); auto. rewrite recalc_routes. reflexivity.
  - left. unfold route_remove. destruct (negb (iface_is_ours (c_pol cfg) name)); auto.
    destruct (lookup dkey_eqb (s_routes s) (c, name, k)) eqn:L; [rewrite recalc_routes; reflexivity|].
    rewrite remove_absent; auto.
  - left. unfold on_iface. destruct (negb (iface_is_ours (c_pol cfg) name)); auto.
    match goal with |- s_routes (recalc_all cfg ?ks ?s2) = _ => destruct (recalc_all_ifmaps cfg ks s2) as [_ B]; rewrite B end.
    destruct (on_iface_seen_all (e_now e) idx s) as [O1 _]. destruct state; cbn; rewrite ?O1; reflexivity.
Qed.

Lemma apply_other_tables_untouched : forall cfg p s e err s' e', plan_simple p = true -> apply cfg p s e = (err, s', e') ->
  forall kk, fst kk <> c_table cfg -> lookup kkey_eqb (e_routes e') kk = lookup kkey_eqb (e_routes e) kk.
Proof. intros cfg p s e err s' e' PS H. destruct (apply_other_tables _ _ _ _ _ _ _ PS H) as [O _]. exact O. Qed.

Lemma reachable_kernel_is_a_map : forall cfg ops, plans_simple ops = true -> NoDup (keys (e_routes (snd (run_st cfg ops (st0, env0))))).
Proof. intros. apply run_st_nodup; auto. simpl. constructor. Qed.
