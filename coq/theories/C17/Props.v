(* C17 — property theorems only.  Each is closed by `exact <lemma>` and followed by Print Assumptions.

   Reading guide.  `apply cfg p s e` is RouteTable.Apply() on state s over kernel e with netlink failure plan p
   (any subset of calls failing, any way); `tbl cfg e k` is the kernel route for destination key k in Felix's
   table; `s_desired s` is the tracker's desired side; `winner cfg s k` is the conflict-resolution result over
   the per-class desired routes and the interface view; `kroute_is_ours` is the ownership policy applied to a
   kernel route; `in_grace` is the route-cleanup grace period of a recently seen workload interface.
   `plan_simple p` excludes one kind of fault from the theorems about Apply: a whole-table dump that yields part of the
   routes, is then overtaken by SOMEBODY ELSE changing the kernel, and fails with EINTR (FEintrP).  With such a fault the
   kernel changes in the middle of the Apply, so statements relating the kernel before and after the Apply do not apply
   as written; that fault class is covered by the model/oracle correspondence run only (the model records the partial
   dump in the tracker and clears seenKeys on retry).  All other faults (errors and EINTR on every netlink call, at any
   call, in any combination) are included. *)
From Coq Require Import List NArith Bool String Permutation.
From Verif.C17 Require Import Model Spec Proofs ProofsAttempt ProofsWinner ProofsApply ProofsEvery ProofsSound ProofsFull
  ProofsView ProofsRefresh ProofsSync ProofsHistory ProofsOvertaken ProofsChurn ProofsOracle.
Import ListNotations.
Open Scope N_scope.

(* ------------------------------------------------------------------------------------------------
   Conflict resolution.
   ------------------------------------------------------------------------------------------------ *)

(* recalculateDesiredKernelRoute(k) leaves exactly the winner as the desired route of k and touches no other key. *)
Theorem c17_recalc_sets_winner : forall cfg k s,
  lookup rkey_eqb (s_desired (recalc cfg k s)) k = winner cfg s k
  /\ forall k', k <> k' -> lookup rkey_eqb (s_desired (recalc cfg k s)) k' = lookup rkey_eqb (s_desired s) k'.
Proof. exact recalc_sets_winner. Qed.
Print Assumptions c17_recalc_sets_winner.

(* The winner of a destination is a desired route of the numerically lowest class among those whose interface
   is known and up (ties inside a class: highest ifindex); there is no winner iff no desired route is usable. *)
Theorem c17_conflict_by_class_priority : forall cfg s k r, winner cfg s k = Some r ->
  exists c n t idx, In ((c, n, k), t) (s_routes s) /\ usable s n idx /\ r = render cfg t idx /\
    forall c' n' t' idx', In ((c', n', k), t') (s_routes s) -> usable s n' idx' -> c < c' \/ (c = c' /\ idx' <= idx).
Proof. exact winner_by_class_priority. Qed.
Print Assumptions c17_conflict_by_class_priority.

Theorem c17_no_winner_iff_nothing_usable : forall cfg s k, winner cfg s k = None <->
  forall c n t idx, In ((c, n, k), t) (s_routes s) -> ~ usable s n idx.
Proof. exact winner_none. Qed.
Print Assumptions c17_no_winner_iff_nothing_usable.

(* ... and it does not depend on the order in which the desired routes are stored or visited (Go map order). *)
Theorem c17_winner_order_independent : forall cfg s s' k,
  Permutation (s_routes s) (s_routes s') -> s_n2i s = s_n2i s' -> s_istate s = s_istate s' ->
  NoDup (keys (s_routes s)) -> wf_ifaces s ->
  winner cfg s k = winner cfg s' k.
Proof. exact winner_order_independent. Qed.
Print Assumptions c17_winner_order_independent.

(* For EVERY history of SetRoutes / RouteUpdate / RouteRemove / OnIfaceStateChanged / QueueResync(Iface) calls and
   outside-world events, in any order (interface events must not hand an ifindex still held by another name to a new
   name: the interface monitor reports the deletion first), the desired side of the tracker is, for every destination,
   exactly the winner computed from the CURRENT per-class routes and interface view: no hysteresis, no dependence on
   the order in which the classes' updates arrived. *)
Theorem c17_desired_tracks_winner : forall cfg ops e,
  wf_hist cfg ops (st0, e) ->
  forall k, lookup rkey_eqb (s_desired (fst (run_st cfg ops (st0, e)))) k = winner cfg (fst (run_st cfg ops (st0, e))) k.
Proof. exact desired_tracks_winner_from_start. Qed.
Print Assumptions c17_desired_tracks_winner.

(* ------------------------------------------------------------------------------------------------
   Convergence of Apply.  From ANY RouteTable state (s_full = a full resync is pending, as at start of day and after
   QueueResync), ANY kernel contents that form a finite map, and ANY netlink failure plan: if Apply() returns nil (and, for
   the second and third clause, the attempt that produced the result is one that ran the full resync), then
     - every desired route is in the kernel exactly                                        (c17_converges)
     - a route of ours with no desired route is gone, unless its interface is in its grace period (c17_stale_removed)
     - routes in other tables, and routes that are not ours at destinations we do not want, are untouched
                                                                                            (c17_foreign_untouched)
   Together with c17_desired_tracks_winner the desired routes are the class-priority winners.
   What is NOT covered for stale removal / foreign routes BY THESE THREE (they speak about arbitrary, even unreachable,
   states; the reachable-state theorems c17_stale_removed / c17_foreign_untouched / c17_any_history further down cover
   every successful Apply): the Apply whose first
   attempt completes the full resync, fails later, and whose inline retry (per-interface resync only) succeeds; and
   Applies with no full resync pending (for those, c17_desired_present_after_any_successful_apply gives the first clause).
   For those the statement is FALSE of the pinned code (c17_any_history_refuted_A, _B), and holds on every generated
   history once the two fixes/C17 patches are applied (correspondence run on the patched tree; c17_fixed_model_witnesses). *)
(* c17_converges holds at full strength: no condition on which attempt succeeded or what kind of resync it ran *)
Theorem c17_converges : forall cfg p s e s' e',
  plan_simple p = true ->
  NoDup (keys (e_routes e)) -> s_full s = true ->
  apply cfg p s e = (false, s', e') ->
  forall k d, lookup rkey_eqb (s_desired s') k = Some d -> tbl cfg e' k = Some d.
Proof. exact apply_converges_full. Qed.
Print Assumptions c17_converges.

(* Convergence, stale removal and foreign-untouched for a single attemptApply with the full resync pending, from ANY state
   whatsoever (even states no history reaches: inconsistent interface maps, arbitrary tracker contents), any kernel, any
   plan_simple failure plan.  This is a complete statement about one attempt; for whole Applies (inline retry included)
   from the states histories do reach, see c17_every_apply_converges / c17_stale_removed / c17_foreign_untouched below,
   which replace the earlier *_any_state_partial theorems. *)
Theorem c17_full_resync_attempt_from_any_state : forall cfg p w w',
  plan_simple p = true ->
  NoDup (keys (e_routes (w_env w))) ->
  s_full (w_st w) = true ->
  attempt cfg p w = (false, w') ->
  s_rescan (w_st w') = [] ->
  (forall k d, lookup rkey_eqb (s_desired (w_st w')) k = Some d -> tbl cfg (w_env w') k = Some d) /\
  (forall k r, lookup rkey_eqb (s_desired (w_st w')) k = None -> tbl cfg (w_env w') k = Some r ->
       kroute_is_ours cfg (w_st w') r = true -> in_grace cfg (e_now (w_env w')) (w_st w') (kr_ifx r) = true) /\
  (forall kk r, lookup kkey_eqb (e_routes (w_env w)) kk = Some r ->
       (fst kk <> c_table cfg \/
        (kroute_is_ours cfg (w_st w') r = false /\ lookup rkey_eqb (s_desired (w_st w')) (snd kk) = None)) ->
       lookup kkey_eqb (e_routes (w_env w')) kk = Some r).
Proof. exact full_attempt_converges. Qed.
Print Assumptions c17_full_resync_attempt_from_any_state.

(* Tracker soundness: through every call, interface event, link change, clock step and every Apply with every failure
   plan (success or not), what the tracker believes to be in the kernel is in the kernel, as long as nobody else
   changes the kernel's routes (no EFlush / EAddRoute / EDelRoute). *)
Theorem c17_tracker_sound : forall cfg ops,
  forallb quiet ops = true ->
  Sub cfg (fst (run_st cfg ops (st0, env0))) (snd (run_st cfg ops (st0, env0))).
Proof. exact tracker_sound. Qed.
Print Assumptions c17_tracker_sound.

(* Hence: after EVERY Apply that reports success (full resync or per-interface resync, first attempt or inline retry,
   any failure plan, any such history before it) every desired route is in the kernel exactly.  This is the half of
   convergence that does not need the full resync; it holds of the pinned code. *)
Theorem c17_desired_present_after_any_successful_apply : forall cfg ops p s' e',
  forallb quiet ops = true -> plan_simple p = true ->
  apply cfg p (fst (run_st cfg ops (st0, env0))) (snd (run_st cfg ops (st0, env0))) = (false, s', e') ->
  forall k d, lookup rkey_eqb (s_desired s') k = Some d -> tbl cfg e' k = Some d.
Proof. exact desired_present_after_any_successful_apply. Qed.
Print Assumptions c17_desired_present_after_any_successful_apply.

(* EVERY Apply, whatever its outcome, whatever fails, from any state: routes in other routing tables are untouched. *)
Theorem c17_other_tables_untouched : forall cfg p s e err s' e', plan_simple p = true -> apply cfg p s e = (err, s', e') ->
  forall kk, fst kk <> c_table cfg -> lookup kkey_eqb (e_routes e') kk = lookup kkey_eqb (e_routes e) kk.
Proof. exact apply_other_tables_untouched. Qed.
Print Assumptions c17_other_tables_untouched.

(* the NoDup hypothesis above ("the kernel table is a finite map") holds of every kernel reachable by any history,
   including all Applies with all failure plans *)
Theorem c17_reachable_kernel_is_a_map : forall cfg ops, plans_simple ops = true -> NoDup (keys (e_routes (snd (run_st cfg ops (st0, env0))))).
Proof. exact reachable_kernel_is_a_map. Qed.
Print Assumptions c17_reachable_kernel_is_a_map.

(* the specification's own fold of SetRoutes/RouteUpdate/RouteRemove (Spec.D_step, used by the oracle) is literally the
   model's ifaceToRoutes after every step that is not an Apply (an Apply does not change it either, see recalc) *)
Theorem c17_spec_desired_is_model_routes : forall cfg o s e,
  s_routes (fst (fst (step cfg o (s, e)))) = D_step cfg o (s_routes s) \/ (exists p, o = OApply p).
Proof. exact step_routes. Qed.
Print Assumptions c17_spec_desired_is_model_routes.


(* ================================================================================================
   EVERY successful Apply (code with fixes/C17-iface-resync-keeps-tracking-route-on-other-iface applied: c_fixB).

   `S_inv cfg s e` is the invariant of the RouteTable over kernel e:
     - the kernel's links are well formed (names and ifindexes unique, no ifindex 0) and its routes a finite map,
     - the desired-route inputs are routes the ownership policy recognises (pol_ok),
     - Felix's interface view is internally consistent and desired = class-priority winner of inputs and view (KI),
     - and EITHER a full resync is pending OR the tracker is in sync (J): the tracker's dataplane view is in the kernel
       (Sub), contains only routes of ours (Ours), contains every route of ours in the kernel (Own), and Felix's view of
       the interfaces EQUALS the kernel's links (VM).
   It holds at start of day over ANY kernel (S_inv_start), is kept by every Apply whatever its outcome and by every
   well-formed step of a history (c17_history_keeps_invariant), and is what refreshAllIfaceStates + the full listing
   establish (c17_view_is_links_after_refresh, full_resync_J).  `plan_honest p`: any combination of netlink failures
   except (i) the overtaken dump FEintrP (see c17_converged_although_overtaken) and (ii) LinkByName answering "no such
   interface" for an interface that exists (nothing can be expected of Felix if the kernel lies about that).
   ================================================================================================ *)

(* the three passes of refreshAllIfaceStates: from any internally consistent view to exactly the kernel's links *)
Theorem c17_view_is_links_after_refresh : forall cfg now e s, wfl (e_links e) -> KI cfg s ->
  VM cfg (refresh_all cfg now (e_links e) s) e /\ KI cfg (refresh_all cfg now (e_links e) s).
Proof. exact refresh_all_VM. Qed.
Print Assumptions c17_view_is_links_after_refresh.

(* EVERY successful Apply -- full resync or per-interface resync only, first attempt or inline retry after a failed
   attempt that had already completed the full resync, any honest failure plan -- ... *)
Theorem c17_every_apply_converges : forall cfg p s e s' e',
  plan_honest p = true -> c_fixB cfg = true -> S_inv cfg s e -> apply cfg p s e = (false, s', e') ->
  forall k d, lookup rkey_eqb (s_desired s') k = Some d -> tbl cfg e' k = Some d.
Proof. exact every_apply_converges. Qed.
Print Assumptions c17_every_apply_converges.

Theorem c17_stale_removed : forall cfg p s e s' e',
  plan_honest p = true -> c_fixB cfg = true -> S_inv cfg s e -> apply cfg p s e = (false, s', e') ->
  forall k r, lookup rkey_eqb (s_desired s') k = None -> tbl cfg e' k = Some r ->
       kroute_is_ours cfg s' r = true -> in_grace cfg (e_now e') s' (kr_ifx r) = true.
Proof. exact every_apply_stale_removed. Qed.
Print Assumptions c17_stale_removed.

Theorem c17_foreign_untouched : forall cfg p s e s' e',
  plan_honest p = true -> c_fixB cfg = true -> S_inv cfg s e -> apply cfg p s e = (false, s', e') ->
  forall kk r, lookup kkey_eqb (e_routes e) kk = Some r ->
       (fst kk <> c_table cfg \/ (kroute_is_ours cfg s' r = false /\ lookup rkey_eqb (s_desired s') (snd kk) = None)) ->
       lookup kkey_eqb (e_routes e') kk = Some r.
Proof. exact every_apply_foreign_untouched. Qed.
Print Assumptions c17_foreign_untouched.

(* ... and every Apply, successful or not, keeps the invariant, so the next one is covered too *)
Theorem c17_every_apply_keeps_invariant : forall cfg p s e err s' e',
  plan_honest p = true -> c_fixB cfg = true -> S_inv cfg s e ->
  apply cfg p s e = (err, s', e') -> S_inv cfg s' e'.
Proof. exact every_apply_keeps_inv. Qed.
Print Assumptions c17_every_apply_keeps_invariant.

(* Histories.  hist_ok: SetRoutes/RouteUpdate for routes the policy recognises, RouteRemove, interface events that do not
   hand an ifindex still held by another name to a new name nor renumber a name without the deletion being reported
   first, link changes that keep the links well formed, clock steps, QueueResync / QueueResyncIface, Applies under
   honest plans; nobody else changes Felix's routes after start of day (the starting kernel e0 is arbitrary).  The flag
   `ok` (ok_after / ok_end) records that "resync pending or in sync" is known: interface events and link changes clear
   it unless a full resync is pending at that moment, QueueResync and every Apply set it; an Apply is only allowed
   when it is set.  NOT covered (and not claimed): an Apply after interface churn with no resync request in between. *)
Theorem c17_history_keeps_invariant : forall cfg e0 ops, c_fixB cfg = true -> wfl (e_links e0) -> NoDup (keys (e_routes e0)) ->
  hist_ok cfg true ops (st0, e0) ->
  B_inv cfg (fst (run_st cfg ops (st0, e0))) (snd (run_st cfg ops (st0, e0))) /\
  (ok_end cfg true ops (st0, e0) = true -> S_inv cfg (fst (run_st cfg ops (st0, e0))) (snd (run_st cfg ops (st0, e0)))).
Proof. exact history_keeps_invariant. Qed.
Print Assumptions c17_history_keeps_invariant.

(* c17_any_history, full strength for the histories above: from ANY starting kernel, after any such history, an Apply
   that reports success leaves: every desired route in the kernel exactly; every route of ours without a desired route
   gone (unless its interface is in its grace period); every route that is not ours at a destination Felix does not
   want, and every other table, untouched; the desired routes are the class-priority winners; and Felix's view of the
   interfaces is the kernel's links (so "interfaces up" is the kernel's notion). *)
Theorem c17_any_history : forall cfg e0 ops p s' e',
  c_fixB cfg = true -> wfl (e_links e0) -> NoDup (keys (e_routes e0)) ->
  hist_ok cfg true ops (st0, e0) -> ok_end cfg true ops (st0, e0) = true -> plan_honest p = true ->
  let s := fst (run_st cfg ops (st0, e0)) in
  let e := snd (run_st cfg ops (st0, e0)) in
  apply cfg p s e = (false, s', e') ->
  ConvStale cfg s' e' /\ Fgn cfg e s' e' /\
  (forall k, lookup rkey_eqb (s_desired s') k = winner cfg s' k) /\ VM cfg s' e'.
Proof. exact any_history. Qed.
Print Assumptions c17_any_history.

(* Interface churn WITHOUT a resync request.  As c17_any_history, with a finer flag (known-in-sync, interfaces whose last
   oper-state change is not reported yet): a link that changes its flags but keeps its ifindex (carrier loss / return,
   admin down / up without the device going away) only puts its name on the pending list, the interface monitor's report
   of the CURRENT state of a known interface takes it off again, and an Apply is covered as soon as the list is empty.
   Still outside: links that go away or are renumbered, new links, and the kernel flushing Felix's routes while a
   link is down (an outside route change) -- for those a QueueResync must precede the Apply (c17_any_history); the
   missing lemma is the generalisation of JD_tell / resync_iface_J to a view that differs from the links in names and
   ifindexes (not only oper state) together with a tracker invariant that tolerates the flushed routes until the
   per-interface listing purges them. *)
Theorem c17_any_history_with_flaps : forall cfg e0 ops p s' e',
  c_fixB cfg = true -> wfl (e_links e0) -> NoDup (keys (e_routes e0)) ->
  hist_ok2 cfg (true, []) ops (st0, e0) ->
  let s := fst (run_st cfg ops (st0, e0)) in
  let e := snd (run_st cfg ops (st0, e0)) in
  fst (flag_end cfg (true, []) ops (st0, e0)) = true ->
  (snd (flag_end cfg (true, []) ops (st0, e0)) = [] \/ s_full s = true) ->
  plan_honest p = true ->
  apply cfg p s e = (false, s', e') ->
  ConvStale cfg s' e' /\ Fgn cfg e s' e' /\
  (forall k, lookup rkey_eqb (s_desired s') k = winner cfg s' k) /\ VM cfg s' e'.
Proof. exact any_history_flaps. Qed.
Print Assumptions c17_any_history_with_flaps.

(* Tie to the specification oracle (Spec.v, the thing evaluated on the implementation's observations): in a synchronised
   state that satisfies the conclusions of c17_any_history, the oracle's convergence clause ok_key -- winners of the
   lowest class among the candidates usable according to the KERNEL's links, ownership evaluated on the kernel's links --
   accepts the kernel at every destination (no grace period configured).  So the model-level notion of "converged" is at
   least as strong as the oracle's.  A whole-history model_meets_spec (ok_history accepts every model run, including its
   bookkeeping of outside changes and unreported link changes) is not proved. *)
Theorem c17_oracle_accepts_converged : forall cfg (sp : Spec.sp) s' e' k,
  c_grace cfg = 0 -> wf_links e' -> NoDup (keys (e_links e')) -> lookup String.eqb (e_links e') ""%string = None ->
  J cfg e' s' -> ConvStale cfg s' e' ->
  (forall c n k0 t, In ((c, n, k0), t) (s_routes s') -> c <= 1000 /\ (n = NoOIF \/ iface_is_ours (c_pol cfg) n = true)) ->
  p_D sp = s_routes s' -> e_links (p_env sp) = e_links e' ->
  ok_key cfg sp (e_routes e') k = true.
Proof. exact oracle_accepts_converged. Qed.
Print Assumptions c17_oracle_accepts_converged.

(* The fault excluded by plan_simple / plan_honest, inside a theorem: whole-table dumps that yield part of the routes,
   are overtaken by somebody else changing the kernel (anything, any table) and fail with EINTR, any number of times,
   together with any other failures.  From ANY state with the full resync pending: if Apply reports success and the
   attempt that produced the result ran the full resync (it is the one that runs the retried dump), then with respect
   to the kernel AS CHANGED every desired route is present exactly and every stale route of ours is gone. *)
Theorem c17_converged_although_overtaken : forall cfg p s e s' e',
  NoDup (keys (e_routes e)) -> s_full s = true ->
  last_attempt_full cfg p s e = true ->
  apply cfg p s e = (false, s', e') ->
  ConvStale cfg s' e'.
Proof. exact apply_convstale_gen. Qed.
Print Assumptions c17_converged_although_overtaken.

(* ------------------------------------------------------------------------------------------------
   Findings: the full statement is false of the faithful model of the pinned code.
   ------------------------------------------------------------------------------------------------ *)
Definition cfg_pinned : config := mkcfg (PMain ["cali"%string] true [] [3; 80] [80] false) 254 3 0 0 false false false.
Definition cfg_fixed : config := mkcfg (PMain ["cali"%string] true [] [3; 80] [80] false) 254 3 0 0 true true true.

(* A: interface flaps, both events reported, the per-interface route listing of the next Apply fails:
      Apply() = nil, the flushed route is not restored, nothing is queued. *)
Definition witness_A : list op :=
  [ESetLink "cali1" (mkl 11 true true); OIface "cali1" 11 IfUp;
   ORouteUpdate 0 "cali1" (rk 0 0) (mkt TLinkLocal 0 0 0 0); OApply [];
   ESetLink "cali1" (mkl 11 true false); EFlush 11; OIface "cali1" 11 IfDown;
   ESetLink "cali1" (mkl 11 true true); OIface "cali1" 11 IfUp;
   OApply [pl (NRouteListIf 11) 0 FErr]].

(* B: a destination moves to an interface that has just come up, RouteReplace fails in both attempts, then the
      destination is no longer wanted: Apply() = nil with Felix's old route still in the kernel. *)
Definition witness_B : list op :=
  [ESetLink "eth0" (mkl 31 true true); OIface "eth0" 31 IfUp;
   ORouteUpdate 4 "eth0" (rk 0 0) (mkt TVXLAN 1 0 80 0);
   ORouteUpdate 0 "cali1" (rk 0 0) (mkt TLinkLocal 0 0 0 0); OApply [];
   ESetLink "cali1" (mkl 11 true true); OIface "cali1" 11 IfUp;
   OApply [pl (NReplace (rk 0 0)) 0 FErr; pl (NReplace (rk 0 0)) 1 FErr];
   ORouteRemove 0 "cali1" (rk 0 0); ORouteRemove 4 "eth0" (rk 0 0); OApply []].

Theorem c17_any_history_refuted_A :
  exists ops, let obs := run cfg_pinned ops (st0, env0) in
    ok_history cfg_pinned ops obs = false /\ forallb (fun o => negb (fst o)) obs = true.
Proof. exists witness_A. vm_compute. split; reflexivity. Qed.
Print Assumptions c17_any_history_refuted_A.

Theorem c17_any_history_refuted_B :
  exists ops, let obs := run cfg_pinned ops (st0, env0) in
    ok_history cfg_pinned ops obs = false /\ snd (last obs (true, [(kk 0 0 0, mkr 0 0 0 0 false 0 0 0)])) <> [].
Proof. exists witness_B. vm_compute. split; [reflexivity|discriminate]. Qed.
Print Assumptions c17_any_history_refuted_B.

(* C: the pinned OnIfaceStateChanged keeps the state of the old ifindex when an interface shows up under a new one
      without a reported deletion; an interface that later reuses that ifindex in the same state is never learned, not
      even by a full resync, and its routes are not programmed although Apply() = nil. *)
Definition cfg_AB : config := mkcfg (PMain ["cali"%string] true [] [3; 80] [80] false) 254 3 0 0 true true false.
Definition witness_C : list op :=
  [ESetLink "cali1" (mkl 95 true true); OIface "cali1" 95 IfUp;
   ESetLink "cali1" (mkl 96 true true); EFlush 95; OIface "cali1" 96 IfUp;
   EDelLink "cali1"; EFlush 96; OIface "cali1" 0 IfNP;
   ESetLink "cali2" (mkl 95 true true);
   ORouteUpdate 0 "cali2" (rk 0 0) (mkt TLinkLocal 0 0 0 0); OQueueResync; OApply []].

Theorem c17_refresh_refuted_C :
  exists ops, let obs := run cfg_AB ops (st0, env0) in
    ok_history cfg_AB ops obs = false /\ obs = [(false, [])] /\
    ok_history cfg_fixed ops (run cfg_fixed ops (st0, env0)) = true.
Proof. exists witness_C. vm_compute. repeat split; reflexivity. Qed.
Print Assumptions c17_refresh_refuted_C.

(* with both patches the same histories satisfy the specification oracle *)
Example c17_fixed_model_witnesses :
  ok_history cfg_fixed witness_A (run cfg_fixed witness_A (st0, env0)) = true /\
  ok_history cfg_fixed witness_B (run cfg_fixed witness_B (st0, env0)) = true.
Proof. vm_compute. split; reflexivity. Qed.

(* ------------------------------------------------------------------------------------------------
   Non-vacuity.
   ------------------------------------------------------------------------------------------------ *)
(* a start-of-day Apply over a kernel holding a stale route of ours, a foreign route and a route in another table;
   LinkList fails in the first attempt (so the full resync is still pending for the inline retry) and the retry's
   first route listing is interrupted (EINTR) and repeated: the hypotheses of c17_converges / c17_stale_removed /
   c17_foreign_untouched hold and so do their conclusions, computed. *)
Definition ex_ops : list op :=
  [ESetLink "cali1" (mkl 11 true true); ESetLink "eth0" (mkl 31 true true);
   EAddRoute (kk 254 5 0) (mkr 1 253 0 3 false 0 11 0);      (* stale, ours (workload interface) *)
   EAddRoute (kk 254 6 0) (mkr 1 253 0 4 false 0 31 0);      (* somebody else's *)
   EAddRoute (kk 100 0 0) (mkr 1 253 0 3 false 0 11 0);      (* another table *)
   ORouteUpdate 0 "cali1" (rk 0 0) (mkt TLinkLocal 0 0 0 0);
   ORouteUpdate 4 "eth0" (rk 0 0) (mkt TVXLAN 1 0 80 0)].

Example c17_example_hypotheses_satisfiable :
  let '(s, e) := run_st cfg_pinned ex_ops (st0, env0) in
  let p := [pl NRouteListAll 0 FEintr; pl NLinkList 0 FErr] in
  s_full s = true /\ last_attempt_full cfg_pinned p s e = true /\
  plan_simple p = true /\
  (let '(err, s', e') := apply cfg_pinned p s e in
   err = false /\ tbl cfg_pinned e' (rk 0 0) = Some (mkr 1 253 0 3 false 0 11 0) /\ tbl cfg_pinned e' (rk 5 0) = None /\
   tbl cfg_pinned e' (rk 6 0) = Some (mkr 1 253 0 4 false 0 31 0) /\
   lookup kkey_eqb (e_routes e') (kk 100 0 0) = Some (mkr 1 253 0 3 false 0 11 0)).
Proof. vm_compute. repeat split; reflexivity. Qed.

(* the same two conflicting routes arriving in either order, interface events interleaved: same desired route (the
   class-0 one), and the histories satisfy the well-formedness hypothesis of c17_desired_tracks_winner *)
Definition ex_conflict_1 : list op :=
  [OIface "eth0" 31 IfUp; ORouteUpdate 4 "eth0" (rk 0 0) (mkt TVXLAN 1 0 80 0);
   OIface "cali1" 11 IfUp; ORouteUpdate 0 "cali1" (rk 0 0) (mkt TLinkLocal 0 0 0 0)].
Definition ex_conflict_2 : list op :=
  [OIface "cali1" 11 IfUp; ORouteUpdate 0 "cali1" (rk 0 0) (mkt TLinkLocal 0 0 0 0);
   OIface "eth0" 31 IfUp; ORouteUpdate 4 "eth0" (rk 0 0) (mkt TVXLAN 1 0 80 0)].

Example c17_example_conflict_order :
  lookup rkey_eqb (s_desired (fst (run_st cfg_pinned ex_conflict_1 (st0, env0)))) (rk 0 0) = Some (mkr 1 253 0 3 false 0 11 0) /\
  lookup rkey_eqb (s_desired (fst (run_st cfg_pinned ex_conflict_2 (st0, env0)))) (rk 0 0) = Some (mkr 1 253 0 3 false 0 11 0) /\
  forallb quiet ex_conflict_1 = true.
Proof. vm_compute. repeat split; reflexivity. Qed.

Example c17_example_wf_hist : wf_hist cfg_pinned ex_conflict_1 (st0, env0).
Proof.
  cbn. split; [split; [intro H; discriminate H | intros n _ H; discriminate H]|].
  split; [exact I|]. split; [|split; exact I].
  split; [intro H; discriminate H|]. intros n Hn. rewrite recalc_n2i. cbn.
  unfold set. cbn. destruct (String.eqb n "eth0"); intro H; discriminate H.
Qed.

(* the fault class excluded by plan_simple, on the model: the programmed route is delivered by the whole-table dump, then
   vanishes from the kernel, the dump fails with EINTR and is retried; seenKeys is cleared, so the sweep purges the
   vanished route from the tracker and the same Apply programs it again.  (If seenKeys were not cleared the route would
   stay believed-present and missing: that is what the oracle rejects on an implementation that does so.) *)
Definition witness_vanish : list op :=
  [ESetLink "cali1" (mkl 11 true true); OIface "cali1" 11 IfUp;
   ORouteUpdate 0 "cali1" (rk 0 0) (mkt TLinkLocal 0 0 0 0); OApply []; OQueueResync;
   OApply [pl NRouteListAll 0 (FEintrP [rk 0 0] [(kk 254 0 0, None)])]].

Example c17_example_vanish_mid_dump :
  let obs := run cfg_fixed witness_vanish (st0, env0) in
  ok_history cfg_fixed witness_vanish obs = true /\
  last obs (true, []) = (false, [kr 254 0 0 (mkr 1 253 0 3 false 0 11 0)]) /\
  ok_history cfg_fixed witness_vanish [(false, [kr 254 0 0 (mkr 1 253 0 3 false 0 11 0)]); (false, [])] = false.
Proof. vm_compute. repeat split; reflexivity. Qed.

(* ---- non-vacuity of c17_any_history / c17_stale_removed / c17_foreign_untouched ---- *)
(* start of day over a kernel holding a stale route of ours and a foreign route; link appears and is reported while the
   start-of-day resync is pending; a route is asked for; the first Apply has its RouteReplace fail in attempt 0 AFTER the
   full resync completed, so the per-interface-resync-only inline retry is the attempt that succeeds (case (a)); another
   route is asked for and programmed by an Apply with NO full resync pending (case (b)). *)
Definition e0_ex : env :=
  {| e_links := [("cali1"%string, mkl 11 true true); ("lo"%string, mkl 1 true true)];
     e_routes := [kr 254 5 0 (mkr 1 253 0 3 false 0 11 0); kr 254 6 0 (mkr 1 253 0 4 false 0 1 0); kr 100 0 0 (mkr 1 253 0 3 false 0 11 0)];
     e_now := 0 |}.
Definition hist_ex : list op :=
  [OIface "cali1" 11 IfUp;
   ORouteUpdate 0 "cali1" (rk 0 0) (mkt TLinkLocal 0 0 0 0);
   OApply [pl (NReplace (rk 0 0)) 0 FErr];
   ORouteUpdate 0 "cali1" (rk 1 0) (mkt TLinkLocal 0 0 0 0)].

Example c17_example_history_ok :
  wfl (e_links e0_ex) /\ NoDup (keys (e_routes e0_ex)) /\ hist_ok cfg_fixed true hist_ex (st0, e0_ex) /\
  ok_end cfg_fixed true hist_ex (st0, e0_ex) = true.
Proof.
  split; [|split; [|split]].
  - unfold wfl. cbn. repeat split; try (repeat constructor; cbn; intuition discriminate).
    intros n l [H|[H|[]]]; injection H as <- <-; discriminate.
  - cbn. repeat constructor; cbn; intuition discriminate.
  - cbn [hist_ok hist_ex op_ok fst snd]. split; [|split; [|split; [|split]]]; try exact I.
    + right. split; [discriminate|]. split; [intros n _; cbn; discriminate|left; reflexivity].
    + vm_compute. repeat split; reflexivity.
    + vm_compute. split; reflexivity.
    + vm_compute. repeat split; reflexivity.
  - vm_compute. reflexivity.
Qed.

Example c17_example_every_apply :
  let '(s, e) := run_st cfg_fixed hist_ex (st0, e0_ex) in
  s_full s = false /\
  (let '(err, s', e') := apply cfg_fixed [] s e in
   err = false /\
   tbl cfg_fixed e' (rk 0 0) = Some (mkr 1 253 0 3 false 0 11 0) /\ tbl cfg_fixed e' (rk 1 0) = Some (mkr 1 253 0 3 false 0 11 0) /\
   tbl cfg_fixed e' (rk 5 0) = None /\ tbl cfg_fixed e' (rk 6 0) = Some (mkr 1 253 0 4 false 0 1 0) /\
   lookup kkey_eqb (e_routes e') (kk 100 0 0) = Some (mkr 1 253 0 3 false 0 11 0)).
Proof. vm_compute. repeat split; reflexivity. Qed.

(* the inline retry of the first Apply of hist_ex really is a per-interface-resync-only attempt that succeeds *)
Example c17_example_retry_case :
  let '(s, e) := run_st cfg_fixed [OIface "cali1" 11 IfUp; ORouteUpdate 0 "cali1" (rk 0 0) (mkt TLinkLocal 0 0 0 0)] (st0, e0_ex) in
  let p := [pl (NReplace (rk 0 0)) 0 FErr] in
  last_attempt_full cfg_fixed p s e = false /\ fst (fst (apply cfg_fixed p s e)) = false.
Proof. vm_compute. split; reflexivity. Qed.

(* hypotheses of c17_converged_although_overtaken are met by the overtaken Apply of witness_vanish *)
Example c17_example_overtaken :
  let '(s, e) := run_st cfg_fixed (firstn 5 witness_vanish) (st0, env0) in
  let p := [pl NRouteListAll 0 (FEintrP [rk 0 0] [(kk 254 0 0, None)])] in
  s_full s = true /\ last_attempt_full cfg_fixed p s e = true /\ fst (fst (apply cfg_fixed p s e)) = false /\ plan_simple p = false.
Proof. vm_compute. repeat split; reflexivity. Qed.

(* ---- non-vacuity of c17_any_history_with_flaps: a flap (down, reported; up, reported) after the first Apply and a
        route asked for meanwhile; the next Apply runs with NO full resync pending and no QueueResync was issued ---- *)
Definition hist_flap : list op :=
  [OIface "cali1" 11 IfUp; ORouteUpdate 0 "cali1" (rk 0 0) (mkt TLinkLocal 0 0 0 0); OApply [];
   ESetLink "cali1" (mkl 11 true false); OIface "cali1" 11 IfDown;
   ORouteUpdate 0 "cali1" (rk 1 0) (mkt TLinkLocal 0 0 0 0);
   ESetLink "cali1" (mkl 11 true true); OIface "cali1" 11 IfUp].

Example c17_example_flaps :
  hist_ok2 cfg_fixed (true, []) hist_flap (st0, e0_ex) /\
  flag_end cfg_fixed (true, []) hist_flap (st0, e0_ex) = (true, []) /\
  (let '(s, e) := run_st cfg_fixed hist_flap (st0, e0_ex) in
   s_full s = false /\
   let '(err, s', e') := apply cfg_fixed [] s e in
   err = false /\ tbl cfg_fixed e' (rk 0 0) = Some (mkr 1 253 0 3 false 0 11 0) /\ tbl cfg_fixed e' (rk 1 0) = Some (mkr 1 253 0 3 false 0 11 0)).
Proof.
  split; [|split; [vm_compute; reflexivity|vm_compute; repeat split; reflexivity]].
  cbn [hist_ok2 hist_flap op_ok2 op_ok fst snd].
  repeat match goal with |- _ /\ _ => split end; try exact I.
  - right. split; [discriminate|]. split; [intros n _; cbn; discriminate|left; reflexivity].
  - vm_compute. repeat split; reflexivity.
  - vm_compute. reflexivity.
  - reflexivity.
  - left. vm_compute. reflexivity.
  - unfold wfl. vm_compute. split; [repeat constructor; cbn; intuition discriminate|].
    split; [repeat constructor; cbn; intuition discriminate|].
    intros n l [H|[H|[]]] Z; injection H as <- <-; discriminate Z.
  - right. split; [discriminate|].
    repeat match goal with |- context [s_n2i ?st] => let v := eval vm_compute in (s_n2i st) in change (s_n2i st) with v end.
    split; [|right; left; reflexivity].
    intros n Hn. cbn [lookup]. destruct (String.eqb n "cali1") eqn:E; [apply String.eqb_eq in E; congruence|].
    destruct (String.eqb n "lo"); discriminate.
  - vm_compute. repeat split; reflexivity.
  - unfold wfl. vm_compute. split; [repeat constructor; cbn; intuition discriminate|].
    split; [repeat constructor; cbn; intuition discriminate|].
    intros n l [H|[H|[]]] Z; injection H as <- <-; discriminate Z.
  - right. split; [discriminate|].
    repeat match goal with |- context [s_n2i ?st] => let v := eval vm_compute in (s_n2i st) in change (s_n2i st) with v end.
    split; [|right; left; reflexivity].
    intros n Hn. cbn [lookup]. destruct (String.eqb n "cali1") eqn:E; [apply String.eqb_eq in E; congruence|].
    destruct (String.eqb n "lo"); discriminate.
Qed.
