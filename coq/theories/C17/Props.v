(* C17 — property theorems only.  Each is closed by `exact <lemma>` and followed by Print Assumptions. *)
From Coq Require Import List NArith Bool String.
From Verif.C17 Require Import Model Spec Proofs.
Import ListNotations.
Open Scope N_scope.

(* recalculateDesiredKernelRoute(k) leaves exactly the conflict-resolution winner as the desired route of k and
   does not touch any other destination. *)
Theorem c17_recalc_sets_winner : forall cfg k s,
  lookup rkey_eqb (s_desired (recalc cfg k s)) k = winner cfg s k
  /\ forall k', k <> k' -> lookup rkey_eqb (s_desired (recalc cfg k s)) k' = lookup rkey_eqb (s_desired s) k'.
Proof. exact recalc_sets_winner. Qed.
Print Assumptions c17_recalc_sets_winner.
