(* C17 — refreshAllIfaceStates brings Felix's view of the interfaces in line with the kernel's links. *)
From Coq Require Import List NArith Bool String Lia.
From Verif.C17 Require Import Model Spec Proofs ProofsAttempt ProofsWinner ProofsApply ProofsEvery ProofsSound ProofsFull ProofsView.
Import ListNotations.
Open Scope N_scope.
Arguments set : simpl never.

Notation Ln2i s n := (lookup String.eqb (s_n2i s) n).
Notation Li2n s i := (lookup N.eqb (s_i2n s) i).
Notation List s i := (lookup N.eqb (s_istate s) i).

(* the view is internally consistent (true of every reachable state, see K0_history) *)
Definition K0 (cfg : config) (s : st) : Prop :=
  (forall n i, Ln2i s n = Some i -> Li2n s i = Some n) /\
  (forall i n, Li2n s i = Some n -> Ln2i s n = Some i) /\
  (forall i x, List s i = Some x -> exists n, Li2n s i = Some n) /\
  (forall n i, Ln2i s n = Some i -> iface_is_ours (c_pol cfg) n = true) /\
  (forall n, Ln2i s n <> Some 0).

Lemma K0_wf_ifaces : forall cfg s, K0 cfg s -> wf_ifaces s.
Proof.
  intros cfg s [A [B [C [D E]]]]. split; auto.
  intros n n' i H H'. apply A in H. apply A in H'. congruence.
Qed.

Lemma on_iface_notours : forall cfg now name idx state s, iface_is_ours (c_pol cfg) name = false ->
  on_iface cfg now name idx state s = s.
Proof. intros. unfold on_iface. rewrite H. reflexivity. Qed.

Lemma on_iface_np_view : forall cfg now name idx s, iface_is_ours (c_pol cfg) name = true ->
  let s' := on_iface cfg now name idx IfNP s in
  let old := match Ln2i s name with Some o => o | None => 0 end in
  Ln2i s' name = None /\ (forall n, n <> name -> Ln2i s' n = Ln2i s n) /\
  Li2n s' old = None /\ (forall i, i <> old -> Li2n s' i = Li2n s i) /\
  List s' old = None /\ (forall i, i <> old -> List s' i = List s i).
Proof.
  intros cfg now name idx s EO. cbv zeta. unfold on_iface. rewrite EO. cbn [negb].
  match goal with |- context [recalc_all cfg ?ks ?s2] => destruct (recalc_all_proj cfg ks s2) as [_ [B [C [D _]]]]; rewrite B, C, D end.
  cbn. repeat split; intros.
  - apply lookup_remove_eq.
  - apply (lookup_remove_neq String.eqb string_eqb_spec); congruence.
  - apply lookup_remove_eq.
  - apply (lookup_remove_neq N.eqb N_eqb_spec); congruence.
  - apply lookup_remove_eq.
  - apply (lookup_remove_neq N.eqb N_eqb_spec); congruence.
Qed.

Lemma on_iface_ud_view : forall cfg now name idx state s, iface_is_ours (c_pol cfg) name = true ->
  state <> IfNP -> (Ln2i s name = None \/ Ln2i s name = Some idx) ->
  let s' := on_iface cfg now name idx state s in
  Ln2i s' name = Some idx /\ (forall n, n <> name -> Ln2i s' n = Ln2i s n) /\
  Li2n s' idx = Some name /\ (forall i, i <> idx -> Li2n s' i = Li2n s i) /\
  List s' idx = Some state /\ (forall i, i <> idx -> List s' i = List s i).
Proof.
  intros cfg now name idx state s EO NS W2. cbv zeta. unfold on_iface. rewrite EO. cbn [negb].
  match goal with |- context [recalc_all cfg ?ks ?s2] => destruct (recalc_all_proj cfg ks s2) as [_ [B [C [D _]]]]; rewrite B, C, D end.
  destruct (on_iface_seen_all now idx s) as [_ [_ [O3 [O4 O5]]]].
  assert (match Ln2i s name with Some old => if N.eqb old idx then s_i2n s else remove N.eqb (s_i2n s) old | None => s_i2n s end = s_i2n s) as X.
  { destruct W2 as [W|W]; rewrite W; auto. rewrite N.eqb_refl. auto. }
  assert (match Ln2i s name with Some old => if N.eqb old idx then s_istate s else if c_fixC cfg then remove N.eqb (s_istate s) old else s_istate s | None => s_istate s end = s_istate s) as Y.
  { destruct W2 as [W|W]; rewrite W; auto. rewrite N.eqb_refl. auto. }
  destruct state; try congruence; cbn; rewrite ?O3, ?O4, ?O5, X, Y; repeat split; intros;
    first [apply (lookup_set_eq String.eqb string_eqb_spec) | apply (lookup_set_eq N.eqb N_eqb_spec)
          | apply (lookup_set_neq String.eqb string_eqb_spec); congruence | apply (lookup_set_neq N.eqb N_eqb_spec); congruence].
Qed.

(* a "not present" event keeps the view consistent *)
Lemma np_K0 : forall cfg now name idx s, K0 cfg s -> K0 cfg (on_iface cfg now name idx IfNP s).
Proof.
  intros cfg now name idx s HK. destruct (iface_is_ours (c_pol cfg) name) eqn:EO; [|rewrite on_iface_notours; auto].
  destruct (on_iface_np_view cfg now name idx s EO) as [N1 [N2 [I1' [I2 [S1 S2]]]]].
  destruct HK as [A [B [C [D E]]]].
  set (old := match Ln2i s name with Some o => o | None => 0 end) in *.
  assert (forall n i, n <> name -> Ln2i s n = Some i -> i <> old) as DIFF.
  { intros n i Hn H Hi. subst i. unfold old in H. destruct (Ln2i s name) as [o|] eqn:Eo.
    - apply A in H. apply A in Eo. congruence.
    - eapply E; eauto. }
  repeat split.
  - intros n i H. destruct (string_dec n name) as [->|Hn]; [congruence|]. rewrite N2 in H by auto.
    rewrite I2 by (eapply DIFF; eauto). auto.
  - intros i n H. destruct (N.eq_dec i old) as [->|Hi]; [congruence|]. rewrite I2 in H by auto.
    pose proof (B _ _ H) as H'. destruct (string_dec n name) as [->|Hn].
    + exfalso. apply Hi. unfold old. rewrite H'. auto.
    + rewrite N2; auto.
  - intros i x H. destruct (N.eq_dec i old) as [->|Hi]; [congruence|]. rewrite S2 in H by auto.
    rewrite I2 by auto. eauto.
  - intros n i H. destruct (string_dec n name) as [->|Hn]; [congruence|]. rewrite N2 in H by auto. eauto.
  - intros n H. destruct (string_dec n name) as [->|Hn]; [congruence|]. rewrite N2 in H by auto. eapply E; eauto.
Qed.

(* an "up"/"down" event keeps it consistent if the ifindex is not held by another name and the name not by another index *)
Lemma ud_K0 : forall cfg now name idx state s, K0 cfg s -> state <> IfNP -> idx <> 0 ->
  (forall n, n <> name -> Ln2i s n <> Some idx) -> (Ln2i s name = None \/ Ln2i s name = Some idx) ->
  K0 cfg (on_iface cfg now name idx state s).
Proof.
  intros cfg now name idx state s HK NS NZ W1 W2. destruct (iface_is_ours (c_pol cfg) name) eqn:EO; [|rewrite on_iface_notours; auto].
  destruct (on_iface_ud_view cfg now name idx state s EO NS W2) as [N1 [N2 [I1' [I2 [S1 S2]]]]].
  destruct HK as [A [B [C [D E]]]].
  repeat split.
  - intros n i H. destruct (string_dec n name) as [->|Hn].
    + rewrite N1 in H. injection H as <-. auto.
    + rewrite N2 in H by auto. rewrite I2; auto. intro; subst. eapply W1; eauto.
  - intros i n H. destruct (N.eq_dec i idx) as [->|Hi].
    + rewrite I1' in H. injection H as <-. auto.
    + rewrite I2 in H by auto. pose proof (B _ _ H) as H'. destruct (string_dec n name) as [->|Hn].
      * destruct W2 as [W|W]; congruence.
      * rewrite N2; auto.
  - intros i x H. destruct (N.eq_dec i idx) as [->|Hi]; [eauto|]. rewrite S2 in H by auto. rewrite I2 by auto. eauto.
  - intros n i H. destruct (string_dec n name) as [->|Hn]; auto. rewrite N2 in H by auto. eauto.
  - intros n H. destruct (string_dec n name) as [->|Hn].
    + rewrite N1 in H. congruence.
    + rewrite N2 in H by auto. eapply E; eauto.
Qed.

(* generic facts on association lists *)
Section AL.
  Context {K V : Type} (keq : K -> K -> bool).
  Hypothesis keq_spec : forall a b, keq a b = true <-> a = b.
  Lemma al_lookup_in : forall (m : list (K * V)) k v, lookup keq m k = Some v -> In (k, v) m.
  Proof.
    induction m as [|[k0 v0] m IH]; simpl; intros k v H; [discriminate|].
    destruct (keq k k0) eqn:E; [apply keq_spec in E; subst; injection H as ->; auto | right; auto].
  Qed.
  Lemma al_not_in : forall (m : list (K * V)) k, ~ In k (keys m) -> lookup keq m k = None.
  Proof.
    induction m as [|[k0 v0] m IH]; simpl; intros k H; auto.
    destruct (keq k k0) eqn:E; [apply keq_spec in E; subst; tauto | apply IH; tauto].
  Qed.
  Lemma al_in_lookup : forall (m : list (K * V)) k v, NoDup (keys m) -> In (k, v) m -> lookup keq m k = Some v.
  Proof.
    induction m as [|[k0 v0] m IH]; intros k v ND H; [contradiction|].
    simpl in ND. inversion ND as [|x xs NI ND']; subst. simpl. destruct H as [H|H].
    - injection H as -> ->. rewrite (proj2 (keq_spec k k) eq_refl). auto.
    - destruct (keq k k0) eqn:E; [|apply IH; auto].
      apply keq_spec in E. subst. exfalso. apply NI. apply (in_map fst) in H. exact H.
  Qed.
End AL.

Definition KI (cfg : config) (s : st) : Prop := K0 cfg s /\ I1 cfg s.

Lemma np_KI : forall cfg now name idx s, KI cfg s -> KI cfg (on_iface cfg now name idx IfNP s).
Proof.
  intros cfg now name idx s [HK HI]. split; [apply np_K0; auto|].
  apply on_iface_I1; auto; [eapply K0_wf_ifaces; eauto | exact I].
Qed.

Lemma ud_KI : forall cfg now name idx state s, KI cfg s -> state <> IfNP -> idx <> 0 ->
  (forall n, n <> name -> Ln2i s n <> Some idx) -> (Ln2i s name = None \/ Ln2i s name = Some idx) ->
  KI cfg (on_iface cfg now name idx state s).
Proof.
  intros cfg now name idx state s [HK HI] NS NZ W1 W2. split; [apply ud_K0; auto|].
  apply on_iface_I1; auto; [eapply K0_wf_ifaces; eauto|].
  unfold wf_event. destruct state; try congruence; auto.
Qed.

(* a state whose view only lost entries *)
Definition shrinks (s s' : st) : Prop :=
  (forall n, Ln2i s' n = None \/ Ln2i s' n = Ln2i s n) /\
  (forall i, Li2n s' i = None \/ Li2n s' i = Li2n s i) /\
  (forall i, List s' i = None \/ List s' i = List s i).

Lemma shrinks_refl : forall s, shrinks s s.
Proof. intros; repeat split; auto. Qed.

Lemma shrinks_trans : forall a b c, shrinks a b -> shrinks b c -> shrinks a c.
Proof.
  intros a b c [A1 [A2 A3]] [B1 [B2 B3]]. repeat split; intros x.
  - destruct (B1 x) as [H|H]; auto. rewrite H. apply A1.
  - destruct (B2 x) as [H|H]; auto. rewrite H. apply A2.
  - destruct (B3 x) as [H|H]; auto. rewrite H. apply A3.
Qed.

Lemma np_shrinks : forall cfg now name idx s, shrinks s (on_iface cfg now name idx IfNP s).
Proof.
  intros. destruct (iface_is_ours (c_pol cfg) name) eqn:EO; [|rewrite on_iface_notours; auto; apply shrinks_refl].
  destruct (on_iface_np_view cfg now name idx s EO) as [N1 [N2 [I1' [I2 [S1 S2]]]]].
  repeat split; intros x.
  - destruct (string_dec x name) as [->|H]; auto.
  - match goal with |- context [Li2n _ x] => idtac end.
    destruct (N.eq_dec x (match Ln2i s name with Some o => o | None => 0 end)) as [->|H]; auto.
  - destruct (N.eq_dec x (match Ln2i s name with Some o => o | None => 0 end)) as [->|H]; auto.
Qed.

Definition Q1 (s : st) (name : string) (idx : N) : Prop :=
  (Ln2i s name = None \/ Ln2i s name = Some idx) /\ (Li2n s idx = None \/ Li2n s idx = Some name).

Lemma shrinks_Q1 : forall s s' name idx, shrinks s s' -> Q1 s name idx -> Q1 s' name idx.
Proof.
  intros s s' name idx [A [B _]] [Q R]. split.
  - destruct (A name) as [H|H]; auto. rewrite H. auto.
  - destruct (B idx) as [H|H]; auto. rewrite H. auto.
Qed.

(* ---- first pass ---- *)
Definition f1 (cfg : config) (now : N) (s : st) (nl : string * link) : st :=
  let '(name, l) := nl in
  let s1 := match Ln2i s name with
            | Some old => if N.eqb old (l_idx l) then s else on_iface cfg now name old IfNP s
            | None => s
            end in
  match Li2n s1 (l_idx l) with
  | Some oldname => if String.eqb oldname name then s1 else on_iface cfg now oldname (l_idx l) IfNP s1
  | None => s1
  end.

Lemma f1_step : forall cfg now s name l, KI cfg s ->
  KI cfg (f1 cfg now s (name, l)) /\ shrinks s (f1 cfg now s (name, l)) /\ Q1 (f1 cfg now s (name, l)) name (l_idx l).
Proof.
  intros cfg now s name l HK. unfold f1.
  set (s1 := match Ln2i s name with Some old => if N.eqb old (l_idx l) then s else on_iface cfg now name old IfNP s | None => s end).
  assert (KI cfg s1 /\ shrinks s s1 /\ (Ln2i s1 name = None \/ Ln2i s1 name = Some (l_idx l))) as [K1 [SH1 A1]].
  { unfold s1. destruct (Ln2i s name) as [old|] eqn:E.
    - destruct (N.eqb old (l_idx l)) eqn:E2.
      + apply N.eqb_eq in E2. subst. split; auto. split; [apply shrinks_refl|auto].
      + split; [apply np_KI; auto|]. split; [apply np_shrinks|].
        assert (iface_is_ours (c_pol cfg) name = true) as EO by (destruct HK as [[_ [_ [_ [D _]]]] _]; eauto).
        destruct (on_iface_np_view cfg now name old s EO) as [N1 _]. auto.
    - split; auto. split; [apply shrinks_refl|auto]. }
  destruct (Li2n s1 (l_idx l)) as [oldname|] eqn:E.
  - destruct (String.eqb oldname name) eqn:E2.
    + apply String.eqb_eq in E2. subst. split; auto. split; auto. split; auto.
    + assert (oldname <> name) as NE by (intro; subst; rewrite String.eqb_refl in E2; discriminate).
      split; [apply np_KI; auto|]. split; [eapply shrinks_trans; [exact SH1|apply np_shrinks]|].
      destruct K1 as [[A [B [C [D E']]]] _].
      assert (iface_is_ours (c_pol cfg) oldname = true) as EO by (eapply D; eapply B; eauto).
      destruct (on_iface_np_view cfg now oldname (l_idx l) s1 EO) as [N1 [N2 [I1' [I2 _]]]].
      rewrite (B _ _ E) in I1'. split.
      * rewrite N2 by auto. exact A1.
      * auto.
  - split; auto. split; auto. split; auto.
Qed.

Lemma pass1 : forall cfg now links s, KI cfg s ->
  let s' := fold_left (f1 cfg now) links s in
  KI cfg s' /\ shrinks s s' /\ forall name l, In (name, l) links -> Q1 s' name (l_idx l).
Proof.
  intros cfg now links. induction links as [|[name l] links IH]; intros s HK; cbn [fold_left].
  - split; auto. split; [apply shrinks_refl|]. intros ? ? [].
  - destruct (f1_step cfg now s name l HK) as [K1 [SH1 QQ]].
    destruct (IH _ K1) as [K2 [SH2 Q2]]. split; auto. split; [eapply shrinks_trans; eauto|].
    intros n0 l0 [H|H]; [|auto]. injection H as <- <-. eapply shrinks_Q1; eauto.
Qed.

(* ---- second pass ---- *)
Definition wfl (links : list (string * link)) : Prop :=
  NoDup (map fst links) /\ NoDup (map (fun nl : string * link => l_idx (snd nl)) links) /\
  forall n l, In (n, l) links -> l_idx l <> 0.

Definition P2 (s : st) (n : string) (l : link) : Prop :=
  Ln2i s n = Some (l_idx l) /\ Li2n s (l_idx l) = Some n /\ List s (l_idx l) = Some (link_state l).

Definition f2 (cfg : config) (now : N) (s : st) (nl : string * link) : st :=
  let '(name, l) := nl in
  if ifstate_eqb (link_state l) (state_of s (l_idx l)) then s
  else on_iface cfg now name (l_idx l) (link_state l) s.

Lemma link_state_not_np : forall l, link_state l <> IfNP.
Proof. intros. unfold link_state. destruct (l_running l); discriminate. Qed.

Lemma f2_step : forall cfg now s name l, KI cfg s -> Q1 s name (l_idx l) -> l_idx l <> 0 ->
  let s' := f2 cfg now s (name, l) in
  KI cfg s' /\ (iface_is_ours (c_pol cfg) name = true -> P2 s' name l) /\ Q1 s' name (l_idx l) /\
  (forall n, n <> name -> Ln2i s' n = Ln2i s n) /\ (forall i, i <> l_idx l -> Li2n s' i = Li2n s i) /\
  (forall i, i <> l_idx l -> List s' i = List s i).
Proof.
  intros cfg now s name l HK [QA QB] NZ. cbv zeta. unfold f2.
  pose proof HK as [[A [B [C [D E]]]] _].
  destruct (ifstate_eqb (link_state l) (state_of s (l_idx l))) eqn:ES.
  - split; auto. split; [|split; [split; auto|auto]].
    intros _. apply ifstate_eqb_spec in ES. unfold state_of in ES.
    destruct (List s (l_idx l)) as [x|] eqn:EL; [|exfalso; eapply link_state_not_np; eauto].
    subst x. destruct (C _ _ EL) as [n Hn].
    assert (n = name) as -> by (destruct QB as [Q|Q]; congruence).
    split; [apply B; auto|]. split; auto.
  - destruct (iface_is_ours (c_pol cfg) name) eqn:EO.
    2:{ rewrite on_iface_notours by auto. split; auto. split; [discriminate|]. split; [split; auto|auto]. }
    assert (forall n, n <> name -> Ln2i s n <> Some (l_idx l)) as W1.
    { intros n Hn H. apply A in H. destruct QB as [Q|Q]; congruence. }
    split; [apply ud_KI; auto; apply link_state_not_np|].
    destruct (on_iface_ud_view cfg now name (l_idx l) (link_state l) s EO (link_state_not_np l) QA) as [N1 [N2 [I1' [I2 [S1 S2]]]]].
    split; [intros _; split; auto|]. split; [split; auto|]. auto.
Qed.

Lemma pass2 : forall cfg now links s, wfl links -> KI cfg s ->
  (forall name l, In (name, l) links -> Q1 s name (l_idx l)) ->
  let s' := fold_left (f2 cfg now) links s in
  KI cfg s' /\ (forall name l, In (name, l) links -> iface_is_ours (c_pol cfg) name = true -> P2 s' name l) /\
  (forall n, ~ In n (map fst links) -> Ln2i s' n = Ln2i s n) /\
  (forall i, ~ In i (map (fun nl : string * link => l_idx (snd nl)) links) -> Li2n s' i = Li2n s i /\ List s' i = List s i).
Proof.
  intros cfg now links. induction links as [|[name l] links IH]; intros s WF HK HQ; cbn [fold_left].
  - split; auto. split; [intros ? ? []|]. split; auto.
  - destruct WF as [ND1 [ND2 NZ]]. simpl in ND1, ND2.
    inversion ND1 as [|x xs NI1 ND1']; subst. inversion ND2 as [|x xs NI2 ND2']; subst.
    destruct (f2_step cfg now s name l HK (HQ _ _ (or_introl eq_refl)) (NZ _ _ (or_introl eq_refl)))
      as [K1 [PP [QQ [F1 [F2 F3]]]]].
    assert (forall n0 l0, In (n0, l0) links -> n0 <> name /\ l_idx l0 <> l_idx l) as DIFF.
    { intros n0 l0 HI. split; intro; subst.
      - apply NI1. apply (in_map fst) in HI. exact HI.
      - apply NI2. apply (in_map (fun nl : string * link => l_idx (snd nl))) in HI. simpl in HI. rewrite <- H. exact HI. }
    assert (forall n0 l0, In (n0, l0) links -> Q1 (f2 cfg now s (name, l)) n0 (l_idx l0)) as HQ1.
    { intros n0 l0 HI. destruct (DIFF _ _ HI) as [D1 D2]. destruct (HQ n0 l0 (or_intror HI)) as [Q Q'].
      split; [rewrite F1; auto|rewrite F2; auto]. }
    destruct (IH _ (conj ND1' (conj ND2' (fun n0 l0 HI => NZ n0 l0 (or_intror HI)))) K1 HQ1) as [K2 [PP2 [G1 G2]]].
    split; auto. split; [|split].
    + intros n0 l0 [H|H] EO; [|auto]. injection H as <- <-. destruct (PP EO) as [X [Y Z]].
      destruct (G2 (l_idx l) NI2) as [G2a G2b]. split; [rewrite G1; auto|]. split; congruence.
    + intros n Hn. simpl in Hn. rewrite G1 by tauto. apply F1. intro; subst; tauto.
    + intros i Hi. simpl in Hi. destruct (G2 i) as [X Y]; [tauto|]. rewrite X, Y. split; [apply F2|apply F3]; intro; subst; tauto.
Qed.

(* ---- third pass ---- *)
Definition f3 (cfg : config) (now : N) (links : list (string * link)) (s : st) (name : string) : st :=
  if mem String.eqb name (map fst links) then s
  else match Ln2i s name with
       | Some _ => on_iface cfg now name 0 IfNP s
       | None => s
       end.

Lemma mem_in_str : forall x l, mem String.eqb x l = true <-> In x l.
Proof.
  intros x l. unfold mem. rewrite existsb_exists. split.
  - intros [y [H E]]. apply String.eqb_eq in E. subst. auto.
  - intros H. exists x. split; auto. apply String.eqb_refl.
Qed.

Lemma pass3 : forall cfg now links names s, KI cfg s ->
  (forall name l, In (name, l) links -> iface_is_ours (c_pol cfg) name = true -> P2 s name l) ->
  let s' := fold_left (f3 cfg now links) names s in
  KI cfg s' /\ (forall name l, In (name, l) links -> iface_is_ours (c_pol cfg) name = true -> P2 s' name l) /\
  shrinks s s' /\ (forall n, In n names -> ~ In n (map fst links) -> Ln2i s' n = None).
Proof.
  intros cfg now links names. induction names as [|name names IH]; intros s HK HP; cbn [fold_left].
  - split; auto. split; auto. split; [apply shrinks_refl|]. intros ? [].
  - assert (KI cfg (f3 cfg now links s name) /\
            (forall n l, In (n, l) links -> iface_is_ours (c_pol cfg) n = true -> P2 (f3 cfg now links s name) n l) /\
            shrinks s (f3 cfg now links s name) /\
            (~ In name (map fst links) -> Ln2i (f3 cfg now links s name) name = None)) as [K1 [P1 [SH1 Z1]]].
    { unfold f3. destruct (mem String.eqb name (map fst links)) eqn:M.
      - apply mem_in_str in M. split; auto. split; auto. split; [apply shrinks_refl|tauto].
      - assert (~ In name (map fst links)) as NI by (intro X; apply mem_in_str in X; congruence).
        destruct (Ln2i s name) as [old|] eqn:E.
        2:{ split; auto. split; auto. split; [apply shrinks_refl|auto]. }
        pose proof HK as [[A [B [C [D E']]]] _].
        assert (iface_is_ours (c_pol cfg) name = true) as EO by eauto.
        destruct (on_iface_np_view cfg now name 0 s EO) as [N1 [N2 [I1' [I2 [S1 S2]]]]]. rewrite E in *.
        split; [apply np_KI; auto|]. split; [|split; [apply np_shrinks|auto]].
        intros n l HI EOn. destruct (HP n l HI EOn) as [X [Y Z]].
        assert (n <> name) as Hn by (intro; subst; apply NI; apply (in_map fst) in HI; exact HI).
        assert (l_idx l <> old) as Hi by (intro; subst; apply A in E; congruence).
        split; [rewrite N2; auto|]. split; [rewrite I2; auto|rewrite S2; auto]. }
    destruct (IH _ K1 P1) as [K2 [PP2 [SH2 Z2]]].
    split; auto. split; auto. split; [eapply shrinks_trans; eauto|].
    intros n [<-|HI] NI; [|auto].
    destruct SH2 as [SA _]. destruct (SA name) as [H|H]; auto. rewrite H. auto.
Qed.

Lemma refresh_all_unfold : forall cfg now links s,
  refresh_all cfg now links s =
  let p2 := fold_left (f2 cfg now) links (fold_left (f1 cfg now) links s) in
  fold_left (f3 cfg now links) (keys (s_n2i p2)) p2.
Proof. reflexivity. Qed.

(* after refreshAllIfaceStates, Felix's view is exactly the kernel's links (for the interfaces it tracks) *)
Lemma refresh_all_VM : forall cfg now e s, wfl (e_links e) -> KI cfg s ->
  VM cfg (refresh_all cfg now (e_links e) s) e /\ KI cfg (refresh_all cfg now (e_links e) s).
Proof.
  intros cfg now e s WF HK. rewrite refresh_all_unfold. cbv zeta.
  set (links := e_links e) in *.
  destruct (pass1 cfg now links s HK) as [K1 [_ Q]].
  destruct (pass2 cfg now links _ WF K1 Q) as [K2 [PP2 _]].
  set (p2 := fold_left (f2 cfg now) links (fold_left (f1 cfg now) links s)) in *.
  destruct (pass3 cfg now links (keys (s_n2i p2)) p2 K2 PP2) as [K3 [PP3 [SH3 Z3]]].
  set (s3 := fold_left (f3 cfg now links) (keys (s_n2i p2)) p2) in *.
  split; [|exact K3].
  destruct K3 as [[A [B [C [D E]]]] _]. destruct WF as [ND1 _].
  assert (forall n l, lookup String.eqb links n = Some l <-> In (n, l) links) as LI.
  { intros n l. split; [apply (al_lookup_in String.eqb string_eqb_spec)|apply (al_in_lookup String.eqb string_eqb_spec); auto]. }
  assert (forall n, Ln2i s3 n = if iface_is_ours (c_pol cfg) n then option_map l_idx (lookup String.eqb links n) else None) as V1.
  { intros n. destruct (iface_is_ours (c_pol cfg) n) eqn:EO.
    - destruct (lookup String.eqb links n) as [l|] eqn:L.
      + apply LI in L. destruct (PP3 n l L EO) as [X _]. exact X.
      + assert (~ In n (map fst links)) as NI.
        { intro HI. apply in_map_iff in HI. destruct HI as [[n' l'] [Hn HI]]. simpl in Hn. subst. apply LI in HI. congruence. }
        destruct (in_dec string_dec n (keys (s_n2i p2))) as [HK2|HK2]; [apply Z3; auto|].
        destruct SH3 as [SA _]. destruct (SA n) as [H|H]; auto. rewrite H.
        apply (al_not_in String.eqb string_eqb_spec). exact HK2.
    - destruct (Ln2i s3 n) as [i|] eqn:X; auto. apply D in X. congruence. }
  split; [exact V1|]. split.
  - intros i n. split.
    + intros H. pose proof (B _ _ H) as H'. pose proof (D _ _ H') as EO. split; auto.
      rewrite V1, EO in H'. destruct (lookup String.eqb links n) as [l|] eqn:L; [|discriminate]. simpl in H'. injection H' as H'.
      exists l. split; [exact L|exact H'].
    + intros [EO [l [L Hi]]]. apply LI in L. destruct (PP3 n l L EO) as [_ [Y _]]. congruence.
  - intros i x. split.
    + intros H. destruct (C _ _ H) as [n Hn]. pose proof (B _ _ Hn) as H'. pose proof (D _ _ H') as EO.
      rewrite V1, EO in H'. destruct (lookup String.eqb links n) as [l|] eqn:L; [|discriminate]. simpl in H'. injection H' as H'.
      exists n, l. repeat split; auto. apply LI in L. destruct (PP3 n l L EO) as [_ [_ Z]]. congruence.
    + intros [n [l [EO [L [Hi Hx]]]]]. apply LI in L. destruct (PP3 n l L EO) as [_ [_ Z]]. congruence.
Qed.

(* ---- with fix C: an interface may be reported under a new ifindex without its deletion having been reported ---- *)
Lemma on_iface_renum_view : forall cfg now name idx state s old, iface_is_ours (c_pol cfg) name = true ->
  c_fixC cfg = true -> state <> IfNP -> Ln2i s name = Some old -> old <> idx ->
  let s' := on_iface cfg now name idx state s in
  Ln2i s' name = Some idx /\ (forall n, n <> name -> Ln2i s' n = Ln2i s n) /\
  Li2n s' idx = Some name /\ Li2n s' old = None /\ (forall i, i <> idx -> i <> old -> Li2n s' i = Li2n s i) /\
  List s' idx = Some state /\ List s' old = None /\ (forall i, i <> idx -> i <> old -> List s' i = List s i).
Proof.
  intros cfg now name idx state s old EO FC NS HO NE. cbv zeta. unfold on_iface. rewrite EO. cbn [negb].
  match goal with |- context [recalc_all cfg ?ks ?s2] => destruct (recalc_all_proj cfg ks s2) as [_ [B [C [D _]]]]; rewrite B, C, D end.
  destruct (on_iface_seen_all now idx s) as [_ [_ [O3 [O4 O5]]]].
  assert (N.eqb old idx = false) as NB by (apply N.eqb_neq; auto).
  destruct state; try congruence; cbn; rewrite ?O3, ?O4, ?O5, HO, NB, FC; repeat split; intros;
    first [apply (lookup_set_eq String.eqb string_eqb_spec) | apply (lookup_set_eq N.eqb N_eqb_spec)
          | apply (lookup_set_neq String.eqb string_eqb_spec); congruence
          | rewrite (lookup_set_neq N.eqb N_eqb_spec) by congruence; first [apply lookup_remove_eq | apply (lookup_remove_neq N.eqb N_eqb_spec); congruence]].
Qed.

Lemma renum_K0 : forall cfg now name idx state s old, K0 cfg s -> c_fixC cfg = true -> state <> IfNP -> idx <> 0 ->
  (forall n, n <> name -> Ln2i s n <> Some idx) -> Ln2i s name = Some old -> old <> idx ->
  K0 cfg (on_iface cfg now name idx state s).
Proof.
  intros cfg now name idx state s old HK FC NS NZ W1 HO NE.
  pose proof HK as [A [B [C [D E]]]].
  assert (iface_is_ours (c_pol cfg) name = true) as EO by eauto.
  destruct (on_iface_renum_view cfg now name idx state s old EO FC NS HO NE) as [N1 [N2 [I1' [I1o [I2 [S1 [S1o S2]]]]]]].
  assert (forall n i, n <> name -> Ln2i s n = Some i -> i <> idx /\ i <> old) as DIFF.
  { intros n i Hn H. split; intro; subst.
    - eapply W1; eauto.
    - apply A in H. apply A in HO. congruence. }
  repeat split.
  - intros n i H. destruct (string_dec n name) as [->|Hn].
    + rewrite N1 in H. injection H as <-. auto.
    + rewrite N2 in H by auto. destruct (DIFF _ _ Hn H). rewrite I2; auto.
  - intros i n H. destruct (N.eq_dec i idx) as [->|Hi].
    + rewrite I1' in H. injection H as <-. auto.
    + destruct (N.eq_dec i old) as [->|Ho]; [congruence|].
      rewrite I2 in H by auto. pose proof (B _ _ H) as H'. destruct (string_dec n name) as [->|Hn]; [congruence|].
      rewrite N2; auto.
  - intros i x H. destruct (N.eq_dec i idx) as [->|Hi]; [eauto|].
    destruct (N.eq_dec i old) as [->|Ho]; [congruence|]. rewrite S2 in H by auto. rewrite I2 by auto. eauto.
  - intros n i H. destruct (string_dec n name) as [->|Hn]; auto. rewrite N2 in H by auto. eauto.
  - intros n H. destruct (string_dec n name) as [->|Hn].
    + rewrite N1 in H. congruence.
    + rewrite N2 in H by auto. eapply E; eauto.
Qed.

Lemma renum_KI : forall cfg now name idx state s old, KI cfg s -> c_fixC cfg = true -> state <> IfNP -> idx <> 0 ->
  (forall n, n <> name -> Ln2i s n <> Some idx) -> Ln2i s name = Some old -> old <> idx ->
  KI cfg (on_iface cfg now name idx state s).
Proof.
  intros cfg now name idx state s old [HK HI] FC NS NZ W1 HO NE. split; [eapply renum_K0; eauto|].
  apply on_iface_I1; auto; [eapply K0_wf_ifaces; eauto|].
  unfold wf_event. destruct state; try congruence; auto.
Qed.
