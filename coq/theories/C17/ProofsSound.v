(* C17 — tracker soundness: what the tracker believes to be in the kernel IS in the kernel, through every operation and
   every Apply with every failure plan, as long as nobody else changes Felix's routing table; hence after EVERY Apply
   that reports success (full resync or not, inline retry or not) every desired route is in the kernel exactly. *)
From Coq Require Import List NArith Bool String Lia.
From Verif.C17 Require Import Model Spec Proofs ProofsAttempt ProofsWinner ProofsApply ProofsEvery.
Import ListNotations.
Open Scope N_scope.
Arguments set : simpl never.

Definition Sub (cfg : config) (s : st) (e : env) : Prop :=
  forall k r, lookup rkey_eqb (s_dp s) k = Some r -> tbl cfg e k = Some r.

(* --- things that do not touch the dataplane view --- *)
Lemma recalc_dp : forall cfg k s, s_dp (recalc cfg k s) = s_dp s.
Proof. intros. unfold recalc. destruct (winner cfg s k); reflexivity. Qed.

Lemma recalc_all_dp : forall cfg ks s, s_dp (recalc_all cfg ks s) = s_dp s.
Proof. unfold recalc_all. induction ks as [|k ks IH]; intros s; simpl; auto. rewrite IH. apply recalc_dp. Qed.

Lemma on_iface_dp : forall cfg now name idx state s, s_dp (on_iface cfg now name idx state s) = s_dp s.
Proof.
  intros. unfold on_iface. destruct (negb (iface_is_ours (c_pol cfg) name)); auto.
  rewrite recalc_all_dp. destruct (on_iface_seen_frame now idx s) as [_ [D _]].
  destruct state; cbn; rewrite ?D; reflexivity.
Qed.

Lemma fold_dp : forall {A} (f : st -> A -> st) (l : list A) s,
  (forall s a, s_dp (f s a) = s_dp s) -> s_dp (fold_left f l s) = s_dp s.
Proof. induction l as [|a l IH]; intros s H; simpl; auto. rewrite IH; auto. Qed.

Lemma refresh_all_dp : forall cfg now links s, s_dp (refresh_all cfg now links s) = s_dp s.
Proof.
  intros. unfold refresh_all.
  rewrite fold_dp.
  2:{ intros s0 a. destruct (mem String.eqb a (map fst links)); auto.
      destruct (lookup String.eqb (s_n2i s0) a); auto. apply on_iface_dp. }
  rewrite fold_dp.
  2:{ intros s0 [name l]. destruct (ifstate_eqb (link_state l) (state_of s0 (l_idx l))); auto. apply on_iface_dp. }
  rewrite fold_dp; auto.
  intros s0 [name l].
  match goal with |- s_dp (match lookup N.eqb (s_i2n ?s1) _ with _ => _ end) = _ => assert (s_dp s1 = s_dp s0) as E1 end.
  { destruct (lookup String.eqb (s_n2i s0) name); auto. destruct (N.eqb n (l_idx l)); auto. apply on_iface_dp. }
  match goal with |- s_dp (match ?X with _ => _ end) = _ => destruct X end; auto.
  destruct (String.eqb s1 name); auto. rewrite on_iface_dp. auto.
Qed.

(* --- the listing callback only records routes that are in the kernel --- *)
Lemma astep_fold_sub : forall cfg now b rs s seen0 s2 seen,
  fold_left (astep cfg now b) rs (s, seen0) = (s2, seen) ->
  forall k r, lookup rkey_eqb (s_dp s2) k = Some r -> lookup rkey_eqb (s_dp s) k = Some r \/ In (k, r) rs.
Proof.
  induction rs as [|[k0 r0] rs IH]; intros s seen0 s2 seen H k r L; cbn [fold_left] in H.
  - injection H as <- <-. auto.
  - set (s1 := if b then on_iface_seen now (kr_ifx r0) s else s) in *.
    assert (s_dp s1 = s_dp s) as D1 by (unfold s1; destruct b; auto; apply on_iface_seen_frame).
    unfold astep at 2 in H. fold s1 in H.
    destruct (kroute_is_ours cfg s1 r0).
    + destruct (IH _ _ _ _ H k r L) as [X|X]; [|right; right; auto].
      cbn [s_dp upd_dp] in X. rewrite D1 in X.
      destruct (rkey_dec k0 k) as [->|N].
      * rewrite (lookup_set_eq rkey_eqb rkey_eqb_spec) in X. injection X as <-. right; left; auto.
      * rewrite (lookup_set_neq rkey_eqb rkey_eqb_spec) in X by auto. auto.
    + destruct (IH _ _ _ _ H k r L) as [X|X]; [rewrite D1 in X; auto | right; right; auto].
Qed.

Lemma in_lookup_nodup : forall (m : list (rkey * kroute)) k r, NoDup (keys m) -> In (k, r) m -> lookup rkey_eqb m k = Some r.
Proof.
  induction m as [|[k0 r0] m IH]; intros k r ND H; [contradiction|].
  simpl in ND. inversion ND as [|x xs NI ND']; subst. simpl. destruct H as [H|H].
  - injection H as -> ->. rewrite (keq_refl rkey_eqb rkey_eqb_spec). auto.
  - destruct (rkey_eqb k k0) eqn:E.
    + apply rkey_eqb_spec in E. subst. exfalso. apply NI. apply (in_map fst) in H. exact H.
    + apply IH; auto.
Qed.

Lemma lookup_fold_remove : forall ks (m : list (rkey * kroute)) k r,
  lookup rkey_eqb (fold_left (fun m k => remove rkey_eqb m k) ks m) k = Some r -> lookup rkey_eqb m k = Some r.
Proof.
  induction ks as [|k0 ks IH]; intros m k r H; simpl in H; auto.
  apply IH in H. destruct (rkey_dec k0 k) as [->|N].
  - rewrite lookup_remove_eq in H. discriminate.
  - rewrite (lookup_remove_neq rkey_eqb rkey_eqb_spec) in H; auto.
Qed.

Lemma resync_iface_sub : forall cfg p name w b w',
  NoDup (keys (e_routes (w_env w))) ->
  resync_iface cfg p name w = (b, w') -> Sub cfg (w_st w) (w_env w) -> Sub cfg (w_st w') (w_env w').
Proof.
  intros cfg p name w b w' ND H S.
  pose proof (resync_iface_env _ _ _ _ _ _ H) as EV. unfold Sub. rewrite EV.
  unfold resync_iface in H.
  destruct (nl_call p (NLinkByName name) w) as [f w1] eqn:E1. apply nl_call_frame in E1. destruct E1 as [A1 A2].
  match type of H with (match ?R with Some _ => _ | None => _ end) = _ => destruct R as [w2|] eqn:ER end.
  2:{ injection H as <- <-. simpl. rewrite A1. exact S. }
  assert (s_dp (w_st w2) = s_dp (w_st w) /\ w_env w2 = w_env w) as [B1 B2].
  { destruct f as [[| | |ks0 m0]|]; try discriminate.
    - injection ER as <-. simpl. rewrite on_iface_dp, A1. auto.
    - destruct (lookup String.eqb (e_links (w_env w1)) name); injection ER as <-; simpl; rewrite on_iface_dp, A1; auto. }
  destruct (idx_for_name (w_st w2) name) as [idx|].
  2:{ injection H as <- <-. intros k r. rewrite B1. apply S. }
  destruct (list_retry p (NRouteListIf idx) 5 w2) as [failed w3] eqn:E3.
  apply list_retry_frame in E3. destruct E3 as [C1 C2].
  destruct failed.
  - destruct (filter_error p name w3) as [fe w4] eqn:E4. apply filter_error_frame in E4. destruct E4 as [D1 D2].
    assert (s_dp (w_st w4) = s_dp (w_st w)) as X by congruence.
    destruct fe; injection H as <- <-; simpl; intros k r; rewrite X; apply S.
  - match type of H with (let '(s4, seen) := absorb ?c ?n ?bb ?rs ?ss in _) = _ =>
      destruct (absorb c n bb rs ss) as [s4 seen] eqn:EA; rewrite absorb_unfold in EA;
      pose proof (astep_fold_sub _ _ _ _ _ _ _ _ EA) as AS end.
    injection H as <- <-. simpl. intros k r L.
    apply lookup_fold_remove in L. destruct (AS k r L) as [X|X].
    + rewrite C1, B1 in X. apply S. exact X.
    + apply filter_In in X. destruct X as [X _].
      rewrite <- table_routes_lookup. apply in_lookup_nodup.
      * apply table_routes_nodup. auto.
      * rewrite <- B2, <- C2. exact X.
Qed.

Lemma resync_ifaces_sub : forall cfg p w,
  NoDup (keys (e_routes (w_env w))) -> Sub cfg (w_st w) (w_env w) ->
  Sub cfg (w_st (resync_ifaces cfg p w)) (w_env (resync_ifaces cfg p w)).
Proof.
  intros cfg p w. unfold resync_ifaces.
  generalize (s_rescan (w_st w)) as names. intros names. revert w.
  induction names as [|n names IH]; intros w ND S; cbn [fold_left]; auto.
  apply IH.
  - destruct (negb (mem String.eqb n (s_rescan (w_st w)))); auto.
    destruct (resync_iface cfg p n w) as [err w1] eqn:E. apply resync_iface_env in E.
    destruct err; simpl; rewrite E; auto.
  - destruct (negb (mem String.eqb n (s_rescan (w_st w)))); auto.
    destruct (resync_iface cfg p n w) as [err w1] eqn:E.
    pose proof (resync_iface_sub _ _ _ _ _ _ ND E S) as S1.
    destruct err; simpl; auto.
Qed.

Lemma do_full_resync_sub : forall cfg p w b w',
  plan_simple p = true ->
  NoDup (keys (e_routes (w_env w))) ->
  do_full_resync cfg p w = (b, w') -> Sub cfg (w_st w) (w_env w) -> Sub cfg (w_st w') (w_env w').
Proof.
  intros cfg p w b w' PS ND H S. destruct b.
  2:{ apply full_resync_ok in H; auto. destruct H as [_ [_ [_ [X _]]]]. exact X. }
  pose proof (do_full_resync_env _ _ _ _ _ PS H) as EV. unfold Sub. rewrite EV.
  unfold do_full_resync in H.
  destruct (nl_call p NLinkList w) as [f w1] eqn:E1. apply nl_call_frame in E1. destruct E1 as [A1 A2].
  destruct f.
  { injection H as <-. rewrite A1. exact S. }
  remember (refresh_all cfg (e_now (w_env w)) (e_links (w_env w1)) (w_st w1)) as s1.
  rewrite (full_list_simple cfg p _ PS) in H.
  destruct (list_retry p NRouteListAll 5 (wst w1 s1)) as [failed w2] eqn:E2.
  apply list_retry_frame in E2. simpl in E2. destruct E2 as [B1 B2].
  destruct failed.
  - injection H as <-. rewrite B1, Heqs1, refresh_all_dp, A1. exact S.
  - destruct (absorb cfg (e_now (w_env w)) true (table_routes cfg (w_env w2)) (w_st w2)) as [s2 seen]. discriminate.
Qed.

Lemma apply_updates_sub : forall cfg p w b w',
  apply_updates cfg p w = (b, w') -> Sub cfg (w_st w) (w_env w) -> Sub cfg (w_st w') (w_env w').
Proof.
  intros cfg p w b w' H S. unfold apply_updates in H.
  destruct (handle p w) as [ok w1] eqn:Eh. apply handle_frame in Eh. destruct Eh as [H1 H2].
  destruct ok; simpl in H.
  2:{ injection H as <- <-. rewrite H1, H2. auto. }
  destruct (fold_left (del_step cfg p) (keys (s_dp (w_st w1))) (false, w1)) as [e1 w2] eqn:Ed.
  cbn [snd] in H.
  destruct (upd_fold _ _ _ _ _ _ _ H) as [[_ [_ UK]] _]. destruct (del_fold _ _ _ _ _ _ _ Ed) as [[_ [_ DK]] _].
  intros k r L. fold (dpk w' k) in L.
  destruct (UK k) as [[D T]|[d [_ [Y Z]]]]; [|congruence].
  rewrite T. rewrite D in L.
  destruct (DK k) as [[D2 T2]|[D2 _]]; [|congruence].
  rewrite T2, H2. apply S. rewrite <- H1. unfold dpk in *. congruence.
Qed.

Lemma apply_updates_desired_in_dp : forall cfg p w w',
  apply_updates cfg p w = (false, w') -> s_rescan (w_st w') = [] ->
  forall k d, desk w' k = Some d -> dpk w' k = Some d.
Proof.
  intros cfg p w w' H R k d Hd. unfold apply_updates in H.
  destruct (handle p w) as [ok w1] eqn:Eh.
  destruct ok; simpl in H; [|discriminate].
  destruct (fold_left (del_step cfg p) (keys (s_dp (w_st w1))) (false, w1)) as [e1 w2] eqn:Ed.
  cbn [snd] in H.
  destruct (upd_fold _ _ _ _ _ _ _ H) as [[UF _] [_ UG]].
  assert (desk w2 k = Some d) as Hd2 by (unfold desk in *; rewrite <- (fr_des _ _ _ UF); auto).
  apply (UG eq_refl R k); auto. eapply lookup_in_keys. exact Hd2.
Qed.

(* one attempt, any outcome *)
Lemma attempt_sub : forall cfg p w b w',
  plan_simple p = true ->
  NoDup (keys (e_routes (w_env w))) ->
  attempt cfg p w = (b, w') -> Sub cfg (w_st w) (w_env w) ->
  Sub cfg (w_st w') (w_env w') /\
  (b = false -> s_rescan (w_st w') = [] -> forall k d, desk w' k = Some d -> dpk w' k = Some d).
Proof.
  intros cfg p w b w' PS ND H S. unfold attempt in H.
  destruct (handle p w) as [ok w1] eqn:Eh. apply handle_frame in Eh. destruct Eh as [H1 H2].
  destruct ok; simpl in H.
  2:{ injection H as <- <-. simpl. rewrite H1, H2. split; auto. discriminate. }
  assert (exists e1 w2, (if s_full (w_st w1) then do_full_resync cfg p w1 else (false, resync_ifaces cfg p w1)) = (e1, w2)
                        /\ w_env w2 = w_env w /\ Sub cfg (w_st w2) (w_env w2)) as [e1 [w2 [E [R S2]]]].
  { assert (Sub cfg (w_st w1) (w_env w1)) as S1 by (rewrite H1, H2; auto).
    assert (NoDup (keys (e_routes (w_env w1)))) as ND1 by (rewrite H2; auto).
    destruct (s_full (w_st w1)).
    - destruct (do_full_resync cfg p w1) as [e1 w2] eqn:Ef. exists e1, w2. split; auto. split.
      + apply do_full_resync_env in Ef; [|exact PS]. congruence.
      + eapply do_full_resync_sub; eauto.
    - exists false, (resync_ifaces cfg p w1). split; auto. split.
      + rewrite resync_ifaces_env. auto.
      + apply resync_ifaces_sub; auto. }
  rewrite E in H.
  destruct e1.
  { injection H as <- <-. simpl. split; auto. discriminate. }
  destruct (apply_updates cfg p w2) as [e2 w3] eqn:Ea.
  pose proof (apply_updates_sub _ _ _ _ _ Ea S2) as S3.
  destruct e2; injection H as <- <-; simpl.
  - split; auto. discriminate.
  - destruct (cleanup_grace_frame cfg (e_now (w_env w3)) (w_st w3)) as [CD [_ [CR CP]]].
    split.
    + unfold Sub. rewrite CP. exact S3.
    + intros _ RS k d. unfold desk, dpk. cbn [w_st wst]. rewrite CD, CP. rewrite CR in RS.
      apply (apply_updates_desired_in_dp _ _ _ _ Ea RS).
Qed.

(* Apply, any outcome *)
Lemma apply_sub : forall cfg p s e err s' e',
  plan_simple p = true ->
  NoDup (keys (e_routes e)) -> apply cfg p s e = (err, s', e') -> Sub cfg s e ->
  Sub cfg s' e' /\
  (err = false -> forall k d, lookup rkey_eqb (s_desired s') k = Some d -> tbl cfg e' k = Some d).
Proof.
  intros cfg p s e err s' e' PS ND H S. unfold apply in H.
  set (w0 := {| w_st := s; w_env := e; w_cnt := []; w_cached := s_cached s; w_reopen := s_reopen s |}) in *.
  destruct (attempt cfg p w0) as [err0 w1] eqn:A0.
  destruct (attempt_sub cfg p w0 err0 w1 PS ND A0 S) as [S1 G1].
  pose proof (proj2 (attempt_other _ _ _ _ _ PS A0) ND) as ND1.
  destruct (err0 || negb (match s_rescan (w_st w1) with [] => true | _ => false end)) eqn:C.
  - destruct (attempt cfg p w1) as [err1 w2] eqn:A1.
    destruct (attempt_sub cfg p w1 err1 w2 PS ND1 A1 S1) as [S2 G2].
    injection H as <- <- <-. split; [exact S2|].
    destruct (s_rescan (w_st w2)) eqn:R2; [|discriminate].
    intros -> k d Hd. apply S2. apply (G2 eq_refl eq_refl k d). exact Hd.
  - apply orb_false_iff in C. destruct C as [-> C].
    injection H as <- <- <-. split; [exact S1|].
    destruct (s_rescan (w_st w1)) eqn:R1; [|discriminate].
    intros _ k d Hd. apply S1. apply (G1 eq_refl eq_refl k d). exact Hd.
Qed.

(* --- histories in which nobody else changes the kernel's routes --- *)
Definition quiet (o : op) : bool :=
  match o with EFlush _ | EAddRoute _ _ | EDelRoute _ => false | OApply p => plan_simple p | _ => true end.

Lemma step_sub : forall cfg o s e,
  quiet o = true -> Sub cfg s e -> NoDup (keys (e_routes e)) ->
  let '(s', e', _) := step cfg o (s, e) in Sub cfg s' e' /\ NoDup (keys (e_routes e')).
Proof.
  intros cfg o s e Q S ND. destruct o; cbn [step]; try discriminate; try (split; [exact S|exact ND]).
  - split; auto. unfold Sub. unfold set_routes. destruct (negb (iface_is_ours (c_pol cfg) name)); auto.
    rewrite recalc_all_dp. exact S.
  - split; auto. unfold Sub. unfold route_update. destruct (negb (iface_is_ours (c_pol cfg) name)); auto.
    rewrite recalc_dp. exact S.
  - split; auto. unfold Sub. unfold route_remove. destruct (negb (iface_is_ours (c_pol cfg) name)); auto.
    destruct (lookup dkey_eqb (s_routes s) (c, name, k)); auto. rewrite recalc_dp. exact S.
  - split; auto. unfold Sub. rewrite on_iface_dp. exact S.
  - destruct (apply cfg p s e) as [[err s1] e1] eqn:A.
    destruct (apply_sub _ _ _ _ _ _ _ Q ND A S) as [S1 _]. split; auto.
    apply apply_other_tables in A; [|exact Q]. destruct A as [_ N]. auto.
Qed.

Lemma quiet_history_sub : forall cfg ops s e,
  forallb quiet ops = true -> Sub cfg s e -> NoDup (keys (e_routes e)) ->
  Sub cfg (fst (run_st cfg ops (s, e))) (snd (run_st cfg ops (s, e))) /\
  NoDup (keys (e_routes (snd (run_st cfg ops (s, e))))).
Proof.
  induction ops as [|o ops IH]; intros s e Q S ND; cbn [run_st]; [split; auto|].
  cbn [forallb] in Q. apply andb_true_iff in Q. destruct Q as [Q1 Q2].
  pose proof (step_sub cfg o s e Q1 S ND) as P.
  destruct (step cfg o (s, e)) as [[s' e'] ob]. destruct P as [P1 P2]. apply IH; auto.
Qed.

(* After EVERY Apply that reports success (any history before it without outside route changes: any calls, interface
   events, link churn, clock steps, earlier Applies with any failures; any failure plan for this Apply; full resync or
   not; inline retry or not) every desired route is in the kernel, exactly. *)
Lemma desired_present_after_any_successful_apply : forall cfg ops p s' e',
  forallb quiet ops = true -> plan_simple p = true ->
  apply cfg p (fst (run_st cfg ops (st0, env0))) (snd (run_st cfg ops (st0, env0))) = (false, s', e') ->
  forall k d, lookup rkey_eqb (s_desired s') k = Some d -> tbl cfg e' k = Some d.
Proof.
  intros cfg ops p s' e' Q PS A.
  destruct (quiet_history_sub cfg ops st0 env0 Q) as [S ND].
  - intros k r H. discriminate.
  - simpl. constructor.
  - destruct (apply_sub _ _ _ _ _ _ _ PS ND A S) as [_ G]. apply G. reflexivity.
Qed.

Lemma tracker_sound : forall cfg ops,
  forallb quiet ops = true ->
  Sub cfg (fst (run_st cfg ops (st0, env0))) (snd (run_st cfg ops (st0, env0))).
Proof.
  intros cfg ops Q. destruct (quiet_history_sub cfg ops st0 env0 Q) as [S _]; auto.
  - intros k r H. discriminate.
  - simpl. constructor.
Qed.
