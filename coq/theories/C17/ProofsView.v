(* C17 — Felix's view of the interfaces vs the kernel's links; the synchronised state of the tracker. *)
From Coq Require Import List NArith Bool String Lia.
From Verif.C17 Require Import Model Spec Proofs ProofsAttempt ProofsWinner ProofsApply ProofsEvery ProofsSound ProofsFull.
Import ListNotations.
Open Scope N_scope.
Arguments set : simpl never.

(* ---------- extensional equality of the interface view ---------- *)
Definition veq (s s' : st) : Prop :=
  (forall n, lookup String.eqb (s_n2i s) n = lookup String.eqb (s_n2i s') n) /\
  (forall i, lookup N.eqb (s_i2n s) i = lookup N.eqb (s_i2n s') i) /\
  (forall i, lookup N.eqb (s_istate s) i = lookup N.eqb (s_istate s') i).

Lemma veq_refl : forall s, veq s s.
Proof. intros; repeat split; auto. Qed.

Lemma veq_trans : forall a b c, veq a b -> veq b c -> veq a c.
Proof. intros a b c [A1 [A2 A3]] [B1 [B2 B3]]. repeat split; intros; congruence. Qed.

Lemma veq_of_eq : forall s s', s_n2i s = s_n2i s' -> s_i2n s = s_i2n s' -> s_istate s = s_istate s' -> veq s s'.
Proof. intros s s' A B C. unfold veq. rewrite A, B, C. auto. Qed.

Lemma ours_veq : forall cfg s s' r, veq s s' -> kroute_is_ours cfg s r = kroute_is_ours cfg s' r.
Proof. intros cfg s s' r [_ [H _]]. unfold kroute_is_ours. rewrite H. reflexivity. Qed.

Lemma pick_veq : forall s s' l b, veq s s' -> pick s l b = pick s' l b.
Proof.
  intros s s' l b [H1 [_ H3]]. apply pick_ext_cands. intros c n t _. split.
  - unfold idx_for_name. rewrite H1. auto.
  - intros i _ _. unfold state_of. rewrite H3. auto.
Qed.

Lemma winner_veq : forall cfg s s' k, s_routes s = s_routes s' -> veq s s' -> winner cfg s k = winner cfg s' k.
Proof. intros. unfold winner. rewrite H. rewrite (pick_veq s s'); auto. Qed.

(* ---------- the kernel's links, and the view agreeing with them ---------- *)
Definition wf_links (e : env) : Prop :=
  (forall n n' l l', lookup String.eqb (e_links e) n = Some l -> lookup String.eqb (e_links e) n' = Some l' ->
                     l_idx l = l_idx l' -> n = n') /\
  (forall n l, lookup String.eqb (e_links e) n = Some l -> l_idx l <> 0).

Definition VM (cfg : config) (s : st) (e : env) : Prop :=
  (forall n, lookup String.eqb (s_n2i s) n =
             if iface_is_ours (c_pol cfg) n then option_map l_idx (lookup String.eqb (e_links e) n) else None) /\
  (forall i n, lookup N.eqb (s_i2n s) i = Some n <->
               (iface_is_ours (c_pol cfg) n = true /\ exists l, lookup String.eqb (e_links e) n = Some l /\ l_idx l = i)) /\
  (forall i x, lookup N.eqb (s_istate s) i = Some x <->
               exists n l, iface_is_ours (c_pol cfg) n = true /\ lookup String.eqb (e_links e) n = Some l /\ l_idx l = i /\ x = link_state l).

Lemma VM_veq : forall cfg s s' e, veq s' s -> VM cfg s e -> VM cfg s' e.
Proof.
  intros cfg s s' e [A [B C]] [V1 [V2 V3]]. split; [|split].
  - intros n. rewrite A. apply V1.
  - intros i n. rewrite B. apply V2.
  - intros i x. rewrite C. apply V3.
Qed.

(* recalc only touches the desired side and the grace periods *)
Lemma recalc_proj : forall cfg k s,
  s_routes (recalc cfg k s) = s_routes s /\ s_n2i (recalc cfg k s) = s_n2i s /\ s_i2n (recalc cfg k s) = s_i2n s /\
  s_istate (recalc cfg k s) = s_istate s /\ s_dp (recalc cfg k s) = s_dp s.
Proof. intros. unfold recalc. destruct (winner cfg s k); repeat split; reflexivity. Qed.

Lemma recalc_all_proj : forall cfg ks s,
  s_routes (recalc_all cfg ks s) = s_routes s /\ s_n2i (recalc_all cfg ks s) = s_n2i s /\ s_i2n (recalc_all cfg ks s) = s_i2n s /\
  s_istate (recalc_all cfg ks s) = s_istate s /\ s_dp (recalc_all cfg ks s) = s_dp s.
Proof.
  unfold recalc_all. induction ks as [|k ks IH]; intros s; simpl; [repeat split; auto|].
  destruct (IH (recalc cfg k s)) as [A [B [C [D E]]]]. destruct (recalc_proj cfg k s) as [A' [B' [C' [D' E']]]].
  repeat split; congruence.
Qed.

Lemma lookup_set_same : forall {K V} (keq : K -> K -> bool), (forall a b, keq a b = true <-> a = b) ->
  forall (m : list (K * V)) k v k', lookup keq m k = Some v -> lookup keq (set keq m k v) k' = lookup keq m k'.
Proof.
  intros K V keq Hs m k v k' H. destruct (keq k k') eqn:E.
  - apply Hs in E. subst. rewrite (lookup_set_eq keq Hs). auto.
  - rewrite (lookup_set_neq keq Hs); auto. intro; subst. rewrite (keq_refl keq Hs) in E. discriminate.
Qed.

Lemma lookup_remove_none : forall {K V} (keq : K -> K -> bool), (forall a b, keq a b = true <-> a = b) ->
  forall (m : list (K * V)) k k', lookup keq m k = None -> lookup keq (remove keq m k) k' = lookup keq m k'.
Proof.
  intros K V keq Hs m k k' H. destruct (keq k k') eqn:E.
  - apply Hs in E. subst. rewrite lookup_remove_eq. auto.
  - rewrite (lookup_remove_neq keq Hs); auto. intro; subst. rewrite (keq_refl keq Hs) in E. discriminate.
Qed.

(* telling Felix what it already knows changes nothing in its view *)
Lemma on_iface_noop : forall cfg now name e s,
  VM cfg s e -> wf_links e ->
  veq (match lookup String.eqb (e_links e) name with
       | Some l => on_iface cfg now name (l_idx l) (link_state l) s
       | None => on_iface cfg now name 0 IfNP s
       end) s.
Proof.
  intros cfg now name e s [V1 [V2 V3]] [WI WZ].
  destruct (lookup String.eqb (e_links e) name) as [l|] eqn:EL.
  - unfold on_iface. destruct (iface_is_ours (c_pol cfg) name) eqn:EO; [|apply veq_refl]. cbn [negb].
    match goal with |- veq (recalc_all cfg ?ks ?s2) s => destruct (recalc_all_proj cfg ks s2) as [_ [B [C [D _]]]] end.
    unfold veq. rewrite B, C, D. clear B C D.
    destruct (on_iface_seen_all now (l_idx l) s) as [_ [_ [O3 [O4 O5]]]].
    assert (lookup String.eqb (s_n2i s) name = Some (l_idx l)) as N1 by (rewrite V1, EO, EL; reflexivity).
    assert (lookup N.eqb (s_i2n s) (l_idx l) = Some name) as N2 by (apply V2; split; auto; exists l; auto).
    assert (lookup N.eqb (s_istate s) (l_idx l) = Some (link_state l)) as N3 by (apply V3; exists name, l; auto).
    unfold link_state in *. destruct (l_running l); cbn; rewrite ?O3, ?O4, ?O5, N1, N.eqb_refl; repeat split; intros;
      first [apply (lookup_set_same String.eqb string_eqb_spec); auto
            | apply (lookup_set_same N.eqb N_eqb_spec); auto].
  - unfold on_iface. destruct (iface_is_ours (c_pol cfg) name) eqn:EO; [|apply veq_refl]. cbn [negb].
    match goal with |- veq (recalc_all cfg ?ks ?s2) s => destruct (recalc_all_proj cfg ks s2) as [_ [B [C [D _]]]] end.
    unfold veq. rewrite B, C, D. clear B C D.
    assert (lookup String.eqb (s_n2i s) name = None) as N1 by (rewrite V1, EO, EL; reflexivity).
    assert (lookup N.eqb (s_i2n s) 0 = None) as N2.
    { destruct (lookup N.eqb (s_i2n s) 0) as [n|] eqn:X; auto. apply V2 in X. destruct X as [_ [l [L1 L2]]]. exfalso. eapply WZ; eauto. }
    assert (lookup N.eqb (s_istate s) 0 = None) as N3.
    { destruct (lookup N.eqb (s_istate s) 0) as [x|] eqn:X; auto. apply V3 in X. destruct X as [n [l [_ [L1 [L2 _]]]]]. exfalso. eapply WZ; eauto. }
    cbn. rewrite N1. repeat split; intros.
    + apply (lookup_remove_none String.eqb string_eqb_spec); auto.
    + apply (lookup_remove_none N.eqb N_eqb_spec); auto.
    + apply (lookup_remove_none N.eqb N_eqb_spec); auto.
Qed.

(* ---------- desired routes are routes the ownership policy recognises ---------- *)
Definition target_ok (cfg : config) (n : string) (t : target) : Prop :=
  if String.eqb n NoOIF
  then mem N.eqb (route_type (t_type t)) [2; 9; 6; 8; 7] = true /\
       route_is_ours (c_pol cfg) NoOIF (kr_proto (render cfg t 0)) = true
  else route_type (t_type t) = 1 /\ String.eqb n "" = false /\
       route_is_ours (c_pol cfg) n (kr_proto (render cfg t 0)) = true.

Definition pol_ok (cfg : config) (s : st) : Prop :=
  forall c n k t, In ((c, n, k), t) (s_routes s) -> target_ok cfg n t.

Lemma VM_wf_ifaces : forall cfg s e, VM cfg s e -> wf_links e -> wf_ifaces s.
Proof.
  intros cfg s e [V1 _] [WI WZ]. split.
  - intros n n' i H H'. rewrite V1 in H, H'.
    destruct (iface_is_ours (c_pol cfg) n); [|discriminate]. destruct (iface_is_ours (c_pol cfg) n'); [|discriminate].
    destruct (lookup String.eqb (e_links e) n) as [l|] eqn:L; [|discriminate].
    destruct (lookup String.eqb (e_links e) n') as [l'|] eqn:L'; [|discriminate].
    simpl in H, H'. eapply WI; eauto. congruence.
  - intros n H. rewrite V1 in H. destruct (iface_is_ours (c_pol cfg) n); [|discriminate].
    destruct (lookup String.eqb (e_links e) n) as [l|] eqn:L; [|discriminate]. simpl in H. injection H as H. eapply WZ; eauto.
Qed.

Lemma VM_wf_event : forall cfg s e name l, VM cfg s e -> wf_links e ->
  lookup String.eqb (e_links e) name = Some l -> wf_event s name (l_idx l) (link_state l).
Proof.
  intros cfg s e name l [V1 _] [WI WZ] L.
  assert (l_idx l <> 0 /\ forall n, n <> name -> lookup String.eqb (s_n2i s) n <> Some (l_idx l)) as X.
  { split; [eapply WZ; eauto|]. intros n Hn H. rewrite V1 in H. destruct (iface_is_ours (c_pol cfg) n); [|discriminate].
    destruct (lookup String.eqb (e_links e) n) as [l'|] eqn:L'; [|discriminate]. simpl in H. injection H as H.
    apply Hn. eapply WI; eauto. }
  unfold wf_event, link_state. destruct (l_running l); exact X.
Qed.

Lemma winner_ours : forall cfg s e k d, VM cfg s e -> wf_links e -> pol_ok cfg s ->
  winner cfg s k = Some d -> kroute_is_ours cfg s d = true.
Proof.
  intros cfg s e k d [V1 [V2 V3]] WL PO H.
  apply winner_by_class_priority in H. destruct H as [c [n [t [idx [I [[U _] [-> _]]]]]]].
  specialize (PO _ _ _ _ I). unfold target_ok in PO. unfold idx_for_name in U.
  Transparent kroute_is_ours. unfold kroute_is_ours, special_noif. Opaque kroute_is_ours. cbn [kr_ifx kr_type kr_proto render] in *.
  destruct (String.eqb n NoOIF) eqn:En.
  - injection U as <-. destruct PO as [P1 P2]. unfold mem in *. rewrite P1. cbn. exact P2.
  - destruct PO as [P1 [P2 P3]]. rewrite P1. cbn [mem existsb N.eqb Pos.eqb orb andb].
    rewrite andb_false_r.
    assert (lookup N.eqb (s_i2n s) idx = Some n) as X.
    { apply V2. rewrite V1 in U. destruct (iface_is_ours (c_pol cfg) n); [|discriminate]. split; auto.
      destruct (lookup String.eqb (e_links e) n) as [l|]; [|discriminate]. simpl in U. injection U as U. exists l. auto. }
    rewrite X, P2. exact P3.
Qed.

(* ---------- the synchronised state ---------- *)
Definition Ours (cfg : config) (s : st) : Prop :=
  forall k r, lookup rkey_eqb (s_dp s) k = Some r -> kroute_is_ours cfg s r = true.
Definition Own (cfg : config) (s : st) (e : env) : Prop :=
  forall k r, tbl cfg e k = Some r -> kroute_is_ours cfg s r = true -> lookup rkey_eqb (s_dp s) k = Some r.

Record J (cfg : config) (e : env) (s : st) : Prop := {
  j_sub : Sub cfg s e;
  j_ours : Ours cfg s;
  j_own : Own cfg s e;
  j_vm : VM cfg s e;
  j_i1 : I1 cfg s;
  j_pol : pol_ok cfg s
}.

Lemma J_desired_ours : forall cfg e s, wf_links e -> J cfg e s ->
  forall k d, lookup rkey_eqb (s_desired s) k = Some d -> kroute_is_ours cfg s d = true.
Proof. intros cfg e s WL HJ k d H. rewrite (j_i1 _ _ _ HJ k) in H. eapply winner_ours; eauto; apply HJ. Qed.

(* changes of the dataplane view only *)
Lemma J_upd_dp : forall cfg e s dp', J cfg e s ->
  Sub cfg (upd_dp s dp') e -> Ours cfg (upd_dp s dp') -> Own cfg (upd_dp s dp') e -> J cfg e (upd_dp s dp').
Proof.
  intros cfg e s dp' HJ A B C. constructor; auto.
  - apply (VM_veq cfg s); [apply veq_of_eq; reflexivity|apply HJ].
  - intros k. unfold I1at. rewrite (winner_ext cfg (upd_dp s dp') s); auto. apply (j_i1 _ _ _ HJ).
  - exact (j_pol _ _ _ HJ).
Qed.

Lemma on_iface_routes : forall cfg now name idx state s, s_routes (on_iface cfg now name idx state s) = s_routes s.
Proof.
  intros. unfold on_iface. destruct (negb (iface_is_ours (c_pol cfg) name)); auto.
  match goal with |- s_routes (recalc_all cfg ?ks ?s2) = _ => destruct (recalc_all_proj cfg ks s2) as [A _]; rewrite A end.
  destruct (on_iface_seen_all now idx s) as [O1 _]. destruct state; cbn; rewrite ?O1; reflexivity.
Qed.

Definition tell_truth (cfg : config) (now : N) (name : string) (e : env) (s : st) : st :=
  match lookup String.eqb (e_links e) name with
  | Some l => on_iface cfg now name (l_idx l) (link_state l) s
  | None => on_iface cfg now name 0 IfNP s
  end.

Lemma tell_truth_J : forall cfg now name e s, wf_links e -> J cfg e s -> J cfg e (tell_truth cfg now name e s).
Proof.
  intros cfg now name e s WL HJ.
  pose proof (on_iface_noop cfg now name e s (j_vm _ _ _ HJ) WL) as VE. fold (tell_truth cfg now name e s) in VE.
  assert (s_dp (tell_truth cfg now name e s) = s_dp s) as DP.
  { unfold tell_truth. destruct (lookup String.eqb (e_links e) name); apply on_iface_dp. }
  assert (s_routes (tell_truth cfg now name e s) = s_routes s) as RT.
  { unfold tell_truth. destruct (lookup String.eqb (e_links e) name); apply on_iface_routes. }
  constructor.
  - unfold Sub. rewrite DP. apply HJ.
  - unfold Ours. rewrite DP. intros k r H. rewrite (ours_veq cfg _ s); auto. eapply (j_ours _ _ _ HJ); eauto.
  - unfold Own. rewrite DP. intros k r H O. rewrite (ours_veq cfg _ s) in O; auto. eapply (j_own _ _ _ HJ); eauto.
  - eapply VM_veq; eauto. apply HJ.
  - unfold tell_truth. destruct (lookup String.eqb (e_links e) name) as [l|] eqn:L.
    + apply on_iface_I1; [eapply VM_wf_ifaces; eauto; apply HJ | eapply VM_wf_event; eauto; apply HJ | apply HJ].
    + apply on_iface_I1; [eapply VM_wf_ifaces; eauto; apply HJ | exact I | apply HJ].
  - unfold pol_ok. rewrite RT. apply HJ.
Qed.

(* ---------- the per-interface listing ---------- *)
Lemma astep_fold_ours : forall cfg now rs s seen0 s2 seen,
  fold_left (astep cfg now false) rs (s, seen0) = (s2, seen) ->
  s_routes s2 = s_routes s /\ s_n2i s2 = s_n2i s /\ s_i2n s2 = s_i2n s /\ s_istate s2 = s_istate s /\ s_desired s2 = s_desired s /\
  forall k r, lookup rkey_eqb (s_dp s2) k = Some r ->
              lookup rkey_eqb (s_dp s) k = Some r \/ (In (k, r) rs /\ kroute_is_ours cfg s r = true).
Proof.
  induction rs as [|[k0 r0] rs IH]; intros s seen0 s2 seen H; cbn [fold_left] in H.
  - injection H as <- <-. repeat split; auto.
  - unfold astep at 2 in H.
    destruct (kroute_is_ours cfg s r0) eqn:Eo.
    + apply IH in H. cbn [s_routes s_n2i s_i2n s_istate s_desired s_dp upd_dp] in H. destruct H as [A [B [C [D [E F]]]]].
      repeat split; auto. intros k r L. destruct (F k r L) as [X|[X Y]].
      * destruct (rkey_dec k0 k) as [->|N].
        -- rewrite (lookup_set_eq rkey_eqb rkey_eqb_spec) in X. injection X as <-. right. split; [left; auto|auto].
        -- rewrite (lookup_set_neq rkey_eqb rkey_eqb_spec) in X by auto. auto.
      * right. split; [right; auto|]. rewrite <- Y. apply ours_ext. reflexivity.
    + apply IH in H. destruct H as [A [B [C [D [E F]]]]]. repeat split; auto.
      intros k r L. destruct (F k r L) as [X|[X Y]]; [auto | right; split; [right; auto|auto]].
Qed.

Lemma filter_none : forall {A} (f : A -> bool) l, (forall x, In x l -> f x = false) -> filter f l = [].
Proof. induction l as [|a l IH]; intros H; simpl; auto. rewrite (H a (or_introl eq_refl)). apply IH. intros; apply H; right; auto. Qed.

Lemma lookup_none_not_in : forall (m : list (rkey * kroute)) k, lookup rkey_eqb m k = None -> ~ In k (keys m).
Proof.
  induction m as [|[k0 v0] m IH]; simpl; intros k H; [tauto|].
  destruct (rkey_eqb k k0) eqn:E; [discriminate|]. intros [X|X].
  - subst. rewrite (keq_refl rkey_eqb rkey_eqb_spec) in E. discriminate.
  - eapply IH; eauto.
Qed.

Lemma J_same : forall cfg e s s', J cfg e s ->
  s_routes s' = s_routes s -> s_n2i s' = s_n2i s -> s_i2n s' = s_i2n s -> s_istate s' = s_istate s -> s_desired s' = s_desired s ->
  Sub cfg s' e -> Ours cfg s' -> Own cfg s' e -> J cfg e s'.
Proof.
  intros cfg e s s' HJ A B C D E S1 S2 S3. constructor; auto.
  - apply (VM_veq cfg s); [apply veq_of_eq; auto|apply HJ].
  - intros k. unfold I1at. rewrite E. rewrite (winner_ext cfg s' s); auto. apply (j_i1 _ _ _ HJ).
  - unfold pol_ok. rewrite A. apply HJ.
Qed.

Lemma lookup_in : forall (m : list (rkey * kroute)) k v, lookup rkey_eqb m k = Some v -> In (k, v) m.
Proof.
  induction m as [|[k0 v0] m IH]; simpl; intros k v H; [discriminate|].
  destruct (rkey_eqb k k0) eqn:E.
  - apply rkey_eqb_spec in E. subst. injection H as ->. auto.
  - right. auto.
Qed.

Lemma nodup_keys_filter : forall (f : rkey * kroute -> bool) (m : list (rkey * kroute)), NoDup (keys m) -> NoDup (keys (filter f m)).
Proof.
  induction m as [|[k0 v0] m IH]; simpl; intros ND; auto.
  inversion ND as [|x xs NI ND']; subst. destruct (f (k0, v0)); simpl; auto.
  constructor; auto. intro HI. apply NI. clear - HI. induction m as [|[k1 v1] m IH]; simpl in *; auto.
  destruct (f (k1, v1)); simpl in *; tauto.
Qed.

(* plans in which no netlink call lies about the existence of an interface, and no dump is overtaken by outside changes *)
Definition plan_honest (p : plan) : bool :=
  plan_simple p &&
  forallb (fun e : nlop * N * fkind => match e with (NLinkByName _, _, FNotFound) => false | _ => true end) p.

Transparent nl_call.
Lemma nl_call_honest : forall p name w w', plan_honest p = true -> nl_call p (NLinkByName name) w = (Some FNotFound, w') -> False.
Proof.
  unfold nl_call, planned. intros p name w w' PH H. injection H as H _.
  match type of H with (match ?L with _ => _ end) = _ => destruct L as [|e l] eqn:EL end; [discriminate|].
  injection H as H.
  assert (In e (e :: l)) as X by (left; auto). rewrite <- EL in X. apply filter_In in X. destruct X as [HI HF].
  unfold plan_honest in PH. apply andb_true_iff in PH. destruct PH as [_ PH]. rewrite forallb_forall in PH. specialize (PH e HI).
  destruct e as [[o n] k]. simpl in H. subst k. apply andb_true_iff in HF. destruct HF as [HF _]. simpl in HF.
  destruct o; simpl in HF; try discriminate.
Qed.
Opaque nl_call.

Lemma resync_iface_J : forall cfg p name w b w' e,
  plan_honest p = true -> c_fixB cfg = true -> wf_links e -> NoDup (keys (e_routes e)) ->
  w_env w = e -> J cfg e (w_st w) ->
  resync_iface cfg p name w = (b, w') -> w_env w' = e /\ J cfg e (w_st w').
Proof.
  intros cfg p name w b w' e PH FB WL ND EV HJ H.
  pose proof (resync_iface_env _ _ _ _ _ _ H) as EV'. split; [congruence|].
  unfold resync_iface in H.
  destruct (nl_call p (NLinkByName name) w) as [f w1] eqn:E1.
  assert (f <> Some FNotFound) as NL by (intro; subst; eapply nl_call_honest; eauto).
  apply nl_call_frame in E1. destruct E1 as [A1 A2].
  match type of H with (match ?R with Some _ => _ | None => _ end) = _ => destruct R as [w2|] eqn:ER end.
  2:{ injection H as <- <-. simpl. rewrite A1. exact HJ. }
  assert (w_st w2 = tell_truth cfg (e_now (w_env w)) name e (w_st w) /\ w_env w2 = e) as [B1 B2].
  { destruct f as [[| | |ks0 m0]|]; try discriminate; try (exfalso; apply NL; reflexivity).
    unfold tell_truth. rewrite A2, A1 in ER. rewrite <- EV.
    destruct (lookup String.eqb (e_links (w_env w)) name); injection ER as <-; simpl; auto. }
  assert (J cfg e (w_st w2)) as J2 by (rewrite B1; apply tell_truth_J; auto).
  destruct (idx_for_name (w_st w2) name) as [idx|].
  2:{ injection H as <- <-. exact J2. }
  destruct (list_retry p (NRouteListIf idx) 5 w2) as [failed w3] eqn:E3.
  apply list_retry_frame in E3. destruct E3 as [C1 C2].
  destruct failed.
  - destruct (filter_error p name w3) as [fe w4] eqn:E4. apply filter_error_frame in E4. destruct E4 as [D1 D2].
    assert (w_st w4 = w_st w2) as X by congruence.
    destruct fe; injection H as <- <-; simpl; rewrite X; exact J2.
  - set (rs := filter (fun kr : rkey * kroute => N.eqb (kr_ifx (snd kr)) idx) (table_routes cfg (w_env w3))) in *.
    destruct (absorb cfg (e_now (w_env w)) false rs (w_st w3)) as [s4 seen] eqn:EA. rewrite absorb_unfold in EA.
    assert (NoDup (keys rs)) as NDrs by (apply nodup_keys_filter; apply table_routes_nodup; rewrite C2, B2; auto).
    destruct (astep_fold _ _ _ _ _ _ _ _ NDrs EA) as [_ [_ [SEEN [KEEP HIT]]]].
    destruct (astep_fold_ours _ _ _ _ _ _ _ EA) as [P1 [P2 [P3 [P4 [P5 FROM]]]]].
    rewrite C1 in *.
    assert (forall k r, In (k, r) rs -> tbl cfg e k = Some r) as RS_TBL.
    { intros k r HI. apply filter_In in HI. destruct HI as [HI _]. rewrite <- table_routes_lookup.
      apply in_lookup_nodup; [apply table_routes_nodup; auto|]. rewrite <- B2, <- C2. exact HI. }
    assert (forall r, kroute_is_ours cfg s4 r = kroute_is_ours cfg (w_st w2) r) as OE by (intros; apply ours_ext; auto).
    assert (J cfg e s4) as J4.
    { apply (J_same cfg e (w_st w2)); auto.
      - intros k r L. destruct (FROM k r L) as [X|[X _]]; [apply (j_sub _ _ _ J2); auto|apply RS_TBL; auto].
      - intros k r L. rewrite OE. destruct (FROM k r L) as [X|[_ X]]; [eapply (j_ours _ _ _ J2); eauto|auto].
      - intros k r T O. rewrite OE in O. pose proof (j_own _ _ _ J2 k r T O) as D3.
        destruct (lookup rkey_eqb rs k) as [r'|] eqn:LR.
        + assert (r' = r) as -> by (apply lookup_in in LR; apply RS_TBL in LR; congruence). apply HIT; auto.
        + rewrite KEEP; auto. apply lookup_none_not_in. auto. }
    match type of H with context [filter ?F (keys_of_iface s4 name)] => assert (filter F (keys_of_iface s4 name) = []) as NOMISS end.
    { apply filter_none. intros k _. rewrite FB. cbn [negb orb].
      destruct (mem rkey_eqb k seen) eqn:M; [reflexivity|]. cbn [negb andb].
      destruct (lookup rkey_eqb (s_desired s4) k) as [d|]; [|reflexivity].
      destruct (N.eqb (kr_ifx d) idx); [|reflexivity]. cbn [andb].
      destruct (lookup rkey_eqb (s_dp s4) k) as [r|] eqn:L4; [|reflexivity].
      destruct (N.eqb (kr_ifx r) idx) eqn:EI; [|reflexivity]. exfalso.
      pose proof (j_sub _ _ _ J4 k r L4) as T.
      assert (In (k, r) rs) as HI.
      { unfold rs. apply filter_In. split; [|exact EI]. rewrite C2, B2. apply lookup_in. rewrite table_routes_lookup. exact T. }
      assert (mem rkey_eqb k seen = true) as M'.
      { apply SEEN. right. exists r. split; [apply in_lookup_nodup; auto|]. rewrite <- OE. eapply (j_ours _ _ _ J4); eauto. }
      congruence. }
    rewrite NOMISS in H. cbn [fold_left] in H. injection H as <- <-. cbn [w_st wst].
    apply (J_same cfg e s4); auto; try apply J4.
Qed.

Lemma resync_ifaces_J : forall cfg p w e,
  plan_honest p = true -> c_fixB cfg = true -> wf_links e -> NoDup (keys (e_routes e)) ->
  w_env w = e -> J cfg e (w_st w) ->
  w_env (resync_ifaces cfg p w) = e /\ J cfg e (w_st (resync_ifaces cfg p w)).
Proof.
  intros cfg p w e PH FB WL ND. unfold resync_ifaces.
  generalize (s_rescan (w_st w)) as names. intros names. revert w.
  induction names as [|n names IH]; intros w EV HJ; cbn [fold_left]; auto.
  destruct (negb (mem String.eqb n (s_rescan (w_st w)))); [apply IH; auto|].
  destruct (resync_iface cfg p n w) as [err w1] eqn:E.
  destruct (resync_iface_J _ _ _ _ _ _ _ PH FB WL ND EV HJ E) as [EV1 J1].
  destruct err; apply IH; simpl; auto.
  apply (J_same cfg e (w_st w1)); auto; apply J1.
Qed.

(* what applyUpdates leaves alone *)
Section FoldProj.
  Context {A : Type} (G : st -> env -> A).
  Hypothesis G_dp : forall s x e, G (upd_dp s x) e = G s e.
  Hypothesis G_rescan : forall s x e, G (upd_rescan s x) e = G s e.
  Hypothesis G_del : forall s e k, G s (env_del_route e k) = G s e.
  Hypothesis G_set : forall s e k d, G s (env_set_route e k d) = G s e.

  Lemma del_fold_proj : forall cfg p ks e0 w0 e w,
    fold_left (del_step cfg p) ks (e0, w0) = (e, w) -> G (w_st w) (w_env w) = G (w_st w0) (w_env w0).
  Proof.
    induction ks as [|k ks IH]; intros e0 w0 e w H; cbn [fold_left] in H.
    - injection H as <- <-. auto.
    - destruct (del_step cfg p (e0, w0) k) as [e1 w1] eqn:S1. rewrite (IH _ _ _ _ H).
      apply del_step_cases in S1. destruct S1 as [[E [F _]]|[[E [F _]]|[r [_ [_ [E [F _]]]]]]]; rewrite E, F; auto.
      rewrite G_dp, G_del. auto.
  Qed.

  Lemma upd_fold_proj : forall cfg p ks e0 w0 e w,
    fold_left (upd_step cfg p) ks (e0, w0) = (e, w) -> G (w_st w) (w_env w) = G (w_st w0) (w_env w0).
  Proof.
    induction ks as [|k ks IH]; intros e0 w0 e w H; cbn [fold_left] in H.
    - injection H as <- <-. auto.
    - destruct (upd_step cfg p (e0, w0) k) as [e1 w1] eqn:S1. rewrite (IH _ _ _ _ H).
      apply upd_step_cases in S1. destruct S1 as [[E [F _]]|[[E [F _]]|[[n [E [F _]]]|[d [_ [E [F _]]]]]]]; rewrite E, F; auto.
      rewrite G_dp, G_set. auto.
  Qed.

  Lemma apply_updates_proj : forall cfg p w b w', apply_updates cfg p w = (b, w') -> G (w_st w') (w_env w') = G (w_st w) (w_env w).
  Proof.
    intros cfg p w b w' H. unfold apply_updates in H.
    destruct (handle p w) as [ok w1] eqn:Eh. apply handle_frame in Eh. destruct Eh as [H1 H2].
    destruct ok; simpl in H.
    2:{ injection H as <- <-. rewrite H1, H2. auto. }
    destruct (fold_left (del_step cfg p) (keys (s_dp (w_st w1))) (false, w1)) as [e1 w2] eqn:Ed.
    cbn [snd] in H. rewrite (upd_fold_proj _ _ _ _ _ _ _ H), (del_fold_proj _ _ _ _ _ _ _ Ed). congruence.
  Qed.
End FoldProj.

Definition core (s : st) (e : env) :=
  (s_routes s, s_n2i s, s_i2n s, s_istate s, s_desired s, s_full s, s_grace s, e_links e, e_now e).

Lemma apply_updates_core : forall cfg p w b w', apply_updates cfg p w = (b, w') -> core (w_st w') (w_env w') = core (w_st w) (w_env w).
Proof. intros. eapply (apply_updates_proj core); eauto. Qed.

Lemma apply_updates_J : forall cfg p w b w',
  wf_links (w_env w) -> J cfg (w_env w) (w_st w) ->
  apply_updates cfg p w = (b, w') -> J cfg (w_env w') (w_st w').
Proof.
  intros cfg p w b w' WL HJ H.
  pose proof (apply_updates_core _ _ _ _ _ H) as C. unfold core in C.
  injection C as C1 C2 C3 C4 C5 C6 C7 C8 C9.
  pose proof (apply_updates_sub _ _ _ _ _ H (j_sub _ _ _ HJ)) as S'.
  assert (forall r, kroute_is_ours cfg (w_st w') r = kroute_is_ours cfg (w_st w) r) as OE by (intros; apply ours_ext; auto).
  assert (VM cfg (w_st w') (w_env w')) as V'.
  { destruct (j_vm _ _ _ HJ) as [V1 [V2 V3]]. unfold VM. rewrite C2, C3, C4, C8. auto. }
  assert (I1 cfg (w_st w')) as I'.
  { intros k. unfold I1at. rewrite C5. rewrite (winner_ext cfg (w_st w') (w_st w)); auto. apply (j_i1 _ _ _ HJ). }
  unfold apply_updates in H.
  destruct (handle p w) as [ok w1] eqn:Eh. apply handle_frame in Eh. destruct Eh as [H1 H2].
  destruct ok; simpl in H.
  2:{ injection H as <- <-. rewrite H1, H2. exact HJ. }
  destruct (fold_left (del_step cfg p) (keys (s_dp (w_st w1))) (false, w1)) as [e1 w2] eqn:Ed.
  cbn [snd] in H.
  destruct (upd_fold _ _ _ _ _ _ _ H) as [[UF [_ UK]] _]. destruct (del_fold _ _ _ _ _ _ _ Ed) as [[DF [_ DK]] _].
  assert (forall k, desk w2 k = desk w k) as DS2 by (intros; unfold desk; rewrite (fr_des _ _ _ DF), H1; auto).
  constructor; auto.
  - intros k r L. rewrite OE. fold (dpk w' k) in L.
    destruct (UK k) as [[D _]|[d [X [Y _]]]].
    + rewrite D in L. destruct (DK k) as [[D2 _]|[D2 _]]; [|congruence].
      rewrite D2 in L. unfold dpk in L. rewrite H1 in L. eapply (j_ours _ _ _ HJ); eauto.
    + rewrite Y in L. injection L as <-. rewrite DS2 in X. eapply J_desired_ours; eauto.
  - intros k r T O. rewrite OE in O. fold (dpk w' k).
    destruct (UK k) as [[D T2]|[d [X [Y Z]]]]; [|congruence].
    rewrite D. rewrite T2 in T.
    destruct (DK k) as [[D2 T3]|[_ [T3 _]]]; [|congruence].
    rewrite D2. rewrite T3, H2 in T. unfold dpk. rewrite H1. eapply (j_own _ _ _ HJ); eauto.
  - unfold pol_ok. rewrite C1. apply HJ.
Qed.
