(* C17 — conflict resolution: the winner of a destination, and the invariant "desired = winner". *)
From Coq Require Import List NArith Bool String Lia Permutation.
From Verif.C17 Require Import Model Spec Proofs.
Import ListNotations.
Open Scope N_scope.
Arguments set : simpl never.

(* a candidate route can be used: its interface has a known index and is up (or it has no interface) *)
Definition usable (s : st) (n : string) (idx : N) : Prop :=
  idx_for_name s n = Some idx /\ (n = NoOIF \/ state_of s idx = IfUp).

Lemma ifstate_eqb_spec : forall a b, ifstate_eqb a b = true <-> a = b.
Proof. intros [] []; simpl; split; intros; try discriminate; auto. Qed.

Lemma usable_dec : forall s n idx, idx_for_name s n = Some idx ->
  (negb (String.eqb n NoOIF) && negb (ifstate_eqb (state_of s idx) IfUp) = false <-> usable s n idx).
Proof.
  intros s n idx H. unfold usable. split.
  - intros E. split; auto. apply andb_false_iff in E. destruct E as [E|E].
    + left. apply negb_false_iff in E. apply String.eqb_eq. auto.
    + right. apply negb_false_iff in E. apply ifstate_eqb_spec. auto.
  - intros [_ [E|E]].
    + subst. rewrite String.eqb_refl. auto.
    + rewrite E. simpl. apply andb_false_r.
Qed.

(* (c, idx) is at least as good as (c', idx'): lower class, then higher ifindex *)
Definition geq (c idx c' idx' : N) : Prop := c < c' \/ (c = c' /\ idx' <= idx).

Lemma better_true : forall c idx bc bi bt, better c idx (Some (bc, bi, bt)) = true -> geq c idx bc bi.
Proof. unfold better, geq. intros. apply orb_true_iff in H. destruct H as [H|H].
  - left. apply N.ltb_lt. auto.
  - apply andb_true_iff in H. destruct H as [H1 H2]. apply N.eqb_eq in H1. apply N.ltb_lt in H2. right. split; auto. lia.
Qed.

Lemma better_false : forall c idx bc bi bt, better c idx (Some (bc, bi, bt)) = false -> geq bc bi c idx.
Proof. unfold better, geq. intros. apply orb_false_iff in H. destruct H as [H1 H2]. apply N.ltb_ge in H1.
  apply andb_false_iff in H2. destruct H2 as [H2|H2].
  - apply N.eqb_neq in H2. left. lia.
  - apply N.ltb_ge in H2. destruct (N.eq_dec c bc); [right; split; auto; lia | left; lia].
Qed.

Lemma geq_trans : forall a b c d e f, geq a b c d -> geq c d e f -> geq a b e f.
Proof. unfold geq. intros. lia. Qed.

Lemma geq_refl : forall a b, geq a b a b.
Proof. unfold geq. intros. right. split; auto. lia. Qed.

Lemma pick_spec : forall s l best,
  match pick s l best with
  | Some (c, idx, t) =>
      (best = Some (c, idx, t) \/ exists n, In (c, n, t) l /\ usable s n idx) /\
      (forall c' n' t' idx', In (c', n', t') l -> usable s n' idx' -> geq c idx c' idx') /\
      (forall bc bi bt, best = Some (bc, bi, bt) -> geq c idx bc bi)
  | None => best = None /\ forall c n t idx, In (c, n, t) l -> ~ usable s n idx
  end.
Proof.
  induction l as [|[[c n] t] l IH]; intros best; simpl.
  - destruct best as [[[bc bi] bt]|].
    + split; [left; auto|]. split; [intros; contradiction|]. intros ? ? ? E. injection E as <- <- <-. apply geq_refl.
    + split; auto.
  - destruct (idx_for_name s n) as [idx|] eqn:En.
    2:{ specialize (IH best). destruct (pick s l best) as [[[c0 i0] t0]|].
        - destruct IH as [A [B C]]. split; [|split]; auto.
          + destruct A as [A|[n0 [A1 A2]]]; [left; auto | right; exists n0; auto].
          + intros c' n' t' idx' [E|HI] U; [|eauto]. injection E as <- <- <-. destruct U as [U _]. congruence.
        - destruct IH as [A B]. split; auto. intros c' n' t' idx' [E|HI] U; [|eapply B; eauto].
          injection E as <- <- <-. destruct U as [U _]. congruence. }
    destruct (negb (String.eqb n NoOIF) && negb (ifstate_eqb (state_of s idx) IfUp)) eqn:Eu.
    { assert (~ usable s n idx) as NU by (intro U; apply (usable_dec s n idx En) in U; congruence).
      specialize (IH best). destruct (pick s l best) as [[[c0 i0] t0]|].
      - destruct IH as [A [B C]]. split; [|split]; auto.
        + destruct A as [A|[n0 [A1 A2]]]; [left; auto | right; exists n0; auto].
        + intros c' n' t' idx' [E|HI] U; [|eauto]. injection E as <- <- <-.
          assert (idx' = idx) as -> by (destruct U as [U _]; congruence). contradiction.
      - destruct IH as [A B]. split; auto. intros c' n' t' idx' [E|HI] U; [|eapply B; eauto].
        injection E as <- <- <-. assert (idx' = idx) as -> by (destruct U as [U _]; congruence). contradiction. }
    apply (usable_dec s n idx En) in Eu.
    destruct (better c idx best) eqn:Eb.
    + specialize (IH (Some (c, idx, t))). destruct (pick s l (Some (c, idx, t))) as [[[c0 i0] t0]|].
      * destruct IH as [A [B C]]. split; [|split].
        -- destruct A as [A|[n0 [A1 A2]]]; [injection A as <- <- <-; right; exists n; auto | right; exists n0; auto].
        -- intros c' n' t' idx' [E|HI] U; [|eauto]. injection E as <- <- <-.
           assert (idx' = idx) as -> by (destruct U as [U _]; congruence). eapply C; eauto.
        -- intros bc bi bt ->. eapply geq_trans; [eapply C; eauto|]. eapply better_true; eauto.
      * destruct IH as [A _]. discriminate.
    + destruct best as [[[bc bi] bt]|]; [|simpl in Eb; discriminate].
      specialize (IH (Some (bc, bi, bt))). destruct (pick s l (Some (bc, bi, bt))) as [[[c0 i0] t0]|].
      * destruct IH as [A [B C]]. split; [|split]; auto.
        -- destruct A as [A|[n0 [A1 A2]]]; [left; auto | right; exists n0; auto].
        -- intros c' n' t' idx' [E|HI] U; [|eauto]. injection E as <- <- <-.
           assert (idx' = idx) as -> by (destruct U as [U _]; congruence).
           eapply geq_trans; [eapply C; eauto|]. eapply better_false; eauto.
      * destruct IH as [A _]. discriminate.
Qed.

(* with no accumulator *)
Lemma pick_none_iff : forall s l, pick s l None = None <-> forall c n t idx, In (c, n, t) l -> ~ usable s n idx.
Proof.
  intros s l. pose proof (pick_spec s l None) as P. destruct (pick s l None) as [[[c idx] t]|].
  - destruct P as [[A|[n [A1 A2]]] _]; [discriminate|]. split; [discriminate|]. intros H. exfalso. eapply H; eauto.
  - destruct P as [_ B]. split; auto.
Qed.

Lemma pick_some : forall s l c idx t, pick s l None = Some (c, idx, t) ->
  (exists n, In (c, n, t) l /\ usable s n idx) /\
  (forall c' n' t' idx', In (c', n', t') l -> usable s n' idx' -> geq c idx c' idx').
Proof.
  intros s l c idx t H. pose proof (pick_spec s l None) as P. rewrite H in P.
  destruct P as [[A|A] [B _]]; [discriminate|]. auto.
Qed.

(* the result does not depend on the order in which the candidates are visited (Go map order, order of arrival),
   provided two usable candidates of the same class on the same ifindex carry the same target *)
Definition det (s : st) (l : list (N * string * target)) : Prop :=
  forall c n t n' t' idx, In (c, n, t) l -> In (c, n', t') l -> usable s n idx -> usable s n' idx -> t = t'.

Lemma pick_order_independent : forall s l l', Permutation l l' -> det s l -> pick s l None = pick s l' None.
Proof.
  intros s l l' P D.
  destruct (pick s l None) as [[[c idx] t]|] eqn:E1; destruct (pick s l' None) as [[[c' idx'] t']|] eqn:E2; auto.
  - apply pick_some in E1. apply pick_some in E2.
    destruct E1 as [[n [I1 U1]] M1]. destruct E2 as [[n' [I2 U2]] M2].
    assert (In (c', n', t') l) as I2' by (eapply Permutation_in; [apply Permutation_sym; eauto|auto]).
    assert (In (c, n, t) l') as I1' by (eapply Permutation_in; eauto).
    pose proof (M1 _ _ _ _ I2' U2) as G1. pose proof (M2 _ _ _ _ I1' U1) as G2.
    assert (c = c' /\ idx = idx') as [-> ->] by (unfold geq in *; lia).
    rewrite (D _ _ _ _ _ _ I1 I2' U1 U2). reflexivity.
  - apply pick_some in E1. destruct E1 as [[n [I1 U1]] _].
    exfalso. eapply (proj1 (pick_none_iff s l') E2); [eapply Permutation_in; eauto|eauto].
  - apply pick_some in E2. destruct E2 as [[n [I1 U1]] _].
    exfalso. eapply (proj1 (pick_none_iff s l) E1); [eapply Permutation_in; [apply Permutation_sym; eauto|eauto]|eauto].
Qed.

(* ---------- desired = winner, as an invariant ---------- *)
Lemma pick_ext : forall s s' l b, s_n2i s = s_n2i s' -> s_istate s = s_istate s' -> pick s l b = pick s' l b.
Proof.
  intros s s' l b H1 H2. revert b. induction l as [|[[c n] t] l IH]; intros b; simpl; auto.
  unfold idx_for_name, state_of. rewrite H1, H2.
  destruct (if String.eqb n NoOIF then Some 0 else lookup String.eqb (s_n2i s') n); auto.
  destruct (negb (String.eqb n NoOIF) && negb (ifstate_eqb match lookup N.eqb (s_istate s') n0 with Some x => x | None => IfNP end IfUp)); auto.
  destruct (better c n0 b); auto.
Qed.

Lemma winner_ext : forall cfg s s' k, s_routes s = s_routes s' -> s_n2i s = s_n2i s' -> s_istate s = s_istate s' ->
  winner cfg s k = winner cfg s' k.
Proof. intros. unfold winner. rewrite H. rewrite (pick_ext s s'); auto. Qed.

Definition I1at (cfg : config) (s : st) (k : rkey) : Prop := lookup rkey_eqb (s_desired s) k = winner cfg s k.
Definition I1 (cfg : config) (s : st) : Prop := forall k, I1at cfg s k.

Lemma winner_recalc : forall cfg k s k', winner cfg (recalc cfg k s) k' = winner cfg s k'.
Proof. intros. apply winner_ext; unfold recalc; destruct (winner cfg s k); reflexivity. Qed.

Lemma recalc_I1_at : forall cfg k s, I1at cfg (recalc cfg k s) k.
Proof. intros. unfold I1at. rewrite winner_recalc. apply recalc_desired_at. Qed.

Lemma recalc_I1_other : forall cfg k s k', k <> k' -> I1at cfg s k' -> I1at cfg (recalc cfg k s) k'.
Proof. intros. unfold I1at in *. rewrite winner_recalc. rewrite recalc_desired_other; auto. Qed.

Lemma recalc_all_I1 : forall cfg ks s k, (In k ks \/ I1at cfg s k) -> I1at cfg (recalc_all cfg ks s) k.
Proof.
  unfold recalc_all. induction ks as [|k0 ks IH]; intros s k H; simpl.
  - destruct H; [contradiction|auto].
  - apply IH. destruct H as [[->|H]|H]; auto.
    + right. apply recalc_I1_at.
    + destruct (rkey_dec k0 k) as [->|N]; right; [apply recalc_I1_at | apply recalc_I1_other; auto].
Qed.

Lemma dkey_eqb_spec : forall a b : dkey, dkey_eqb a b = true <-> a = b.
Proof.
  intros [[c1 n1] k1] [[c2 n2] k2]. unfold dkey_eqb. rewrite !andb_true_iff, N.eqb_eq, String.eqb_eq, rkey_eqb_spec.
  split; [intros [[-> ->] ->]; auto | intros H; inversion H; auto].
Qed.

Lemma cands_cons : forall c n k' t m k,
  cands (((c, n, k'), t) :: m) k = (if rkey_eqb k k' then [(c, n, t)] else []) ++ cands m k.
Proof. reflexivity. Qed.

Lemma rkey_eqb_neq : forall a b : rkey, a <> b -> rkey_eqb a b = false.
Proof. intros. apply (keq_neq rkey_eqb rkey_eqb_spec); auto. Qed.

Lemma cands_remove_other : forall m c n k k', k <> k' -> cands (remove dkey_eqb m (c, n, k)) k' = cands m k'.
Proof.
  induction m as [|[[[c0 n0] k0] t0] m IH]; intros c n k k' N; auto.
  cbn [remove]. destruct (dkey_eqb (c, n, k) (c0, n0, k0)) eqn:E.
  - apply dkey_eqb_spec in E. injection E as <- <- <-. rewrite cands_cons, IH by auto.
    rewrite rkey_eqb_neq by auto. reflexivity.
  - rewrite !cands_cons, IH by auto. reflexivity.
Qed.

Lemma cands_set_other : forall m c n k t k', k <> k' -> cands (set dkey_eqb m (c, n, k) t) k' = cands m k'.
Proof.
  intros. unfold set. rewrite cands_cons, cands_remove_other by auto. rewrite rkey_eqb_neq by auto. reflexivity.
Qed.

Lemma winner_routes : forall cfg s routes' k,
  cands routes' k = cands (s_routes s) k -> winner cfg (upd_routes s routes') k = winner cfg s k.
Proof.
  intros. unfold winner. cbn [s_routes upd_routes]. rewrite H. rewrite (pick_ext (upd_routes s routes') s); auto.
Qed.

Lemma I1at_routes : forall cfg s routes' k,
  cands routes' k = cands (s_routes s) k -> I1at cfg s k -> I1at cfg (upd_routes s routes') k.
Proof. intros. unfold I1at in *. rewrite winner_routes; auto. Qed.

Lemma route_update_I1 : forall cfg c n k t s, I1 cfg s -> I1 cfg (route_update cfg c n k t s).
Proof.
  intros cfg c n k t s H. unfold route_update. destruct (negb (iface_is_ours (c_pol cfg) n)); auto.
  intros k'. destruct (rkey_dec k k') as [->|N]; [apply recalc_I1_at|].
  apply recalc_I1_other; auto. apply I1at_routes; auto. apply cands_set_other; auto.
Qed.

Lemma route_remove_I1 : forall cfg c n k s, I1 cfg s -> I1 cfg (route_remove cfg c n k s).
Proof.
  intros cfg c n k s H. unfold route_remove. destruct (negb (iface_is_ours (c_pol cfg) n)); auto.
  destruct (lookup dkey_eqb (s_routes s) (c, n, k)); auto.
  intros k'. destruct (rkey_dec k k') as [->|N]; [apply recalc_I1_at|].
  apply recalc_I1_other; auto. apply I1at_routes; auto. apply cands_remove_other; auto.
Qed.

(* SetRoutes *)
Lemma cands_filter_other : forall c name m k,
  ~ In k (map (fun e : dkey * target => snd (fst e)) (filter (of_class_iface c name) m)) ->
  cands (filter (fun e => negb (of_class_iface c name e)) m) k = cands m k.
Proof.
  induction m as [|[[[c0 n0] k0] t0] m IH]; intros k NI; auto.
  cbn [filter] in *. unfold dkey in *. destruct (of_class_iface c name (c0, n0, k0, t0)) eqn:E; cbn [negb] in *.
  - cbn [map fst snd In] in NI. rewrite cands_cons, IH by tauto.
    rewrite rkey_eqb_neq; [reflexivity|]. intro; subst; tauto.
  - rewrite !cands_cons, IH by auto. reflexivity.
Qed.

Lemma cands_fold_set_other : forall c name (ts : list (rkey * target)) m k,
  ~ In k (map fst ts) ->
  cands (fold_left (fun m kt => set dkey_eqb m (c, name, fst kt) (snd kt)) ts m) k = cands m k.
Proof.
  induction ts as [|[k0 t0] ts IH]; intros m k NI; auto.
  cbn [fold_left fst snd map In] in *. rewrite IH by tauto. apply cands_set_other. intro; subst; tauto.
Qed.

Lemma set_routes_I1 : forall cfg c n ts s, I1 cfg s -> I1 cfg (set_routes cfg c n ts s).
Proof.
  intros cfg c n ts s H. unfold set_routes. destruct (negb (iface_is_ours (c_pol cfg) n)); auto.
  intros k. apply recalc_all_I1.
  set (oldks := map (fun e : dkey * target => snd (fst e)) (filter (of_class_iface c n) (s_routes s))).
  destruct (in_dec (fun a b : rkey => match N.eq_dec (fst a) (fst b), N.eq_dec (snd a) (snd b) with
                                      | left e1, left e2 => left (match a, b return fst a = fst b -> snd a = snd b -> a = b with
                                                                  | (a1, a2), (b1, b2) => fun p q => f_equal2 pair p q end e1 e2)
                                      | right n0, _ => right (fun e => n0 (f_equal fst e))
                                      | _, right n0 => right (fun e => n0 (f_equal snd e))
                                      end) k (oldks ++ map fst ts)) as [HI|HN]; [left; auto|].
  right. apply I1at_routes; auto.
  rewrite cands_fold_set_other by (intro X; apply HN; apply in_or_app; auto).
  apply cands_filter_other. intro X; apply HN; apply in_or_app; auto.
Qed.

(* ---------- interface events ---------- *)
Lemma pick_ext_cands : forall s s' l b,
  (forall c n t, In (c, n, t) l ->
     idx_for_name s n = idx_for_name s' n /\
     forall i, idx_for_name s n = Some i -> n <> NoOIF -> state_of s i = state_of s' i) ->
  pick s l b = pick s' l b.
Proof.
  intros s s' l. induction l as [|[[c n] t] l IH]; intros b H; simpl; auto.
  destruct (H c n t (or_introl eq_refl)) as [H1 H2]. rewrite <- H1.
  assert (forall b, pick s l b = pick s' l b) as IH' by (intros b0; apply IH; intros c0 n0 t0 Hin0; apply (H c0 n0 t0); right; exact Hin0).
  destruct (idx_for_name s n) as [i|] eqn:E; auto.
  destruct (String.eqb n NoOIF) eqn:En; simpl.
  - destruct (better c i b); auto.
  - rewrite <- (H2 i eq_refl) by (intro; subst; rewrite String.eqb_refl in En; discriminate).
    destruct (negb (ifstate_eqb (state_of s i) IfUp)); auto. destruct (better c i b); auto.
Qed.

Lemma cands_in : forall m k c n t, In (c, n, t) (cands m k) -> In ((c, n, k), t) m.
Proof.
  induction m as [|[[[c0 n0] k0] t0] m IH]; intros k c n t H; [contradiction|].
  rewrite cands_cons in H. apply in_app_or in H. destruct H as [H|H]; [|right; eauto].
  destruct (rkey_eqb k k0) eqn:E; [|contradiction]. apply rkey_eqb_spec in E. subst.
  destruct H as [H|[]]. injection H as <- <- <-. left; auto.
Qed.

Lemma keys_of_iface_in : forall s c n k t, In ((c, n, k), t) (s_routes s) -> In k (keys_of_iface s n).
Proof.
  intros s c n k t. unfold keys_of_iface. induction (s_routes s) as [|[[[c0 n0] k0] t0] m IH]; intros H; [contradiction|].
  simpl. apply in_or_app. destruct H as [H|H]; [|right; auto].
  injection H as -> -> -> ->. rewrite String.eqb_refl. left. left. auto.
Qed.

(* the interface maps are sane: an ifindex belongs to one name, and 0 is nobody's *)
Definition wf_ifaces (s : st) : Prop :=
  (forall n n' i, lookup String.eqb (s_n2i s) n = Some i -> lookup String.eqb (s_n2i s) n' = Some i -> n = n') /\
  (forall n, lookup String.eqb (s_n2i s) n <> Some 0).

(* an interface event is sane: it does not hand an ifindex that another name still holds to this name *)
Definition wf_event (s : st) (name : string) (idx : N) (state : ifstate) : Prop :=
  match state with
  | IfNP => True
  | _ => idx <> 0 /\ forall n, n <> name -> lookup String.eqb (s_n2i s) n <> Some idx
  end.

Lemma idx_for_name_upd : forall s s' n, lookup String.eqb (s_n2i s') n = lookup String.eqb (s_n2i s) n ->
  idx_for_name s' n = idx_for_name s n.
Proof. intros. unfold idx_for_name. rewrite H. auto. Qed.

Lemma recalc_all_ifmaps : forall cfg ks s,
  s_n2i (recalc_all cfg ks s) = s_n2i s /\ s_routes (recalc_all cfg ks s) = s_routes s.
Proof.
  unfold recalc_all. induction ks as [|k ks IH]; intros s; simpl; auto.
  destruct (IH (recalc cfg k s)) as [A B]. rewrite A, B. unfold recalc. destruct (winner cfg s k); auto.
Qed.

Lemma on_iface_seen_all : forall now idx s,
  s_routes (on_iface_seen now idx s) = s_routes s /\ s_desired (on_iface_seen now idx s) = s_desired s /\
  s_n2i (on_iface_seen now idx s) = s_n2i s /\ s_i2n (on_iface_seen now idx s) = s_i2n s /\
  s_istate (on_iface_seen now idx s) = s_istate s.
Proof.
  intros. unfold on_iface_seen. destruct (idx <=? 1); auto. destruct (lookup N.eqb (s_grace s) idx); cbn; auto.
Qed.
Opaque on_iface_seen.

Lemma wf_set : forall s name idx (m : list (string * N)),
  wf_ifaces s -> m = set String.eqb (s_n2i s) name idx -> idx <> 0 ->
  (forall n, n <> name -> lookup String.eqb (s_n2i s) n <> Some idx) ->
  (forall n n' i, lookup String.eqb m n = Some i -> lookup String.eqb m n' = Some i -> n = n') /\
  (forall n, lookup String.eqb m n <> Some 0).
Proof.
  intros s name idx m [INJ POS] -> WZ WE. split.
  - intros n n' i.
    destruct (string_dec n name) as [->|Hn]; [rewrite (lookup_set_eq String.eqb string_eqb_spec)|rewrite (lookup_set_neq String.eqb string_eqb_spec) by congruence];
    (destruct (string_dec n' name) as [->|Hn']; [rewrite (lookup_set_eq String.eqb string_eqb_spec)|rewrite (lookup_set_neq String.eqb string_eqb_spec) by congruence]);
    intros A B; auto.
    + injection A as <-. exfalso. eapply WE; eauto.
    + injection B as <-. exfalso. eapply WE; eauto.
    + eapply INJ; eauto.
  - intros n. destruct (string_dec n name) as [->|Hn]; [rewrite (lookup_set_eq String.eqb string_eqb_spec)|rewrite (lookup_set_neq String.eqb string_eqb_spec) by congruence].
    + congruence.
    + apply POS.
Qed.

Lemma wf_remove : forall s name (m : list (string * N)),
  wf_ifaces s -> m = remove String.eqb (s_n2i s) name ->
  (forall n n' i, lookup String.eqb m n = Some i -> lookup String.eqb m n' = Some i -> n = n') /\
  (forall n, lookup String.eqb m n <> Some 0).
Proof.
  intros s name m [INJ POS] ->. split.
  - intros n n' i.
    destruct (string_dec n name) as [->|Hn]; [rewrite lookup_remove_eq; discriminate|rewrite (lookup_remove_neq String.eqb string_eqb_spec) by congruence].
    destruct (string_dec n' name) as [->|Hn']; [rewrite lookup_remove_eq; discriminate|rewrite (lookup_remove_neq String.eqb string_eqb_spec) by congruence].
    apply INJ.
  - intros n. destruct (string_dec n name) as [->|Hn]; [rewrite lookup_remove_eq; discriminate|rewrite (lookup_remove_neq String.eqb string_eqb_spec) by congruence].
    apply POS.
Qed.

Lemma ist0_lookup : forall (b : bool) (n2i_name : option N) idx (ist : list (N * ifstate)) i,
  n2i_name <> Some i ->
  lookup N.eqb (match n2i_name with
                | Some old => if N.eqb old idx then ist else if b then remove N.eqb ist old else ist
                | None => ist
                end) i = lookup N.eqb ist i.
Proof.
  intros b o idx ist i H. destruct o as [old|]; auto. destruct (N.eqb old idx); auto. destruct b; auto.
  apply (lookup_remove_neq N.eqb N_eqb_spec). congruence.
Qed.

Lemma on_iface_I1 : forall cfg now name idx state s,
  wf_ifaces s -> wf_event s name idx state -> I1 cfg s ->
  I1 cfg (on_iface cfg now name idx state s) /\ wf_ifaces (on_iface cfg now name idx state s).
Proof.
  intros cfg now name idx state s WF WE H. pose proof WF as [INJ POS]. unfold on_iface.
  destruct (negb (iface_is_ours (c_pol cfg) name)); [split; auto|].
  match goal with |- I1 cfg (recalc_all cfg ?ks ?s2) /\ _ => set (S2 := s2); set (KS := ks) end.
  destruct (on_iface_seen_all now idx s) as [O1 [O2 [O3 [O4 O5]]]].
  assert (s_routes S2 = s_routes s) as RT by (unfold S2; destruct state; cbn; rewrite ?O1; reflexivity).
  assert (s_desired S2 = s_desired s) as DS by (unfold S2; destruct state; cbn; rewrite ?O2; reflexivity).
  assert (forall n, n <> name -> lookup String.eqb (s_n2i S2) n = lookup String.eqb (s_n2i s) n) as N2I.
  { intros n Hn. unfold S2. destruct state; cbn; rewrite ?O3.
    - apply (lookup_set_neq String.eqb string_eqb_spec); congruence.
    - apply (lookup_set_neq String.eqb string_eqb_spec); congruence.
    - apply (lookup_remove_neq String.eqb string_eqb_spec); congruence. }
  assert (forall n i, n <> name -> lookup String.eqb (s_n2i s) n = Some i -> state_of S2 i = state_of s i) as IST.
  { intros n i Hn Hi. unfold state_of, S2. destruct state; cbn; rewrite ?O5.
    - destruct WE as [_ WE]. rewrite (lookup_set_neq N.eqb N_eqb_spec); [|intro; subst; eapply WE; eauto].
      rewrite ?O3. rewrite ist0_lookup; auto. intro X. apply Hn. eapply INJ; eauto.
    - destruct WE as [_ WE]. rewrite (lookup_set_neq N.eqb N_eqb_spec); [|intro; subst; eapply WE; eauto].
      rewrite ?O3. rewrite ist0_lookup; auto. intro X. apply Hn. eapply INJ; eauto.
    - rewrite (lookup_remove_neq N.eqb N_eqb_spec); auto.
      destruct (lookup String.eqb (s_n2i s) name) as [old|] eqn:Eo.
      + intro; subst. apply Hn. eapply INJ; eauto.
      + intro; subst. eapply POS; eauto. }
  split.
  - intros k. apply recalc_all_I1.
    destruct (in_dec (fun a b : rkey => match N.eq_dec (fst a) (fst b), N.eq_dec (snd a) (snd b) with
                                        | left e1, left e2 => left (match a, b return fst a = fst b -> snd a = snd b -> a = b with
                                                                    | (a1, a2), (b1, b2) => fun p q => f_equal2 pair p q end e1 e2)
                                        | right n0, _ => right (fun e => n0 (f_equal fst e))
                                        | _, right n0 => right (fun e => n0 (f_equal snd e))
                                        end) k KS) as [HI|HN]; [left; auto|].
    right. unfold I1at. rewrite DS. rewrite (H k). unfold winner. rewrite RT.
    rewrite (pick_ext_cands S2 s); auto.
    intros c n t Hin. apply cands_in in Hin.
    assert (n <> name) as Hn.
    { intro; subst. apply HN. unfold KS. apply (keys_of_iface_in S2 c name k t). rewrite RT. exact Hin. }
    split.
    + apply idx_for_name_upd. apply N2I; auto.
    + intros i Hi Hno. unfold idx_for_name in Hi.
      destruct (String.eqb n NoOIF) eqn:En; [apply String.eqb_eq in En; contradiction|].
      rewrite N2I in Hi by auto. eapply IST; eauto.
  - match goal with |- wf_ifaces (recalc_all cfg ?ks ?s2) => destruct (recalc_all_ifmaps cfg ks s2) as [A _] end.
    unfold wf_ifaces. rewrite A.
    unfold S2. destruct state; cbn; rewrite ?O3.
    + destruct WE as [WZ WE']. eapply wf_set; eauto.
    + destruct WE as [WZ WE']. eapply wf_set; eauto.
    + eapply wf_remove; eauto.
Qed.

(* ---------- histories of calls into the RouteTable (no Apply) ---------- *)
Fixpoint run_st (cfg : config) (ops : list op) (se : st * env) : st * env :=
  match ops with
  | [] => se
  | o :: ops' => let '(s', e', _) := step cfg o se in run_st cfg ops' (s', e')
  end.

Definition wf_op (s : st) (o : op) : Prop :=
  match o with
  | OIface n idx state => wf_event s n idx state
  | OApply _ => False
  | _ => True
  end.

Fixpoint wf_hist (cfg : config) (ops : list op) (se : st * env) : Prop :=
  match ops with
  | [] => True
  | o :: ops' => wf_op (fst se) o /\ wf_hist cfg ops' (let '(s', e', _) := step cfg o se in (s', e'))
  end.

Lemma recalc_n2i : forall cfg k s, s_n2i (recalc cfg k s) = s_n2i s.
Proof. intros. unfold recalc. destruct (winner cfg s k); reflexivity. Qed.

Lemma wf_ifaces_ext : forall s s', s_n2i s' = s_n2i s -> wf_ifaces s -> wf_ifaces s'.
Proof. unfold wf_ifaces. intros s s' E. rewrite E. auto. Qed.

Lemma step_I1 : forall cfg o s e,
  wf_op s o -> I1 cfg s -> wf_ifaces s ->
  let '(s', e', _) := step cfg o (s, e) in I1 cfg s' /\ wf_ifaces s'.
Proof.
  intros cfg o s e WO H WF. destruct o; simpl in *; try contradiction; try (split; assumption).
  - split; [apply set_routes_I1; auto|]. eapply wf_ifaces_ext; [|exact WF].
    unfold set_routes. destruct (negb (iface_is_ours (c_pol cfg) name)); auto.
    match goal with |- s_n2i (recalc_all cfg ?ks ?s2) = _ => destruct (recalc_all_ifmaps cfg ks s2) as [A _]; rewrite A end. reflexivity.
  - split; [apply route_update_I1; auto|]. eapply wf_ifaces_ext; [|exact WF].
    unfold route_update. destruct (negb (iface_is_ours (c_pol cfg) name)); auto. rewrite recalc_n2i. reflexivity.
  - split; [apply route_remove_I1; auto|]. eapply wf_ifaces_ext; [|exact WF].
    unfold route_remove. destruct (negb (iface_is_ours (c_pol cfg) name)); auto.
    destruct (lookup dkey_eqb (s_routes s) (c, name, k)); auto. rewrite recalc_n2i. reflexivity.
  - apply on_iface_I1; auto.
  - split; [|exact WF]. intros k. unfold I1at. rewrite (winner_ext cfg (upd_full s true) s); auto. apply H.
  - split; [|exact WF]. intros k. unfold I1at. rewrite (winner_ext cfg (upd_rescan s _) s); auto. apply H.
Qed.

Lemma I1_st0 : forall cfg, I1 cfg st0.
Proof. intros cfg k. reflexivity. Qed.

Lemma wf_st0 : wf_ifaces st0.
Proof. split; simpl; intros; discriminate. Qed.

Lemma desired_tracks_winner : forall cfg ops s e,
  I1 cfg s -> wf_ifaces s -> wf_hist cfg ops (s, e) -> I1 cfg (fst (run_st cfg ops (s, e))).
Proof.
  induction ops as [|o ops IH]; intros s e H WF WH; cbn [run_st wf_hist] in *; auto.
  destruct WH as [WO WH]. cbn [fst] in WO.
  pose proof (step_I1 cfg o s e WO H WF) as P.
  destruct (step cfg o (s, e)) as [[s' e'] ob]. destruct P as [P1 P2]. cbv iota beta. apply IH; auto.
Qed.

(* ---------- the winner, in words ---------- *)
Lemma in_cands : forall m k c n t, In ((c, n, k), t) m -> In (c, n, t) (cands m k).
Proof.
  induction m as [|[[[c0 n0] k0] t0] m IH]; intros k c n t H; [contradiction|].
  rewrite cands_cons. apply in_or_app. destruct H as [H|H]; [|right; auto].
  injection H as -> -> -> ->. left. rewrite (keq_refl rkey_eqb rkey_eqb_spec). left; auto.
Qed.

Lemma winner_by_class_priority : forall cfg s k r, winner cfg s k = Some r ->
  exists c n t idx, In ((c, n, k), t) (s_routes s) /\ usable s n idx /\ r = render cfg t idx /\
    forall c' n' t' idx', In ((c', n', k), t') (s_routes s) -> usable s n' idx' -> c < c' \/ (c = c' /\ idx' <= idx).
Proof.
  intros cfg s k r H. unfold winner in H.
  destruct (pick s (cands (s_routes s) k) None) as [[[c idx] t]|] eqn:E; [|discriminate].
  injection H as <-. apply pick_some in E. destruct E as [[n [I U]] M].
  exists c, n, t, idx. split; [apply cands_in; auto|]. split; auto. split; auto.
  intros c' n' t' idx' I' U'. apply (M c' n' t' idx'); auto. apply in_cands; auto.
Qed.

Lemma winner_none : forall cfg s k, winner cfg s k = None <->
  forall c n t idx, In ((c, n, k), t) (s_routes s) -> ~ usable s n idx.
Proof.
  intros cfg s k. unfold winner.
  destruct (pick s (cands (s_routes s) k) None) as [[[c idx] t]|] eqn:E.
  - split; [discriminate|]. intros H. apply pick_some in E. destruct E as [[n [I U]] _].
    exfalso. eapply H; [apply cands_in; eauto|eauto].
  - split; auto. intros _ c n t idx I. apply (proj1 (pick_none_iff s _) E c n t idx). apply in_cands; auto.
Qed.

(* candidates are unambiguous when the desired routes form a map and interface indexes are not shared *)
Lemma det_of_wf : forall s k, NoDup (keys (s_routes s)) -> wf_ifaces s -> det s (cands (s_routes s) k).
Proof.
  intros s k ND [INJ POS] c n t n' t' idx I I' [U _] [U' _].
  apply cands_in in I. apply cands_in in I'.
  assert (n = n') as <-.
  { unfold idx_for_name in *.
    destruct (String.eqb n NoOIF) eqn:E1; destruct (String.eqb n' NoOIF) eqn:E2.
    - apply String.eqb_eq in E1. apply String.eqb_eq in E2. congruence.
    - injection U as <-. exfalso. eapply POS; eauto.
    - injection U' as <-. exfalso. eapply POS; eauto.
    - eapply INJ; eauto. }
  clear - ND I I'. induction (s_routes s) as [|[k0 t0] m IH]; [contradiction|].
  simpl in ND. inversion ND as [|x xs NI ND']; subst.
  destruct I as [I|I]; destruct I' as [I'|I'].
  - congruence.
  - injection I as -> ->. exfalso. apply NI. apply (in_map fst) in I'. exact I'.
  - injection I' as -> ->. exfalso. apply NI. apply (in_map fst) in I. exact I.
  - auto.
Qed.

Lemma winner_order_independent : forall cfg s s' k,
  Permutation (s_routes s) (s_routes s') -> s_n2i s = s_n2i s' -> s_istate s = s_istate s' ->
  NoDup (keys (s_routes s)) -> wf_ifaces s ->
  winner cfg s k = winner cfg s' k.
Proof.
  intros cfg s s' k P N I ND WF. unfold winner.
  rewrite <- (pick_ext s s') by auto.
  rewrite (pick_order_independent s (cands (s_routes s) k) (cands (s_routes s') k)); auto.
  - unfold cands. apply Permutation_flat_map. exact P.
  - apply det_of_wf; auto.
Qed.

Lemma desired_tracks_winner_from_start : forall cfg ops e,
  wf_hist cfg ops (st0, e) ->
  forall k, lookup rkey_eqb (s_desired (fst (run_st cfg ops (st0, e)))) k = winner cfg (fst (run_st cfg ops (st0, e))) k.
Proof. intros cfg ops e H. exact (desired_tracks_winner cfg ops st0 e (I1_st0 cfg) wf_st0 H). Qed.
