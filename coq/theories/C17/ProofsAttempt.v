(* C17 — one attemptApply with the full resync: listing, deletion pass, update pass, convergence. *)
From Coq Require Import List NArith Bool String Lia.
From Verif.C17 Require Import Model Spec Proofs.
Import ListNotations.
Open Scope N_scope.
Arguments set : simpl never.

Lemma lookup_in_keys : forall (m : list (rkey * kroute)) k v, lookup rkey_eqb m k = Some v -> In k (keys m).
Proof.
  induction m as [|[k' v'] m IH]; simpl; intros; try discriminate.
  destruct (rkey_eqb k k') eqn:E.
  - apply rkey_eqb_spec in E. auto.
  - right. eapply IH; eauto.
Qed.

Lemma apply_updates_ok : forall cfg p w w',
  apply_updates cfg p w = (false, w') ->
  s_rescan (w_st w') = [] ->
  (forall k r, dpk w k = Some r -> tbl cfg (w_env w) k = Some r) ->
  (forall k r, dpk w k = Some r -> kroute_is_ours cfg (w_st w) r = true) ->
  (forall k r, tbl cfg (w_env w) k = Some r -> kroute_is_ours cfg (w_st w) r = true -> dpk w k = Some r) ->
  frame cfg w w' /\
  (forall k d, desk w k = Some d -> tbl cfg (w_env w') k = Some d) /\
  (forall k r, desk w k = None -> tbl cfg (w_env w') k = Some r -> kroute_is_ours cfg (w_st w) r = true ->
               in_grace cfg (e_now (w_env w)) (w_st w) (kr_ifx r) = true) /\
  (forall k r, tbl cfg (w_env w) k = Some r -> kroute_is_ours cfg (w_st w) r = false -> desk w k = None ->
               tbl cfg (w_env w') k = Some r).
Proof.
  intros cfg p w w' H R' Sub Ours Own. unfold apply_updates in H.
  destruct (handle p w) as [ok w1] eqn:Eh. apply handle_frame in Eh. destruct Eh as [H1 H2].
  destruct ok; simpl in H; [|discriminate].
  destruct (fold_left (del_step cfg p) (keys (s_dp (w_st w1))) (false, w1)) as [e1 w2] eqn:Ed.
  cbn [snd] in H.
  destruct (upd_fold _ _ _ _ _ _ _ H) as [UR [UST UG]].
  destruct (del_fold _ _ _ _ _ _ _ Ed) as [DR [_ DG]].
  assert (e1 = false) as -> by (destruct e1; auto; specialize (UST eq_refl); discriminate).
  destruct DR as [DF [DRS DK]]. destruct UR as [UF [_ UK]].
  assert (frame cfg w w1) as F01 by (constructor; rewrite ?H1, ?H2; auto).
  assert (forall k, dpk w1 k = dpk w k) as DP1 by (intros; unfold dpk; rewrite H1; auto).
  assert (forall k, desk w1 k = desk w k) as DS1 by (intros; unfold desk; rewrite H1; auto).
  assert (forall k, desk w2 k = desk w k) as DS2 by (intros; unfold desk; rewrite (fr_des _ _ _ DF); apply DS1).
  assert (forall k, tbl cfg (w_env w1) k = tbl cfg (w_env w) k) as T1 by (intros; rewrite H2; auto).
  split; [eapply frame_trans; [exact F01|eapply frame_trans; eauto]|].
  split; [|split].
  - intros k d Hd.
    assert (dpk w' k = Some d) as Hdp.
    { apply (UG eq_refl R' k); [|rewrite DS2; auto]. eapply lookup_in_keys. rewrite <- DS2 in Hd. exact Hd. }
    destruct (UK k) as [[D T]|[d' [X [_ Z]]]].
    + rewrite T. rewrite D in Hdp.
      destruct (DK k) as [[D2 T2]|[D2 _]]; [|congruence].
      rewrite T2, T1. apply Sub. rewrite <- DP1. congruence.
    + rewrite DS2 in X. congruence.
  - intros k r Hd Ht Ho.
    destruct (UK k) as [[D T]|[d' [X _]]]; [|rewrite DS2 in X; congruence].
    rewrite T in Ht.
    destruct (DK k) as [[D2 T2]|[_ [T2 _]]]; [|congruence].
    rewrite T2, T1 in Ht. pose proof (Own _ _ Ht Ho) as Hdp.
    rewrite <- H2, <- H1.
    apply (DG eq_refl k).
    + eapply lookup_in_keys. rewrite <- DP1 in Hdp. exact Hdp.
    + rewrite D2, DP1. exact Hdp.
    + rewrite DS1. auto.
  - intros k r Ht Ho Hd.
    destruct (UK k) as [[D T]|[d' [X _]]]; [|rewrite DS2 in X; congruence].
    rewrite T.
    destruct (DK k) as [[D2 T2]|[_ [_ [r' [X Y]]]]].
    + rewrite T2, T1. auto.
    + rewrite DP1 in X. pose proof (Sub _ _ X) as Ht'. rewrite Ht in Ht'. injection Ht' as <-.
      rewrite (Ours _ _ X) in Ho. discriminate.
Qed.

(* ---------- the full listing ---------- *)
Lemma table_routes_lookup : forall cfg e k, lookup rkey_eqb (table_routes cfg e) k = tbl cfg e k.
Proof.
  intros cfg e k. unfold table_routes, tbl. induction (e_routes e) as [|[[t k'] r] l IH]; simpl; auto.
  unfold kkey_eqb at 1. simpl. rewrite (N.eqb_sym (c_table cfg) t).
  destruct (N.eqb t (c_table cfg)); simpl; auto.
  destruct (rkey_eqb k k'); auto.
Qed.

Lemma table_routes_in : forall cfg l k,
  In k (keys (flat_map (fun kr : kkey * kroute => let '((t, k), r) := kr in if N.eqb t (c_table cfg) then [(k, r)] else []) l)) ->
  In (c_table cfg, k) (keys l).
Proof.
  induction l as [|[[t k'] r] l IH]; simpl; intros k H; auto.
  destruct (N.eqb t (c_table cfg)) eqn:E; simpl in H.
  - apply N.eqb_eq in E. subst. destruct H as [->|H]; auto.
  - auto.
Qed.

Lemma table_routes_nodup : forall cfg e, NoDup (keys (e_routes e)) -> NoDup (keys (table_routes cfg e)).
Proof.
  intros cfg e. unfold table_routes. induction (e_routes e) as [|[[t k'] r] l IH]; simpl; intros ND.
  - constructor.
  - inversion ND as [|x xs NI ND']; subst. destruct (N.eqb t (c_table cfg)) eqn:E; simpl; auto.
    constructor; auto. intro HI. apply table_routes_in in HI. apply N.eqb_eq in E. subst. auto.
Qed.

Lemma lookup_filter_keys : forall (f : rkey -> bool) (m : list (rkey * kroute)) k,
  lookup rkey_eqb (filter (fun kr => f (fst kr)) m) k = if f k then lookup rkey_eqb m k else None.
Proof.
  induction m as [|[k' v] m IH]; intros k; simpl.
  - destruct (f k); auto.
  - destruct (f k') eqn:Fk'; simpl.
    + destruct (rkey_eqb k k') eqn:E.
      * apply rkey_eqb_spec in E. subst. rewrite Fk'. auto.
      * apply IH.
    + rewrite IH. destruct (rkey_eqb k k') eqn:E; auto.
      apply rkey_eqb_spec in E. subst. rewrite Fk'. auto.
Qed.

Lemma lookup_not_in : forall (m : list (rkey * kroute)) k, ~ In k (keys m) -> lookup rkey_eqb m k = None.
Proof.
  induction m as [|[k' v] m IH]; simpl; intros; auto.
  destruct (rkey_eqb k k') eqn:E.
  - apply rkey_eqb_spec in E. subst. exfalso. auto.
  - apply IH. auto.
Qed.

Lemma on_iface_seen_frame : forall now idx s,
  s_i2n (on_iface_seen now idx s) = s_i2n s /\ s_dp (on_iface_seen now idx s) = s_dp s /\
  s_desired (on_iface_seen now idx s) = s_desired s.
Proof.
  intros. unfold on_iface_seen. destruct (idx <=? 1); auto. destruct (lookup N.eqb (s_grace s) idx); auto.
Qed.

Definition astep (cfg : config) (now : N) (b : bool) (acc : st * list rkey) (kr : rkey * kroute) : st * list rkey :=
  let '(s, seen) := acc in
  let '(k, r) := kr in
  let s1 := if b then on_iface_seen now (kr_ifx r) s else s in
  if kroute_is_ours cfg s1 r then (upd_dp s1 (set rkey_eqb (s_dp s1) k r), k :: seen) else (s1, seen).

Lemma absorb_unfold : forall cfg now b rs s, absorb cfg now b rs s = fold_left (astep cfg now b) rs (s, []).
Proof. reflexivity. Qed.

Lemma astep_fold : forall cfg now b rs s seen0 s2 seen,
  NoDup (keys rs) ->
  fold_left (astep cfg now b) rs (s, seen0) = (s2, seen) ->
  s_i2n s2 = s_i2n s /\ s_desired s2 = s_desired s /\
  (forall k, mem rkey_eqb k seen = true <->
             (mem rkey_eqb k seen0 = true \/ exists r, lookup rkey_eqb rs k = Some r /\ kroute_is_ours cfg s r = true)) /\
  (forall k, ~ In k (keys rs) -> lookup rkey_eqb (s_dp s2) k = lookup rkey_eqb (s_dp s) k) /\
  (forall k r, lookup rkey_eqb rs k = Some r -> kroute_is_ours cfg s r = true -> lookup rkey_eqb (s_dp s2) k = Some r).
Proof.
  induction rs as [|[k0 r0] rs IH]; intros s seen0 s2 seen ND H; cbn [fold_left] in H.
  - injection H as <- <-. repeat split; auto.
    + intros [X|[r [X _]]]; auto. discriminate.
    + intros; discriminate.
  - inversion ND as [|x xs NI ND']; subst.
    set (s1 := if b then on_iface_seen now (kr_ifx r0) s else s) in *.
    assert (s_i2n s1 = s_i2n s /\ s_dp s1 = s_dp s /\ s_desired s1 = s_desired s) as [I1 [D1 S1]].
    { unfold s1. destruct b; auto. apply on_iface_seen_frame. }
    assert (kroute_is_ours cfg s1 r0 = kroute_is_ours cfg s r0) as O1 by (apply ours_ext; auto).
    unfold astep at 2 in H. fold s1 in H. rewrite O1 in H.
    destruct (kroute_is_ours cfg s r0) eqn:Eo.
    + apply IH in H; auto. cbn [s_i2n s_desired s_dp upd_dp] in H. destruct H as [A [B [C [D E]]]].
      split; [congruence|]. split; [congruence|]. split; [|split].
      * intros k. rewrite C. simpl. destruct (rkey_eqb k k0) eqn:Ek.
        -- apply rkey_eqb_spec in Ek. subst. split; intros _; [right; exists r0; auto | left; auto].
        -- simpl. split; (intros [X|[r [X Y]]]; [left; auto | right; exists r; split; auto]).
           ++ rewrite (ours_ext cfg s (upd_dp s1 (set rkey_eqb (s_dp s1) k0 r0))); auto.
           ++ rewrite <- (ours_ext cfg s (upd_dp s1 (set rkey_eqb (s_dp s1) k0 r0))); auto.
      * intros k Hn. simpl in Hn. rewrite D by tauto. rewrite D1.
        apply (lookup_set_neq rkey_eqb rkey_eqb_spec). intro; subst; tauto.
      * intros k r Hl Ho. simpl in Hl. destruct (rkey_eqb k k0) eqn:Ek.
        -- apply rkey_eqb_spec in Ek. subst. injection Hl as <-. rewrite D by auto.
           apply (lookup_set_eq rkey_eqb rkey_eqb_spec).
        -- apply E; auto. rewrite <- (ours_ext cfg s (upd_dp s1 (set rkey_eqb (s_dp s1) k0 r0))); auto.
    + apply IH in H; auto. destruct H as [A [B [C [D E]]]].
      split; [congruence|]. split; [congruence|]. split; [|split].
      * intros k. rewrite C. simpl. destruct (rkey_eqb k k0) eqn:Ek.
        -- apply rkey_eqb_spec in Ek. subst. rewrite (lookup_not_in rs k0 NI).
           split; (intros [X|[r [X Y]]]; [left; auto| ]); try discriminate.
           injection X as <-. congruence.
        -- split; (intros [X|[r [X Y]]]; [left; auto | right; exists r; split; auto]).
           ++ rewrite (ours_ext cfg s s1); auto.
           ++ rewrite <- (ours_ext cfg s s1); auto.
      * intros k Hn. simpl in Hn. rewrite D by tauto. rewrite D1. auto.
      * intros k r Hl Ho. simpl in Hl. destruct (rkey_eqb k k0) eqn:Ek.
        -- apply rkey_eqb_spec in Ek. subst. injection Hl as <-. congruence.
        -- apply E; auto. rewrite <- (ours_ext cfg s s1); auto.
Qed.

Lemma full_resync_ok : forall cfg p w w',
  plan_simple p = true ->
  NoDup (keys (e_routes (w_env w))) ->
  do_full_resync cfg p w = (false, w') ->
  w_env w' = w_env w /\ s_rescan (w_st w') = [] /\ s_full (w_st w') = false /\
  (forall k r, dpk w' k = Some r -> tbl cfg (w_env w') k = Some r) /\
  (forall k r, dpk w' k = Some r -> kroute_is_ours cfg (w_st w') r = true) /\
  (forall k r, tbl cfg (w_env w') k = Some r -> kroute_is_ours cfg (w_st w') r = true -> dpk w' k = Some r).
Proof.
  intros cfg p w w' PS ND H. unfold do_full_resync in H.
  destruct (nl_call p NLinkList w) as [f w1] eqn:E1. apply nl_call_frame in E1. destruct E1 as [A1 A2].
  destruct f; [discriminate|].
  remember (refresh_all cfg (e_now (w_env w)) (e_links (w_env w1)) (w_st w1)) as s1.
  rewrite (full_list_simple cfg p _ PS) in H.
  destruct (list_retry p NRouteListAll 5 (wst w1 s1)) as [failed w2] eqn:E2.
  apply list_retry_frame in E2. simpl in E2. destruct E2 as [B1 B2].
  destruct failed; [discriminate|].
  destruct (absorb cfg (e_now (w_env w)) true (table_routes cfg (w_env w2)) (w_st w2)) as [s2 seen] eqn:E3.
  injection H as <-. rewrite absorb_unfold in E3.
  assert (w_env w2 = w_env w) as EV by congruence.
  apply astep_fold in E3; [|apply table_routes_nodup; rewrite EV; auto].
  destruct E3 as [I [D [S [_ C]]]].
  cbn [w_env w_st wst s_rescan s_full upd_full upd_rescan upd_dp s_dp s_i2n].
  split; [exact EV|]. split; [reflexivity|]. split; [reflexivity|].
  assert (forall r, kroute_is_ours cfg (upd_full (upd_rescan (upd_dp s2 (filter (fun kr => mem rkey_eqb (fst kr) seen) (s_dp s2))) []) false) r
                    = kroute_is_ours cfg (w_st w2) r) as OE.
  { intros. apply ours_ext. cbn. exact I. }
  unfold dpk. cbn [w_st wst s_dp upd_full upd_rescan upd_dp].
  split; [|split].
  - intros k r Hl. rewrite (lookup_filter_keys (fun k => mem rkey_eqb k seen)) in Hl. destruct (mem rkey_eqb k seen) eqn:M; [|discriminate].
    apply S in M. destruct M as [M|[r0 [L O]]]; [discriminate|].
    rewrite (C _ _ L O) in Hl. injection Hl as <-. rewrite <- table_routes_lookup. exact L.
  - intros k r Hl. rewrite OE. rewrite (lookup_filter_keys (fun k => mem rkey_eqb k seen)) in Hl. destruct (mem rkey_eqb k seen) eqn:M; [|discriminate].
    apply S in M. destruct M as [M|[r0 [L O]]]; [discriminate|].
    rewrite (C _ _ L O) in Hl. injection Hl as <-. exact O.
  - intros k r Ht Ho. rewrite OE in Ho. rewrite <- table_routes_lookup in Ht.
    rewrite (lookup_filter_keys (fun k => mem rkey_eqb k seen)).
    assert (mem rkey_eqb k seen = true) as M by (apply S; right; exists r; auto).
    rewrite M. apply C; auto.
Qed.

(* ---------- maybeCleanUpGracePeriods ---------- *)
Lemma lookup_filter_first : forall (P : N * (N * bool) -> bool) (g : list (N * (N * bool))) idx v,
  lookup N.eqb g idx = Some v -> P (idx, v) = true -> lookup N.eqb (filter P g) idx = Some v.
Proof.
  induction g as [|[k' v'] g IH]; simpl; intros idx v H HP; try discriminate.
  destruct (N.eqb idx k') eqn:E.
  - apply N.eqb_eq in E. subst. injection H as ->. rewrite HP. simpl. rewrite N.eqb_refl. auto.
  - destruct (P (k', v')); simpl; [rewrite E|]; apply IH; auto.
Qed.

Lemma cleanup_grace_frame : forall cfg now s,
  s_desired (cleanup_grace cfg now s) = s_desired s /\ s_i2n (cleanup_grace cfg now s) = s_i2n s /\
  s_rescan (cleanup_grace cfg now s) = s_rescan s /\ s_dp (cleanup_grace cfg now s) = s_dp s.
Proof. intros. unfold cleanup_grace. destruct (negb _); simpl; auto. Qed.

Lemma in_grace_cleanup : forall cfg now s idx,
  in_grace cfg now s idx = true -> in_grace cfg now (cleanup_grace cfg now s) idx = true.
Proof.
  intros cfg now s idx H. unfold cleanup_grace. destruct (negb _); auto.
  unfold in_grace in *. cbn [s_grace upd_lastgc upd_grace].
  destruct (lookup N.eqb (s_grace s) idx) as [[fs ex]|] eqn:L; [|discriminate].
  destruct ex; [discriminate|].
  unfold name_for_idx in *. cbn [s_i2n upd_lastgc upd_grace].
  destruct (if idx <=? 1 then Some NoOIF else lookup N.eqb (s_i2n s) idx) as [name|] eqn:Nm; [|discriminate].
  apply andb_true_iff in H. destruct H as [H1 H2].
  erewrite lookup_filter_first; [| exact L |].
  - cbn. rewrite H1, H2. auto.
  - cbn. rewrite H2. auto.
Qed.

(* ================================================================================================
   One attemptApply that performs the full resync and reports success leaves the kernel converged.
   ================================================================================================ *)
Lemma full_attempt_converges : forall cfg p w w',
  plan_simple p = true ->
  NoDup (keys (e_routes (w_env w))) ->
  s_full (w_st w) = true ->
  attempt cfg p w = (false, w') ->
  s_rescan (w_st w') = [] ->
  (forall k d, lookup rkey_eqb (s_desired (w_st w')) k = Some d -> tbl cfg (w_env w') k = Some d) /\
  (forall k r, lookup rkey_eqb (s_desired (w_st w')) k = None -> tbl cfg (w_env w') k = Some r ->
       kroute_is_ours cfg (w_st w') r = true -> in_grace cfg (e_now (w_env w')) (w_st w') (kr_ifx r) = true) /\
  (forall kk r, lookup kkey_eqb (e_routes (w_env w)) kk = Some r ->
       (fst kk <> c_table cfg \/
        (kroute_is_ours cfg (w_st w') r = false /\ lookup rkey_eqb (s_desired (w_st w')) (snd kk) = None)) ->
       lookup kkey_eqb (e_routes (w_env w')) kk = Some r).
Proof.
  intros cfg p w w' PS ND FULL H RS. unfold attempt in H.
  destruct (handle p w) as [ok w1] eqn:Eh. apply handle_frame in Eh. destruct Eh as [H1 H2].
  destruct ok; simpl in H; [|discriminate].
  rewrite H1, FULL in H.
  destruct (do_full_resync cfg p w1) as [e1 w2] eqn:Ef.
  destruct e1; [discriminate|].
  destruct (apply_updates cfg p w2) as [e2 w3] eqn:Ea.
  destruct e2; [discriminate|].
  injection H as <-.
  apply full_resync_ok in Ef; [|exact PS|rewrite H2; auto].
  destruct Ef as [EV [R2 [_ [Sub [Ours Own]]]]].
  destruct (cleanup_grace_frame cfg (e_now (w_env w3)) (w_st w3)) as [CD [CI [CR CP]]].
  cbn [w_st w_env wst] in *.
  apply apply_updates_ok in Ea; auto; [|rewrite <- CR; auto].
  destruct Ea as [F [CONV [STALE FOREIGN]]].
  assert (forall r, kroute_is_ours cfg (cleanup_grace cfg (e_now (w_env w3)) (w_st w3)) r = kroute_is_ours cfg (w_st w2) r) as OE.
  { intros. apply ours_ext. rewrite CI. apply (fr_i2n _ _ _ F). }
  assert (forall k, lookup rkey_eqb (s_desired (cleanup_grace cfg (e_now (w_env w3)) (w_st w3))) k = desk w2 k) as DE.
  { intros. unfold desk. rewrite CD. rewrite (fr_des _ _ _ F). auto. }
  split; [|split].
  - intros k d Hd. rewrite DE in Hd. auto.
  - intros k r Hd Ht Ho. rewrite DE in Hd. rewrite OE in Ho.
    apply in_grace_cleanup.
    rewrite (in_grace_ext cfg _ (w_st w3) (w_st w2)); [|apply F|apply F].
    rewrite (fr_now _ _ _ F). eauto.
  - intros [t k] r Hl Hc. simpl in Hc.
    destruct (N.eq_dec t (c_table cfg)) as [->|NE].
    + destruct Hc as [Hc|[Ho Hd]]; [congruence|].
      rewrite OE in Ho. rewrite DE in Hd.
      apply (FOREIGN k r); auto. unfold tbl. rewrite EV, H2. exact Hl.
    + rewrite (fr_other _ _ _ F) by (simpl; auto). rewrite EV, H2. exact Hl.
Qed.
