(* C17 — Apply (one attempt + one inline retry): convergence when the attempt that succeeds ran the full resync. *)
From Coq Require Import List NArith Bool String Lia.
From Verif.C17 Require Import Model Spec Proofs ProofsAttempt.
Import ListNotations.
Open Scope N_scope.
Arguments set : simpl never.

Lemma in_keys_remove : forall (m : list (kkey * kroute)) k k', In k' (keys (remove kkey_eqb m k)) -> In k' (keys m) /\ k' <> k.
Proof.
  induction m as [|[k0 v0] m IH]; simpl; intros k k' H; [contradiction|].
  destruct (kkey_eqb k k0) eqn:E.
  - apply IH in H. destruct H. split; auto.
  - simpl in H. destruct H as [<-|H].
    + split; auto. intro; subst. rewrite (keq_refl kkey_eqb kkey_eqb_spec) in E. discriminate.
    + apply IH in H. destruct H. split; auto.
Qed.

Lemma nodup_remove : forall (m : list (kkey * kroute)) k, NoDup (keys m) -> NoDup (keys (remove kkey_eqb m k)).
Proof.
  induction m as [|[k0 v0] m IH]; simpl; intros k ND; auto.
  inversion ND as [|x xs NI ND']; subst. destruct (kkey_eqb k k0); auto.
  simpl. constructor; auto. intro H. apply in_keys_remove in H. tauto.
Qed.

Lemma nodup_set : forall (m : list (kkey * kroute)) k v, NoDup (keys m) -> NoDup (keys (set kkey_eqb m k v)).
Proof.
  intros. unfold set. simpl. constructor; [|apply nodup_remove; auto].
  intro HI. apply in_keys_remove in HI. tauto.
Qed.

Lemma del_fold_nodup : forall cfg p ks e0 w0 e w,
  fold_left (del_step cfg p) ks (e0, w0) = (e, w) -> NoDup (keys (e_routes (w_env w0))) -> NoDup (keys (e_routes (w_env w))).
Proof.
  induction ks as [|k ks IH]; intros e0 w0 e w H ND; cbn [fold_left] in H.
  - injection H as <- <-. auto.
  - destruct (del_step cfg p (e0, w0) k) as [e1 w1] eqn:S1. eapply IH; eauto.
    apply del_step_cases in S1. destruct S1 as [[_ [E _]]|[[_ [E _]]|[r [_ [_ [_ [E _]]]]]]]; rewrite E; auto.
    simpl. apply nodup_remove; auto.
Qed.

Lemma upd_fold_nodup : forall cfg p ks e0 w0 e w,
  fold_left (upd_step cfg p) ks (e0, w0) = (e, w) -> NoDup (keys (e_routes (w_env w0))) -> NoDup (keys (e_routes (w_env w))).
Proof.
  induction ks as [|k ks IH]; intros e0 w0 e w H ND; cbn [fold_left] in H.
  - injection H as <- <-. auto.
  - destruct (upd_step cfg p (e0, w0) k) as [e1 w1] eqn:S1. eapply IH; eauto.
    apply upd_step_cases in S1. destruct S1 as [[_ [E _]]|[[_ [E _]]|[[n [_ [E _]]]|[d [_ [_ [E _]]]]]]]; rewrite E; auto.
    unfold env_set_route. cbn [e_routes]. apply nodup_set; auto.
Qed.

Lemma apply_updates_nodup : forall cfg p w b w',
  apply_updates cfg p w = (b, w') -> NoDup (keys (e_routes (w_env w))) -> NoDup (keys (e_routes (w_env w'))).
Proof.
  intros cfg p w b w' H ND. unfold apply_updates in H.
  destruct (handle p w) as [ok w1] eqn:Eh. apply handle_frame in Eh. destruct Eh as [_ H2].
  destruct ok; simpl in H.
  2:{ injection H as <- <-. rewrite H2. auto. }
  destruct (fold_left (del_step cfg p) (keys (s_dp (w_st w1))) (false, w1)) as [e1 w2] eqn:Ed.
  cbn [snd] in H. eapply upd_fold_nodup; eauto. eapply del_fold_nodup; eauto. rewrite H2. auto.
Qed.

Lemma do_full_resync_env : forall cfg p w b w', plan_simple p = true -> do_full_resync cfg p w = (b, w') -> w_env w' = w_env w.
Proof.
  intros cfg p w b w' PS H. unfold do_full_resync in H.
  destruct (nl_call p NLinkList w) as [f w1] eqn:E1. apply nl_call_frame in E1. destruct E1 as [A1 A2].
  destruct f; [injection H as <- <-; auto|].
  remember (refresh_all cfg (e_now (w_env w)) (e_links (w_env w1)) (w_st w1)) as s1.
  rewrite (full_list_simple cfg p _ PS) in H.
  destruct (list_retry p NRouteListAll 5 (wst w1 s1)) as [failed w2] eqn:E2.
  apply list_retry_frame in E2. simpl in E2. destruct E2 as [B1 B2].
  destruct failed; [injection H as <- <-; congruence|].
  destruct (absorb cfg (e_now (w_env w)) true (table_routes cfg (w_env w2)) (w_st w2)) as [s2 seen].
  injection H as <- <-. simpl. congruence.
Qed.

Lemma attempt_full_nodup : forall cfg p w b w',
  plan_simple p = true ->
  s_full (w_st w) = true -> attempt cfg p w = (b, w') ->
  NoDup (keys (e_routes (w_env w))) -> NoDup (keys (e_routes (w_env w'))).
Proof.
  intros cfg p w b w' PS FULL H ND. unfold attempt in H.
  destruct (handle p w) as [ok w1] eqn:Eh. apply handle_frame in Eh. destruct Eh as [H1 H2].
  destruct ok; simpl in H.
  2:{ injection H as <- <-. simpl. rewrite H2. auto. }
  rewrite H1, FULL in H.
  destruct (do_full_resync cfg p w1) as [e1 w2] eqn:Ef. apply do_full_resync_env in Ef; [|exact PS].
  destruct e1.
  { injection H as <- <-. simpl. rewrite Ef, H2. auto. }
  destruct (apply_updates cfg p w2) as [e2 w3] eqn:Ea. apply apply_updates_nodup in Ea; [|rewrite Ef, H2; auto].
  destruct e2; injection H as <- <-; simpl; auto.
Qed.

Lemma del_fold_full : forall cfg p ks e0 w0 e w,
  fold_left (del_step cfg p) ks (e0, w0) = (e, w) -> s_full (w_st w) = s_full (w_st w0).
Proof.
  induction ks as [|k ks IH]; intros e0 w0 e w H; cbn [fold_left] in H.
  - injection H as <- <-. auto.
  - destruct (del_step cfg p (e0, w0) k) as [e1 w1] eqn:S1. rewrite (IH _ _ _ _ H).
    apply del_step_cases in S1. destruct S1 as [[E _]|[[E _]|[r [_ [_ [E _]]]]]]; rewrite E; auto.
Qed.

Lemma upd_fold_full : forall cfg p ks e0 w0 e w,
  fold_left (upd_step cfg p) ks (e0, w0) = (e, w) -> s_full (w_st w) = s_full (w_st w0).
Proof.
  induction ks as [|k ks IH]; intros e0 w0 e w H; cbn [fold_left] in H.
  - injection H as <- <-. auto.
  - destruct (upd_step cfg p (e0, w0) k) as [e1 w1] eqn:S1. rewrite (IH _ _ _ _ H).
    apply upd_step_cases in S1. destruct S1 as [[E _]|[[E _]|[[n [E _]]|[d [_ [E _]]]]]]; rewrite E; auto.
Qed.

Lemma apply_updates_full : forall cfg p w b w', apply_updates cfg p w = (b, w') -> s_full (w_st w') = s_full (w_st w).
Proof.
  intros cfg p w b w' H. unfold apply_updates in H.
  destruct (handle p w) as [ok w1] eqn:Eh. apply handle_frame in Eh. destruct Eh as [H1 _].
  destruct ok; simpl in H.
  2:{ injection H as <- <-. rewrite H1. auto. }
  destruct (fold_left (del_step cfg p) (keys (s_dp (w_st w1))) (false, w1)) as [e1 w2] eqn:Ed.
  cbn [snd] in H. rewrite (upd_fold_full _ _ _ _ _ _ _ H), (del_fold_full _ _ _ _ _ _ _ Ed). congruence.
Qed.

Lemma do_full_resync_done : forall cfg p w w', plan_simple p = true -> do_full_resync cfg p w = (false, w') -> s_full (w_st w') = false.
Proof.
  intros cfg p w w' PS H. unfold do_full_resync in H.
  destruct (nl_call p NLinkList w) as [f w1]. destruct f; [discriminate|].
  rewrite (full_list_simple cfg p _ PS) in H.
  destruct (list_retry p NRouteListAll 5 _) as [failed w2]. destruct failed; [discriminate|].
  destruct (absorb cfg (e_now (w_env w)) true (table_routes cfg (w_env w2)) (w_st w2)) as [s2 seen].
  injection H as <-. reflexivity.
Qed.

Lemma cleanup_grace_full : forall cfg now s, s_full (cleanup_grace cfg now s) = s_full s.
Proof. intros. unfold cleanup_grace. destruct (negb _); reflexivity. Qed.

(* an attempt that was to run the full resync and leaves it pending has not touched the kernel *)
Lemma attempt_full_env : forall cfg p w b w',
  plan_simple p = true ->
  s_full (w_st w) = true -> attempt cfg p w = (b, w') -> s_full (w_st w') = true -> w_env w' = w_env w.
Proof.
  intros cfg p w b w' PS FULL H F'. unfold attempt in H.
  destruct (handle p w) as [ok w1] eqn:Eh. apply handle_frame in Eh. destruct Eh as [H1 H2].
  destruct ok; simpl in H.
  2:{ injection H as <- <-. simpl. auto. }
  rewrite H1, FULL in H.
  destruct (do_full_resync cfg p w1) as [e1 w2] eqn:Ef.
  destruct e1.
  { injection H as <- <-. simpl. apply do_full_resync_env in Ef; [|exact PS]. congruence. }
  apply do_full_resync_done in Ef; [|exact PS].
  destruct (apply_updates cfg p w2) as [e2 w3] eqn:Ea. apply apply_updates_full in Ea.
  destruct e2; injection H as <- <-; simpl in F'; rewrite ?cleanup_grace_full in F'; congruence.
Qed.

(* does the attempt of this Apply that produces the result run the full resync? *)
Definition last_attempt_full (cfg : config) (p : plan) (s : st) (e : env) : bool :=
  let w0 := {| w_st := s; w_env := e; w_cnt := []; w_cached := s_cached s; w_reopen := s_reopen s |} in
  let '(err0, w1) := attempt cfg p w0 in
  if err0 || negb (match s_rescan (w_st w1) with [] => true | _ => false end)
  then s_full (w_st w1)
  else s_full s.

Definition converged (cfg : config) (e0 : env) (s' : st) (e' : env) : Prop :=
  (forall k d, lookup rkey_eqb (s_desired s') k = Some d -> tbl cfg e' k = Some d) /\
  (forall k r, lookup rkey_eqb (s_desired s') k = None -> tbl cfg e' k = Some r ->
       kroute_is_ours cfg s' r = true -> in_grace cfg (e_now e') s' (kr_ifx r) = true) /\
  (forall kk r, lookup kkey_eqb (e_routes e0) kk = Some r ->
       (fst kk <> c_table cfg \/ (kroute_is_ours cfg s' r = false /\ lookup rkey_eqb (s_desired s') (snd kk) = None)) ->
       lookup kkey_eqb (e_routes e') kk = Some r).

Lemma apply_converges_partial : forall cfg p s e s' e',
  plan_simple p = true ->
  NoDup (keys (e_routes e)) ->
  s_full s = true ->
  last_attempt_full cfg p s e = true ->
  apply cfg p s e = (false, s', e') ->
  converged cfg e s' e'.
Proof.
  intros cfg p s e s' e' PS ND FULL LF H. unfold apply in H. unfold last_attempt_full in LF.
  set (w0 := {| w_st := s; w_env := e; w_cnt := []; w_cached := s_cached s; w_reopen := s_reopen s |}) in *.
  assert (s_full (w_st w0) = true) as FULL0 by exact FULL.
  assert (NoDup (keys (e_routes (w_env w0)))) as ND0 by exact ND.
  destruct (attempt cfg p w0) as [err0 w1] eqn:A0.
  assert (forall w2, s_rescan (w_st w2) = [] ->
            forall wa, NoDup (keys (e_routes (w_env wa))) -> s_full (w_st wa) = true -> w_env wa = e ->
            attempt cfg p wa = (false, w2) ->
            converged cfg e (upd_conn (w_st w2) (w_cached w2) (w_reopen w2)) (w_env w2)) as KEY.
  { intros w2 R2 wa NDa Fa Ea Aa.
    destruct (full_attempt_converges cfg p wa w2 PS NDa Fa Aa R2) as [X [Y Z]].
    unfold converged. cbn [s_desired upd_conn].
    split; [exact X|]. split.
    - intros k r. rewrite (ours_ext cfg (upd_conn (w_st w2) (w_cached w2) (w_reopen w2)) (w_st w2)) by reflexivity.
      rewrite (in_grace_ext cfg _ (upd_conn (w_st w2) (w_cached w2) (w_reopen w2)) (w_st w2)) by reflexivity. apply Y.
    - intros kk r Hl Hc. rewrite (ours_ext cfg (upd_conn (w_st w2) (w_cached w2) (w_reopen w2)) (w_st w2)) in Hc by reflexivity.
      apply Z; auto. rewrite Ea. exact Hl. }
  destruct (err0 || negb (match s_rescan (w_st w1) with [] => true | _ => false end)) eqn:C.
  - destruct (attempt cfg p w1) as [err1 w2] eqn:A1.
    destruct (s_rescan (w_st w2)) eqn:R2; [|discriminate].
    injection H as -> <- <-.
    apply (KEY w2 R2 w1); auto.
    + eapply attempt_full_nodup; eauto.
    + eapply (attempt_full_env cfg p w0); eauto.
  - apply orb_false_iff in C. destruct C as [-> C].
    destruct (s_rescan (w_st w1)) eqn:R1; [|discriminate].
    injection H as <- <-.
    apply (KEY w1 R1 w0); auto.
Qed.

(* kernel tables built by the outside-world steps are finite maps (no key twice) *)
Lemma env_step_nodup : forall o e, NoDup (keys (e_routes e)) -> NoDup (keys (e_routes (env_step o e))).
Proof.
  intros o e ND. destruct o; cbn [env_step e_routes env_set_route env_del_route]; auto.
  - induction (e_routes e) as [|[k0 r0] m IH]; simpl; auto.
    inversion ND as [|x xs NI ND']; subst. destruct (negb (N.eqb (kr_ifx r0) idx)); simpl; auto.
    constructor; auto. intro HI. apply NI. clear - HI. induction m as [|[k1 r1] m IH]; simpl in *; auto.
    destruct (negb (N.eqb (kr_ifx r1) idx)); simpl in *; tauto.
  - apply nodup_set; auto.
  - apply nodup_remove; auto.
Qed.

(* the three parts of `converged`, separately *)
Lemma apply_converges : forall cfg p s e s' e',
  plan_simple p = true ->
  NoDup (keys (e_routes e)) -> s_full s = true -> last_attempt_full cfg p s e = true ->
  apply cfg p s e = (false, s', e') ->
  forall k d, lookup rkey_eqb (s_desired s') k = Some d -> tbl cfg e' k = Some d.
Proof. intros cfg p s e s' e' PS ND F L A. destruct (apply_converges_partial _ _ _ _ _ _ PS ND F L A) as [X _]. exact X. Qed.

Lemma apply_stale_removed : forall cfg p s e s' e',
  plan_simple p = true ->
  NoDup (keys (e_routes e)) -> s_full s = true -> last_attempt_full cfg p s e = true ->
  apply cfg p s e = (false, s', e') ->
  forall k r, lookup rkey_eqb (s_desired s') k = None -> tbl cfg e' k = Some r ->
       kroute_is_ours cfg s' r = true -> in_grace cfg (e_now e') s' (kr_ifx r) = true.
Proof. intros cfg p s e s' e' PS ND F L A. destruct (apply_converges_partial _ _ _ _ _ _ PS ND F L A) as [_ [Y _]]. exact Y. Qed.

Lemma apply_foreign_untouched : forall cfg p s e s' e',
  plan_simple p = true ->
  NoDup (keys (e_routes e)) -> s_full s = true -> last_attempt_full cfg p s e = true ->
  apply cfg p s e = (false, s', e') ->
  forall kk r, lookup kkey_eqb (e_routes e) kk = Some r ->
       (fst kk <> c_table cfg \/ (kroute_is_ours cfg s' r = false /\ lookup rkey_eqb (s_desired s') (snd kk) = None)) ->
       lookup kkey_eqb (e_routes e') kk = Some r.
Proof. intros cfg p s e s' e' PS ND F L A. destruct (apply_converges_partial _ _ _ _ _ _ PS ND F L A) as [_ [_ Z]]. exact Z. Qed.
