(* C17 — tie between the model-level theorems and the specification oracle: in a synchronised state that satisfies the
   conclusions of c17_any_history, the oracle's convergence clause (Spec.ok_key: class-priority winners computed from the
   KERNEL's links, ownership evaluated on the kernel's links) accepts the kernel, for every destination. *)
From Coq Require Import List NArith Bool String Lia.
From Verif.C17 Require Import Model Spec Proofs ProofsAttempt ProofsWinner ProofsApply ProofsEvery ProofsSound ProofsFull ProofsView ProofsRefresh ProofsSync ProofsHistory.
Import ListNotations.
Open Scope N_scope.
Arguments set : simpl never.

(* usable candidates, seen from the kernel's links *)
Lemma usable_links : forall cfg s e n idx, VM cfg s e -> n <> NoOIF -> iface_is_ours (c_pol cfg) n = true ->
  (usable s n idx <-> exists l, lookup String.eqb (e_links e) n = Some l /\ l_idx l = idx /\ l_running l = true).
Proof.
  intros cfg s e n idx [V1 [V2 V3]] NN EO. unfold usable, idx_for_name.
  assert (String.eqb n NoOIF = false) as En by (apply String.eqb_neq; auto). rewrite En, V1, EO.
  split.
  - intros [H [H'|H']]; [contradiction|].
    destruct (lookup String.eqb (e_links e) n) as [l|] eqn:L; [|discriminate]. simpl in H. injection H as H.
    exists l. split; auto. split; auto.
    unfold state_of in H'. destruct (lookup N.eqb (s_istate s) idx) as [x|] eqn:X; [|discriminate]. subst x.
    apply V3 in X. destruct X as [n' [l' [EO' [L' [I' S']]]]].
    assert (lookup N.eqb (s_i2n s) idx = Some n) as A by (apply V2; split; auto; exists l; auto).
    assert (lookup N.eqb (s_i2n s) idx = Some n') as B by (apply V2; split; auto; exists l'; auto).
    assert (n' = n) by congruence. subst n'. rewrite L in L'. injection L' as <-.
    unfold link_state in S'. destruct (l_running l); auto. discriminate.
  - intros [l [L [I R]]]. rewrite L. simpl. split; [congruence|]. right.
    unfold state_of. assert (lookup N.eqb (s_istate s) idx = Some (link_state l)) as X by (apply V3; exists n, l; auto).
    rewrite X. unfold link_state. rewrite R. auto.
Qed.

Lemma in_sp_cands : forall cfg D links k c r,
  In (c, r) (sp_cands cfg D links k) <->
  exists n t, In ((c, n, k), t) D /\
    ((n = NoOIF /\ r = render cfg t 0) \/
     (n <> NoOIF /\ exists l, lookup String.eqb links n = Some l /\ l_running l = true /\ r = render cfg t (l_idx l))).
Proof.
  intros cfg D links k c r. unfold sp_cands. rewrite in_flat_map. split.
  - intros [[[[c' n] k'] t] [HI H]]. destruct (rkey_eqb k k') eqn:Ek; simpl in H; [|contradiction].
    apply rkey_eqb_spec in Ek. subst k'.
    destruct (String.eqb n NoOIF) eqn:En.
    + apply String.eqb_eq in En. destruct H as [H|[]]. injection H as -> <-. exists n, t. split; auto.
    + apply String.eqb_neq in En. destruct (lookup String.eqb links n) as [l|] eqn:L; [|contradiction].
      destruct (l_running l) eqn:R; [|contradiction]. destruct H as [H|[]]. injection H as -> <-.
      exists n, t. split; auto. right. split; auto. exists l. auto.
  - intros [n [t [HI H]]]. exists ((c, n, k), t). split; auto.
    rewrite (keq_refl rkey_eqb rkey_eqb_spec). simpl.
    destruct H as [[-> ->]|[NN [l [L [R ->]]]]].
    + rewrite String.eqb_refl. left; auto.
    + assert (String.eqb n NoOIF = false) as En by (apply String.eqb_neq; auto). rewrite En, L, R. left; auto.
Qed.

Lemma min_class_le : forall l m, fold_left (fun m (cr : N * kroute) => N.min m (fst cr)) l m <= m.
Proof. induction l as [|[c r] l IH]; intros m; simpl; [lia|]. specialize (IH (N.min m c)). lia. Qed.

Lemma min_class_lower : forall l m b, b <= m -> (forall c r, In (c, r) l -> b <= c) ->
  b <= fold_left (fun m (cr : N * kroute) => N.min m (fst cr)) l m.
Proof.
  induction l as [|[c r] l IH]; intros m b Hm H; simpl; auto.
  apply IH; [|intros; eapply H; right; eauto]. assert (b <= c) by (eapply H; left; eauto). lia.
Qed.

Lemma min_class_member : forall l m c r, In (c, r) l -> fold_left (fun m (cr : N * kroute) => N.min m (fst cr)) l m <= c.
Proof.
  induction l as [|[c0 r0] l IH]; intros m c r H; [contradiction|]. simpl. destruct H as [H|H].
  - injection H as -> ->. pose proof (min_class_le l (N.min m c)). lia.
  - eapply IH; eauto.
Qed.

Lemma in_grace_zero : forall cfg now s idx, c_grace cfg = 0 -> in_grace cfg now s idx = false.
Proof.
  intros cfg now s idx H. unfold in_grace. destruct (lookup N.eqb (s_grace s) idx) as [[fs ex]|]; auto.
  destruct ex; auto. destruct (name_for_idx s idx); auto. rewrite H.
  assert ((now - fs <? 0) = false) as X by (apply N.ltb_ge; lia). rewrite X. apply andb_false_r.
Qed.

Lemma name_of_idx_lookup : forall links idx n, NoDup (keys links) -> name_of_idx links idx = Some n ->
  exists l, lookup String.eqb links n = Some l /\ l_idx l = idx.
Proof.
  intros links idx n ND H. unfold name_of_idx in H.
  destruct (filter (fun nl : string * link => N.eqb (l_idx (snd nl)) idx) links) as [|[n0 l0] rest] eqn:F; [discriminate|].
  injection H as <-. assert (In (n0, l0) (filter (fun nl : string * link => N.eqb (l_idx (snd nl)) idx) links)) as HI by (rewrite F; left; auto).
  apply filter_In in HI. destruct HI as [HI E]. simpl in E. apply N.eqb_eq in E.
  exists l0. split; auto. apply (al_in_lookup String.eqb string_eqb_spec); auto.
Qed.

Lemma spec_ours_model_ours : forall cfg s e r, VM cfg s e -> NoDup (keys (e_links e)) ->
  lookup String.eqb (e_links e) ""%string = None ->
  is_ours cfg (e_links e) r = true -> kroute_is_ours cfg s r = true.
Proof.
  intros cfg s e r [V1 [V2 V3]] ND NE H. unfold is_ours, sp_owner in H.
  Transparent kroute_is_ours. unfold kroute_is_ours. Opaque kroute_is_ours.
  destruct (special_noif r).
  - destruct (route_is_ours (c_pol cfg) NoOIF (kr_proto r)); auto.
  - destruct (name_of_idx (e_links e) (kr_ifx r)) as [n|] eqn:NI; [|discriminate].
    destruct (iface_is_ours (c_pol cfg) n && route_is_ours (c_pol cfg) n (kr_proto r)) eqn:B; [|discriminate].
    apply andb_true_iff in B. destruct B as [B1 B2].
    destruct (name_of_idx_lookup _ _ _ ND NI) as [l [L I]].
    assert (lookup N.eqb (s_i2n s) (kr_ifx r) = Some n) as X by (apply V2; split; auto; exists l; auto).
    rewrite X. destruct (String.eqb n ""%string) eqn:E; [apply String.eqb_eq in E; subst; congruence|exact B2].
Qed.

Lemma oracle_accepts_converged : forall cfg (sp : Spec.sp) s' e' k,
  c_grace cfg = 0 -> wf_links e' -> NoDup (keys (e_links e')) -> lookup String.eqb (e_links e') ""%string = None ->
  J cfg e' s' -> ConvStale cfg s' e' ->
  (forall c n k0 t, In ((c, n, k0), t) (s_routes s') -> c <= 1000 /\ (n = NoOIF \/ iface_is_ours (c_pol cfg) n = true)) ->
  p_D sp = s_routes s' -> e_links (p_env sp) = e_links e' ->
  ok_key cfg sp (e_routes e') k = true.
Proof.
  intros cfg sp s' e' k G0 WL ND NE HJ [CONV STALE] NOK PD PL.
  assert (forall c r, In (c, r) (sp_cands cfg (s_routes s') (e_links e') k) <->
            exists n t idx, In ((c, n, k), t) (s_routes s') /\ usable s' n idx /\ r = render cfg t idx) as CANDS.
  { intros c r. rewrite in_sp_cands. split.
    - intros [n [t [HI [[-> ->]|[NN [l [L [R ->]]]]]]]].
      + exists NoOIF, t, 0. split; auto. split; auto. split; [reflexivity|left; auto].
      + exists n, t, (l_idx l). split; auto. split; auto.
        destruct (NOK _ _ _ _ HI) as [_ [X|X]]; [contradiction|].
        apply (usable_links cfg s' e' n (l_idx l) (j_vm _ _ _ HJ) NN X). exists l. auto.
    - intros [n [t [idx [HI [U ->]]]]]. exists n, t. split; auto.
      destruct (string_dec n NoOIF) as [->|NN].
      + left. split; auto. destruct U as [U _]. unfold idx_for_name in U. rewrite String.eqb_refl in U. injection U as <-. auto.
      + right. split; auto. destruct (NOK _ _ _ _ HI) as [_ [X|X]]; [contradiction|].
        apply (usable_links cfg s' e' n idx (j_vm _ _ _ HJ) NN X) in U. destruct U as [l [L [I R]]]. exists l. subst. auto. }
  unfold ok_key. rewrite PD, PL. fold (tbl cfg e' k).
  destruct (winner cfg s' k) as [d|] eqn:W.
  - pose proof (j_i1 _ _ _ HJ k) as HD. unfold I1at in HD. rewrite W in HD. pose proof (CONV _ _ HD) as T. rewrite T.
    apply winner_by_class_priority in W. destruct W as [c [n [t [idx [HI [U [-> M]]]]]]].
    set (cs := sp_cands cfg (s_routes s') (e_links e') k) in *.
    assert (In (c, render cfg t idx) cs) as MEM by (apply CANDS; exists n, t, idx; auto).
    assert (min_class cs = c) as MC.
    { unfold min_class. apply N.le_antisymm; [eapply min_class_member; eauto|].
      apply min_class_lower; [apply (NOK _ _ _ _ HI)|].
      intros c' r' HI'. apply CANDS in HI'. destruct HI' as [n' [t' [idx' [HI' [U' _]]]]].
      destruct (M _ _ _ _ HI' U'); lia. }
    assert (In (render cfg t idx) (allowed cfg (s_routes s') (e_links e') k)) as AL.
    { unfold allowed. fold cs. rewrite MC. apply in_map_iff. exists (c, render cfg t idx). split; auto.
      apply filter_In. split; auto. simpl. apply N.eqb_refl. }
    destruct (allowed cfg (s_routes s') (e_links e') k) as [|a l] eqn:EA; [contradiction|].
    apply existsb_exists. exists (render cfg t idx). split; auto. apply kroute_eqb_spec. reflexivity.
  - assert (sp_cands cfg (s_routes s') (e_links e') k = []) as EMPTY.
    { assert (forall x, ~ In x (sp_cands cfg (s_routes s') (e_links e') k)) as NOMEM.
      { intros [c r] HI. apply CANDS in HI. destruct HI as [n [t [idx [HI [U _]]]]].
        eapply (proj1 (winner_none cfg s' k) W); eauto. }
      destruct (sp_cands cfg (s_routes s') (e_links e') k) as [|x l]; auto. exfalso. apply (NOMEM x). left; auto. }
    unfold allowed. rewrite EMPTY. cbn [filter map].
    destruct (tbl cfg e' k) as [r|] eqn:T; auto.
    destruct (is_ours cfg (e_links e') r) eqn:O; auto. exfalso.
    pose proof (spec_ours_model_ours cfg s' e' r (j_vm _ _ _ HJ) ND NE O) as MO.
    pose proof (j_i1 _ _ _ HJ k) as HD. unfold I1at in HD. rewrite W in HD.
    pose proof (STALE _ _ HD T MO) as IG. rewrite in_grace_zero in IG; auto. discriminate.
Qed.
