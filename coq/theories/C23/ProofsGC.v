(* C23 - garbageCollectKnownLeaks: what ends up in the ReleaseIPs call (pinned and repaired variants),
   for every iteration order and every batch limit. *)
From Coq Require Import List NArith Bool Lia.
From Verif.C23 Require Import Model Lemmas.
Import ListNotations.
Open Scope N_scope.

Lemma fold_left_inv : forall {A B} (f : A -> B -> A) (P : A -> Prop) l a,
  P a -> (forall a b, P a -> P (f a b)) -> P (fold_left f l a).
Proof. intros A B f P l. induction l; simpl; auto. Qed.

(* the part of an allocation the validity check looks at *)
Definition same_core (a b : alloc) : Prop :=
  a_id a = a_id b /\ a_attrs a = a_attrs b /\ a_seq a = a_seq b /\ a_knode a = a_knode b.

Lemma same_core_refl : forall a, same_core a a.
Proof. unfold same_core; auto. Qed.

Lemma same_core_trans : forall a b c, same_core a b -> same_core b c -> same_core a c.
Proof. unfold same_core; intuition congruence. Qed.

Lemma same_core_mark_valid : forall a, same_core a (mark_valid a).
Proof. unfold same_core, mark_valid, with_flags; simpl; auto. Qed.

Lemma valid_same_core : forall w a b pc, same_core a b -> allocation_is_valid w a pc = allocation_is_valid w b pc.
Proof.
  intros w [i at_ s k l c] [i' at' s' k' l' c'] pc [H1 [H2 [H3 H4]]]. simpl in *. subst. reflexivity.
Qed.

(* the state the loop works on is the initial one up to flags, and the index only shrinks *)
Definition gc_rel (c ci : ctrl) : Prop :=
  (forall i a', aget i (c_allocs ci) = Some a' -> exists a, aget i (c_allocs c) = Some a /\ same_core a a')
  /\ (forall i, In i (c_conf ci) -> In i (c_conf c)).

Lemma gc_rel_refl : forall c, gc_rel c c.
Proof. intros c. split; eauto using same_core_refl. Qed.

Lemma gc_rel_resurrect : forall c ci i a,
  gc_rel c ci -> aget i (c_allocs ci) = Some a ->
  gc_rel c (set_conf (upd_alloc (mark_valid a) ci) (irem i (c_conf ci))).
Proof.
  intros c ci i a [H1 H2] Ha. split; simpl.
  - intros j a' Hj. destruct (aget_In _ _ _ Ha) as [_ Hid].
    assert (Hmv : a_id (mark_valid a) = i) by (unfold mark_valid, with_flags; simpl; auto).
    destruct (id_eqb j i) eqn:E.
    + apply id_eqb_eq in E. subst j.
      pose proof (aget_aput_same (mark_valid a) (c_allocs ci)) as Hs. rewrite Hmv in Hs.
      rewrite Hs in Hj.
      inversion Hj; subst a'. destruct (H1 _ _ Ha) as [a0 [Ha0 Hc]]. exists a0. rewrite <- Hid. split.
      * rewrite Hid. exact Ha0.
      * eapply same_core_trans; eauto using same_core_mark_valid.
    + apply id_eqb_neq in E.
      rewrite aget_aput_other in Hj by (rewrite Hmv; auto). eauto.
  - intros j Hj. apply irem_In in Hj. apply H2. tauto.
Qed.

Definition opt_ok (w : world) (c : ctrl) (o : relopt) : Prop :=
  In (r_id o) (c_conf c) /\
  exists a, aget (r_id o) (c_allocs c) = Some a /\ r_seq o = a_seq a /\
            allocation_is_valid w a (N.eqb (a_knode a) 0) = false.

Lemma gc_visit_inv : forall w batch c st i,
  (gc_rel c (fst (fst st)) /\ Forall (opt_ok w c) (snd (fst st))) ->
  (gc_rel c (fst (fst (gc_visit w batch st i))) /\ Forall (opt_ok w c) (snd (fst (gc_visit w batch st i)))).
Proof.
  intros w batch c [[ci opts] stop] i [Hrel Hopts]. simpl in *. unfold gc_visit.
  destruct stop; [simpl; auto|].
  destruct (imem i (c_conf ci)) eqn:Hmem; simpl; [|auto].
  destruct (aget i (c_allocs ci)) as [a|] eqn:Ha; [|simpl; auto].
  destruct (allocation_is_valid w a (N.eqb (a_knode a) 0)) eqn:Hv.
  - simpl. split; auto. apply gc_rel_resurrect; auto.
  - destruct (handle_confirmed ci (a_handle a)); simpl; [|auto].
    split; auto. apply Forall_app. split; auto. constructor; [|constructor].
    destruct Hrel as [H1 H2]. destruct (H1 _ _ Ha) as [a0 [Ha0 Hc]].
    split; simpl.
    + apply H2. apply imem_In. exact Hmem.
    + exists a0. split; auto. pose proof Hc as [_ [_ [Hs Hk]]]. split; [simpl; congruence|].
      rewrite (valid_same_core w a0 a _ Hc).
      rewrite Hk. exact Hv.
Qed.

Theorem gc_pinned_sound : forall w batch order c c' opts,
  gc_pinned w batch order c = (c', opts) -> Forall (opt_ok w c) opts.
Proof.
  intros w batch order c c' opts H. unfold gc_pinned in H.
  destruct (fold_left (gc_visit w batch) order (c, [], false)) as [[c1 o1] s1] eqn:E.
  inversion H; subst. clear H.
  assert (P : gc_rel c (fst (fst (fold_left (gc_visit w batch) order (c, [], false))))
              /\ Forall (opt_ok w c) (snd (fst (fold_left (gc_visit w batch) order (c, [], false))))).
  { apply (fold_left_inv (gc_visit w batch)
             (fun st => gc_rel c (fst (fst st)) /\ Forall (opt_ok w c) (snd (fst st)))).
    - simpl. split; [apply gc_rel_refl | constructor].
    - intros st i Hst. apply gc_visit_inv; auto. }
  rewrite E in P. simpl in P. tauto.
Qed.

(* ---------- the repaired collector: re-validate everything, then whole handles ---------- *)

Definition idx_inv (c : ctrl) : Prop :=
  (forall a, In a (c_allocs c) -> aget (a_id a) (c_allocs c) = Some a)
  /\ (forall a, In a (c_allocs c) -> In (a_handle a, a_id a) (c_byhandle c))
  /\ (forall a, In a (c_allocs c) -> a_conf a = true -> In (a_id a) (c_conf c)).

Definition ids_pres (c ci : ctrl) : Prop :=
  forall a, In a (c_allocs c) -> exists a1, In a1 (c_allocs ci) /\ a_id a1 = a_id a.

Definition reval_done (w : world) (ci : ctrl) (done : list id) : Prop :=
  forall i a, In i done -> In i (c_conf ci) -> aget i (c_allocs ci) = Some a ->
              allocation_is_valid w a (N.eqb (a_knode a) 0) = false.

Definition reval_inv (w : world) (c ci : ctrl) (done : list id) : Prop :=
  gc_rel c ci /\ ids_pres c ci /\ idx_inv ci /\ reval_done w ci done /\ c_byhandle ci = c_byhandle c.

Lemma mark_valid_id : forall a, a_id (mark_valid a) = a_id a.
Proof. reflexivity. Qed.

Ltac sc := cbn [negb c_allocs c_conf c_byhandle c_bynode c_dirty set_conf upd_alloc set_allocs] in *.

Lemma reval_step : forall w c ci done j,
  reval_inv w c ci done -> reval_inv w c (gc_revalidate w ci j) (done ++ [j]).
Proof.
  intros w c ci done j [Hrel [Hids [Hidx [Hdone Hbh]]]]. unfold gc_revalidate.
  destruct (imem j (c_conf ci)) eqn:Hmem; sc.
  2:{ repeat split; auto; try apply Hrel; try apply Hidx.
      intros i a Hi Hc Ha. apply in_app_or in Hi. destruct Hi as [Hi|[Hi|[]]]; [eauto|].
      subst. apply imem_In in Hc. congruence. }
  destruct (aget j (c_allocs ci)) as [aj|] eqn:Haj.
  2:{ repeat split; auto; try apply Hrel; try apply Hidx.
      intros i a Hi Hc Ha. apply in_app_or in Hi. destruct Hi as [Hi|[Hi|[]]]; [eauto|]. subst. congruence. }
  destruct (allocation_is_valid w aj (N.eqb (a_knode aj) 0)) eqn:Hv.
  2:{ repeat split; auto; try apply Hrel; try apply Hidx.
      intros i a Hi Hc Ha. apply in_app_or in Hi. destruct Hi as [Hi|[Hi|[]]]; [eauto|]. subst. congruence. }
  destruct (aget_In _ _ _ Haj) as [Hin Hid].
  destruct Hidx as [Hu [Hh Hc]].
  split; [apply gc_rel_resurrect; auto|].
  split; [|split; [|split]].
  - intros a Ha. destruct (Hids a Ha) as [a1 [Ha1 E]].
    destruct (id_eqb (a_id a1) j) eqn:Ej.
    + apply id_eqb_eq in Ej. exists (mark_valid aj). sc. split.
      * apply aput_In. left; reflexivity.
      * rewrite mark_valid_id. congruence.
    + apply id_eqb_neq in Ej. exists a1. sc. split; auto. apply aput_In. right. split; auto.
      rewrite mark_valid_id. congruence.
  - unfold idx_inv; sc. split; [|split].
    + intros b Hb. apply aput_In in Hb. destruct Hb as [-> | [Hb Hne]].
      * apply aget_aput_same.
      * rewrite aget_aput_other by auto. auto.
    + intros b Hb. apply aput_In in Hb. destruct Hb as [-> | [Hb Hne]].
      * unfold a_handle. rewrite mark_valid_id. apply (Hh aj Hin).
      * auto.
    + intros b Hb Hcf. apply aput_In in Hb. destruct Hb as [-> | [Hb Hne]].
      * discriminate.
      * apply irem_In. split; auto. rewrite mark_valid_id in Hne. congruence.
  - unfold reval_done; sc. intros i a Hi Hci Ha. apply irem_In in Hci. destruct Hci as [Hci Hne].
    rewrite aget_aput_other in Ha by (rewrite mark_valid_id; congruence).
    apply in_app_or in Hi. destruct Hi as [Hi|[Hi|[]]]; [eauto|]. congruence.
  - sc. exact Hbh.
Qed.

Lemma reval_fold : forall w c l ci done,
  reval_inv w c ci done -> reval_inv w c (fold_left (gc_revalidate w) l ci) (done ++ l).
Proof.
  intros w c l. induction l as [|j l IH]; intros ci done H; simpl.
  - rewrite app_nil_r. exact H.
  - replace (done ++ j :: l) with ((done ++ [j]) ++ l) by (rewrite <- app_assoc; reflexivity).
    apply IH. apply reval_step. exact H.
Qed.

Lemma handle_confirmed_spec : forall c h i a,
  handle_confirmed c h = true -> In (h, i) (c_byhandle c) -> aget i (c_allocs c) = Some a -> a_conf a = true.
Proof.
  intros c h i a H Hin Ha. unfold handle_confirmed in H.
  destruct (c_byhandle c) eqn:E; [destruct Hin|]. rewrite <- E in *.
  rewrite forallb_forall in H. specialize (H i). rewrite Ha in H. apply H. apply ri_ids_In. exact Hin.
Qed.

(* gc_assemble takes whole handles *)
Definition asm_inv (cands acc : list id) : Prop :=
  (forall i, In i acc -> In i cands)
  /\ (forall i j, In i acc -> In j cands -> id_handle j = id_handle i -> In j acc).

Lemma gc_assemble_closed : forall batch cands, asm_inv cands (gc_assemble batch cands).
Proof.
  intros batch cands. unfold gc_assemble.
  apply (fold_left_inv _ (fun st : list id * bool => asm_inv cands (fst st))).
  - simpl. split; intros; contradiction.
  - intros [acc stop] h [H1 H2]. simpl in *. destruct stop; simpl; [split; auto|].
    match goal with |- context [if ?b then _ else _] => destruct b end; simpl; [split; auto|].
    split.
    + intros i Hi. apply in_app_or in Hi. destruct Hi as [Hi|Hi]; auto. apply filter_In in Hi. tauto.
    + intros i j Hi Hj E. apply in_or_app. apply in_app_or in Hi. destruct Hi as [Hi|Hi].
      * left. eauto.
      * right. apply filter_In in Hi. destruct Hi as [_ Hh]. apply filter_In. split; auto. rewrite E. exact Hh.
Qed.

Lemma reval_start : forall w c, idx_inv c -> reval_inv w c c [].
Proof.
  intros w c H. unfold reval_inv. split; [apply gc_rel_refl|]. split; [|split; [exact H|split]].
  - intros a Ha. eauto.
  - intros i a [].
  - reflexivity.
Qed.

Theorem gc_fixed_sound : forall w batch order c c' opts,
  idx_inv c -> gc_fixed w batch order order c = (c', opts) -> Forall (opt_ok w c) opts.
Proof.
  intros w batch order c c' opts Hidx H. unfold gc_fixed in H. inversion H; subst; clear H.
  pose proof (reval_fold w c order c [] (reval_start w c Hidx)) as [Hrel [Hids [Hidx1 [Hdone Hbh]]]]. simpl in Hdone.
  set (c1 := fold_left (gc_revalidate w) order c) in *.
  apply Forall_forall. intros o Ho. apply in_map_iff in Ho. destruct Ho as [i [<- Hi]].
  destruct (gc_assemble_closed batch (gc_candidates c1 order)) as [Hsub _].
  apply Hsub in Hi. unfold gc_candidates in Hi. apply filter_In in Hi. destruct Hi as [Hord Hf].
  apply andb_true_iff in Hf. destruct Hf as [Hf Hhc]. apply andb_true_iff in Hf. destruct Hf as [Hmem Hsome].
  destruct (aget i (c_allocs c1)) as [a1|] eqn:Ha1; [|discriminate].
  apply imem_In in Hmem. destruct Hrel as [R1 R2]. destruct (R1 _ _ Ha1) as [a0 [Ha0 Hc]].
  split; simpl.
  - auto.
  - exists a0. split; auto. unfold opt_of. rewrite Ha1. pose proof Hc as [_ [_ [Hs Hk]]]. split; [congruence|].
    rewrite (valid_same_core w a0 a1 _ Hc). rewrite Hk. eapply Hdone; eauto.
Qed.

Theorem gc_fixed_all_or_none : forall w batch order c c' opts,
  idx_inv c -> (forall i, In i (c_conf c) -> In i order) ->
  gc_fixed w batch order order c = (c', opts) ->
  forall o a, In o opts -> In a (c_allocs c) -> a_handle a = id_handle (r_id o) ->
              exists o', In o' opts /\ r_id o' = a_id a.
Proof.
  intros w batch order c c' opts Hidx Hcov H o a Ho Ha Hh. unfold gc_fixed in H. inversion H; subst; clear H.
  pose proof (reval_fold w c order c [] (reval_start w c Hidx)) as [Hrel [Hids [Hidx1 [Hdone Hbh]]]].
  set (c1 := fold_left (gc_revalidate w) order c) in *.
  apply in_map_iff in Ho. destruct Ho as [i [<- Hi]]. simpl in Hh.
  destruct (gc_assemble_closed batch (gc_candidates c1 order)) as [Hsub Hclosed].
  pose proof (Hsub _ Hi) as Hic. unfold gc_candidates in Hic. apply filter_In in Hic. destruct Hic as [_ Hf].
  apply andb_true_iff in Hf. destruct Hf as [_ Hhc].
  destruct (Hids a Ha) as [a1 [Ha1 E]].
  destruct Hidx1 as [Hu [Hhi Hci]].
  assert (Hcf : a_conf a1 = true).
  { eapply handle_confirmed_spec; [exact Hhc | | apply Hu; exact Ha1].
    replace (id_handle i) with (a_handle a1); [apply Hhi; exact Ha1|].
    unfold a_handle in *. rewrite E. exact Hh. }
  assert (Hcand : In (a_id a1) (gc_candidates c1 order)).
  { unfold gc_candidates. apply filter_In. split.
    - apply Hcov. destruct Hrel as [_ R2]. apply R2. apply Hci; auto.
    - rewrite (Hu a1 Ha1). replace (id_handle (a_id a1)) with (id_handle i).
      + rewrite Hhc. replace (imem (a_id a1) (c_conf c1)) with true; [reflexivity|].
        symmetry. apply imem_In. apply Hci; auto.
      + unfold a_handle in Hh. rewrite E. symmetry. exact Hh. }
  exists (opt_of c1 (a_id a1)). split.
  - apply in_map. eapply Hclosed; [exact Hi | exact Hcand |].
    unfold a_handle in Hh. rewrite E. exact Hh.
  - simpl. exact E.
Qed.
