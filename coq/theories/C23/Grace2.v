(* C23 - the grace chain, part 2: one whole sync, and the history-level statement *)
From Coq Require Import List NArith Bool Lia.
From Verif.C23 Require Import Model Spec Lemmas Lemmas2 ProofsGC Inv Same Binv Witness Reach Grace.
Import ListNotations.
Open Scope N_scope.

Lemma fold_left_inv_In : forall {A B} (f : A -> B -> A) (Q : A -> Prop) l a,
  Q a -> (forall a b, In b l -> Q a -> Q (f a b)) -> Q (fold_left f l a).
Proof.
  intros A B f Q l. induction l as [|x l IH]; intros a H0 Hs; simpl; auto.
  apply IH; [apply Hs; simpl; auto|]. intros a' b Hb. apply Hs. simpl; auto.
Qed.

Definition bn (c c' : ctrl) : Prop := c_bynode c' = c_bynode c /\ c_cnodes c' = c_cnodes c.

Lemma check_alloc_bn : forall w grace kn kex c can tun i,
  bn c (fst (fst (check_alloc w grace kn kex (c, can, tun) i)))
  /\ (snd (check_alloc w grace kn kex (c, can, tun) i) = tun \/ snd (check_alloc w grace kn kex (c, can, tun) i) = tun ++ [i]).
Proof.
  intros. unfold bn, check_alloc. destruct (aget i (c_allocs c)); [|cbn [fst snd]; auto].
  repeat match goal with |- context [if ?x then _ else _] => destruct x end; cbn [fst snd]; auto;
    unfold index_conf;
    repeat match goal with |- context [if ?x then _ else _] => destruct x end; auto.
Qed.

Lemma confirm_tunnel_bn : forall c i, bn c (confirm_tunnel c i).
Proof. intros. unfold bn, confirm_tunnel. destruct (aget i (c_allocs c)); auto. Qed.

Lemma knode_for_cnodes : forall w c c' cn, c_cnodes c' = c_cnodes c -> knode_for w c' cn = knode_for w c cn.
Proof. intros. unfold knode_for. rewrite H. reflexivity. Qed.

Section Sync.
Variables (grace : option N) (w : world) (c0 : ctrl).
Let now := w_now w.
Let dead := Dead w c0.
Notation srel' := (srel grace now dead).

Lemma check_node_srel : forall ci cn, bn c0 ci ->
  srel' ci (fst (check_node w grace ci cn)) /\ bn c0 (fst (check_node w grace ci cn)).
Proof.
  intros ci cn [Hb Hc]. unfold check_node.
  pose proof (knode_for_cnodes w c0 ci cn Hc) as Hk.
  destruct (knode_for w ci cn) as [kn|] eqn:Ekn.
  2:{ cbn [fst]. split; [apply srel_same; reflexivity | split; auto]. }
  unfold check_node_k.
  set (kex := negb (N.eqb kn 0) && nmem kn (w_knodes w)).
  assert (Hkex : kex = kexists w c0 cn).
  { unfold kex, kexists. rewrite <- Hk. reflexivity. }
  set (ids := ri_ids cn (c_bynode ci)).
  assert (Hdead : kex = false -> forall i, In i ids -> dead i).
  { intros Hk' i Hi. unfold ids in Hi. apply ri_ids_In in Hi. rewrite Hb in Hi. exists cn. split; auto. congruence. }
  assert (Q : (fun st : ctrl * bool * list id =>
                 srel' ci (fst (fst st)) /\ bn c0 (fst (fst st)) /\ (forall i, In i (snd st) -> In i ids))
              (fold_left (check_alloc w grace kn kex) ids (ci, true, []))).
  { apply fold_left_inv_In.
    - cbn [fst snd]. split; [apply srel_refl|]. split; [split; auto|]. intros i [].
    - intros [[c can] tun] i Hi [S [[B1 B2] T]]. cbn [fst snd] in *.
      destruct (check_alloc_bn w grace kn kex c can tun i) as [[B1' B2'] Ht].
      split; [|split].
      + eapply srel_trans; [exact S|].
        apply (check_alloc_srel grace now dead w kn kex (c, can, tun) i); auto.
      + split; congruence.
      + intros j Hj. destruct Ht as [Ht|Ht]; rewrite Ht in Hj; auto.
        apply in_app_or in Hj. destruct Hj as [Hj|[Hj|[]]]; auto. subst; auto. }
  destruct (fold_left (check_alloc w grace kn kex) ids (ci, true, [])) as [[c1 can] tun].
  cbn [fst snd] in Q. destruct Q as [S [[B1 B2] T]].
  destruct (negb kex) eqn:Ek; [destruct (negb can)|]; cbn [fst].
  - split; [eapply srel_trans; [exact S|apply srel_same; reflexivity] | split; auto].
  - apply negb_true_iff in Ek.
    assert (Q2 : (fun c => srel' ci c /\ bn c0 c) (fold_left confirm_tunnel tun c1)).
    { apply fold_left_inv_In; [split; [auto|split; auto]|].
      intros c i Hi [S' [B1' B2']]. destruct (confirm_tunnel_bn c i) as [X1 X2]. split.
      - eapply srel_trans; [exact S'|]. apply confirm_tunnel_srel. apply Hdead; auto.
      - split; congruence. }
    exact Q2.
  - split; [eapply srel_trans; [exact S|apply srel_same; reflexivity] | split; auto].
Qed.

Lemma check_nodes_srel : forall ns ci, bn c0 ci -> srel' ci (fst (check_nodes w grace ns ci)).
Proof.
  intros ns ci Hb. unfold check_nodes.
  assert (Q : (fun st : ctrl * list N => srel' ci (fst st) /\ bn c0 (fst st))
              (fold_left (fun (st : ctrl * list N) cn => let '(c, rel) := st in let '(c', r) := check_node w grace c cn in
                                                        (c', if r then rel ++ [cn] else rel)) ns (ci, []))).
  { apply fold_left_inv; [cbn [fst]; split; [apply srel_refl|auto]|].
    intros [c rel] cn [S B]. cbn [fst] in *. destruct (check_node_srel c cn B) as [S1 B1].
    destruct (check_node w grace c cn) as [c' r]. cbn [fst] in *. split; auto. eapply srel_trans; eauto. }
  exact (proj1 Q).
Qed.

Lemma gc_revalidate_srel : forall c i, srel' c (gc_revalidate w c i).
Proof.
  intros. unfold gc_revalidate. destruct (negb _); [apply srel_refl|].
  destruct (aget i (c_allocs c)) as [a|] eqn:Ha; [|apply srel_refl].
  destruct (allocation_is_valid w a _); [|apply srel_refl].
  eapply srel_trans; [|apply srel_same; reflexivity].
  destruct (aget_In _ _ _ Ha) as [_ Hid].
  eapply srel_upd; eauto. split; simpl; auto. discriminate.
Qed.

Lemma release_opt_srel : forall c o, srel' c (release_opt c o).
Proof. intros. unfold release_opt. destruct (aget _ _); [apply release_srel|apply srel_refl]. Qed.

Lemma forget_block_srel : forall b c, srel' c (forget_block b c).
Proof.
  intros. unfold forget_block.
  eapply srel_trans; [apply (fold_srel grace now dead (fun c a => release_allocation a c)); intros; apply release_srel|].
  apply srel_same. reflexivity.
Qed.

Lemma rub_visit_srel : forall st b, srel' (fst st) (fst (rub_visit w grace st b)).
Proof.
  intros [c calls] b. cbn [fst]. unfold rub_visit.
  destruct (mget b (c_empty c)) as [n|]; [|apply srel_refl]. destruct (Nat.leb _ 1); [apply srel_refl|].
  destruct (knode_for w c n); [|cbn [fst]; apply srel_same; reflexivity].
  pose proof (mark_empty_same (w_now w) grace b c) as [Hs _].
  destruct (mark_empty (w_now w) grace b c) as [c1 ok]. cbn [fst] in Hs.
  assert (S1 : srel' c c1) by (apply srel_same; auto).
  destruct (negb ok); [cbn [fst]; auto|]. destruct (mget b (c_blocks c1)); cbn [fst]; auto.
  eapply srel_trans; [exact S1|apply forget_block_srel].
Qed.

Lemma rub_srel : forall order c, srel' c (fst (release_unused_blocks w grace order c)).
Proof.
  intros. unfold release_unused_blocks.
  change c with (fst (c, @nil N)) at 1. generalize (c, @nil N). induction order; intros st; simpl; [apply srel_refl|].
  eapply srel_trans; [apply rub_visit_srel|apply IHorder].
Qed.

End Sync.

(* ---------- one sync from a reachable state ---------- *)

Definition after_reval (f : cfg) (w : world) (norder : list N) (gorder : ctrl -> list id) (c : ctrl) : ctrl :=
  let c1 := after_check f w norder c in fold_left (gc_revalidate w) (gorder c1) c1.

Lemma sync_srel_reval : forall f w norder gorder c,
  srel (f_grace f) (w_now w) (Dead w c) c (after_reval f w norder gorder c).
Proof.
  intros. unfold after_reval, after_check.
  eapply srel_trans; [|apply (fold_srel (f_grace f) (w_now w) (Dead w c) (gc_revalidate w)); intros; apply gc_revalidate_srel].
  eapply srel_trans; [apply (srel_same _ _ _ c (set_full c false)); reflexivity|].
  apply check_nodes_srel. split; reflexivity.
Qed.

Theorem sync_flags : forall f w norder gorder border c,
  is_repaired f -> srel (f_grace f) (w_now w) (Dead w c) c (fst (sync_ipam f w norder gorder border c)).
Proof.
  intros f w norder gorder border c [_ Hfg].
  destruct (sync_parts f w norder gorder border c Hfg) as [_ [_ [rn E]]]. rewrite E.
  eapply srel_trans; [|apply (fold_srel _ _ _ (fun c n => mark_clean n c)); intros; apply srel_same; reflexivity].
  eapply srel_trans; [|apply rub_srel].
  unfold gc_fixed. cbn [fst].
  eapply srel_trans; [apply (sync_srel_reval f w norder gorder c)|].
  apply (fold_srel _ _ _ release_opt). intros; apply release_opt_srel.
Qed.

(* every released option: its allocation was, when the sync started, already confirmed, or listed under a node that
   is not alive, or a candidate whose clock is older than the non-zero grace period *)
Theorem sync_released_grace : forall f w norder gorder border c,
  is_repaired f -> reach f w c ->
  forall o, In o (so_rel (snd (sync_ipam f w norder gorder border c))) ->
  exists a, In a (c_allocs c) /\ a_id a = r_id o /\ a_seq a = r_seq o
            /\ (a_conf a = true \/ Dead w c (r_id o) \/ elapsed (f_grace f) (w_now w) a).
Proof.
  intros f w norder gorder border c Hf Hr o Ho. destruct (reach_inv f w c Hf Hr) as [Hi Hb].
  pose proof Hf as [_ Hfg].
  destruct (sync_parts f w norder gorder border c Hfg) as [E _]. rewrite E in Ho. clear E.
  destruct (after_check_inv f w norder c Hi Hb) as [Hi1 _].
  set (c1 := after_check f w norder c) in *.
  unfold gc_fixed in Ho. cbn [snd] in Ho.
  pose proof (reval_fold w c1 (gorder c1) c1 [] (reval_start w c1 Hi1)) as [_ [_ [Hidx _]]].
  fold (after_reval f w norder gorder c) in Ho, Hidx. set (cr := after_reval f w norder gorder c) in *.
  apply in_map_iff in Ho. destruct Ho as [i [<- Hi']].
  destruct (gc_assemble_closed (f_batch f) (gc_candidates cr (gorder c1))) as [Hsub _].
  apply Hsub in Hi'. unfold gc_candidates in Hi'. apply filter_In in Hi'. destruct Hi' as [_ Hf'].
  apply andb_true_iff in Hf'. destruct Hf' as [Hf' Hhc]. apply andb_true_iff in Hf'. destruct Hf' as [_ Hsome].
  destruct (aget i (c_allocs cr)) as [a1|] eqn:Ha1; [|discriminate].
  destruct (aget_In _ _ _ Ha1) as [Hin1 Hid1].
  destruct Hidx as [_ [Hh _]].
  assert (Hc1 : a_conf a1 = true).
  { eapply handle_confirmed_spec; [exact Hhc| |exact Ha1]. rewrite <- Hid1. apply (Hh a1 Hin1). }
  destruct (sync_srel_reval f w norder gorder c a1 Hin1) as [a [Hina [Eid [Eseq [_ HC]]]]].
  exists a. split; auto. change (fold_left (gc_revalidate w) (gorder c1) c1) with cr. unfold opt_of. rewrite Ha1. cbn [r_id r_seq].
  split; [congruence|]. split; [congruence|].
  destruct (HC Hc1) as [H|[H|H]]; auto. right; left. rewrite <- Hid1. exact H.
Qed.

(* ---------- the history-level chain ---------- *)

Lemma reach_run_events : forall f evs w c, reach f w c ->
  reach f (fst (run_events (f_fixaff f) evs (w, c))) (snd (run_events (f_fixaff f) evs (w, c))).
Proof.
  intros f evs. unfold run_events. induction evs as [|e evs IH]; intros w c H; cbn [fold_left]; auto.
  pose proof (reach_event f w c e H) as H1. destruct (apply_event (f_fixaff f) e (w, c)) as [w1 c1]. cbn [fst snd] in H1.
  apply IH; auto.
Qed.

(* (w0, c0): any reachable state (think: the state right after the previous sync).  Then any events, then a sync.
   - a released allocation was, in (w0, c0), the same allocation (same id, same sequence number) and already confirmed
     or a candidate whose clock is older than the grace period now - and nothing in between reset it (any justified
     sighting, re-allocation or re-delivery as a new allocation makes it fresh, and a fresh allocation can only be
     released when its node is not alive);
   - a candidate clock shown after the sync is this sync's time or the clock the same allocation had in (w0, c0). *)
Theorem grace_chain : forall f w0 c0 evs norder gorder border,
  is_repaired f -> reach f w0 c0 ->
  let w := fst (run_events (f_fixaff f) evs (w0, c0)) in
  let c := snd (run_events (f_fixaff f) evs (w0, c0)) in
  let c' := fst (sync_ipam f w norder gorder border c) in
  (forall o, In o (so_rel (snd (sync_ipam f w norder gorder border c))) ->
     Dead w c (r_id o)
     \/ exists a0, In a0 (c_allocs c0) /\ a_id a0 = r_id o /\ a_seq a0 = r_seq o
                   /\ (a_conf a0 = true \/ elapsed (f_grace f) (w_now w) a0))
  /\ (forall a' t, In a' (c_allocs c') -> a_leaked a' = Some t ->
        t = w_now w \/ exists a0, In a0 (c_allocs c0) /\ a_id a0 = a_id a' /\ a_seq a0 = a_seq a' /\ a_leaked a0 = Some t)
  /\ (forall a', In a' (c_allocs c') -> a_conf a' = true ->
        Dead w c (a_id a')
        \/ exists a0, In a0 (c_allocs c0) /\ a_id a0 = a_id a' /\ a_seq a0 = a_seq a'
                      /\ (a_conf a0 = true \/ elapsed (f_grace f) (w_now w) a0)).
Proof.
  intros f w0 c0 evs norder gorder border Hf Hr w c c'.
  pose proof (reach_run_events f evs w0 c0 Hr) as Hrc. fold w c in Hrc.
  pose proof (run_events_sof (f_fixaff f) evs w0 c0) as Hsof. fold c in Hsof.
  assert (K : forall a, In a (c_allocs c) -> (a_conf a = true \/ elapsed (f_grace f) (w_now w) a) -> In a (c_allocs c0)).
  { intros a Ha Hk. destruct (Hsof a Ha) as [[F1 F2]|H]; auto. exfalso.
    destruct Hk as [Hk|[g [t [_ [Hl _]]]]]; congruence. }
  split; [|split].
  - intros o Ho. destruct (sync_released_grace f w norder gorder border c Hf Hrc o Ho) as [a [Ha [Eid [Es Hd]]]].
    destruct Hd as [Hd|[Hd|Hd]]; auto; right; exists a; split; auto.
  - intros a' t Ha' Hl. destruct (sync_flags f w norder gorder border c Hf a' Ha') as [a [Ha [Eid [Es [HL _]]]]].
    destruct HL as [HL|[HL|HL]]; [congruence| |left; congruence].
    right. destruct (Hsof a Ha) as [[F1 _]|H]; [congruence|]. exists a. repeat split; auto. congruence.
  - intros a' Ha' Hc. destruct (sync_flags f w norder gorder border c Hf a' Ha') as [a [Ha [Eid [Es [_ HC]]]]].
    destruct (HC Hc) as [H|[H|H]]; auto; right; exists a; split; auto.
Qed.
