(* C23 - proofs *)
From Coq Require Import List NArith Bool.
From Verif.C23 Require Import Model Spec.
Import ListNotations.
Open Scope N_scope.

Lemma mark_valid_clears : forall a, a_conf (mark_valid a) = false /\ a_leaked (mark_valid a) = None.
Proof. intros; split; reflexivity. Qed.
