(* C23 - the re-check before release for tunnel addresses.  checkAllocations records the Kubernetes node it resolved
   on EVERY allocation of the node it looks at (tunnel addresses included); garbageCollectKnownLeaks judges a tunnel
   address by that record.  So once a node has been looked at in a sync and resolves to a Kubernetes node name, none
   of its tunnel addresses leaves in that sync's ReleaseIPs call - whatever is left over in confirmedLeaks from earlier
   syncs (handle not complete, failed release, node re-registered in between). *)
From Coq Require Import List NArith Bool Lia.
From Verif.C23 Require Import Model Spec Lemmas Lemmas2 ProofsGC Inv Same Binv Witness Reach Grace Grace2.
Import ListNotations.
Open Scope N_scope.

Section One.
Variables (i : id) (kn : N) (at0 : attrs).

(* what we track about allocation i *)
Definition keeps (c : ctrl) : Prop := forall a, aget i (c_allocs c) = Some a -> a_attrs a = at0.
Definition knows (c : ctrl) : Prop := forall a, aget i (c_allocs c) = Some a -> a_knode a = kn.

Lemma aget_upd_other : forall c x, a_id x <> i -> aget i (c_allocs (upd_alloc x c)) = aget i (c_allocs c).
Proof. intros. prj. apply aget_aput_other. auto. Qed.

Lemma index_conf_allocs' : forall a c, c_allocs (index_conf a c) = c_allocs c.
Proof. intros. unfold index_conf. destruct (a_conf a); reflexivity. Qed.

Lemma check_alloc_frame : forall w grace kn' kex st j, j <> i ->
  aget i (c_allocs (fst (fst (check_alloc w grace kn' kex st j)))) = aget i (c_allocs (fst (fst st))).
Proof.
  intros w grace kn' kex [[c can] tun] j Hne. cbn [fst]. unfold check_alloc.
  destruct (aget j (c_allocs c)) as [a0|] eqn:Ha; [|reflexivity].
  destruct (aget_In _ _ _ Ha) as [_ Hid].
  set (a := with_flags a0 kn' (a_leaked a0) (a_conf a0)).
  assert (Hida : a_id a <> i) by (unfold a, with_flags; cbn [a_id]; rewrite Hid; exact Hne).
  destruct grace as [g|];
  repeat match goal with |- context [if ?x then _ else _] => destruct x end; cbn [fst];
    rewrite ?index_conf_allocs'; repeat (rewrite aget_upd_other; [|try exact Hida]); try reflexivity;
    try (unfold mark_valid, mark_confirmed, mark_leak, with_flags; cbn [a_id]; exact Hida).
Qed.

Lemma check_alloc_visit : forall w grace kex c can tun a0,
  aget i (c_allocs c) = Some a0 ->
  exists a', aget i (c_allocs (fst (fst (check_alloc w grace kn kex (c, can, tun) i)))) = Some a'
             /\ a_knode a' = kn /\ a_attrs a' = a_attrs a0.
Proof.
  intros w grace kex c can tun a0 Ha. unfold check_alloc. rewrite Ha.
  destruct (aget_In _ _ _ Ha) as [_ Hid].
  set (a := with_flags a0 kn (a_leaked a0) (a_conf a0)).
  assert (G : forall x cc, a_id x = i -> aget i (c_allocs (upd_alloc x cc)) = Some x)
    by (intros x cc E; prj; rewrite <- E; apply aget_aput_same).
  assert (Hida : a_id a = i) by (unfold a, with_flags; simpl; auto).
  repeat match goal with |- context [if ?x then _ else _] => destruct x end; cbn [fst];
    rewrite ?index_conf_allocs';
    first [ (exists a; split; [apply G; exact Hida | split; reflexivity])
          | (exists (mark_valid a); split; [apply G; exact Hida | split; reflexivity])
          | (exists (mark_confirmed a); split; [apply G; exact Hida | split; reflexivity])
          | idtac ].
  all: destruct grace as [g|];
    [ exists (mark_leak (w_now w) g a); split; [apply G; exact Hida | split; reflexivity]
    | exists a; split; [apply G; exact Hida | split; reflexivity] ].
Qed.

(* one visit of any allocation j under a lookup result kn' keeps "keeps", and keeps "knows" when j <> i or kn' = kn *)
Lemma check_alloc_keeps : forall w grace kn' kex st j, keeps (fst (fst st)) -> keeps (fst (fst (check_alloc w grace kn' kex st j))).
Proof.
  intros w grace kn' kex [[c can] tun] j H a Ha. cbn [fst] in *.
  destruct (id_eqb j i) eqn:E.
  - apply id_eqb_eq in E. subst j. destruct (aget i (c_allocs c)) as [a0|] eqn:H0.
    + revert Ha. unfold check_alloc. rewrite H0. destruct (aget_In _ _ _ H0) as [_ Hid].
      set (x := with_flags a0 kn' (a_leaked a0) (a_conf a0)).
      assert (G : forall y cc, a_id y = i -> aget i (c_allocs (upd_alloc y cc)) = Some y)
        by (intros y cc E; prj; rewrite <- E; apply aget_aput_same).
      assert (Hx : a_id x = i) by (unfold x, with_flags; simpl; auto).
      pose proof (H a0 H0) as Hat.
      repeat match goal with |- context [if ?b then _ else _] => destruct b end; cbn [fst];
        rewrite ?index_conf_allocs'; try (destruct grace);
        rewrite G by exact Hx; intros Ha; inversion Ha; subst a; exact Hat.
    + unfold check_alloc in Ha. rewrite H0 in Ha. cbn [fst] in Ha. congruence.
  - apply id_eqb_neq in E. rewrite (check_alloc_frame w grace kn' kex (c, can, tun) j E) in Ha. cbn [fst] in Ha. auto.
Qed.

Lemma check_alloc_knows : forall w grace kn' kex st j, (j <> i \/ kn' = kn) ->
  knows (fst (fst st)) -> knows (fst (fst (check_alloc w grace kn' kex st j))).
Proof.
  intros w grace kn' kex [[c can] tun] j Hj H a Ha. cbn [fst] in *.
  destruct (id_eqb j i) eqn:E.
  - apply id_eqb_eq in E. subst j. destruct Hj as [Hj|Hj]; [congruence|]. subst kn'.
    destruct (aget i (c_allocs c)) as [a0|] eqn:H0.
    + destruct (check_alloc_visit w grace kex c can tun a0 H0) as [a' [Ha' [Hk _]]]. congruence.
    + unfold check_alloc in Ha. rewrite H0 in Ha. cbn [fst] in Ha. congruence.
  - apply id_eqb_neq in E. rewrite (check_alloc_frame w grace kn' kex (c, can, tun) j E) in Ha. cbn [fst] in Ha. auto.
Qed.

Lemma confirm_tunnel_both : forall c j, (keeps c -> keeps (confirm_tunnel c j)) /\ (knows c -> knows (confirm_tunnel c j)).
Proof.
  intros c j. unfold confirm_tunnel. destruct (aget j (c_allocs c)) as [a0|] eqn:H0; [|auto].
  destruct (aget_In _ _ _ H0) as [_ Hid].
  assert (R : forall a, aget i (c_allocs (set_conf (upd_alloc (mark_confirmed a0) c) (iadd j (c_conf c)))) = Some a ->
              exists a1, aget i (c_allocs c) = Some a1 /\ a_attrs a = a_attrs a1 /\ a_knode a = a_knode a1).
  { intros a Ha. prj. destruct (id_eqb j i) eqn:E.
    - apply id_eqb_eq in E. rewrite E in *. clear E.
      pose proof (aget_aput_same (mark_confirmed a0) (c_allocs c)) as S.
      change (a_id (mark_confirmed a0)) with (a_id a0) in S. rewrite Hid in S. rewrite S in Ha.
      inversion Ha; subst a. exists a0. split; [exact H0|split; reflexivity].
    - apply id_eqb_neq in E. rewrite aget_aput_other in Ha by (change (a_id (mark_confirmed a0)) with (a_id a0); congruence).
      exists a. split; [exact Ha|split; reflexivity]. }
  split; intros H a Ha; destruct (R a Ha) as [a1 [H1 [E1 E2]]]; rewrite ?E1, ?E2; apply H; auto.
Qed.

End One.

Section Node.
Variables (i : id) (kn : N) (at0 : attrs) (cn : N).
Notation keeps' := (keeps i at0).
Notation knows' := (knows i kn).

Lemma fold_check_alloc_pres : forall w grace kn' kex ids st,
  (forall j, In j ids -> j <> i \/ kn' = kn) ->
  (keeps' (fst (fst st)) -> keeps' (fst (fst (fold_left (check_alloc w grace kn' kex) ids st))))
  /\ (knows' (fst (fst st)) -> knows' (fst (fst (fold_left (check_alloc w grace kn' kex) ids st)))).
Proof.
  intros w grace kn' kex ids. induction ids as [|j ids IH]; intros st Hj; simpl; [auto|].
  destruct (IH (check_alloc w grace kn' kex st j) (fun j' H => Hj j' (or_intror H))) as [I1 I2].
  split; intros H.
  - apply I1. apply check_alloc_keeps; auto.
  - apply I2. apply check_alloc_knows; auto. apply Hj. left; auto.
Qed.

Lemma fold_confirm_pres : forall tun c,
  (keeps' c -> keeps' (fold_left confirm_tunnel tun c)) /\ (knows' c -> knows' (fold_left confirm_tunnel tun c)).
Proof.
  intros tun. induction tun as [|j tun IH]; intros c; simpl; [auto|].
  destruct (IH (confirm_tunnel c j)) as [I1 I2]. destruct (confirm_tunnel_both i kn at0 c j) as [C1 C2]. auto.
Qed.

Lemma mark_clean_allocs : forall n c, c_allocs (mark_clean n c) = c_allocs c.
Proof. reflexivity. Qed.

Lemma check_node_k_tail : forall (w : world) (grace : option N) (c1 : ctrl) (can : bool) (tun : list id) (kex : bool) (cn' : N),
  let r := (if negb kex then if negb can then (mark_clean cn' c1, false) else (fold_left confirm_tunnel tun c1, true)
            else (mark_clean cn' c1, false)) in
  (keeps' c1 -> keeps' (fst r)) /\ (knows' c1 -> knows' (fst r)).
Proof.
  intros. unfold r. destruct (negb kex); [destruct (negb can)|]; cbn [fst]; auto using fold_confirm_pres.
Qed.

Lemma check_node_k_pres : forall w grace c cn' kn',
  (cn' = cn -> kn' = kn) -> (cn' <> cn -> ~ In (cn', i) (c_bynode c)) ->
  (keeps' c -> keeps' (fst (check_node_k w grace c cn' kn'))) /\ (knows' c -> knows' (fst (check_node_k w grace c cn' kn'))).
Proof.
  intros w grace c cn' kn' H1 H2. unfold check_node_k.
  set (kex := negb (N.eqb kn' 0) && nmem kn' (w_knodes w)).
  assert (Hj : forall j, In j (ri_ids cn' (c_bynode c)) -> j <> i \/ kn' = kn).
  { intros j Hin. destruct (N.eq_dec cn' cn) as [E|E]; [right; auto|]. left. intros ->. apply ri_ids_In in Hin. exact (H2 E Hin). }
  destruct (fold_check_alloc_pres w grace kn' kex _ (c, true, []) Hj) as [F1 F2]. cbn [fst] in F1, F2.
  destruct (fold_left (check_alloc w grace kn' kex) (ri_ids cn' (c_bynode c)) (c, true, [])) as [[c1 can] tun].
  cbn [fst] in *. destruct (check_node_k_tail w grace c1 can tun kex cn') as [T1 T2]. cbv zeta in T1, T2. split; auto.
Qed.

Lemma check_node_k_visit : forall w grace c,
  In (cn, i) (c_bynode c) -> knows' (fst (check_node_k w grace c cn kn)).
Proof.
  intros w grace c Hin. unfold check_node_k.
  set (kex := negb (N.eqb kn 0) && nmem kn (w_knodes w)).
  apply ri_ids_In in Hin. destruct (in_split _ _ Hin) as [l1 [l2 E]]. rewrite E. rewrite fold_left_app. cbn [fold_left].
  set (st1 := fold_left (check_alloc w grace kn kex) l1 (c, true, [])).
  assert (K : knows' (fst (fst (check_alloc w grace kn kex st1 i)))).
  { destruct st1 as [[c1 can] tun]. intros a Ha.
    destruct (aget i (c_allocs c1)) as [a0|] eqn:H0.
    - destruct (check_alloc_visit i kn w grace kex c1 can tun a0 H0) as [a' [Ha' [Hk _]]]. congruence.
    - unfold check_alloc in Ha. rewrite H0 in Ha. cbn [fst] in Ha. congruence. }
  destruct (fold_check_alloc_pres w grace kn kex l2 (check_alloc w grace kn kex st1 i) (fun _ _ => or_intror eq_refl)) as [_ F2].
  specialize (F2 K).
  destruct (fold_left (check_alloc w grace kn kex) l2 (check_alloc w grace kn kex st1 i)) as [[c2 can] tun].
  cbn [fst] in *. destruct (check_node_k_tail w grace c2 can tun kex cn) as [_ T2]. cbv zeta in T2. auto.
Qed.

End Node.

(* ---------- a whole sync ---------- *)

Lemma check_node_tunnel_pres : forall i kn at0 cn w grace c0 ci cn',
  bn c0 ci -> knode_for w c0 cn = KNode kn -> (forall n', In (n', i) (c_bynode c0) -> n' = cn) ->
  (keeps i at0 ci -> keeps i at0 (fst (check_node w grace ci cn')))
  /\ (knows i kn ci -> knows i kn (fst (check_node w grace ci cn')))
  /\ (cn' = cn -> In (cn, i) (c_bynode c0) -> knows i kn (fst (check_node w grace ci cn'))).
Proof.
  intros i kn at0 cn w grace c0 ci cn' [Hb Hc] Hk Hf. unfold check_node.
  rewrite (knode_for_cnodes w c0 ci cn' Hc).
  destruct (knode_for w c0 cn') as [kn'|] eqn:Ek.
  - assert (H1 : cn' = cn -> kn' = kn) by (intros ->; congruence).
    assert (H2 : cn' <> cn -> ~ In (cn', i) (c_bynode ci)) by (intros Hne Hin; rewrite Hb in Hin; apply Hne; auto).
    destruct (check_node_k_pres i kn at0 cn w grace ci cn' kn' H1 H2) as [P1 P2].
    split; auto. split; auto. intros E Hin. subst cn'. rewrite (H1 eq_refl). apply (check_node_k_visit i kn at0 cn). rewrite Hb. exact Hin.
  - cbn [fst]. split; auto. split; auto. intros ->. congruence.
Qed.

Lemma check_nodes_tunnel : forall i kn at0 cn w grace c0 ns ci rel,
  bn c0 ci -> knode_for w c0 cn = KNode kn -> (forall n', In (n', i) (c_bynode c0) -> n' = cn) ->
  In (cn, i) (c_bynode c0) -> keeps i at0 ci -> (In cn ns \/ knows i kn ci) ->
  let r := fold_left (fun (st : ctrl * list N) cn' => let '(c, rel) := st in let '(c', r) := check_node w grace c cn' in
                                                      (c', if r then rel ++ [cn'] else rel)) ns (ci, rel) in
  keeps i at0 (fst r) /\ knows i kn (fst r).
Proof.
  intros i kn at0 cn w grace c0 ns. induction ns as [|cn' ns IH]; intros ci rel Hbn Hk Hf Hin Hkeep Hor; cbn [fold_left].
  - cbn [fst]. split; auto. destruct Hor as [[]|H]; auto.
  - destruct (check_node_tunnel_pres i kn at0 cn w grace c0 ci cn' Hbn Hk Hf) as [P1 [P2 P3]].
    pose proof (proj2 (check_node_srel grace w c0 ci cn' Hbn)) as Hbn'.
    destruct (check_node w grace ci cn') as [c' r]. cbn [fst] in *.
    apply IH; auto.
    destruct Hor as [[->|Hin']|Hkn]; auto.
Qed.

Theorem sync_tunnel_recheck : forall f w c norder gorder border cn kn i a0,
  is_repaired f -> reach f w c ->
  In cn norder -> knode_for w c cn = KNode kn -> kn <> 0 ->
  In (cn, i) (c_bynode c) -> (forall n', In (n', i) (c_bynode c) -> n' = cn) ->
  aget i (c_allocs c) = Some a0 -> at_tun (a_attrs a0) = true ->
  ~ In i (map r_id (so_rel (snd (sync_ipam f w norder gorder border c)))).
Proof.
  intros f w c norder gorder border cn kn i a0 Hf Hr Hno Hk Hkn Hin Hfun Ha Ht Hrel.
  apply in_map_iff in Hrel. destruct Hrel as [o [Eo Ho]].
  pose proof (sync_release_sound f w c norder gorder border Hf Hr) as Hs.
  rewrite Forall_forall in Hs. destruct (Hs o Ho) as [_ [a [Ha1 [_ Hv]]]]. rewrite Eo in Ha1.
  assert (K : keeps i (a_attrs a0) (after_check f w norder c) /\ knows i kn (after_check f w norder c)).
  { unfold after_check, check_nodes.
    apply (check_nodes_tunnel i kn (a_attrs a0) cn w (f_grace f) c norder (set_full c false) []); auto.
    - split; reflexivity.
    - intros a' Ha'. change (c_allocs (set_full c false)) with (c_allocs c) in Ha'. congruence. }
  destruct K as [K1 K2]. pose proof (K1 a Ha1) as Eat. pose proof (K2 a Ha1) as Ekn.
  unfold allocation_is_valid, is_tunnel in Hv. rewrite Eat, Ht, Ekn in Hv.
  apply N.eqb_neq in Hkn. rewrite Hkn in Hv. discriminate.
Qed.
