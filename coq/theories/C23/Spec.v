(* C23 - what the property says, as an oracle over what can be observed from outside the controller:
   the history of inputs (world changes, syncer updates, time) and, for every GC sync, the ReleaseIPs /
   ReleaseBlockAffinity / ReleaseHostAffinities calls it made and a dump of its bookkeeping.

   The oracle replays only the *world* and the *blocks delivered* (never the controller's algorithm):
     - ok_release   : a released allocation is one the blocks seen still contain (same handle, same sequence number)
                      and its owner does not justify it at the time of release;
     - ok_grace     : it has been shown as a leak candidate by the controller's own bookkeeping, continuously and
                      with an unchanged first-seen time, for longer than the grace period - unless its node is gone,
                      in which case no grace period applies;
     - ok_handles   : a ReleaseIPs call contains all addresses of each handle it mentions;
     - ok_lastblock : ReleaseBlockAffinity is only called for a block whose node has another block;
     - ok_books     : the bookkeeping dump is exactly the image of the blocks seen. *)
From Coq Require Import List NArith Bool.
From Verif.C23 Require Import Model.
Import ListNotations.
Open Scope N_scope.

(* ---------- observations ---------- *)

Record dump := {
  d_blocks : list N;            (* keys of allBlocks *)
  d_allocs : list alloc;        (* allocationsByBlock *)
  d_bynode : list (N * id);     (* allocationState.allocationsByNode *)
  d_dirty : list N;
  d_byhandle : list (N * id);   (* handleTracker *)
  d_conf : list id;             (* confirmedLeaks *)
  d_nbb : list (N * N);
  d_bbn : list (N * N);
  d_empty : list (N * N);
  d_tracker : list (N * N);
  d_full : bool }.

Record sync_obs := { o_out : sync_out; o_dump : dump }.

(* SyncF: a sync whose ReleaseIPs call failed after releasing only [done] *)
Inductive step := Ev (e : event) | Sync (o : sync_obs) | SyncF (o : sync_obs) (done : list relopt).

Record case := { k_grace : option N; k_fixaff : bool; k_fixgc : bool; k_steps : list step }.
Definition cfg_of (k : case) : cfg :=
  {| f_grace := k_grace k; f_batch := go_max_batch; f_fixaff := k_fixaff k; f_fixgc := k_fixgc k |}.

(* short constructors for the terms printed by the Go driver *)
Definition mkAt := Build_attrs.
Definition mkBA := Build_balloc.
Definition mkB := Build_block.
Definition mkP := Build_pod.
Definition mkA (h b o : N) (at_ : attrs) (seq kn : N) (l : option N) (cf : bool) : alloc :=
  {| a_id := (h, b, o); a_attrs := at_; a_seq := seq; a_knode := kn; a_leaked := l; a_conf := cf |}.
Definition mkR (h b o seq : N) : relopt := {| r_id := (h, b, o); r_seq := seq |}.
Definition mkD := Build_dump.
Definition mkS (rel : list relopt) (rba rha : list N) (d : dump) : step :=
  Sync {| o_out := {| so_rel := rel; so_rba := rba; so_rha := rha |}; o_dump := d |}.
Definition mkSF (rel : list relopt) (d : dump) (done : list relopt) : step :=
  SyncF {| o_out := {| so_rel := rel; so_rba := []; so_rha := [] |}; o_dump := d |} done.
Definition mkK := Build_case.

(* ---------- equality up to order ---------- *)

Definition subset {A} (eqb : A -> A -> bool) (l1 l2 : list A) : bool := forallb (fun x => existsb (eqb x) l2) l1.
Definition set_eqb {A} (eqb : A -> A -> bool) (l1 l2 : list A) : bool :=
  Nat.eqb (length l1) (length l2) && subset eqb l1 l2 && subset eqb l2 l1.

Definition attrs_eqb (x y : attrs) : bool :=
  N.eqb (at_node x) (at_node y) && N.eqb (at_pod x) (at_pod y) && Bool.eqb (at_tun x) (at_tun y).
Definition optN_eqb (x y : option N) : bool :=
  match x, y with Some a, Some b => N.eqb a b | None, None => true | _, _ => false end.
Definition alloc_eqb (x y : alloc) : bool :=
  id_eqb (a_id x) (a_id y) && attrs_eqb (a_attrs x) (a_attrs y) && N.eqb (a_seq x) (a_seq y)
  && N.eqb (a_knode x) (a_knode y) && optN_eqb (a_leaked x) (a_leaked y) && Bool.eqb (a_conf x) (a_conf y).
Definition nid_eqb (x y : N * id) : bool := N.eqb (fst x) (fst y) && id_eqb (snd x) (snd y).
Definition nn_eqb (x y : N * N) : bool := N.eqb (fst x) (fst y) && N.eqb (snd x) (snd y).
Definition relopt_eqb (x y : relopt) : bool := id_eqb (r_id x) (r_id y) && N.eqb (r_seq x) (r_seq y).
Fixpoint list_eqb {A} (eqb : A -> A -> bool) (l1 l2 : list A) : bool :=
  match l1, l2 with
  | [], [] => true
  | x :: l1', y :: l2' => eqb x y && list_eqb eqb l1' l2'
  | _, _ => false
  end.

Definition dump_of (c : ctrl) : dump :=
  {| d_blocks := map fst (c_blocks c); d_allocs := c_allocs c; d_bynode := c_bynode c; d_dirty := c_dirty c;
     d_byhandle := c_byhandle c; d_conf := c_conf c; d_nbb := c_nbb c; d_bbn := c_bbn c; d_empty := c_empty c;
     d_tracker := c_tracker c; d_full := c_full c |}.

Definition dump_eqb (x y : dump) : bool :=
  set_eqb N.eqb (d_blocks x) (d_blocks y) && set_eqb alloc_eqb (d_allocs x) (d_allocs y)
  && set_eqb nid_eqb (d_bynode x) (d_bynode y) && set_eqb N.eqb (d_dirty x) (d_dirty y)
  && set_eqb nid_eqb (d_byhandle x) (d_byhandle y) && set_eqb id_eqb (d_conf x) (d_conf y)
  && set_eqb nn_eqb (d_nbb x) (d_nbb y) && set_eqb nn_eqb (d_bbn x) (d_bbn y)
  && set_eqb nn_eqb (d_empty x) (d_empty y) && set_eqb nn_eqb (d_tracker x) (d_tracker y)
  && Bool.eqb (d_full x) (d_full y).

Definition out_eqb (x y : sync_out) : bool :=
  set_eqb relopt_eqb (so_rel x) (so_rel y) && list_eqb N.eqb (so_rba x) (so_rba y) && set_eqb N.eqb (so_rha x) (so_rha y).

(* ---------- running the model along a case, map orders guided by what the implementation did ---------- *)

(* confirmedLeaks order: the ones the implementation released first (a release never changes later decisions),
   then the ones the final re-validation resurrects, then the rest. *)
Definition guided_gorder (w : world) (rel : list relopt) (c : ctrl) : list id :=
  let first := map r_id rel in
  let others := filter (fun i => negb (imem i first)) (c_conf c) in
  let valid i := match aget i (c_allocs c) with
                 | Some a => allocation_is_valid w a (N.eqb (a_knode a) 0) | None => false end in
  first ++ filter valid others ++ filter (fun i => negb (valid i)) others.

(* emptyBlocks order.  The node's block count is tested BEFORE markEmpty, and it drops with every release, so whether a
   block that is not released gets its first "seen empty" time in this sync depends on when it is ranged over.  The order
   that reproduces what the implementation did: first the blocks the implementation did not release but whose tracker
   entry carries this sync's time (marking them earlier can only see a larger count and touches nothing else), then the
   blocks it released, in its order, then the rest (ranged over last they see the smallest count; they were not marked). *)
Definition guided_border (now : N) (o : sync_obs) (c : ctrl) : list N :=
  let rba := so_rba (o_out o) in
  let others := filter (fun b => negb (nmem b rba)) (map fst (c_empty c)) in
  let fresh b := match mget b (d_tracker (o_dump o)) with Some t => N.eqb t now | None => false end in
  filter fresh others ++ rba ++ filter (fun b => negb (fresh b)) others.

Definition model_step (f : cfg) (st : world * ctrl * bool) (s : step) : world * ctrl * bool :=
  let '(w, c, ok) := st in
  match s with
  | Ev e => let '(w', c') := apply_event (f_fixaff f) e (w, c) in (w', c', ok)
  | Sync o =>
      let '(c', out) := sync_ipam f w (nodes_to_check c)
                                  (guided_gorder w (so_rel (o_out o))) (guided_border (w_now w) o) c in
      (w, c', ok && out_eqb out (o_out o) && dump_eqb (dump_of c') (o_dump o))
  | SyncF o done =>
      let '(c', out) := sync_ipam_failed f w (nodes_to_check c) (guided_gorder w (so_rel (o_out o)))
                                         (fun x => existsb (relopt_eqb x) done) c in
      (w, c', ok && out_eqb out (o_out o) && dump_eqb (dump_of c') (o_dump o))
  end.

Definition model_agrees (k : case) : bool :=
  snd (fold_left (model_step (cfg_of k)) (k_steps k) (world0, ctrl0, true)).

(* ---------- the specification oracle ---------- *)

(* What the oracle remembers: the world, the Calico nodes announced by the syncer, the latest version of every block
   delivered and not deleted, the allocations the collector released since their block was last delivered, the Calico
   nodes that were unknown at some sync, and the dump of the previous syncs (time, dump), latest first. *)
Record sstate := {
  s_w : world;
  s_cnodes : list (N * bool);
  s_seen : list (N * block);
  s_gcd : list id;
  s_unknown : list N;
  s_dumps : list (N * dump) }.

Definition sstate0 : sstate :=
  {| s_w := world0; s_cnodes := []; s_seen := []; s_gcd := []; s_unknown := []; s_dumps := [] |}.

(* the allocations (with a handle) that the blocks seen contain: id, attributes, sequence number *)
Definition image_block (bb : N * block) : list alloc :=
  flat_map (fun ba => match ba_handle ba with
                      | Some h => [new_alloc (fst bb) h ba]
                      | None => [] end) (b_allocs (snd bb)).
Definition image (seen : list (N * block)) : list alloc := flat_map image_block seen.
(* ... minus what the collector itself released since *)
Definition tracked (s : sstate) : list alloc := filter (fun a => negb (imem (a_id a) (s_gcd s))) (image (s_seen s)).

(* Does the owner justify the allocation, looking at one view of the pods?  [kn]: the Kubernetes node of the
   allocation's node as far as it is known (0 = unknown). *)
Definition owner_justifies (pods : list (N * pod)) (a : alloc) : bool :=
  match mget (at_pod (a_attrs a)) pods with
  | None => false
  | Some p => (N.eqb (p_node p) 0 || N.eqb (p_node p) (a_node a))
              && match p_ips p with
                 | [] => true
                 | ips => negb (p_evicted p) && existsb (fun ip => N.eqb (fst ip) (a_block a) && N.eqb (snd ip) (id_ord (a_id a))) ips
                 end
  end.

(* What the world says about a Calico node.  The datastore is the truth; the syncer's cache is trusted only when it
   carries a Kubernetes node name.
     - gone     : not cached as a Kubernetes node and absent from the datastore;
     - non-k8s  : (not cached as a Kubernetes node and) in the datastore without a Kubernetes OrchRef: such a node is
                  alive as long as the Calico node exists - nothing it owns may be released;
     - k8s      : alive as long as the Kubernetes node exists. *)
Definition cached_k8s (s : sstate) (n : N) : bool :=
  match mget n (s_cnodes s) with Some true => true | _ => false end.
Definition node_known (s : sstate) (n : N) : bool :=
  cached_k8s s n || match mget n (w_cnodesA (s_w s)) with Some _ => true | None => false end.
Definition node_nonk8s (s : sstate) (n : N) : bool :=
  negb (cached_k8s s n) && match mget n (w_cnodesA (s_w s)) with Some false => true | _ => false end.
Definition node_alive (s : sstate) (n : N) : bool :=
  node_nonk8s s n || (node_known s n && nmem n (w_knodes (s_w s))).

(* ok_release for one released option *)
Definition ok_release_one (s : sstate) (o : relopt) : bool :=
  match aget (r_id o) (tracked s) with
  | None => false                                  (* not an allocation of the blocks seen *)
  | Some a =>
      N.eqb (a_seq a) (r_seq o)                    (* released with the sequence number the block carries *)
      && negb (N.eqb (id_handle (r_id o)) windows_handle)
      && if at_tun (a_attrs a)
         then (* tunnel address: only when its Calico node was unknown at this sync or an earlier one *)
              nmem (a_node a) (s_unknown s)
         else (* pod address: must be a pod address, and the pod must not justify it in both views;
                 when the node is and always was known the API view is the one that counts *)
              negb (N.eqb (at_pod (a_attrs a)) 0)
              && (if node_known s (a_node a) && negb (nmem (a_node a) (s_unknown s))
                  then negb (owner_justifies (w_podsA (s_w s)) a)
                  else negb (owner_justifies (w_podsA (s_w s)) a && owner_justifies (w_podsC (s_w s)) a))
  end.

(* ok_grace.  The controller's own bookkeeping is the witness of "has been a leak candidate": the dump taken after
   every sync shows, per allocation, leakedAt (first time it was found unjustified, reset whenever it is found
   justified or re-allocated) and the confirmed flag.  The rules checked at every sync, against the previous dump:
     - a leakedAt shown now is either this sync's time or the one already shown by the previous dump for the same
       allocation (same id, same sequence number): the clock of a candidate is never moved back;
     - an allocation shown as confirmed now, or released now, was already confirmed in the previous dump, or its node
       is not alive at this sync (no grace period applies), or the previous dump shows it as a candidate since a time
       that is more than the (non-zero) grace period ago. *)
Definition prev_alloc (i : id) (seq : N) (dumps : list (N * dump)) : option alloc :=
  match dumps with
  | [] => None
  | (_, d) :: _ => match aget i (d_allocs d) with
                   | Some a => if N.eqb (a_seq a) seq then Some a else None
                   | None => None end
  end.

Definition confirm_justified (grace : option N) (s : sstate) (i : id) (seq : N) (node : N) : bool :=
  negb (node_alive s node)
  || match prev_alloc i seq (s_dumps s) with
     | Some p => a_conf p
                 || match grace, a_leaked p with
                    | Some g, Some t => N.ltb 0 g && N.ltb g (w_now (s_w s) - t)
                    | _, _ => false
                    end
     | None => false
     end.

Definition ok_grace_one (grace : option N) (s : sstate) (o : relopt) : bool :=
  match aget (r_id o) (tracked s) with
  | None => false
  | Some a => confirm_justified grace s (r_id o) (r_seq o) (a_node a)
  end.

Definition ok_grace_dump (grace : option N) (s : sstate) (d : dump) : bool :=
  forallb (fun a =>
             match a_leaked a with
             | None => true
             | Some t => N.eqb t (w_now (s_w s))
                         || match prev_alloc (a_id a) (a_seq a) (s_dumps s) with
                            | Some p => optN_eqb (a_leaked p) (Some t)
                            | None => false end
             end
             && (negb (a_conf a) || confirm_justified grace s (a_id a) (a_seq a) (a_node a)))
          (d_allocs d).

(* ok_handles: every tracked allocation whose handle is mentioned by the call is in the call *)
Definition ok_handles (s : sstate) (rel : list relopt) : bool :=
  forallb (fun a => negb (existsb (fun o => N.eqb (id_handle (r_id o)) (a_handle a)) rel)
                    || existsb (fun o => id_eqb (r_id o) (a_id a)) rel) (tracked s).

(* ok_lastblock: walk the ReleaseBlockAffinity calls in order; the block must be seen, affine to a node that has
   another seen block, and empty; it then disappears. *)
Definition affine_to (n : N) (bb : N * block) : bool :=
  match b_aff (snd bb) with AffHost m => N.eqb n m | _ => false end.
Fixpoint ok_lastblock (seen : list (N * block)) (rba : list N) : bool :=
  match rba with
  | [] => true
  | b :: rest =>
      match mget b seen with
      | Some blk =>
          match b_aff blk with
          | AffHost n => Nat.leb 2 (length (filter (affine_to n) seen))
                         && match b_allocs blk with [] => true | _ => false end
                         && ok_lastblock (mdel b seen) rest
          | _ => false
          end
      | None => false
      end
  end.

(* ok_rha: ReleaseHostAffinities (node cleanup) only for a node that is not alive at this sync *)
Definition ok_rha (s : sstate) (rha : list N) : bool := forallb (fun n => negb (node_alive s n)) rha.

(* ok_books: allocationState (and the other indexes) against the image of the blocks seen *)
Definition alloc_core_eqb (x y : alloc) : bool :=
  id_eqb (a_id x) (a_id y) && attrs_eqb (a_attrs x) (a_attrs y) && N.eqb (a_seq x) (a_seq y).
Definition ok_books (s : sstate) (d : dump) : bool :=
  let tr := tracked s in
  set_eqb alloc_core_eqb (d_allocs d) tr
  && set_eqb nid_eqb (d_bynode d)
             (flat_map (fun a => if N.eqb (a_node a) 0 then [] else [(a_node a, a_id a)]) tr)
  && set_eqb nid_eqb (d_byhandle d) (map (fun a => (a_handle a, a_id a)) tr)
  && subset id_eqb (d_conf d) (map a_id tr)
  && set_eqb N.eqb (d_blocks d) (map fst (s_seen s))
  && set_eqb nn_eqb (d_bbn d)
             (flat_map (fun bb => match b_aff (snd bb) with AffHost n => [(n, fst bb)] | _ => [] end) (s_seen s)).

Definition set_sw (s : sstate) (w : world) : sstate :=
  {| s_w := w; s_cnodes := s_cnodes s; s_seen := s_seen s; s_gcd := s_gcd s; s_unknown := s_unknown s; s_dumps := s_dumps s |}.

Definition forget_seen (b : N) (s : sstate) (seen : list (N * block)) : sstate :=
  {| s_w := s_w s; s_cnodes := s_cnodes s; s_seen := seen;
     s_gcd := filter (fun i => negb (N.eqb (id_block i) b)) (s_gcd s); s_unknown := s_unknown s; s_dumps := s_dumps s |}.

(* one sync: the calls are judged as made; only the options in [done] were really released *)
Definition spec_sync (grace : option N) (s : sstate) (ok : bool) (o : sync_obs) (done : list relopt) : sstate * bool :=
      let out := o_out o in
      (* nodes mentioned by blocks seen that are unknown at this sync *)
      let nodes := dedup (map a_node (image (s_seen s))) in
      let s0 := {| s_w := s_w s; s_cnodes := s_cnodes s; s_seen := s_seen s; s_gcd := s_gcd s;
                   s_unknown := fold_left (fun acc n => if node_known s n then acc else nadd n acc) nodes (s_unknown s);
                   s_dumps := s_dumps s |} in
      let ok1 := forallb (ok_release_one s0) (so_rel out) && forallb (ok_grace_one grace s0) (so_rel out)
                 && ok_handles s0 (so_rel out) && ok_lastblock (s_seen s0) (so_rba out)
                 && ok_grace_dump grace s0 (o_dump o) && ok_rha s0 (so_rha out)
                 && forallb (fun b => match mget b (s_seen s0) with
                                      | Some blk => match b_aff blk with AffHost n => negb (node_nonk8s s0 n) | _ => true end
                                      | None => true end) (so_rba out) in
      (* effects of the calls: released allocations and released blocks are gone *)
      let seen' := fold_left (fun sn b => mdel b sn) (so_rba out) (s_seen s0) in
      let gcd' := filter (fun i => negb (nmem (id_block i) (so_rba out))) (map r_id done ++ s_gcd s0) in
      let s1 := {| s_w := s_w s0; s_cnodes := s_cnodes s0; s_seen := seen'; s_gcd := gcd';
                   s_unknown := s_unknown s0; s_dumps := (w_now (s_w s0), o_dump o) :: s_dumps s0 |} in
      (s1, ok && ok1 && ok_books s1 (o_dump o)).

Definition spec_step (grace : option N) (st : sstate * bool) (x : step) : sstate * bool :=
  let '(s, ok) := st in
  match x with
  | Ev e =>
      let s1 := set_sw s (fst (apply_event false e (s_w s, ctrl0))) in
      (match e with
       | ECNodeSync n (Some k) => {| s_w := s_w s1; s_cnodes := mput n k (s_cnodes s1); s_seen := s_seen s1; s_gcd := s_gcd s1;
                                 s_unknown := s_unknown s1; s_dumps := s_dumps s1 |}
       | ECNodeSync n None => {| s_w := s_w s1; s_cnodes := mdel n (s_cnodes s1); s_seen := s_seen s1; s_gcd := s_gcd s1;
                                  s_unknown := s_unknown s1; s_dumps := s_dumps s1 |}
       | EBlock b (Some blk) => forget_seen b s1 (mput b blk (s_seen s1))
       | EBlock b None => forget_seen b s1 (mdel b (s_seen s1))
       | _ => s1
       end, ok)
  | Sync o => spec_sync grace s ok o (so_rel (o_out o))
  | SyncF o done => spec_sync grace s ok o done
  end.

Definition ok_case (k : case) : bool :=
  snd (fold_left (spec_step (k_grace k)) (k_steps k) (sstate0, true)).

Definition check_case (k : case) : bool * bool := (model_agrees k, ok_case k).

(* ---------- diagnosis: which part of the oracle rejects, per sync (used for replays and classification only) ---------- *)
Definition diag_sync (grace : option N) (s s' : sstate) (acc : list (list bool)) (o : sync_obs) : sstate * list (list bool) :=
      let out := o_out o in
      let nodes := dedup (map a_node (image (s_seen s))) in
      let s0 := {| s_w := s_w s; s_cnodes := s_cnodes s; s_seen := s_seen s; s_gcd := s_gcd s;
                   s_unknown := fold_left (fun acc n => if node_known s n then acc else nadd n acc) nodes (s_unknown s);
                   s_dumps := s_dumps s |} in
      let d := o_dump o in
      let tr := tracked s' in
      (s', acc ++ [[forallb (ok_release_one s0) (so_rel out); forallb (ok_grace_one grace s0) (so_rel out);
                    ok_handles s0 (so_rel out);
                    ok_lastblock (s_seen s0) (so_rba out) && ok_rha s0 (so_rha out)
                    && forallb (fun b => match mget b (s_seen s0) with
                                         | Some blk => match b_aff blk with AffHost n => negb (node_nonk8s s0 n) | _ => true end
                                         | None => true end) (so_rba out);
                    ok_grace_dump grace s0 d;
                    set_eqb alloc_core_eqb (d_allocs d) tr;
                    set_eqb nid_eqb (d_bynode d) (flat_map (fun a => if N.eqb (a_node a) 0 then [] else [(a_node a, a_id a)]) tr);
                    set_eqb nid_eqb (d_byhandle d) (map (fun a => (a_handle a, a_id a)) tr);
                    subset id_eqb (d_conf d) (map a_id tr);
                    set_eqb N.eqb (d_blocks d) (map fst (s_seen s'));
                    set_eqb nn_eqb (d_bbn d)
                      (flat_map (fun bb => match b_aff (snd bb) with AffHost n => [(n, fst bb)] | _ => [] end) (s_seen s'))]]).

Definition diag_step (grace : option N) (st : sstate * list (list bool)) (x : step) : sstate * list (list bool) :=
  let '(s, acc) := st in
  let s' := fst (spec_step grace (s, true) x) in
  match x with
  | Ev _ => (s', acc)
  | Sync o => diag_sync grace s s' acc o
  | SyncF o _ => diag_sync grace s s' acc o
  end.
Definition diag_case (k : case) : list (list bool) :=
  snd (fold_left (diag_step (k_grace k)) (k_steps k) (sstate0, [])).
