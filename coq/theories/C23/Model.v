(* C23 - executable model of the IPAM garbage collector of kube-controllers
   (kube-controllers/pkg/controllers/node/ipam.go, ipam_allocation.go).

   Names are numbers: nodes, pods (namespace/name), handles, blocks, ordinals.  0 stands for the empty string
   where the Go code tests for "".  An address is (block, ordinal); an allocation id ("handle/ip") is
   (handle, block, ordinal).  Go maps are lists used as sets / association lists; wherever the Go code ranges over a
   map and the order can matter (confirmedLeaks in garbageCollectKnownLeaks, emptyBlocks in releaseUnusedBlocks,
   nodesToCheck in checkAllocations) the order is an explicit argument of the model.

   Definitions only; no proofs in this file. *)
From Coq Require Import List NArith Bool.
Import ListNotations.
Open Scope N_scope.

(* ---------- the world outside the controller ---------- *)

Record pod := { p_node : N;            (* Spec.NodeName, 0 = "" *)
                p_ips : list (N * N);  (* Status.PodIPs as (block, ordinal); [] = not yet reported *)
                p_evicted : bool }.    (* Phase=Failed, Reason=Evicted *)

Record world := {
  w_now : N;                      (* seconds *)
  w_podsC : list (N * pod);       (* pod informer cache *)
  w_podsA : list (N * pod);       (* API server *)
  w_knodes : list N;              (* Kubernetes nodes in the node informer cache *)
  w_cnodesA : list (N * bool)     (* Calico Node resources in the datastore (client.Nodes().Get): name -> has a
                                     Kubernetes OrchRef (true) or is not a Kubernetes node (false) *)
}.

(* ---------- blocks as delivered by the syncer ---------- *)

Record attrs := { at_node : N;   (* attrs["node"], 0 = absent *)
                  at_pod : N;    (* attrs namespace+pod, 0 = one of them missing *)
                  at_tun : bool  (* attrs["type"] is one of the tunnel types *) }.

Record balloc := { ba_ord : N; ba_handle : option N; ba_attrs : attrs; ba_seq : N }.

Inductive aff := AffNone | AffHost (n : N) | AffOther.

Record block := { b_aff : aff; b_allocs : list balloc }.

(* handle 0 is ipam.WindowsReservedHandle *)
Definition windows_handle : N := 0.

(* ---------- controller state ---------- *)

Definition id := (N * N * N)%type.   (* handle, block, ordinal *)
Definition id_handle (i : id) : N := fst (fst i).
Definition id_block (i : id) : N := snd (fst i).
Definition id_ord (i : id) : N := snd i.
Definition id_eqb (x y : id) : bool :=
  N.eqb (id_handle x) (id_handle y) && N.eqb (id_block x) (id_block y) && N.eqb (id_ord x) (id_ord y).

Record alloc := { a_id : id; a_attrs : attrs; a_seq : N;
                  a_knode : N;              (* 0 = "" *)
                  a_leaked : option N;      (* leakedAt *)
                  a_conf : bool }.          (* confirmedLeak *)

Record ctrl := {
  c_cnodes : list (N * bool);      (* kubernetesNodesByCalicoName: Calico node -> true: Kubernetes node of the same name,
                                      false: "" (the Calico node is not a Kubernetes node) *)
  c_blocks : list (N * block);     (* allBlocks *)
  c_allocs : list alloc;           (* allocationsByBlock, flattened (the block is part of the id) *)
  c_bynode : list (N * id);        (* allocationState.allocationsByNode as a relation *)
  c_dirty : list N;                (* allocationState.dirtyNodes *)
  c_byhandle : list (N * id);      (* handleTracker.allocationsByHandle as a relation *)
  c_conf : list id;                (* keys of confirmedLeaks *)
  c_nbb : list (N * N);            (* nodesByBlock: block -> node *)
  c_bbn : list (N * N);            (* blocksByNode as a relation (node, block) *)
  c_empty : list (N * N);          (* emptyBlocks: block -> node *)
  c_tracker : list (N * N);        (* blockReleaseTracker.blocks: block -> first time seen empty *)
  c_full : bool }.                 (* fullSyncRequired *)

Definition ctrl0 : ctrl :=
  {| c_cnodes := []; c_blocks := []; c_allocs := []; c_bynode := []; c_dirty := []; c_byhandle := [];
     c_conf := []; c_nbb := []; c_bbn := []; c_empty := []; c_tracker := []; c_full := false |}.

Definition world0 : world := {| w_now := 0; w_podsC := []; w_podsA := []; w_knodes := []; w_cnodesA := [] |}.

(* ---------- small list helpers ---------- *)

Definition nmem (x : N) (l : list N) : bool := existsb (N.eqb x) l.
Definition nadd (x : N) (l : list N) : list N := if nmem x l then l else x :: l.
Definition nrem (x : N) (l : list N) : list N := filter (fun y => negb (N.eqb x y)) l.

Definition imem (x : id) (l : list id) : bool := existsb (id_eqb x) l.
Definition iadd (x : id) (l : list id) : list id := if imem x l then l else x :: l.
Definition irem (x : id) (l : list id) : list id := filter (fun y => negb (id_eqb x y)) l.

Definition mget {V} (k : N) (m : list (N * V)) : option V :=
  match find (fun p => N.eqb k (fst p)) m with Some p => Some (snd p) | None => None end.
Definition mdel {V} (k : N) (m : list (N * V)) : list (N * V) := filter (fun p => negb (N.eqb k (fst p))) m.
Definition mput {V} (k : N) (v : V) (m : list (N * V)) : list (N * V) := (k, v) :: mdel k m.

(* relations (N * id) and (N * N) *)
Definition rel_has_key {V} (k : N) (r : list (N * V)) : bool := existsb (fun p => N.eqb k (fst p)) r.
Definition ri_mem (k : N) (i : id) (r : list (N * id)) : bool :=
  existsb (fun p => N.eqb k (fst p) && id_eqb i (snd p)) r.
Definition ri_add (k : N) (i : id) (r : list (N * id)) : list (N * id) := if ri_mem k i r then r else (k, i) :: r.
Definition ri_rem (k : N) (i : id) (r : list (N * id)) : list (N * id) :=
  filter (fun p => negb (N.eqb k (fst p) && id_eqb i (snd p))) r.
Definition ri_ids (k : N) (r : list (N * id)) : list id :=
  map snd (filter (fun p => N.eqb k (fst p)) r).
Definition rn_mem (k v : N) (r : list (N * N)) : bool := existsb (fun p => N.eqb k (fst p) && N.eqb v (snd p)) r.
Definition rn_add (k v : N) (r : list (N * N)) : list (N * N) := if rn_mem k v r then r else (k, v) :: r.
Definition rn_rem (k v : N) (r : list (N * N)) : list (N * N) :=
  filter (fun p => negb (N.eqb k (fst p) && N.eqb v (snd p))) r.
Definition rn_count (k : N) (r : list (N * N)) : nat := length (filter (fun p => N.eqb k (fst p)) r).

Definition aget (i : id) (l : list alloc) : option alloc := find (fun a => id_eqb i (a_id a)) l.
Definition adel (i : id) (l : list alloc) : list alloc := filter (fun a => negb (id_eqb i (a_id a))) l.
Definition aput (a : alloc) (l : list alloc) : list alloc := a :: adel (a_id a) l.

(* ---------- setters ---------- *)

Definition set_allocs (c : ctrl) (v : list alloc) : ctrl :=
  {| c_cnodes := c_cnodes c; c_blocks := c_blocks c; c_allocs := v; c_bynode := c_bynode c; c_dirty := c_dirty c;
     c_byhandle := c_byhandle c; c_conf := c_conf c; c_nbb := c_nbb c; c_bbn := c_bbn c; c_empty := c_empty c;
     c_tracker := c_tracker c; c_full := c_full c |}.
Definition set_conf (c : ctrl) (v : list id) : ctrl :=
  {| c_cnodes := c_cnodes c; c_blocks := c_blocks c; c_allocs := c_allocs c; c_bynode := c_bynode c; c_dirty := c_dirty c;
     c_byhandle := c_byhandle c; c_conf := v; c_nbb := c_nbb c; c_bbn := c_bbn c; c_empty := c_empty c;
     c_tracker := c_tracker c; c_full := c_full c |}.
Definition set_dirty (c : ctrl) (v : list N) : ctrl :=
  {| c_cnodes := c_cnodes c; c_blocks := c_blocks c; c_allocs := c_allocs c; c_bynode := c_bynode c; c_dirty := v;
     c_byhandle := c_byhandle c; c_conf := c_conf c; c_nbb := c_nbb c; c_bbn := c_bbn c; c_empty := c_empty c;
     c_tracker := c_tracker c; c_full := c_full c |}.
Definition set_tracker (c : ctrl) (v : list (N * N)) : ctrl :=
  {| c_cnodes := c_cnodes c; c_blocks := c_blocks c; c_allocs := c_allocs c; c_bynode := c_bynode c; c_dirty := c_dirty c;
     c_byhandle := c_byhandle c; c_conf := c_conf c; c_nbb := c_nbb c; c_bbn := c_bbn c; c_empty := c_empty c;
     c_tracker := v; c_full := c_full c |}.
Definition set_full (c : ctrl) (v : bool) : ctrl :=
  {| c_cnodes := c_cnodes c; c_blocks := c_blocks c; c_allocs := c_allocs c; c_bynode := c_bynode c; c_dirty := c_dirty c;
     c_byhandle := c_byhandle c; c_conf := c_conf c; c_nbb := c_nbb c; c_bbn := c_bbn c; c_empty := c_empty c;
     c_tracker := c_tracker c; c_full := v |}.
Definition set_cnodes (c : ctrl) (v : list (N * bool)) : ctrl :=
  {| c_cnodes := v; c_blocks := c_blocks c; c_allocs := c_allocs c; c_bynode := c_bynode c; c_dirty := c_dirty c;
     c_byhandle := c_byhandle c; c_conf := c_conf c; c_nbb := c_nbb c; c_bbn := c_bbn c; c_empty := c_empty c;
     c_tracker := c_tracker c; c_full := c_full c |}.

(* ---------- allocation predicates (ipam_allocation.go) ---------- *)

Definition a_handle (a : alloc) : N := id_handle (a_id a).
Definition a_block (a : alloc) : N := id_block (a_id a).
Definition a_node (a : alloc) : N := at_node (a_attrs a).
Definition is_pod_ip (a : alloc) : bool := negb (N.eqb (at_pod (a_attrs a)) 0).
Definition is_tunnel (a : alloc) : bool := at_tun (a_attrs a).
Definition is_windows (a : alloc) : bool := N.eqb (a_handle a) windows_handle.

Definition with_flags (a : alloc) (kn : N) (l : option N) (cf : bool) : alloc :=
  {| a_id := a_id a; a_attrs := a_attrs a; a_seq := a_seq a; a_knode := kn; a_leaked := l; a_conf := cf |}.

Definition mark_valid (a : alloc) : alloc := with_flags a (a_knode a) None false.
Definition mark_confirmed (a : alloc) : alloc := with_flags a (a_knode a) (a_leaked a) true.
(* markLeak: leakedAt := now if unset; confirmed if now - leakedAt > grace and grace > 0 *)
Definition mark_leak (now grace : N) (a : alloc) : alloc :=
  let l := match a_leaked a with Some t => t | None => now end in
  let cf := a_conf a || (N.ltb grace (now - l) && N.ltb 0 grace) in
  with_flags a (a_knode a) (Some l) cf.

(* ---------- allocationState / handleTracker primitives ---------- *)

Definition mark_dirty (n : N) (c : ctrl) : ctrl :=
  if N.eqb n 0 then c else set_dirty c (nadd n (c_dirty c)).
Definition mark_clean (n : N) (c : ctrl) : ctrl := set_dirty c (nrem n (c_dirty c)).

Definition set_idx (c : ctrl) (al : list alloc) (bn : list (N * id)) (bh : list (N * id)) (cf : list id) : ctrl :=
  {| c_cnodes := c_cnodes c; c_blocks := c_blocks c; c_allocs := al; c_bynode := bn; c_dirty := c_dirty c;
     c_byhandle := bh; c_conf := cf; c_nbb := c_nbb c; c_bbn := c_bbn c; c_empty := c_empty c;
     c_tracker := c_tracker c; c_full := c_full c |}.

(* assignAllocation *)
Definition assign_allocation (a : alloc) (c : ctrl) : ctrl :=
  let n := a_node a in
  let c1 := set_idx c (aput a (c_allocs c))
                    (if N.eqb n 0 then c_bynode c else ri_add n (a_id a) (c_bynode c))
                    (ri_add (a_handle a) (a_id a) (c_byhandle c))
                    (c_conf c) in
  mark_dirty n c1.

(* releaseAllocation *)
Definition release_allocation (a : alloc) (c : ctrl) : ctrl :=
  let n := a_node a in
  let known := negb (N.eqb n 0) && rel_has_key n (c_bynode c) in
  let c1 := set_idx c (adel (a_id a) (c_allocs c))
                    (if known then ri_rem n (a_id a) (c_bynode c) else c_bynode c)
                    (ri_rem (a_handle a) (a_id a) (c_byhandle c))
                    (irem (a_id a) (c_conf c)) in
  if known then mark_dirty n c1 else c1.

(* handleTracker.isConfirmedLeak *)
Definition handle_confirmed (c : ctrl) (h : N) : bool :=
  match c_byhandle c with
  | [] => false
  | _ => forallb (fun i => match aget i (c_allocs c) with Some a => a_conf a | None => true end)
                 (ri_ids h (c_byhandle c))
  end.

(* ---------- onBlockUpdated / onBlockDeleted / forgetBlock ---------- *)

Definition set_blockmaps (c : ctrl) (bl : list (N * block)) (nbb bbn em tr : list (N * N)) : ctrl :=
  {| c_cnodes := c_cnodes c; c_blocks := bl; c_allocs := c_allocs c; c_bynode := c_bynode c; c_dirty := c_dirty c;
     c_byhandle := c_byhandle c; c_conf := c_conf c; c_nbb := nbb; c_bbn := bbn; c_empty := em;
     c_tracker := tr; c_full := c_full c |}.

(* the affinity part of onBlockUpdated.  Pinned code: a block whose affinity moves from one host straight to another
   (or to a non-host affinity) keeps its entry under the old node in blocksByNode.  [fx] = with
   fixes/C23-block-affinity-moved.patch: the old entry is dropped whenever the node changes. *)
Definition update_affinity (fx : bool) (b : N) (af : aff) (c : ctrl) : ctrl :=
  if fx then
    let n := match af with AffHost n => n | _ => 0 end in
    let c1 := match mget b (c_nbb c) with
              | Some old => if N.eqb old n then c
                            else set_blockmaps c (c_blocks c) (mdel b (c_nbb c)) (rn_rem old b (c_bbn c)) (c_empty c) (c_tracker c)
              | None => c end in
    if N.eqb n 0 then c1
    else set_blockmaps c1 (c_blocks c1) (mput b n (c_nbb c1)) (rn_add n b (c_bbn c1)) (c_empty c1) (c_tracker c1)
  else
  match af with
  | AffHost n => set_blockmaps c (c_blocks c) (mput b n (c_nbb c)) (rn_add n b (c_bbn c)) (c_empty c) (c_tracker c)
  | AffNone =>
      match mget b (c_nbb c) with
      | Some n => set_blockmaps c (c_blocks c) (mdel b (c_nbb c)) (rn_rem n b (c_bbn c)) (c_empty c) (c_tracker c)
      | None => c
      end
  | AffOther => c
  end.

Definition new_alloc (b : N) (h : N) (ba : balloc) : alloc :=
  {| a_id := (h, b, ba_ord ba); a_attrs := ba_attrs ba; a_seq := ba_seq ba; a_knode := 0; a_leaked := None; a_conf := false |}.

(* one iteration of the loop over b.Allocations *)
Definition block_alloc_step (b : N) (c : ctrl) (ba : balloc) : ctrl :=
  match ba_handle ba with
  | None => c
  | Some h =>
      let na := new_alloc b h ba in
      match aget (a_id na) (c_allocs c) with
      | Some ex =>
          if N.eqb (a_seq ex) (a_seq na) then c
          else set_allocs c (aput {| a_id := a_id ex; a_attrs := a_attrs na; a_seq := a_seq na; a_knode := a_knode ex;
                                     a_leaked := None; a_conf := false |} (c_allocs c))
      | None => assign_allocation na c
      end
  end.

Definition current_ids (b : N) (blk : block) : list id :=
  flat_map (fun ba => match ba_handle ba with Some h => [(h, b, ba_ord ba)] | None => [] end) (b_allocs blk).

Definition allocs_of_block (b : N) (c : ctrl) : list alloc := filter (fun a => N.eqb (a_block a) b) (c_allocs c).

Definition on_block_updated (fixaff : bool) (b : N) (blk : block) (c : ctrl) : ctrl :=
  let c1 := update_affinity fixaff b (b_aff blk) c in
  let c2 := fold_left (block_alloc_step b) (b_allocs blk) c1 in
  let n := match b_aff blk with AffHost n => n | _ => 0 end in
  let nallocs := length (b_allocs blk) in
  let em := mdel b (c_empty c2) in
  let c3 :=
    if negb (N.eqb n 0) && Nat.eqb nallocs 0
    then set_blockmaps c2 (c_blocks c2) (c_nbb c2) (c_bbn c2) (mput b n em) (c_tracker c2)
    else if negb (N.eqb n 0)
    then set_blockmaps c2 (c_blocks c2) (c_nbb c2) (c_bbn c2) em (mdel b (c_tracker c2))
    else set_blockmaps c2 (c_blocks c2) (c_nbb c2) (c_bbn c2) em (c_tracker c2) in
  let cur := current_ids b blk in
  let gone := filter (fun a => negb (imem (a_id a) cur)) (allocs_of_block b c3) in
  let c4 := fold_left (fun c a => release_allocation a c) gone c3 in
  set_blockmaps c4 (mput b blk (c_blocks c4)) (c_nbb c4) (c_bbn c4) (c_empty c4) (c_tracker c4).

Definition forget_block (b : N) (c : ctrl) : ctrl :=
  let c1 := fold_left (fun c a => release_allocation a c) (allocs_of_block b c) c in
  let bbn := match mget b (c_nbb c1) with
             | Some n => if N.eqb n 0 then c_bbn c1 else rn_rem n b (c_bbn c1)
             | None => c_bbn c1 end in
  set_blockmaps c1 (mdel b (c_blocks c1)) (mdel b (c_nbb c1)) bbn (mdel b (c_empty c1)) (mdel b (c_tracker c1)).

(* ---------- allocationIsValid ---------- *)

Definition pod_valid (pods : list (N * pod)) (a : alloc) : bool :=
  match mget (at_pod (a_attrs a)) pods with
  | None => false
  | Some p =>
      if negb (N.eqb (p_node p) 0) && negb (N.eqb (a_knode a) 0) && negb (N.eqb (p_node p) (a_knode a)) then false
      else match p_ips p with
           | [] => true
           | ips => if p_evicted p then false
                    else if N.eqb (p_node p) 0 then true  (* PodToWorkloadEndpoints fails without a node name: "consider valid" *)
                    else existsb (fun ip => N.eqb (fst ip) (a_block a) && N.eqb (snd ip) (id_ord (a_id a))) ips
           end
  end.

Definition allocation_is_valid (w : world) (a : alloc) (prefer_cache : bool) : bool :=
  if is_tunnel a then negb (N.eqb (a_knode a) 0)
  else if negb (is_pod_ip a) then true
  else pod_valid (if prefer_cache then w_podsC w else w_podsA w) a.

(* kubernetesNodeForCalico.  A cached non-empty name is returned; otherwise (no entry, or the "" cached for a Calico
   node that is not a Kubernetes node) the Calico node is looked up in the datastore: absent -> "" (KNode 0),
   with a Kubernetes OrchRef -> that name, without -> ErrorNotKubernetes (KErr). *)
Inductive klookup := KNode (kn : N) | KErr.
Definition knode_for (w : world) (c : ctrl) (cn : N) : klookup :=
  match mget cn (c_cnodes c) with
  | Some true => KNode cn
  | _ => match mget cn (w_cnodesA w) with
         | None => KNode 0
         | Some true => KNode cn
         | Some false => KErr
         end
  end.

(* ---------- checkAllocations, one node ---------- *)

Definition upd_alloc (a : alloc) (c : ctrl) : ctrl := set_allocs c (aput a (c_allocs c)).

Definition index_conf (a : alloc) (c : ctrl) : ctrl :=
  if a_conf a then set_conf c (iadd (a_id a) (c_conf c)) else set_conf c (irem (a_id a) (c_conf c)).

(* state of the inner loop: controller, canDelete, tunnel addresses *)
Definition check_alloc (w : world) (grace : option N) (kn : N) (kexists : bool)
           (st : ctrl * bool * list id) (i : id) : ctrl * bool * list id :=
  let '(c, can, tun) := st in
  match aget i (c_allocs c) with
  | None => st
  | Some a0 =>
      let a := with_flags a0 kn (a_leaked a0) (a_conf a0) in
      let c := upd_alloc a c in
      if is_windows a then (c, can, tun)
      else if negb (is_pod_ip a) && negb (is_tunnel a) then (c, false, tun)
      else if is_tunnel a then (c, can, tun ++ [i])
      else if allocation_is_valid w a true then (upd_alloc (mark_valid a) c, false, tun)
      else
        let a' := if negb kexists then mark_confirmed a
                  else match grace with Some g => mark_leak (w_now w) g a | None => a end in
        (index_conf a' (upd_alloc a' c), can, tun)
  end.

Definition confirm_tunnel (c : ctrl) (i : id) : ctrl :=
  match aget i (c_allocs c) with
  | None => c
  | Some a => let a' := mark_confirmed a in set_conf (upd_alloc a' c) (iadd i (c_conf c))
  end.

(* returns the new state and whether the node goes to nodesToRelease *)
Definition check_node_k (w : world) (grace : option N) (c : ctrl) (cn : N) (kn : N) : ctrl * bool :=
  let kexists := negb (N.eqb kn 0) && nmem kn (w_knodes w) in
  let '(c1, can, tun) := fold_left (check_alloc w grace kn kexists) (ri_ids cn (c_bynode c)) (c, true, []) in
  if negb kexists then
    if negb can then (mark_clean cn c1, false)
    else (fold_left confirm_tunnel tun c1, true)
  else (mark_clean cn c1, false).

(* a lookup error (not a Kubernetes node) skips the node *)
Definition check_node (w : world) (grace : option N) (c : ctrl) (cn : N) : ctrl * bool :=
  match knode_for w c cn with
  | KErr => (mark_clean cn c, false)
  | KNode kn => check_node_k w grace c cn kn
  end.

Definition check_nodes (w : world) (grace : option N) (ns : list N) (c : ctrl) : ctrl * list N :=
  fold_left (fun (st : ctrl * list N) cn =>
               let '(c, rel) := st in
               let '(c', r) := check_node w grace c cn in
               (c', if r then rel ++ [cn] else rel)) ns (c, []).

Definition dedup (l : list N) : list N := fold_left (fun acc x => nadd x acc) l [].

(* the key set of nodesToCheck *)
Definition nodes_to_check (c : ctrl) : list N :=
  if c_full c then dedup (map snd (c_nbb c) ++ map fst (c_bynode c)) else c_dirty c.

(* first occurrences, in order *)
Fixpoint dedup_first (l : list N) : list N :=
  match l with
  | [] => []
  | x :: l' => x :: filter (fun y => negb (N.eqb x y)) (dedup_first l')
  end.

(* ---------- garbageCollectKnownLeaks ---------- *)

Record relopt := { r_id : id; r_seq : N }.

(* one iteration of the loop over confirmedLeaks; [stop] is set when the batch is full *)
Definition gc_visit (w : world) (max_batch : N) (st : ctrl * list relopt * bool) (i : id) : ctrl * list relopt * bool :=
  let '(c, opts, stop) := st in
  if stop then st
  else if negb (imem i (c_conf c)) then st
  else match aget i (c_allocs c) with
       | None => st
       | Some a =>
           if allocation_is_valid w a (N.eqb (a_knode a) 0)
           then (set_conf (upd_alloc (mark_valid a) c) (irem i (c_conf c)), opts, false)
           else if negb (handle_confirmed c (a_handle a)) then st
           else let opts' := opts ++ [{| r_id := i; r_seq := a_seq a |}] in
                (c, opts', N.leb max_batch (N.of_nat (length opts')))
       end.

Definition release_opt (c : ctrl) (o : relopt) : ctrl :=
  match aget (r_id o) (c_allocs c) with Some a => release_allocation a c | None => c end.

(* the fake IPAM client releases everything it is asked to *)
Definition gc_pinned (w : world) (max_batch : N) (order : list id) (c : ctrl) : ctrl * list relopt :=
  let '(c1, opts, _) := fold_left (gc_visit w max_batch) order (c, [], false) in
  (fold_left release_opt opts c1, opts).

(* With fixes/C23-gc-handle-all-or-none.patch: first the final re-validation of every confirmed leak, then the
   per-handle decision on the settled flags, then whole handles are added to the batch while they fit. *)
Definition gc_revalidate (w : world) (c : ctrl) (i : id) : ctrl :=
  if negb (imem i (c_conf c)) then c
  else match aget i (c_allocs c) with
       | None => c
       | Some a => if allocation_is_valid w a (N.eqb (a_knode a) 0)
                   then set_conf (upd_alloc (mark_valid a) c) (irem i (c_conf c))
                   else c
       end.

Definition gc_candidates (c : ctrl) (order : list id) : list id :=
  filter (fun i => imem i (c_conf c) && match aget i (c_allocs c) with Some _ => true | None => false end
                   && handle_confirmed c (id_handle i)) order.

Definition opt_of (c : ctrl) (i : id) : relopt :=
  {| r_id := i; r_seq := match aget i (c_allocs c) with Some a => a_seq a | None => 0 end |}.

(* handles in order of first appearance; a handle is added whole, the first handle always fits *)
Definition gc_assemble (max_batch : N) (cands : list id) : list id :=
  fst (fold_left (fun (st : list id * bool) h =>
                    let '(acc, stop) := st in
                    if stop then st
                    else let grp := filter (fun i => N.eqb (id_handle i) h) cands in
                         if negb (Nat.eqb (length acc) 0) && N.ltb max_batch (N.of_nat (length acc + length grp))
                         then (acc, true) else (acc ++ grp, false))
                 (dedup_first (map id_handle cands)) ([], false)).

Definition gc_fixed (w : world) (max_batch : N) (order1 order2 : list id) (c : ctrl) : ctrl * list relopt :=
  let c1 := fold_left (gc_revalidate w) order1 c in
  let opts := map (opt_of c1) (gc_assemble max_batch (gc_candidates c1 order2)) in
  (fold_left release_opt opts c1, opts).

Definition gc_known_leaks (fx : bool) (w : world) (max_batch : N) (order : list id) (c : ctrl) : ctrl * list relopt :=
  if fx then gc_fixed w max_batch order order c else gc_pinned w max_batch order c.

(* ---------- releaseUnusedBlocks ---------- *)

Definition mark_empty (now : N) (grace : option N) (b : N) (c : ctrl) : ctrl * bool :=
  match grace with
  | Some g => if N.ltb 0 g then
                match mget b (c_tracker c) with
                | None => (set_tracker c (mput b now (c_tracker c)), false)
                | Some first => (c, N.ltb g (now - first))
                end
              else (c, false)
  | None => (c, false)
  end.

Definition rub_visit (w : world) (grace : option N) (st : ctrl * list N) (b : N) : ctrl * list N :=
  let '(c, calls) := st in
  match mget b (c_empty c) with
  | None => st
  | Some n =>
      if Nat.leb (rn_count n (c_bbn c)) 1 then st
      else match knode_for w c n with
           | KErr => (set_tracker c (mdel b (c_tracker c)), calls)   (* nodeIsBeingMigrated fails: markInUse *)
           | KNode _ =>
               let '(c1, ok) := mark_empty (w_now w) grace b c in
               if negb ok then (c1, calls)
               else match mget b (c_blocks c1) with
                    | None => (c1, calls)
                    | Some _ => (forget_block b c1, calls ++ [b])
                    end
           end
  end.

Definition release_unused_blocks (w : world) (grace : option N) (order : list N) (c : ctrl) : ctrl * list N :=
  fold_left (rub_visit w grace) order (c, []).

(* ---------- syncIPAM ---------- *)

Record sync_out := { so_rel : list relopt;    (* the options of the ReleaseIPs call ([] = no call) *)
                     so_rba : list N;         (* ReleaseBlockAffinity calls, in order *)
                     so_rha : list N }.       (* ReleaseHostAffinities calls *)

(* the constant in garbageCollectKnownLeaks *)
Definition go_max_batch : N := 10000.

Record cfg := { f_grace : option N;      (* LeakGracePeriod: None = not configured *)
                 f_batch : N;             (* maxBatchSize *)
                 f_fixaff : bool;         (* tree has fixes/C23-block-affinity-moved.patch *)
                 f_fixgc : bool }.        (* tree has fixes/C23-gc-handle-all-or-none.patch *)

(* [norder]: order in which nodesToCheck is ranged over; [gorder], [border]: order in which confirmedLeaks and
   emptyBlocks are ranged over (they may depend on the state reached at that point) *)
Definition sync_ipam (f : cfg) (w : world)
           (norder : list N) (gorder : ctrl -> list id) (border : ctrl -> list N) (c : ctrl) : ctrl * sync_out :=
  let grace := f_grace f in
  let '(c1, rel_nodes) := check_nodes w grace norder (set_full c false) in
  let '(c2, opts) := gc_known_leaks (f_fixgc f) w (f_batch f) (gorder c1) c1 in
  let '(c3, rba) := release_unused_blocks w grace (border c2) c2 in
  let c4 := fold_left (fun c n => mark_clean n c) rel_nodes c3 in
  (c4, {| so_rel := opts; so_rba := rba; so_rha := rel_nodes |}).

(* ---------- syncIPAM when ReleaseIPs reports an error ----------
   The IPAM client hands back the options it did release ([done]); those allocations are forgotten, the others stay in
   confirmedLeaks; garbageCollectKnownLeaks returns the error and syncIPAM returns right there: no cold-IP GC, no
   releaseUnusedBlocks, no releaseNodes (the nodes to release stay dirty). *)
Definition gc_known_leaks_part (fx : bool) (w : world) (max_batch : N) (order : list id) (done : relopt -> bool)
           (c : ctrl) : ctrl * list relopt :=
  if fx then
    let c1 := fold_left (gc_revalidate w) order c in
    let opts := map (opt_of c1) (gc_assemble max_batch (gc_candidates c1 order)) in
    (fold_left release_opt (filter done opts) c1, opts)
  else
    let '(c1, opts, _) := fold_left (gc_visit w max_batch) order (c, [], false) in
    (fold_left release_opt (filter done opts) c1, opts).

Definition sync_ipam_failed (f : cfg) (w : world) (norder : list N) (gorder : ctrl -> list id)
           (done : relopt -> bool) (c : ctrl) : ctrl * sync_out :=
  let '(c1, _) := check_nodes w (f_grace f) norder (set_full c false) in
  let '(c2, opts) := gc_known_leaks_part (f_fixgc f) w (f_batch f) (gorder c1) done c1 in
  (c2, {| so_rel := opts; so_rba := []; so_rha := [] |}).

(* ---------- events ---------- *)

Inductive event :=
| EPod (api : bool) (p : N) (v : option pod)     (* pod appears/changes/disappears in the API (true) or the cache (false) *)
| EKNode (n : N) (present : bool)                (* Kubernetes node in the node informer cache *)
| ECNodeApi (n : N) (v : option bool)            (* Calico node in the datastore: Some true = Kubernetes node,
                                                    Some false = not a Kubernetes node, None = deleted *)
| ECNodeSync (n : N) (v : option bool)           (* syncer update for a Calico node: handleNodeUpdate *)
| EBlock (b : N) (v : option block)              (* syncer update for a block: handleBlockUpdate *)
| EPodDeleted (n : N)                            (* pod deletion event: markDirtyPodDeleted *)
| EFull                                          (* node deletion batch / periodic tick: fullScanNextSync *)
| ETick (d : N).                                 (* time passes *)

Definition set_world (w : world) (now : N) (pc pa : list (N * pod)) (kn : list N) (ca : list (N * bool)) : world :=
  {| w_now := now; w_podsC := pc; w_podsA := pa; w_knodes := kn; w_cnodesA := ca |}.

Definition apply_event (fixaff : bool) (e : event) (wc : world * ctrl) : world * ctrl :=
  let '(w, c) := wc in
  match e with
  | EPod true p (Some v) => (set_world w (w_now w) (w_podsC w) (mput p v (w_podsA w)) (w_knodes w) (w_cnodesA w), c)
  | EPod true p None => (set_world w (w_now w) (w_podsC w) (mdel p (w_podsA w)) (w_knodes w) (w_cnodesA w), c)
  | EPod false p (Some v) => (set_world w (w_now w) (mput p v (w_podsC w)) (w_podsA w) (w_knodes w) (w_cnodesA w), c)
  | EPod false p None => (set_world w (w_now w) (mdel p (w_podsC w)) (w_podsA w) (w_knodes w) (w_cnodesA w), c)
  | EKNode n true => (set_world w (w_now w) (w_podsC w) (w_podsA w) (nadd n (w_knodes w)) (w_cnodesA w), c)
  | EKNode n false => (set_world w (w_now w) (w_podsC w) (w_podsA w) (nrem n (w_knodes w)) (w_cnodesA w), c)
  | ECNodeApi n (Some k) => (set_world w (w_now w) (w_podsC w) (w_podsA w) (w_knodes w) (mput n k (w_cnodesA w)), c)
  | ECNodeApi n None => (set_world w (w_now w) (w_podsC w) (w_podsA w) (w_knodes w) (mdel n (w_cnodesA w)), c)
  | ECNodeSync n (Some k) => (w, set_cnodes c (mput n k (c_cnodes c)))
  | ECNodeSync n None => (w, set_cnodes c (mdel n (c_cnodes c)))
  | EBlock b (Some blk) => (w, on_block_updated fixaff b blk c)
  | EBlock b None => (w, forget_block b c)
  | EPodDeleted n => (w, mark_dirty n c)
  | EFull => (w, set_full c true)
  | ETick d => (set_world w (w_now w + d) (w_podsC w) (w_podsA w) (w_knodes w) (w_cnodesA w), c)
  end.
