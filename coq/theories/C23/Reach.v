(* C23 - all histories, all iteration orders: reachable states of the repaired controller keep the index invariant and
   the block-map invariant; consequences for one GC sync from any reachable state. *)
From Coq Require Import List NArith Bool Lia.
From Verif.C23 Require Import Model Spec Lemmas Lemmas2 ProofsGC Inv Same Binv Witness.
Import ListNotations.
Open Scope N_scope.

Lemma Binv_ext : forall c c',
  c_blocks c' = c_blocks c -> c_nbb c' = c_nbb c -> c_bbn c' = c_bbn c -> c_empty c' = c_empty c -> Binv c -> Binv c'.
Proof. intros c c' H1 H2 H3 H4 H. unfold Binv. rewrite H1, H2, H3, H4. exact H. Qed.

(* ---------- releaseUnusedBlocks against the blocks seen ---------- *)

Lemma forget_block_blocks : forall b c, c_blocks (forget_block b c) = mdel b (c_blocks c).
Proof.
  intros. unfold forget_block. prj.
  assert (S : same_blk c (fold_left (fun c a => release_allocation a c) (allocs_of_block b c) c))
    by (apply fold_sb; intros; apply release_sb).
  destruct S as [S _]. rewrite S. reflexivity.
Qed.

Lemma host_aff : forall blk n, host_of blk = n -> n <> 0 -> b_aff blk = AffHost n.
Proof. intros blk n H Hn. unfold host_of in H. destruct (b_aff blk); subst; congruence. Qed.

Lemma mark_empty_sb : forall now grace b c, same_blk c (fst (mark_empty now grace b c)).
Proof.
  intros. unfold mark_empty. destruct grace as [g|]; [|apply same_blk_refl].
  destruct (N.ltb 0 g); [|apply same_blk_refl]. destruct (mget b (c_tracker c)); simpl; unfold same_blk; auto.
Qed.

Lemma lastblock_head : forall c b n,
  Binv c -> mget b (c_empty c) = Some n -> (2 <= rn_count n (c_bbn c))%nat ->
  exists blk, mget b (c_blocks c) = Some blk /\ b_aff blk = AffHost n
              /\ (2 <= length (filter (affine_to n) (c_blocks c)))%nat /\ b_allocs blk = [].
Proof.
  intros c b n [B1 [[Br Hnd] E2]] He Hc.
  destruct (E2 _ _ He) as [blk [Hb [Hh [Hn Ha]]]].
  exists blk. split; auto. split; [apply host_aff; auto|]. split; auto.
  unfold rn_count in Hc.
  destruct (length2_NoDup_two _ (filter_NoDup (fun p : N * N => N.eqb n (fst p)) _ Hnd) Hc) as [[m1 x] [[m2 y] [H1 [H2 Hne]]]].
  apply filter_In in H1. apply filter_In in H2. simpl in *. destruct H1 as [H1 E1]. destruct H2 as [H2 E2'].
  apply N.eqb_eq in E1. apply N.eqb_eq in E2'. subst m1 m2.
  assert (Hx : exists bx, In (x, bx) (c_blocks c) /\ affine_to n (x, bx) = true).
  { apply Br in H1. apply B1 in H1. destruct H1 as [_ [bx [Hbx Hhx]]]. exists bx. split; [apply mget_In; auto|].
    unfold affine_to. simpl. rewrite (host_aff bx n Hhx Hn). apply N.eqb_refl. }
  assert (Hy : exists by_, In (y, by_) (c_blocks c) /\ affine_to n (y, by_) = true).
  { apply Br in H2. apply B1 in H2. destruct H2 as [_ [bx [Hbx Hhx]]]. exists bx. split; [apply mget_In; auto|].
    unfold affine_to. simpl. rewrite (host_aff bx n Hhx Hn). apply N.eqb_refl. }
  destruct Hx as [bx [Hx1 Hx2]]. destruct Hy as [by_ [Hy1 Hy2]].
  apply (two_distinct_length _ (x, bx) (y, by_)).
  - apply filter_In; auto.
  - apply filter_In; auto.
  - intros E. inversion E. subst. apply Hne. reflexivity.
Qed.

Lemma rub_visit_spec : forall w grace c calls b,
  Binv c ->
  let r := rub_visit w grace (c, calls) b in
  Binv (fst r) /\
  ((snd r = calls /\ c_blocks (fst r) = c_blocks c)
   \/ (snd r = calls ++ [b] /\ c_blocks (fst r) = mdel b (c_blocks c) /\ ok_lastblock (c_blocks c) [b] = true)).
Proof.
  intros w grace c calls b HB. unfold rub_visit.
  destruct (mget b (c_empty c)) as [n|] eqn:He; [|cbn [fst snd]; auto].
  destruct (Nat.leb (rn_count n (c_bbn c)) 1) eqn:Ec; [cbn [fst snd]; auto|].
  apply PeanoNat.Nat.leb_gt in Ec.
  destruct (knode_for w c n).
  2:{ cbn [fst snd]. split; [eapply Binv_ext; [| | | |exact HB]; reflexivity|]. left. split; reflexivity. }
  pose proof (mark_empty_sb (w_now w) grace b c) as Hs.
  destruct (mark_empty (w_now w) grace b c) as [c1 ok]. simpl in Hs.
  pose proof (Binv_same _ _ Hs HB) as HB1. destruct Hs as [Sb _].
  destruct (negb ok); [cbn [fst snd]; auto|].
  destruct (mget b (c_blocks c1)) eqn:Eb; [|cbn [fst snd]; auto].
  cbn [fst snd]. split; [apply forget_block_Binv; auto|]. right. split; auto.
  rewrite forget_block_blocks, Sb. split; auto.
  destruct (lastblock_head c b n HB He) as [blk [Hb [Haff [Hlen Hal]]]]; [lia|].
  cbn [ok_lastblock]. rewrite Hb, Haff, Hal. apply PeanoNat.Nat.leb_le in Hlen. rewrite Hlen. reflexivity.
Qed.

Lemma ok_lastblock_cons : forall seen b rest,
  ok_lastblock seen [b] = true -> ok_lastblock (mdel b seen) rest = true -> ok_lastblock seen (b :: rest) = true.
Proof.
  intros seen b rest H1 H2. simpl in *. destruct (mget b seen); [|discriminate]. destruct (b_aff b0); try discriminate.
  rewrite andb_true_r in H1. rewrite H1, H2. reflexivity.
Qed.

Lemma rub_fold_spec : forall w grace order c calls,
  Binv c ->
  Binv (fst (fold_left (rub_visit w grace) order (c, calls)))
  /\ exists extra, snd (fold_left (rub_visit w grace) order (c, calls)) = calls ++ extra
                   /\ ok_lastblock (c_blocks c) extra = true.
Proof.
  intros w grace order. induction order as [|b order IH]; intros c calls HB.
  - simpl. split; auto. exists []. rewrite app_nil_r. auto.
  - pose proof (rub_visit_spec w grace c calls b HB) as Hv. cbv zeta in Hv.
    cbn [fold_left].
    destruct (rub_visit w grace (c, calls) b) as [c1 calls1]. cbn [fst snd] in Hv. destruct Hv as [HB1 Hv].
    destruct (IH c1 calls1 HB1) as [HBr [extra [E Hok]]].
    split; auto. destruct Hv as [[-> Hbl] | [-> [Hbl Hok1]]].
    + exists extra. rewrite <- Hbl. auto.
    + exists (b :: extra). split; [rewrite E, <- app_assoc; reflexivity|].
      apply ok_lastblock_cons; auto. rewrite <- Hbl. auto.
Qed.

(* ---------- reachable states ---------- *)

Definition is_repaired (f : cfg) : Prop := f_fixaff f = true /\ f_fixgc f = true.

Inductive reach (f : cfg) : world -> ctrl -> Prop :=
| reach_init : reach f world0 ctrl0
| reach_event : forall w c e, reach f w c ->
    reach f (fst (apply_event (f_fixaff f) e (w, c))) (snd (apply_event (f_fixaff f) e (w, c)))
| reach_sync : forall w c norder gorder border, reach f w c ->
    reach f w (fst (sync_ipam f w norder gorder border c))
| reach_sync_failed : forall w c norder gorder done, reach f w c ->
    reach f w (fst (sync_ipam_failed f w norder gorder done c)).

(* the pieces of one sync *)
Definition after_check (f : cfg) (w : world) (norder : list N) (c : ctrl) : ctrl :=
  fst (check_nodes w (f_grace f) norder (set_full c false)).

Lemma sync_parts : forall f w norder gorder border c,
  f_fixgc f = true ->
  let c1 := after_check f w norder c in
  let g := gc_fixed w (f_batch f) (gorder c1) (gorder c1) c1 in
  let r := release_unused_blocks w (f_grace f) (border (fst g)) (fst g) in
  so_rel (snd (sync_ipam f w norder gorder border c)) = snd g
  /\ so_rba (snd (sync_ipam f w norder gorder border c)) = snd r
  /\ exists rel_nodes, fst (sync_ipam f w norder gorder border c) = fold_left (fun c n => mark_clean n c) rel_nodes (fst r).
Proof.
  intros f w norder gorder border c Hf. unfold sync_ipam, after_check. rewrite Hf.
  change (gc_known_leaks true) with (fun w b o c => gc_fixed w b o o c). cbv beta.
  destruct (check_nodes w (f_grace f) norder (set_full c false)) as [c1 rn]. cbn [fst snd].
  destruct (gc_fixed w (f_batch f) (gorder c1) (gorder c1) c1) as [c2 opts]. cbn [fst snd].
  destruct (release_unused_blocks w (f_grace f) (border c2) c2) as [c3 rba]. cbn [fst snd so_rel so_rba].
  split; auto. split; auto. exists rn. reflexivity.
Qed.

Lemma after_check_inv : forall f w norder c, idx_inv c -> Binv c ->
  idx_inv (after_check f w norder c) /\ Binv (after_check f w norder c)
  /\ c_blocks (after_check f w norder c) = c_blocks c.
Proof.
  intros f w norder c Hi Hb. unfold after_check.
  assert (Hi0 : idx_inv (set_full c false)) by (eapply idx_inv_same; [|exact Hi]; unfold same_idx; auto).
  pose proof (check_nodes_sb w (f_grace f) norder (set_full c false)) as S.
  split; [apply check_nodes_idx; auto|].
  assert (S' : same_blk c (fst (check_nodes w (f_grace f) norder (set_full c false))))
    by (eapply same_blk_trans; [apply set_full_sb|exact S]).
  split; [eapply Binv_same; eauto|]. destruct S' as [S' _]. exact S'.
Qed.

Lemma sync_failed_parts : forall f w norder gorder done c,
  f_fixgc f = true ->
  let c1 := after_check f w norder c in
  let cr := fold_left (gc_revalidate w) (gorder c1) c1 in
  let opts := map (opt_of cr) (gc_assemble (f_batch f) (gc_candidates cr (gorder c1))) in
  fst (sync_ipam_failed f w norder gorder done c) = fold_left release_opt (filter done opts) cr
  /\ so_rel (snd (sync_ipam_failed f w norder gorder done c)) = opts.
Proof.
  intros f w norder gorder done c Hf. unfold sync_ipam_failed, after_check, gc_known_leaks_part. rewrite Hf.
  destruct (check_nodes w (f_grace f) norder (set_full c false)) as [c1 rn]. cbn [fst snd so_rel]. auto.
Qed.

(* a failed ReleaseIPs call is the same call the successful sync would have made *)
Lemma sync_failed_same_call : forall f w norder gorder border done c,
  f_fixgc f = true ->
  so_rel (snd (sync_ipam_failed f w norder gorder done c)) = so_rel (snd (sync_ipam f w norder gorder border c)).
Proof.
  intros f w norder gorder border done c Hf.
  destruct (sync_failed_parts f w norder gorder done c Hf) as [_ E]. rewrite E.
  destruct (sync_parts f w norder gorder border c Hf) as [E2 _]. rewrite E2. reflexivity.
Qed.

Lemma apply_event_inv : forall e w c, idx_inv c -> Binv c ->
  idx_inv (snd (apply_event true e (w, c))) /\ Binv (snd (apply_event true e (w, c))).
Proof.
  intros e w c Hi Hb. unfold apply_event.
  destruct e as [api p v|n pr|n pr|n pr|b v|n| |d]; cbv beta iota.
  - destruct api, v; cbn [fst snd]; auto.
  - destruct pr; cbn [fst snd]; auto.
  - destruct pr; cbn [fst snd]; auto.
  - destruct pr; cbn [fst snd];
      (split; [eapply idx_inv_same; [|exact Hi]; unfold same_idx; auto | eapply Binv_ext; [| | | |exact Hb]; auto]).
  - destruct v as [blk|]; cbn [fst snd].
    + split; [apply on_block_updated_idx; auto | apply on_block_updated_Binv; auto].
    + split; [apply forget_block_idx; auto | apply forget_block_Binv; auto].
  - cbn [fst snd]. split; [eapply idx_inv_same; [apply mark_dirty_same|auto] | eapply Binv_same; [apply mark_dirty_sb|auto]].
  - cbn [fst snd]. split; [eapply idx_inv_same; [|exact Hi]; unfold same_idx; auto | eapply Binv_same; [apply set_full_sb|auto]].
  - cbn [fst snd]. auto.
Qed.

Theorem reach_inv : forall f w c, is_repaired f -> reach f w c -> idx_inv c /\ Binv c.
Proof.
  intros f w c [Hfa Hfg] H. induction H.
  - split; [apply idx_inv0 | apply Binv0].
  - destruct IHreach as [Hi Hb]. rewrite Hfa. apply apply_event_inv; auto.
  - destruct IHreach as [Hi Hb].
    destruct (sync_parts f w norder gorder border c Hfg) as [_ [_ [rn E]]]. rewrite E.
    destruct (after_check_inv f w norder c Hi Hb) as [Hi1 [Hb1 _]].
    set (c1 := after_check f w norder c) in *.
    pose proof (gc_fixed_idx w (f_batch f) (gorder c1) (gorder c1) c1 Hi1) as Hi2.
    pose proof (Binv_same _ _ (gc_fixed_sb w (f_batch f) (gorder c1) (gorder c1) c1) Hb1) as Hb2.
    set (c2 := fst (gc_fixed w (f_batch f) (gorder c1) (gorder c1) c1)) in *.
    pose proof (rub_idx w (f_grace f) (border c2) c2 Hi2) as Hi3.
    pose proof (rub_fold_spec w (f_grace f) (border c2) c2 [] Hb2) as [Hb3 _].
    change (fold_left (rub_visit w (f_grace f)) (border c2) (c2, [])) with (release_unused_blocks w (f_grace f) (border c2) c2) in Hb3.
    split.
    + apply fold_left_inv; auto; intros; eapply idx_inv_same; try apply mark_clean_same; auto.
    + eapply Binv_same; [apply fold_sb; intros; apply mark_clean_sb|auto].
  - destruct IHreach as [Hi Hb].
    destruct (sync_failed_parts f w norder gorder done c Hfg) as [E _]. rewrite E.
    destruct (after_check_inv f w norder c Hi Hb) as [Hi1 [Hb1 _]].
    set (c1 := after_check f w norder c) in *.
    pose proof (reval_fold w c1 (gorder c1) c1 [] (reval_start w c1 Hi1)) as [_ [_ [Hi2 _]]].
    split.
    + apply fold_left_inv; auto; intros; apply release_opt_idx; auto.
    + eapply Binv_same; [|exact Hb1].
      eapply same_blk_trans; [apply (fold_sb (gc_revalidate w)); apply gc_revalidate_sb|]. apply (fold_sb release_opt). apply release_opt_sb.
Qed.

(* ---------- one GC sync from any reachable state, any orders ---------- *)

Theorem sync_release_sound : forall f w c norder gorder border,
  is_repaired f -> reach f w c ->
  Forall (opt_ok w (after_check f w norder c)) (so_rel (snd (sync_ipam f w norder gorder border c))).
Proof.
  intros f w c norder gorder border Hf Hr. destruct (reach_inv f w c Hf Hr) as [Hi Hb]. destruct Hf as [_ Hfg].
  destruct (sync_parts f w norder gorder border c Hfg) as [E _]. rewrite E.
  destruct (after_check_inv f w norder c Hi Hb) as [Hi1 _].
  set (c1 := after_check f w norder c) in *.
  destruct (gc_fixed w (f_batch f) (gorder c1) (gorder c1) c1) as [c2 opts] eqn:Eg. simpl.
  eapply gc_fixed_sound; eauto.
Qed.

Theorem sync_handle_closed : forall f w c norder gorder border,
  is_repaired f -> reach f w c ->
  (forall c1 i, In i (c_conf c1) -> In i (gorder c1)) ->
  handle_closed (after_check f w norder c) (so_rel (snd (sync_ipam f w norder gorder border c))).
Proof.
  intros f w c norder gorder border Hf Hr Hcov. destruct (reach_inv f w c Hf Hr) as [Hi Hb]. destruct Hf as [_ Hfg].
  destruct (sync_parts f w norder gorder border c Hfg) as [E _]. rewrite E.
  destruct (after_check_inv f w norder c Hi Hb) as [Hi1 _].
  set (c1 := after_check f w norder c) in *.
  destruct (gc_fixed w (f_batch f) (gorder c1) (gorder c1) c1) as [c2 opts] eqn:Eg. simpl.
  intros o a Ho Ha Hh.
  exact (gc_fixed_all_or_none w (f_batch f) (gorder c1) c1 c2 opts Hi1 (Hcov c1) Eg o a Ho Ha Hh).
Qed.

Theorem sync_lastblock : forall f w c norder gorder border,
  is_repaired f -> reach f w c ->
  ok_lastblock (c_blocks c) (so_rba (snd (sync_ipam f w norder gorder border c))) = true.
Proof.
  intros f w c norder gorder border Hf Hr. destruct (reach_inv f w c Hf Hr) as [Hi Hb]. destruct Hf as [_ Hfg].
  destruct (sync_parts f w norder gorder border c Hfg) as [_ [E _]]. rewrite E.
  destruct (after_check_inv f w norder c Hi Hb) as [Hi1 [Hb1 Hbl]].
  set (c1 := after_check f w norder c) in *.
  pose proof (gc_fixed_sb w (f_batch f) (gorder c1) (gorder c1) c1) as S.
  pose proof (Binv_same _ _ S Hb1) as Hb2. destruct S as [S _].
  set (c2 := fst (gc_fixed w (f_batch f) (gorder c1) (gorder c1) c1)) in *.
  destruct (rub_fold_spec w (f_grace f) (border c2) c2 [] Hb2) as [_ [extra [Ee Hok]]].
  unfold release_unused_blocks. rewrite Ee. simpl. rewrite <- Hbl, <- S. exact Hok.
Qed.
