(* C23 - which operations leave the block maps alone *)
From Coq Require Import List NArith Bool Lia.
From Verif.C23 Require Import Model Lemmas Lemmas2 ProofsGC Inv.
Import ListNotations.
Open Scope N_scope.

Definition same_blk (c c' : ctrl) : Prop :=
  c_blocks c' = c_blocks c /\ c_nbb c' = c_nbb c /\ c_bbn c' = c_bbn c /\ c_empty c' = c_empty c
  /\ c_cnodes c' = c_cnodes c.

Lemma same_blk_refl : forall c, same_blk c c.
Proof. unfold same_blk; auto. Qed.

Lemma same_blk_trans : forall a b c, same_blk a b -> same_blk b c -> same_blk a c.
Proof. unfold same_blk; intros a b c [? [? [? [? ?]]]] [? [? [? [? ?]]]]; repeat split; congruence. Qed.

Ltac sb := unfold same_blk; cbv zeta;
  repeat match goal with
         | |- context [if ?x then _ else _] => destruct x
         end; prj; auto.

Lemma mark_dirty_sb : forall n c, same_blk c (mark_dirty n c).
Proof. intros. unfold mark_dirty. sb. Qed.
Lemma mark_clean_sb : forall n c, same_blk c (mark_clean n c).
Proof. intros. unfold mark_clean. sb. Qed.
Lemma assign_sb : forall a c, same_blk c (assign_allocation a c).
Proof. intros. unfold assign_allocation, mark_dirty. sb. Qed.
Lemma release_sb : forall a c, same_blk c (release_allocation a c).
Proof. intros. unfold release_allocation, mark_dirty. sb. Qed.
Lemma upd_sb : forall a c, same_blk c (upd_alloc a c).
Proof. intros. unfold upd_alloc. sb. Qed.
Lemma set_conf_sb : forall c v, same_blk c (set_conf c v).
Proof. intros. sb. Qed.
Lemma set_full_sb : forall c v, same_blk c (set_full c v).
Proof. intros. sb. Qed.

Lemma fold_sb : forall {B} (f : ctrl -> B -> ctrl) l c,
  (forall c b, same_blk c (f c b)) -> same_blk c (fold_left f l c).
Proof.
  intros B f l. induction l; intros c H; simpl; [apply same_blk_refl|].
  eapply same_blk_trans; [apply H|]. apply IHl. exact H.
Qed.

Lemma block_alloc_step_sb : forall b c ba, same_blk c (block_alloc_step b c ba).
Proof.
  intros. unfold block_alloc_step. destruct (ba_handle ba); [|apply same_blk_refl].
  destruct (aget _ _); [|apply assign_sb]. destruct (N.eqb _ _); [apply same_blk_refl|]. sb.
Qed.

Lemma index_conf_sb : forall a c, same_blk c (index_conf a c).
Proof. intros. unfold index_conf. sb. Qed.

Lemma check_alloc_sb : forall w grace kn kex st i,
  same_blk (fst (fst st)) (fst (fst (check_alloc w grace kn kex st i))).
Proof.
  intros w grace kn kex [[c can] tun] i. unfold check_alloc.
  destruct (aget i (c_allocs c)); [|apply same_blk_refl].
  repeat match goal with |- context [if ?x then _ else _] => destruct x end; simpl;
    first [ apply upd_sb
          | (eapply same_blk_trans; [apply upd_sb|apply upd_sb])
          | (eapply same_blk_trans; [apply upd_sb|]; eapply same_blk_trans; [apply upd_sb|apply index_conf_sb]) ].
Qed.

Lemma confirm_tunnel_sb : forall c i, same_blk c (confirm_tunnel c i).
Proof. intros. unfold confirm_tunnel. destruct (aget _ _); [|apply same_blk_refl]. sb. Qed.

Lemma fold_pair_sb : forall {B S} (f : ctrl * S -> B -> ctrl * S) l st,
  (forall st b, same_blk (fst st) (fst (f st b))) -> same_blk (fst st) (fst (fold_left f l st)).
Proof.
  intros B S f l. induction l; intros st H; simpl; [apply same_blk_refl|].
  eapply same_blk_trans; [apply H|]. apply IHl. exact H.
Qed.

Lemma check_node_k_sb : forall w grace c cn kn, same_blk c (fst (check_node_k w grace c cn kn)).
Proof.
  intros. unfold check_node_k.
  set (kex := negb (N.eqb kn 0) && nmem kn (w_knodes w)).
  assert (H : same_blk c (fst (fst (fold_left (check_alloc w grace kn kex) (ri_ids cn (c_bynode c)) (c, true, []))))).
  { generalize (ri_ids cn (c_bynode c)). intros l.
    change c with (fst (fst (c, true, @nil id))) at 1.
    generalize (c, true, @nil id). induction l; intros st; simpl; [apply same_blk_refl|].
    eapply same_blk_trans; [apply check_alloc_sb|]. apply IHl. }
  destruct (fold_left _ _ _) as [[c1 can] tun]. simpl in H.
  destruct (negb kex); [destruct (negb can)|]; simpl.
  - eapply same_blk_trans; [exact H|apply mark_clean_sb].
  - eapply same_blk_trans; [exact H|]. apply fold_sb. apply confirm_tunnel_sb.
  - eapply same_blk_trans; [exact H|apply mark_clean_sb].
Qed.

Lemma check_node_sb : forall w grace c cn, same_blk c (fst (check_node w grace c cn)).
Proof.
  intros. unfold check_node. destruct (knode_for w c cn); [apply check_node_k_sb|]. cbn [fst]. apply mark_clean_sb.
Qed.

Lemma check_nodes_sb : forall w grace ns c, same_blk c (fst (check_nodes w grace ns c)).
Proof.
  intros. unfold check_nodes.
  change c with (fst (c, @nil N)) at 1. generalize (c, @nil N). induction ns; intros st; simpl; [apply same_blk_refl|].
  eapply same_blk_trans; [|apply IHns]. destruct st as [c0 rel]. simpl.
  pose proof (check_node_sb w grace c0 a). destruct (check_node w grace c0 a). simpl in *. auto.
Qed.

Lemma gc_revalidate_sb : forall w c i, same_blk c (gc_revalidate w c i).
Proof.
  intros. unfold gc_revalidate. destruct (negb _); [apply same_blk_refl|].
  destruct (aget _ _); [|apply same_blk_refl]. destruct (allocation_is_valid _ _ _); [|apply same_blk_refl]. sb.
Qed.

Lemma release_opt_sb : forall c o, same_blk c (release_opt c o).
Proof. intros. unfold release_opt. destruct (aget _ _); [apply release_sb|apply same_blk_refl]. Qed.

Lemma gc_fixed_sb : forall w batch o1 o2 c, same_blk c (fst (gc_fixed w batch o1 o2 c)).
Proof.
  intros. unfold gc_fixed. simpl. eapply same_blk_trans; [|apply fold_sb; apply release_opt_sb].
  apply fold_sb. apply gc_revalidate_sb.
Qed.
