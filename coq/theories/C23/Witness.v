(* C23 - concrete witnesses (computed) showing where the pinned code departs from the property text. *)
From Coq Require Import List NArith Bool.
From Verif.C23 Require Import Model Spec.
Import ListNotations.
Open Scope N_scope.

Definition pinned (g : option N) (batch : N) : cfg := {| f_grace := g; f_batch := batch; f_fixaff := false; f_fixgc := false |}.
Definition repaired (g : option N) (batch : N) : cfg := {| f_grace := g; f_batch := batch; f_fixaff := true; f_fixgc := true |}.

Definition run_events (fixaff : bool) (evs : list event) (wc : world * ctrl) : world * ctrl :=
  fold_left (fun wc e => apply_event fixaff e wc) evs wc.

(* "all of a handle's addresses or none": every allocation tracked when the collection starts whose handle is
   mentioned by the ReleaseIPs call is in the call *)
Definition handle_closed (c : ctrl) (opts : list relopt) : Prop :=
  forall o a, In o opts -> In a (c_allocs c) -> a_handle a = id_handle (r_id o) ->
              exists o', In o' opts /\ r_id o' = a_id a.

Definition at11 : attrs := {| at_node := 1; at_pod := 1; at_tun := false |}.
Definition at12 : attrs := {| at_node := 1; at_pod := 2; at_tun := false |}.

(* 1. One handle, two addresses, both confirmed leaks by the cache (node gone); the API justifies ordinal 0 only. *)
Definition split_events : list event :=
  [ECNodeApi 1 (Some true); ECNodeSync 1 (Some true);
   EBlock 1 (Some {| b_aff := AffHost 1; b_allocs := [mkBA 0 (Some 1) at11 1; mkBA 1 (Some 1) at11 2] |});
   EPod true 1 (Some {| p_node := 1; p_ips := [(1, 0)]; p_evicted := false |})].

Definition split_run (f : cfg) (gorder : list id) : ctrl * sync_out :=
  let '(w, c) := run_events (f_fixaff f) split_events (world0, ctrl0) in
  sync_ipam f w (nodes_to_check c) (fun _ => gorder) (fun c => map fst (c_empty c)) c.

Lemma split_pinned_bad_order :
  so_rel (snd (split_run (pinned (Some 900) 10000) [(1, 1, 1); (1, 1, 0)])) = [{| r_id := (1, 1, 1); r_seq := 2 |}]
  /\ map a_id (c_allocs (fst (split_run (pinned (Some 900) 10000) [(1, 1, 1); (1, 1, 0)]))) = [(1, 1, 0)].
Proof. vm_compute. split; reflexivity. Qed.

Lemma split_pinned_good_order :
  so_rel (snd (split_run (pinned (Some 900) 10000) [(1, 1, 0); (1, 1, 1)])) = [].
Proof. vm_compute. reflexivity. Qed.

Lemma split_repaired_any_order :
  so_rel (snd (split_run (repaired (Some 900) 10000) [(1, 1, 1); (1, 1, 0)])) = []
  /\ so_rel (snd (split_run (repaired (Some 900) 10000) [(1, 1, 0); (1, 1, 1)])) = [].
Proof. vm_compute. split; reflexivity. Qed.

(* 2. The batch cut: three confirmed leaks (handle 1 twice, handle 2 once), batch limit 2. *)
Definition cut_events : list event :=
  [EBlock 1 (Some {| b_aff := AffHost 1; b_allocs := [mkBA 0 (Some 1) at11 1; mkBA 1 (Some 2) at12 2; mkBA 2 (Some 1) at11 3] |})].

Definition cut_run (f : cfg) (gorder : list id) : ctrl * sync_out :=
  let '(w, c) := run_events (f_fixaff f) cut_events (world0, ctrl0) in
  sync_ipam f w (nodes_to_check c) (fun _ => gorder) (fun c => map fst (c_empty c)) c.

Lemma cut_pinned :
  map r_id (so_rel (snd (cut_run (pinned (Some 900) 2) [(1, 1, 0); (2, 1, 1); (1, 1, 2)]))) = [(1, 1, 0); (2, 1, 1)]
  /\ map a_id (c_allocs (fst (cut_run (pinned (Some 900) 2) [(1, 1, 0); (2, 1, 1); (1, 1, 2)]))) = [(1, 1, 2)].
Proof. vm_compute. split; reflexivity. Qed.

Lemma cut_repaired :
  map r_id (so_rel (snd (cut_run (repaired (Some 900) 2) [(1, 1, 0); (2, 1, 1); (1, 1, 2)]))) = [(1, 1, 0); (1, 1, 2)].
Proof. vm_compute. reflexivity. Qed.

(* 3. The last block: block 1 moves from node 1 to node 2 in one update; block 2 is node 1's only block. *)
Definition last_events1 : list event :=
  [EKNode 1 true; ECNodeApi 1 (Some true); ECNodeSync 1 (Some true); EKNode 2 true; ECNodeApi 2 (Some true); ECNodeSync 2 (Some true);
   EBlock 1 (Some {| b_aff := AffHost 1; b_allocs := [] |});
   EBlock 1 (Some {| b_aff := AffHost 2; b_allocs := [] |});
   EBlock 2 (Some {| b_aff := AffHost 1; b_allocs := [] |})].

Definition last_run (f : cfg) : world * ctrl * sync_out :=
  let '(w, c) := run_events (f_fixaff f) last_events1 (world0, ctrl0) in
  let '(c1, _) := sync_ipam f w (nodes_to_check c) c_conf (fun _ => [2; 1]) c in
  let '(w2, c2) := apply_event (f_fixaff f) (ETick 901) (w, c1) in
  let '(c3, out) := sync_ipam f w2 (nodes_to_check c2) c_conf (fun _ => [2; 1]) c2 in
  (w2, c2, out).

(* number of blocks the controller has seen that are affine to node n *)
Definition seen_affine (c : ctrl) (n : N) : nat := length (filter (affine_to n) (c_blocks c)).

Lemma last_pinned :
  let '(_, c2, out) := last_run (pinned (Some 900) 10000) in
  so_rba out = [2] /\ mget 2 (c_blocks c2) = Some {| b_aff := AffHost 1; b_allocs := [] |} /\ seen_affine c2 1 = 1%nat.
Proof. vm_compute. repeat split; reflexivity. Qed.

Lemma last_repaired :
  let '(_, _, out) := last_run (repaired (Some 900) 10000) in so_rba out = [].
Proof. vm_compute. reflexivity. Qed.
