(* C23 - step-level facts: grace period, last block, for every iteration order. *)
From Coq Require Import List NArith Bool Lia.
From Verif.C23 Require Import Model Lemmas ProofsGC.
Import ListNotations.
Open Scope N_scope.

(* markLeak: the clock of a candidate starts at the first unjustified sighting and is never moved; the flag is set
   only when that clock is older than a non-zero grace period *)
Lemma mark_leak_clock : forall now g a t,
  a_leaked (mark_leak now g a) = Some t -> (a_leaked a = None /\ t = now) \/ a_leaked a = Some t.
Proof.
  intros now g a t. unfold mark_leak, with_flags; simpl. destruct (a_leaked a); intros H; inversion H; auto.
Qed.

Lemma mark_leak_confirms_after_grace : forall now g a,
  a_conf a = false -> a_conf (mark_leak now g a) = true ->
  exists t, a_leaked a = Some t /\ g < now - t /\ 0 < g.
Proof.
  intros now g a H0 H. unfold mark_leak, with_flags in H; simpl in H. rewrite H0 in H. simpl in H.
  apply andb_true_iff in H. destruct H as [H1 H2]. apply N.ltb_lt in H1. apply N.ltb_lt in H2.
  destruct (a_leaked a) as [t|] eqn:E.
  - exists t. auto.
  - rewrite N.sub_diag in H1. lia.
Qed.

(* checkAllocations, one allocation: how the confirmed flag can come about *)
Lemma check_alloc_confirms : forall w grace kn kexists c can tun i c' can' tun' a a',
  check_alloc w grace kn kexists (c, can, tun) i = (c', can', tun') ->
  aget i (c_allocs c) = Some a -> aget i (c_allocs c') = Some a' ->
  a_conf a = false -> a_conf a' = true ->
  allocation_is_valid w (with_flags a kn (a_leaked a) (a_conf a)) true = false
  /\ (kexists = false
      \/ exists g t, grace = Some g /\ a_leaked a = Some t /\ g < w_now w - t /\ 0 < g).
Proof.
  intros w grace kn kexists c can tun i c' can' tun' a a' H Ha Ha' Hc Hc'.
  unfold check_alloc in H. rewrite Ha in H.
  set (a1 := with_flags a kn (a_leaked a) (a_conf a)) in *.
  assert (Hid : a_id a1 = i) by (apply aget_In in Ha; unfold a1, with_flags; simpl; tauto).
  assert (G : forall x l, a_id x = i -> aget i (aput x l) = Some x)
    by (intros x l <-; apply aget_aput_same).
  destruct (is_windows a1).
  { inversion H; subst. cbn [c_allocs upd_alloc set_allocs] in Ha'. rewrite G in Ha' by auto.
    inversion Ha'; subst. unfold a1, with_flags in Hc'; simpl in Hc'. congruence. }
  destruct (negb (is_pod_ip a1) && negb (is_tunnel a1)).
  { inversion H; subst. cbn [c_allocs upd_alloc set_allocs] in Ha'. rewrite G in Ha' by auto.
    inversion Ha'; subst. unfold a1, with_flags in Hc'; simpl in Hc'. congruence. }
  destruct (is_tunnel a1).
  { inversion H; subst. cbn [c_allocs upd_alloc set_allocs] in Ha'. rewrite G in Ha' by auto.
    inversion Ha'; subst. unfold a1, with_flags in Hc'; simpl in Hc'. congruence. }
  destruct (allocation_is_valid w a1 true) eqn:Hv.
  { inversion H; subst. cbn [c_allocs upd_alloc set_allocs] in Ha'. rewrite G in Ha' by auto.
    inversion Ha'; subst. discriminate. }
  split; auto.
  assert (Hidx : forall x cc, c_allocs (index_conf x cc) = c_allocs cc)
    by (intros x cc; unfold index_conf; destruct (a_conf x); reflexivity).
  destruct kexists; [right|left; reflexivity].
  simpl in H. destruct grace as [g|].
  - inversion H; subst. rewrite Hidx in Ha'. cbn [c_allocs upd_alloc set_allocs] in Ha'.
    rewrite G in Ha' by (unfold mark_leak, with_flags; simpl; auto).
    inversion Ha'; subst.
    destruct (mark_leak_confirms_after_grace (w_now w) g a1) as [t [E1 [E2 E3]]]; auto.
    exists g, t. auto.
  - inversion H; subst. rewrite Hidx in Ha'. cbn [c_allocs upd_alloc set_allocs] in Ha'.
    rewrite G in Ha' by auto. inversion Ha'; subst. unfold a1, with_flags in Hc'; simpl in Hc'. congruence.
Qed.

(* releaseUnusedBlocks: a ReleaseBlockAffinity call is made only for a block recorded as empty for a node that, by
   the controller's books at that moment, has at least two blocks; and only after the block has been seen empty for
   longer than a non-zero grace period *)
Definition rba_ok (grace : option N) (w : world) (c : ctrl) (b : N) : Prop :=
  exists n first g, mget b (c_empty c) = Some n /\ (2 <= rn_count n (c_bbn c))%nat
                    /\ grace = Some g /\ 0 < g /\ mget b (c_tracker c) = Some first /\ g < w_now w - first.

Lemma rub_visit_call : forall w grace c calls b c' calls',
  rub_visit w grace (c, calls) b = (c', calls') ->
  calls' = calls \/ (calls' = calls ++ [b] /\ rba_ok grace w c b).
Proof.
  intros w grace c calls b c' calls' H. unfold rub_visit in H.
  destruct (mget b (c_empty c)) as [n|] eqn:En; [|inversion H; auto].
  destruct (Nat.leb (rn_count n (c_bbn c)) 1) eqn:Ec; [inversion H; auto|].
  apply PeanoNat.Nat.leb_gt in Ec.
  destruct (knode_for w c n); [|inversion H; auto].
  unfold mark_empty in H.
  destruct grace as [g|].
  2:{ simpl in H. inversion H; auto. }
  destruct (N.ltb 0 g) eqn:Eg.
  2:{ simpl in H. inversion H; auto. }
  apply N.ltb_lt in Eg.
  destruct (mget b (c_tracker c)) as [first|] eqn:Et.
  2:{ simpl in H. inversion H; auto. }
  destruct (N.ltb g (w_now w - first)) eqn:El; simpl in H.
  2:{ inversion H; auto. }
  apply N.ltb_lt in El.
  destruct (mget b (c_blocks c)); inversion H; auto.
  right. split; auto. exists n, first, g. repeat split; auto; lia.
Qed.
