(* C23 - reflection lemmas for the list-based sets/maps of Model.v *)
From Coq Require Import List NArith Bool Lia.
From Verif.C23 Require Import Model.
Import ListNotations.
Open Scope N_scope.

Lemma id_eqb_eq : forall x y : id, id_eqb x y = true <-> x = y.
Proof.
  intros [[a b] c] [[a' b'] c']. unfold id_eqb, id_handle, id_block, id_ord; simpl.
  rewrite !andb_true_iff, !N.eqb_eq. split.
  - intros [[-> ->] ->]; reflexivity.
  - intros H; inversion H; auto.
Qed.

Lemma id_eqb_refl : forall x, id_eqb x x = true.
Proof. intros; apply id_eqb_eq; reflexivity. Qed.

Lemma id_eqb_neq : forall x y : id, id_eqb x y = false <-> x <> y.
Proof.
  intros x y. split; intros H.
  - intros E. apply id_eqb_eq in E. congruence.
  - destruct (id_eqb x y) eqn:E; auto. apply id_eqb_eq in E. contradiction.
Qed.

Lemma imem_In : forall x l, imem x l = true <-> In x l.
Proof.
  intros x l. unfold imem. rewrite existsb_exists. split.
  - intros [y [Hy E]]. apply id_eqb_eq in E. subst; auto.
  - intros H. exists x. split; auto. apply id_eqb_refl.
Qed.

Lemma irem_In : forall x y l, In y (irem x l) <-> In y l /\ y <> x.
Proof.
  intros. unfold irem. rewrite filter_In, negb_true_iff, id_eqb_neq. intuition congruence.
Qed.

Lemma iadd_In : forall x y l, In y (iadd x l) <-> y = x \/ In y l.
Proof.
  intros. unfold iadd. destruct (imem x l) eqn:E.
  - apply imem_In in E. intuition (subst; auto).
  - simpl. intuition.
Qed.

Lemma aget_In : forall i l a, aget i l = Some a -> In a l /\ a_id a = i.
Proof.
  intros i l a H. unfold aget in H. apply find_some in H. destruct H as [H1 H2].
  apply id_eqb_eq in H2. auto.
Qed.

Lemma aget_none : forall i l, aget i l = None -> forall a, In a l -> a_id a <> i.
Proof.
  intros i l H a Ha E. unfold aget in H. eapply find_none in H; eauto. simpl in H.
  rewrite E, id_eqb_refl in H. discriminate.
Qed.

Lemma adel_In : forall i a l, In a (adel i l) <-> In a l /\ a_id a <> i.
Proof.
  intros. unfold adel. rewrite filter_In, negb_true_iff, id_eqb_neq. intuition congruence.
Qed.

Lemma aput_In : forall a b l, In b (aput a l) <-> b = a \/ (In b l /\ a_id b <> a_id a).
Proof.
  intros. unfold aput. simpl. rewrite adel_In. intuition.
Qed.

Lemma aget_aput_same : forall a l, aget (a_id a) (aput a l) = Some a.
Proof. intros. unfold aget, aput. simpl. rewrite id_eqb_refl. reflexivity. Qed.

Lemma aget_adel_other : forall i j l, i <> j -> aget i (adel j l) = aget i l.
Proof.
  intros i j l H. unfold aget, adel. induction l as [|x l IH]; simpl; auto.
  destruct (id_eqb j (a_id x)) eqn:E; simpl.
  - apply id_eqb_eq in E. subst. destruct (id_eqb i (a_id x)) eqn:E2.
    + apply id_eqb_eq in E2. congruence.
    + apply IH.
  - destruct (id_eqb i (a_id x)); auto.
Qed.

Lemma aget_adel_same : forall i l, aget i (adel i l) = None.
Proof.
  intros. unfold aget, adel. induction l as [|x l IH]; simpl; auto.
  destruct (id_eqb i (a_id x)) eqn:E; simpl; auto. rewrite E. apply IH.
Qed.

Lemma aget_aput_other : forall i a l, i <> a_id a -> aget i (aput a l) = aget i l.
Proof.
  intros. unfold aput. unfold aget at 1. simpl.
  destruct (id_eqb i (a_id a)) eqn:E.
  - apply id_eqb_eq in E. congruence.
  - fold (aget i (adel (a_id a) l)). apply aget_adel_other; auto.
Qed.

Lemma ri_mem_In : forall k i r, ri_mem k i r = true <-> In (k, i) r.
Proof.
  intros. unfold ri_mem. rewrite existsb_exists. split.
  - intros [[k' i'] [Hin E]]. simpl in E. apply andb_true_iff in E. destruct E as [E1 E2].
    apply N.eqb_eq in E1. apply id_eqb_eq in E2. subst; auto.
  - intros H. exists (k, i). split; auto. simpl. rewrite N.eqb_refl, id_eqb_refl. reflexivity.
Qed.

Lemma ri_ids_In : forall k i r, In i (ri_ids k r) <-> In (k, i) r.
Proof.
  intros. unfold ri_ids. rewrite in_map_iff. split.
  - intros [[k' i'] [E Hin]]. simpl in E. subst. apply filter_In in Hin. destruct Hin as [Hin E].
    simpl in E. apply N.eqb_eq in E. subst; auto.
  - intros H. exists (k, i). split; auto. apply filter_In. split; auto. simpl. apply N.eqb_refl.
Qed.

Lemma nmem_In : forall x l, nmem x l = true <-> In x l.
Proof.
  intros. unfold nmem. rewrite existsb_exists. split.
  - intros [y [Hy E]]. apply N.eqb_eq in E. subst; auto.
  - intros H. exists x. split; auto. apply N.eqb_refl.
Qed.

Global Arguments aget : simpl never.
Global Arguments aput : simpl never.
Global Arguments adel : simpl never.
Global Arguments imem : simpl never.
Global Arguments irem : simpl never.
Global Arguments iadd : simpl never.
Global Arguments ri_mem : simpl never.
Global Arguments ri_ids : simpl never.
Global Arguments ri_add : simpl never.
Global Arguments ri_rem : simpl never.
Global Arguments nmem : simpl never.
Global Arguments mget : simpl never.
Global Arguments mput : simpl never.
Global Arguments mdel : simpl never.
Global Arguments allocation_is_valid : simpl never.
Global Arguments handle_confirmed : simpl never.
