(* C23 - property theorems only.  "pinned" = the code as found; "repaired" = with fixes/C23-*.patch (the model follows
   whichever the tree has; the driver probes it).  All statements are over the model, for every iteration order of the
   Go maps involved (the order is an argument) and every batch limit. *)
From Coq Require Import List NArith Bool.
From Verif.C23 Require Import Model Spec Lemmas ProofsGC ProofsSteps Witness Inv Binv Reach Grace Grace2 NonK8s Tunnel.
Import ListNotations.
Open Scope N_scope.

(* --- an allocation is released only if, at release time, its owner no longer justifies it ---
   Every option of the ReleaseIPs call names an allocation that was in confirmedLeaks when the collection started,
   carries that allocation's sequence number, and the final re-validation against the world at release time (API
   server when the allocation's Kubernetes node is known, informer cache otherwise) found it unjustified. *)
Theorem c23_release_only_invalid_pinned : forall w batch order c c' opts,
  gc_pinned w batch order c = (c', opts) -> Forall (opt_ok w c) opts.
Proof. exact gc_pinned_sound. Qed.
Print Assumptions c23_release_only_invalid_pinned.

Theorem c23_release_only_invalid_repaired : forall w batch order c c' opts,
  idx_inv c -> gc_fixed w batch order order c = (c', opts) -> Forall (opt_ok w c) opts.
Proof. exact gc_fixed_sound. Qed.
Print Assumptions c23_release_only_invalid_repaired.

(* --- ... and it has been a leak candidate for the grace period ---
   Step level (the history-level chain is c23_release_only_invalid_after_grace below): checkAllocations sets the confirmed flag of an allocation only when the allocation is found
   unjustified (informer cache) and either its Kubernetes node is gone (no grace period applies) or its candidate
   clock, which markLeak starts at the first unjustified sighting and never moves, is older than a non-zero grace
   period. *)
Theorem c23_confirming_check_step :
  (forall w grace kn kexists c can tun i c' can' tun' a a',
     check_alloc w grace kn kexists (c, can, tun) i = (c', can', tun') ->
     aget i (c_allocs c) = Some a -> aget i (c_allocs c') = Some a' ->
     a_conf a = false -> a_conf a' = true ->
     allocation_is_valid w (with_flags a kn (a_leaked a) (a_conf a)) true = false
     /\ (kexists = false \/ exists g t, grace = Some g /\ a_leaked a = Some t /\ g < w_now w - t /\ 0 < g))
  /\ (forall now g a t, a_leaked (mark_leak now g a) = Some t -> (a_leaked a = None /\ t = now) \/ a_leaked a = Some t).
Proof. split; [exact check_alloc_confirms | exact mark_leak_clock]. Qed.
Print Assumptions c23_confirming_check_step.

(* --- all of a handle's addresses are released together or none --- *)
(* repaired collector: for every order and batch limit, provided the handle index is complete and every confirmed
   allocation is in confirmedLeaks (idx_inv) and the range covers confirmedLeaks *)
Theorem c23_handle_all_or_none : forall w batch order c c' opts,
  idx_inv c -> (forall i, In i (c_conf c) -> In i order) ->
  gc_fixed w batch order order c = (c', opts) -> handle_closed c opts.
Proof. intros w batch order c c' opts H1 H2 H3 o a. eapply gc_fixed_all_or_none; eauto. Qed.
Print Assumptions c23_handle_all_or_none.

Example c23_handle_all_or_none_example :
  so_rel (snd (cut_run (repaired (Some 900) 2) [(1, 1, 0); (2, 1, 1); (1, 1, 2)])) <> [].
Proof. vm_compute. discriminate. Qed.

(* pinned collector: false.  (a) the final re-validation is interleaved with the per-handle check, so the outcome
   depends on the map order: one order releases ordinal 1 of handle 1 and keeps ordinal 0, the other releases nothing;
   (b) the batch cut (limit 2 here, 10000 in the code) leaves one address of a handle behind.
   Both replayed on the real controller (driver probe probeGCOnce / batchCut). *)
Theorem c23_handle_all_or_none_pinned_refuted :
  exists (evs : list event) (order order' : list id),
    let '(w, c) := run_events false evs (world0, ctrl0) in
    let run o := sync_ipam (pinned (Some 900) 10000) w (nodes_to_check c) (fun _ => o) (fun c => map fst (c_empty c)) c in
    map r_id (so_rel (snd (run order))) = [(1, 1, 1)]
    /\ map a_id (c_allocs (fst (run order))) = [(1, 1, 0)]
    /\ so_rel (snd (run order')) = [].
Proof.
  exists split_events, [(1, 1, 1); (1, 1, 0)], [(1, 1, 0); (1, 1, 1)]. vm_compute. repeat split; reflexivity.
Qed.
Print Assumptions c23_handle_all_or_none_pinned_refuted.

Theorem c23_batch_cut_splits_handle_pinned_refuted :
  exists (evs : list event) (order : list id),
    let '(w, c) := run_events false evs (world0, ctrl0) in
    let '(c', out) := sync_ipam (pinned (Some 900) 2) w (nodes_to_check c) (fun _ => order) (fun c => map fst (c_empty c)) c in
    map r_id (so_rel out) = [(1, 1, 0); (2, 1, 1)] /\ map a_id (c_allocs c') = [(1, 1, 2)].
Proof.
  exists cut_events, [(1, 1, 0); (2, 1, 1); (1, 1, 2)]. vm_compute. split; reflexivity.
Qed.
Print Assumptions c23_batch_cut_splits_handle_pinned_refuted.

(* --- a node's last block is never released ---
   Step level (history level: c23_never_last_block below): whatever the order in which emptyBlocks is ranged over, a ReleaseBlockAffinity call is made only for a block
   recorded as empty whose node has at least two blocks in blocksByNode at that moment (forgetBlock keeps the count
   current between two calls of one sync), and only after it was first seen empty more than a non-zero grace period
   ago. *)
Theorem c23_never_last_block_step : forall w grace c calls b c' calls',
  rub_visit w grace (c, calls) b = (c', calls') ->
  calls' = calls \/ (calls' = calls ++ [b] /\ rba_ok grace w c b).
Proof. exact rub_visit_call. Qed.
Print Assumptions c23_never_last_block_step.

(* pinned onBlockUpdated: false against the blocks seen.  Block 1 moves from node 1 to node 2 in one update, block 2
   is then node 1's only block, and is released after the grace period. *)
Theorem c23_never_last_block_pinned_refuted :
  let '(_, c2, out) := last_run (pinned (Some 900) 10000) in
  so_rba out = [2] /\ mget 2 (c_blocks c2) = Some {| b_aff := AffHost 1; b_allocs := [] |} /\ seen_affine c2 1 = 1%nat.
Proof. exact last_pinned. Qed.
Print Assumptions c23_never_last_block_pinned_refuted.

Theorem c23_never_last_block_repaired_witness :
  let '(_, _, out) := last_run (repaired (Some 900) 10000) in so_rba out = [].
Proof. exact last_repaired. Qed.
Print Assumptions c23_never_last_block_repaired_witness.

(* ======================= all histories, all map orders (repaired controller) =======================
   reach f w c: (w, c) is reached from the initial state by any sequence of events (block updates / deletes, pods and
   nodes appearing and disappearing in either view, pod deletion events, full-scan requests, time) and GC syncs, every
   sync with arbitrary iteration orders of nodesToCheck, confirmedLeaks and emptyBlocks. *)

Example c23_reach_example :
  is_repaired (repaired (Some 900) 10000)
  /\ reach (repaired (Some 900) 10000) (fst (run_events true split_events (world0, ctrl0)))
                                        (snd (run_events true split_events (world0, ctrl0))).
Proof. split; [split; reflexivity|]. apply (reach_run_events (repaired (Some 900) 10000)). constructor. Qed.

(* --- bookkeeping stays consistent with the blocks seen ---
   In every reachable state: allocation ids are unique, the handle index lists every tracked allocation, every
   confirmed allocation is in confirmedLeaks (idx_inv); nodesByBlock is exactly "block seen with affinity host:n",
   blocksByNode is its inverse relation without duplicates, and every emptyBlocks entry is a seen block with no
   allocations affine to that node (Binv).  (Not covered: that the tracked allocations themselves and the per-node
   index are the image of the blocks' contents - checked on every implementation run by Spec.ok_books.) *)
Theorem c23_bookkeeping_consistent : forall f w c, is_repaired f -> reach f w c -> idx_inv c /\ Binv c.
Proof. exact reach_inv. Qed.
Print Assumptions c23_bookkeeping_consistent.

(* --- released only if unjustified at release time: from any reachable state, no side condition --- *)
Theorem c23_release_only_invalid : forall f w c norder gorder border,
  is_repaired f -> reach f w c ->
  Forall (opt_ok w (after_check f w norder c)) (so_rel (snd (sync_ipam f w norder gorder border c))).
Proof. exact sync_release_sound. Qed.
Print Assumptions c23_release_only_invalid.

(* --- all of a handle's addresses or none: from any reachable state; the only premise is that the range over
   confirmedLeaks visits every key (it is a map range) --- *)
Theorem c23_handle_all_or_none_history : forall f w c norder gorder border,
  is_repaired f -> reach f w c ->
  (forall c1 i, In i (c_conf c1) -> In i (gorder c1)) ->
  handle_closed (after_check f w norder c) (so_rel (snd (sync_ipam f w norder gorder border c))).
Proof. exact sync_handle_closed. Qed.
Print Assumptions c23_handle_all_or_none_history.

(* --- a node's last block is never released: the ReleaseBlockAffinity calls of a sync from any reachable state pass
   the specification's own check against the blocks seen (each block is seen, empty, affine to a node that has at
   least two seen blocks at that moment, earlier calls of the same sync taken into account) --- *)
Theorem c23_never_last_block : forall f w c norder gorder border,
  is_repaired f -> reach f w c ->
  ok_lastblock (c_blocks c) (so_rba (snd (sync_ipam f w norder gorder border c))) = true.
Proof. exact sync_lastblock. Qed.
Print Assumptions c23_never_last_block.

(* --- ... and it has been a leak candidate for the grace period: the chain over histories ---
   (w0, c0) any reachable state (e.g. right after the previous sync), then any events, then a sync:
   a released allocation either is listed under a node that is not alive at this sync (no grace period applies), or
   it is the very allocation (same id, same sequence number) that in (w0, c0) was already confirmed or was a candidate
   whose clock is older than the non-zero grace period now; anything that happened in between that touches it (a
   justified sighting, a re-allocation, disappearing and re-appearing) would have made it fresh, and a fresh allocation
   is not released.  The clock shown after the sync is this sync's time or the unchanged clock from (w0, c0); the
   confirmed flag after the sync obeys the same rule as a release. *)
Theorem c23_release_only_invalid_after_grace : forall f w0 c0 evs norder gorder border,
  is_repaired f -> reach f w0 c0 ->
  let w := fst (run_events (f_fixaff f) evs (w0, c0)) in
  let c := snd (run_events (f_fixaff f) evs (w0, c0)) in
  let c' := fst (sync_ipam f w norder gorder border c) in
  (forall o, In o (so_rel (snd (sync_ipam f w norder gorder border c))) ->
     Dead w c (r_id o)
     \/ exists a0, In a0 (c_allocs c0) /\ a_id a0 = r_id o /\ a_seq a0 = r_seq o
                   /\ (a_conf a0 = true \/ elapsed (f_grace f) (w_now w) a0))
  /\ (forall a' t, In a' (c_allocs c') -> a_leaked a' = Some t ->
        t = w_now w \/ exists a0, In a0 (c_allocs c0) /\ a_id a0 = a_id a' /\ a_seq a0 = a_seq a' /\ a_leaked a0 = Some t)
  /\ (forall a', In a' (c_allocs c') -> a_conf a' = true ->
        Dead w c (a_id a')
        \/ exists a0, In a0 (c_allocs c0) /\ a_id a0 = a_id a' /\ a_seq a0 = a_seq a'
                      /\ (a_conf a0 = true \/ elapsed (f_grace f) (w_now w) a0)).
Proof. exact grace_chain. Qed.
Print Assumptions c23_release_only_invalid_after_grace.

(* ======================= Calico nodes that are not Kubernetes nodes =======================
   The syncer caches "" for such a node; kubernetesNodeForCalico then asks the datastore and answers
   ErrorNotKubernetes (KErr) as long as the Calico node exists.  "Alive" (kexists) counts such a node as alive, so the
   grace chain above (Dead = listed under a node that is not alive) already says that its tunnel and pod addresses are
   never newly confirmed or released while it exists.  In addition, from any state / any reachable state: *)

(* ReleaseHostAffinities (node cleanup) only for nodes that are not alive at that sync - never for a live
   non-Kubernetes node *)
Theorem c23_node_cleanup_only_dead : forall f w norder gorder border c n,
  In n (so_rha (snd (sync_ipam f w norder gorder border c))) -> kexists w c n = false.
Proof. exact sync_rha_dead. Qed.
Print Assumptions c23_node_cleanup_only_dead.

Theorem c23_nonk8s_node_not_cleaned_up : forall f w norder gorder border c n,
  knode_for w c n = KErr -> ~ In n (so_rha (snd (sync_ipam f w norder gorder border c))).
Proof. exact sync_rha_not_nonk8s. Qed.
Print Assumptions c23_nonk8s_node_not_cleaned_up.

(* every block released by a sync from a reachable state is a seen block affine to a node whose lookup does not
   answer "not a Kubernetes node" *)
Theorem c23_nonk8s_blocks_not_released : forall f w c norder gorder border,
  is_repaired f -> reach f w c ->
  Forall (rba_node_ok w c) (so_rba (snd (sync_ipam f w norder gorder border c))).
Proof. exact sync_rba_not_nonk8s. Qed.
Print Assumptions c23_nonk8s_blocks_not_released.

(* a live non-Kubernetes node with a tunnel address and two empty blocks: two full syncs, more than the grace period
   apart, release nothing and clean nothing up *)
Definition nonk8s_events : list event :=
  [ECNodeApi 1 (Some false); ECNodeSync 1 (Some false);
   EBlock 1 (Some {| b_aff := AffHost 1; b_allocs := [mkBA 0 (Some 21) {| at_node := 1; at_pod := 0; at_tun := true |} 1] |});
   EBlock 2 (Some {| b_aff := AffHost 1; b_allocs := [] |}); EBlock 3 (Some {| b_aff := AffHost 1; b_allocs := [] |}); EFull].
Example c23_nonk8s_example :
  let f := repaired (Some 900) 10000 in
  let '(w, c) := run_events true nonk8s_events (world0, ctrl0) in
  let '(c1, o1) := sync_ipam f w (nodes_to_check c) c_conf (fun c => map fst (c_empty c)) c in
  let '(w2, c2) := run_events true [ETick 901; EFull] (w, c1) in
  let '(c3, o2) := sync_ipam f w2 (nodes_to_check c2) c_conf (fun c => map fst (c_empty c)) c2 in
  knode_for w c 1 = KErr /\ (so_rel o1, so_rba o1, so_rha o1) = ([], [], []) /\ (so_rel o2, so_rba o2, so_rha o2) = ([], [], []).
Proof. vm_compute. repeat split; reflexivity. Qed.

(* ======================= the re-check before release, tunnel addresses =======================
   checkAllocations records the Kubernetes node it resolved on every allocation of the node it looks at - tunnel
   addresses included - and garbageCollectKnownLeaks judges a tunnel address by that record.  Hence: from any reachable
   state (whatever is rolled over in confirmedLeaks from earlier syncs: incomplete handle, FAILED release, node deleted
   and re-registered in between - reach includes failed syncs), if a sync looks at node cn and cn resolves to a
   Kubernetes node name, no tunnel address listed under cn (and only under cn) is in that sync's ReleaseIPs call. *)
Theorem c23_tunnel_recheck_before_release : forall f w c norder gorder border cn kn i a0,
  is_repaired f -> reach f w c ->
  In cn norder -> knode_for w c cn = KNode kn -> kn <> 0 ->
  In (cn, i) (c_bynode c) -> (forall n', In (n', i) (c_bynode c) -> n' = cn) ->
  aget i (c_allocs c) = Some a0 -> at_tun (a_attrs a0) = true ->
  ~ In i (map r_id (so_rel (snd (sync_ipam f w norder gorder border c)))).
Proof. exact sync_tunnel_recheck. Qed.
Print Assumptions c23_tunnel_recheck_before_release.

(* the rollover scenario, computed: node gone -> tunnel address confirmed -> ReleaseIPs fails (nothing released) ->
   node re-registers -> next full sync resurrects the address instead of releasing it *)
Definition rollover_events1 : list event :=
  [EKNode 1 true; ECNodeApi 1 (Some true); ECNodeSync 1 (Some true);
   EBlock 1 (Some {| b_aff := AffHost 1; b_allocs := [mkBA 0 (Some 21) {| at_node := 1; at_pod := 0; at_tun := true |} 1] |});
   EKNode 1 false; ECNodeApi 1 None; ECNodeSync 1 None; EFull].
Example c23_tunnel_rollover_example :
  let f := repaired (Some 900) 10000 in
  let '(w, c) := run_events true rollover_events1 (world0, ctrl0) in
  let '(c1, o1) := sync_ipam_failed f w (nodes_to_check c) c_conf (fun _ => false) c in
  let '(w2, c2) := run_events true [EKNode 1 true; ECNodeApi 1 (Some true); ECNodeSync 1 (Some true); EFull] (w, c1) in
  let '(c3, o2) := sync_ipam f w2 (nodes_to_check c2) c_conf (fun c => map fst (c_empty c)) c2 in
  map r_id (so_rel o1) = [(21, 1, 0)] /\ c_conf c1 = [(21, 1, 0)] /\ so_rel o2 = [] /\ c_conf c3 = [].
Proof. vm_compute. repeat split; reflexivity. Qed.

(* a failed ReleaseIPs call is the very call the successful sync would have made: everything proved about so_rel
   (unjustified at release time, whole handles, grace chain, tunnel re-check) holds for failed syncs too *)
Theorem c23_failed_release_same_call : forall f w norder gorder border done c,
  f_fixgc f = true ->
  so_rel (snd (sync_ipam_failed f w norder gorder done c)) = so_rel (snd (sync_ipam f w norder gorder border c)).
Proof. exact sync_failed_same_call. Qed.
Print Assumptions c23_failed_release_same_call.

(* ======================= the per-node index: refuted =======================
   "Every entry of allocationState.allocationsByNode is a tracked allocation" is FALSE: an allocation re-allocated in
   place (same handle and address, new sequence number) with a different node attribute keeps its entry under the
   old node (releaseAllocation looks under the new node), and the entry outlives the allocation.  Replayed on the real
   controller (driver zombieProbe): allocationsByNode[node-1] = {h1/10.0.1.0} with no tracked allocation, and the next
   sync calls ReleaseIPs for that address although no block seen contains it.  Fix: fixes/C23-reindex-node-on-realloc.patch.
   (Beyond this point model and code differ - the model drops the orphan entry's data, the code keeps the object -
   which is why "the node attribute of an allocation id does not change" is a stated assumption of the generator.) *)
Definition zombie_events : list event :=
  [EBlock 1 (Some {| b_aff := AffHost 1; b_allocs := [mkBA 0 (Some 1) at11 1] |});
   EBlock 1 (Some {| b_aff := AffHost 1; b_allocs := [mkBA 0 (Some 1) {| at_node := 2; at_pod := 1; at_tun := false |} 2] |});
   EBlock 1 (Some {| b_aff := AffHost 1; b_allocs := [] |})].
Theorem c23_bynode_index_refuted :
  exists evs, let c := snd (run_events true evs (world0, ctrl0)) in
              reach (repaired (Some 900) 10000) (fst (run_events true evs (world0, ctrl0))) c
              /\ In (1, (1, 1, 0)) (c_bynode c) /\ c_allocs c = [].
Proof.
  exists zombie_events. split; [apply (reach_run_events (repaired (Some 900) 10000)); constructor|].
  vm_compute. split; auto.
Qed.
Print Assumptions c23_bynode_index_refuted.

(* ======================= model meets spec (the parts proved) =======================
   The oracle's clauses for the block and node calls accept every model sync:
   - ok_lastblock: c23_never_last_block above is literally Spec.ok_lastblock on the blocks the controller has seen;
   - ok_rha: below, given that the oracle's replay of the world and of the syncer's node cache coincides with the
     controller's (both fold the same events) and that no Kubernetes node has the empty name.
   PARTIAL: the clauses ok_release / ok_grace / ok_handles / ok_books are proved as statements over the model's own
   state (c23_release_only_invalid, c23_release_only_invalid_after_grace, c23_handle_all_or_none_history,
   c23_bookkeeping_consistent) but not as "ok_case (model run) = true": missing is the simulation lemma
   Sim(s, w, c) := s_w s = w /\ s_cnodes s = c_cnodes c /\ s_seen s = c_blocks c /\ tracked s = ids of c_allocs,
   preserved by spec_step / model_step (needs c_blocks after a sync = fold mdel so_rba, and "c_allocs = image of the
   blocks minus what the collector released", the allocation-level half of the bookkeeping invariant). *)
Theorem c23_model_meets_spec_node_cleanup_partial : forall f w norder gorder border c s,
  s_w s = w -> s_cnodes s = c_cnodes c -> ~ In 0 (w_knodes w) ->
  ok_rha s (so_rha (snd (sync_ipam f w norder gorder border c))) = true.
Proof. exact sync_meets_ok_rha. Qed.
Print Assumptions c23_model_meets_spec_node_cleanup_partial.
