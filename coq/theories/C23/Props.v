(* C23 - property theorems only.  "pinned" = the code as found; "repaired" = with fixes/C23-*.patch (the model follows
   whichever the tree has; the driver probes it).  All statements are over the model, for every iteration order of the
   Go maps involved (the order is an argument) and every batch limit. *)
From Coq Require Import List NArith Bool.
From Verif.C23 Require Import Model Spec Lemmas ProofsGC ProofsSteps Witness.
Import ListNotations.
Open Scope N_scope.

(* --- an allocation is released only if, at release time, its owner no longer justifies it ---
   Every option of the ReleaseIPs call names an allocation that was in confirmedLeaks when the collection started,
   carries that allocation's sequence number, and the final re-validation against the world at release time (API
   server when the allocation's Kubernetes node is known, informer cache otherwise) found it unjustified. *)
Theorem c23_release_only_invalid_pinned : forall w batch order c c' opts,
  gc_pinned w batch order c = (c', opts) -> Forall (opt_ok w c) opts.
Proof. exact gc_pinned_sound. Qed.
Print Assumptions c23_release_only_invalid_pinned.

Theorem c23_release_only_invalid_repaired : forall w batch order c c' opts,
  idx_inv c -> gc_fixed w batch order order c = (c', opts) -> Forall (opt_ok w c) opts.
Proof. exact gc_fixed_sound. Qed.
Print Assumptions c23_release_only_invalid_repaired.

(* --- ... and it has been a leak candidate for the grace period ---
   PARTIAL (step level): checkAllocations sets the confirmed flag of an allocation only when the allocation is found
   unjustified (informer cache) and either its Kubernetes node is gone (no grace period applies) or its candidate
   clock, which markLeak starts at the first unjustified sighting and never moves, is older than a non-zero grace
   period.  Missing: the history-level chain "released => flag set by such a check, clock reset by every justified
   sighting in between" (needs idx_inv and a trace invariant over all histories); the oracle checks exactly that
   chain on every implementation run (Spec.ok_grace_one / ok_grace_dump). *)
Theorem c23_release_only_invalid_after_grace_partial :
  (forall w grace kn kexists c can tun i c' can' tun' a a',
     check_alloc w grace kn kexists (c, can, tun) i = (c', can', tun') ->
     aget i (c_allocs c) = Some a -> aget i (c_allocs c') = Some a' ->
     a_conf a = false -> a_conf a' = true ->
     allocation_is_valid w (with_flags a kn (a_leaked a) (a_conf a)) true = false
     /\ (kexists = false \/ exists g t, grace = Some g /\ a_leaked a = Some t /\ g < w_now w - t /\ 0 < g))
  /\ (forall now g a t, a_leaked (mark_leak now g a) = Some t -> (a_leaked a = None /\ t = now) \/ a_leaked a = Some t).
Proof. split; [exact check_alloc_confirms | exact mark_leak_clock]. Qed.
Print Assumptions c23_release_only_invalid_after_grace_partial.

(* --- all of a handle's addresses are released together or none --- *)
(* repaired collector: for every order and batch limit, provided the handle index is complete and every confirmed
   allocation is in confirmedLeaks (idx_inv) and the range covers confirmedLeaks *)
Theorem c23_handle_all_or_none : forall w batch order c c' opts,
  idx_inv c -> (forall i, In i (c_conf c) -> In i order) ->
  gc_fixed w batch order order c = (c', opts) -> handle_closed c opts.
Proof. intros w batch order c c' opts H1 H2 H3 o a. eapply gc_fixed_all_or_none; eauto. Qed.
Print Assumptions c23_handle_all_or_none.

Example c23_handle_all_or_none_example :
  so_rel (snd (cut_run (repaired (Some 900) 2) [(1, 1, 0); (2, 1, 1); (1, 1, 2)])) <> [].
Proof. vm_compute. discriminate. Qed.

(* pinned collector: false.  (a) the final re-validation is interleaved with the per-handle check, so the outcome
   depends on the map order: one order releases ordinal 1 of handle 1 and keeps ordinal 0, the other releases nothing;
   (b) the batch cut (limit 2 here, 10000 in the code) leaves one address of a handle behind.
   Both replayed on the real controller (driver probe probeGCOnce / batchCut). *)
Theorem c23_handle_all_or_none_pinned_refuted :
  exists (evs : list event) (order order' : list id),
    let '(w, c) := run_events false evs (world0, ctrl0) in
    let run o := sync_ipam (pinned (Some 900) 10000) w (nodes_to_check c) (fun _ => o) (fun c => map fst (c_empty c)) c in
    map r_id (so_rel (snd (run order))) = [(1, 1, 1)]
    /\ map a_id (c_allocs (fst (run order))) = [(1, 1, 0)]
    /\ so_rel (snd (run order')) = [].
Proof.
  exists split_events, [(1, 1, 1); (1, 1, 0)], [(1, 1, 0); (1, 1, 1)]. vm_compute. repeat split; reflexivity.
Qed.
Print Assumptions c23_handle_all_or_none_pinned_refuted.

Theorem c23_batch_cut_splits_handle_pinned_refuted :
  exists (evs : list event) (order : list id),
    let '(w, c) := run_events false evs (world0, ctrl0) in
    let '(c', out) := sync_ipam (pinned (Some 900) 2) w (nodes_to_check c) (fun _ => order) (fun c => map fst (c_empty c)) c in
    map r_id (so_rel out) = [(1, 1, 0); (2, 1, 1)] /\ map a_id (c_allocs c') = [(1, 1, 2)].
Proof.
  exists cut_events, [(1, 1, 0); (2, 1, 1); (1, 1, 2)]. vm_compute. split; reflexivity.
Qed.
Print Assumptions c23_batch_cut_splits_handle_pinned_refuted.

(* --- a node's last block is never released ---
   PARTIAL: whatever the order in which emptyBlocks is ranged over, a ReleaseBlockAffinity call is made only for a block
   recorded as empty whose node has at least two blocks in blocksByNode at that moment (forgetBlock keeps the count
   current between two calls of one sync), and only after it was first seen empty more than a non-zero grace period
   ago.  Missing: blocksByNode = image of the blocks seen, over all histories, for the repaired onBlockUpdated (checked
   on every implementation run by Spec.ok_books / ok_lastblock). *)
Theorem c23_never_last_block_partial : forall w grace c calls b c' calls',
  rub_visit w grace (c, calls) b = (c', calls') ->
  calls' = calls \/ (calls' = calls ++ [b] /\ rba_ok grace w c b).
Proof. exact rub_visit_call. Qed.
Print Assumptions c23_never_last_block_partial.

(* pinned onBlockUpdated: false against the blocks seen.  Block 1 moves from node 1 to node 2 in one update, block 2
   is then node 1's only block, and is released after the grace period. *)
Theorem c23_never_last_block_pinned_refuted :
  let '(_, c2, out) := last_run (pinned (Some 900) 10000) in
  so_rba out = [2] /\ mget 2 (c_blocks c2) = Some {| b_aff := AffHost 1; b_allocs := [] |} /\ seen_affine c2 1 = 1%nat.
Proof. exact last_pinned. Qed.
Print Assumptions c23_never_last_block_pinned_refuted.

Theorem c23_never_last_block_repaired_witness :
  let '(_, _, out) := last_run (repaired (Some 900) 10000) in so_rba out = [].
Proof. exact last_repaired. Qed.
Print Assumptions c23_never_last_block_repaired_witness.

(* --- bookkeeping ---
   PARTIAL: the final re-validation pass keeps the index invariant (unique ids, complete handle index, every
   confirmed allocation indexed in confirmedLeaks) and changes nothing but flags.  Missing: the invariant over block
   updates / deletes and checkAllocations, i.e. over all histories; the oracle compares the full dump with the image
   of the blocks seen after every sync of every implementation run (Spec.ok_books). *)
Theorem c23_bookkeeping_consistent_partial : forall w c l,
  idx_inv c -> reval_inv w c (fold_left (gc_revalidate w) l c) l.
Proof. intros w c l H. exact (reval_fold w c l c [] (reval_start w c H)). Qed.
Print Assumptions c23_bookkeeping_consistent_partial.
