(* C23 - property theorems only. *)
From Coq Require Import List NArith Bool.
From Verif.C23 Require Import Model Spec Proofs.
Import ListNotations.
Open Scope N_scope.

(* placeholder until the main theorems land *)
Theorem c23_mark_valid_clears : forall a, a_conf (mark_valid a) = false /\ a_leaked (mark_valid a) = None.
Proof. exact mark_valid_clears. Qed.
Print Assumptions c23_mark_valid_clears.
