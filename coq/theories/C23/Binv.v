(* C23 - blocksByNode / nodesByBlock / emptyBlocks are exactly the image of the blocks seen (repaired onBlockUpdated) *)
From Coq Require Import List NArith Bool Lia.
From Verif.C23 Require Import Model Lemmas Lemmas2 ProofsGC Inv Same.
Import ListNotations.
Open Scope N_scope.

Definition host_of (blk : block) : N := match b_aff blk with AffHost n => n | _ => 0 end.

(* bbn is the inverse relation of nbb *)
Definition rinv (nbb bbn : list (N * N)) : Prop :=
  (forall m b, In (m, b) bbn <-> mget b nbb = Some m) /\ NoDup bbn.

Lemma rinv_del : forall nbb bbn b old,
  rinv nbb bbn -> mget b nbb = Some old -> rinv (mdel b nbb) (rn_rem old b bbn).
Proof.
  intros nbb bbn b old [H Hnd] Ho. split; [|apply rn_rem_NoDup; auto].
  intros m b'. rewrite rn_rem_In, H. destruct (N.eq_dec b' b) as [->|Hne].
  - rewrite mget_mdel_same. split; [|discriminate]. intros [E Hn]. exfalso. apply Hn. congruence.
  - rewrite mget_mdel_other by auto. split; [tauto|]. intros E. split; auto. intros E'. inversion E'. contradiction.
Qed.

Lemma rinv_del_none : forall nbb bbn b, rinv nbb bbn -> mget b nbb = None -> rinv (mdel b nbb) bbn.
Proof.
  intros nbb bbn b [H Hnd] Ho. split; auto. intros m b'. rewrite H. destruct (N.eq_dec b' b) as [->|Hne].
  - rewrite mget_mdel_same, Ho. tauto.
  - rewrite mget_mdel_other by auto. tauto.
Qed.

Lemma rinv_put : forall nbb bbn b n,
  rinv nbb bbn -> (mget b nbb = None \/ mget b nbb = Some n) -> rinv (mput b n nbb) (rn_add n b bbn).
Proof.
  intros nbb bbn b n [H Hnd] Ho. split; [|apply rn_add_NoDup; auto].
  intros m b'. rewrite rn_add_In, H. destruct (N.eq_dec b' b) as [->|Hne].
  - rewrite mget_mput_same. split.
    + intros [E|E]; [inversion E; auto|]. destruct Ho as [Ho|Ho]; congruence.
    + intros E. inversion E. auto.
  - rewrite mget_mput_other by auto. split; [|auto]. intros [E|E]; auto. inversion E. contradiction.
Qed.

Definition Binv (c : ctrl) : Prop :=
  (forall b n, mget b (c_nbb c) = Some n <->
               (n <> 0 /\ exists blk, mget b (c_blocks c) = Some blk /\ host_of blk = n))
  /\ rinv (c_nbb c) (c_bbn c)
  /\ (forall b n, mget b (c_empty c) = Some n ->
                  exists blk, mget b (c_blocks c) = Some blk /\ host_of blk = n /\ n <> 0 /\ b_allocs blk = []).

Lemma Binv_same : forall c c', same_blk c c' -> Binv c -> Binv c'.
Proof. intros c c' [H1 [H2 [H3 [H4 _]]]] H. unfold Binv. rewrite H1, H2, H3, H4. exact H. Qed.

Lemma Binv0 : Binv ctrl0.
Proof.
  unfold Binv, ctrl0; simpl. split; [|split].
  - intros b n. unfold mget; simpl. split; [discriminate|]. intros [_ [blk [E _]]]. discriminate.
  - split; [|constructor]. intros m b. unfold mget; simpl. split; [tauto|discriminate].
  - intros b n. unfold mget; simpl. discriminate.
Qed.

(* the affinity part of the repaired onBlockUpdated *)
Lemma update_affinity_spec : forall b af c,
  (forall b n, mget b (c_nbb c) = Some n -> n <> 0) -> rinv (c_nbb c) (c_bbn c) ->
  let n := match af with AffHost n => n | _ => 0 end in
  let c1 := update_affinity true b af c in
  c_blocks c1 = c_blocks c /\ c_empty c1 = c_empty c /\ c_tracker c1 = c_tracker c /\ c_cnodes c1 = c_cnodes c
  /\ (forall b', b' <> b -> mget b' (c_nbb c1) = mget b' (c_nbb c))
  /\ mget b (c_nbb c1) = (if N.eqb n 0 then None else Some n)
  /\ rinv (c_nbb c1) (c_bbn c1).
Proof.
  intros b af c Hnz Hr n c1. unfold c1, update_affinity. fold n. cbv zeta.
  destruct (mget b (c_nbb c)) as [old|] eqn:Eo.
  - destruct (N.eqb old n) eqn:Eon.
    + apply N.eqb_eq in Eon. subst old. pose proof (Hnz _ _ Eo) as Hn. apply N.eqb_neq in Hn. rewrite Hn. prj.
      refine (conj eq_refl (conj eq_refl (conj eq_refl (conj eq_refl (conj _ (conj _ _)))))).
      * intros. apply mget_mput_other; auto.
      * apply mget_mput_same.
      * apply rinv_put; auto.
    + destruct (N.eqb n 0) eqn:En; prj.
      * refine (conj eq_refl (conj eq_refl (conj eq_refl (conj eq_refl (conj _ (conj _ _)))))).
        -- intros. apply mget_mdel_other; auto.
        -- apply mget_mdel_same.
        -- apply rinv_del; auto.
      * refine (conj eq_refl (conj eq_refl (conj eq_refl (conj eq_refl (conj _ (conj _ _)))))).
        -- intros. rewrite mget_mput_other by auto. apply mget_mdel_other; auto.
        -- apply mget_mput_same.
        -- apply rinv_put; [apply rinv_del; auto|]. left. apply mget_mdel_same.
  - destruct (N.eqb n 0) eqn:En; prj.
    + refine (conj eq_refl (conj eq_refl (conj eq_refl (conj eq_refl (conj _ (conj _ _)))))); auto.
    + refine (conj eq_refl (conj eq_refl (conj eq_refl (conj eq_refl (conj _ (conj _ _)))))).
      * intros. apply mget_mput_other; auto.
      * apply mget_mput_same.
      * apply rinv_put; auto.
Qed.

Lemma length_zero_nil : forall {A} (l : list A), Nat.eqb (length l) 0 = true -> l = [].
Proof. intros A [|x l]; simpl; auto. discriminate. Qed.

Lemma on_block_updated_Binv : forall b blk c, Binv c -> Binv (on_block_updated true b blk c).
Proof.
  intros b blk c [B1 [Br E2]]. unfold on_block_updated.
  assert (Hnz : forall b n, mget b (c_nbb c) = Some n -> n <> 0) by (intros b0 n0 H; apply B1 in H; tauto).
  pose proof (update_affinity_spec b (b_aff blk) c Hnz Br) as Hua. cbv zeta in Hua.
  fold (host_of blk) in Hua.
  set (c1 := update_affinity true b (b_aff blk) c) in *.
  destruct Hua as [Ub [Ue [_ [_ [Uo [Us Ur]]]]]].
  set (c2 := fold_left (block_alloc_step b) (b_allocs blk) c1).
  assert (S2 : same_blk c1 c2) by (apply fold_sb; intros; apply block_alloc_step_sb).
  destruct S2 as [S2b [S2n [S2r [S2e _]]]].
  fold (host_of blk). set (n := host_of blk) in *.
  set (em := mdel b (c_empty c2)).
  (* the three alternatives for c3 only differ in emptyBlocks / tracker *)
  match goal with |- Binv (set_blockmaps ?c4 _ _ _ _ _) => set (c4v := c4) end.
  assert (S4 : exists em', same_blk
                 (set_blockmaps c2 (c_blocks c2) (c_nbb c2) (c_bbn c2) em' (c_tracker c2)) c4v
               /\ (em' = em \/ (em' = mput b n em /\ n <> 0 /\ b_allocs blk = []))).
  { unfold c4v.
    destruct (negb (N.eqb n 0) && Nat.eqb (length (b_allocs blk)) 0) eqn:Ec.
    - exists (mput b n em). split.
      + eapply same_blk_trans; [|apply fold_sb; intros; apply release_sb]. unfold same_blk; prj; auto.
      + right. apply andb_true_iff in Ec. destruct Ec as [Ec1 Ec2]. split; auto. split.
        * apply negb_true_iff in Ec1. apply N.eqb_neq in Ec1. auto.
        * apply length_zero_nil; auto.
    - exists em. split; [|auto]. destruct (negb (N.eqb n 0));
        (eapply same_blk_trans; [|apply fold_sb; intros; apply release_sb]); unfold same_blk; prj; auto. }
  destruct S4 as [em' [[S4b [S4n [S4r [S4e _]]]] Hem]]. prj.
  unfold Binv. prj. rewrite S4n, S4r, S4e, S2n, S2r.
  split; [|split].
  - intros b' n'. destruct (N.eq_dec b' b) as [->|Hne].
    + rewrite Us, mget_mput_same. destruct (N.eqb n 0) eqn:En.
      * apply N.eqb_eq in En. split; [discriminate|]. intros [Hn [blk' [E1 E3]]]. inversion E1; subst blk'.
        exfalso. apply Hn. rewrite <- E3. exact En.
      * apply N.eqb_neq in En. split.
        -- intros E. inversion E; subst n'. split; auto. exists blk. auto.
        -- intros [Hn [blk' [E1 E3]]]. inversion E1; subst blk'. rewrite <- E3. reflexivity.
    + rewrite Uo by auto. rewrite mget_mput_other by auto. rewrite S4b, S2b, Ub. apply B1.
  - exact Ur.
  - intros b' n' He. destruct (N.eq_dec b' b) as [->|Hne].
    + rewrite mget_mput_same. destruct Hem as [->|[-> [Hn Hal]]].
      * unfold em in He. rewrite mget_mdel_same in He. discriminate.
      * rewrite mget_mput_same in He. inversion He; subst. exists blk. auto.
    + rewrite mget_mput_other by auto. rewrite S4b, S2b, Ub. apply E2.
      destruct Hem as [->|[-> _]]; [|rewrite mget_mput_other in He by auto];
        unfold em in He; rewrite mget_mdel_other in He by auto; rewrite S2e, Ue in He; exact He.
Qed.

Lemma forget_block_Binv : forall b c, Binv c -> Binv (forget_block b c).
Proof.
  intros b c [B1 [Br E2]]. unfold forget_block.
  set (c1 := fold_left (fun c a => release_allocation a c) (allocs_of_block b c) c).
  assert (S1 : same_blk c c1) by (apply fold_sb; intros; apply release_sb).
  destruct S1 as [Sb [Sn [Sr [Se _]]]]. unfold Binv. prj. rewrite Sn, Sr, Sb, Se.
  split; [|split].
  - intros b' n'. destruct (N.eq_dec b' b) as [->|Hne].
    + rewrite !mget_mdel_same. split; [discriminate|]. intros [_ [blk [E _]]]. discriminate.
    + rewrite !mget_mdel_other by auto. apply B1.
  - destruct (mget b (c_nbb c)) as [n|] eqn:En.
    + assert (Hn : n <> 0) by (apply B1 in En; tauto). apply N.eqb_neq in Hn. rewrite Hn. apply rinv_del; auto.
    + apply rinv_del_none; auto.
  - intros b' n' He. destruct (N.eq_dec b' b) as [->|Hne].
    + rewrite mget_mdel_same in He. discriminate.
    + rewrite mget_mdel_other in He by auto. rewrite mget_mdel_other by auto. apply E2; auto.
Qed.
