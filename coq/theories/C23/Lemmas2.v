(* C23 - more list/map lemmas *)
From Coq Require Import List NArith Bool Lia.
From Verif.C23 Require Import Model Lemmas.
Import ListNotations.
Open Scope N_scope.

Lemma ri_add_In : forall k i p r, In p (ri_add k i r) <-> p = (k, i) \/ In p r.
Proof.
  intros. unfold ri_add. destruct (ri_mem k i r) eqn:E.
  - apply ri_mem_In in E. split; [auto|]. intros [->|H]; auto.
  - simpl. split; intros [H|H]; auto.
Qed.

Lemma ri_rem_In : forall k i p r, In p (ri_rem k i r) <-> In p r /\ p <> (k, i).
Proof.
  intros k i [k' i'] r. unfold ri_rem. rewrite filter_In. simpl. rewrite negb_true_iff, andb_false_iff, N.eqb_neq, id_eqb_neq.
  split; intros [H1 H2]; split; auto.
  - intros E; inversion E; subst. destruct H2; congruence.
  - destruct (N.eq_dec k k'); [right|left; auto]. intros E. subst. apply H2. reflexivity.
Qed.

Lemma nn_eqb_spec : forall k v k' v', (N.eqb k k' && N.eqb v v') = true <-> (k', v') = (k, v).
Proof.
  intros. rewrite andb_true_iff, !N.eqb_eq. split; [intros [-> ->]; auto | intros H; inversion H; auto].
Qed.

Lemma rn_mem_In : forall k v r, rn_mem k v r = true <-> In (k, v) r.
Proof.
  intros. unfold rn_mem. rewrite existsb_exists. split.
  - intros [[k' v'] [Hin E]]. simpl in E. apply nn_eqb_spec in E. inversion E; subst; auto.
  - intros H. exists (k, v). split; auto. simpl. rewrite !N.eqb_refl. reflexivity.
Qed.

Lemma rn_add_In : forall k v p r, In p (rn_add k v r) <-> p = (k, v) \/ In p r.
Proof.
  intros. unfold rn_add. destruct (rn_mem k v r) eqn:E.
  - apply rn_mem_In in E. split; [auto|]. intros [->|H]; auto.
  - simpl. split; intros [H|H]; auto.
Qed.

Lemma rn_rem_In : forall k v p r, In p (rn_rem k v r) <-> In p r /\ p <> (k, v).
Proof.
  intros k v [k' v'] r. unfold rn_rem. rewrite filter_In. simpl.
  destruct (N.eqb k k' && N.eqb v v') eqn:E; simpl.
  - apply nn_eqb_spec in E. intuition congruence.
  - split; intros [H1 H2]; split; auto. intros E'. inversion E'; subst. rewrite !N.eqb_refl in E. discriminate.
Qed.

Lemma rn_add_NoDup : forall k v r, NoDup r -> NoDup (rn_add k v r).
Proof.
  intros. unfold rn_add. destruct (rn_mem k v r) eqn:E; auto. constructor; auto.
  intros Hin. apply rn_mem_In in Hin. congruence.
Qed.

Lemma filter_NoDup : forall {A} (f : A -> bool) l, NoDup l -> NoDup (filter f l).
Proof.
  intros A f l H. induction H; simpl; [constructor|]. destruct (f x); auto. constructor; auto.
  intros Hin. apply filter_In in Hin. tauto.
Qed.

Lemma rn_rem_NoDup : forall k v r, NoDup r -> NoDup (rn_rem k v r).
Proof. intros. unfold rn_rem. apply filter_NoDup; auto. Qed.

(* association lists *)
Lemma mget_mput_same : forall {V} k (v : V) m, mget k (mput k v m) = Some v.
Proof. intros. unfold mget, mput. simpl. rewrite N.eqb_refl. reflexivity. Qed.

Lemma mget_mdel_same : forall {V} k (m : list (N * V)), mget k (mdel k m) = None.
Proof.
  intros. unfold mget, mdel. induction m as [|[k' v'] m IH]; simpl; auto.
  destruct (N.eqb k k') eqn:E; simpl; auto. rewrite E. exact IH.
Qed.

Lemma mget_mdel_other : forall {V} k k' (m : list (N * V)), k <> k' -> mget k (mdel k' m) = mget k m.
Proof.
  intros V k k' m H. unfold mget, mdel. induction m as [|[k2 v2] m IH]; simpl; auto.
  destruct (N.eqb k' k2) eqn:E; simpl.
  - apply N.eqb_eq in E. subst. destruct (N.eqb k k2) eqn:E2; [apply N.eqb_eq in E2; congruence|]. exact IH.
  - destruct (N.eqb k k2); auto.
Qed.

Lemma mget_mput_other : forall {V} k k' (v : V) m, k <> k' -> mget k (mput k' v m) = mget k m.
Proof.
  intros. unfold mput. unfold mget at 1. simpl.
  destruct (N.eqb k k') eqn:E; [apply N.eqb_eq in E; congruence|].
  fold (mget k (mdel k' m)). apply mget_mdel_other; auto.
Qed.

Lemma mget_In : forall {V} k (v : V) m, mget k m = Some v -> In (k, v) m.
Proof.
  intros V k v m H. unfold mget in H. destruct (find _ m) as [[k' v']|] eqn:E; [|discriminate].
  apply find_some in E. destruct E as [E1 E2]. simpl in *. apply N.eqb_eq in E2. inversion H; subst. auto.
Qed.

Lemma two_distinct_length : forall {A} (l : list A) x y, In x l -> In y l -> x <> y -> (2 <= length l)%nat.
Proof.
  intros A l x y Hx Hy Hne. destruct l as [|a [|b l]]; simpl in *; try lia; intuition (subst; congruence).
Qed.

Lemma length2_NoDup_two : forall {A} (l : list A), NoDup l -> (2 <= length l)%nat ->
  exists x y, In x l /\ In y l /\ x <> y.
Proof.
  intros A l Hnd Hlen. destruct l as [|a [|b l]]; simpl in *; try lia.
  exists a, b. repeat split; auto. inversion Hnd; subst. intros E. subst. apply H1. left; auto.
Qed.
