(* C23 - Calico nodes that are not Kubernetes nodes: as long as the Calico node exists (the lookup answers
   ErrorNotKubernetes) the collector neither cleans the node up nor releases one of its blocks; and its allocations
   are never newly confirmed (Grace2: Dead needs kexists = false). *)
From Coq Require Import List NArith Bool Lia.
From Verif.C23 Require Import Model Spec Lemmas Lemmas2 ProofsGC Inv Same Binv Witness Reach Grace Grace2.
Import ListNotations.
Open Scope N_scope.

Lemma check_node_release_dead : forall w grace c cn c', check_node w grace c cn = (c', true) -> kexists w c cn = false.
Proof.
  intros w grace c cn c' H. unfold check_node in H. unfold kexists. destruct (knode_for w c cn) as [kn|]; [|inversion H].
  unfold check_node_k in H.
  destruct (fold_left _ _ _) as [[c1 can] tun].
  destruct (negb (negb (N.eqb kn 0) && nmem kn (w_knodes w))) eqn:E.
  - apply negb_true_iff in E. exact E.
  - inversion H.
Qed.

Lemma kexists_cnodes : forall w c c' cn, c_cnodes c' = c_cnodes c -> kexists w c' cn = kexists w c cn.
Proof. intros. unfold kexists. rewrite (knode_for_cnodes w c c' cn H). reflexivity. Qed.

Lemma check_nodes_rha : forall w grace ns c0 ci rel,
  c_cnodes ci = c_cnodes c0 -> (forall n, In n rel -> kexists w c0 n = false) ->
  forall n, In n (snd (fold_left (fun (st : ctrl * list N) cn =>
                                    let '(c, rel) := st in let '(c', r) := check_node w grace c cn in
                                    (c', if r then rel ++ [cn] else rel)) ns (ci, rel))) -> kexists w c0 n = false.
Proof.
  intros w grace ns c0. induction ns as [|cn ns IH]; intros ci rel Hc Hrel n Hn; cbn [fold_left snd] in Hn; auto.
  pose proof (check_node_sb w grace ci cn) as S. pose proof (check_node_release_dead w grace ci cn) as Hd.
  destruct (check_node w grace ci cn) as [c' r]. cbn [fst] in S. destruct S as [_ [_ [_ [_ Sc]]]].
  eapply IH; [| |exact Hn]; [congruence|].
  intros m Hm. destruct r; auto. apply in_app_or in Hm. destruct Hm as [Hm|[Hm|[]]]; auto. subst m.
  rewrite <- (kexists_cnodes w c0 ci cn Hc). eapply Hd. reflexivity.
Qed.

(* ReleaseHostAffinities is only called for nodes that are not alive at this sync; in particular never for a Calico
   node that is not a Kubernetes node while it exists *)
Theorem sync_rha_dead : forall f w norder gorder border c n,
  In n (so_rha (snd (sync_ipam f w norder gorder border c))) -> kexists w c n = false.
Proof.
  intros f w norder gorder border c n H. unfold sync_ipam in H.
  pose proof (check_nodes_rha w (f_grace f) norder c (set_full c false) [] eq_refl (fun _ F => match F with end)) as K.
  unfold check_nodes in H.
  destruct (fold_left _ norder (set_full c false, [])) as [c1 rn] eqn:E1. cbn [snd] in K.
  destruct (gc_known_leaks _ _ _ _ _) as [c2 opts]. destruct (release_unused_blocks _ _ _ _) as [c3 rba].
  cbn [snd so_rha] in H. auto.
Qed.

Corollary sync_rha_not_nonk8s : forall f w norder gorder border c n,
  knode_for w c n = KErr -> ~ In n (so_rha (snd (sync_ipam f w norder gorder border c))).
Proof.
  intros f w norder gorder border c n Hk H. apply sync_rha_dead in H. unfold kexists in H. rewrite Hk in H. discriminate.
Qed.

(* releaseUnusedBlocks *)
Definition rba_node_ok (w : world) (c : ctrl) (b : N) : Prop :=
  exists blk, mget b (c_blocks c) = Some blk /\ knode_for w c (host_of blk) <> KErr.

Lemma mget_mdel_some : forall {V} k k' (m : list (N * V)) v, mget k (mdel k' m) = Some v -> mget k m = Some v.
Proof.
  intros V k k' m v H. destruct (N.eq_dec k k') as [->|Hne].
  - rewrite mget_mdel_same in H. discriminate.
  - rewrite mget_mdel_other in H; auto.
Qed.

Lemma rub_visit_nk : forall w grace c calls b,
  Binv c ->
  let r := rub_visit w grace (c, calls) b in
  c_cnodes (fst r) = c_cnodes c
  /\ (forall b' blk, mget b' (c_blocks (fst r)) = Some blk -> mget b' (c_blocks c) = Some blk)
  /\ (snd r = calls \/ (snd r = calls ++ [b] /\ rba_node_ok w c b)).
Proof.
  intros w grace c calls b HB. unfold rub_visit.
  destruct (mget b (c_empty c)) as [n|] eqn:He; [|cbn [fst snd]; auto].
  destruct (Nat.leb (rn_count n (c_bbn c)) 1); [cbn [fst snd]; auto|].
  destruct (knode_for w c n) as [kn|] eqn:Ek; [|cbn [fst snd]; auto].
  pose proof (mark_empty_sb (w_now w) grace b c) as Hs.
  destruct (mark_empty (w_now w) grace b c) as [c1 ok]. cbn [fst] in Hs. destruct Hs as [Sb [_ [_ [_ Sc]]]].
  destruct (negb ok); [cbn [fst snd]; rewrite Sb; auto|].
  destruct (mget b (c_blocks c1)) eqn:Eb; [|cbn [fst snd]; rewrite Sb; auto].
  cbn [fst snd]. split; [|split].
  - unfold forget_block. prj.
    assert (S : same_blk c1 (fold_left (fun c a => release_allocation a c) (allocs_of_block b c1) c1))
      by (apply fold_sb; intros; apply release_sb).
    destruct S as [_ [_ [_ [_ S]]]]. congruence.
  - intros b' blk. rewrite forget_block_blocks, Sb. apply mget_mdel_some.
  - right. split; auto. destruct HB as [_ [_ E2]]. destruct (E2 _ _ He) as [blk [Hb [Hh _]]].
    exists blk. split; auto. rewrite Hh, Ek. discriminate.
Qed.

Lemma rub_fold_nk : forall w grace order c calls,
  Binv c ->
  exists extra, snd (fold_left (rub_visit w grace) order (c, calls)) = calls ++ extra
                /\ Forall (rba_node_ok w c) extra.
Proof.
  intros w grace order. induction order as [|b order IH]; intros c calls HB.
  - exists []. rewrite app_nil_r. auto.
  - pose proof (rub_visit_nk w grace c calls b HB) as Hv. pose proof (rub_visit_spec w grace c calls b HB) as Hs.
    cbv zeta in Hv, Hs. cbn [fold_left].
    destruct (rub_visit w grace (c, calls) b) as [c1 calls1]. cbn [fst snd] in Hv, Hs.
    destruct Hv as [Hc [Hsub Hv]]. destruct Hs as [HB1 _].
    destruct (IH c1 calls1 HB1) as [extra [E Hok]].
    assert (Hmono : Forall (rba_node_ok w c) extra).
    { eapply Forall_impl; [|exact Hok]. intros b' [blk [Hb Hk]]. exists blk. split; auto.
      rewrite <- (knode_for_cnodes w c c1 _ Hc). exact Hk. }
    destruct Hv as [->|[-> Hn]].
    + exists extra. auto.
    + exists (b :: extra). split; [rewrite E, <- app_assoc; reflexivity|]. constructor; auto.
Qed.

(* every block whose affinity a sync releases is affine to a node whose lookup does not answer "not a Kubernetes
   node": the blocks of a live non-Kubernetes Calico node are never released *)
Theorem sync_rba_not_nonk8s : forall f w c norder gorder border,
  is_repaired f -> reach f w c ->
  Forall (rba_node_ok w c) (so_rba (snd (sync_ipam f w norder gorder border c))).
Proof.
  intros f w c norder gorder border Hf Hr. destruct (reach_inv f w c Hf Hr) as [Hi Hb]. destruct Hf as [_ Hfg].
  destruct (sync_parts f w norder gorder border c Hfg) as [_ [E _]]. rewrite E.
  destruct (after_check_inv f w norder c Hi Hb) as [Hi1 [Hb1 Hbl]].
  set (c1 := after_check f w norder c) in *.
  pose proof (gc_fixed_sb w (f_batch f) (gorder c1) (gorder c1) c1) as S.
  pose proof (Binv_same _ _ S Hb1) as Hb2.
  set (c2 := fst (gc_fixed w (f_batch f) (gorder c1) (gorder c1) c1)) in *.
  destruct (rub_fold_nk w (f_grace f) (border c2) c2 [] Hb2) as [extra [Ee Hok]].
  unfold release_unused_blocks. rewrite Ee. cbn [app].
  assert (Sc : same_blk c c2).
  { eapply same_blk_trans; [|exact S]. unfold c1, after_check.
    eapply same_blk_trans; [apply set_full_sb|apply check_nodes_sb]. }
  destruct Sc as [Sb [_ [_ [_ Scn]]]].
  eapply Forall_impl; [|exact Hok]. intros b [blk [Hb' Hk]]. exists blk. split; [congruence|].
  rewrite <- (knode_for_cnodes w c c2 _ Scn). exact Hk.
Qed.

(* ---------- the oracle's notion of "alive" is the controller's lookup ---------- *)
Lemma node_alive_kexists : forall s w c n,
  s_w s = w -> s_cnodes s = c_cnodes c -> ~ In 0 (w_knodes w) -> node_alive s n = kexists w c n.
Proof.
  intros s w c n Hw Hc H0.
  assert (Z : nmem 0 (w_knodes w) = false)
    by (destruct (nmem 0 (w_knodes w)) eqn:E; auto; apply nmem_In in E; contradiction). unfold node_alive, node_nonk8s, node_known, cached_k8s, kexists, knode_for. rewrite Hw, Hc.
  destruct (mget n (c_cnodes c)) as [[|]|]; destruct (mget n (w_cnodesA w)) as [[|]|]; simpl;
    rewrite ?N.eqb_refl, ?andb_true_r, ?andb_false_r, ?orb_false_r; try reflexivity;
    destruct (N.eqb n 0) eqn:E; simpl; try reflexivity; try (apply N.eqb_eq in E; subst; reflexivity).
  all: apply N.eqb_eq in E; subst; exact Z.
Qed.

(* the oracle clause for ReleaseHostAffinities accepts every model sync, whenever the oracle's replay of the world and
   of the syncer's node cache coincides with the controller's (it does by construction: both fold the same events) *)
Theorem sync_meets_ok_rha : forall f w norder gorder border c s,
  s_w s = w -> s_cnodes s = c_cnodes c -> ~ In 0 (w_knodes w) ->
  ok_rha s (so_rha (snd (sync_ipam f w norder gorder border c))) = true.
Proof.
  intros f w norder gorder border c s Hw Hc H0. unfold ok_rha. apply forallb_forall. intros n Hn.
  rewrite (node_alive_kexists s w c n Hw Hc H0). rewrite (sync_rha_dead f w norder gorder border c n Hn). reflexivity.
Qed.
