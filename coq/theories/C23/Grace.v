(* C23 - the grace chain over histories: how the candidate clock and the confirmed flag of an allocation can evolve
   through events and through one GC sync. *)
From Coq Require Import List NArith Bool Lia.
From Verif.C23 Require Import Model Spec Lemmas Lemmas2 ProofsGC Inv Same Binv Witness Reach.
Import ListNotations.
Open Scope N_scope.

(* ---------- events: an allocation is either untouched or fresh (no clock, not confirmed) ---------- *)

Definition fresh (a : alloc) : Prop := a_leaked a = None /\ a_conf a = false.

Definition sofL (l l' : list alloc) : Prop := forall a', In a' l' -> fresh a' \/ In a' l.
Definition sof (c c' : ctrl) : Prop := sofL (c_allocs c) (c_allocs c').

Lemma sofL_refl : forall l, sofL l l.
Proof. intros l a H; auto. Qed.
Lemma sofL_trans : forall l1 l2 l3, sofL l1 l2 -> sofL l2 l3 -> sofL l1 l3.
Proof. intros l1 l2 l3 H1 H2 a Ha. destruct (H2 a Ha) as [F|H]; auto. Qed.
Lemma sofL_adel : forall i l, sofL l (adel i l).
Proof. intros i l a Ha. apply adel_In in Ha. tauto. Qed.
Lemma sofL_aput : forall x l, fresh x -> sofL l (aput x l).
Proof. intros x l F a Ha. apply aput_In in Ha. destruct Ha as [->|[Ha _]]; auto. Qed.

Lemma sof_refl : forall c, sof c c.
Proof. intros; apply sofL_refl. Qed.
Lemma sof_trans : forall a b c, sof a b -> sof b c -> sof a c.
Proof. unfold sof; intros; eapply sofL_trans; eauto. Qed.
Lemma sof_same : forall c c', c_allocs c' = c_allocs c -> sof c c'.
Proof. intros c c' H. unfold sof. rewrite H. apply sofL_refl. Qed.

Lemma release_allocs : forall a c, c_allocs (release_allocation a c) = adel (a_id a) (c_allocs c).
Proof.
  intros. unfold release_allocation, mark_dirty.
  repeat match goal with |- context [if ?x then _ else _] => destruct x end; reflexivity.
Qed.

Lemma release_sof : forall a c, sof c (release_allocation a c).
Proof. intros. unfold sof. rewrite release_allocs. apply sofL_adel. Qed.

Lemma fold_sof : forall {B} (f : ctrl -> B -> ctrl) l c, (forall c b, sof c (f c b)) -> sof c (fold_left f l c).
Proof.
  intros B f l. induction l; intros c H; simpl; [apply sof_refl|].
  eapply sof_trans; [apply H|]. apply IHl; auto.
Qed.

Lemma assign_allocs : forall a c, c_allocs (assign_allocation a c) = aput a (c_allocs c).
Proof. intros. unfold assign_allocation, mark_dirty. destruct (N.eqb _ 0); reflexivity. Qed.

Lemma block_alloc_step_sof : forall b c ba, sof c (block_alloc_step b c ba).
Proof.
  intros. unfold block_alloc_step. destruct (ba_handle ba); [|apply sof_refl].
  destruct (aget _ _); [destruct (N.eqb _ _); [apply sof_refl|]|].
  - unfold sof. prj. apply sofL_aput. split; reflexivity.
  - unfold sof. rewrite assign_allocs. apply sofL_aput. split; reflexivity.
Qed.

Lemma on_block_updated_sof : forall fx b blk c, sof c (on_block_updated fx b blk c).
Proof.
  intros. unfold on_block_updated.
  set (c1 := update_affinity fx b (b_aff blk) c).
  set (c2 := fold_left (block_alloc_step b) (b_allocs blk) c1).
  assert (S1 : sof c c1) by (apply sof_same; apply (proj1 (update_affinity_same fx b (b_aff blk) c))).
  assert (S2 : sof c1 c2) by (apply (fold_sof (block_alloc_step b)); intros; apply block_alloc_step_sof).
  match goal with |- sof c (set_blockmaps (fold_left ?f ?l ?c3) _ _ _ _ _) =>
    set (c3v := c3); assert (S3 : sof c2 c3v); [|assert (S4 : sof c3v (fold_left f l c3v))] end.
  - apply sof_same. unfold c3v.
    repeat match goal with |- context [if ?x then _ else _] => destruct x end; reflexivity.
  - apply (fold_sof (fun c a => release_allocation a c)). intros; apply release_sof.
  - eapply sof_trans; [exact S1|]. eapply sof_trans; [exact S2|]. eapply sof_trans; [exact S3|].
    eapply sof_trans; [exact S4|]. apply sof_same. reflexivity.
Qed.

Lemma forget_block_sof : forall b c, sof c (forget_block b c).
Proof.
  intros. unfold forget_block. eapply sof_trans; [apply (fold_sof (fun c a => release_allocation a c)); intros; apply release_sof|]. apply sof_same. reflexivity.
Qed.

Lemma apply_event_sof : forall fx e w c, sof c (snd (apply_event fx e (w, c))).
Proof.
  intros fx e w c. unfold apply_event.
  destruct e as [api p v|n pr|n pr|n pr|b v|n| |d]; cbv beta iota.
  - destruct api, v; cbn [fst snd]; apply sof_refl.
  - destruct pr; cbn [fst snd]; apply sof_refl.
  - destruct pr; cbn [fst snd]; apply sof_refl.
  - destruct pr; cbn [fst snd]; apply sof_same; reflexivity.
  - destruct v; cbn [fst snd]; [apply on_block_updated_sof | apply forget_block_sof].
  - cbn [fst snd]. apply sof_same. unfold mark_dirty. destruct (N.eqb n 0); reflexivity.
  - cbn [fst snd]. apply sof_same. reflexivity.
  - cbn [fst snd]. apply sof_refl.
Qed.

Lemma run_events_sof : forall fx evs w c, sof c (snd (run_events fx evs (w, c))).
Proof.
  intros fx evs. unfold run_events. induction evs as [|e evs IH]; intros w c; cbn [fold_left]; [apply sof_refl|].
  pose proof (apply_event_sof fx e w c) as H. destruct (apply_event fx e (w, c)) as [w1 c1]. simpl in H.
  eapply sof_trans; [exact H|apply IH].
Qed.

(* ---------- one sync ---------- *)

(* is the node a checkAllocations / releaseUnusedBlocks lookup resolves [cn] to alive?  A Calico node that is not a
   Kubernetes node (lookup error) is alive as long as it exists. *)
Definition kexists (w : world) (c : ctrl) (cn : N) : bool :=
  match knode_for w c cn with
  | KErr => true
  | KNode kn => negb (N.eqb kn 0) && nmem kn (w_knodes w)
  end.

(* the allocation is listed under a node that is not alive (Calico node unknown or Kubernetes node gone) *)
Definition Dead (w : world) (c : ctrl) (i : id) : Prop :=
  exists cn, In (cn, i) (c_bynode c) /\ kexists w c cn = false.

Section Flags.
Variables (grace : option N) (now : N) (dead : id -> Prop).

Definition elapsed (a : alloc) : Prop :=
  exists g t, grace = Some g /\ a_leaked a = Some t /\ g < now - t /\ 0 < g.

Definition P (a a' : alloc) : Prop :=
  (a_leaked a' = None \/ a_leaked a' = a_leaked a \/ a_leaked a' = Some now)
  /\ (a_conf a' = true -> a_conf a = true \/ dead (a_id a') \/ elapsed a).

Lemma P_refl : forall a, P a a.
Proof. intros a. split; auto. Qed.

Lemma P_trans : forall a a1 a2, a_id a1 = a_id a2 -> P a a1 -> P a1 a2 -> P a a2.
Proof.
  intros a a1 a2 Hid [L1 C1] [L2 C2]. split.
  - destruct L2 as [L2|[L2|L2]]; auto. rewrite L2. exact L1.
  - intros Hc. destruct (C2 Hc) as [H|[H|H]]; auto.
    + destruct (C1 H) as [H'|[H'|H']]; auto. rewrite Hid in H'. auto.
    + destruct H as [g [t [Hg [Hl [Hlt Hpos]]]]].
      destruct L1 as [L1|[L1|L1]].
      * congruence.
      * right; right. exists g, t. rewrite <- L1. auto.
      * rewrite Hl in L1. inversion L1; subst t. rewrite N.sub_diag in Hlt. lia.
Qed.

Definition srelL (l l' : list alloc) : Prop :=
  forall a', In a' l' -> exists a, In a l /\ a_id a = a_id a' /\ a_seq a = a_seq a' /\ P a a'.
Definition srel (c c' : ctrl) : Prop := srelL (c_allocs c) (c_allocs c').

Lemma srelL_refl : forall l, srelL l l.
Proof. intros l a H. exists a. split; [auto|]. split; [auto|]. split; [auto|]. apply P_refl. Qed.
Lemma srelL_trans : forall l1 l2 l3, srelL l1 l2 -> srelL l2 l3 -> srelL l1 l3.
Proof.
  intros l1 l2 l3 H1 H2 a3 H3. destruct (H2 a3 H3) as [a2 [I2 [E2 [S2 P2]]]].
  destruct (H1 a2 I2) as [a1 [I1 [E1 [S1 P1]]]]. exists a1.
  split; [exact I1|]. split; [congruence|]. split; [congruence|]. eapply P_trans; eauto.
Qed.
Lemma srelL_adel : forall i l, srelL l (adel i l).
Proof. intros i l a Ha. apply adel_In in Ha. exists a. destruct Ha. split; [auto|]. split; [auto|]. split; [auto|]. apply P_refl. Qed.
Lemma srelL_aput : forall x ai l, In ai l -> a_id x = a_id ai -> a_seq x = a_seq ai -> P ai x -> srelL l (aput x l).
Proof.
  intros x ai l Hi Hid Hs HP a Ha. apply aput_In in Ha. destruct Ha as [->|[Ha _]].
  - exists ai. split; [auto|]. split; [auto|]. split; [auto|]. exact HP.
  - exists a. split; [auto|]. split; [auto|]. split; [auto|]. apply P_refl.
Qed.

Lemma srel_refl : forall c, srel c c.
Proof. intros; apply srelL_refl. Qed.
Lemma srel_trans : forall a b c, srel a b -> srel b c -> srel a c.
Proof. unfold srel; intros; eapply srelL_trans; eauto. Qed.
Lemma srel_same : forall c c', c_allocs c' = c_allocs c -> srel c c'.
Proof. intros c c' H. unfold srel. rewrite H. apply srelL_refl. Qed.

Lemma srel_upd : forall c i ai x, aget i (c_allocs c) = Some ai -> a_id x = i -> a_seq x = a_seq ai -> P ai x ->
  srel c (upd_alloc x c).
Proof.
  intros c i ai x Ha Hid Hs HP. unfold srel. prj. destruct (aget_In _ _ _ Ha) as [Hin Hi].
  eapply srelL_aput; eauto. congruence.
Qed.

Lemma release_srel : forall a c, srel c (release_allocation a c).
Proof. intros. unfold srel. rewrite release_allocs. apply srelL_adel. Qed.

Lemma fold_srel : forall {B} (f : ctrl -> B -> ctrl) l c, (forall c b, srel c (f c b)) -> srel c (fold_left f l c).
Proof.
  intros B f l. induction l; intros c H; simpl; [apply srel_refl|].
  eapply srel_trans; [apply H|]. apply IHl; auto.
Qed.

Lemma index_conf_allocs : forall a c, c_allocs (index_conf a c) = c_allocs c.
Proof. intros. unfold index_conf. destruct (a_conf a); reflexivity. Qed.

(* checkAllocations, one allocation of a node whose liveness is kex *)
Lemma check_alloc_srel : forall w kn kex st i,
  w_now w = now -> (kex = false -> dead i) ->
  srel (fst (fst st)) (fst (fst (check_alloc w grace kn kex st i))).
Proof.
  intros w kn kex [[c can] tun] i Hnow Hdead. cbn [fst]. unfold check_alloc.
  destruct (aget i (c_allocs c)) as [a0|] eqn:Ha; [|cbn [fst]; apply srel_refl].
  destruct (aget_In _ _ _ Ha) as [Hin Hid].
  set (a := with_flags a0 kn (a_leaked a0) (a_conf a0)).
  assert (Hida : a_id a = i) by (unfold a, with_flags; simpl; auto).
  assert (S1 : srel c (upd_alloc a c)).
  { eapply srel_upd; eauto. split; simpl; auto. }
  pose proof (aget_upd_same c i a Hida) as Ha1.
  assert (Pa : forall x, P a x -> P a0 x).
  { intros x [L C]. split; auto. }
  destruct (is_windows a); [cbn [fst]; auto|].
  destruct (negb (is_pod_ip a) && negb (is_tunnel a)); [cbn [fst]; auto|].
  destruct (is_tunnel a); [cbn [fst]; auto|].
  destruct (allocation_is_valid w a true).
  - cbn [fst]. eapply srel_trans; [exact S1|]. eapply srel_upd; eauto. split; simpl; auto. discriminate.
  - cbn [fst]. eapply srel_trans; [exact S1|].
    match goal with |- srel _ (index_conf ?x _) => set (a' := x) end.
    eapply srel_trans; [|apply srel_same; apply index_conf_allocs].
    assert (Hid' : a_id a' = i) by (unfold a'; destruct (negb kex); [exact Hida|]; destruct grace; exact Hida).
    assert (Hs' : a_seq a' = a_seq a) by (unfold a'; destruct (negb kex); [reflexivity|]; destruct grace; reflexivity).
    eapply srel_upd; eauto.
    unfold a'. destruct kex; cbn [negb].
    + destruct grace as [g|] eqn:Eg; [|apply P_refl].
      unfold mark_leak, with_flags, P; simpl. rewrite Hnow. split.
      * destruct (a_leaked a0); auto.
      * intros Hc. apply orb_true_iff in Hc. destruct Hc as [Hc|Hc]; auto.
        apply andb_true_iff in Hc. destruct Hc as [H1 H2]. apply N.ltb_lt in H1. apply N.ltb_lt in H2.
        destruct (a_leaked a0) as [t|] eqn:El.
        -- right; right. exists g, t. simpl. auto.
        -- rewrite N.sub_diag in H1. lia.
    + unfold mark_confirmed, with_flags, P; simpl. split; auto. intros _. right; left. rewrite Hid. apply Hdead. reflexivity.
Qed.

Lemma confirm_tunnel_srel : forall c i, dead i -> srel c (confirm_tunnel c i).
Proof.
  intros c i Hd. unfold confirm_tunnel. destruct (aget i (c_allocs c)) as [a|] eqn:Ha; [|apply srel_refl].
  destruct (aget_In _ _ _ Ha) as [_ Hid].
  eapply srel_trans; [|apply srel_same; reflexivity].
  eapply srel_upd; eauto. split; simpl; auto. intros _. right; left. rewrite Hid. exact Hd.
Qed.

End Flags.
