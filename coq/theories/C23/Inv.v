(* C23 - the index invariant (unique ids, complete handle index, every confirmed allocation in confirmedLeaks)
   is kept by every operation of the controller, whatever the arguments. *)
From Coq Require Import List NArith Bool Lia.
From Verif.C23 Require Import Model Lemmas Lemmas2 ProofsGC.
Import ListNotations.
Open Scope N_scope.

Ltac prj := cbn [c_allocs c_byhandle c_conf c_bynode c_dirty c_blocks c_nbb c_bbn c_empty c_tracker c_full c_cnodes
                 set_idx set_conf set_dirty set_allocs upd_alloc set_blockmaps set_tracker set_full set_cnodes] in *.

Definition idx3 (al : list alloc) (bh : list (N * id)) (cf : list id) : Prop :=
  (forall a, In a al -> aget (a_id a) al = Some a)
  /\ (forall a, In a al -> In (a_handle a, a_id a) bh)
  /\ (forall a, In a al -> a_conf a = true -> In (a_id a) cf).

Lemma idx_inv_idx3 : forall c, idx_inv c <-> idx3 (c_allocs c) (c_byhandle c) (c_conf c).
Proof. intros. unfold idx_inv, idx3. tauto. Qed.

Definition same_idx (c c' : ctrl) : Prop :=
  c_allocs c' = c_allocs c /\ c_byhandle c' = c_byhandle c /\ c_conf c' = c_conf c.

Lemma idx_inv_same : forall c c', same_idx c c' -> idx_inv c -> idx_inv c'.
Proof. intros c c' [H1 [H2 H3]] H. apply idx_inv_idx3. rewrite H1, H2, H3. apply idx_inv_idx3. exact H. Qed.

Lemma same_idx_refl : forall c, same_idx c c.
Proof. unfold same_idx; auto. Qed.

Lemma mark_dirty_same : forall n c, same_idx c (mark_dirty n c).
Proof. intros. unfold mark_dirty. destruct (N.eqb n 0); unfold same_idx; auto. Qed.
Lemma mark_clean_same : forall n c, same_idx c (mark_clean n c).
Proof. intros. unfold mark_clean, same_idx; auto. Qed.

Lemma idx3_replace : forall al bh cf cf' i a0 a',
  idx3 al bh cf -> aget i al = Some a0 -> a_id a' = i ->
  (a_conf a' = true -> In i cf') -> (forall j, j <> i -> In j cf -> In j cf') ->
  idx3 (aput a' al) bh cf'.
Proof.
  intros al bh cf cf' i a0 a' [U [H C]] Ha Hid Hc Hs. destruct (aget_In _ _ _ Ha) as [Hin0 Hid0].
  split; [|split].
  - intros b Hb. apply aput_In in Hb. destruct Hb as [-> | [Hb Hne]].
    + apply aget_aput_same.
    + rewrite aget_aput_other by auto. auto.
  - intros b Hb. apply aput_In in Hb. destruct Hb as [-> | [Hb Hne]]; auto.
    unfold a_handle. rewrite Hid, <- Hid0. apply (H a0 Hin0).
  - intros b Hb Hcf. apply aput_In in Hb. destruct Hb as [-> | [Hb Hne]].
    + rewrite Hid. auto.
    + apply Hs; [congruence|]. auto.
Qed.

Lemma idx3_assign : forall al bh cf a,
  idx3 al bh cf -> a_conf a = false -> idx3 (aput a al) (ri_add (a_handle a) (a_id a) bh) cf.
Proof.
  intros al bh cf a [U [H C]] Hc. split; [|split].
  - intros b Hb. apply aput_In in Hb. destruct Hb as [-> | [Hb Hne]].
    + apply aget_aput_same.
    + rewrite aget_aput_other by auto. auto.
  - intros b Hb. apply ri_add_In. apply aput_In in Hb. destruct Hb as [-> | [Hb Hne]]; auto.
  - intros b Hb Hcf. apply aput_In in Hb. destruct Hb as [-> | [Hb Hne]]; [congruence|auto].
Qed.

Lemma idx3_release : forall al bh cf h i,
  idx3 al bh cf -> idx3 (adel i al) (ri_rem h i bh) (irem i cf).
Proof.
  intros al bh cf h i [U [H C]]. split; [|split].
  - intros b Hb. apply adel_In in Hb. destruct Hb as [Hb Hne]. rewrite aget_adel_other by auto. auto.
  - intros b Hb. apply adel_In in Hb. destruct Hb as [Hb Hne]. apply ri_rem_In. split; auto.
    intros E. inversion E. contradiction.
  - intros b Hb Hcf. apply adel_In in Hb. destruct Hb as [Hb Hne]. apply irem_In. split; auto.
Qed.

Lemma assign_idx : forall a c, a_conf a = false -> idx_inv c -> idx_inv (assign_allocation a c).
Proof.
  intros a c Hc H. unfold assign_allocation. eapply idx_inv_same; [apply mark_dirty_same|].
  apply idx_inv_idx3. prj. apply idx3_assign; auto; apply idx_inv_idx3; auto.
Qed.

Lemma release_idx : forall a c, idx_inv c -> idx_inv (release_allocation a c).
Proof.
  intros a c H. unfold release_allocation.
  match goal with |- idx_inv (if ?b then _ else _) => destruct b end.
  - eapply idx_inv_same; [apply mark_dirty_same|]. apply idx_inv_idx3. prj. apply idx3_release. apply idx_inv_idx3; auto.
  - apply idx_inv_idx3. prj. apply idx3_release. apply idx_inv_idx3; auto.
Qed.

Lemma fold_release_idx : forall l c, idx_inv c -> idx_inv (fold_left (fun c a => release_allocation a c) l c).
Proof. intros l. induction l; simpl; auto using release_idx. Qed.

(* replace an allocation by one with the same id, adjusting confirmedLeaks *)
Lemma replace_idx : forall c i a0 a' cf',
  idx_inv c -> aget i (c_allocs c) = Some a0 -> a_id a' = i ->
  (a_conf a' = true -> In i cf') -> (forall j, j <> i -> In j (c_conf c) -> In j cf') ->
  idx_inv (set_conf (upd_alloc a' c) cf').
Proof.
  intros. apply idx_inv_idx3. prj. eapply idx3_replace; eauto; apply idx_inv_idx3; auto.
Qed.

Lemma upd_idx : forall c i a0 a',
  idx_inv c -> aget i (c_allocs c) = Some a0 -> a_id a' = i -> (a_conf a' = true -> In i (c_conf c)) ->
  idx_inv (upd_alloc a' c).
Proof.
  intros. apply idx_inv_idx3. prj. eapply idx3_replace; eauto; apply idx_inv_idx3; auto.
Qed.

Lemma block_alloc_step_idx : forall b c ba, idx_inv c -> idx_inv (block_alloc_step b c ba).
Proof.
  intros b c ba H. unfold block_alloc_step. destruct (ba_handle ba) as [h|]; auto.
  destruct (aget (a_id (new_alloc b h ba)) (c_allocs c)) as [ex|] eqn:E.
  - destruct (N.eqb (a_seq ex) (a_seq (new_alloc b h ba))); auto.
    apply idx_inv_idx3. prj. eapply idx3_replace; [apply idx_inv_idx3; eauto | exact E | | | auto].
    + simpl. apply aget_In in E. tauto.
    + simpl. discriminate.
  - apply assign_idx; auto.
Qed.

Lemma same_idx_blockmaps : forall c bl nbb bbn em tr, same_idx c (set_blockmaps c bl nbb bbn em tr).
Proof. intros. unfold same_idx; auto. Qed.

Lemma update_affinity_same : forall fx b af c, same_idx c (update_affinity fx b af c).
Proof.
  intros. unfold same_idx, update_affinity. cbv zeta.
  repeat match goal with
         | |- context [if ?x then _ else _] => destruct x
         | |- context [match ?x with _ => _ end] => destruct x
         end; auto.
Qed.

Lemma on_block_updated_idx : forall fx b blk c, idx_inv c -> idx_inv (on_block_updated fx b blk c).
Proof.
  intros fx b blk c H. unfold on_block_updated.
  eapply idx_inv_same; [apply same_idx_blockmaps|].
  apply fold_release_idx.
  assert (H2 : idx_inv (fold_left (block_alloc_step b) (b_allocs blk) (update_affinity fx b (b_aff blk) c))).
  { apply fold_left_inv; [|intros; apply block_alloc_step_idx; auto].
    eapply idx_inv_same; [apply update_affinity_same|auto]. }
  repeat match goal with |- idx_inv (if ?x then _ else _) => destruct x end;
    (eapply idx_inv_same; [apply same_idx_blockmaps|exact H2]).
Qed.

Lemma forget_block_idx : forall b c, idx_inv c -> idx_inv (forget_block b c).
Proof.
  intros b c H. unfold forget_block. eapply idx_inv_same; [apply same_idx_blockmaps|]. apply fold_release_idx. auto.
Qed.

(* checkAllocations *)
Lemma index_conf_idx : forall c i a0 a',
  idx_inv c -> aget i (c_allocs c) = Some a0 -> a_id a' = i -> idx_inv (index_conf a' (upd_alloc a' c)).
Proof.
  intros c i a0 a' H Ha Hid. unfold index_conf. destruct (a_conf a') eqn:E.
  - change (set_conf (upd_alloc a' c) (iadd (a_id a') (c_conf (upd_alloc a' c)))) with
           (set_conf (upd_alloc a' c) (iadd (a_id a') (c_conf c))).
    eapply replace_idx; eauto.
    + intros _. apply iadd_In. left. congruence.
    + intros j _ Hj. apply iadd_In. auto.
  - change (set_conf (upd_alloc a' c) (irem (a_id a') (c_conf (upd_alloc a' c)))) with
           (set_conf (upd_alloc a' c) (irem (a_id a') (c_conf c))).
    eapply replace_idx; eauto.
    + congruence.
    + intros j Hne Hj. apply irem_In. split; auto. congruence.
Qed.

Lemma aget_upd_same : forall c i a', a_id a' = i -> aget i (c_allocs (upd_alloc a' c)) = Some a'.
Proof. intros. prj. subst. apply aget_aput_same. Qed.

Lemma check_alloc_idx : forall w grace kn kex st i,
  idx_inv (fst (fst st)) -> idx_inv (fst (fst (check_alloc w grace kn kex st i))).
Proof.
  intros w grace kn kex [[c can] tun] i H. simpl in H. unfold check_alloc.
  destruct (aget i (c_allocs c)) as [a0|] eqn:Ha; [|simpl; auto].
  destruct (aget_In _ _ _ Ha) as [Hin Hid].
  set (a := with_flags a0 kn (a_leaked a0) (a_conf a0)).
  assert (Hida : a_id a = i) by (unfold a, with_flags; simpl; auto).
  assert (H1 : idx_inv (upd_alloc a c)).
  { eapply upd_idx; eauto. unfold a, with_flags; simpl. intros Hc. rewrite <- Hid.
    destruct H as [_ [_ C]]. apply C; auto. }
  pose proof (aget_upd_same c i a Hida) as Ha1.
  destruct (is_windows a); [simpl; auto|].
  destruct (negb (is_pod_ip a) && negb (is_tunnel a)); [simpl; auto|].
  destruct (is_tunnel a); [simpl; auto|].
  destruct (allocation_is_valid w a true).
  - simpl. eapply upd_idx; eauto. simpl. discriminate.
  - simpl. apply (index_conf_idx (upd_alloc a c) i a _ H1 Ha1).
    destruct (negb kex); [exact Hida|]. destruct grace; exact Hida.
Qed.

Lemma confirm_tunnel_idx : forall c i, idx_inv c -> idx_inv (confirm_tunnel c i).
Proof.
  intros c i H. unfold confirm_tunnel. destruct (aget i (c_allocs c)) as [a|] eqn:Ha; auto.
  destruct (aget_In _ _ _ Ha) as [_ Hid].
  change (c_conf (upd_alloc (mark_confirmed a) c)) with (c_conf c).
  eapply replace_idx; eauto.
  - intros _. apply iadd_In. auto.
  - intros j _ Hj. apply iadd_In. auto.
Qed.

Lemma check_node_k_idx : forall w grace c cn kn, idx_inv c -> idx_inv (fst (check_node_k w grace c cn kn)).
Proof.
  intros w grace c cn kn H. unfold check_node_k.
  set (kex := negb (N.eqb kn 0) && nmem kn (w_knodes w)).
  assert (H1 : idx_inv (fst (fst (fold_left (check_alloc w grace kn kex) (ri_ids cn (c_bynode c)) (c, true, []))))).
  { apply (fold_left_inv (check_alloc w grace kn kex) (fun st => idx_inv (fst (fst st)))); auto.
    intros; apply check_alloc_idx; auto. }
  destruct (fold_left (check_alloc w grace kn kex) (ri_ids cn (c_bynode c)) (c, true, [])) as [[c1 can] tun].
  simpl in H1. destruct (negb kex); [destruct (negb can)|]; simpl.
  - eapply idx_inv_same; [apply mark_clean_same|auto].
  - apply fold_left_inv; auto. intros; apply confirm_tunnel_idx; auto.
  - eapply idx_inv_same; [apply mark_clean_same|auto].
Qed.

Lemma check_node_idx : forall w grace c cn, idx_inv c -> idx_inv (fst (check_node w grace c cn)).
Proof.
  intros w grace c cn H. unfold check_node. destruct (knode_for w c cn).
  - apply check_node_k_idx; auto.
  - cbn [fst]. eapply idx_inv_same; [apply mark_clean_same|auto].
Qed.

Lemma check_nodes_idx : forall w grace ns c, idx_inv c -> idx_inv (fst (check_nodes w grace ns c)).
Proof.
  intros w grace ns c H. unfold check_nodes.
  apply (fold_left_inv _ (fun st : ctrl * list N => idx_inv (fst st))); auto.
  intros [c0 rel] cn H0. simpl in *. pose proof (check_node_idx w grace c0 cn H0) as H1.
  destruct (check_node w grace c0 cn). simpl in *. auto.
Qed.

Lemma release_opt_idx : forall c o, idx_inv c -> idx_inv (release_opt c o).
Proof. intros. unfold release_opt. destruct (aget _ _); auto using release_idx. Qed.

Lemma gc_fixed_idx : forall w batch o1 o2 c, idx_inv c -> idx_inv (fst (gc_fixed w batch o1 o2 c)).
Proof.
  intros w batch o1 o2 c H. unfold gc_fixed. simpl.
  apply fold_left_inv; [|intros; apply release_opt_idx; auto].
  pose proof (reval_fold w c o1 c [] (reval_start w c H)) as [_ [_ [H1 _]]]. exact H1.
Qed.

Lemma mark_empty_same : forall now grace b c, same_idx c (fst (mark_empty now grace b c)).
Proof.
  intros. unfold mark_empty. destruct grace as [g|]; [|apply same_idx_refl].
  destruct (N.ltb 0 g); [|apply same_idx_refl]. destruct (mget b (c_tracker c)); simpl; unfold same_idx; auto.
Qed.

Lemma rub_visit_idx : forall w grace st b, idx_inv (fst st) -> idx_inv (fst (rub_visit w grace st b)).
Proof.
  intros w grace [c calls] b H. simpl in H. unfold rub_visit.
  destruct (mget b (c_empty c)) as [n|]; [|auto].
  destruct (Nat.leb _ 1); [auto|].
  destruct (knode_for w c n); [|cbn [fst]; eapply idx_inv_same; [|exact H]; unfold same_idx; auto].
  pose proof (mark_empty_same (w_now w) grace b c) as Hs.
  destruct (mark_empty (w_now w) grace b c) as [c1 ok]. simpl in Hs.
  pose proof (idx_inv_same _ _ Hs H) as H1.
  destruct (negb ok); [auto|]. destruct (mget b (c_blocks c1)); simpl; auto using forget_block_idx.
Qed.

Lemma rub_idx : forall w grace order c, idx_inv c -> idx_inv (fst (release_unused_blocks w grace order c)).
Proof.
  intros. unfold release_unused_blocks.
  apply (fold_left_inv _ (fun st : ctrl * list N => idx_inv (fst st))); auto.
  intros; apply rub_visit_idx; auto.
Qed.

Lemma idx_inv0 : idx_inv ctrl0.
Proof. unfold idx_inv, ctrl0; simpl. repeat split; intros ? []. Qed.
