(* C36 — proofs, part 4: which prefixes are nodes of the trie (stored or branch points),
   ClosestDescendants, and LPM for arbitrary (shorter-than-host) queries. *)
From Coq Require Import List NArith Arith Bool Lia.
From Verif.Common Require Import Prefix.
From Verif.C36 Require Import Model Spec Proofs Queries.
Import ListNotations.

Section W.
  Variable w : nat.

  Notation wfp := (wfp w).
  Notation covers := (covers w).
  Notation under := (under w).
  Notation contains := (contains w).
  Notation nthbit := (nthbit w).
  Notation wf := (wf w).
  Notation strictly_covers := (strictly_covers w).

  (* ---------------------------------------------------------------- *)
  (* small helpers                                                     *)

  Lemma contains_not_covers : forall c q, wfp c -> wfp q ->
    contains c (paddr q) = true -> covers c q = false ->
    covers q c = true /\ plen q < plen c.
  Proof.
    intros c q Hc Hq Ct NC. unfold Prefix.covers in NC. rewrite Ct, andb_true_r in NC.
    apply Nat.leb_gt in NC. split; auto.
    apply covers_spec; auto. split; [lia|].
    apply contains_agree in Ct; auto; [|apply Hq].
    assert (A : agree w (plen q) (paddr c) (paddr q)) by (apply (agree_mono w (plen q) (plen c)); [lia|auto]).
    unfold agree in *. symmetry. exact A.
  Qed.

  Lemma filter_all : forall {A} (f : A -> bool) m, (forall e, In e m -> f e = true) -> filter f m = m.
  Proof.
    induction m as [|e m IH]; intros H; simpl; auto.
    rewrite (H e) by (left; auto). f_equal. apply IH. intros; apply H; right; auto.
  Qed.

  Lemma filter_andb : forall {A} (f g : A -> bool) m,
    filter (fun e => f e && g e) m = filter g (filter f m).
  Proof.
    induction m as [|e m IH]; simpl; auto.
    destruct (f e); simpl; [destruct (g e); simpl; rewrite IH; reflexivity | exact IH].
  Qed.

  Lemma existsb_filter : forall {A} (f g : A -> bool) m,
    existsb (fun r => f r && g r) m = existsb g (filter f m).
  Proof.
    induction m as [|e m IH]; simpl; auto.
    destruct (f e); simpl; rewrite IH; reflexivity.
  Qed.

  Lemma filter_ext_in' : forall {A} (f g : A -> bool) m, (forall e, In e m -> f e = g e) -> filter f m = filter g m.
  Proof.
    induction m as [|e m IH]; intros H; simpl; auto.
    rewrite (H e) by (left; auto). rewrite IH; auto. intros; apply H; right; auto.
  Qed.

  (* a predicate that is false on the node's own entry and on the branch not taken can be
     evaluated in the branch taken *)
  Lemma existsb_child : forall (P : prefix * N -> bool) c d l r b,
    (forall e, In e (hd_slice c d) -> P e = false) ->
    (forall e, In e (to_slice (child l r (negb b))) -> P e = false) ->
    existsb P (to_slice (Node c d l r)) = existsb P (to_slice (child l r b)).
  Proof.
    intros P c d l r b H1 H2. rewrite to_slice_node, !existsb_app.
    rewrite (existsb_false P (hd_slice c d)) by auto. simpl.
    destruct b; simpl in *.
    - rewrite (existsb_false P (to_slice l)) by auto. reflexivity.
    - rewrite (existsb_false P (to_slice r)) by auto. apply orb_false_r.
  Qed.

  Lemma in_child_in_node : forall c d l r b e, In e (to_slice (child l r b)) -> In e (to_slice (Node c d l r)).
  Proof.
    intros c d l r b e H. rewrite to_slice_node. apply in_or_app. right. apply in_or_app.
    destruct b; simpl in H; auto.
  Qed.

  Lemma all_under_not_node : forall q b0 m,
    (forall e, In e m -> under q b0 (fst e) = true) -> is_node w m q = false.
  Proof.
    intros q b0 m H. unfold is_node, is_branch.
    rewrite m_mem_false.
    2:{ intros e He. apply (under_neq w q b0). auto. }
    simpl. destruct b0.
    - rewrite (existsb_false (fun e => under q false (fst e)) m); auto.
      intros e He. apply (under_other w q true). auto.
    - rewrite (existsb_false (fun e => under q true (fst e)) m); [apply andb_false_r|].
      intros e He. apply (under_other w q false). auto.
  Qed.

  (* ---------------------------------------------------------------- *)
  (* getNode                                                           *)

  Lemma get_node_found : forall q i, wfp q -> forall t, wf t -> forall k dk l' r',
    get_node w t q i = Node k dk l' r' -> k = q /\ wf (Node k dk l' r') /\ tcov w t q.
  Proof.
    intros q i Hq. induction t as [|c d l IHl r IHr]; intros W k dk l' r' H; [discriminate|].
    pose proof W as W0. destruct W as (Hc & Hd & Hl & Hr & Wl & Wr).
    cbn [get_node] in H.
    destruct (contains c (paddr q)) eqn:Ct; cbn [negb] in H; [|discriminate].
    destruct (prefix_eqb q c) eqn:E.
    - apply prefix_eqb_eq in E. subst c.
      assert (Node q d l r = Node k dk l' r').
      { destruct d; [exact H|]. destruct i; [exact H|discriminate]. }
      inversion H0; subst. split; auto. split; auto. simpl. apply covers_refl; auto.
    - unfold next_bit in H.
      assert (G : forall b, (forall k dk l' r', get_node w (child l r b) q i = Node k dk l' r' ->
                   k = q /\ wf (Node k dk l' r') /\ tcov w (child l r b) q) /\
                  hangs w c b (child l r b) /\ wf (child l r b)).
      { intros [|]; simpl.
        - split; [apply (IHr Wr)|split; auto].
        - split; [apply (IHl Wl)|split; auto]. }
      destruct (G (nthbit (paddr q) (S (plen c)))) as (IH & Hh & Wc).
      destruct (IH _ _ _ _ H) as (A & B & T). split; auto. split; auto.
      simpl. pose proof (hangs_covers w c _ _ q Hc Wc Hq Hh T) as U.
      apply under_spec in U. apply U.
  Qed.

  (* the node for q exists exactly when q is stored or is a branch point of the stored set *)
  Lemma node_iff : forall q, wfp q -> forall t, wf t ->
    is_leaf (get_node w t q true) = negb (is_node w (to_slice t) q).
  Proof.
    intros q Hq. induction t as [|c d l IHl r IHr]; intros W; [reflexivity|].
    pose proof W as W0. destruct W as (Hc & Hd & Hl & Hr & Wl & Wr).
    assert (ALL : forall e, In e (to_slice (Node c d l r)) -> wfp (fst e) /\ covers c (fst e) = true).
    { intros e He. apply (node_covers w _ e W0 He). }
    cbn [get_node].
    destruct (contains c (paddr q)) eqn:Ct; cbn [negb].
    2:{ (* the walk leaves the trie here: q cannot be a node *)
        simpl. symmetry. apply negb_true_iff.
        destruct (is_node w (to_slice (Node c d l r)) q) eqn:IN; auto. exfalso.
        assert (NC : covers c q = false).
        { destruct (covers c q) eqn:C; auto. apply covers_contains in C. congruence. }
        unfold is_node in IN. apply orb_true_iff in IN. destruct IN as [M|B].
        - apply existsb_exists in M. destruct M as (e & He & EQ). apply prefix_eqb_eq in EQ.
          destruct (ALL e He) as [_ C]. rewrite EQ in C. congruence.
        - unfold is_branch in B. apply andb_true_iff in B. destruct B as [B1 B2].
          apply existsb_exists in B1. destruct B1 as (e1 & He1 & U1).
          apply existsb_exists in B2. destruct B2 as (e2 & He2 & U2).
          destruct (ALL e1 He1) as [We1 C1]. destruct (ALL e2 He2) as [We2 C2].
          pose proof U1 as U1'. apply under_spec in U1'. destruct U1' as (Q1 & _ & _).
          destruct (le_lt_dec (plen c) (plen q)) as [Le|Lt].
          + assert (covers c q = true) by (apply (covers_chain w c q (fst e1)); auto). congruence.
          + assert (Cq : covers q c = true) by (apply (covers_chain w q c (fst e1)); auto; lia).
            pose proof (covers_under w q c Cq Lt) as Uc.
            pose proof (under_covers w q _ c (fst e1) Hq Hc We1 Uc C1) as V1.
            pose proof (under_covers w q _ c (fst e2) Hq Hc We2 Uc C2) as V2.
            apply under_bit in U1. apply under_bit in U2. apply under_bit in V1. apply under_bit in V2.
            rewrite U1 in V1. rewrite U2 in V2. congruence. }
    destruct (prefix_eqb q c) eqn:E.
    { (* the node itself *)
      apply prefix_eqb_eq in E. subst c.
      assert (L : is_leaf (match d with None => Node q d l r | Some _ => Node q d l r end) = false)
        by (destruct d; reflexivity).
      replace (match d with None => if true then Node q d l r else Leaf | Some _ => Node q d l r end)
        with (match d with None => Node q d l r | Some _ => Node q d l r end) by (destruct d; reflexivity).
      rewrite L. symmetry. apply negb_false_iff. unfold is_node.
      destruct d as [v|].
      - replace (m_mem q (to_slice (Node q (Some v) l r))) with true; auto.
        simpl. rewrite prefix_eqb_refl. reflexivity.
      - destruct (Hd eq_refl) as [Nl Nr].
        pose proof (slice_nonempty w l Wl Nl) as SL. pose proof (slice_nonempty w r Wr Nr) as SR.
        destruct (to_slice l) as [|e1 sl] eqn:EL; [congruence|].
        destruct (to_slice r) as [|e2 sr] eqn:ER; [congruence|].
        assert (I1 : In e1 (to_slice l)) by (rewrite EL; left; auto).
        assert (I2 : In e2 (to_slice r)) by (rewrite ER; left; auto).
        destruct (slice_under_l w _ _ _ _ _ W0 I1) as [_ U1].
        destruct (slice_under_r w _ _ _ _ _ W0 I2) as [_ U2].
        apply orb_true_iff. right. unfold is_branch. apply andb_true_iff. split.
        + apply existsb_exists. exists e1. split; auto.
          apply (in_child_in_node q None l r false). simpl. auto.
        + apply existsb_exists. exists e2. split; auto.
          apply (in_child_in_node q None l r true). simpl. auto. }
    apply prefix_eqb_neq in E. unfold next_bit.
    set (b := nthbit (paddr q) (S (plen c))).
    assert (IH : is_leaf (get_node w (child l r b) q true) = negb (is_node w (to_slice (child l r b)) q)).
    { destruct b; simpl; auto. }
    rewrite IH. f_equal.
    destruct (covers c q) eqn:Cq.
    - (* c strictly covers q: the predicates of is_node only see the branch taken *)
      assert (L : plen c < plen q) by (apply (strict_cover_len w); auto; congruence).
      assert (NQ : covers q c = false).
      { destruct (covers q c) eqn:C; auto. apply (covers_len w) in C. lia. }
      pose proof (other_neq w c d l r q W0) as ON. fold b in ON.
      pose proof (other_not_covered w c d l r q W0 Hq NQ) as OC. fold b in OC.
      unfold is_node, is_branch, m_mem.
      rewrite <- (existsb_child (fun e => prefix_eqb (fst e) q) c d l r b).
      rewrite <- (existsb_child (fun e => under q false (fst e)) c d l r b).
      rewrite <- (existsb_child (fun e => under q true (fst e)) c d l r b).
      + reflexivity.
      + intros e He. destruct d; simpl in He; [|contradiction]. destruct He as [<-|[]]. simpl.
        unfold Prefix.under. rewrite NQ. reflexivity.
      + intros e He. unfold Prefix.under. rewrite (OC e He). reflexivity.
      + intros e He. destruct d; simpl in He; [|contradiction]. destruct He as [<-|[]]. simpl.
        unfold Prefix.under. rewrite NQ. reflexivity.
      + intros e He. unfold Prefix.under. rewrite (OC e He). reflexivity.
      + intros e He. destruct d; simpl in He; [|contradiction]. destruct He as [<-|[]]. simpl.
        apply prefix_eqb_neq. congruence.
      + intros e He. apply prefix_eqb_neq. auto.
    - (* q is shorter than c and covers it: everything stored lies in one branch below q *)
      destruct (contains_not_covers c q Hc Hq Ct Cq) as [Qc Lt].
      pose proof (covers_under w q c Qc Lt) as Uc.
      assert (AU : forall e, In e (to_slice (Node c d l r)) -> under q (nthbit (paddr c) (S (plen q))) (fst e) = true).
      { intros e He. destruct (ALL e He) as [We C]. apply (under_covers w q _ c (fst e)); auto. }
      rewrite (all_under_not_node q _ _ AU).
      apply (all_under_not_node q (nthbit (paddr c) (S (plen q)))).
      intros e He. apply AU. apply (in_child_in_node c d l r b). exact He.
  Qed.

  (* ---------------------------------------------------------------- *)
  (* ClosestDescendants                                                *)

  (* the closest nodes with data at or below t *)
  Fixpoint cd_sub (t : trie) : list prefix :=
    match t with
    | Leaf => []
    | Node c (Some _) _ _ => [c]
    | Node c None l r => cd_sub l ++ cd_sub r
    end.

  (* a lookup of anything inside q can restart at q's node *)
  Lemma get_node_restart : forall q, wfp q -> forall t, wf t -> forall dk l' r',
    get_node w t q true = Node q dk l' r' ->
    forall p, wfp p -> covers q p = true ->
    get_node w t p true = get_node w (Node q dk l' r') p true.
  Proof.
    intros q Hq. induction t as [|c d l IHl r IHr]; intros W dk l' r' H p Hp Cp; [discriminate|].
    pose proof W as W0. destruct W as (Hc & Hd & Hl & Hr & Wl & Wr).
    pose proof H as H0. cbn [get_node] in H.
    destruct (contains c (paddr q)) eqn:Ct; cbn [negb] in H; [|discriminate].
    destruct (prefix_eqb q c) eqn:E.
    - apply prefix_eqb_eq in E. subst c.
      assert (Node q d l r = Node q dk l' r') by (destruct d; exact H).
      rewrite H1. reflexivity.
    - unfold next_bit in H. set (b := nthbit (paddr q) (S (plen c))) in *.
      assert (G : (forall dk l' r', get_node w (child l r b) q true = Node q dk l' r' ->
                   forall p, wfp p -> covers q p = true ->
                   get_node w (child l r b) p true = get_node w (Node q dk l' r') p true) /\
                  hangs w c b (child l r b) /\ wf (child l r b)).
      { destruct b; simpl.
        - split; [apply (IHr Wr)|split; auto].
        - split; [apply (IHl Wl)|split; auto]. }
      destruct G as (IH & Hh & Wc).
      destruct (get_node_found q true Hq _ Wc _ _ _ _ H) as (_ & _ & T).
      pose proof (hangs_covers w c b _ q Hc Wc Hq Hh T) as Uq.
      pose proof (under_covers w c b q p Hc Hq Hp Uq Cp) as Up.
      rewrite <- (IH _ _ _ H p Hp Cp).
      cbn [get_node].
      pose proof Up as Up'. apply under_spec in Up'. destruct Up' as (C1 & L1 & B1).
      rewrite (covers_contains w c p C1). cbn [negb].
      replace (prefix_eqb p c) with false.
      2:{ symmetry. apply prefix_eqb_neq. apply (under_neq w c b). auto. }
      unfold next_bit. rewrite B1. reflexivity.
  Qed.

  Lemma get_node_child : forall q dk l' r' b cc dc lc rc, wf (Node q dk l' r') ->
    child l' r' b = Node cc dc lc rc ->
    get_node w (Node q dk l' r') cc true = Node cc dc lc rc /\ wfp cc /\ plen q < plen cc /\ covers q cc = true.
  Proof.
    intros q dk l' r' b cc dc lc rc W H.
    destruct W as (Hc & Hd & Hl & Hr & Wl & Wr).
    assert (Hh : hangs w q b (child l' r' b) /\ wf (child l' r' b)) by (destruct b; simpl; auto).
    rewrite H in Hh. destruct Hh as [U Wc]. simpl in U.
    assert (Hcc : wfp cc) by apply Wc.
    pose proof U as U'. apply under_spec in U'. destruct U' as (C1 & L1 & B1).
    split; [|auto].
    cbn [get_node]. rewrite (covers_contains w q cc C1). cbn [negb].
    replace (prefix_eqb cc q) with false.
    2:{ symmetry. apply prefix_eqb_neq. apply (under_neq w q b). auto. }
    unfold next_bit. rewrite B1, H. cbn [get_node].
    rewrite (covers_contains w cc cc (covers_refl w cc Hcc)). cbn [negb].
    rewrite prefix_eqb_refl. destruct dc; reflexivity.
  Qed.

  (* the body of the loop over node.children *)
  Definition cd_step (f : nat) (root : trie) (ob : option (list prefix)) (ch : trie) : option (list prefix) :=
    match ob with
    | None => None
    | Some b =>
        match ch with
        | Leaf => Some b
        | Node cc (Some _) _ _ => Some (b ++ [cc])
        | Node cc None _ _ => closest_descendants w f root b cc
        end
    end.

  Lemma closest_unfold : forall f root buf q,
    closest_descendants w (S f) root buf q =
    match get_node w root q true with
    | Leaf => Some []
    | Node _ _ l r => cd_step f root (cd_step f root (Some buf) l) r
    end.
  Proof. reflexivity. Qed.

  Lemma closest_fuel : forall f t, wf t -> forall q buf dk l' r', wfp q ->
    get_node w t q true = Node q dk l' r' -> w - plen q < f ->
    closest_descendants w f t buf q = Some (buf ++ cd_sub l' ++ cd_sub r').
  Proof.
    induction f as [|f IH]; intros t W q buf dk l' r' Hq H Hf; [lia|].
    rewrite closest_unfold, H.
    destruct (get_node_found q true Hq t W _ _ _ _ H) as (_ & WN & _).
    assert (ST : forall b bf, cd_step f t (Some bf) (child l' r' b) = Some (bf ++ cd_sub (child l' r' b))).
    { intros b bf. destruct (child l' r' b) as [|cc [v|] lc rc] eqn:CH; simpl.
      - rewrite app_nil_r. reflexivity.
      - reflexivity.
      - destruct (get_node_child q dk l' r' b cc None lc rc WN CH) as (G & Hcc & L & C).
        apply (IH t W cc bf None lc rc Hcc).
        + rewrite (get_node_restart q Hq t W dk l' r' H cc Hcc C). exact G.
        + destruct Hcc. lia. }
    pose proof (ST false buf) as S1. simpl child in S1. rewrite S1.
    pose proof (ST true (buf ++ cd_sub l')) as S2. simpl child in S2. rewrite S2.
    rewrite <- app_assoc. reflexivity.
  Qed.

  (* the stored prefixes strictly inside q are exactly the entries below q's node *)
  Lemma filter_sub : forall q, wfp q -> forall t, wf t -> forall dk l' r',
    get_node w t q true = Node q dk l' r' ->
    filter (fun e => strictly_covers q (fst e)) (to_slice t) = to_slice l' ++ to_slice r'.
  Proof.
    intros q Hq. induction t as [|c d l IHl r IHr]; intros W dk l' r' H; [discriminate|].
    pose proof W as W0. destruct W as (Hc & Hd & Hl & Hr & Wl & Wr).
    cbn [get_node] in H.
    destruct (contains c (paddr q)) eqn:Ct; cbn [negb] in H; [|discriminate].
    destruct (prefix_eqb q c) eqn:E.
    - apply prefix_eqb_eq in E. subst c.
      assert (EQ : Node q d l r = Node q dk l' r') by (destruct d; exact H).
      inversion EQ; subst.
      rewrite to_slice_node, filter_app.
      assert (Hh : filter (fun e => strictly_covers q (fst e)) (hd_slice q dk) = []).
      { destruct dk; simpl; auto. unfold Prefix.strictly_covers. rewrite prefix_eqb_refl, andb_false_r. reflexivity. }
      rewrite Hh. simpl. apply filter_all. intros e He.
      assert (U : exists b, under q b (fst e) = true).
      { apply in_app_or in He. destruct He as [He|He].
        - exists false. apply (slice_under_l w _ _ _ _ _ W0 He).
        - exists true. apply (slice_under_r w _ _ _ _ _ W0 He). }
      destruct U as (b & U). unfold Prefix.strictly_covers.
      pose proof U as U'. apply under_spec in U'. destruct U' as (C1 & _ & _). rewrite C1. simpl.
      apply negb_true_iff. apply prefix_eqb_neq. intros EQ2. apply (under_neq w q b (fst e)); auto.
    - unfold next_bit in H. set (b := nthbit (paddr q) (S (plen c))) in *.
      assert (G : (forall dk l' r', get_node w (child l r b) q true = Node q dk l' r' ->
                   filter (fun e => strictly_covers q (fst e)) (to_slice (child l r b)) = to_slice l' ++ to_slice r') /\
                  hangs w c b (child l r b) /\ wf (child l r b)).
      { destruct b; simpl.
        - split; [apply (IHr Wr)|split; auto].
        - split; [apply (IHl Wl)|split; auto]. }
      destruct G as (IH & Hh & Wc).
      destruct (get_node_found q true Hq _ Wc _ _ _ _ H) as (_ & _ & T).
      pose proof (hangs_covers w c b _ q Hc Wc Hq Hh T) as Uq.
      apply under_spec in Uq. destruct Uq as (C1 & L1 & _).
      assert (NQ : covers q c = false).
      { destruct (covers q c) eqn:C; auto. apply (covers_len w) in C. lia. }
      pose proof (other_not_covered w c d l r q W0 Hq NQ) as OC. fold b in OC.
      rewrite to_slice_node, !filter_app.
      assert (Hhd : filter (fun e => strictly_covers q (fst e)) (hd_slice c d) = []).
      { destruct d; simpl; auto. unfold Prefix.strictly_covers. rewrite NQ. reflexivity. }
      rewrite Hhd. simpl.
      assert (OTH : filter (fun e => strictly_covers q (fst e)) (to_slice (child l r (negb b))) = []).
      { apply filter_none. intros e He. unfold Prefix.strictly_covers. rewrite (OC e He). reflexivity. }
      specialize (IH _ _ _ H).
      destruct b; simpl in IH, OTH.
      + rewrite OTH, IH. reflexivity.
      + rewrite OTH, IH. apply app_nil_r.
  Qed.

  (* among the entries of a well-formed subtree, those with no stored prefix strictly above
     them (within a context that adds no new ancestors) are the closest data nodes *)
  Lemma min_sub : forall t, wf t -> forall C, incl (to_slice t) C ->
    (forall r e, In r C -> In e (to_slice t) -> strictly_covers (fst r) (fst e) = true -> In r (to_slice t)) ->
    map fst (filter (fun e => negb (existsb (fun r => strictly_covers (fst r) (fst e)) C)) (to_slice t)) = cd_sub t.
  Proof.
    induction t as [|c d l IHl r IHr]; intros W C Inc Anc; [reflexivity|].
    pose proof W as W0. destruct W as (Hc & Hd & Hl & Hr & Wl & Wr).
    destruct d as [v|].
    - change (to_slice (Node c (Some v) l r)) with ((c, v) :: to_slice l ++ to_slice r) in *.
      cbn [filter cd_sub].
      assert (HD : existsb (fun r0 => strictly_covers (fst r0) (fst (c, v))) C = false).
      { apply existsb_false. intros r0 Hr0. destruct (strictly_covers (fst r0) (fst (c, v))) eqn:SC; auto.
        exfalso. pose proof (Anc r0 (c, v) Hr0 (or_introl eq_refl) SC) as I0.
        destruct (node_covers w _ r0 W0 I0) as [Wr0 C0].
        unfold Prefix.strictly_covers in SC. apply andb_true_iff in SC. destruct SC as [C1 N1]. simpl in C1, N1.
        assert (fst r0 = c) by (apply (covers_antisym w); auto).
        apply negb_true_iff, prefix_eqb_neq in N1. contradiction. }
      rewrite HD. cbn [negb map]. f_equal.
      rewrite filter_none; [reflexivity|].
      intros e He. apply negb_false_iff. apply existsb_exists. exists (c, v). split.
      + apply Inc. left. reflexivity.
      + assert (U : exists b, under c b (fst e) = true).
        { apply in_app_or in He. destruct He as [He|He].
          - exists false. apply (slice_under_l w _ _ _ _ _ W0 He).
          - exists true. apply (slice_under_r w _ _ _ _ _ W0 He). }
        destruct U as (b & U). unfold Prefix.strictly_covers. simpl.
        pose proof U as U'. apply under_spec in U'. destruct U' as (C1 & _ & _). rewrite C1. simpl.
        apply negb_true_iff. apply prefix_eqb_neq. intros EQ2. apply (under_neq w c b (fst e)); auto.
    - change (to_slice (Node c None l r)) with (to_slice l ++ to_slice r) in *.
      cbn [cd_sub]. rewrite filter_app, map_app.
      rewrite (IHl Wl C), (IHr Wr C); auto.
      + intros e He. apply Inc. apply in_or_app. auto.
      + intros r0 e Hr0 He SC.
        pose proof (Anc r0 e Hr0 (in_or_app _ _ _ (or_intror He)) SC) as I0.
        apply in_app_or in I0. destruct I0 as [I0|I0]; auto. exfalso.
        destruct (slice_under_l w _ _ _ _ _ W0 I0) as [W1 U1].
        destruct (slice_under_r w _ _ _ _ _ W0 He) as [W2 U2].
        pose proof (under_disjoint w c false (fst r0) (fst e) Hc W1 W2 U1 U2) as D.
        unfold Prefix.strictly_covers in SC. rewrite D in SC. discriminate.
      + intros e He. apply Inc. apply in_or_app. auto.
      + intros r0 e Hr0 He SC.
        pose proof (Anc r0 e Hr0 (in_or_app _ _ _ (or_introl He)) SC) as I0.
        apply in_app_or in I0. destruct I0 as [I0|I0]; auto. exfalso.
        destruct (slice_under_r w _ _ _ _ _ W0 I0) as [W1 U1].
        destruct (slice_under_l w _ _ _ _ _ W0 He) as [W2 U2].
        pose proof (under_disjoint w c true (fst r0) (fst e) Hc W1 W2 U1 U2) as D.
        unfold Prefix.strictly_covers in SC. rewrite D in SC. discriminate.
  Qed.

  Lemma closest_sub : forall q, wfp q -> forall t, wf t -> forall dk l' r',
    get_node w t q true = Node q dk l' r' ->
    closest w (to_slice t) q = cd_sub l' ++ cd_sub r'.
  Proof.
    intros q Hq t W dk l' r' H.
    destruct (get_node_found q true Hq t W _ _ _ _ H) as (_ & WN & _).
    pose proof WN as WN0. destruct WN as (Hc & Hd & Hl & Hr & Wl & Wr).
    unfold closest.
    rewrite (filter_andb (fun e => strictly_covers q (fst e))
              (fun e => negb (existsb (fun r => strictly_covers q (fst r) && strictly_covers (fst r) (fst e)) (to_slice t)))).
    rewrite (filter_sub q Hq t W dk l' r' H).
    set (S0 := to_slice l' ++ to_slice r').
    rewrite (filter_ext_in' _ (fun e => negb (existsb (fun r => strictly_covers (fst r) (fst e)) S0))).
    2:{ intros e _. f_equal.
        rewrite (existsb_filter (fun r => strictly_covers q (fst r)) (fun r => strictly_covers (fst r) (fst e))).
        rewrite (filter_sub q Hq t W dk l' r' H). reflexivity. }
    unfold S0 at 2. rewrite filter_app, map_app.
    rewrite (min_sub l' Wl S0), (min_sub r' Wr S0); auto.
    - intros e He. apply in_or_app. auto.
    - intros r0 e Hr0 He SC. apply in_app_or in Hr0. destruct Hr0 as [I0|I0]; auto. exfalso.
      destruct (slice_under_l w _ _ _ _ _ WN0 I0) as [W1 U1].
      destruct (slice_under_r w _ _ _ _ _ WN0 He) as [W2 U2].
      pose proof (under_disjoint w q false (fst r0) (fst e) Hc W1 W2 U1 U2) as D.
      unfold Prefix.strictly_covers in SC. rewrite D in SC. discriminate.
    - intros e He. apply in_or_app. auto.
    - intros r0 e Hr0 He SC. apply in_app_or in Hr0. destruct Hr0 as [I0|I0]; auto. exfalso.
      destruct (slice_under_r w _ _ _ _ _ WN0 I0) as [W1 U1].
      destruct (slice_under_l w _ _ _ _ _ WN0 He) as [W2 U2].
      pose proof (under_disjoint w q true (fst r0) (fst e) Hc W1 W2 U1 U2) as D.
      unfold Prefix.strictly_covers in SC. rewrite D in SC. discriminate.
  Qed.

  (* ClosestDescendants never runs out of fuel and returns the direct computation *)
  Theorem closest_descendants_spec : forall t q buf, wf t -> wfp q ->
    closest_descendants w (cd_fuel w) t buf q =
    Some (if is_node w (to_slice t) q then buf ++ closest w (to_slice t) q else []).
  Proof.
    intros t q buf W Hq. pose proof (node_iff q Hq t W) as NI.
    destruct (get_node w t q true) as [|k dk l' r'] eqn:G.
    - simpl in NI. symmetry in NI. apply negb_true_iff in NI. rewrite NI.
      unfold cd_fuel. rewrite closest_unfold, G. reflexivity.
    - simpl in NI. symmetry in NI. apply negb_false_iff in NI. rewrite NI.
      destruct (get_node_found q true Hq t W _ _ _ _ G) as (EQ & _ & _). subst k.
      rewrite (closest_sub q Hq t W dk l' r' G).
      apply (closest_fuel (cd_fuel w) t W q buf dk l' r' Hq G).
      unfold cd_fuel. lia.
  Qed.

  (* ---------------------------------------------------------------- *)
  (* LPM for an arbitrary CIDR query                                   *)

  Lemma lpm_loop_general : forall q, wfp q -> forall t acc, wf t ->
    shorter_than acc (to_slice t) ->
    lpm_loop w t q acc =
    if is_node w (to_slice t) q
    then longest_from (fun p => covers p q) (to_slice t) acc
    else longest_from (fun p => contains p (paddr q)) (to_slice t) acc.
  Proof.
    intros q Hq. assert (Ha : (paddr q < 2 ^ N.of_nat w)%N) by apply Hq.
    induction t as [|c d l IHl r IHr]; intros acc W SH.
    { simpl. destruct (is_node w [] q); reflexivity. }
    pose proof W as W0. destruct W as (Hc & Hd & Hl & Hr & Wl & Wr).
    pose proof (node_iff q Hq _ W0) as NI.
    cbn [lpm_loop]. cbn [get_node] in NI.
    destruct (contains c (paddr q)) eqn:Ct; cbn [negb] in *.
    2:{ symmetry in NI. apply negb_true_iff in NI. rewrite NI.
        symmetry. apply longest_from_skip. intros e He.
        destruct (node_covers w _ e W0 He) as [We C].
        destruct (contains (fst e) (paddr q)) eqn:C2; auto.
        rewrite <- (covers_host w) in C2, Ct by auto.
        assert (covers c (host w (paddr q)) = true)
          by (apply (covers_trans w c (fst e)); auto using host_wf).
        congruence. }
    set (acc' := match d with Some v => Some (c, v) | None => acc end).
    assert (HH : forall f, f c = true -> longest_from f (hd_slice c d) acc = acc').
    { intros f Fc. unfold acc'. destruct d as [v|]; simpl; auto. rewrite Fc.
      apply (longer_shorter acc (c, v) _ SH). rewrite to_slice_node. simpl. left; auto. }
    assert (S' : forall b, shorter_than acc' (to_slice (child l r b))).
    { intros b p e Hp He. unfold acc' in Hp. destruct d as [v|].
      - inversion Hp; subst p. simpl.
        destruct (slice_under w _ _ _ _ _ _ W0 He) as [_ U]. apply under_spec in U. lia.
      - apply (SH p e Hp). apply (in_child_in_node c None l r b). exact He. }
    destruct (prefix_eqb q c) eqn:E.
    { (* the walk stops at q's own node *)
      apply prefix_eqb_eq in E. subst c.
      assert (IN : is_node w (to_slice (Node q d l r)) q = true).
      { destruct d; symmetry in NI; apply negb_false_iff in NI; exact NI. }
      rewrite IN. rewrite to_slice_node, longest_from_app.
      rewrite (HH (fun p => covers p q)) by (apply covers_refl; auto).
      symmetry. apply longest_from_skip. intros e He.
      assert (U : exists b, under q b (fst e) = true /\ wfp (fst e)).
      { apply in_app_or in He. destruct He as [He|He].
        - exists false. destruct (slice_under_l w _ _ _ _ _ W0 He). auto.
        - exists true. destruct (slice_under_r w _ _ _ _ _ W0 He). auto. }
      destruct U as (b & U & We). apply (under_not_covers_parent w q b); auto. }
    unfold next_bit in *. set (b := nthbit (paddr q) (S (plen c))) in *.
    assert (G : (forall acc, shorter_than acc (to_slice (child l r b)) ->
                 lpm_loop w (child l r b) q acc =
                 if is_node w (to_slice (child l r b)) q
                 then longest_from (fun p => covers p q) (to_slice (child l r b)) acc
                 else longest_from (fun p => contains p (paddr q)) (to_slice (child l r b)) acc) /\
                hangs w c b (child l r b) /\ wf (child l r b)).
    { destruct b; simpl.
      - split; [intros; apply IHr; auto|split; auto].
      - split; [intros; apply IHl; auto|split; auto]. }
    destruct G as (IH & Hh & Wc).
    pose proof (node_iff q Hq _ Wc) as NIc.
    assert (INeq : is_node w (to_slice (Node c d l r)) q = is_node w (to_slice (child l r b)) q).
    { rewrite NIc in NI.
      destruct (is_node w (to_slice (Node c d l r)) q), (is_node w (to_slice (child l r b)) q);
        simpl in NI; congruence. }
    rewrite INeq, (IH acc' (S' b)).
    pose proof (other_not_covers w c d l r q W0 Hq) as OC. fold b in OC.
    pose proof (other_not_contains w c d l r q W0 Hq) as ON. fold b in ON.
    rewrite to_slice_node.
    destruct (is_node w (to_slice (child l r b)) q) eqn:IN.
    - (* q's node lies below: c covers q *)
      simpl in NIc.
      destruct (get_node w (child l r b) q true) as [|k dk l' r'] eqn:GN; [discriminate|].
      destruct (get_node_found q true Hq _ Wc _ _ _ _ GN) as (_ & _ & T).
      pose proof (hangs_covers w c b _ q Hc Wc Hq Hh T) as Uq.
      apply under_spec in Uq. destruct Uq as (Cq & _ & _).
      rewrite !longest_from_app, (HH (fun p => covers p q) Cq).
      destruct b; simpl in OC |- *.
      + rewrite (longest_from_skip _ (to_slice l)) by auto. reflexivity.
      + rewrite (longest_from_skip _ (to_slice r)) by auto. reflexivity.
    - rewrite !longest_from_app, (HH (fun p => contains p (paddr q)) Ct).
      destruct b; simpl in ON |- *.
      + rewrite (longest_from_skip _ (to_slice l)) by auto. reflexivity.
      + rewrite (longest_from_skip _ (to_slice r)) by auto. reflexivity.
  Qed.

  Theorem lpm_general_spec : forall t q, wf t -> wfp q ->
    lpm w t q = spec_lpm_general w (to_slice t) q.
  Proof.
    intros t q W Hq. unfold lpm, spec_lpm_general, spec_lpm_cover, spec_lpm_addr, longest.
    apply (lpm_loop_general q Hq t None W). intros p e H. discriminate.
  Qed.

  (* ---------------------------------------------------------------- *)
  (* what [longest] returns                                            *)

  Lemma longer_facts : forall acc e, exists x, longer acc e = Some x /\
    plen (fst e) <= plen (fst x) /\ (forall a, acc = Some a -> plen (fst a) <= plen (fst x)) /\
    (x = e \/ acc = Some x).
  Proof.
    intros [b|] e; simpl.
    - destruct (plen (fst b) <? plen (fst e)) eqn:L.
      + apply Nat.ltb_lt in L. exists e. repeat split; auto. intros a Ha. inversion Ha; subst. lia.
      + apply Nat.ltb_ge in L. exists b. repeat split; auto. intros a Ha. inversion Ha; subst. lia.
    - exists e. repeat split; auto. intros a Ha. discriminate.
  Qed.

  Lemma longest_from_none : forall f m acc, longest_from f m acc = None ->
    acc = None /\ forall e, In e m -> f (fst e) = false.
  Proof.
    induction m as [|e0 m IH]; intros acc H; simpl in *.
    - split; auto. intros e [].
    - destruct (IH _ H) as [A B]. destruct (f (fst e0)) eqn:F.
      + destruct (longer_facts acc e0) as (x & Lx & _). congruence.
      + split; auto. intros e [<-|He]; auto.
  Qed.

  Lemma longest_from_some : forall f m acc x, longest_from f m acc = Some x ->
    (acc = Some x \/ (In x m /\ f (fst x) = true)) /\
    (forall a, acc = Some a -> plen (fst a) <= plen (fst x)) /\
    (forall e, In e m -> f (fst e) = true -> plen (fst e) <= plen (fst x)).
  Proof.
    induction m as [|e0 m IH]; intros acc x H; simpl in *.
    - split; [left; auto|]. split.
      + intros a Ha. rewrite Ha in H. inversion H; subst. lia.
      + intros e [].
    - destruct (IH _ _ H) as (A & B & C). destruct (f (fst e0)) eqn:F.
      + destruct (longer_facts acc e0) as (y & Ly & G1 & G2 & G3).
        pose proof (B y Ly) as By.
        split; [|split].
        * destruct A as [A|[A1 A2]]; [|right; split; auto].
          rewrite Ly in A. inversion A; subst y.
          destruct G3 as [->|G3]; [right; split; auto|left; auto].
        * intros a Ha. pose proof (G2 a Ha). lia.
        * intros e [<-|He] Fe; [lia|auto].
      + split; [|split]; auto.
        * destruct A as [A|[A1 A2]]; auto.
        * intros e [<-|He] Fe; [congruence|auto].
  Qed.

  Lemma longest_none : forall f m, longest f m = None -> forall e, In e m -> f (fst e) = false.
  Proof. intros f m H. apply (longest_from_none f m None H). Qed.

  Lemma longest_some : forall f m x, longest f m = Some x ->
    In x m /\ f (fst x) = true /\ forall e, In e m -> f (fst e) = true -> plen (fst e) <= plen (fst x).
  Proof.
    intros f m x H. destruct (longest_from_some f m None x H) as (A & _ & C).
    destruct A as [A|[A1 A2]]; [discriminate|]. auto.
  Qed.

  (* a stored entry is what the map returns for its key *)
  Lemma in_slice_get : forall t, wf t -> forall p v, In (p, v) (to_slice t) -> m_get p (to_slice t) = Some v.
  Proof.
    induction t as [|c d l IHl r IHr]; intros W p v H; [contradiction|].
    pose proof W as W0. destruct W as (Hc & Hd & Hl & Hr & Wl & Wr).
    rewrite to_slice_node in *. rewrite m_get_app.
    apply in_app_or in H. destruct H as [H|H].
    - destruct d as [x|]; simpl in H; [|contradiction]. destruct H as [H|[]]. inversion H; subst.
      unfold m_get. simpl. rewrite prefix_eqb_refl. reflexivity.
    - assert (NH : m_get p (hd_slice c d) = None).
      { apply m_get_absent. intros e He. destruct d; simpl in He; [|contradiction].
        destruct He as [<-|[]]. simpl. intros EQ. subst p.
        apply in_app_or in H. destruct H as [H|H].
        - apply (key_strict w c (Some n) l r false (c, v) W0 H). reflexivity.
        - apply (key_strict w c (Some n) l r true (c, v) W0 H). reflexivity. }
      rewrite NH, m_get_app.
      apply in_app_or in H. destruct H as [H|H].
      + rewrite (IHl Wl p v H). reflexivity.
      + rewrite (m_get_absent p (to_slice l)); [apply IHr; auto|].
        intros e He EQ.
        destruct (slice_under_l w _ _ _ _ _ W0 He) as [_ U1].
        destruct (slice_under_r w _ _ _ _ _ W0 H) as [_ U2]. simpl in U2. rewrite EQ in U1.
        pose proof (under_other w c true p U2) as X. simpl in X. congruence.
  Qed.

End W.
