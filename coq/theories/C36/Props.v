(* C36 — property theorems only. *)
From Coq Require Import List NArith Arith Bool.
From Verif.Common Require Import Prefix.
From Verif.C36 Require Import Model Spec Proofs.
Import ListNotations.

Theorem c36_update_empty : forall w c v, to_slice (update w Leaf c v) = [(c, v)].
Proof. exact update_empty. Qed.
Print Assumptions c36_update_empty.
