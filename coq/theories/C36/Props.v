(* C36 — property theorems only.  w is the address width (32 for IPv4, 128 for IPv6); every
   theorem holds for every w.  [wf] is the trie invariant (Proofs.v), [to_slice t] (the model
   of ToSlice) is the finite map of stored prefixes, sorted by (address, length). *)
From Coq Require Import List NArith Arith Bool.
From Verif.Common Require Import Prefix.
From Verif.C36 Require Import Model Spec Proofs Queries General History IpLpm.
Import ListNotations.

(* Update keeps the invariant and is insertion into the map of stored prefixes. *)
Theorem c36_update : forall w t c v, wf w t -> wfp w c ->
  wf w (update w t c v) /\ to_slice (update w t c v) = m_insert c v (to_slice t).
Proof. intros w t c v W Hc. destruct (update_spec w v c Hc t W) as (A & B & _). auto. Qed.
Print Assumptions c36_update.

(* Delete keeps the invariant and is removal from the map of stored prefixes. *)
Theorem c36_delete : forall w t c, wf w t -> wfp w c ->
  wf w (delete w t c) /\ to_slice (delete w t c) = m_remove c (to_slice t).
Proof. intros w t c W Hc. exact (delete_spec w c t Hc W). Qed.
Print Assumptions c36_delete.

(* After any history of operations from the empty trie: invariant + abstraction. *)
Theorem c36_history : forall w ops, forallb (op_wf w) ops = true ->
  wf w (run_trie w Leaf ops) /\ to_slice (run_trie w Leaf ops) = fold_left spec_step ops [].
Proof. intros w ops H. exact (run_trie_spec w ops Leaf I H). Qed.
Print Assumptions c36_history.

Example c36_history_nontrivial :
  let ops := [OpUpdate (mkP 167772160 28) 1; OpUpdate (mkP 167772168 30) 2; OpUpdate (mkP 167772162 31) 3;
              OpDelete (mkP 167772160 28)]%N in
  forallb (op_wf 32) ops = true /\
  run_trie 32 Leaf ops = Node (mkP 167772160 28) None (Node (mkP 167772162 31) (Some 3%N) Leaf Leaf)
                                                     (Node (mkP 167772168 30) (Some 2%N) Leaf Leaf).
Proof. split; vm_compute; reflexivity. Qed.

(* Exact lookup *)
Theorem c36_get : forall w t q, wf w t -> wfp w q -> get w t q = m_get q (to_slice t).
Proof. exact get_spec. Qed.
Print Assumptions c36_get.

(* Coverage: some stored prefix covers the query *)
Theorem c36_covers : forall w t q, wf w t -> wfp w q -> tcovers w t q = spec_covers w (to_slice t) q.
Proof. intros w t q W Hq. exact (covers_spec_trie w q Hq t W). Qed.
Print Assumptions c36_covers.

(* Intersection: some stored prefix lies inside the query *)
Theorem c36_intersects : forall w t q, wf w t -> wfp w q ->
  tintersects w t q = spec_intersects w (to_slice t) q.
Proof. intros w t q W Hq. exact (intersects_spec_trie w q Hq t W). Qed.
Print Assumptions c36_intersects.

(* Longest-prefix match of an address (host query, as at every call site) *)
Theorem c36_lpm_host : forall w t a, wf w t -> (a < 2 ^ N.of_nat w)%N ->
  lpm w t (host w a) = spec_lpm_addr w (to_slice t) a.
Proof. exact lpm_host_spec. Qed.
Print Assumptions c36_lpm_host.

(* LookupPath: if q is stored, all stored prefixes covering q, shortest first *)
Theorem c36_lookup_path : forall w t q, wf w t -> wfp w q ->
  lookup_path w t [] q = spec_path w (to_slice t) q.
Proof. exact lookup_path_spec. Qed.
Print Assumptions c36_lookup_path.

(* What the one caller of Intersects computes (Get || Intersects || Covers in the ippool
   controller): some stored prefix overlaps the query. *)
Theorem c36_overlap : forall w t q, wf w t -> wfp w q ->
  tcovers w t q || tintersects w t q = spec_overlaps w (to_slice t) q.
Proof.
  intros w t q W Hq. rewrite (covers_spec_trie w q Hq t W), (intersects_spec_trie w q Hq t W).
  unfold spec_covers, spec_intersects, spec_overlaps, overlaps.
  induction (to_slice t) as [|e m IH]; simpl; auto.
  rewrite <- IH.
  destruct (covers w (fst e) q), (covers w q (fst e)), (existsb (fun e0 => covers w (fst e0) q) m); reflexivity.
Qed.
Print Assumptions c36_overlap.

(* a non-trivial run accepted by the oracle (hypotheses of c36_model_meets_spec below) *)
Example c36_model_meets_spec_nontrivial :
  let ops := [OpUpdate (mkP 167772160 28) 1; OpUpdate (mkP 167772168 30) 2; OpUpdate (mkP 167772162 31) 3;
              OpDelete (mkP 167772160 28); OpLPM (mkP 167772169 32); OpCovers (mkP 167772163 32);
              OpIntersects (mkP 167772160 24); OpPath (mkP 167772162 31); OpSlice]%N in
  forallb (op_wf 32) ops = true /\
  run 32 Leaf ops = [ONone; ONone; ONone; ONone; OMatch (Some (mkP 167772168 30, 2%N)); OBool true;
                     OBool true; OEntries [(mkP 167772162 31, 3%N)];
                     OEntries [(mkP 167772162 31, 3%N); (mkP 167772168 30, 2%N)]].
Proof. repeat split; vm_compute; reflexivity. Qed.

(* A prefix has a node in the trie exactly when it is stored or is a branch point of the
   stored set (stored prefixes on both sides just below it). *)
Theorem c36_node_iff : forall w t q, wf w t -> wfp w q ->
  is_leaf (get_node w t q true) = negb (is_node w (to_slice t) q).
Proof. intros w t q W Hq. exact (node_iff w q Hq t W). Qed.
Print Assumptions c36_node_iff.

(* ClosestDescendants (the Go recursion that re-looks-up every data-less child from the root)
   never runs out of the fuel w+2 and returns, appended to the caller's buffer and in address
   order, the stored prefixes strictly inside q that have no stored prefix strictly between q
   and them -- when q is stored or a branch point; otherwise it returns nil (and drops buf). *)
Theorem c36_closest_descendants : forall w t q buf, wf w t -> wfp w q ->
  closest_descendants w (cd_fuel w) t buf q =
  Some (if is_node w (to_slice t) q then buf ++ closest w (to_slice t) q else []).
Proof. exact closest_descendants_spec. Qed.
Print Assumptions c36_closest_descendants.

Example c36_closest_descendants_nontrivial :
  (* the example of the Go doc comment: 10.0.0.0/16 -> 10.0.1.0/24 -> 10.0.1.1/32 and the
     data-less 10.0.2.0/23-ish branch holding 10.0.2.1/32 *)
  let ops := [OpUpdate (mkP 167772160 16) 1; OpUpdate (mkP 167772416 24) 2; OpUpdate (mkP 167772417 32) 3;
              OpUpdate (mkP 167772673 32) 4]%N in
  let t := run_trie 32 Leaf ops in
  closest_descendants 32 (cd_fuel 32) t [] (mkP 167772160 16) = Some [mkP 167772416 24; mkP 167772673 32] /\
  spec_closest 32 (to_slice t) (mkP 167772160 16) = [mkP 167772416 24; mkP 167772673 32].
Proof. split; vm_compute; reflexivity. Qed.

(* LPM for an arbitrary CIDR query: if the query is stored or a branch point, the longest stored
   prefix covering it; otherwise the longest stored prefix containing the query's address, which
   may be longer than the query itself. *)
Theorem c36_lpm_general : forall w t q, wf w t -> wfp w q ->
  lpm w t q = spec_lpm_general w (to_slice t) q.
Proof. exact lpm_general_spec. Qed.
Print Assumptions c36_lpm_general.

(* the documented quirk, exhibited: only 10.0.0.0/28 stored, LPM(10.0.0.0/24) returns the /28 *)
Example c36_lpm_general_longer_than_query :
  lpm 32 (update 32 Leaf (mkP 167772160 28) 1%N) (mkP 167772160 24) = Some (mkP 167772160 28, 1%N).
Proof. vm_compute. reflexivity. Qed.

(* The specification oracle accepts every run of the model from the empty trie: any sequence of
   Update/Delete/Get/LPM/Covers/Intersects/ClosestDescendants/LookupPath/ToSlice on well-formed
   prefixes. *)
Theorem c36_model_meets_spec : forall w ops,
  forallb (op_wf w) ops = true -> ok_trace w ops (run w Leaf ops) = true.
Proof. intros w ops H. exact (model_meets_spec w ops Leaf I H). Qed.
Print Assumptions c36_model_meets_spec.

(* ---- felix/calc/iplpm.go (IpTrie over the third-party patricia trie, modelled as a finite map) ---- *)

(* after InsertKey(c, k), GetKeys(c) contains k *)
Theorem c36_ipt_insert_get : forall s c k, exists ks,
  ipt_get (insert_key s c k) c = Some ks /\ existsb (key_eqb k) ks = true.
Proof. exact insert_key_get. Qed.
Print Assumptions c36_ipt_insert_get.

(* REFUTED for the code as pinned: DeleteKey(c, k) does not leave other keys alone -- when c holds
   exactly one key k' <> k, k' is removed.  Replayed on the real IpTrie by the correspondence run
   (known finding iplpm-deletekey-nonmember-single; fix in fixes/C36-iplpm-deletekey-nonmember.patch). *)
Theorem c36_ipt_delete_other_refuted : exists s c k k',
  key_eqb k' k = false /\ ipt_get s c = Some [k'] /\ ipt_get (delete_key s c k) c = None.
Proof. exact delete_key_other_refuted. Qed.
Print Assumptions c36_ipt_delete_other_refuted.

(* the patched DeleteKey leaves a different single key alone *)
Theorem c36_ipt_delete_fixed_other : forall s c k k',
  ipt_get s c = Some [k'] -> key_eqb k' k = false -> delete_key_fixed s c k = s.
Proof. exact delete_key_fixed_other. Qed.
Print Assumptions c36_ipt_delete_fixed_other.
