(* C36 — proofs, part 1: the well-formedness invariant, the abstraction to_slice, and
   Update / Delete as map insert / remove. *)
From Coq Require Import List NArith Arith Bool Lia.
From Verif.Common Require Import Prefix.
From Verif.C36 Require Import Model Spec.
Import ListNotations.

Section W.
  Variable w : nat.

  Notation wfp := (wfp w).
  Notation covers := (covers w).
  Notation under := (under w).
  Notation contains := (contains w).
  Notation common_prefix := (common_prefix w).
  Notation nthbit := (nthbit w).

  (* subtree t may hang in branch b of a node with prefix c *)
  Definition hangs (c : prefix) (b : bool) (t : trie) : Prop :=
    match t with Leaf => True | Node k _ _ _ => under c b k = true end.

  (* the invariant: prefixes well-formed, children in the right branch, a node without data
     has two children *)
  Fixpoint wf (t : trie) : Prop :=
    match t with
    | Leaf => True
    | Node c d l r =>
        wfp c /\ (d = None -> l <> Leaf /\ r <> Leaf) /\
        hangs c false l /\ hangs c true r /\ wf l /\ wf r
    end.

  Definition tcov (t : trie) (p : prefix) : Prop :=
    match t with Leaf => False | Node c _ _ _ => covers c p = true end.

  Lemma hangs_covers : forall c b t p, wfp c -> wf t -> wfp p ->
    hangs c b t -> tcov t p -> under c b p = true.
  Proof.
    intros c b [|k d l r] p Hc Ht Hp H T; simpl in *; [contradiction|].
    apply (under_covers w c b k p); auto. apply Ht.
  Qed.

  Lemma slice_in : forall t e, wf t -> In e (to_slice t) -> wfp (fst e) /\ tcov t (fst e).
  Proof.
    induction t as [|c d l IHl r IHr]; intros e Ht Hin; simpl in *; [contradiction|].
    destruct Ht as (Hc & Hd & Hl & Hr & Wl & Wr).
    apply in_app_or in Hin. destruct Hin as [Hin|Hin].
    - destruct d; simpl in Hin; [|contradiction]. destruct Hin as [<-|[]]. simpl.
      split; auto. apply covers_refl; auto.
    - apply in_app_or in Hin. destruct Hin as [Hin|Hin].
      + destruct (IHl e Wl Hin) as [We Te]. split; auto.
        pose proof (hangs_covers c false l (fst e) Hc Wl We Hl Te) as U.
        apply under_spec in U. apply U.
      + destruct (IHr e Wr Hin) as [We Te]. split; auto.
        pose proof (hangs_covers c true r (fst e) Hc Wr We Hr Te) as U.
        apply under_spec in U. apply U.
  Qed.

  Lemma slice_under_l : forall c d l r e, wf (Node c d l r) -> In e (to_slice l) ->
    wfp (fst e) /\ under c false (fst e) = true.
  Proof.
    intros c d l r e (Hc & Hd & Hl & Hr & Wl & Wr) Hin.
    destruct (slice_in l e Wl Hin) as [We Te]. split; auto.
    apply (hangs_covers c false l); auto.
  Qed.

  Lemma slice_under_r : forall c d l r e, wf (Node c d l r) -> In e (to_slice r) ->
    wfp (fst e) /\ under c true (fst e) = true.
  Proof.
    intros c d l r e (Hc & Hd & Hl & Hr & Wl & Wr) Hin.
    destruct (slice_in r e Wr Hin) as [We Te]. split; auto.
    apply (hangs_covers c true r); auto.
  Qed.

  Lemma slice_under : forall c d l r b e, wf (Node c d l r) -> In e (to_slice (child l r b)) ->
    wfp (fst e) /\ under c b (fst e) = true.
  Proof.
    intros c d l r [|] e W Hin; simpl in Hin.
    - eapply slice_under_r; eauto.
    - eapply slice_under_l; eauto.
  Qed.

  Lemma slice_nonempty : forall t, wf t -> t <> Leaf -> to_slice t <> [].
  Proof.
    induction t as [|c d l IHl r IHr]; intros Ht Hn; [congruence|]. simpl.
    destruct Ht as (Hc & Hd & Hl & Hr & Wl & Wr).
    destruct d; simpl; [discriminate|].
    destruct (Hd eq_refl) as [Nl Nr]. specialize (IHl Wl Nl).
    destruct (to_slice l); [congruence|discriminate].
  Qed.

  (* ---------------------------------------------------------------- *)
  (* finite-map helpers                                                *)

  Lemma m_insert_app_lt : forall c v m1 m2,
    (forall e, In e m1 -> prefix_ltb (fst e) c = true) ->
    m_insert c v (m1 ++ m2) = m1 ++ m_insert c v m2.
  Proof.
    induction m1 as [|[k x] m1 IH]; intros m2 H; simpl; auto.
    assert (L : prefix_ltb k c = true) by (apply (H (k, x)); left; auto).
    rewrite (prefix_ltb_neq k c L), (prefix_ltb_asym k c L).
    f_equal. apply IH. intros e He. apply H. right; auto.
  Qed.

  Lemma m_insert_front : forall c v m,
    (forall e, In e m -> prefix_ltb c (fst e) = true) ->
    m_insert c v m = (c, v) :: m.
  Proof.
    intros c v [|[k x] m] H; simpl; auto.
    assert (L : prefix_ltb c k = true) by (apply (H (k, x)); left; auto).
    rewrite prefix_eqb_sym, (prefix_ltb_neq c k L), L. reflexivity.
  Qed.

  Lemma m_insert_app_gt : forall c v m1 m2,
    (forall e, In e m2 -> prefix_ltb c (fst e) = true) ->
    m_insert c v (m1 ++ m2) = m_insert c v m1 ++ m2.
  Proof.
    induction m1 as [|[k x] m1 IH]; intros m2 H; simpl.
    - apply m_insert_front; auto.
    - destruct (prefix_eqb k c); auto. destruct (prefix_ltb c k); auto.
      simpl. f_equal. apply IH; auto.
  Qed.

  Lemma m_remove_app : forall c m1 m2, m_remove c (m1 ++ m2) = m_remove c m1 ++ m_remove c m2.
  Proof. intros; unfold m_remove; apply filter_app. Qed.

  Lemma m_remove_absent : forall c m,
    (forall e, In e m -> fst e <> c) -> m_remove c m = m.
  Proof.
    induction m as [|e m IH]; intros H; simpl; auto.
    assert (fst e <> c) by (apply H; left; auto).
    apply prefix_eqb_neq in H0. rewrite H0. simpl. f_equal. apply IH. intros; apply H; right; auto.
  Qed.

  (* ---------------------------------------------------------------- *)
  (* order facts                                                       *)

  Lemma under_ltb_parent : forall c b p, wfp c -> wfp p -> under c b p = true -> prefix_ltb c p = true.
  Proof.
    intros c b p Hc Hp U. apply under_spec in U. destruct U as (C & L & _).
    apply (covers_ltb w); auto. intros ->. lia.
  Qed.

  Lemma under_neq : forall c b p, under c b p = true -> p <> c.
  Proof. intros c b p U ->. apply under_spec in U. lia. Qed.

  Lemma under_bit : forall c b p, under c b p = true -> nthbit (paddr p) (S (plen c)) = b.
  Proof. intros c b p U. apply under_spec in U. apply U. Qed.

  Lemma under_other : forall c b p, under c b p = true -> under c (negb b) p = false.
  Proof.
    intros c b p U. destruct (under c (negb b) p) eqn:E; auto.
    apply under_bit in U. apply under_bit in E. rewrite U in E. destruct b; discriminate.
  Qed.

  (* ---------------------------------------------------------------- *)
  (* Update                                                            *)

  Lemma strict_cover_len : forall p q, wfp p -> wfp q -> covers p q = true -> p <> q -> plen p < plen q.
  Proof.
    intros p q Hp Hq C Ne. pose proof (covers_len w _ _ C).
    destruct (Nat.eq_dec (plen p) (plen q)); [|lia].
    exfalso. apply Ne. apply (covers_same_len w); auto.
  Qed.

  Ltac split4 := refine (conj _ (conj _ (conj _ _))).
  Ltac wf_node := cbn [wf]; refine (conj _ (conj _ (conj _ (conj _ (conj _ _))))).

  Lemma update_spec : forall v c, wfp c -> forall t, wf t ->
    wf (update w t c v) /\
    to_slice (update w t c v) = m_insert c v (to_slice t) /\
    update w t c v <> Leaf /\
    (forall p b, wfp p -> hangs p b t -> under p b c = true -> hangs p b (update w t c v)).
  Proof.
    intros v c Hc. induction t as [|nc d l IHl r IHr]; intros Ht.
    - simpl. split4; auto; try discriminate.
      wf_node; simpl; auto; discriminate.
    - pose proof Ht as Ht0. destruct Ht as (Hn & Hd & Hl & Hr & Wl & Wr).
      specialize (IHl Wl). specialize (IHr Wr).
      destruct IHl as (IHl1 & IHl2 & IHl3 & IHl4). destruct IHr as (IHr1 & IHr2 & IHr3 & IHr4).
      cbn [update].
      destruct (prefix_eqb nc c) eqn:E.
      { (* same CIDR: replace the data *)
        apply prefix_eqb_eq in E. subst nc.
        split4; auto; try discriminate.
        - wf_node; auto. discriminate.
        - cbn [to_slice]. destruct d as [x|]; simpl.
          + rewrite prefix_eqb_refl. reflexivity.
          + symmetry. apply m_insert_front. intros e He.
            apply in_app_or in He. destruct He as [He|He].
            * destruct (slice_under_l _ _ _ _ _ Ht0 He). eapply under_ltb_parent; eauto.
            * destruct (slice_under_r _ _ _ _ _ Ht0 He). eapply under_ltb_parent; eauto. }
      apply prefix_eqb_neq in E.
      set (cp := common_prefix c nc).
      assert (Hcp : wfp cp) by (apply common_prefix_wf; auto).
      destruct (Nat.eqb (plen cp) (plen nc)) eqn:E1.
      { (* nc strictly covers c: recurse *)
        apply Nat.eqb_eq in E1.
        assert (C : covers nc c = true).
        { apply covers_common_prefix; auto. rewrite common_prefix_comm by auto. exact E1. }
        assert (L : plen nc < plen c) by (apply strict_cover_len; auto).
        rewrite E1.
        assert (U : under nc (nthbit (paddr c) (S (plen nc))) c = true) by (apply covers_under; auto).
        destruct (nthbit (paddr c) (S (plen nc))) eqn:B.
        - split4; auto; try discriminate.
          + wf_node; auto. intros D. destruct (Hd D). split; auto.
          + cbn [to_slice]. rewrite IHr2. rewrite !app_assoc.
            symmetry. apply m_insert_app_lt. intros e He.
            apply in_app_or in He. destruct He as [He|He].
            * destruct d; simpl in He; [|contradiction]. destruct He as [<-|[]]. simpl.
              eapply under_ltb_parent; eauto.
            * destruct (slice_under_l _ _ _ _ _ Ht0 He).
              apply (branches_ltb w nc); auto.
        - split4; auto; try discriminate.
          + wf_node; auto. intros D. destruct (Hd D). split; auto.
          + cbn [to_slice]. rewrite IHl2.
            destruct d as [x|]; simpl.
            * assert (Lt : prefix_ltb nc c = true) by (eapply under_ltb_parent; eauto).
              rewrite (prefix_ltb_neq nc c Lt), (prefix_ltb_asym nc c Lt). f_equal.
              symmetry. apply m_insert_app_gt. intros e He.
              destruct (slice_under_r _ _ _ _ _ Ht0 He). apply (branches_ltb w nc); auto.
            * symmetry. apply m_insert_app_gt. intros e He.
              destruct (slice_under_r _ _ _ _ _ Ht0 He). apply (branches_ltb w nc); auto. }
      apply Nat.eqb_neq in E1.
      assert (Lc := common_prefix_len w c nc). fold cp in Lc. destruct Lc as [Lc1 Lc2].
      assert (AllT : forall e, In e (to_slice (Node nc d l r)) -> wfp (fst e) /\ covers nc (fst e) = true).
      { intros e He. apply (slice_in _ _ Ht0 He). }
      destruct (Nat.eqb (plen cp) (plen c)) eqn:E2.
      { (* c strictly covers nc: new parent *)
        apply Nat.eqb_eq in E2.
        assert (C : covers c nc = true) by (apply covers_common_prefix; auto).
        assert (L : plen c < plen nc) by (apply strict_cover_len; auto).
        rewrite E2.
        assert (U : under c (nthbit (paddr nc) (S (plen c))) nc = true) by (apply covers_under; auto).
        assert (INS : m_insert c v (to_slice (Node nc d l r)) = (c, v) :: to_slice (Node nc d l r)).
        { apply m_insert_front. intros e He. destruct (AllT e He) as [We Ce].
          apply (covers_ltb w); auto.
          - apply (covers_trans w c nc); auto.
          - intros EQ. rewrite <- EQ in Ce. apply (covers_len w) in Ce. lia. }
        destruct (nthbit (paddr nc) (S (plen c))) eqn:B.
        - split4; auto; try discriminate.
          + wf_node; simpl; auto. discriminate.
        - split4; auto; try discriminate.
          + wf_node; simpl; auto. discriminate.
          + rewrite INS. cbn [to_slice app]. rewrite app_nil_r. reflexivity. }
      apply Nat.eqb_neq in E2.
      (* disjoint: new intermediate node *)
      assert (L1 : plen cp < plen c) by lia. assert (L2 : plen cp < plen nc) by lia.
      assert (Sp := common_prefix_split w c nc Hc Hn L1 L2). fold cp in Sp.
      assert (C1 : covers cp c = true) by (apply common_prefix_covers_l; auto).
      assert (C2 : covers cp nc = true) by (apply common_prefix_covers_r; auto).
      assert (Un : under cp (nthbit (paddr nc) (S (plen cp))) nc = true) by (apply covers_under; auto).
      assert (Uc : under cp (negb (nthbit (paddr nc) (S (plen cp)))) c = true).
      { apply under_spec. split; [auto|]. split; [auto|].
        destruct (nthbit (paddr c) (S (plen cp))), (nthbit (paddr nc) (S (plen cp))); simpl; congruence. }
      assert (WN : wf (Node c (Some v) Leaf Leaf)).
      { wf_node; simpl; auto. discriminate. }
      assert (HG : forall p b, wfp p -> hangs p b (Node nc d l r) -> under p b c = true -> under p b cp = true).
      { intros p b Hp Hh Upc. simpl in Hh. apply under_common_prefix; auto. }
      assert (AllU : forall e, In e (to_slice (Node nc d l r)) ->
                wfp (fst e) /\ under cp (nthbit (paddr nc) (S (plen cp))) (fst e) = true).
      { intros e He. destruct (AllT e He) as [We Ce]. split; auto.
        apply (under_covers w cp _ nc); auto. }
      destruct (nthbit (paddr nc) (S (plen cp))) eqn:B; simpl negb in Uc.
      + split4; auto; try discriminate.
        * wf_node; simpl; auto. intros _. split; discriminate.
        * change (to_slice (Node cp None (Node c (Some v) Leaf Leaf) (Node nc d l r)))
            with ((c, v) :: to_slice (Node nc d l r)).
          symmetry. apply m_insert_front. intros e He. destruct (AllU e He).
          apply (branches_ltb w cp); auto.
      + split4; auto; try discriminate.
        * wf_node; simpl; auto. intros _. split; discriminate.
        * change (to_slice (Node cp None (Node nc d l r) (Node c (Some v) Leaf Leaf)))
            with (to_slice (Node nc d l r) ++ [(c, v)]).
          rewrite <- (app_nil_r (to_slice (Node nc d l r))) at 2.
          rewrite m_insert_app_lt; [reflexivity|].
          intros e He. destruct (AllU e He). apply (branches_ltb w cp); auto.
  Qed.

  (* ---------------------------------------------------------------- *)
  (* Delete                                                            *)

  Lemma hangs_child : forall p b c d l r b', wfp p -> wf (Node c d l r) ->
    hangs p b (Node c d l r) -> hangs p b (child l r b').
  Proof.
    intros p b c d l r b' Hp W H. simpl in H.
    destruct W as (Hc & Hd & Hl & Hr & Wl & Wr).
    destruct b'; simpl.
    - destruct r as [|k dk lk rk]; simpl; auto. simpl in Hr.
      apply (under_covers w p b c k); auto. apply Wr.
      apply under_spec in Hr. apply Hr.
    - destruct l as [|k dk lk rk]; simpl; auto. simpl in Hl.
      apply (under_covers w p b c k); auto. apply Wl.
      apply under_spec in Hl. apply Hl.
  Qed.

  Lemma key_other_branch : forall nc d l r b' c e, wf (Node nc d l r) ->
    In e (to_slice (child l r b')) -> nthbit (paddr c) (S (plen nc)) = negb b' -> fst e <> c.
  Proof.
    intros nc d l r b' c e W He B EQ.
    destruct (slice_under _ _ _ _ _ _ W He) as [_ U]. rewrite EQ in U.
    apply under_bit in U. rewrite U in B. destruct b'; discriminate.
  Qed.

  Lemma key_strict : forall nc d l r b' e, wf (Node nc d l r) ->
    In e (to_slice (child l r b')) -> fst e <> nc.
  Proof.
    intros nc d l r b' e W He. destruct (slice_under _ _ _ _ _ _ W He) as [_ U].
    eapply under_neq; eauto.
  Qed.

  Lemma m_remove_head : forall c (d : option N), m_remove c (match d return list (prefix * N) with Some v => [(c, v)] | None => [] end) = [].
  Proof. intros c [x|]; simpl; auto. rewrite prefix_eqb_refl. reflexivity. Qed.

  Lemma m_remove_head_ne : forall c nc (d : option N), nc <> c ->
    m_remove c (match d return list (prefix * N) with Some v => [(nc, v)] | None => [] end) = match d with Some v => [(nc, v)] | None => [] end.
  Proof. intros c nc [x|] Ne; simpl; auto. apply prefix_eqb_neq in Ne. rewrite Ne. reflexivity. Qed.

  Lemma is_leaf_true : forall t, is_leaf t = true -> t = Leaf.
  Proof. intros [|]; simpl; congruence. Qed.

  Lemma delete_internal_spec : forall c, wfp c -> forall t, wf t ->
    wf (delete_internal w t c) /\
    to_slice (delete_internal w t c) = m_remove c (to_slice t) /\
    (forall p b, wfp p -> hangs p b t -> hangs p b (delete_internal w t c)).
  Proof.
    intros c Hc. induction t as [|nc d l IHl r IHr]; intros Ht.
    - simpl. auto.
    - pose proof Ht as Ht0. destruct Ht as (Hn & Hd & Hl & Hr & Wl & Wr).
      specialize (IHl Wl). specialize (IHr Wr).
      destruct IHl as (IHl1 & IHl2 & IHl3). destruct IHr as (IHr1 & IHr2 & IHr3).
      cbn [delete_internal].
      destruct (contains nc (paddr c)) eqn:Ct; cbn [negb].
      2:{ split; [auto|]. split; [|auto].
          symmetry. apply m_remove_absent. intros e He EQ.
          destruct (slice_in _ _ Ht0 He) as [_ T]. simpl in T. rewrite EQ in T.
          unfold Prefix.covers in T. rewrite Ct, andb_false_r in T. discriminate. }
      destruct (prefix_eqb c nc) eqn:E.
      { apply prefix_eqb_eq in E. subst nc.
        assert (RM : m_remove c (to_slice (Node c d l r)) = to_slice l ++ to_slice r).
        { cbn [to_slice]. rewrite !m_remove_app, m_remove_head. simpl. f_equal.
          - apply m_remove_absent. intros e He. apply (key_strict c d l r false e Ht0 He).
          - apply m_remove_absent. intros e He. apply (key_strict c d l r true e Ht0 He). }
        rewrite RM.
        destruct l as [|kl dl ll rl].
        { split; [auto|]. split; [reflexivity|].
          intros p b Hp Hh. apply (hangs_child p b c d Leaf r true Hp Ht0 Hh). }
        destruct r as [|kr dr lr rr].
        { split; [auto|]. split; [simpl; rewrite !app_nil_r; reflexivity|].
          intros p b Hp Hh. apply (hangs_child p b c d _ Leaf false Hp Ht0 Hh). }
        split; [|split; [reflexivity|auto]].
        wf_node; auto. intros _. split; discriminate. }
      apply prefix_eqb_neq in E.
      assert (Ne : nc <> c) by congruence.
      unfold next_bit.
      assert (RM : forall b', nthbit (paddr c) (S (plen nc)) = negb b' ->
                 m_remove c (to_slice (child l r b')) = to_slice (child l r b')).
      { intros b' B. apply m_remove_absent. intros e He. eapply key_other_branch; eauto. }
      destruct (nthbit (paddr c) (S (plen nc))) eqn:B.
      + (* right branch *)
        destruct (is_leaf r) eqn:IL.
        { apply is_leaf_true in IL. subst r.
          split; [auto|]. split; [|auto].
          cbn [to_slice]. rewrite !m_remove_app, (m_remove_head_ne c nc d Ne). simpl.
          assert (R := RM false eq_refl); cbn [child] in R; rewrite R. reflexivity. }
        assert (TS : m_remove c (to_slice (Node nc d l r)) =
                     match d with Some v => [(nc, v)] | None => [] end ++ to_slice l ++ to_slice (delete_internal w r c)).
        { cbn [to_slice]. rewrite !m_remove_app, (m_remove_head_ne c nc d Ne), IHr2.
          assert (R := RM false eq_refl); cbn [child] in R; rewrite R. reflexivity. }
        rewrite TS.
        destruct (delete_internal w r c) as [|kn dn ln rn] eqn:DN.
        * destruct d as [x|].
          -- split; [|split; [reflexivity|auto]].
             wf_node; simpl; auto. discriminate.
          -- split; [auto|]. split; [simpl; rewrite app_nil_r; reflexivity|].
             intros p b Hp Hh. apply (hangs_child p b nc None l r false Hp Ht0 Hh).
        * assert (WF' : wf (Node nc d l (Node kn dn ln rn))).
          { wf_node; auto; try (apply IHr3; auto).
            intros D. destruct (Hd D). split; [auto|discriminate]. }
          destruct d; (split; [exact WF'|split; [reflexivity|auto]]).
      + (* left branch *)
        destruct (is_leaf l) eqn:IL.
        { apply is_leaf_true in IL. subst l.
          split; [auto|]. split; [|auto].
          cbn [to_slice]. rewrite !m_remove_app, (m_remove_head_ne c nc d Ne). simpl.
          assert (R := RM true eq_refl); cbn [child] in R; rewrite R. reflexivity. }
        assert (TS : m_remove c (to_slice (Node nc d l r)) =
                     match d with Some v => [(nc, v)] | None => [] end ++ to_slice (delete_internal w l c) ++ to_slice r).
        { cbn [to_slice]. rewrite !m_remove_app, (m_remove_head_ne c nc d Ne), IHl2.
          assert (R := RM true eq_refl); cbn [child] in R; rewrite R. reflexivity. }
        rewrite TS.
        destruct (delete_internal w l c) as [|kn dn ln rn] eqn:DN.
        * destruct d as [x|].
          -- split; [|split; [reflexivity|auto]].
             wf_node; simpl; auto. discriminate.
          -- split; [auto|]. split; [reflexivity|].
             intros p b Hp Hh. apply (hangs_child p b nc None l r true Hp Ht0 Hh).
        * assert (WF' : wf (Node nc d (Node kn dn ln rn) r)).
          { wf_node; auto; try (apply IHl3; auto).
            intros D. destruct (Hd D). split; [discriminate|auto]. }
          destruct d; (split; [exact WF'|split; [reflexivity|auto]]).
  Qed.

  Lemma delete_spec : forall c t, wfp c -> wf t ->
    wf (delete w t c) /\ to_slice (delete w t c) = m_remove c (to_slice t).
  Proof.
    intros c [|nc d l r] Hc Ht; [simpl; auto|].
    unfold delete.
    destruct (prefix_eqb (common_prefix nc c) nc) eqn:E.
    - destruct (delete_internal_spec c Hc _ Ht) as (A & B & _). auto.
    - split; auto. symmetry. apply m_remove_absent. intros e He EQ.
      destruct (slice_in _ _ Ht He) as [_ T]. simpl in T. rewrite EQ in T.
      apply covers_common_prefix_eq in T; auto; [|apply Ht].
      rewrite T, prefix_eqb_refl in E. discriminate.
  Qed.

End W.
