(* C36 — proofs. *)
From Coq Require Import List NArith Arith Bool Lia.
From Verif.Common Require Import Prefix.
From Verif.C36 Require Import Model Spec.
Import ListNotations.

Lemma update_empty : forall w c v, to_slice (update w Leaf c v) = [(c, v)].
Proof. reflexivity. Qed.
