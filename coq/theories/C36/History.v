(* C36 — proofs, part 3: histories.  Every trie reachable by Update/Delete from the empty
   trie is well-formed and its ToSlice is the specification map of the same history. *)
From Coq Require Import List NArith Arith Bool Lia.
From Verif.Common Require Import Prefix.
From Verif.C36 Require Import Model Spec Proofs Queries.
Import ListNotations.

Section W.
  Variable w : nat.

  Lemma step_trie_spec : forall t o, wf w t -> op_wf w o = true ->
    wf w (fst (step w t o)) /\ to_slice (fst (step w t o)) = spec_step (to_slice t) o.
  Proof.
    intros t o W Ho. destruct o; simpl in *; auto.
    - apply wfpb_spec in Ho. destruct (update_spec w v c Ho t W) as (A & B & _). auto.
    - apply wfpb_spec in Ho. apply delete_spec; auto.
  Qed.

  Theorem run_trie_spec : forall ops t, wf w t -> forallb (op_wf w) ops = true ->
    wf w (run_trie w t ops) /\
    to_slice (run_trie w t ops) = fold_left spec_step ops (to_slice t).
  Proof.
    induction ops as [|o ops IH]; intros t W H; simpl in *; auto.
    apply andb_true_iff in H. destruct H as [Ho H].
    destruct (step_trie_spec t o W Ho) as [W' S'].
    destruct (IH _ W' H) as [A B]. split; auto. rewrite B, S'. reflexivity.
  Qed.

End W.
