(* C36 — proofs, part 3: histories.  Every trie reachable by Update/Delete from the empty
   trie is well-formed and its ToSlice is the specification map of the same history. *)
From Coq Require Import List NArith Arith Bool Lia.
From Verif.Common Require Import Prefix.
From Verif.C36 Require Import Model Spec Proofs Queries General.
Import ListNotations.

Section W.
  Variable w : nat.

  Lemma step_trie_spec : forall t o, wf w t -> op_wf w o = true ->
    wf w (fst (step w t o)) /\ to_slice (fst (step w t o)) = spec_step (to_slice t) o.
  Proof.
    intros t o W Ho. destruct o; simpl in *; auto.
    - apply wfpb_spec in Ho. destruct (update_spec w v c Ho t W) as (A & B & _). auto.
    - apply wfpb_spec in Ho. apply delete_spec; auto.
  Qed.

  Theorem run_trie_spec : forall ops t, wf w t -> forallb (op_wf w) ops = true ->
    wf w (run_trie w t ops) /\
    to_slice (run_trie w t ops) = fold_left spec_step ops (to_slice t).
  Proof.
    induction ops as [|o ops IH]; intros t W H; simpl in *; auto.
    apply andb_true_iff in H. destruct H as [Ho H].
    destruct (step_trie_spec t o W Ho) as [W' S'].
    destruct (IH _ W' H) as [A B]. split; auto. rewrite B, S'. reflexivity.
  Qed.

  (* ---------------------------------------------------------------- *)
  (* the oracle accepts every run of the model (operations whose theorem is proved) *)

  Definition op_proved (o : op) : bool :=
    match o with
    | OpClosest _ _ => false
    | OpLPM q => Nat.eqb (plen q) w
    | _ => true
    end.

  Lemma opt_eqb_refl : forall {A} (eqb : A -> A -> bool), (forall a, eqb a a = true) ->
    forall x, opt_eqb eqb x x = true.
  Proof. intros A eqb H [a|]; simpl; auto. Qed.

  Lemma list_eqb_refl : forall {A} (eqb : A -> A -> bool), (forall a, eqb a a = true) ->
    forall x, list_eqb eqb x x = true.
  Proof. intros A eqb H. induction x; simpl; auto. rewrite H, IHx. reflexivity. Qed.

  Lemma entry_eqb_refl : forall e, entry_eqb e e = true.
  Proof. intros [p v]. unfold entry_eqb. simpl. rewrite prefix_eqb_refl, N.eqb_refl. reflexivity. Qed.

  Lemma step_ok : forall t o, wf w t -> op_wf w o = true -> op_proved o = true ->
    ok_out w (to_slice t) o (snd (step w t o)) = true.
  Proof.
    intros t o W Ho Hp. destruct o; simpl in *; auto; try discriminate.
    - apply wfpb_spec in Ho. rewrite get_spec by auto. apply opt_eqb_refl, N.eqb_refl.
    - apply wfpb_spec in Ho. apply Nat.eqb_eq in Hp. unfold ok_lpm.
      rewrite <- Hp at 1. rewrite Nat.eqb_refl.
      assert (E : c = host w (paddr c)) by (destruct c; simpl in *; subst; reflexivity).
      rewrite E at 1. rewrite lpm_host_spec; auto; [|apply Ho].
      apply opt_eqb_refl, entry_eqb_refl.
    - apply wfpb_spec in Ho. rewrite covers_spec_trie by auto. apply eqb_reflx.
    - apply wfpb_spec in Ho. rewrite intersects_spec_trie by auto. apply eqb_reflx.
    - apply wfpb_spec in Ho. rewrite lookup_path_spec by auto. apply list_eqb_refl, entry_eqb_refl.
    - apply list_eqb_refl, entry_eqb_refl.
  Qed.

  Theorem model_meets_spec_partial : forall ops t, wf w t ->
    forallb (op_wf w) ops = true -> forallb op_proved ops = true ->
    ok_trace_from w (to_slice t) ops (run w t ops) = true.
  Proof.
    induction ops as [|o ops IH]; intros t W H1 H2; simpl in *; auto.
    apply andb_true_iff in H1. destruct H1 as [Ho H1].
    apply andb_true_iff in H2. destruct H2 as [Hp H2].
    pose proof (step_ok t o W Ho Hp) as OK.
    destruct (step_trie_spec t o W Ho) as [W' S'].
    destruct (step w t o) as [t' r] eqn:ST. simpl in *.
    rewrite OK. simpl. rewrite <- S'. apply IH; auto.
  Qed.

  (* ---------------------------------------------------------------- *)
  (* the oracle accepts every run of the model, all operations         *)

  Lemma ok_lpm_general : forall t q, wf w t -> wfp w q -> Nat.eqb (plen q) w = false ->
    ok_lpm w (to_slice t) q (lpm w t q) = true.
  Proof.
    intros t q W Hq NE. unfold ok_lpm. rewrite NE. rewrite (lpm_general_spec w t q W Hq).
    unfold spec_lpm_general.
    destruct (is_node w (to_slice t) q) eqn:IN.
    - destruct (spec_lpm_cover w (to_slice t) q) as [[p v]|] eqn:R.
      + unfold spec_lpm_cover in R. destruct (longest_some _ _ _ R) as (I1 & F1 & _). simpl in F1.
        rewrite (in_slice_get w t W p v I1). simpl. rewrite N.eqb_refl.
        rewrite (covers_contains w p q F1). simpl. apply Nat.leb_refl.
      + unfold spec_lpm_cover in R. apply negb_true_iff. apply existsb_false.
        intros e He. apply (longest_none _ _ R e He).
    - destruct (spec_lpm_addr w (to_slice t) (paddr q)) as [[p v]|] eqn:R.
      + unfold spec_lpm_addr in R. destruct (longest_some _ _ _ R) as (I1 & F1 & M1). simpl in F1.
        rewrite (in_slice_get w t W p v I1). simpl. rewrite N.eqb_refl, F1. simpl.
        destruct (spec_lpm_cover w (to_slice t) q) as [[b vb]|] eqn:R2; auto.
        unfold spec_lpm_cover in R2. destruct (longest_some _ _ _ R2) as (I2 & F2 & _). simpl in F2.
        apply Nat.leb_le. apply (M1 (b, vb) I2). simpl. apply (covers_contains w b q F2).
      + unfold spec_lpm_addr in R. apply negb_true_iff. apply existsb_false.
        intros e He. pose proof (longest_none _ _ R e He) as F. simpl in F.
        destruct (covers w (fst e) q) eqn:C; auto. apply (covers_contains w) in C. congruence.
  Qed.

  Lemma step_ok_full : forall t o, wf w t -> op_wf w o = true ->
    ok_out w (to_slice t) o (snd (step w t o)) = true.
  Proof.
    intros t o W Ho.
    destruct (op_proved o) eqn:P; [apply step_ok; auto|].
    destruct o; simpl in P; try discriminate.
    - (* LPM with a shorter query *)
      simpl in Ho. apply wfpb_spec in Ho. unfold step. cbn [snd ok_out]. apply ok_lpm_general; auto.
    - (* ClosestDescendants *)
      simpl in Ho. apply andb_true_iff in Ho. destruct Ho as [Ho _]. apply wfpb_spec in Ho.
      unfold step. cbn [snd]. rewrite (closest_descendants_spec w t c buf W Ho). cbn [ok_out]. unfold ok_closest.
      destruct (is_node w (to_slice t) c).
      + apply list_eqb_refl. apply prefix_eqb_refl.
      + reflexivity.
  Qed.

  Theorem model_meets_spec : forall ops t, wf w t -> forallb (op_wf w) ops = true ->
    ok_trace_from w (to_slice t) ops (run w t ops) = true.
  Proof.
    induction ops as [|o ops IH]; intros t W H1; simpl in *; auto.
    apply andb_true_iff in H1. destruct H1 as [Ho H1].
    pose proof (step_ok_full t o W Ho) as OK.
    destruct (step_trie_spec t o W Ho) as [W' S'].
    destruct (step w t o) as [t' r] eqn:ST. simpl in *.
    rewrite OK. simpl. rewrite <- S'. apply IH; auto.
  Qed.

End W.
