(* C36 — felix/calc/iplpm.go (IpTrie): the CIDR -> network-set-keys index used by the
   NetworkSet lookup cache.  The third-party patricia trie underneath is modelled as a finite map
   from (ip version, prefix) to the node's key list whose VisitPrefixes visits exactly the stored
   CIDRs containing the address (in the list's order, which is arbitrary: every theorem holds for
   every order).  Model, specification oracle (set semantics) and theorems in one file. *)
From Coq Require Import List NArith Arith Bool Lia.
From Verif.Common Require Import Prefix.
From Verif.C36 Require Import Model Spec.
Import ListNotations.

(* (width, prefix): AsBinary() starts with the 4-bit version, so v4 and v6 never mix *)
Definition vp := (nat * prefix)%type.
Definition vp_eqb (a b : vp) : bool := Nat.eqb (fst a) (fst b) && prefix_eqb (snd a) (snd b).

(* model.Key as seen by IpTrie: identity, whether it is a NetworkSetKey, its namespace, String() *)
Record nkey := mkK { k_id : N; k_netset : bool; k_ns : list N; k_str : list N }.
Definition key_eqb (a b : nkey) : bool := N.eqb (k_id a) (k_id b).

Definition ipt := list (vp * list nkey).

Fixpoint ipt_get (s : ipt) (c : vp) : option (list nkey) :=
  match s with
  | [] => None
  | (c', ks) :: s' => if vp_eqb c' c then Some ks else ipt_get s' c
  end.
Fixpoint ipt_set (s : ipt) (c : vp) (ks : list nkey) : ipt :=
  match s with
  | [] => []
  | (c', ks') :: s' => if vp_eqb c' c then (c', ks) :: s' else (c', ks') :: ipt_set s' c ks
  end.
Definition ipt_remove (s : ipt) (c : vp) : ipt := filter (fun e => negb (vp_eqb (fst e) c)) s.

Fixpoint replace_first (k : nkey) (ks : list nkey) : list nkey :=
  match ks with
  | [] => []
  | x :: r => if key_eqb k x then k :: r else x :: replace_first k r
  end.

(* InsertKey *)
Definition insert_key (s : ipt) (c : vp) (k : nkey) : ipt :=
  match ipt_get s c with
  | None => s ++ [(c, [k])]
  | Some ks => ipt_set s c (if existsb (key_eqb k) ks then replace_first k ks else ks ++ [k])
  end.

(* DeleteKey: a node with exactly one key is deleted whatever the key argument is *)
Definition delete_key (s : ipt) (c : vp) (k : nkey) : ipt :=
  match ipt_get s c with
  | None => s
  | Some ks =>
      if Nat.eqb (length ks) 1 then ipt_remove s c
      else ipt_set s c (filter (fun x => negb (key_eqb x k)) ks)
  end.

(* DeleteKey with fixes/C36-iplpm-deletekey-nonmember.patch applied: a single key is only deleted
   when it is the key named by the caller *)
Definition delete_key_fixed (s : ipt) (c : vp) (k : nkey) : ipt :=
  match ipt_get s c with
  | None => s
  | Some ks =>
      if Nat.eqb (length ks) 1 then
        (if forallb (fun x => key_eqb x k) ks then ipt_remove s c else s)
      else ipt_set s c (filter (fun x => negb (key_eqb x k)) ks)
  end.

(* Go string comparison on bytes *)
Fixpoint lex_ltb (a b : list N) : bool :=
  match a, b with
  | [], [] => false
  | [], _ => true
  | _, [] => false
  | x :: a', y :: b' => if N.ltb x y then true else if N.ltb y x then false else lex_ltb a' b'
  end.

(* getLowestSortingKey *)
Definition lowest (ks : list nkey) : option nkey :=
  match ks with
  | [] => None
  | k :: r => Some (fold_left (fun best x => if lex_ltb (k_str x) (k_str best) then x else best) r k)
  end.

Definition vcontains (c : vp) (q : nat * N) : bool :=
  Nat.eqb (fst c) (fst q) && contains (fst c) (snd c) (snd q).

(* GetLongestPrefixCidr *)
Definition lpm_step (q : nat * N) (best : option (vp * list nkey)) (e : vp * list nkey) :=
  if vcontains (fst e) q then
    match best with
    | None => Some e
    | Some b => if (plen (snd (fst b)) <? plen (snd (fst e)))%nat then Some e else Some b
    end
  else best.
Definition ipt_lpm (s : ipt) (q : nat * N) : option nkey :=
  match fold_left (lpm_step q) s None with
  | None => None
  | Some (_, ks) => lowest ks
  end.

(* GetLongestPrefixCidrWithNamespaceIsolation *)
Record bestm := { b_keys : list nkey; b_len : nat }.
Definition update_best (b : bestm) (len : nat) (k : nkey) : bestm :=
  if (b_len b <? len)%nat then {| b_keys := [k]; b_len := len |}
  else if Nat.eqb len (b_len b) then {| b_keys := b_keys b ++ [k]; b_len := b_len b |}
  else b.
Definition list_N_eqb (a b : list N) : bool := list_eqb N.eqb a b.
Definition is_nil {A} (l : list A) : bool := match l with [] => true | _ => false end.
(* 0 = preferred, 1 = global, 2 = other *)
Definition ns_class (pref : list N) (k : nkey) : nat :=
  if negb (is_nil pref) && list_N_eqb (k_ns k) pref then 0
  else if is_nil (k_ns k) then 1 else 2.
Definition ns_visit_key (pref : list N) (len : nat) (st : bestm * bestm * bestm) (k : nkey) :=
  let '(p, g, o) := st in
  if negb (k_netset k) then st
  else match ns_class pref k with
       | 0 => (update_best p len k, g, o)
       | 1 => (p, update_best g len k, o)
       | _ => (p, g, update_best o len k)
       end.
Definition ns_visit (q : nat * N) (pref : list N) (st : bestm * bestm * bestm) (e : vp * list nkey) :=
  if vcontains (fst e) q then fold_left (ns_visit_key pref (4 + plen (snd (fst e)))) (snd e) st else st.
Definition ipt_lpm_ns (s : ipt) (q : nat * N) (pref : list N) : option nkey :=
  let b0 := {| b_keys := []; b_len := 0 |} in
  let '(p, g, o) := fold_left (ns_visit q pref) s (b0, b0, b0) in
  if negb (is_nil (b_keys p)) then lowest (b_keys p)
  else if negb (is_nil (b_keys g)) then lowest (b_keys g)
  else if negb (is_nil (b_keys o)) then lowest (b_keys o)
  else None.

(* ------------------------------------------------------------------ *)
(* traces                                                              *)

Inductive iop :=
| IInsert (c : vp) (k : nkey)
| IDelete (c : vp) (k : nkey)
| IGetKeys (c : vp)
| ILpm (q : nat * N)
| ILpmNs (q : nat * N) (pref : list N).

Inductive iout :=
| IONone
| IOKeys (r : option (list N))
| IOKey (r : option N).

Definition istep (s : ipt) (o : iop) : ipt * iout :=
  match o with
  | IInsert c k => (insert_key s c k, IONone)
  | IDelete c k => (delete_key s c k, IONone)
  | IGetKeys c => (s, IOKeys (option_map (map k_id) (ipt_get s c)))
  | ILpm q => (s, IOKey (option_map k_id (ipt_lpm s q)))
  | ILpmNs q pref => (s, IOKey (option_map k_id (ipt_lpm_ns s q pref)))
  end.
Fixpoint irun (s : ipt) (ops : list iop) : list iout :=
  match ops with
  | [] => []
  | o :: ops' => let (s', r) := istep s o in r :: irun s' ops'
  end.

(* the same with the patched DeleteKey *)
Definition istep_fixed (s : ipt) (o : iop) : ipt * iout :=
  match o with
  | IDelete c k => (delete_key_fixed s c k, IONone)
  | _ => istep s o
  end.
Fixpoint irun_fixed (s : ipt) (ops : list iop) : list iout :=
  match ops with
  | [] => []
  | o :: ops' => let (s', r) := istep_fixed s o in r :: irun_fixed s' ops'
  end.

Definition iout_eqb (a b : iout) : bool :=
  match a, b with
  | IONone, IONone => true
  | IOKeys x, IOKeys y => opt_eqb (list_eqb N.eqb) x y
  | IOKey x, IOKey y => opt_eqb N.eqb x y
  | _, _ => false
  end.

(* ------------------------------------------------------------------ *)
(* specification: a set of (cidr, key) pairs                           *)

Definition pairs := list (vp * nkey).
Definition pair_is (c : vp) (k : nkey) (e : vp * nkey) : bool := vp_eqb (fst e) c && key_eqb (snd e) k.
Definition sp_insert (m : pairs) (c : vp) (k : nkey) : pairs :=
  filter (fun e => negb (pair_is c k e)) m ++ [(c, k)].
Definition sp_delete (m : pairs) (c : vp) (k : nkey) : pairs :=
  filter (fun e => negb (pair_is c k e)) m.

Definition keys_of (m : pairs) (c : vp) : list nkey := map snd (filter (fun e => vp_eqb (fst e) c) m).

Definition ok_keys (m : pairs) (c : vp) (r : option (list N)) : bool :=
  match r with
  | None => is_nil (keys_of m c)
  | Some l => negb (is_nil l) && Nat.eqb (length l) (length (keys_of m c))
              && forallb (fun k => existsb (N.eqb (k_id k)) l) (keys_of m c)
  end.

(* r is the best of the candidates: longest CIDR, then lowest String() *)
Definition ok_best (cands : pairs) (r : option N) : bool :=
  match r with
  | None => is_nil cands
  | Some id =>
      existsb (fun e => N.eqb (k_id (snd e)) id &&
        forallb (fun e' => (plen (snd (fst e')) <=? plen (snd (fst e)))%nat &&
                           (negb (Nat.eqb (plen (snd (fst e'))) (plen (snd (fst e))))
                            || negb (lex_ltb (k_str (snd e')) (k_str (snd e))))) cands) cands
  end.

Definition ok_ilpm (m : pairs) (q : nat * N) (r : option N) : bool :=
  ok_best (filter (fun e => vcontains (fst e) q) m) r.

Definition ok_ilpm_ns (m : pairs) (q : nat * N) (pref : list N) (r : option N) : bool :=
  let cands := filter (fun e => vcontains (fst e) q && k_netset (snd e)) m in
  let cls n := filter (fun e => Nat.eqb (ns_class pref (snd e)) n) cands in
  if negb (is_nil (cls 0)) then ok_best (cls 0) r
  else if negb (is_nil (cls 1)) then ok_best (cls 1) r
  else ok_best (cls 2) r.

Definition sp_step (m : pairs) (o : iop) : pairs :=
  match o with
  | IInsert c k => sp_insert m c k
  | IDelete c k => sp_delete m c k
  | _ => m
  end.
Definition ok_iout (m : pairs) (o : iop) (r : iout) : bool :=
  match o, r with
  | IInsert _ _, IONone => true
  | IDelete _ _, IONone => true
  | IGetKeys c, IOKeys r => ok_keys m c r
  | ILpm q, IOKey r => ok_ilpm m q r
  | ILpmNs q pref, IOKey r => ok_ilpm_ns m q pref r
  | _, _ => false
  end.
Fixpoint ok_itrace_from (m : pairs) (ops : list iop) (outs : list iout) : bool :=
  match ops, outs with
  | [], [] => true
  | o :: ops', r :: outs' => ok_iout m o r && ok_itrace_from (sp_step m o) ops' outs'
  | _, _ => false
  end.

Record icase := { i_ops : list iop; i_outs : list iout }.
Definition check_icase (c : icase) : bool * bool :=
  (* the implementation must behave as the model of the code as pinned or as the model of the
     code with the DeleteKey fix; the oracle decides whether the behaviour is acceptable *)
  (list_eqb iout_eqb (irun [] (i_ops c)) (i_outs c) || list_eqb iout_eqb (irun_fixed [] (i_ops c)) (i_outs c),
   ok_itrace_from [] (i_ops c) (i_outs c)).

(* one correspondence case of either stream *)
Inductive xcase := XTrie (c : case) | XIpt (c : icase).
Definition check_xcase (x : xcase) : bool * bool :=
  match x with XTrie c => check_case c | XIpt c => check_icase c end.

(* ------------------------------------------------------------------ *)
(* theorems                                                            *)

Lemma vp_eqb_refl : forall c, vp_eqb c c = true.
Proof. intros [w p]. unfold vp_eqb. simpl. rewrite Nat.eqb_refl, prefix_eqb_refl. reflexivity. Qed.

Lemma key_eqb_refl : forall k, key_eqb k k = true.
Proof. intros k. unfold key_eqb. apply N.eqb_refl. Qed.

Lemma ipt_get_set_same : forall s c ks ks', ipt_get s c = Some ks -> ipt_get (ipt_set s c ks') c = Some ks'.
Proof.
  induction s as [|[c0 k0] s IH]; intros c ks ks' H; simpl in *; [discriminate|].
  destruct (vp_eqb c0 c) eqn:E; simpl; rewrite E; eauto.
Qed.

Lemma ipt_get_app_new : forall s c v, ipt_get s c = None -> ipt_get (s ++ [(c, v)]) c = Some v.
Proof.
  induction s as [|[c0 k0] s IH]; intros c v H; simpl in *.
  - rewrite vp_eqb_refl. reflexivity.
  - destruct (vp_eqb c0 c); [discriminate|auto].
Qed.

Lemma replace_first_has : forall k ks, existsb (key_eqb k) ks = true -> existsb (key_eqb k) (replace_first k ks) = true.
Proof.
  induction ks as [|x r IH]; intros H; simpl in *; [discriminate|].
  destruct (key_eqb k x) eqn:E; simpl.
  - rewrite key_eqb_refl. reflexivity.
  - rewrite E. simpl. auto.
Qed.

(* after InsertKey(c, k), GetKeys(c) holds k *)
Lemma insert_key_get : forall s c k, exists ks,
  ipt_get (insert_key s c k) c = Some ks /\ existsb (key_eqb k) ks = true.
Proof.
  intros s c k. unfold insert_key. destruct (ipt_get s c) as [ks|] eqn:G.
  - eexists. split; [eapply ipt_get_set_same; eauto|].
    destruct (existsb (key_eqb k) ks) eqn:E.
    + apply replace_first_has; auto.
    + rewrite existsb_app. simpl. rewrite key_eqb_refl. apply orb_true_r.
  - exists [k]. split; [apply ipt_get_app_new; auto|]. simpl. rewrite key_eqb_refl. reflexivity.
Qed.

(* the pinned DeleteKey removes another network set's only key: the statement "DeleteKey(c, k)
   leaves keys other than k alone" is false of the faithful model *)
Lemma delete_key_other_refuted : exists s c k k',
  key_eqb k' k = false /\ ipt_get s c = Some [k'] /\ ipt_get (delete_key s c k) c = None.
Proof.
  exists [((32, mkP 167772160 27), [mkK 1 true [] [122]%N])], (32, mkP 167772160 27),
         (mkK 8 true [110]%N [110; 47; 120]%N), (mkK 1 true [] [122]%N).
  vm_compute. auto.
Qed.

(* with the fix it does not *)
Lemma delete_key_fixed_other : forall s c k k',
  ipt_get s c = Some [k'] -> key_eqb k' k = false -> delete_key_fixed s c k = s.
Proof.
  intros s c k k' G NE. unfold delete_key_fixed. rewrite G. simpl. rewrite NE. reflexivity.
Qed.
