(* C36 — specification level.  The stored prefixes are a finite map kept as an association
   list sorted by (address, length); every query is computed directly over that list with
   plain prefix arithmetic (Common/Prefix.v), with no reference to the trie.  [ok_trace] is the
   oracle applied to the implementation's own outputs. *)
From Coq Require Import List NArith Arith Bool.
From Verif.Common Require Import Prefix.
From Verif.C36 Require Import Model.
Import ListNotations.

Definition smap := list (prefix * N).

(* the finite map *)
Fixpoint m_insert (c : prefix) (v : N) (m : smap) : smap :=
  match m with
  | [] => [(c, v)]
  | (k, x) :: m' =>
      if prefix_eqb k c then (c, v) :: m'
      else if prefix_ltb c k then (c, v) :: m
      else (k, x) :: m_insert c v m'
  end.
Definition m_remove (c : prefix) (m : smap) : smap :=
  filter (fun e => negb (prefix_eqb (fst e) c)) m.
Definition m_get (c : prefix) (m : smap) : option N :=
  match find (fun e => prefix_eqb (fst e) c) m with Some e => Some (snd e) | None => None end.
Definition m_mem (c : prefix) (m : smap) : bool :=
  existsb (fun e => prefix_eqb (fst e) c) m.

Section Width.
  Variable w : nat.

  (* Covers: some stored prefix covers the query *)
  Definition spec_covers (m : smap) (q : prefix) : bool :=
    existsb (fun e => covers w (fst e) q) m.

  (* Intersects: some stored prefix lies inside the query ("we must have some value that is
     inside the target CIDR").  Stored prefixes that strictly contain the query are reported
     by Covers, not by Intersects; the one caller (kube-controllers ippool) tests
     Get || Intersects || Covers, which is spec_overlaps below. *)
  Definition spec_intersects (m : smap) (q : prefix) : bool :=
    existsb (fun e => covers w q (fst e)) m.
  Definition spec_overlaps (m : smap) (q : prefix) : bool :=
    existsb (fun e => overlaps w (fst e) q) m.

  (* longest stored prefix satisfying a test *)
  Definition longer (best : option (prefix * N)) (e : prefix * N) : option (prefix * N) :=
    match best with
    | None => Some e
    | Some b => if (plen (fst b) <? plen (fst e))%nat then Some e else Some b
    end.
  Definition longest (f : prefix -> bool) (m : smap) : option (prefix * N) :=
    fold_left (fun best e => if f (fst e) then longer best e else best) m None.

  (* LPM of an address: the longest stored prefix containing it *)
  Definition spec_lpm_addr (m : smap) (a : N) : option (prefix * N) :=
    longest (fun p => contains w p a) m.
  (* longest stored prefix covering a CIDR *)
  Definition spec_lpm_cover (m : smap) (q : prefix) : option (prefix * N) :=
    longest (fun p => covers w p q) m.

  (* q is a branch point of the stored set: stored prefixes exist on both sides just below q *)
  Definition is_branch (m : smap) (q : prefix) : bool :=
    existsb (fun e => under w q false (fst e)) m && existsb (fun e => under w q true (fst e)) m.
  Definition is_node (m : smap) (q : prefix) : bool := m_mem q m || is_branch m q.

  (* what CIDRTrie.LPM returns for an arbitrary CIDR query (c36_lpm_general): if the query is
     stored or a branch point, the longest stored prefix covering it; otherwise the LPM of the
     query's address (which may be longer than the query).  For host queries (all call sites)
     both coincide with spec_lpm_addr. *)
  Definition spec_lpm_general (m : smap) (q : prefix) : option (prefix * N) :=
    if is_node m q then spec_lpm_cover m q else spec_lpm_addr m (paddr q).

  (* closest descendants: stored prefixes strictly inside q with no stored prefix strictly
     between, in address order.  The trie only answers when q is stored or a branch point. *)
  Definition closest (m : smap) (q : prefix) : list prefix :=
    map fst (filter (fun e =>
      strictly_covers w q (fst e) &&
      negb (existsb (fun r => strictly_covers w q (fst r) && strictly_covers w (fst r) (fst e)) m)) m).
  Definition spec_closest (m : smap) (q : prefix) : list prefix :=
    if is_node m q then closest m q else [].

  (* LookupPath: if q is stored, every stored prefix covering q, shortest first *)
  Definition spec_path (m : smap) (q : prefix) : list (prefix * N) :=
    if m_mem q m then filter (fun e => covers w (fst e) q) m else [].

  (* oracle for one observed result *)
  Definition ok_lpm (m : smap) (q : prefix) (r : option (prefix * N)) : bool :=
    if Nat.eqb (plen q) w then
      opt_eqb entry_eqb r (spec_lpm_addr m (paddr q))
    else
      (* shorter queries: the answer must be stored, contain the query's address and be at
         least as long as the best stored cover of the query *)
      match r with
      | None => negb (spec_covers m q)
      | Some (p, v) =>
          opt_eqb N.eqb (m_get p m) (Some v) && contains w p (paddr q)
          && match spec_lpm_cover m q with
             | Some (b, _) => (plen b <=? plen p)%nat
             | None => true
             end
      end.

  Definition ok_closest (m : smap) (buf : list prefix) (q : prefix) (r : list prefix) : bool :=
    if is_node m q then list_eqb prefix_eqb r (buf ++ closest m q)
    else list_eqb prefix_eqb r [] || list_eqb prefix_eqb r buf.

  Definition spec_step (m : smap) (o : op) : smap :=
    match o with
    | OpUpdate c v => m_insert c v m
    | OpDelete c => m_remove c m
    | _ => m
    end.

  Definition ok_out (m : smap) (o : op) (r : out) : bool :=
    match o, r with
    | OpUpdate _ _, ONone => true
    | OpDelete _, ONone => true
    | OpGet q, OData d => opt_eqb N.eqb d (m_get q m)
    | OpLPM q, OMatch r => ok_lpm m q r
    | OpCovers q, OBool b => Bool.eqb b (spec_covers m q)
    | OpIntersects q, OBool b => Bool.eqb b (spec_intersects m q)
    | OpClosest buf q, OCidrs l => ok_closest m buf q l
    | OpPath q, OEntries l => list_eqb entry_eqb l (spec_path m q)
    | OpSlice, OEntries l => list_eqb entry_eqb l m
    | _, _ => false
    end.

  Fixpoint ok_trace_from (m : smap) (ops : list op) (outs : list out) : bool :=
    match ops, outs with
    | [], [] => true
    | o :: ops', r :: outs' => ok_out m o r && ok_trace_from (spec_step m o) ops' outs'
    | _, _ => false
    end.
  Definition ok_trace (ops : list op) (outs : list out) : bool := ok_trace_from [] ops outs.

  (* domain of the model: every prefix in the trace is well-formed for the width *)
  Definition op_wf (o : op) : bool :=
    match o with
    | OpUpdate c _ | OpDelete c | OpGet c | OpLPM c | OpCovers c | OpIntersects c | OpPath c => wfpb w c
    | OpClosest buf c => wfpb w c && forallb (wfpb w) buf
    | OpSlice => true
    end.
End Width.

(* one correspondence case, as written by the Go harness *)
Record case := { c_w : nat; c_ops : list op; c_outs : list out }.
Definition check_case (c : case) : bool * bool :=
  (forallb (op_wf (c_w c)) (c_ops c) && outs_eqb (run (c_w c) Leaf (c_ops c)) (c_outs c),
   ok_trace (c_w c) (c_ops c) (c_outs c)).
