(* C36 — proofs, part 2: every query of the trie equals the direct computation over the
   stored prefixes (to_slice t), for any well-formed trie. *)
From Coq Require Import List NArith Arith Bool Lia.
From Verif.Common Require Import Prefix.
From Verif.C36 Require Import Model Spec Proofs.
Import ListNotations.

Section W.
  Variable w : nat.

  Notation wfp := (wfp w).
  Notation covers := (covers w).
  Notation under := (under w).
  Notation contains := (contains w).
  Notation common_prefix := (common_prefix w).
  Notation nthbit := (nthbit w).
  Notation wf := (wf w).

  Definition hd_slice (c : prefix) (d : option N) : list (prefix * N) :=
    match d with Some v => [(c, v)] | None => [] end.

  Lemma to_slice_node : forall c d l r, to_slice (Node c d l r) = hd_slice c d ++ to_slice l ++ to_slice r.
  Proof. reflexivity. Qed.

  (* the two subtrees, in the order (chosen branch, other branch) *)
  Lemma in_slice_cases : forall c d l r e, In e (to_slice (Node c d l r)) ->
    In e (hd_slice c d) \/ In e (to_slice l) \/ In e (to_slice r).
  Proof.
    intros c d l r e H. rewrite to_slice_node in H.
    apply in_app_or in H. destruct H as [H|H]; auto.
    apply in_app_or in H. tauto.
  Qed.

  (* ---------------------------------------------------------------- *)
  (* facts about the branch the walk does not take                     *)

  Section Other.
    Variables (c : prefix) (d : option N) (l r : trie) (q : prefix).
    Hypothesis W : wf (Node c d l r).
    Hypothesis Hq : wfp q.
    Let b := nthbit (paddr q) (S (plen c)).

    Lemma other_neq : forall e, In e (to_slice (child l r (negb b))) -> fst e <> q.
    Proof.
      intros e He. eapply key_other_branch; eauto. rewrite negb_involutive. reflexivity.
    Qed.

    Lemma other_not_covers : forall e, In e (to_slice (child l r (negb b))) -> covers (fst e) q = false.
    Proof.
      intros e He. destruct (slice_under w _ _ _ _ _ _ W He) as [We U].
      destruct (covers (fst e) q) eqn:C; auto.
      assert (U2 : under c (negb b) q = true) by (apply (under_covers w c _ (fst e) q); auto; apply W).
      apply under_bit in U2. fold b in U2. destruct b; discriminate.
    Qed.

    Lemma other_not_covered : covers q c = false ->
      forall e, In e (to_slice (child l r (negb b))) -> covers q (fst e) = false.
    Proof.
      intros NC e He. destruct (slice_under w _ _ _ _ _ _ W He) as [We U].
      destruct (covers q (fst e)) eqn:C; auto.
      destruct (covers_under_cases w c (negb b) q (fst e)) as [U2|C2]; auto; try apply W.
      - apply under_bit in U2. fold b in U2. destruct b; discriminate.
      - congruence.
    Qed.
  End Other.

  Lemma other_not_contains : forall c d l r q, wf (Node c d l r) -> wfp q ->
    forall e, In e (to_slice (child l r (negb (nthbit (paddr q) (S (plen c)))))) ->
    contains (fst e) (paddr q) = false.
  Proof.
    intros c d l r q W Hq e He.
    assert (Ha : (paddr q < 2 ^ N.of_nat w)%N) by apply Hq.
    destruct (slice_under w _ _ _ _ _ _ W He) as [We _].
    rewrite <- (covers_host w) by auto.
    apply (other_not_covers c d l r (host w (paddr q)) W); auto using host_wf.
  Qed.

  (* all entries of a well-formed node are covered by its prefix *)
  Lemma node_covers : forall t e, wf t -> In e (to_slice t) ->
    match t with Leaf => False | Node c _ _ _ => wfp (fst e) /\ covers c (fst e) = true end.
  Proof.
    intros t e W He. destruct (slice_in w t e W He) as [We T].
    destruct t; simpl in *; auto.
  Qed.

  Lemma covers_contains : forall p q, covers p q = true -> contains p (paddr q) = true.
  Proof. intros p q C. unfold Prefix.covers in C. apply andb_true_iff in C. apply C. Qed.

  (* ---------------------------------------------------------------- *)
  (* list helpers                                                      *)

  Lemma m_get_absent : forall q m, (forall e, In e m -> fst e <> q) -> m_get q m = None.
  Proof.
    unfold m_get. induction m as [|e m IH]; intros H; simpl; auto.
    assert (N1 : fst e <> q) by (apply H; left; auto). apply prefix_eqb_neq in N1. rewrite N1.
    apply IH. intros; apply H; right; auto.
  Qed.

  Lemma m_get_app : forall q m1 m2,
    m_get q (m1 ++ m2) = match m_get q m1 with Some x => Some x | None => m_get q m2 end.
  Proof.
    unfold m_get. induction m1 as [|e m1 IH]; intros m2; simpl; auto.
    destruct (prefix_eqb (fst e) q); auto.
  Qed.

  Lemma existsb_false : forall {A} (f : A -> bool) m, (forall e, In e m -> f e = false) -> existsb f m = false.
  Proof.
    induction m as [|e m IH]; intros H; simpl; auto.
    rewrite (H e) by (left; auto). apply IH. intros; apply H; right; auto.
  Qed.

  Lemma filter_none : forall {A} (f : A -> bool) m, (forall e, In e m -> f e = false) -> filter f m = [].
  Proof.
    induction m as [|e m IH]; intros H; simpl; auto.
    rewrite (H e) by (left; auto). apply IH. intros; apply H; right; auto.
  Qed.

  Lemma m_mem_false : forall q m, (forall e, In e m -> fst e <> q) -> m_mem q m = false.
  Proof.
    intros q m H. apply existsb_false. intros e He. apply prefix_eqb_neq. auto.
  Qed.

  (* ---------------------------------------------------------------- *)
  (* Get                                                               *)

  Lemma get_node_false_spec : forall q, wfp q -> forall t, wf t ->
    match get_node w t q false with Leaf => None | Node _ d _ _ => d end = m_get q (to_slice t).
  Proof.
    intros q Hq. induction t as [|c d l IHl r IHr]; intros W; [reflexivity|].
    pose proof W as W0. destruct W as (Hc & Hd & Hl & Hr & Wl & Wr).
    cbn [get_node].
    destruct (contains c (paddr q)) eqn:Ct; cbn [negb].
    2:{ symmetry. apply m_get_absent. intros e He EQ.
        destruct (node_covers _ e W0 He) as [_ C]. rewrite EQ in C.
        apply covers_contains in C. congruence. }
    destruct (prefix_eqb q c) eqn:E.
    { apply prefix_eqb_eq in E. subst c. rewrite to_slice_node, m_get_app.
      destruct d as [v|]; simpl.
      - unfold m_get. simpl. rewrite prefix_eqb_refl. reflexivity.
      - symmetry. apply m_get_absent. intros e He.
        apply in_app_or in He. destruct He as [He|He].
        + apply (key_strict w q None l r false e W0 He).
        + apply (key_strict w q None l r true e W0 He). }
    apply prefix_eqb_neq in E. unfold next_bit.
    rewrite to_slice_node, m_get_app.
    assert (Hh : m_get q (hd_slice c d) = None).
    { apply m_get_absent. intros e He. destruct d; simpl in He; [|contradiction].
      destruct He as [<-|[]]. simpl. congruence. }
    rewrite Hh, m_get_app.
    pose proof (other_neq c d l r q W0) as ON.
    destruct (nthbit (paddr q) (S (plen c))); simpl in ON |- *.
    - rewrite (m_get_absent q (to_slice l)) by auto. apply IHr; auto.
    - rewrite (m_get_absent q (to_slice r)) by auto. rewrite IHl by auto.
      destruct (m_get q (to_slice l)); auto.
  Qed.

  Theorem get_spec : forall t q, wf t -> wfp q -> get w t q = m_get q (to_slice t).
  Proof. intros t q W Hq. unfold get. apply get_node_false_spec; auto. Qed.

  (* ---------------------------------------------------------------- *)
  (* Covers                                                            *)

  Theorem covers_spec_trie : forall q, wfp q -> forall t, wf t ->
    tcovers w t q = spec_covers w (to_slice t) q.
  Proof.
    intros q Hq. unfold spec_covers. induction t as [|c d l IHl r IHr]; intros W; [reflexivity|].
    pose proof W as W0. destruct W as (Hc & Hd & Hl & Hr & Wl & Wr).
    cbn [tcovers].
    destruct (prefix_eqb (common_prefix c q) c) eqn:E; cbn [negb].
    2:{ symmetry. apply existsb_false. intros e He.
        destruct (node_covers _ e W0 He) as [We C].
        destruct (covers (fst e) q) eqn:C2; auto.
        assert (C3 : covers c q = true) by (apply (covers_trans w c (fst e) q); auto).
        apply covers_common_prefix_eq in C3; auto. rewrite C3, prefix_eqb_refl in E. discriminate. }
    apply prefix_eqb_eq in E. apply covers_common_prefix_eq in E; auto.
    rewrite to_slice_node, existsb_app.
    destruct d as [v|]; simpl.
    - rewrite E. reflexivity.
    - rewrite existsb_app. unfold next_bit.
      pose proof (other_not_covers c None l r q W0 Hq) as ON.
      destruct (nthbit (paddr q) (S (plen c))); simpl in ON |- *.
      + rewrite (existsb_false _ (to_slice l)) by auto. apply IHr; auto.
      + rewrite (existsb_false _ (to_slice r)) by auto. rewrite orb_false_r. apply IHl; auto.
  Qed.

  (* ---------------------------------------------------------------- *)
  (* Intersects                                                        *)

  Theorem intersects_spec_trie : forall q, wfp q -> forall t, wf t ->
    tintersects w t q = spec_intersects w (to_slice t) q.
  Proof.
    intros q Hq. unfold spec_intersects. induction t as [|c d l IHl r IHr]; intros W; [reflexivity|].
    pose proof W as W0. destruct W as (Hc & Hd & Hl & Hr & Wl & Wr).
    cbn [tintersects].
    destruct (prefix_eqb (common_prefix c q) q) eqn:E1.
    { apply prefix_eqb_eq in E1. rewrite common_prefix_comm in E1 by auto.
      apply covers_common_prefix_eq in E1; auto.
      symmetry. apply existsb_exists.
      destruct (to_slice (Node c d l r)) as [|e m] eqn:S.
      - exfalso. apply (slice_nonempty w (Node c d l r)); auto. discriminate.
      - exists e. split; [left; auto|].
        assert (He : In e (to_slice (Node c d l r))) by (rewrite S; left; auto).
        destruct (node_covers _ e W0 He) as [We C].
        apply (covers_trans w q c (fst e)); auto. }
    assert (NC : covers q c = false).
    { destruct (covers q c) eqn:C; auto. apply covers_common_prefix_eq in C; auto.
      rewrite common_prefix_comm in C by auto. rewrite C, prefix_eqb_refl in E1. discriminate. }
    destruct (prefix_eqb (common_prefix c q) c) eqn:E2; cbn [negb].
    2:{ symmetry. apply existsb_false. intros e He.
        destruct (node_covers _ e W0 He) as [We C].
        destruct (covers q (fst e)) eqn:C2; auto.
        destruct (le_lt_dec (plen q) (plen c)).
        - assert (covers q c = true) by (apply (covers_chain w q c (fst e)); auto). congruence.
        - assert (C3 : covers c q = true) by (apply (covers_chain w c q (fst e)); auto; lia).
          apply covers_common_prefix_eq in C3; auto. rewrite C3, prefix_eqb_refl in E2. discriminate. }
    rewrite to_slice_node, !existsb_app.
    assert (Hh : existsb (fun e => covers q (fst e)) (hd_slice c d) = false).
    { destruct d; simpl; auto. rewrite NC. reflexivity. }
    rewrite Hh. simpl. unfold next_bit.
    pose proof (other_not_covered c d l r q W0 Hq NC) as ON.
    destruct (nthbit (paddr q) (S (plen c))); simpl in ON |- *.
    - rewrite (existsb_false _ (to_slice l)) by auto. apply IHr; auto.
    - rewrite (existsb_false _ (to_slice r)) by auto. rewrite orb_false_r. apply IHl; auto.
  Qed.

  (* ---------------------------------------------------------------- *)
  (* LPM for host queries (every call site)                            *)

  Definition longest_from (f : prefix -> bool) (m : smap) (best : option (prefix * N)) :=
    fold_left (fun best e => if f (fst e) then longer best e else best) m best.

  Lemma longest_from_skip : forall f m best,
    (forall e, In e m -> f (fst e) = false) -> longest_from f m best = best.
  Proof.
    induction m as [|e m IH]; intros best H; simpl; auto.
    rewrite (H e) by (left; auto). apply IH. intros; apply H; right; auto.
  Qed.

  Lemma longest_from_app : forall f m1 m2 best,
    longest_from f (m1 ++ m2) best = longest_from f m2 (longest_from f m1 best).
  Proof. intros. unfold longest_from. apply fold_left_app. Qed.

  (* the accumulated match is shorter than everything in the subtree still to be visited *)
  Definition shorter_than (acc : option (prefix * N)) (m : smap) : Prop :=
    forall p e, acc = Some p -> In e m -> plen (fst p) < plen (fst e).

  Lemma longer_shorter : forall acc e m, shorter_than acc m -> In e m -> longer acc e = Some e.
  Proof.
    intros [p|] e m SH He; simpl; auto.
    assert (plen (fst p) < plen (fst e)) by (apply (SH p e); auto).
    apply Nat.ltb_lt in H. rewrite H. reflexivity.
  Qed.

  Lemma lpm_loop_host : forall a, (a < 2 ^ N.of_nat w)%N -> forall t acc, wf t ->
    shorter_than acc (to_slice t) ->
    lpm_loop w t (host w a) acc = longest_from (fun p => contains p a) (to_slice t) acc.
  Proof.
    intros a Ha. assert (Hq := host_wf w a Ha).
    induction t as [|c d l IHl r IHr]; intros acc W SH; [reflexivity|].
    pose proof W as W0. destruct W as (Hc & Hd & Hl & Hr & Wl & Wr).
    cbn [lpm_loop]. change (paddr (host w a)) with a.
    destruct (contains c a) eqn:Ct; cbn [negb].
    2:{ symmetry. apply longest_from_skip. intros e He.
        destruct (node_covers _ e W0 He) as [We C].
        destruct (contains (fst e) a) eqn:C2; auto.
        rewrite <- (covers_host w) in C2, Ct by auto.
        assert (covers c (host w a) = true) by (apply (covers_trans w c (fst e)); auto). congruence. }
    rewrite to_slice_node, longest_from_app.
    set (acc' := match d with Some v => Some (c, v) | None => acc end).
    assert (Hh : longest_from (fun p => contains p a) (hd_slice c d) acc = acc').
    { unfold acc'. destruct d as [v|]; simpl; auto. rewrite Ct.
      apply (longer_shorter acc (c, v) _ SH). rewrite to_slice_node. simpl. left; auto. }
    rewrite Hh.
    assert (S' : forall b, shorter_than acc' (to_slice (child l r b))).
    { intros b p e Hp He. unfold acc' in Hp. destruct d as [v|].
      - inversion Hp; subst p. simpl.
        destruct (slice_under w _ _ _ _ _ _ W0 He) as [_ U]. apply under_spec in U. lia.
      - apply (SH p e Hp). rewrite to_slice_node. simpl.
        apply in_or_app. destruct b; simpl in He; auto. }
    destruct (prefix_eqb (host w a) c) eqn:E.
    { (* the node is the host prefix itself: nothing can hang below it *)
      apply prefix_eqb_eq in E. symmetry. apply longest_from_skip. intros e He. exfalso.
      assert (U : exists b, under c b (fst e) = true /\ wfp (fst e)).
      { apply in_app_or in He. destruct He as [He|He].
        - exists false. destruct (slice_under w c d l r false e W0 He). auto.
        - exists true. destruct (slice_under w c d l r true e W0 He). auto. }
      destruct U as (b & U & We). apply under_spec in U. rewrite <- E in U. simpl in U.
      destruct We. lia. }
    unfold next_bit. change (paddr (host w a)) with a.
    pose proof (other_not_contains c d l r (host w a) W0 Hq) as ON.
    change (paddr (host w a)) with a in ON.
    rewrite longest_from_app.
    destruct (nthbit a (S (plen c))); simpl in ON |- *.
    - rewrite (longest_from_skip _ (to_slice l)) by auto. apply IHr; auto. apply (S' true).
    - rewrite IHl; auto; [|apply (S' false)].
      rewrite (longest_from_skip _ (to_slice r)) by auto. reflexivity.
  Qed.

  Theorem lpm_host_spec : forall t a, wf t -> (a < 2 ^ N.of_nat w)%N ->
    lpm w t (host w a) = spec_lpm_addr w (to_slice t) a.
  Proof.
    intros t a W Ha. unfold lpm, spec_lpm_addr, longest.
    apply (lpm_loop_host a Ha t None W). intros p e H. discriminate.
  Qed.

  (* ---------------------------------------------------------------- *)
  (* LookupPath                                                        *)

  Lemma lookup_path_spec_gen : forall q, wfp q -> forall t buf, wf t ->
    lookup_path w t buf q =
    if m_mem q (to_slice t) then buf ++ filter (fun e => covers (fst e) q) (to_slice t) else [].
  Proof.
    intros q Hq. induction t as [|c d l IHl r IHr]; intros buf W; [reflexivity|].
    pose proof W as W0. destruct W as (Hc & Hd & Hl & Hr & Wl & Wr).
    cbn [lookup_path].
    destruct (contains c (paddr q)) eqn:Ct; cbn [negb].
    2:{ rewrite m_mem_false; auto. intros e He EQ.
        destruct (node_covers _ e W0 He) as [_ C]. rewrite EQ in C.
        apply covers_contains in C. congruence. }
    assert (STR : forall b e, In e (to_slice (child l r b)) -> covers (fst e) c = false).
    { intros b e He. destruct (slice_under w _ _ _ _ _ _ W0 He) as [We U].
      apply (under_not_covers_parent w c b); auto. }
    destruct (prefix_eqb q c) eqn:E.
    { apply prefix_eqb_eq in E. subst c. rewrite to_slice_node.
      destruct d as [v|]; simpl.
      - rewrite prefix_eqb_refl. simpl. rewrite covers_refl by auto.
        rewrite filter_app, (filter_none _ (to_slice l)), (filter_none _ (to_slice r)); auto.
        + apply (STR true). + apply (STR false).
      - rewrite m_mem_false; auto. intros e He.
        apply in_app_or in He. destruct He as [He|He].
        + apply (key_strict w q None l r false e W0 He).
        + apply (key_strict w q None l r true e W0 He). }
    apply prefix_eqb_neq in E. unfold next_bit.
    pose proof (other_neq c d l r q W0) as ON.
    pose proof (other_not_covers c d l r q W0 Hq) as OC.
    assert (MM : forall b, b = nthbit (paddr q) (S (plen c)) ->
              m_mem q (to_slice (Node c d l r)) = m_mem q (to_slice (child l r b))).
    { intros b ->. rewrite to_slice_node. unfold m_mem. rewrite !existsb_app.
      assert (Hh : existsb (fun e => prefix_eqb (fst e) q) (hd_slice c d) = false).
      { destruct d; simpl; auto. replace (prefix_eqb c q) with false; auto.
        symmetry. apply prefix_eqb_neq. congruence. }
      rewrite Hh. simpl.
      destruct (nthbit (paddr q) (S (plen c))); simpl in ON |- *.
      - rewrite (existsb_false _ (to_slice l)); auto. intros e He. apply prefix_eqb_neq. auto.
      - rewrite (existsb_false _ (to_slice r)); [apply orb_false_r|].
        intros e He. apply prefix_eqb_neq. auto. }
    (* when q is stored below, c covers q *)
    assert (CQ : forall b, m_mem q (to_slice (child l r b)) = true -> covers c q = true).
    { intros b M. apply existsb_exists in M. destruct M as (e & He & EQ).
      apply prefix_eqb_eq in EQ. destruct (slice_under w _ _ _ _ _ _ W0 He) as [_ U].
      rewrite EQ in U. apply under_spec in U. apply U. }
    assert (HD : covers c q = true ->
              filter (fun e => covers (fst e) q) (hd_slice c d) = hd_slice c d).
    { intros C. destruct d; simpl; auto. rewrite C. reflexivity. }
    rewrite (MM _ eq_refl). rewrite to_slice_node, !filter_app.
    destruct (nthbit (paddr q) (S (plen c))); simpl in ON, OC |- *.
    - rewrite IHr by auto. destruct (m_mem q (to_slice r)) eqn:M; auto.
      rewrite (HD (CQ true M)), (filter_none _ (to_slice l)) by auto.
      destruct d; simpl; rewrite <- ?app_assoc; reflexivity.
    - rewrite IHl by auto. destruct (m_mem q (to_slice l)) eqn:M; auto.
      rewrite (HD (CQ false M)), (filter_none _ (to_slice r)) by auto.
      rewrite app_nil_r. destruct d; simpl; rewrite <- ?app_assoc; reflexivity.
  Qed.

  Theorem lookup_path_spec : forall t q, wf t -> wfp q ->
    lookup_path w t [] q = spec_path w (to_slice t) q.
  Proof. intros t q W Hq. unfold spec_path. rewrite lookup_path_spec_gen; auto. Qed.

End W.
