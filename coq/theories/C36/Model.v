(* C36 — executable model of felix/ip/trie.go (CIDRTrie), one model for IPv4 (w = 32) and
   IPv6 (w = 128).  Hand-written; tied to the Go code by the correspondence run (harness/C36).

   *CIDRNode is [trie]: nil is [Leaf]; a node carries its CIDR, its data (Go nil = None; an
   intermediate node has no data) and children[0], children[1].  Addresses are N, data values
   are N.  Every function follows the Go function of the same name, including the walks that
   follow the query's address bits past the query's own length. *)
From Coq Require Import List NArith Arith Bool.
From Verif.Common Require Import Prefix.
Import ListNotations.

Inductive trie :=
| Leaf
| Node (c : prefix) (d : option N) (l r : trie).

Definition is_leaf (t : trie) : bool := match t with Leaf => true | _ => false end.

Section Width.
  Variable w : nat.

  (* children[childIdx] where childIdx = addr.NthBit(n.cidr.Prefix()+1) *)
  Definition child (l r : trie) (b : bool) : trie := if b then r else l.
  Definition next_bit (q nc : prefix) : bool := nthbit w (paddr q) (S (plen nc)).

  (* CIDRTrie.Update (the parentsPtr loop, written as a recursion that rebuilds the path) *)
  Fixpoint update (t : trie) (c : prefix) (v : N) : trie :=
    match t with
    | Leaf => Node c (Some v) Leaf Leaf
    | Node nc d l r =>
        if prefix_eqb nc c then Node nc (Some v) l r
        else
          let cp := common_prefix w c nc in
          if Nat.eqb (plen cp) (plen nc) then
            (* this node is a parent of the new CIDR *)
            if nthbit w (paddr c) (S (plen cp)) then Node nc d l (update r c v)
            else Node nc d (update l c v) r
          else if Nat.eqb (plen cp) (plen c) then
            (* the new CIDR is a parent of this node *)
            if nthbit w (paddr nc) (S (plen cp)) then Node c (Some v) Leaf t
            else Node c (Some v) t Leaf
          else
            (* disjoint: new intermediate node *)
            if nthbit w (paddr nc) (S (plen cp)) then Node cp None (Node c (Some v) Leaf Leaf) t
            else Node cp None t (Node c (Some v) Leaf Leaf)
    end.

  (* deleteInternal *)
  Fixpoint delete_internal (t : trie) (c : prefix) : trie :=
    match t with
    | Leaf => Leaf
    | Node nc d l r =>
        if negb (contains w nc (paddr c)) then t
        else if prefix_eqb c nc then
          match l, r with
          | Leaf, _ => r
          | _, Leaf => l
          | _, _ => Node nc None l r
          end
        else
          let b := next_bit c nc in
          let old := if b then r else l in
          if is_leaf old then t
          else
            let new := delete_internal old c in
            let n' := if b then Node nc d l new else Node nc d new r in
            match new, d with
            | Leaf, None => child l r (negb b)
            | _, _ => n'
            end
    end.

  (* CIDRTrie.Delete *)
  Definition delete (t : trie) (c : prefix) : trie :=
    match t with
    | Leaf => Leaf
    | Node nc _ _ _ =>
        if prefix_eqb (common_prefix w nc c) nc then delete_internal t c else t
    end.

  (* getNode: returns the node (as a subtree) or Leaf for nil *)
  Fixpoint get_node (t : trie) (c : prefix) (intermediates : bool) : trie :=
    match t with
    | Leaf => Leaf
    | Node nc d l r =>
        if negb (contains w nc (paddr c)) then Leaf
        else if prefix_eqb c nc then
          match d with
          | None => if intermediates then t else Leaf
          | Some _ => t
          end
        else get_node (child l r (next_bit c nc)) c intermediates
    end.

  (* CIDRTrie.Get *)
  Definition get (t : trie) (c : prefix) : option N :=
    match get_node t c false with
    | Leaf => None
    | Node _ d _ _ => d
    end.

  (* CIDRTrie.LPM: the loop, carrying the last node with data seen *)
  Fixpoint lpm_loop (t : trie) (c : prefix) (m : option (prefix * N)) : option (prefix * N) :=
    match t with
    | Leaf => m
    | Node nc d l r =>
        if negb (contains w nc (paddr c)) then m
        else
          let m' := match d with Some v => Some (nc, v) | None => m end in
          if prefix_eqb c nc then m'
          else lpm_loop (child l r (next_bit c nc)) c m'
    end.
  Definition lpm (t : trie) (c : prefix) : option (prefix * N) := lpm_loop t c None.

  (* lookupPath; Go's nil and empty slice are both [] *)
  Fixpoint lookup_path (t : trie) (buf : list (prefix * N)) (c : prefix) : list (prefix * N) :=
    match t with
    | Leaf => []
    | Node nc d l r =>
        if negb (contains w nc (paddr c)) then []
        else
          let buf' := match d with Some v => buf ++ [(nc, v)] | None => buf end in
          if prefix_eqb c nc then match d with None => [] | Some _ => buf' end
          else lookup_path (child l r (next_bit c nc)) buf' c
    end.

  (* covers *)
  Fixpoint tcovers (t : trie) (c : prefix) : bool :=
    match t with
    | Leaf => false
    | Node nc d l r =>
        if negb (prefix_eqb (common_prefix w nc c) nc) then false
        else match d with
             | Some _ => true
             | None => tcovers (child l r (next_bit c nc)) c
             end
    end.

  (* intersects *)
  Fixpoint tintersects (t : trie) (c : prefix) : bool :=
    match t with
    | Leaf => false
    | Node nc d l r =>
        let common := common_prefix w nc c in
        if prefix_eqb common c then true
        else if negb (prefix_eqb common nc) then false
        else tintersects (child l r (next_bit c nc)) c
    end.

  (* appendTo / ToSlice *)
  Fixpoint to_slice (t : trie) : list (prefix * N) :=
    match t with
    | Leaf => []
    | Node nc d l r =>
        match d with Some v => [(nc, v)] | None => [] end ++ to_slice l ++ to_slice r
    end.

  (* ClosestDescendants: looks the parent up from the root (intermediates included); for a
     child without data it calls itself again on the child's CIDR, again from the root.
     The recursion is on fuel; None = out of fuel (excluded by c36_closest_descendants_fuel). *)
  Fixpoint closest_descendants (fuel : nat) (root : trie) (buf : list prefix) (parent : prefix)
    : option (list prefix) :=
    match fuel with
    | O => None
    | S f =>
        match get_node root parent true with
        | Leaf => Some []                 (* "return nil": the buffer is dropped *)
        | Node _ _ l r =>
            let step (ob : option (list prefix)) (ch : trie) : option (list prefix) :=
              match ob with
              | None => None
              | Some b =>
                  match ch with
                  | Leaf => Some b
                  | Node cc (Some _) _ _ => Some (b ++ [cc])
                  | Node cc None _ _ => closest_descendants f root b cc
                  end
              end in
            step (step (Some buf) l) r
        end
    end.

  Definition cd_fuel : nat := S (S w).

End Width.

(* ------------------------------------------------------------------ *)
(* operations and observations of a correspondence trace               *)

Inductive op :=
| OpUpdate (c : prefix) (v : N)
| OpDelete (c : prefix)
| OpGet (c : prefix)
| OpLPM (c : prefix)
| OpCovers (c : prefix)
| OpIntersects (c : prefix)
| OpClosest (buf : list prefix) (c : prefix)
| OpPath (c : prefix)
| OpSlice.

Inductive out :=
| ONone
| OData (d : option N)
| OMatch (m : option (prefix * N))
| OBool (b : bool)
| OCidrs (l : list prefix)
| OEntries (l : list (prefix * N))
| OFuel.

Definition step (w : nat) (t : trie) (o : op) : trie * out :=
  match o with
  | OpUpdate c v => (update w t c v, ONone)
  | OpDelete c => (delete w t c, ONone)
  | OpGet c => (t, OData (get w t c))
  | OpLPM c => (t, OMatch (lpm w t c))
  | OpCovers c => (t, OBool (tcovers w t c))
  | OpIntersects c => (t, OBool (tintersects w t c))
  | OpClosest buf c =>
      (t, match closest_descendants w (cd_fuel w) t buf c with Some l => OCidrs l | None => OFuel end)
  | OpPath c => (t, OEntries (lookup_path w t [] c))
  | OpSlice => (t, OEntries (to_slice t))
  end.

Fixpoint run (w : nat) (t : trie) (ops : list op) : list out :=
  match ops with
  | [] => []
  | o :: ops' => let (t', r) := step w t o in r :: run w t' ops'
  end.

Fixpoint run_trie (w : nat) (t : trie) (ops : list op) : trie :=
  match ops with
  | [] => t
  | o :: ops' => run_trie w (fst (step w t o)) ops'
  end.

(* decidable equality of observations *)
Definition entry_eqb (a b : prefix * N) : bool := prefix_eqb (fst a) (fst b) && N.eqb (snd a) (snd b).

Fixpoint list_eqb {A} (eqb : A -> A -> bool) (x y : list A) : bool :=
  match x, y with
  | [], [] => true
  | a :: x', b :: y' => eqb a b && list_eqb eqb x' y'
  | _, _ => false
  end.

Definition opt_eqb {A} (eqb : A -> A -> bool) (x y : option A) : bool :=
  match x, y with
  | None, None => true
  | Some a, Some b => eqb a b
  | _, _ => false
  end.

Definition out_eqb (a b : out) : bool :=
  match a, b with
  | ONone, ONone => true
  | OData x, OData y => opt_eqb N.eqb x y
  | OMatch x, OMatch y => opt_eqb entry_eqb x y
  | OBool x, OBool y => Bool.eqb x y
  | OCidrs x, OCidrs y => list_eqb prefix_eqb x y
  | OEntries x, OEntries y => list_eqb entry_eqb x y
  | _, _ => false
  end.

Definition outs_eqb (x y : list out) : bool := list_eqb out_eqb x y.
