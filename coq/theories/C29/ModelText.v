(* C29 — the TEXT level of the conversion: the selector strings the Go code really builds (fmt.Sprintf /
   strings.Join / strings.Replace), of which Model.v keeps only the AST the selector parser yields.

     conversion.go  k8sSelectorToCalico                       -> sel_text_pod / sel_text_ns
     updateprocessors/networkpolicyprocessor.go  ConvertNetworkPolicyV3ToV1Value (selector)  -> policy_sel_text
     updateprocessors/selectors.go  parseSelectorAttachPrefix -> attach_prefix  (real parser + PrefixVisitor + String():
                                                                  the C06 model of tokenizer/parser/printer)
     updateprocessors/rules.go  getEndpointSelector (strings.Replace of all()/global(), "(%s) && (%s)")  -> endpoint_sel_text

   np_texts lists, for one policy, the selector strings in the order
     policy selector; (SrcSelector, DstSelector) of every inbound rule; the same for every outbound rule.
   The correspondence run checks (Spec.agree) that these strings ARE the strings of the real model.Policy, byte for
   byte, and that the C06 parser maps each of them to the AST Model.v puts at that place.  Definitions only. *)
From Coq Require Import String Ascii.
From Coq Require Import List Arith NArith Bool.
From Verif.Common Require Import Labels Packet.
From Verif.C06 Require Model.
From Verif.C29 Require Import Model.
Import ListNotations.
Open Scope N_scope.

Module P := Verif.C06.Model.

Definition T_AND : bytes := Eval compute in b " && ".
Definition T_EQ : bytes := Eval compute in b " == '".
Definition T_Q : bytes := Eval compute in b "'".
Definition T_IN : bytes := Eval compute in b " in { '".
Definition T_NOTIN : bytes := Eval compute in b " not in { '".
Definition T_SETSEP : bytes := Eval compute in b "', '".
Definition T_SETEND : bytes := Eval compute in b "' }".
Definition T_HAS : bytes := Eval compute in b "has(".
Definition T_NOTHAS : bytes := Eval compute in b "! has(".
Definition T_RP : bytes := Eval compute in b ")".
Definition T_LP : bytes := Eval compute in b "(".
Definition T_ALL : bytes := Eval compute in b "all()".
Definition T_GLOBAL : bytes := Eval compute in b "global()".
Definition T_HASNS : bytes := Eval compute in b "has(projectcalico.org/namespace)".
Definition T_NOTHASNS : bytes := Eval compute in b "!has(projectcalico.org/namespace)".
Definition T_RP_AND : bytes := Eval compute in b ") && ".
Definition T_RP_AND_LP : bytes := Eval compute in b ") && (".

Fixpoint join (sep : bytes) (xs : list bytes) : bytes :=
  match xs with
  | [] => []
  | [x] => x
  | x :: rest => x ++ sep ++ join sep rest
  end.

(* fmt.Sprintf("%s == '%s'", k, v) etc. *)
Definition eq_text (k v : bytes) : bytes := k ++ T_EQ ++ v ++ T_Q.
Definition req_text (r : req) : bytes :=
  match rq_op r with
  | OpIn => rq_key r ++ T_IN ++ join T_SETSEP (rq_vals r) ++ T_SETEND
  | OpNotIn => rq_key r ++ T_NOTIN ++ join T_SETSEP (rq_vals r) ++ T_SETEND
  | OpExists => T_HAS ++ rq_key r ++ T_RP
  | OpDoesNotExist => T_NOTHAS ++ rq_key r ++ T_RP
  end.
Definition lsel_texts (s : lsel) : list bytes :=
  map (fun kv => eq_text (fst kv) (snd kv)) (sort_kv (ls_match s)) ++ map req_text (ls_exprs s).
Definition orch_text : bytes := eq_text L_ORCH V_K8S.

(* k8sSelectorToCalico *)
Definition sel_text_pod (s : option lsel) : bytes :=
  match s with
  | None => orch_text
  | Some s => join T_AND (orch_text :: lsel_texts s)
  end.
Definition sel_text_ns (s : option lsel) : bytes :=
  match s with
  | None => []
  | Some s => match lsel_texts s with [] => T_ALL | ts => join T_AND ts end
  end.

(* strings.Replace(s, old, new, -1), old non-empty *)
Fixpoint replace_all_fuel (fuel : nat) (old new s : bytes) : bytes :=
  match fuel with
  | O => s
  | S f =>
      match s with
      | [] => []
      | c :: s' =>
          if has_prefix s old then new ++ replace_all_fuel f old new (skipn (length old) s)
          else c :: replace_all_fuel f old new s'
      end
  end.
Definition replace_all (old new s : bytes) : bytes := replace_all_fuel (S (length s)) old new s.

(* parseSelectorAttachPrefix: real parser, PrefixVisitor, String() — "" on a parse error *)
Definition attach_prefix (pfx t : bytes) : bytes :=
  match P.parse t with
  | P.Ok a => P.to_string true (prefix_ast pfx a)
  | _ => []
  end.

Definition is_empty (t : bytes) : bool := match t with [] => true | _ => false end.
Definition ns_eq_text (ns : bytes) : bytes := eq_text L_NAMESPACE ns.

(* getEndpointSelector (no service-account match, no NotSelector) *)
Definition endpoint_sel_text (nstext seltext ns : bytes) : bytes :=
  let nsSelector :=
    if negb (is_empty nstext) then
      replace_all T_GLOBAL T_NOTHASNS (replace_all T_ALL T_HASNS (attach_prefix PCNS nstext))
    else if negb (is_empty ns) then ns_eq_text ns else [] in
  if negb (is_empty nsSelector) && (negb (is_empty seltext) || negb (is_empty nstext)) then
    if negb (is_empty seltext) then T_LP ++ nsSelector ++ T_RP_AND_LP ++ seltext ++ T_RP else nsSelector
  else seltext.

(* ConvertNetworkPolicyV3ToV1Value *)
Definition policy_sel_text (ns seltext : bytes) : bytes :=
  if is_empty ns then seltext
  else if is_empty seltext then ns_eq_text ns
  else T_LP ++ seltext ++ T_RP_AND ++ ns_eq_text ns.

Definition peer_texts (ingress : bool) (ns : bytes) (p : option peer) : list bytes :=
  let '(sel, nssel) :=
    match p with
    | None => ([], [])
    | Some p => match pe_ip p with
                | Some _ => ([], [])
                | None => (sel_text_pod (pe_pod p), sel_text_ns (pe_ns p))
                end
    end in
  let e := endpoint_sel_text nssel sel ns in
  let n := endpoint_sel_text [] [] ns in
  if ingress then [e; n] else [n; e].

Definition rule_texts (ingress : bool) (ns : bytes) (r : nprule) : list bytes :=
  match proto_groups (nr_ports r) with
  | None => []
  | Some gs =>
      let peers := match nr_peers r with [] => [None] | ps => map Some ps end in
      flat_map (fun _ => flat_map (peer_texts ingress ns) peers) gs
  end.

Definition np_texts (np : netpol) : list bytes :=
  policy_sel_text (np_ns np) (sel_text_pod (Some (np_sel np)))
  :: flat_map (rule_texts true (np_ns np)) (np_ingress np)
  ++ flat_map (rule_texts false (np_ns np)) (np_egress np).

(* the ASTs Model.v puts at the same places *)
Definition policy_asts (q : cpolicy) : list (option ast) :=
  cp_sel q :: flat_map (fun r => [cr_src_sel r; cr_dst_sel r]) (cp_in q)
  ++ flat_map (fun r => [cr_src_sel r; cr_dst_sel r]) (cp_out q).

(* the real parser (C06 model) on a selector string; the empty string is "no selector" *)
Definition parse_text (t : bytes) : option (option ast) :=
  match t with
  | [] => Some None
  | _ => match P.parse t with P.Ok a => Some (Some a) | _ => None end
  end.

Fixpoint texts_parse_to (ts : list bytes) (asts : list (option ast)) : bool :=
  match ts, asts with
  | [], [] => true
  | t :: ts', a :: asts' =>
      match parse_text t with
      | Some x => option_eqb ast_eqb x a
      | None => false
      end && texts_parse_to ts' asts'
  | _, _ => false
  end.
