(* C29 — specification: the meaning of a Kubernetes NetworkPolicy (prefix k8s_), the meaning of a converted
   Calico policy as Felix evaluates it (prefix cal_), and the oracle used on the implementation's output.

   The Kubernetes side follows the NetworkPolicy API documentation (networking.k8s.io/v1):
   * a policy applies to the pods of ITS namespace selected by spec.podSelector;
   * a direction that is not in policyTypes is not restricted by the policy (absent policyTypes:
     Ingress always, Egress iff the policy has egress rules);
   * a pod to which no policy applies in a direction is not isolated in that direction; otherwise a
     connection is allowed iff some applying policy has a rule allowing it;
   * a rule allows a connection iff (from/to is empty or some peer matches the remote party) and
     (ports is empty or some port entry matches);
   * a peer with an ipBlock matches by address: inside cidr and outside every except;
     otherwise the remote party must be a pod, in the policy's own namespace when namespaceSelector is
     nil and else in a namespace whose labels match it, and matching podSelector when that is given;
   * a port entry matches protocol (default TCP) and: no port = every port; a number = that port, or
     the range port..endPort; a name = a named container port of the DESTINATION pod with that
     protocol and number.

   The Calico side is the fragment of Felix's policy semantics the converted policies can use:
   selectors are evaluated over the endpoint's own labels followed by its profiles' labels
   (Common/Labels.v `matches`), nets/notNets by address, a named destination port is a named port of
   the destination endpoint with the rule's protocol; rules are taken in order, first match decides;
   policies of the tier in order; a tier in which at least one policy applies to the endpoint (in the
   direction) ends in deny; if none applies the endpoint's profile rules decide (the kns.<namespace>
   profile: allow). *)
From Coq Require Import List NArith Bool.
From Verif.Common Require Import Labels Packet.
From Verif.C29 Require Import Model ModelText.
Import ListNotations.
Open Scope N_scope.

(* ------------------------------------------------------------------ the cluster and a connection *)

Record pod := {
  pod_ns : bytes;
  pod_sa : bytes;                               (* spec.serviceAccountName, [] = none *)
  pod_labels : labels;
  pod_ports : list (bytes * kproto * N)         (* named container ports *)
}.
(* one end of a connection: its address and, when the address belongs to a pod, that pod *)
Record party := { pa_ver : ipver; pa_ip : N; pa_pod : option pod }.
Record conn := { c_src : party; c_dst : party; c_proto : N; c_dport : N }.
(* namespace name -> namespace labels; (namespace, service account name) -> service account labels *)
Record cluster := { cl_ns : list (bytes * labels); cl_sa : list (bytes * bytes * labels) }.
Definition ns_labels (cl : cluster) (ns : bytes) : labels :=
  match find (fun e => bytes_eqb (fst e) ns) (cl_ns cl) with Some e => snd e | None => [] end.
Definition sa_labels (cl : cluster) (ns sa : bytes) : labels :=
  match find (fun e => bytes_eqb (fst (fst e)) ns && bytes_eqb (snd (fst e)) sa) (cl_sa cl) with
  | Some e => snd e | None => [] end.

Definition kproto_num (p : kproto) : N := match p with KTCP => 6 | KUDP => 17 | KSCTP => 132 end.
Definition is_nil {A} (l : list A) : bool := match l with [] => true | _ => false end.

(* ------------------------------------------------------------------ Kubernetes semantics *)

Definition k8s_req_matches (r : req) (L : labels) : bool :=
  match rq_op r, lookup (rq_key r) L with
  | OpIn, Some v => mem_bytes v (rq_vals r)
  | OpIn, None => false
  | OpNotIn, Some v => negb (mem_bytes v (rq_vals r))
  | OpNotIn, None => true
  | OpExists, Some _ => true
  | OpExists, None => false
  | OpDoesNotExist, Some _ => false
  | OpDoesNotExist, None => true
  end.

Definition k8s_sel_matches (s : lsel) (L : labels) : bool :=
  forallb (fun kv => match lookup (fst kv) L with Some v => bytes_eqb v (snd kv) | None => false end) (ls_match s)
  && forallb (fun r => k8s_req_matches r L) (ls_exprs s).

Definition k8s_ipblock_matches (ib : ipblock) (x : party) : bool :=
  in_cidr (ib_cidr ib) (pa_ver x) (pa_ip x)
  && negb (existsb (fun c => in_cidr c (pa_ver x) (pa_ip x)) (ib_except ib)).

Definition k8s_peer_matches (npns : bytes) (cl : cluster) (pe : peer) (x : party) : bool :=
  match pe_ip pe with
  | Some ib => k8s_ipblock_matches ib x
  | None =>
      match pa_pod x with
      | None => false
      | Some p =>
          (match pe_ns pe with
           | None => bytes_eqb (pod_ns p) npns
           | Some s => k8s_sel_matches s (ns_labels cl (pod_ns p))
           end)
          && (match pe_pod pe with None => true | Some s => k8s_sel_matches s (pod_labels p) end)
      end
  end.

Definition kproto_eqb (a c : kproto) : bool :=
  match a, c with KTCP, KTCP | KUDP, KUDP | KSCTP, KSCTP => true | _, _ => false end.

Definition pod_has_port (p : pod) (name : bytes) (proto : N) (port : N) : bool :=
  existsb (fun e => bytes_eqb (fst (fst e)) name && N.eqb (kproto_num (snd (fst e))) proto && N.eqb (snd e) port)
          (pod_ports p).

Definition k8s_port_matches (pp : npport) (dst : party) (proto dport : N) : bool :=
  N.eqb (kproto_num (port_proto pp)) proto
  && match pp_port pp with
     | KNoPort => true
     | KNum n => match pp_end pp with
                 | None => N.eqb dport n
                 | Some e => N.leb n dport && N.leb dport e
                 end
     | KName s => match pa_pod dst with Some p => pod_has_port p s proto dport | None => false end
     end.

(* `remote` is the source for ingress and the destination for egress; named ports always resolve on
   the destination *)
Definition k8s_rule_allows (npns : bytes) (cl : cluster) (r : nprule) (remote : party) (c : conn) : bool :=
  (is_nil (nr_peers r) || existsb (fun pe => k8s_peer_matches npns cl pe remote) (nr_peers r))
  && (is_nil (nr_ports r) || existsb (fun pp => k8s_port_matches pp (c_dst c) (c_proto c) (c_dport c)) (nr_ports r)).

Definition k8s_types (np : netpol) : list ptype :=
  match np_types np with
  | [] => TIngress :: (if is_nil (np_egress np) then [] else [TEgress])
  | ts => ts
  end.

Definition k8s_applies (np : netpol) (dir : ptype) (p : pod) : bool :=
  bytes_eqb (pod_ns p) (np_ns np) && k8s_sel_matches (np_sel np) (pod_labels p) && has_type dir (k8s_types np).

Definition np_rules (dir : ptype) (np : netpol) : list nprule :=
  match dir with TIngress => np_ingress np | TEgress => np_egress np end.
Definition remote_of (dir : ptype) (c : conn) : party :=
  match dir with TIngress => c_src c | TEgress => c_dst c end.
Definition local_of (dir : ptype) (c : conn) : party :=
  match dir with TIngress => c_dst c | TEgress => c_src c end.

Definition k8s_np_allows (cl : cluster) (dir : ptype) (np : netpol) (c : conn) : bool :=
  existsb (fun r => k8s_rule_allows (np_ns np) cl r (remote_of dir c) c) (np_rules dir np).

(* the policies' verdict for the local pod `p` of the connection in direction `dir` *)
Definition k8s_allows_dir (nps : list netpol) (cl : cluster) (dir : ptype) (p : pod) (c : conn) : bool :=
  match filter (fun np => k8s_applies np dir p) nps with
  | [] => true
  | app => existsb (fun np => k8s_np_allows cl dir np c) app
  end.

(* the whole connection: egress at the source pod and ingress at the destination pod *)
Definition k8s_allows (nps : list netpol) (cl : cluster) (c : conn) : bool :=
  (match pa_pod (c_src c) with Some p => k8s_allows_dir nps cl TEgress p c | None => true end)
  && (match pa_pod (c_dst c) with Some p => k8s_allows_dir nps cl TIngress p c | None => true end).

(* ------------------------------------------------------------------ which objects are Kubernetes NetworkPolicies *)
(* The property speaks about NetworkPolicies, i.e. objects the Kubernetes API accepts (validation in
   k8s.io/kubernetes/pkg/apis/networking/validation): In/NotIn need values, Exists/DoesNotExist take none; a
   peer is either an ipBlock or selectors (at least one); ports are 1..65535, endPort >= port and only with
   a numeric port.  For other objects the oracle is not consulted (the model must still agree with the code). *)
Definition k8s_req_valid (r : req) : bool :=
  match rq_op r with
  | OpIn | OpNotIn => negb (is_nil (rq_vals r))
  | OpExists | OpDoesNotExist => is_nil (rq_vals r)
  end.
Definition k8s_sel_valid (s : lsel) : bool := forallb k8s_req_valid (ls_exprs s).
Definition k8s_osel_valid (s : option lsel) : bool := match s with Some s => k8s_sel_valid s | None => true end.
Definition k8s_port_valid (pp : npport) : bool :=
  match pp_port pp with
  | KNoPort => match pp_end pp with None => true | Some _ => false end
  | KNum n => N.leb 1 n && N.leb n 65535
              && match pp_end pp with None => true | Some e => N.leb n e && N.leb e 65535 end
  | KName s => negb (is_nil s) && match pp_end pp with None => true | Some _ => false end
  end.
Definition k8s_peer_valid (pe : peer) : bool :=
  match pe_ip pe with
  | Some _ => match pe_pod pe, pe_ns pe with None, None => true | _, _ => false end
  | None => match pe_pod pe, pe_ns pe with None, None => false | _, _ => true end
            && k8s_osel_valid (pe_pod pe) && k8s_osel_valid (pe_ns pe)
  end.
Definition k8s_rule_valid (r : nprule) : bool := forallb k8s_peer_valid (nr_peers r) && forallb k8s_port_valid (nr_ports r).
Definition k8s_np_valid (np : netpol) : bool :=
  negb (is_nil (np_ns np)) && k8s_sel_valid (np_sel np)
  && forallb k8s_rule_valid (np_ingress np) && forallb k8s_rule_valid (np_egress np).

(* ------------------------------------------------------------------ Calico semantics (Felix's view) *)

Record cep := {
  ce_labels : labels;                         (* the workload endpoint's own labels *)
  ce_parents : list labels;                   (* labels of its profiles, in ProfileIDs order *)
  ce_ports : list (bytes * N * N)             (* named ports: name, protocol number, port *)
}.
Record cparty := { cq_ver : ipver; cq_ip : N; cq_ep : option cep }.

Definition cproto_num (p : cproto) : option N :=
  match p with
  | CPNum n => Some n
  | CPName s =>
      if bytes_eqb s S_TCP then Some 6 else if bytes_eqb s S_UDP then Some 17
      else if bytes_eqb s S_SCTP then Some 132 else None
  end.

Definition cal_sel_ok (s : option ast) (x : cparty) : bool :=
  match s with
  | None => true
  | Some a => match cq_ep x with Some e => matches a (ce_labels e) (ce_parents e) | None => false end
  end.
Definition cal_nets_ok (nets notnets : list cidr) (x : cparty) : bool :=
  (is_nil nets || existsb (fun c => in_cidr c (cq_ver x) (cq_ip x)) nets)
  && negb (existsb (fun c => in_cidr c (cq_ver x) (cq_ip x)) notnets).
Definition cep_has_port (e : cep) (name : bytes) (proto port : N) : bool :=
  existsb (fun q => bytes_eqb (fst (fst q)) name && N.eqb (snd (fst q)) proto && N.eqb (snd q) port) (ce_ports e).
Definition cal_port_ok (dst : cparty) (proto dport : N) (p : cport) : bool :=
  match p with
  | CRange lo hi => N.leb lo dport && N.leb dport hi
  | CNamed s => match cq_ep dst with Some e => cep_has_port e s proto dport | None => false end
  end.

Definition cal_rule_matches (r : crule) (src dst : cparty) (proto dport : N) : bool :=
  (match cr_proto r with
   | None => true
   | Some p => match cproto_num p with Some n => N.eqb n proto | None => false end
   end)
  && cal_sel_ok (cr_src_sel r) src && cal_nets_ok (cr_src_nets r) (cr_not_src_nets r) src
  && cal_sel_ok (cr_dst_sel r) dst && cal_nets_ok (cr_dst_nets r) (cr_not_dst_nets r) dst
  && (is_nil (cr_dst_ports r) || existsb (cal_port_ok dst proto dport) (cr_dst_ports r)).

Inductive verdict := VAllow | VDeny | VPass | VNoMatch.
Fixpoint cal_rules_verdict (rs : list crule) (src dst : cparty) (proto dport : N) : verdict :=
  match rs with
  | [] => VNoMatch
  | r :: rs' =>
      if cal_rule_matches r src dst proto dport then
        match cr_action r with
        | CAllow => VAllow | CDeny => VDeny | CPass => VPass
        | CLog | COther => cal_rules_verdict rs' src dst proto dport
        end
      else cal_rules_verdict rs' src dst proto dport
  end.

Definition cp_rules (dir : ptype) (q : cpolicy) : list crule :=
  match dir with TIngress => cp_in q | TEgress => cp_out q end.
Definition cal_applies (q : cpolicy) (dir : ptype) (e : cep) : bool :=
  (match cp_sel q with None => true | Some a => matches a (ce_labels e) (ce_parents e) end)
  && has_type dir (cp_types q).

Fixpoint cal_policies_verdict (ps : list cpolicy) (dir : ptype) (src dst : cparty) (proto dport : N) : verdict :=
  match ps with
  | [] => VNoMatch
  | q :: qs => match cal_rules_verdict (cp_rules dir q) src dst proto dport with
               | VNoMatch => cal_policies_verdict qs dir src dst proto dport
               | v => v
               end
  end.

(* one tier (all converted policies are in tier "default") followed by the namespace profile, whose
   rules are [allow] in both directions (NamespaceToProfile) *)
Definition cal_allows_dir (ps : list cpolicy) (dir : ptype) (e : cep) (src dst : cparty) (proto dport : N) : bool :=
  match filter (fun q => cal_applies q dir e) ps with
  | [] => true                                  (* no policy in the tier: profile rules: allow *)
  | app => match cal_policies_verdict app dir src dst proto dport with
           | VAllow => true
           | VPass => true                      (* next tier: none; profiles: allow *)
           | VDeny | VNoMatch => false          (* end of tier: deny *)
           end
  end.

Definition cal_allows (ps : list cpolicy) (src dst : cparty) (proto dport : N) : bool :=
  (match cq_ep src with Some e => cal_allows_dir ps TEgress e src dst proto dport | None => true end)
  && (match cq_ep dst with Some e => cal_allows_dir ps TIngress e src dst proto dport | None => true end).

(* ------------------------------------------------------------------ the cluster as Calico sees it (model of the conversions) *)

Definition cep_of_pod (cl : cluster) (p : pod) : cep :=
  {| ce_labels := wep_labels (pod_ns p) (pod_sa p) (pod_labels p);
     ce_parents := profile_labels (pod_ns p) (ns_labels cl (pod_ns p))
                   :: match pod_sa p with
                      | [] => []
                      | sa => [sa_profile_labels sa (sa_labels cl (pod_ns p) sa)]
                      end;
     ce_ports := map (fun e => (fst (fst e), kproto_num (snd (fst e)), snd e)) (pod_ports p) |}.
Definition cparty_of (cl : cluster) (x : party) : cparty :=
  {| cq_ver := pa_ver x; cq_ip := pa_ip x; cq_ep := option_map (cep_of_pod cl) (pa_pod x) |}.

(* ------------------------------------------------------------------ correspondence cases *)

(* a pod as generated, with what the real pod -> WorkloadEndpoint conversion and the real
   workload-endpoint update processor produced for it *)
Record ipod := {
  ip_pod : pod; ip_ver : ipver; ip_addr : N;
  ip_impl_labels : labels;                      (* model.WorkloadEndpoint.Labels, sorted by key *)
  ip_impl_profiles : list bytes;                (* ProfileIDs *)
  ip_impl_ports : list (bytes * N * N)
}.
Inductive endp := EPod (i : nat) | EExt (v : ipver) (a : N).
Record case := {
  k_nps : list netpol;
  k_cluster : cluster;
  k_impl_profiles : list (bytes * labels);      (* profile name -> ProfileLabels value (sorted), from the real code *)
  k_pods : list ipod;
  k_impl : list cpolicy;                        (* the real converted model.Policy of each policy *)
  k_impl_clean : bool;                          (* every rule field outside `crule` was zero, keys as expected *)
  k_infer : bool;                               (* which variant of the policyTypes inference the tree has (probed) *)
  k_conns : list (endp * endp * N * N);
  (* cross-check of the selector semantics used on the Calico side: every distinct selector of the converted
     policies (as parsed by the real parser) with, for each pod in order, the verdict of the REAL evaluator
     (parser.Selector.Evaluate) on the pod's real labels with the real profiles' labels inherited *)
  k_sel_evals : list (ast * list bool);
  (* the selector STRINGS of the real converted policies: a table of the distinct strings and, per policy, the
     indices of [Selector; (SrcSelector, DstSelector) of each inbound rule; ... of each outbound rule] *)
  k_text_table : list bytes;
  k_impl_texts : list (list nat)
}.

Definition kns_name (ns : bytes) : bytes := KNS ++ ns.
Definition ksa_name (ns sa : bytes) : bytes := KSA ++ ns ++ DOT ++ sa.

Definition impl_cep (c : case) (ip : ipod) : cep :=
  {| ce_labels := ip_impl_labels ip;
     ce_parents := map (fun pn => match find (fun e => bytes_eqb (fst e) pn) (k_impl_profiles c) with
                                  | Some e => snd e | None => [] end) (ip_impl_profiles ip);
     ce_ports := ip_impl_ports ip |}.

Definition default_ipod : ipod :=
  {| ip_pod := {| pod_ns := []; pod_sa := []; pod_labels := []; pod_ports := [] |}; ip_ver := V4; ip_addr := 0;
     ip_impl_labels := []; ip_impl_profiles := []; ip_impl_ports := [] |}.

Definition k8s_party (c : case) (e : endp) : party :=
  match e with
  | EPod i => let ip := nth i (k_pods c) default_ipod in
              {| pa_ver := ip_ver ip; pa_ip := ip_addr ip; pa_pod := Some (ip_pod ip) |}
  | EExt v a => {| pa_ver := v; pa_ip := a; pa_pod := None |}
  end.
Definition impl_party (c : case) (e : endp) : cparty :=
  match e with
  | EPod i => let ip := nth i (k_pods c) default_ipod in
              {| cq_ver := ip_ver ip; cq_ip := ip_addr ip; cq_ep := Some (impl_cep c ip) |}
  | EExt v a => {| cq_ver := v; cq_ip := a; cq_ep := None |}
  end.

(* model of the conversions == what the real code produced *)
Definition agree (c : case) : bool :=
  list_eqb cpolicy_eqb (map (conv_np_v (k_infer c)) (k_nps c)) (k_impl c)
  && forallb (fun ip =>
        let p := ip_pod ip in
        labels_eqb (canon_labels (wep_labels (pod_ns p) (pod_sa p) (pod_labels p))) (ip_impl_labels ip)
        && list_eqb (fun x y => bytes_eqb (fst (fst x)) (fst (fst y)) && N.eqb (snd (fst x)) (snd (fst y)) && N.eqb (snd x) (snd y))
                    (map (fun e => (fst (fst e), kproto_num (snd (fst e)), snd e)) (pod_ports p)) (ip_impl_ports ip)
        && list_eqb bytes_eqb (ip_impl_profiles ip)
             (kns_name (pod_ns p) :: match pod_sa p with [] => [] | sa => [ksa_name (pod_ns p) sa] end)) (k_pods c)
  && forallb (fun e => match find (fun x => bytes_eqb (kns_name (fst e)) (fst x)) (k_impl_profiles c) with
                       | Some x => labels_eqb (canon_labels (profile_labels (fst e) (snd e))) (snd x)
                       | None => false
                       end) (cl_ns (k_cluster c))
  && forallb (fun e => match find (fun x => bytes_eqb (ksa_name (fst (fst e)) (snd (fst e))) (fst x)) (k_impl_profiles c) with
                       | Some x => labels_eqb (canon_labels (sa_profile_labels (snd (fst e)) (snd e))) (snd x)
                       | None => false
                       end) (cl_sa (k_cluster c))
  && forallb (fun e => list_eqb Bool.eqb
                         (map (fun ip => let ce := impl_cep c ip in matches (fst e) (ce_labels ce) (ce_parents ce)) (k_pods c))
                         (snd e)) (k_sel_evals c)
  (* text level (ModelText.v): the strings the model builds are the strings of the real policies, and the parser
     (C06 model) maps them to the ASTs of Model.v *)
  && list_eqb (list_eqb bytes_eqb) (map np_texts (k_nps c))
              (map (map (fun i => nth i (k_text_table c) [])) (k_impl_texts c))
  && forallb (fun np => texts_parse_to (np_texts np) (policy_asts (conv_np_v (k_infer c) np))) (k_nps c).

(* the property, evaluated on the IMPLEMENTATION's converted policies, labels and profiles: for every
   generated connection the Calico verdict equals the Kubernetes verdict *)
Definition ok_conn (c : case) (cn : endp * endp * N * N) : bool :=
  let '(s, d, proto, dport) := cn in
  let kc := {| c_src := k8s_party c s; c_dst := k8s_party c d; c_proto := proto; c_dport := dport |} in
  Bool.eqb (k8s_allows (k_nps c) (k_cluster c) kc)
           (cal_allows (k_impl c) (impl_party c s) (impl_party c d) proto dport).

Definition ok_case (c : case) : bool :=
  k_impl_clean c && Nat.eqb (length (k_impl c)) (length (k_nps c))
  && (if forallb k8s_np_valid (k_nps c) then forallb (ok_conn c) (k_conns c) else true).

Definition check_case (c : case) : bool * bool := (agree c, ok_case c).
