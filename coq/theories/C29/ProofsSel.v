(* C29 — proofs, part 1: selectors and labels.
   - sorting helpers keep the meaning (sort_kv, sort_dd)
   - label lookups through the pod -> workload endpoint and namespace -> profile conversions
   - converted selectors evaluate like the Kubernetes selectors *)
From Coq Require Import List Arith NArith Bool Lia.
From Verif.Common Require Import Labels Packet.
From Verif.C29 Require Import Model Spec.
Import ListNotations.
Open Scope N_scope.

(* ------------------------------------------------------------------ well-formedness (Kubernetes API validation + reserved keys) *)

Definition unreserved_key (k : bytes) : bool :=
  negb (reserved_prefix k) && negb (bytes_eqb k L_NAMESPACE) && negb (bytes_eqb k L_ORCH) && negb (bytes_eqb k L_SA).
Definition ns_key_ok (k : bytes) : bool := negb (bytes_eqb k L_NAME).

Definition req_ok (keyok : bytes -> bool) (r : req) : bool :=
  keyok (rq_key r) && match rq_op r with OpIn | OpNotIn => negb (is_nil (rq_vals r)) | _ => true end.
Definition lsel_ok (keyok : bytes -> bool) (s : lsel) : bool :=
  forallb (fun kv => keyok (fst kv)) (ls_match s) && forallb (req_ok keyok) (ls_exprs s).

(* ------------------------------------------------------------------ generic list facts *)

Lemma forallb_ext_in : forall {A} (f g : A -> bool) l, (forall x, In x l -> f x = g x) -> forallb f l = forallb g l.
Proof. induction l; simpl; intros H; auto. rewrite H by auto. rewrite IHl; auto. Qed.
Lemma existsb_ext_in : forall {A} (f g : A -> bool) l, (forall x, In x l -> f x = g x) -> existsb f l = existsb g l.
Proof. induction l; simpl; intros H; auto. rewrite H by auto. rewrite IHl; auto. Qed.
Lemma forallb_map : forall {A B} (f : B -> bool) (g : A -> B) l, forallb f (map g l) = forallb (fun x => f (g x)) l.
Proof. induction l; simpl; auto. rewrite IHl. reflexivity. Qed.
Lemma existsb_map : forall {A B} (f : B -> bool) (g : A -> B) l, existsb f (map g l) = existsb (fun x => f (g x)) l.
Proof. induction l; simpl; auto. rewrite IHl. reflexivity. Qed.
Lemma forallb_app' : forall {A} (f : A -> bool) l1 l2, forallb f (l1 ++ l2) = forallb f l1 && forallb f l2.
Proof. induction l1; simpl; intros; auto. rewrite IHl1. apply andb_assoc. Qed.

(* ------------------------------------------------------------------ sorting helpers *)

Lemma forallb_insert_kv : forall f x l, forallb f (insert_kv x l) = f x && forallb f l.
Proof.
  intros f x l. induction l as [|y l IH]; simpl; auto.
  destruct (bytes_ltb (fst y) (fst x)); simpl; auto.
  rewrite IH. destruct (f x), (f y); reflexivity.
Qed.
Lemma forallb_sort_kv : forall f l, forallb f (sort_kv l) = forallb f l.
Proof. intros f l. induction l; simpl; auto. rewrite forallb_insert_kv, IHl. reflexivity. Qed.
Lemma insert_kv_not_nil : forall x l, insert_kv x l <> [].
Proof. intros x l. destruct l; simpl; try discriminate. destruct (bytes_ltb _ _); discriminate. Qed.
Lemma sort_kv_nil : forall l, sort_kv l = [] -> l = [].
Proof. destruct l; simpl; auto. intros H. exfalso. eapply insert_kv_not_nil; eauto. Qed.

Lemma mem_insert_dd : forall x y l, mem_bytes x (insert_dd y l) = bytes_eqb x y || mem_bytes x l.
Proof.
  intros x y l. induction l as [|z l IH]; simpl.
  - reflexivity.
  - destruct (bytes_eqb y z) eqn:E.
    + apply bytes_eqb_eq in E. subst. simpl. destruct (bytes_eqb x z); reflexivity.
    + destruct (bytes_ltb z y); simpl.
      * rewrite IH. destruct (bytes_eqb x y), (bytes_eqb x z); reflexivity.
      * reflexivity.
Qed.
Lemma mem_sort_dd : forall x vs, mem_bytes x (sort_dd vs) = mem_bytes x vs.
Proof. intros x vs. induction vs as [|v vs IH]; simpl; auto. rewrite mem_insert_dd, IH. reflexivity. Qed.
Lemma mem_set_values : forall x vs, vs <> [] -> mem_bytes x (set_values vs) = mem_bytes x vs.
Proof. intros x vs H. destruct vs; [contradiction|]. unfold set_values. apply mem_sort_dd. Qed.

(* ------------------------------------------------------------------ bytes with a common prefix *)

Lemma bytes_eqb_app_l : forall p a c, bytes_eqb (p ++ a) (p ++ c) = bytes_eqb a c.
Proof. induction p; simpl; intros; auto. rewrite N.eqb_refl. simpl. auto. Qed.
Lemma has_prefix_eq : forall a c p, bytes_eqb a c = true -> has_prefix a p = has_prefix c p.
Proof. intros a c p H. apply bytes_eqb_eq in H. subst. reflexivity. Qed.

(* ------------------------------------------------------------------ lookups through the conversions *)

Lemma lookup_filter_key : forall (keep : bytes -> bool) k l,
  lookup k (filter (fun kv => keep (fst kv)) l) = if keep k then lookup k l else None.
Proof.
  intros keep k l. induction l as [|[k' v] l IH]; simpl.
  - destruct (keep k); reflexivity.
  - destruct (keep k') eqn:K; simpl.
    + destruct (bytes_eqb k k') eqn:E.
      * apply bytes_eqb_eq in E. subst. rewrite K. reflexivity.
      * exact IH.
    + destruct (bytes_eqb k k') eqn:E.
      * apply bytes_eqb_eq in E. subst. rewrite K in *. exact IH.
      * exact IH.
Qed.

Lemma reserved_L_SA : reserved_prefix L_SA = false. Proof. reflexivity. Qed.
Lemma reserved_L_ORCH : reserved_prefix L_ORCH = false. Proof. reflexivity. Qed.
Lemma reserved_L_NAMESPACE : reserved_prefix L_NAMESPACE = false. Proof. reflexivity. Qed.

Lemma lookup_wep : forall k ns sa pl,
  lookup k (wep_labels ns sa pl) =
  if bytes_eqb k L_SA && negb (is_nil sa) then Some sa
  else if reserved_prefix k then None
  else if bytes_eqb k L_ORCH then Some V_K8S
  else if bytes_eqb k L_NAMESPACE then Some ns
  else lookup k pl.
Proof.
  intros k ns sa pl. unfold wep_labels. rewrite lookup_app.
  pose proof (lookup_filter_key (fun x => negb (reserved_prefix x)) k ((L_ORCH, V_K8S) :: (L_NAMESPACE, ns) :: pl)) as F.
  cbv beta in F. rewrite F. clear F.
  destruct sa as [|c sa]; simpl is_nil; simpl negb.
  - rewrite andb_false_r. cbn [lookup app]. destruct (reserved_prefix k); reflexivity.
  - rewrite andb_true_r. cbn [lookup app]. destruct (bytes_eqb k L_SA); [reflexivity|].
    destruct (reserved_prefix k); reflexivity.
Qed.

Lemma unreserved_key_spec : forall k, unreserved_key k = true ->
  reserved_prefix k = false /\ bytes_eqb k L_NAMESPACE = false /\ bytes_eqb k L_ORCH = false /\ bytes_eqb k L_SA = false.
Proof.
  unfold unreserved_key. intros k H. repeat (apply andb_true_iff in H; destruct H as [H ?]).
  repeat match goal with X : negb _ = true |- _ => apply negb_true_iff in X end. auto.
Qed.

Lemma lookup_wep_unreserved : forall k ns sa pl, unreserved_key k = true -> lookup k (wep_labels ns sa pl) = lookup k pl.
Proof.
  intros k ns sa pl H. apply unreserved_key_spec in H. destruct H as (R & A & B & C).
  rewrite lookup_wep, C, R, B, A. reflexivity.
Qed.
Lemma lookup_wep_namespace : forall ns sa pl, lookup L_NAMESPACE (wep_labels ns sa pl) = Some ns.
Proof. intros. rewrite lookup_wep. reflexivity. Qed.
Lemma lookup_wep_orch : forall ns sa pl, lookup L_ORCH (wep_labels ns sa pl) = Some V_K8S.
Proof. intros. rewrite lookup_wep. reflexivity. Qed.
Lemma lookup_wep_pcns : forall k ns sa pl, lookup (PCNS ++ k) (wep_labels ns sa pl) = None.
Proof.
  intros. rewrite lookup_wep.
  assert (R : reserved_prefix (PCNS ++ k) = true) by (unfold reserved_prefix; rewrite has_prefix_app; reflexivity).
  rewrite R. reflexivity.
Qed.

Lemma lookup_map_prefix : forall pfx k (l : labels),
  lookup (pfx ++ k) (map (fun kv => (pfx ++ fst kv, snd kv)) l) = lookup k l.
Proof.
  intros pfx k l. induction l as [|[k' v] l IH]; simpl; auto.
  rewrite bytes_eqb_app_l. destruct (bytes_eqb k k'); auto.
Qed.
Lemma lookup_profile_pcns : forall k ns nsl, bytes_eqb k L_NAME = false ->
  lookup (PCNS ++ k) (profile_labels ns nsl) = lookup k nsl.
Proof.
  intros k ns nsl H. unfold profile_labels. cbn [lookup]. rewrite bytes_eqb_app_l, H. apply lookup_map_prefix.
Qed.
Lemma lookup_profile_other : forall k ns nsl, has_prefix k PCNS = false -> lookup k (profile_labels ns nsl) = None.
Proof.
  intros k ns nsl H. unfold profile_labels. cbn [lookup].
  destruct (bytes_eqb k (PCNS ++ L_NAME)) eqn:E.
  - apply bytes_eqb_eq in E. subst. rewrite has_prefix_app in H. discriminate.
  - clear E. induction nsl as [|[k' v] l IH]; cbn [map lookup fst snd]; auto.
    destruct (bytes_eqb k (PCNS ++ k')) eqn:E'; auto.
    apply bytes_eqb_eq in E'. subst. rewrite has_prefix_app in H. discriminate.
Qed.

Lemma lookup_sa_profile_other : forall k sa sal, has_prefix k PCSA = false -> lookup k (sa_profile_labels sa sal) = None.
Proof.
  intros k sa sal H. unfold sa_profile_labels. cbn [lookup].
  destruct (bytes_eqb k (PCSA ++ L_NAME)) eqn:E.
  - apply bytes_eqb_eq in E. subst. rewrite has_prefix_app in H. discriminate.
  - clear E. induction sal as [|[k' v] l IH]; cbn [map lookup fst snd]; auto.
    destruct (bytes_eqb k (PCSA ++ k')) eqn:E'; auto.
    apply bytes_eqb_eq in E'. subst. rewrite has_prefix_app in H. discriminate.
Qed.

(* the labels Felix evaluates selectors on, for a pod: own labels, then the kns.<namespace> profile, then the
   ksa.<namespace>.<serviceaccount> profile *)
Definition cal_labels (cl : cluster) (p : pod) : labels :=
  effective (ce_labels (cep_of_pod cl p)) (ce_parents (cep_of_pod cl p)).

Lemma reserved_false_pcns : forall k, reserved_prefix k = false -> has_prefix k PCNS = false.
Proof. unfold reserved_prefix. intros k H. apply orb_false_iff in H. tauto. Qed.
Lemma reserved_false_pcsa : forall k, reserved_prefix k = false -> has_prefix k PCSA = false.
Proof. unfold reserved_prefix. intros k H. apply orb_false_iff in H. tauto. Qed.

(* keys outside the pcsa. space never come from the service-account profile *)
Lemma cal_lookup_gen : forall cl p k, has_prefix k PCSA = false ->
  lookup k (cal_labels cl p) =
  match lookup k (wep_labels (pod_ns p) (pod_sa p) (pod_labels p)) with
  | Some v => Some v
  | None => lookup k (profile_labels (pod_ns p) (ns_labels cl (pod_ns p)))
  end.
Proof.
  intros cl p k H. unfold cal_labels, cep_of_pod. cbn [ce_labels ce_parents].
  rewrite lookup_effective_cons.
  destruct (lookup k (wep_labels _ _ _)); auto. destruct (lookup k (profile_labels _ _)); auto.
  destruct (pod_sa p) as [|c sa]; [reflexivity|]. cbn [concat]. rewrite lookup_app.
  rewrite lookup_sa_profile_other by auto. reflexivity.
Qed.

Lemma cal_lookup_unreserved : forall cl p k, unreserved_key k = true -> lookup k (cal_labels cl p) = lookup k (pod_labels p).
Proof.
  intros cl p k H. pose proof (unreserved_key_spec k H) as (R & _).
  rewrite cal_lookup_gen by (apply reserved_false_pcsa; auto). rewrite lookup_wep_unreserved by auto.
  destruct (lookup k (pod_labels p)); auto.
  rewrite lookup_profile_other by (apply reserved_false_pcns; auto). reflexivity.
Qed.
Lemma cal_lookup_namespace : forall cl p, lookup L_NAMESPACE (cal_labels cl p) = Some (pod_ns p).
Proof. intros. rewrite cal_lookup_gen by reflexivity. rewrite lookup_wep_namespace. reflexivity. Qed.
Lemma cal_lookup_orch : forall cl p, lookup L_ORCH (cal_labels cl p) = Some V_K8S.
Proof. intros. rewrite cal_lookup_gen by reflexivity. rewrite lookup_wep_orch. reflexivity. Qed.
Lemma pcns_not_pcsa : forall k, has_prefix (PCNS ++ k) PCSA = false.
Proof. intros. reflexivity. Qed.
Lemma cal_lookup_pcns : forall cl p k, ns_key_ok k = true ->
  lookup (PCNS ++ k) (cal_labels cl p) = lookup k (ns_labels cl (pod_ns p)).
Proof.
  intros cl p k H. unfold ns_key_ok in H. apply negb_true_iff in H.
  rewrite cal_lookup_gen by apply pcns_not_pcsa. rewrite lookup_wep_pcns, lookup_profile_pcns by auto. reflexivity.
Qed.

(* ------------------------------------------------------------------ converted selector terms *)

Lemma prefix_ast_nil : forall a, prefix_ast [] a = a.
Proof.
  induction a using ast_ind_nested; simpl; auto.
  - rewrite IHa. reflexivity.
  - f_equal. induction H; simpl; auto. rewrite H, IHForall. reflexivity.
  - f_equal. induction H; simpl; auto. rewrite H, IHForall. reflexivity.
Qed.

(* the PrefixVisitor keeps the meaning when the prefixed keys of L' mirror the keys of L *)
Lemma prefix_ast_eval : forall pfx a L L',
  (forall k, lookup (pfx ++ k) L' = lookup k L) -> eval (prefix_ast pfx a) L' = eval a L.
Proof.
  intros pfx a L L' E. induction a using ast_ind_nested; simpl; try rewrite E; auto.
  - rewrite IHa. reflexivity.
  - rewrite forallb_map. induction H; simpl; auto. rewrite H, IHForall. reflexivity.
  - rewrite existsb_map. induction H; simpl; auto. rewrite H, IHForall. reflexivity.
Qed.

Lemma eval_mk_and : forall ts L,
  match mk_and ts with Some a => eval a L | None => true end = forallb (fun t => eval t L) ts.
Proof.
  intros ts L. destruct ts as [|t [|t' ts]]; simpl; auto. rewrite andb_true_r. reflexivity.
Qed.

Lemma req_term_eval : forall pfx r L L' keyok,
  req_ok keyok r = true ->
  lookup (pfx ++ rq_key r) L' = lookup (rq_key r) L ->
  eval (prefix_ast pfx (req_term r)) L' = k8s_req_matches r L.
Proof.
  intros pfx r L L' keyok OK E. unfold req_ok in OK. apply andb_true_iff in OK. destruct OK as [_ OK].
  unfold req_term, k8s_req_matches. destruct (rq_op r); simpl; rewrite E; destruct (lookup (rq_key r) L); auto.
  - apply mem_set_values. destruct (rq_vals r); [discriminate|discriminate].
  - f_equal. apply mem_set_values. destruct (rq_vals r); [discriminate|discriminate].
Qed.

Lemma lsel_terms_eval : forall pfx s L L' keyok,
  lsel_ok keyok s = true ->
  (forall k, keyok k = true -> lookup (pfx ++ k) L' = lookup k L) ->
  forallb (fun t => eval (prefix_ast pfx t) L') (lsel_terms s) = k8s_sel_matches s L.
Proof.
  intros pfx s L L' keyok OK E. unfold lsel_ok in OK. apply andb_true_iff in OK. destruct OK as [OK1 OK2].
  unfold lsel_terms, k8s_sel_matches. rewrite forallb_app', !forallb_map. f_equal.
  - rewrite forallb_sort_kv. apply forallb_ext_in. intros [k v] IN. simpl.
    rewrite forallb_forall in OK1. specialize (OK1 _ IN). simpl in OK1. rewrite E by auto. reflexivity.
  - apply forallb_ext_in. intros r IN. rewrite forallb_forall in OK2. specialize (OK2 _ IN).
    eapply req_term_eval; eauto. apply E. unfold req_ok in OK2. apply andb_true_iff in OK2. tauto.
Qed.

Lemma lsel_terms_nil : forall s L, lsel_terms s = [] -> k8s_sel_matches s L = true.
Proof.
  intros s L H. unfold lsel_terms in H. apply app_eq_nil in H. destruct H as [H1 H2].
  apply map_eq_nil in H1, H2. apply sort_kv_nil in H1. unfold k8s_sel_matches. rewrite H1, H2. reflexivity.
Qed.

(* the namespace-selector terms contain no all()/global(): the textual replacement leaves them alone *)
Lemma subst_all_req_term : forall pfx r, subst_all (prefix_ast pfx (req_term r)) = prefix_ast pfx (req_term r).
Proof. intros pfx r. unfold req_term. destruct (rq_op r); reflexivity. Qed.
Lemma subst_all_terms : forall pfx s,
  map subst_all (map (prefix_ast pfx) (lsel_terms s)) = map (prefix_ast pfx) (lsel_terms s).
Proof.
  intros pfx s. unfold lsel_terms. rewrite !map_app, !map_map. f_equal.
  apply map_ext. intros. cbv beta. rewrite subst_all_req_term. reflexivity.
Qed.

(* ------------------------------------------------------------------ c29_selector_conv: pod selectors *)

Lemma orch_term_eval : forall cl p, eval orch_term (cal_labels cl p) = true.
Proof. intros. unfold orch_term. simpl. rewrite cal_lookup_orch. apply bytes_eqb_refl. Qed.

Lemma pod_selector_eval : forall cl p (s : option lsel),
  match s with Some s => lsel_ok unreserved_key s = true | None => True end ->
  match pod_selector s with Some a => eval a (cal_labels cl p) | None => true end
  = match s with Some s => k8s_sel_matches s (pod_labels p) | None => true end.
Proof.
  intros cl p s OK. unfold pod_selector. destruct s as [s|].
  - rewrite eval_mk_and. cbn [forallb]. rewrite orch_term_eval. simpl.
    rewrite <- (lsel_terms_eval [] s (pod_labels p) (cal_labels cl p) unreserved_key OK).
    + apply forallb_ext_in. intros t _. rewrite prefix_ast_nil. reflexivity.
    + intros k K. simpl. apply cal_lookup_unreserved. exact K.
  - rewrite eval_mk_and. cbn [forallb]. rewrite orch_term_eval. reflexivity.
Qed.

Lemma pod_selector_some : forall s, exists a, pod_selector s = Some a.
Proof.
  intros [s|]; unfold pod_selector; simpl.
  - destruct (lsel_terms s); eauto.
  - eauto.
Qed.

(* ------------------------------------------------------------------ c29_selector_conv: namespace selectors *)

Lemma ns_selector_eval : forall cl p (s : lsel) a,
  lsel_ok ns_key_ok s = true ->
  ns_selector (Some s) = Some a ->
  eval (subst_all (prefix_ast PCNS a)) (cal_labels cl p) = k8s_sel_matches s (ns_labels cl (pod_ns p)).
Proof.
  intros cl p s a OK H. unfold ns_selector in H.
  destruct (lsel_terms s) as [|t ts] eqn:T.
  - inversion H; subst. simpl. rewrite cal_lookup_namespace. symmetry. apply lsel_terms_nil. exact T.
  - rewrite <- (lsel_terms_eval PCNS s (ns_labels cl (pod_ns p)) (cal_labels cl p) ns_key_ok OK)
      by (intros k K; apply cal_lookup_pcns; exact K).
    pose proof (subst_all_terms PCNS s) as ST. rewrite T in *.
    destruct ts as [|t' ts]; simpl in H; inversion H; subst; clear H.
    + simpl in ST. injection ST as ST1. cbn [forallb]. rewrite andb_true_r. rewrite ST1. reflexivity.
    + cbn [prefix_ast subst_all]. rewrite ST. cbn [eval]. rewrite forallb_map. reflexivity.
Qed.
