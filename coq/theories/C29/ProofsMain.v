(* C29 — proofs, part 3: peers, rules, policies, and the main theorem. *)
From Coq Require Import List Arith NArith Bool Lia Btauto.
From Verif.Common Require Import Labels Packet.
From Verif.C29 Require Import Model Spec ProofsSel ProofsPorts.
Import ListNotations.
Open Scope N_scope.

(* ------------------------------------------------------------------ well-formed policies *)

Definition peer_ok (pe : peer) : bool :=
  match pe_ip pe with
  | Some _ => true
  | None =>
      (match pe_pod pe with Some s => lsel_ok unreserved_key s | None => true end)
      && (match pe_ns pe with Some s => lsel_ok ns_key_ok s | None => true end)
  end.
Definition rule_ok (r : nprule) : bool := forallb peer_ok (nr_peers r) && forallb port_ok (nr_ports r).
(* what the Kubernetes API server guarantees (validation + defaulting of policyTypes), plus: selector keys are
   not Calico-reserved *)
Section Variant.
Variable infer : bool.     (* which variant of the policyTypes inference (Model.conv_types) *)

(* with infer = false (pinned tree) a policy without policyTypes must not have egress rules *)
Definition np_ok (np : netpol) : bool :=
  negb (is_nil (np_ns np))
  && lsel_ok unreserved_key (np_sel np)
  && forallb rule_ok (np_ingress np) && forallb rule_ok (np_egress np)
  && (infer || negb (is_nil (np_types np)) || is_nil (np_egress np)).
Notation conv_np := (conv_np_v infer).

(* ------------------------------------------------------------------ c29_ipblock_except *)

Lemma in_cidr_mask : forall c v x, in_cidr (mask_cidr c) v x = in_cidr c v x.
Proof.
  intros c v x. unfold in_cidr, mask_cidr. cbn [cidr_ver cidr_addr cidr_len].
  destruct (ipver_eqb (cidr_ver c) v) eqn:E; [|reflexivity]. cbn [andb].
  assert (V : cidr_ver c = v) by (destruct (cidr_ver c), v; simpl in E; congruence). rewrite V.
  rewrite N.shiftr_shiftl_l by apply N.le_refl. rewrite N.sub_diag, N.shiftl_0_r. reflexivity.
Qed.

Lemma ipblock_except : forall cl ib x,
  cal_nets_ok [mask_cidr (ib_cidr ib)] (map mask_cidr (ib_except ib)) (cparty_of cl x) = k8s_ipblock_matches ib x.
Proof.
  intros cl ib x. unfold cal_nets_ok, k8s_ipblock_matches, cparty_of. cbn [cq_ver cq_ip is_nil existsb orb].
  rewrite orb_false_r, in_cidr_mask, existsb_map. f_equal. f_equal.
  apply existsb_ext_in. intros c _. apply in_cidr_mask.
Qed.

(* ------------------------------------------------------------------ peers *)

Definition peer_fields_match (pe : option peer) (ns : bytes) (x : cparty) : bool :=
  let '(sel, nssel, nets, notnets) := peer_fields pe in
  cal_sel_ok (endpoint_selector nssel sel ns) x && cal_nets_ok nets notnets x.

Lemma endpoint_selector_none : forall ns, ns <> [] -> endpoint_selector None None ns = None.
Proof. intros ns H. destruct ns; [contradiction|reflexivity]. Qed.

Lemma peer_match_none : forall ns x, ns <> [] -> peer_fields_match None ns x = true.
Proof. intros ns x H. unfold peer_fields_match. cbn [peer_fields]. rewrite endpoint_selector_none by auto. reflexivity. Qed.

Lemma matches_cep : forall a cl p, matches a (ce_labels (cep_of_pod cl p)) (ce_parents (cep_of_pod cl p)) = eval a (cal_labels cl p).
Proof. reflexivity. Qed.

Lemma ns_selector_some : forall s, exists a, ns_selector (Some s) = Some a.
Proof.
  intros s. unfold ns_selector. destruct (lsel_terms s) as [|t [|t' ts]]; simpl; eauto.
Qed.

Lemma peer_match : forall cl ns pe x, ns <> [] -> peer_ok pe = true ->
  peer_fields_match (Some pe) ns (cparty_of cl x) = k8s_peer_matches ns cl pe x.
Proof.
  intros cl ns pe x NS OK. unfold peer_fields_match, k8s_peer_matches, peer_ok in *. cbn [peer_fields].
  destruct (pe_ip pe) as [ib|].
  - rewrite endpoint_selector_none by auto. cbn [cal_sel_ok andb]. apply ipblock_except.
  - apply andb_true_iff in OK. destruct OK as [OKP OKN].
    destruct (pod_selector_some (pe_pod pe)) as [a PA]. rewrite PA.
    assert (NETS : cal_nets_ok [] [] (cparty_of cl x) = true) by reflexivity. rewrite NETS, andb_true_r.
    assert (EA : forall p, eval a (cal_labels cl p) = match pe_pod pe with Some s => k8s_sel_matches s (pod_labels p) | None => true end).
    { intros p. pose proof (pod_selector_eval cl p (pe_pod pe)) as PE. rewrite PA in PE. apply PE.
      destruct (pe_pod pe); auto. }
    destruct ns as [|n0 ns0] eqn:ENS; [contradiction|]. rewrite <- ENS in *.
    destruct (pe_ns pe) as [s|] eqn:EN.
    + destruct (ns_selector_some s) as [n SN]. rewrite SN. unfold endpoint_selector.
      unfold cal_sel_ok, cparty_of. cbn [cq_ep]. destruct (pa_pod x) as [p|]; [|reflexivity]. cbn [option_map].
      rewrite matches_cep. cbn [eval forallb]. rewrite andb_true_r, EA.
      rewrite (ns_selector_eval cl p s n OKN SN). reflexivity.
    + cbn [ns_selector]. unfold endpoint_selector. rewrite ENS. rewrite <- ENS.
      unfold cal_sel_ok, cparty_of. cbn [cq_ep]. destruct (pa_pod x) as [p|]; [|reflexivity]. cbn [option_map].
      rewrite matches_cep. cbn [eval forallb]. rewrite andb_true_r, EA, cal_lookup_namespace. reflexivity.
Qed.

(* ------------------------------------------------------------------ rules *)

Lemma existsb_concat_map : forall {A B} (f : B -> bool) (g : A -> list B) l,
  existsb f (concat (map g l)) = existsb (fun x => existsb f (g x)) l.
Proof. induction l; simpl; auto. rewrite existsb_app, IHl. reflexivity. Qed.

Lemma existsb_and_r : forall {A} (f : A -> bool) (c : bool) l, existsb (fun x => c && f x) l = c && existsb f l.
Proof. induction l; simpl; [rewrite andb_false_r; reflexivity|]. rewrite IHl. destruct c; reflexivity. Qed.

Lemma existsb_prod : forall {A B} (fa : A -> bool) (fb : B -> bool) la lb,
  existsb (fun x => existsb (fun y => fa x && fb y) lb) la = existsb fa la && existsb fb lb.
Proof.
  intros. induction la; simpl; auto. rewrite IHla, existsb_and_r.
  destruct (fa a), (existsb fa la), (existsb fb lb); reflexivity.
Qed.

Lemma mk_rule_matches : forall ingress ns g pe src dst proto d, ns <> [] ->
  cal_rule_matches (mk_rule ingress ns (fst g) (snd g) pe) src dst proto d
  = group_hit dst proto d g && peer_fields_match pe ns (if ingress then src else dst).
Proof.
  intros ingress ns g pe src dst proto d NS. unfold mk_rule, peer_fields_match, group_hit, cproto_ok, cports_hit.
  destruct (peer_fields pe) as [[[sel nssel] nets] notnets].
  destruct ingress; unfold cal_rule_matches; cbn [cr_proto cr_src_sel cr_src_nets cr_not_src_nets cr_dst_sel cr_dst_nets cr_not_dst_nets cr_dst_ports];
    rewrite endpoint_selector_none by auto;
    assert (N1 : forall x, cal_nets_ok [] [] x = true) by reflexivity; rewrite !N1; cbn [cal_sel_ok];
    btauto.
Qed.

Lemma mk_rule_action : forall ingress ns p ports pe, cr_action (mk_rule ingress ns p ports pe) = CAllow.
Proof.
  intros. unfold mk_rule. destruct (peer_fields pe) as [[[sel nssel] nets] notnets]. destruct ingress; reflexivity.
Qed.

Definition conn_matches (cl : cluster) (c : conn) (cr : crule) : bool :=
  cal_rule_matches cr (cparty_of cl (c_src c)) (cparty_of cl (c_dst c)) (c_proto c) (c_dport c).

Lemma conv_rule_matches : forall cl ingress ns r rs c, ns <> [] -> rule_ok r = true ->
  conv_rule ingress ns r = Some rs ->
  existsb (conn_matches cl c) rs = k8s_rule_allows ns cl r (if ingress then c_src c else c_dst c) c.
Proof.
  intros cl ingress ns r rs c NS OK H. unfold conv_rule in H.
  destruct (proto_groups (nr_ports r)) as [gs|] eqn:PG; [|discriminate]. inversion H; subst; clear H.
  unfold rule_ok in OK. apply andb_true_iff in OK. destruct OK as [OKP _].
  rewrite existsb_concat_map.
  set (peers := match nr_peers r with [] => [None] | ps => map Some ps end).
  set (remote := if ingress then c_src c else c_dst c).
  transitivity (existsb (fun g => existsb (fun pe => group_hit (cparty_of cl (c_dst c)) (c_proto c) (c_dport c) g
                                             && peer_fields_match pe ns (cparty_of cl remote)) peers) gs).
  { apply existsb_ext_in. intros g _. rewrite existsb_map. apply existsb_ext_in. intros pe _.
    unfold conn_matches. rewrite mk_rule_matches by auto. subst remote. destruct ingress; reflexivity. }
  rewrite existsb_prod. rewrite (protocol_grouping cl (c_dst c) (c_proto c) (c_dport c) (nr_ports r) gs PG).
  unfold k8s_rule_allows. rewrite andb_comm. f_equal.
  subst peers. destruct (nr_peers r) as [|pe0 ps0] eqn:EP.
  - cbn [existsb is_nil orb]. rewrite peer_match_none by auto. reflexivity.
  - rewrite <- EP in *. assert (NN : is_nil (nr_peers r) = false) by (rewrite EP; reflexivity). rewrite NN. cbn [orb].
    rewrite existsb_map. apply existsb_ext_in. intros pe IN. apply peer_match; auto.
    rewrite forallb_forall in OKP. auto.
Qed.

Lemma proto_groups_some : forall ports, forallb port_ok ports = true -> exists gs, proto_groups ports = Some gs.
Proof.
  intros ports H. unfold proto_groups. destruct ports as [|p ps] eqn:E; eauto. rewrite <- E in *.
  destruct (group_ports_some ports pm_empty H) as [m G]. rewrite G. eauto.
Qed.

Lemma conv_rule_some : forall ingress ns r, rule_ok r = true -> exists rs, conv_rule ingress ns r = Some rs.
Proof.
  intros ingress ns r OK. unfold rule_ok in OK. apply andb_true_iff in OK. destruct OK as [_ OK].
  destruct (proto_groups_some _ OK) as [gs G]. unfold conv_rule. rewrite G. eauto.
Qed.

Lemma conv_rules_matches : forall cl ingress ns rs c, ns <> [] -> forallb rule_ok rs = true ->
  existsb (conn_matches cl c) (conv_rules ingress ns rs)
  = existsb (fun r => k8s_rule_allows ns cl r (if ingress then c_src c else c_dst c) c) rs.
Proof.
  intros cl ingress ns rs c NS OK. unfold conv_rules. rewrite existsb_concat_map.
  apply existsb_ext_in. intros r IN. rewrite forallb_forall in OK. specialize (OK r IN).
  destruct (conv_rule_some ingress ns r OK) as [l L]. rewrite L. eapply conv_rule_matches; eauto.
Qed.

Lemma conv_rules_allow : forall ingress ns rs cr, In cr (conv_rules ingress ns rs) -> cr_action cr = CAllow.
Proof.
  intros ingress ns rs cr IN. unfold conv_rules in IN. apply in_concat in IN. destruct IN as [l [IL IN]].
  apply in_map_iff in IL. destruct IL as [r [EL _]]. subst l.
  destruct (conv_rule ingress ns r) as [l|] eqn:CR; [|contradiction].
  unfold conv_rule in CR. destruct (proto_groups (nr_ports r)); [|discriminate]. inversion CR; subst; clear CR.
  apply in_concat in IN. destruct IN as [l' [IL IN]]. apply in_map_iff in IL. destruct IL as [g [EL _]]. subst l'.
  apply in_map_iff in IN. destruct IN as [pe [E _]]. subst cr. apply mk_rule_action.
Qed.

Lemma allow_only_verdict : forall rs src dst proto d,
  (forall cr, In cr rs -> cr_action cr = CAllow) ->
  cal_rules_verdict rs src dst proto d
  = if existsb (fun cr => cal_rule_matches cr src dst proto d) rs then VAllow else VNoMatch.
Proof.
  induction rs as [|r rs IH]; intros src dst proto d A; simpl; auto.
  destruct (cal_rule_matches r src dst proto d); simpl.
  - rewrite (A r) by (left; reflexivity). reflexivity.
  - apply IH. intros cr I. apply A. right. exact I.
Qed.

(* ------------------------------------------------------------------ policies *)

Lemma has_type_conv_types : forall dir i e ts, ts <> [] -> has_type dir (conv_types i e ts) = has_type dir ts.
Proof.
  intros dir i e ts NE. unfold conv_types.
  assert (ONE : has_type TIngress ts = true \/ has_type TEgress ts = true).
  { destruct ts as [|t ts]; [contradiction|]. destruct t; simpl; auto. }
  destruct (has_type TIngress ts) eqn:I, (has_type TEgress ts) eqn:E, dir; simpl; auto;
    destruct ONE; congruence.
Qed.

Lemma types_agree : forall np dir,
  (infer || negb (is_nil (np_types np)) || is_nil (np_egress np)) = true ->
  has_type dir (cp_types (conv_np np)) = has_type dir (k8s_types np).
Proof.
  intros np dir H. unfold conv_np_v, k8s_types. cbn [cp_types].
  destruct (np_types np) as [|t ts] eqn:E.
  - cbn [is_nil negb orb] in H. rewrite orb_false_r in H.
    destruct (np_egress np) as [|r rs]; [destruct infer, dir; reflexivity|].
    cbn [is_nil] in H. rewrite orb_false_r in H. rewrite H. destruct dir; reflexivity.
  - rewrite <- E. apply has_type_conv_types. rewrite E. discriminate.
Qed.

Lemma np_ok_spec : forall np, np_ok np = true ->
  np_ns np <> [] /\ lsel_ok unreserved_key (np_sel np) = true /\ forallb rule_ok (np_ingress np) = true
  /\ forallb rule_ok (np_egress np) = true /\ (infer || negb (is_nil (np_types np)) || is_nil (np_egress np)) = true.
Proof.
  unfold np_ok. intros np H. repeat (apply andb_true_iff in H; destruct H as [H ?]).
  repeat split; auto. intros E. rewrite E in H. discriminate.
Qed.

Lemma applies_agree : forall cl np dir p, np_ok np = true ->
  cal_applies (conv_np np) dir (cep_of_pod cl p) = k8s_applies np dir p.
Proof.
  intros cl np dir p OK. apply np_ok_spec in OK. destruct OK as (NS & SEL & _ & _ & TY).
  unfold cal_applies, k8s_applies. rewrite types_agree by auto. f_equal.
  unfold conv_np_v. cbn [cp_sel]. unfold policy_selector.
  destruct (np_ns np) as [|n0 ns0] eqn:ENS; [contradiction|]. rewrite <- ENS.
  destruct (pod_selector_some (Some (np_sel np))) as [a PA]. rewrite PA.
  rewrite matches_cep. cbn [eval forallb]. rewrite andb_true_r, cal_lookup_namespace.
  pose proof (pod_selector_eval cl p (Some (np_sel np)) SEL) as PE. rewrite PA in PE. rewrite PE.
  apply andb_comm.
Qed.

Lemma np_rules_agree : forall cl np dir c, np_ok np = true ->
  existsb (conn_matches cl c) (cp_rules dir (conv_np np)) = k8s_np_allows cl dir np c.
Proof.
  intros cl np dir c OK. apply np_ok_spec in OK. destruct OK as (NS & _ & IN & EG & _).
  unfold k8s_np_allows, conv_np_v. destruct dir; cbn [cp_rules cp_in cp_out np_rules remote_of].
  - rewrite conv_rules_matches by auto. reflexivity.
  - rewrite conv_rules_matches by auto. reflexivity.
Qed.

Lemma policies_verdict_agree : forall cl nps dir c,
  forallb np_ok nps = true ->
  cal_policies_verdict (map conv_np nps) dir (cparty_of cl (c_src c)) (cparty_of cl (c_dst c)) (c_proto c) (c_dport c)
  = if existsb (fun np => k8s_np_allows cl dir np c) nps then VAllow else VNoMatch.
Proof.
  intros cl nps dir c OK. induction nps as [|np nps IH]; simpl; auto.
  simpl in OK. apply andb_true_iff in OK. destruct OK as [OK1 OK2].
  rewrite allow_only_verdict.
  - fold (conn_matches cl c). rewrite np_rules_agree by auto.
    destruct (k8s_np_allows cl dir np c); simpl; auto.
  - intros cr I. unfold conv_np_v in I. destruct dir; cbn [cp_rules cp_in cp_out] in I; eapply conv_rules_allow; eauto.
Qed.

Lemma filter_map_comm : forall {A B} (f : B -> bool) (g : A -> B) l,
  filter f (map g l) = map g (filter (fun x => f (g x)) l).
Proof. induction l; simpl; auto. destruct (f (g a)); simpl; rewrite IHl; reflexivity. Qed.

Lemma forallb_filter : forall {A} (f g : A -> bool) l, forallb f l = true -> forallb f (filter g l) = true.
Proof.
  intros A f g l H. rewrite forallb_forall in *. intros x I. apply filter_In in I. apply H. tauto.
Qed.

(* ------------------------------------------------------------------ c29_same_meaning *)

Theorem same_meaning_dir : forall nps cl dir p c,
  forallb np_ok nps = true ->
  cal_allows_dir (map conv_np nps) dir (cep_of_pod cl p)
                 (cparty_of cl (c_src c)) (cparty_of cl (c_dst c)) (c_proto c) (c_dport c)
  = k8s_allows_dir nps cl dir p c.
Proof.
  intros nps cl dir p c OK. unfold cal_allows_dir, k8s_allows_dir.
  rewrite filter_map_comm.
  rewrite (filter_ext_in (fun x => cal_applies (conv_np x) dir (cep_of_pod cl p)) (fun np => k8s_applies np dir p)).
  2:{ intros np I. apply applies_agree. rewrite forallb_forall in OK. auto. }
  pose proof (forallb_filter np_ok (fun np => k8s_applies np dir p) nps OK) as OKF.
  destruct (filter (fun np => k8s_applies np dir p) nps) as [|np app] eqn:F; [reflexivity|].
  rewrite <- F in *. assert (M : map conv_np (filter (fun np => k8s_applies np dir p) nps) <> []) by (rewrite F; discriminate).
  destruct (map conv_np (filter (fun np => k8s_applies np dir p) nps)) as [|q qs] eqn:EM; [contradiction|].
  rewrite <- EM. rewrite policies_verdict_agree by auto.
  destruct (existsb _ _); reflexivity.
Qed.

Theorem same_meaning : forall nps cl c,
  forallb np_ok nps = true ->
  cal_allows (map conv_np nps) (cparty_of cl (c_src c)) (cparty_of cl (c_dst c)) (c_proto c) (c_dport c)
  = k8s_allows nps cl c.
Proof.
  intros nps cl c OK. unfold cal_allows, k8s_allows.
  assert (S : cq_ep (cparty_of cl (c_src c)) = option_map (cep_of_pod cl) (pa_pod (c_src c))) by reflexivity.
  assert (D : cq_ep (cparty_of cl (c_dst c)) = option_map (cep_of_pod cl) (pa_pod (c_dst c))) by reflexivity.
  rewrite S, D. clear S D.
  destruct (pa_pod (c_src c)) as [ps|], (pa_pod (c_dst c)) as [pd|]; cbn [option_map];
    rewrite ?same_meaning_dir by auto; reflexivity.
Qed.

(* single policy, the form of the property statement *)
Corollary same_meaning_one : forall np cl c,
  np_ok np = true ->
  cal_allows [conv_np np] (cparty_of cl (c_src c)) (cparty_of cl (c_dst c)) (c_proto c) (c_dport c)
  = k8s_allows [np] cl c.
Proof. intros. apply (same_meaning [np]). simpl. rewrite H. reflexivity. Qed.

End Variant.
