(* C29 — proofs, part 9: the oracle of Spec.v accepts every run of the model (model_meets_spec), and the
   canonical form in which label maps are compared keeps every selector's verdict. *)
From Coq Require Import List Arith NArith Bool.
From Verif.Common Require Import Labels Packet.
From Verif.C29 Require Import Model ModelText Spec ProofsSel ProofsPorts ProofsMain ProofsValid.
Import ListNotations.
Open Scope N_scope.

(* ------------------------------------------------------------------ canon_labels keeps lookups *)

Definition has_key (k : bytes) (l : labels) : bool := existsb (fun kv => bytes_eqb k (fst kv)) l.

Lemma lookup_none_has_key : forall k l, has_key k l = false -> lookup k l = None.
Proof.
  induction l as [|[k' v] l IH]; simpl; intros H; auto.
  apply orb_false_iff in H. destruct H as [H1 H2]. rewrite H1. auto.
Qed.

Lemma lookup_filter_other : forall k k0 l,
  bytes_eqb k k0 = false -> lookup k (filter (fun x => negb (bytes_eqb (fst x) k0)) l) = lookup k l.
Proof.
  intros k k0 l NE. induction l as [|[k' v] l IH]; simpl; auto.
  destruct (bytes_eqb k' k0) eqn:E; simpl.
  - apply bytes_eqb_eq in E. subst k'. rewrite NE. exact IH.
  - destruct (bytes_eqb k k'); auto.
Qed.

Lemma lookup_dedupe : forall k l, lookup k (dedupe_kv l) = lookup k l.
Proof.
  intros k l. induction l as [|[k' v] l IH]; simpl; auto.
  destruct (bytes_eqb k k') eqn:E; auto.
  rewrite lookup_filter_other by exact E. exact IH.
Qed.

Lemma has_key_filter : forall k0 l, has_key k0 (filter (fun x => negb (bytes_eqb (fst x) k0)) l) = false.
Proof.
  intros k0 l. induction l as [|[k' v] l IH]; simpl; auto.
  destruct (bytes_eqb k' k0) eqn:E; simpl; auto.
  rewrite bytes_eqb_sym, E. simpl. exact IH.
Qed.

(* distinct keys *)
Fixpoint nodup_keys (l : labels) : bool :=
  match l with [] => true | kv :: l' => negb (has_key (fst kv) l') && nodup_keys l' end.

Lemma has_key_filter_mono : forall k k0 l, has_key k l = false ->
  has_key k (filter (fun x => negb (bytes_eqb (fst x) k0)) l) = false.
Proof.
  intros k k0 l. induction l as [|[k' v] l IH]; simpl; auto. intros H.
  apply orb_false_iff in H. destruct H as [H1 H2].
  destruct (bytes_eqb k' k0); simpl; auto. rewrite H1. auto.
Qed.
Lemma nodup_filter : forall k0 l, nodup_keys l = true -> nodup_keys (filter (fun x => negb (bytes_eqb (fst x) k0)) l) = true.
Proof.
  intros k0 l. induction l as [|[k' v] l IH]; simpl; auto. intros H.
  apply andb_true_iff in H. destruct H as [H1 H2]. apply negb_true_iff in H1.
  destruct (bytes_eqb k' k0); simpl; auto. rewrite has_key_filter_mono by auto. simpl. auto.
Qed.
Lemma nodup_dedupe : forall l, nodup_keys (dedupe_kv l) = true.
Proof.
  induction l as [|[k v] l IH]; simpl; auto. rewrite has_key_filter. simpl. apply nodup_filter. exact IH.
Qed.

Lemma lookup_insert_kv : forall k x l, has_key (fst x) l = false ->
  lookup k (insert_kv x l) = if bytes_eqb k (fst x) then Some (snd x) else lookup k l.
Proof.
  intros k [kx vx] l. induction l as [|[k' v] l IH]; simpl; intros H.
  - reflexivity.
  - apply orb_false_iff in H. destruct H as [H1 H2]. simpl in *.
    destruct (bytes_ltb k' kx); simpl.
    + rewrite IH by auto. destruct (bytes_eqb k k') eqn:E; auto.
      apply bytes_eqb_eq in E. subst k'. rewrite bytes_eqb_sym, H1. reflexivity.
    + reflexivity.
Qed.
Lemma has_key_insert_kv : forall k x l, has_key k (insert_kv x l) = bytes_eqb k (fst x) || has_key k l.
Proof.
  intros k x l. induction l as [|y l IH]; simpl; auto.
  destruct (bytes_ltb (fst y) (fst x)); simpl; auto. rewrite IH.
  destruct (bytes_eqb k (fst x)), (bytes_eqb k (fst y)); reflexivity.
Qed.
Lemma has_key_sort_kv : forall k l, has_key k (sort_kv l) = has_key k l.
Proof. intros k l. induction l; simpl; auto. rewrite has_key_insert_kv, IHl. reflexivity. Qed.

Lemma lookup_sort_kv : forall k l, nodup_keys l = true -> lookup k (sort_kv l) = lookup k l.
Proof.
  intros k l. induction l as [|[k' v] l IH]; simpl; auto. intros H.
  apply andb_true_iff in H. destruct H as [H1 H2]. apply negb_true_iff in H1.
  rewrite lookup_insert_kv by (rewrite has_key_sort_kv; exact H1). simpl. rewrite IH by auto. reflexivity.
Qed.

Lemma lookup_canon : forall k l, lookup k (canon_labels l) = lookup k l.
Proof. intros. unfold canon_labels. rewrite lookup_sort_kv by apply nodup_dedupe. apply lookup_dedupe. Qed.

(* two label maps with the same canonical form give every selector the same verdict: comparing canonical forms in
   the correspondence run is sound *)
Theorem canon_same_eval : forall l1 l2 a, canon_labels l1 = canon_labels l2 -> eval a l1 = eval a l2.
Proof.
  intros l1 l2 a H. apply eval_ext. intros k. rewrite <- (lookup_canon k l1), <- (lookup_canon k l2), H. reflexivity.
Qed.

(* ------------------------------------------------------------------ model_meets_spec *)

(* A case whose implementation observables are the model's: the converted policies are conv_np_v of the policies,
   and every end point of its connections is seen by Calico as the model says (cparty_of). *)
Definition model_run (infer : bool) (c : case) : Prop :=
  k_impl c = map (conv_np_v infer) (k_nps c)
  /\ k_impl_clean c = true
  /\ forall s d proto dport, In (s, d, proto, dport) (k_conns c) ->
       impl_party c s = cparty_of (k_cluster c) (k8s_party c s)
       /\ impl_party c d = cparty_of (k_cluster c) (k8s_party c d).

Theorem model_meets_spec : forall infer c,
  model_run infer c ->
  forallb np_keys_ok (k_nps c) = true ->
  forallb (types_defaulted infer) (k_nps c) = true ->
  ok_case c = true.
Proof.
  intros infer c (HI & HC & HP) K T. unfold ok_case. rewrite HC, HI, map_length, Nat.eqb_refl. cbn [andb].
  destruct (forallb k8s_np_valid (k_nps c)) eqn:V; [|reflexivity].
  apply forallb_forall. intros [[[s d] proto] dport] IN. unfold ok_conn.
  destruct (HP s d proto dport IN) as [PS PD]. rewrite HI, PS, PD.
  set (kc := {| c_src := k8s_party c s; c_dst := k8s_party c d; c_proto := proto; c_dport := dport |}).
  pose proof (same_meaning_valid infer (k_nps c) (k_cluster c) kc V K T) as SM. cbn [kc c_src c_dst c_proto c_dport] in SM.
  rewrite SM. apply eqb_reflx.
Qed.
