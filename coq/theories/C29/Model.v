(* C29 — executable model of the Kubernetes NetworkPolicy -> Calico conversion.

   Stage 1: libcalico-go/lib/backend/k8s/conversion/conversion.go
            K8sNetworkPolicyToCalico, k8sRuleToCalico, k8sSelectorToCalico, k8sPeerToCalicoFields,
            k8sPortToCalico, SimplifyPorts, NamespaceToProfile; workload_endpoint_default.go (pod labels)
   Stage 2: libcalico-go/lib/backend/syncersv1/updateprocessors
            ConvertNetworkPolicyV3ToV1Value, RuleAPIV3ToBackend, getEndpointSelector,
            parseSelectorAttachPrefix (+ parser.PrefixVisitor), the "all()" -> has(projectcalico.org/namespace)
            replacement, the workload-endpoint processor's label filter, the profile processor.

   Selector strings are modelled by the AST the real selector parser produces from them
   (Common/Labels.v `ast`): `a && b && c` is `SAnd [a;b;c]`, a single term is the term itself, a
   parenthesised sub-expression is its own node, `k in {..}` carries the sorted de-duplicated value set
   (parser.ConvertToStringSetInPlace).  The empty selector string is `None`.
   Definitions only: no proofs in this file. *)
From Coq Require Import String Ascii.
From Coq Require Import List Arith NArith Bool Sorting.Mergesort Orders.
From Verif.Common Require Import Labels Packet.
Import ListNotations.
Open Scope N_scope.

(* string literal -> bytes, for readable constants and for the generated case files *)
Definition b (s : string) : bytes := map N_of_ascii (list_ascii_of_string s).
Arguments b s%string.

(* ------------------------------------------------------------------ Kubernetes API objects *)

Inductive kproto := KTCP | KUDP | KSCTP.
Inductive sel_op := OpIn | OpNotIn | OpExists | OpDoesNotExist.
Record req := { rq_key : bytes; rq_op : sel_op; rq_vals : list bytes }.
(* metav1.LabelSelector: matchLabels is a Go map (association list with distinct keys, any order) *)
Record lsel := { ls_match : labels; ls_exprs : list req }.
Record ipblock := { ib_cidr : cidr; ib_except : list cidr }.
(* NetworkPolicyPeer: nil selectors are None *)
Record peer := { pe_pod : option lsel; pe_ns : option lsel; pe_ip : option ipblock }.
Inductive kport := KNoPort | KNum (n : N) | KName (s : bytes).
(* NetworkPolicyPort *)
Record npport := { pp_proto : option kproto; pp_port : kport; pp_end : option N }.
Record nprule := { nr_peers : list peer; nr_ports : list npport }.
Inductive ptype := TIngress | TEgress.
Record netpol := {
  np_ns : bytes;                 (* metadata.namespace *)
  np_sel : lsel;                 (* spec.podSelector *)
  np_ingress : list nprule;
  np_egress : list nprule;
  np_types : list ptype          (* spec.policyTypes *)
}.

(* ------------------------------------------------------------------ model.Policy / model.Rule (fields the conversion can set) *)

Inductive cproto := CPName (s : bytes) | CPNum (n : N).
Inductive cport := CRange (lo hi : N) | CNamed (s : bytes).
Inductive caction := CAllow | CDeny | CPass | CLog | COther.
Record crule := {
  cr_action : caction;
  cr_proto : option cproto;
  cr_src_sel : option ast;
  cr_src_nets : list cidr;
  cr_not_src_nets : list cidr;
  cr_dst_sel : option ast;
  cr_dst_nets : list cidr;
  cr_not_dst_nets : list cidr;
  cr_dst_ports : list cport
}.
Record cpolicy := {
  cp_ns : bytes;
  cp_tier : bytes;
  cp_order : option N;           (* Order, in thousandths (1000.0 -> 1000000); None = nil *)
  cp_sel : option ast;
  cp_in : list crule;
  cp_out : list crule;
  cp_types : list ptype
}.

(* ------------------------------------------------------------------ constants *)
Definition L_NAMESPACE : bytes := Eval compute in b "projectcalico.org/namespace".
Definition L_ORCH : bytes := Eval compute in b "projectcalico.org/orchestrator".
Definition L_SA : bytes := Eval compute in b "projectcalico.org/serviceaccount".
Definition L_NAME : bytes := Eval compute in b "projectcalico.org/name".
Definition V_K8S : bytes := Eval compute in b "k8s".
Definition PCNS : bytes := Eval compute in b "pcns.".
Definition PCSA : bytes := Eval compute in b "pcsa.".
Definition KNS : bytes := Eval compute in b "kns.".
Definition KSA : bytes := Eval compute in b "ksa.".
Definition DOT : bytes := Eval compute in b ".".
(* frequent strings of the generated case files (shorter terms elaborate faster) *)
Definition K_KMN : bytes := Eval compute in b "kubernetes.io/metadata.name".
Definition K_AKN : bytes := Eval compute in b "app.kubernetes.io/name".
Definition T_DEFAULT : bytes := Eval compute in b "default".
Definition S_TCP : bytes := Eval compute in b "tcp".
Definition S_UDP : bytes := Eval compute in b "udp".
Definition S_SCTP : bytes := Eval compute in b "sctp".

(* ------------------------------------------------------------------ small sorting helpers (Go sort.Strings) *)

Fixpoint insert_kv (x : bytes * bytes) (l : labels) : labels :=
  match l with
  | [] => [x]
  | y :: l' => if bytes_ltb (fst y) (fst x) then y :: insert_kv x l' else x :: l
  end.
Definition sort_kv (l : labels) : labels := fold_right insert_kv [] l.

(* sorted, de-duplicated value set *)
Fixpoint insert_dd (x : bytes) (l : list bytes) : list bytes :=
  match l with
  | [] => [x]
  | y :: l' => if bytes_eqb x y then l else if bytes_ltb y x then y :: insert_dd x l' else x :: l
  end.
Definition sort_dd (l : list bytes) : list bytes := fold_right insert_dd [] l.

(* ------------------------------------------------------------------ k8sSelectorToCalico *)

(* the parser's shape for `t1 && t2 && ...` *)
Definition mk_and (ts : list ast) : option ast :=
  match ts with
  | [] => None
  | [t] => Some t
  | _ => Some (SAnd ts)
  end.

(* `k in { 'v1', 'v2' }`: strings.Join of no values still prints one empty literal *)
Definition set_values (vs : list bytes) : list bytes :=
  match vs with [] => [[]] | _ => sort_dd vs end.

Definition req_term (r : req) : ast :=
  match rq_op r with
  | OpIn => SIn (rq_key r) (set_values (rq_vals r))
  | OpNotIn => SNotIn (rq_key r) (set_values (rq_vals r))
  | OpExists => SHas (rq_key r)
  | OpDoesNotExist => SNot (SHas (rq_key r))
  end.

Definition lsel_terms (s : lsel) : list ast :=
  map (fun kv => SEq (fst kv) (snd kv)) (sort_kv (ls_match s)) ++ map req_term (ls_exprs s).

Definition orch_term : ast := SEq L_ORCH V_K8S.

(* selectorType = SelectorPod *)
Definition pod_selector (s : option lsel) : option ast :=
  match s with
  | None => mk_and [orch_term]
  | Some s => mk_and (orch_term :: lsel_terms s)
  end.

(* selectorType = SelectorNamespace *)
Definition ns_selector (s : option lsel) : option ast :=
  match s with
  | None => None
  | Some s => match lsel_terms s with [] => Some SAll | ts => mk_and ts end
  end.

(* ------------------------------------------------------------------ ports *)

Definition cproto_of (p : kproto) : cproto :=
  CPName (match p with KTCP => S_TCP | KUDP => S_UDP | KSCTP => S_SCTP end).

(* k8sPortToCalico + numorstring.PortFromString; None = conversion error *)
Definition conv_port (p : npport) : option (list cport) :=
  match pp_port p with
  | KNoPort => Some []
  | KNum n =>
      match pp_end p with
      | None => if n <=? 65535 then Some [CRange n n] else None
      | Some e => if (n <=? 65535) && (e <=? 65535) && (n <=? e) then Some [CRange n e] else None
      end
  | KName s => match pp_end p with None => Some [CNamed s] | Some _ => None end
  end.

Definition port_proto (p : npport) : kproto := match pp_proto p with Some q => q | None => KTCP end.

(* protocolPorts map: per protocol None = no entry, Some [] = all ports, Some (_::_) = these ports.
   Go sorts the protocol strings: "SCTP" < "TCP" < "UDP". *)
Record pmap := { pm_sctp : option (list cport); pm_tcp : option (list cport); pm_udp : option (list cport) }.
Definition pm_empty := {| pm_sctp := None; pm_tcp := None; pm_udp := None |}.
Definition pm_get (m : pmap) (p : kproto) :=
  match p with KSCTP => pm_sctp m | KTCP => pm_tcp m | KUDP => pm_udp m end.
Definition pm_set (m : pmap) (p : kproto) (v : list cport) : pmap :=
  match p with
  | KSCTP => {| pm_sctp := Some v; pm_tcp := pm_tcp m; pm_udp := pm_udp m |}
  | KTCP => {| pm_sctp := pm_sctp m; pm_tcp := Some v; pm_udp := pm_udp m |}
  | KUDP => {| pm_sctp := pm_sctp m; pm_tcp := pm_tcp m; pm_udp := Some v |}
  end.

Definition pm_add (m : pmap) (p : kproto) (ports : list cport) : pmap :=
  match ports with
  | [] => pm_set m p []
  | _ => match pm_get m p with
         | None => pm_set m p ports
         | Some [] => m
         | Some l => pm_set m p (l ++ ports)
         end
  end.

Fixpoint group_ports (m : pmap) (ps : list npport) : option pmap :=
  match ps with
  | [] => Some m
  | p :: ps' => match conv_port p with
                | None => None
                | Some cps => group_ports (pm_add m (port_proto p) cps) ps'
                end
  end.

(* SimplifyPorts *)
Module NOrder <: TotalLeBool.
  Definition t := N.
  Definition leb := N.leb.
  Theorem leb_total : forall a1 a2, leb a1 a2 = true \/ leb a2 a1 = true.
  Proof. intros. unfold leb. destruct (N.leb a1 a2) eqn:E; auto. right. apply N.leb_le. apply N.leb_gt in E. apply N.lt_le_incl. exact E. Qed.
End NOrder.
Module NSort := Sort NOrder.

Definition is_named (p : cport) : bool := match p with CNamed _ => true | _ => false end.
(* lo, lo+1, ..., lo+len-1 *)
Fixpoint nseq (lo : N) (len : nat) : list N :=
  match len with O => [] | S k => lo :: nseq (N.succ lo) k end.
Definition expand (p : cport) : list N :=
  match p with
  | CNamed _ => []
  | CRange lo hi => nseq lo (N.to_nat (hi + 1 - lo))
  end.
Fixpoint ranges_from (first last : N) (l : list N) : list cport :=
  match l with
  | [] => [CRange first last]
  | x :: l' => if last + 1 <? x then CRange first last :: ranges_from x x l' else ranges_from first x l'
  end.
Definition ranges (l : list N) : list cport :=
  match l with [] => [] | x :: l' => ranges_from x x l' end.

Definition simplify_ports (ports : list cport) : list cport :=
  if (length ports <=? 1)%nat then ports else
  let nums := concat (map expand ports) in
  if (length nums <=? 1)%nat then ports else
  filter is_named ports ++ ranges (NSort.sort nums).

(* ------------------------------------------------------------------ peers *)

Definition mask_cidr (c : cidr) : cidr :=
  let sh := addr_width (cidr_ver c) - cidr_len c in
  {| cidr_ver := cidr_ver c; cidr_addr := N.shiftl (N.shiftr (cidr_addr c) sh) sh; cidr_len := cidr_len c |}.

(* k8sPeerToCalicoFields: (selector, nsSelector, nets, notNets) *)
Definition peer_fields (p : option peer) : option ast * option ast * list cidr * list cidr :=
  match p with
  | None => (None, None, [], [])
  | Some p =>
      match pe_ip p with
      | Some ib => (None, None, [mask_cidr (ib_cidr ib)], map mask_cidr (ib_except ib))
      | None => (pod_selector (pe_pod p), ns_selector (pe_ns p), [], [])
      end
  end.

(* ------------------------------------------------------------------ stage 2: selectors *)

(* parser.PrefixVisitor *)
Fixpoint prefix_ast (pfx : bytes) (a : ast) : ast :=
  match a with
  | SEq l v => SEq (pfx ++ l) v
  | SNe l v => SNe (pfx ++ l) v
  | SContains l v => SContains (pfx ++ l) v
  | SStartsWith l v => SStartsWith (pfx ++ l) v
  | SEndsWith l v => SEndsWith (pfx ++ l) v
  | SIn l vs => SIn (pfx ++ l) vs
  | SNotIn l vs => SNotIn (pfx ++ l) vs
  | SHas l => SHas (pfx ++ l)
  | SAll => SAll
  | SGlobal => SGlobal
  | SNot a' => SNot (prefix_ast pfx a')
  | SAnd xs => SAnd (map (prefix_ast pfx) xs)
  | SOr xs => SOr (map (prefix_ast pfx) xs)
  end.

(* strings.Replace "all()" -> "has(projectcalico.org/namespace)", "global()" -> "!has(...)" on the printed
   selector, seen on the re-parsed AST *)
Fixpoint subst_all (a : ast) : ast :=
  match a with
  | SAll => SHas L_NAMESPACE
  | SGlobal => SNot (SHas L_NAMESPACE)
  | SNot a' => SNot (subst_all a')
  | SAnd xs => SAnd (map subst_all xs)
  | SOr xs => SOr (map subst_all xs)
  | _ => a
  end.

(* getEndpointSelector with no service-account selector and no NotSelector *)
Definition endpoint_selector (nssel sel : option ast) (ns : bytes) : option ast :=
  let nsSelector :=
    match nssel with
    | Some a => Some (subst_all (prefix_ast PCNS a))
    | None => match ns with [] => None | _ => Some (SEq L_NAMESPACE ns) end
    end in
  match nsSelector with
  | None => sel
  | Some n =>
      match sel, nssel with
      | Some s, _ => Some (SAnd [n; s])
      | None, Some _ => Some n
      | None, None => None
      end
  end.

(* ------------------------------------------------------------------ rules *)

Definition mk_rule (ingress : bool) (ns : bytes) (proto : option cproto) (ports : list cport) (p : option peer) : crule :=
  let '(sel, nssel, nets, notnets) := peer_fields p in
  if ingress then
    {| cr_action := CAllow; cr_proto := proto;
       cr_src_sel := endpoint_selector nssel sel ns; cr_src_nets := nets; cr_not_src_nets := notnets;
       cr_dst_sel := endpoint_selector None None ns; cr_dst_nets := []; cr_not_dst_nets := [];
       cr_dst_ports := ports |}
  else
    {| cr_action := CAllow; cr_proto := proto;
       cr_src_sel := endpoint_selector None None ns; cr_src_nets := []; cr_not_src_nets := [];
       cr_dst_sel := endpoint_selector nssel sel ns; cr_dst_nets := nets; cr_not_dst_nets := notnets;
       cr_dst_ports := ports |}.

(* the (protocol, ports) groups in Go's sorted protocol order *)
Definition proto_groups (ports : list npport) : option (list (option cproto * list cport)) :=
  match ports with
  | [] => Some [(None, [])]
  | _ =>
      match group_ports pm_empty ports with
      | None => None
      | Some m =>
          Some (concat (map (fun p => match pm_get m p with
                                      | None => []
                                      | Some l => [(Some (cproto_of p), simplify_ports l)]
                                      end) [KSCTP; KTCP; KUDP]))
      end
  end.

(* k8sRuleToCalico; None = the rule is dropped with a conversion error *)
Definition conv_rule (ingress : bool) (ns : bytes) (r : nprule) : option (list crule) :=
  match proto_groups (nr_ports r) with
  | None => None
  | Some gs =>
      let peers := match nr_peers r with [] => [None] | ps => map Some ps end in
      Some (concat (map (fun g => map (mk_rule ingress ns (fst g) (snd g)) peers) gs))
  end.

Definition conv_rules (ingress : bool) (ns : bytes) (rs : list nprule) : list crule :=
  concat (map (fun r => match conv_rule ingress ns r with Some l => l | None => [] end) rs).

Definition has_type (t : ptype) (ts : list ptype) : bool :=
  existsb (fun x => match x, t with TIngress, TIngress | TEgress, TEgress => true | _, _ => false end) ts.

(* `infer` selects the variant of the code: false = the pinned tree (no recognised policyTypes -> [ingress]);
   true = with fixes/C29-infer-egress-policy-type.patch (-> [ingress] plus [egress] when spec.egress is not empty,
   the Kubernetes API server's defaulting).  The driver probes the tree and records which variant it runs. *)
Definition conv_types (infer has_egress : bool) (ts : list ptype) : list ptype :=
  match (if has_type TIngress ts then [TIngress] else []) ++ (if has_type TEgress ts then [TEgress] else []) with
  | [] => TIngress :: (if infer && has_egress then [TEgress] else [])
  | l => l
  end.

(* ConvertNetworkPolicyV3ToV1Value's policy selector *)
Definition policy_selector (ns : bytes) (sel : option ast) : option ast :=
  match ns with
  | [] => sel
  | _ => match sel with
         | None => Some (SEq L_NAMESPACE ns)
         | Some s => Some (SAnd [s; SEq L_NAMESPACE ns])
         end
  end.

(* K8sNetworkPolicyToCalico followed by ConvertNetworkPolicyV3ToV1Value *)
Definition conv_np_v (infer : bool) (np : netpol) : cpolicy :=
  {| cp_ns := np_ns np;
     cp_tier := T_DEFAULT;
     cp_order := Some 1000000;
     cp_sel := policy_selector (np_ns np) (pod_selector (Some (np_sel np)));
     cp_in := conv_rules true (np_ns np) (np_ingress np);
     cp_out := conv_rules false (np_ns np) (np_egress np);
     cp_types := conv_types infer (match np_egress np with [] => false | _ => true end) (np_types np) |}.
(* the pinned tree *)
Definition conv_np : netpol -> cpolicy := conv_np_v false.

(* ------------------------------------------------------------------ the pipeline as a history *)
(* One process converts many objects one after the other (Kubernetes NetworkPolicies, and Calico policies that go
   through the same update processors).  The model of one step receives the whole history of earlier steps and
   IGNORES it: the conversion is a function of the object alone.  The correspondence run checks the real pipeline
   against this on histories (foreign objects before and between the Kubernetes policies, every policy twice). *)
Inductive item := IK8s (np : netpol) | IForeign (id : N).
Definition pipeline_step (infer : bool) (hist : list item) (it : item) : option cpolicy :=
  match it with IK8s np => Some (conv_np_v infer np) | IForeign _ => None end.
Fixpoint run_pipeline (infer : bool) (hist todo : list item) : list (option cpolicy) :=
  match todo with
  | [] => []
  | it :: rest => pipeline_step infer hist it :: run_pipeline infer (hist ++ [it]) rest
  end.
Definition k8s_items (l : list item) : list netpol :=
  flat_map (fun it => match it with IK8s np => [np] | IForeign _ => [] end) l.
Definition outputs (l : list (option cpolicy)) : list cpolicy :=
  flat_map (fun o => match o with Some q => [q] | None => [] end) l.

(* ------------------------------------------------------------------ namespaces and pods *)

(* NamespaceToProfile + profile processor: the profile's labels (the name label overrides a namespace
   label of the same key; an association list where the first binding counts) *)
Definition profile_labels (nsname : bytes) (nslabels : labels) : labels :=
  (PCNS ++ L_NAME, nsname) :: map (fun kv => (PCNS ++ fst kv, snd kv)) nslabels.

(* ServiceAccountToProfile + profile processor *)
Definition sa_profile_labels (saname : bytes) (salabels : labels) : labels :=
  (PCSA ++ L_NAME, saname) :: map (fun kv => (PCSA ++ fst kv, snd kv)) salabels.

(* pod -> WorkloadEndpoint labels (workload_endpoint_default.go) then the workload-endpoint update
   processor (drops pcns./pcsa. keys, sets the service-account label) *)
Definition reserved_prefix (k : bytes) : bool := has_prefix k PCNS || has_prefix k PCSA.
Definition wep_labels (ns sa : bytes) (podlabels : labels) : labels :=
  (match sa with [] => [] | _ => [(L_SA, sa)] end)
  ++ filter (fun kv => negb (reserved_prefix (fst kv)))
       ((L_ORCH, V_K8S) :: (L_NAMESPACE, ns) :: podlabels).

(* canonical form of a label map: first binding per key, sorted by key *)
Fixpoint dedupe_kv (l : labels) : labels :=
  match l with
  | [] => []
  | kv :: l' => kv :: filter (fun x => negb (bytes_eqb (fst x) (fst kv))) (dedupe_kv l')
  end.
Definition canon_labels (l : labels) : labels := sort_kv (dedupe_kv l).

(* ------------------------------------------------------------------ structural equality (for the correspondence) *)

Definition list_eqb {A} (eq : A -> A -> bool) : list A -> list A -> bool :=
  fix go (a c : list A) : bool :=
    match a, c with
    | [], [] => true
    | x :: a', y :: c' => eq x y && go a' c'
    | _, _ => false
    end.
Definition option_eqb {A} (eq : A -> A -> bool) (a c : option A) : bool :=
  match a, c with
  | None, None => true
  | Some x, Some y => eq x y
  | _, _ => false
  end.

Fixpoint ast_eqb (x y : ast) : bool :=
  match x, y with
  | SEq l v, SEq l' v' | SNe l v, SNe l' v' | SContains l v, SContains l' v'
  | SStartsWith l v, SStartsWith l' v' | SEndsWith l v, SEndsWith l' v' => bytes_eqb l l' && bytes_eqb v v'
  | SIn l vs, SIn l' vs' | SNotIn l vs, SNotIn l' vs' => bytes_eqb l l' && list_eqb bytes_eqb vs vs'
  | SHas l, SHas l' => bytes_eqb l l'
  | SAll, SAll | SGlobal, SGlobal => true
  | SNot a, SNot a' => ast_eqb a a'
  | SAnd xs, SAnd ys | SOr xs, SOr ys =>
      (fix go (a c : list ast) : bool :=
         match a, c with
         | [], [] => true
         | p :: a', q :: c' => ast_eqb p q && go a' c'
         | _, _ => false
         end) xs ys
  | _, _ => false
  end.

Definition cproto_eqb (a c : cproto) : bool :=
  match a, c with
  | CPName s, CPName s' => bytes_eqb s s'
  | CPNum n, CPNum n' => N.eqb n n'
  | _, _ => false
  end.
Definition cport_eqb (a c : cport) : bool :=
  match a, c with
  | CRange l h, CRange l' h' => N.eqb l l' && N.eqb h h'
  | CNamed s, CNamed s' => bytes_eqb s s'
  | _, _ => false
  end.
Definition caction_eqb (a c : caction) : bool :=
  match a, c with
  | CAllow, CAllow | CDeny, CDeny | CPass, CPass | CLog, CLog | COther, COther => true
  | _, _ => false
  end.
Definition ptype_eqb (a c : ptype) : bool :=
  match a, c with TIngress, TIngress | TEgress, TEgress => true | _, _ => false end.

Definition crule_eqb (a c : crule) : bool :=
  caction_eqb (cr_action a) (cr_action c)
  && option_eqb cproto_eqb (cr_proto a) (cr_proto c)
  && option_eqb ast_eqb (cr_src_sel a) (cr_src_sel c)
  && list_eqb cidr_eqb (cr_src_nets a) (cr_src_nets c)
  && list_eqb cidr_eqb (cr_not_src_nets a) (cr_not_src_nets c)
  && option_eqb ast_eqb (cr_dst_sel a) (cr_dst_sel c)
  && list_eqb cidr_eqb (cr_dst_nets a) (cr_dst_nets c)
  && list_eqb cidr_eqb (cr_not_dst_nets a) (cr_not_dst_nets c)
  && list_eqb cport_eqb (cr_dst_ports a) (cr_dst_ports c).

Definition cpolicy_eqb (a c : cpolicy) : bool :=
  bytes_eqb (cp_ns a) (cp_ns c)
  && bytes_eqb (cp_tier a) (cp_tier c)
  && option_eqb N.eqb (cp_order a) (cp_order c)
  && option_eqb ast_eqb (cp_sel a) (cp_sel c)
  && list_eqb crule_eqb (cp_in a) (cp_in c)
  && list_eqb crule_eqb (cp_out a) (cp_out c)
  && list_eqb ptype_eqb (cp_types a) (cp_types c).

Definition labels_eqb (a c : labels) : bool :=
  list_eqb (fun x y => bytes_eqb (fst x) (fst y) && bytes_eqb (snd x) (snd y)) a c.
