(* C29 — proofs, part 10: the text level (ModelText.v).
   Proved here: the text parseSelectorAttachPrefix produces re-parses (C06 model of the real parser) to the prefixed
   AST of Model.v; the text list and the AST list of a policy have the same shape.
   NOT proved (stated precisely): c29_texts_parse_to_asts
       forall infer np, (label keys are identifiers of <= 507 bytes, values contain no quote) ->
       texts_parse_to (np_texts np) (policy_asts (conv_np_v infer np)) = true.
   Missing lemma: a tokenizer/parser stepping lemma for the Kubernetes term forms of k8sSelectorToCalico
   (single-quoted literals, `in { 'a', 'b' }` with inner spaces, UNSORTED value lists that the parser sorts) in the
   style of C06.TokProofs.tok_ast / C06.ParseProofs.parse_to_string, which cover only printer output; plus the
   agreement of strings.Replace on the printed text with Model.subst_all on the AST.  The statement is established
   per case by computation in the correspondence run (Spec.agree), for the exact strings of the real code. *)
From Coq Require Import String.
From Coq Require Import List Arith NArith Bool Lia.
From Verif.Common Require Import Labels Packet.
From Verif.C06 Require Model TokProofs ParseProofs.
From Verif.C29 Require Import Model ModelText Spec Proofs.
Import ListNotations.
Open Scope N_scope.

Theorem attach_prefix_reparses : forall pfx t a,
  P.parse t = P.Ok a ->
  Verif.C06.TokProofs.wfb true (prefix_ast pfx a) = true ->
  P.parse (attach_prefix pfx t) = P.Ok (prefix_ast pfx a).
Proof.
  intros pfx t a HP W. unfold attach_prefix. rewrite HP. apply Verif.C06.ParseProofs.parse_to_string. exact W.
Qed.

Lemma length_flat_map_const : forall {A B} (f : A -> list B) (n : nat) l,
  (forall x, length (f x) = n) -> length (flat_map f l) = (length l * n)%nat.
Proof. intros A B f n l H. induction l; simpl; auto. rewrite app_length, H, IHl. reflexivity. Qed.

Lemma length_concat_map_const : forall {A B} (f : A -> list B) (n : nat) l,
  (forall x, length (f x) = n) -> length (concat (map f l)) = (length l * n)%nat.
Proof. intros A B f n l H. induction l; simpl; auto. rewrite app_length, H, IHl. reflexivity. Qed.

Lemma peer_texts_len : forall i ns p, length (peer_texts i ns p) = 2%nat.
Proof.
  intros i ns p. unfold peer_texts.
  destruct p as [p|]; [destruct (pe_ip p)|]; destruct i; reflexivity.
Qed.

Lemma rule_shape : forall i ns r,
  length (rule_texts i ns r) = (2 * length (match conv_rule i ns r with Some l => l | None => [] end))%nat.
Proof.
  intros i ns r. unfold rule_texts, conv_rule. destruct (proto_groups (nr_ports r)) as [gs|]; [|reflexivity].
  set (peers := match nr_peers r with [] => [None] | ps => map Some ps end).
  rewrite (length_flat_map_const _ (length peers * 2)%nat).
  2:{ intros _. apply length_flat_map_const. intros. apply peer_texts_len. }
  rewrite (length_concat_map_const _ (length peers)).
  2:{ intros g. apply map_length. }
  lia.
Qed.

Lemma rules_shape : forall i ns rs,
  length (flat_map (rule_texts i ns) rs) = (2 * length (conv_rules i ns rs))%nat.
Proof.
  intros i ns rs. unfold conv_rules. induction rs as [|r rs IH]; simpl; auto.
  rewrite !app_length, IH, rule_shape. lia.
Qed.

Theorem texts_shape : forall infer np, length (np_texts np) = length (policy_asts (conv_np_v infer np)).
Proof.
  intros infer np. unfold np_texts, policy_asts, conv_np_v. cbn [cp_sel cp_in cp_out length].
  rewrite !app_length, !rules_shape.
  rewrite !(length_flat_map_const _ 2%nat) by reflexivity. lia.
Qed.

(* non-vacuity: on the example policy of Proofs.v the texts are the expected strings and parse to the model's ASTs *)
Example ex_texts_parse : texts_parse_to (np_texts ex_np) (policy_asts (conv_np ex_np)) = true.
Proof. vm_compute. reflexivity. Qed.
Example ex_policy_text :
  nth 0 (np_texts ex_np) [] = b "(projectcalico.org/orchestrator == 'k8s' && app == 'db') && projectcalico.org/namespace == 'prod'".
Proof. vm_compute. reflexivity. Qed.
