(* C29 — property theorems only. *)
From Coq Require Import List NArith Bool.
From Verif.Common Require Import Labels Packet.
From Verif.C29 Require Import Model Spec Proofs.
Import ListNotations.
Open Scope N_scope.

Theorem c29_sort_dd_same_set : forall x vs, mem_bytes x (sort_dd vs) = mem_bytes x vs.
Proof. exact mem_sort_dd. Qed.
Print Assumptions c29_sort_dd_same_set.
