(* C29 — property theorems only.  Each is closed by `exact <lemma>` and followed by Print Assumptions.

   Reading guide: Model.v = the conversion code (conv_np_v, two variants of the policyTypes inference);
   Spec.v = Kubernetes NetworkPolicy semantics (k8s_allows) and the Calico semantics of the converted
   policies (cal_allows), plus the cluster as Calico sees it (cparty_of: pod -> workload endpoint labels,
   namespace -> profile labels).  np_ok (ProofsMain.v) = Kubernetes API validation/defaulting + selector keys
   not Calico-reserved. *)
From Coq Require Import List NArith Bool.
From Verif.Common Require Import Labels Packet.
From Coq Require Import Sorting.Permutation.
From Verif.Common Require PolicyRef.
From Verif.C29 Require Import Model Spec ProofsSel ProofsPorts ProofsMain ProofsOrder ProofsValid ProofsBridge ProofsHistory ProofsMeets ProofsText Proofs.
From Verif.C29 Require Import ModelText.
From Verif.C06 Require TokProofs.
Import ListNotations.
Open Scope N_scope.

(* MAIN THEOREM.  For every set of NetworkPolicies, every cluster labelling (namespace labels, pods with
   labels / service accounts / named ports), and every connection (source and destination: pod or external
   address, IPv4/IPv6; protocol; destination port): the converted Calico policies allow the connection exactly
   when the Kubernetes semantics do (egress at the source pod AND ingress at the destination pod). *)
Theorem c29_same_meaning : forall infer nps cl c,
  forallb k8s_np_valid nps = true ->                 (* they are NetworkPolicies: accepted by the Kubernetes API validation *)
  forallb np_keys_ok nps = true ->                   (* no selector uses a Calico-reserved label key *)
  forallb (types_defaulted infer) nps = true ->      (* pinned tree (infer=false): policyTypes present or no egress rules *)
  cal_allows (map (conv_np_v infer) nps) (cparty_of cl (c_src c)) (cparty_of cl (c_dst c)) (c_proto c) (c_dport c)
  = k8s_allows nps cl c.
Proof. exact same_meaning_valid. Qed.
Print Assumptions c29_same_meaning.

(* the same with the combined well-formedness predicate np_ok (slightly weaker hypotheses) *)
Theorem c29_same_meaning_np_ok : forall infer nps cl c,
  forallb (np_ok infer) nps = true ->
  cal_allows (map (conv_np_v infer) nps) (cparty_of cl (c_src c)) (cparty_of cl (c_dst c)) (c_proto c) (c_dport c)
  = k8s_allows nps cl c.
Proof. exact same_meaning. Qed.
Print Assumptions c29_same_meaning_np_ok.

(* per direction and per local pod (ingress and egress separately) *)
Theorem c29_same_meaning_dir : forall infer nps cl dir p c,
  forallb (np_ok infer) nps = true ->
  cal_allows_dir (map (conv_np_v infer) nps) dir (cep_of_pod cl p)
                 (cparty_of cl (c_src c)) (cparty_of cl (c_dst c)) (c_proto c) (c_dport c)
  = k8s_allows_dir nps cl dir p c.
Proof. exact same_meaning_dir. Qed.
Print Assumptions c29_same_meaning_dir.

(* the property statement's form: one policy, the code of the pinned tree *)
Theorem c29_same_meaning_pinned : forall np cl c,
  np_ok false np = true ->
  cal_allows [conv_np np] (cparty_of cl (c_src c)) (cparty_of cl (c_dst c)) (c_proto c) (c_dport c)
  = k8s_allows [np] cl c.
Proof. exact (same_meaning_one false). Qed.
Print Assumptions c29_same_meaning_pinned.

(* selectors: matchLabels / matchExpressions In, NotIn, Exists, DoesNotExist; nil and empty selectors.
   Pod selectors are evaluated on the labels Felix sees for the pod ... *)
Theorem c29_selector_conv_pod : forall cl p (s : option lsel),
  match s with Some s => lsel_ok unreserved_key s = true | None => True end ->
  match pod_selector s with Some a => eval a (cal_labels cl p) | None => true end
  = match s with Some s => k8s_sel_matches s (pod_labels p) | None => true end.
Proof. exact pod_selector_eval. Qed.
Print Assumptions c29_selector_conv_pod.

(* ... namespace selectors, after the pcns. prefixing and the all() replacement of the update processor, on the
   same labels, where they see the namespace's labels through the kns.<namespace> profile *)
Theorem c29_selector_conv_ns : forall cl p (s : lsel) a,
  lsel_ok ns_key_ok s = true ->
  ns_selector (Some s) = Some a ->
  eval (subst_all (prefix_ast PCNS a)) (cal_labels cl p) = k8s_sel_matches s (ns_labels cl (pod_ns p)).
Proof. exact ns_selector_eval. Qed.
Print Assumptions c29_selector_conv_ns.

(* parser.PrefixVisitor on ANY selector keeps its meaning when the prefixed labels mirror the original ones *)
Theorem c29_prefix_visitor : forall pfx a L L',
  (forall k, lookup (pfx ++ k) L' = lookup k L) -> eval (prefix_ast pfx a) L' = eval a L.
Proof. exact prefix_ast_eval. Qed.
Print Assumptions c29_prefix_visitor.

(* SimplifyPorts: for every port list, the merged list accepts exactly the same destination ports (numbers
   and named ports), and is empty ("all ports") only if the input was *)
Theorem c29_simplify_ports_same_set : forall dst proto d ports,
  cports_hit dst proto d (simplify_ports ports) = cports_hit dst proto d ports
  /\ is_nil (simplify_ports ports) = is_nil ports.
Proof. exact simplify_ports_both. Qed.
Print Assumptions c29_simplify_ports_same_set.

(* ipBlock: cidr minus except = Nets / NotNets (addresses masked by the conversion) *)
Theorem c29_ipblock_except : forall cl ib x,
  cal_nets_ok [mask_cidr (ib_cidr ib)] (map mask_cidr (ib_except ib)) (cparty_of cl x) = k8s_ipblock_matches ib x.
Proof. exact ipblock_except. Qed.
Print Assumptions c29_ipblock_except.

(* one rule per protocol accepts the same (protocol, port) pairs as the Kubernetes port list; an entry without a
   port widens its protocol to all ports; default protocol TCP; no ports = every protocol and port *)
Theorem c29_protocol_grouping : forall cl dst proto d ports gs,
  proto_groups ports = Some gs ->
  existsb (group_hit (cparty_of cl dst) proto d) gs
  = is_nil ports || existsb (fun pp => k8s_port_matches pp dst proto d) ports.
Proof. exact protocol_grouping. Qed.
Print Assumptions c29_protocol_grouping.

(* converted rules are Allow rules only (so the order of converted policies inside the tier is irrelevant) *)
Theorem c29_converted_allow_only : forall ingress ns rs cr, In cr (conv_rules ingress ns rs) -> cr_action cr = CAllow.
Proof. exact conv_rules_allow. Qed.
Print Assumptions c29_converted_allow_only.

(* ordering of the converted policies: all get tier "default" and Order 1000 (checked structurally by the
   correspondence run); in whatever order Felix evaluates them the verdict is the Kubernetes verdict *)
Theorem c29_order_irrelevant : forall infer nps qs cl c,
  forallb (np_ok infer) nps = true ->
  Permutation qs (map (conv_np_v infer) nps) ->
  cal_allows qs (cparty_of cl (c_src c)) (cparty_of cl (c_dst c)) (c_proto c) (c_dport c) = k8s_allows nps cl c.
Proof. exact order_irrelevant. Qed.
Print Assumptions c29_order_irrelevant.

(* PURITY.  One process converts many objects one after the other (Kubernetes policies and Calico policies that go
   through the same update processors).  In the model a step receives the whole history and ignores it, so a policy
   converted after ANY history, any number of times, gets the same model.Policy; the correspondence run checks the
   real pipeline against this on generated histories (foreign Calico policies using the same selector texts under
   the pcsa./pcns. prefixes before and between the Kubernetes policies; every policy converted twice, both orders). *)
Theorem c29_history_independent : forall infer h1 h2 before1 before2 np,
  last (run_pipeline infer h1 (before1 ++ [IK8s np])) None = last (run_pipeline infer h2 (before2 ++ [IK8s np])) None
  /\ last (run_pipeline infer h1 (before1 ++ [IK8s np])) None = Some (conv_np_v infer np).
Proof. exact history_independent. Qed.
Print Assumptions c29_history_independent.

(* the main theorem for the policies as they come out of any history of the pipeline *)
Theorem c29_same_meaning_any_history : forall infer hist todo cl c,
  forallb k8s_np_valid (k8s_items todo) = true ->
  forallb np_keys_ok (k8s_items todo) = true ->
  forallb (types_defaulted infer) (k8s_items todo) = true ->
  cal_allows (outputs (run_pipeline infer hist todo)) (cparty_of cl (c_src c)) (cparty_of cl (c_dst c)) (c_proto c) (c_dport c)
  = k8s_allows (k8s_items todo) cl c.
Proof. exact same_meaning_any_history. Qed.
Print Assumptions c29_same_meaning_any_history.

(* MODEL MEETS SPEC.  The oracle of the correspondence run (Spec.ok_case) accepts every case whose implementation
   observables are the model's: converted policies = conv_np_v of the policies, and the end points of the
   connections seen by Calico as the model says. *)
Theorem c29_model_meets_spec : forall infer c,
  model_run infer c ->
  forallb np_keys_ok (k_nps c) = true ->
  forallb (types_defaulted infer) (k_nps c) = true ->
  ok_case c = true.
Proof. exact model_meets_spec. Qed.
Print Assumptions c29_model_meets_spec.

(* label maps are compared in canonical form (first binding per key, sorted): sound for every selector *)
Theorem c29_canon_labels_same_eval : forall l1 l2 a, canon_labels l1 = canon_labels l2 -> eval a l1 = eval a l2.
Proof. exact canon_same_eval. Qed.
Print Assumptions c29_canon_labels_same_eval.

(* TEXT LEVEL (ModelText.v: the selector strings built by fmt.Sprintf / strings.Join / strings.Replace, compared byte
   for byte with the real model.Policy).  The text parseSelectorAttachPrefix prints re-parses (C06 model of the real
   tokenizer/parser/printer) to the prefixed AST of Model.v; texts and ASTs of a policy have the same shape.
   The full statement "every text parses to the AST at its place" is checked per case by computation (Spec.agree);
   the missing general lemma is stated at the top of ProofsText.v. *)
Theorem c29_attach_prefix_reparses : forall pfx t a,
  Verif.C06.Model.parse t = Verif.C06.Model.Ok a ->
  Verif.C06.TokProofs.wfb true (prefix_ast pfx a) = true ->
  Verif.C06.Model.parse (attach_prefix pfx t) = Verif.C06.Model.Ok (prefix_ast pfx a).
Proof. exact attach_prefix_reparses. Qed.
Print Assumptions c29_attach_prefix_reparses.

Theorem c29_texts_shape : forall infer np, length (np_texts np) = length (policy_asts (conv_np_v infer np)).
Proof. exact texts_shape. Qed.
Print Assumptions c29_texts_shape.

(* Bridge to the shared reference semantics Common/PolicyRef.v (felix/proto rules over IP sets): with the IP sets
   defined from the selectors / named ports (what the calculation graph has to compute; `who` maps an address to
   the endpoint owning it), a converted rule matches a packet in the sense of Spec.v iff its proto counterpart
   matches it in the sense of PolicyRef.rule_matches; and every rule the conversion emits is in that fragment. *)
Theorem c29_rule_bridge : forall (who : N -> option cep) (intern : setspec -> N) (resolve : N -> option setspec),
  (forall s, resolve (intern s) = Some s) ->
  forall (r : crule) (p : packet),
  bridgeable r = true ->
  cal_rule_matches r (pkt_src who p) (pkt_dst who p) (pk_proto p) (pk_dport p)
  = PolicyRef.rule_matches (the_ipsets who resolve) (to_ref intern r) p.
Proof. exact rule_bridge. Qed.
Print Assumptions c29_rule_bridge.

Theorem c29_converted_rules_bridgeable : forall ingress ns rs cr,
  forallb (fun r => forallb peer_family_ok (nr_peers r)) rs = true ->
  In cr (conv_rules ingress ns rs) -> bridgeable cr = true.
Proof. exact conv_rules_bridgeable. Qed.
Print Assumptions c29_converted_rules_bridgeable.

(* The hypotheses beyond API validation are necessary: *)
(* (1) pinned tree: a policy without policyTypes but with egress rules is converted to an ingress-only policy,
       Kubernetes restricts egress (witness replayed on the real code: driver case "w1") *)
Theorem c29_policytypes_absent_refuted :
  exists np cl c,
    np_ok true np = true /\
    k8s_allows [np] cl c = false /\
    cal_allows [conv_np_v false np] (cparty_of cl (c_src c)) (cparty_of cl (c_dst c)) (c_proto c) (c_dport c) = true.
Proof. exact policytypes_absent_refuted. Qed.
Print Assumptions c29_policytypes_absent_refuted.

(* (2) a pod label with the reserved prefix pcns. is dropped by the workload-endpoint processor: a podSelector on it
       selects the pod in Kubernetes but not in Calico (driver case "w2") *)
Theorem c29_reserved_label_refuted :
  exists np cl c,
    k8s_allows [np] cl c = false /\
    forall infer, cal_allows [conv_np_v infer np] (cparty_of cl (c_src c)) (cparty_of cl (c_dst c)) (c_proto c) (c_dport c) = true.
Proof. exact reserved_label_refuted. Qed.
Print Assumptions c29_reserved_label_refuted.
