(* C29 — proofs, part 7: bridge from the rule semantics of Spec.v (selectors evaluated on endpoints) to the shared
   reference semantics Common/PolicyRef.v (felix/proto rules whose selectors and named ports have been resolved into
   IP sets by the calculation graph).  The IP sets are DEFINED from the selectors here (that definition is the
   specification of what the calculation graph must compute); addresses identify endpoints through `who`. *)
From Coq Require Import List Arith NArith Bool Lia.
From Verif.Common Require Import Labels Packet PolicyRef.
From Verif.C29 Require Import Model Spec ProofsSel ProofsPorts.
Import ListNotations.
Open Scope N_scope.

Inductive setspec :=
| SSel (a : ast)                                      (* addresses of the endpoints matching a *)
| SPort (a : option ast) (name : bytes) (proto : N).  (* (address, proto, port) of named port `name`/proto of endpoints matching a *)

Section Bridge.
  Variable who : N -> option cep.               (* the endpoint that owns an address *)
  Variable intern : setspec -> N.               (* IP set ids *)
  Variable resolve : N -> option setspec.
  Hypothesis resolve_intern : forall s, resolve (intern s) = Some s.

  Definition ep_matches (a : option ast) (e : cep) : bool :=
    match a with None => true | Some a => matches a (ce_labels e) (ce_parents e) end.

  Definition the_ipsets : ipsets := fun id m =>
    match resolve id, m with
    | Some (SSel a), MemIP x =>
        match who x with Some e => matches a (ce_labels e) (ce_parents e) | None => false end
    | Some (SPort a name proto), MemIPPort x pr po =>
        N.eqb pr proto && match who x with Some e => ep_matches a e && cep_has_port e name proto po | None => false end
    | _, _ => false
    end.

  Definition sel_sets (s : option ast) : list N := match s with Some a => [intern (SSel a)] | None => [] end.
  Definition num_ranges (ps : list cport) : list port_range :=
    flat_map (fun p => match p with CRange lo hi => [(lo, hi)] | CNamed _ => [] end) ps.
  Definition named_sets (sel : option ast) (proto : N) (ps : list cport) : list N :=
    flat_map (fun p => match p with CNamed s => [intern (SPort sel s proto)] | CRange _ _ => [] end) ps.

  Definition rule_proto (r : crule) : option N :=
    match cr_proto r with Some cp => cproto_num cp | None => None end.

  (* the felix/proto rule the calculation graph derives from a model.Rule of the converted fragment *)
  Definition to_ref (r : crule) : PolicyRef.rule :=
    {| r_action := Allow; r_ipver := None; r_proto := rule_proto r;
       r_src_nets := cr_src_nets r; r_src_ports := []; r_src_named_ports := [];
       r_dst_nets := cr_dst_nets r; r_dst_ports := num_ranges (cr_dst_ports r);
       r_dst_named_ports := match rule_proto r with
                            | Some n => named_sets (cr_dst_sel r) n (cr_dst_ports r)
                            | None => []
                            end;
       r_icmp := None;
       r_src_ipsets := sel_sets (cr_src_sel r); r_dst_ipsets := sel_sets (cr_dst_sel r); r_dst_ipport_sets := [];
       r_not_proto := None; r_not_src_nets := cr_not_src_nets r; r_not_src_ports := [];
       r_not_dst_nets := cr_not_dst_nets r; r_not_dst_ports := []; r_not_icmp := None;
       r_not_src_ipsets := []; r_not_dst_ipsets := []; r_not_src_named_ports := []; r_not_dst_named_ports := [] |}.

  Definition pkt_src (p : packet) : cparty := {| cq_ver := pk_ver p; cq_ip := pk_src p; cq_ep := who (pk_src p) |}.
  Definition pkt_dst (p : packet) : cparty := {| cq_ver := pk_ver p; cq_ip := pk_dst p; cq_ep := who (pk_dst p) |}.

  (* shape of the rules the conversion produces *)
  Definition uniform_family (nets notnets : list cidr) : bool :=
    (negb (is_nil nets) || is_nil notnets)
    && forallb (fun e => forallb (fun c => ipver_eqb (cidr_ver c) (cidr_ver e)) nets) notnets.
  Definition bridgeable (r : crule) : bool :=
    match cr_proto r with
    | Some cp => match cproto_num cp with Some _ => true | None => false end
    | None => negb (existsb is_named (cr_dst_ports r))
    end
    && uniform_family (cr_src_nets r) (cr_not_src_nets r) && uniform_family (cr_dst_nets r) (cr_not_dst_nets r).

  Lemma sel_sets_ok_src : forall s p,
    forallb (fun id => the_ipsets id (src_member p)) (sel_sets s) = cal_sel_ok s (pkt_src p).
  Proof.
    intros [a|] p; simpl; auto. unfold the_ipsets. rewrite resolve_intern. simpl. rewrite andb_true_r. reflexivity.
  Qed.
  Lemma sel_sets_ok_dst : forall s p,
    forallb (fun id => the_ipsets id (dst_member p)) (sel_sets s) = cal_sel_ok s (pkt_dst p).
  Proof.
    intros [a|] p; simpl; auto. unfold the_ipsets. rewrite resolve_intern. simpl. rewrite andb_true_r. reflexivity.
  Qed.

  Lemma nets_ok_same : forall nets v x, PolicyRef.nets_ok nets v x = (Spec.is_nil nets || existsb (fun c => in_cidr c v x) nets).
  Proof. intros. unfold PolicyRef.nets_ok. destruct nets; reflexivity. Qed.

  Lemma in_cidr_version : forall c v x, in_cidr c v x = true -> ipver_eqb (cidr_ver c) v = true.
  Proof. unfold in_cidr. intros c v x H. apply andb_true_iff in H. tauto. Qed.

  Lemma ipver_eqb_eq : forall a c, ipver_eqb a c = true -> a = c.
  Proof. destruct a, c; simpl; congruence. Qed.

  (* when the positive nets admit the address, the negated nets are of the packet's family too *)
  Lemma family_ok : forall nets notnets v x,
    uniform_family nets notnets = true ->
    (Spec.is_nil nets || existsb (fun c => in_cidr c v x) nets) = true ->
    field_has_version nets v = true /\ field_has_version notnets v = true.
  Proof.
    intros nets notnets v x U H. unfold uniform_family in U. apply andb_true_iff in U. destruct U as [U1 U2].
    unfold field_has_version. destruct nets as [|c0 nets0] eqn:EN.
    - simpl in U1. destruct notnets; [auto|discriminate].
    - rewrite <- EN in *. assert (NN : Spec.is_nil nets = false) by (rewrite EN; reflexivity). rewrite NN in H. simpl in H.
      apply existsb_exists in H. destruct H as [c [IC HC]]. apply in_cidr_version in HC.
      split.
      + apply orb_true_iff. right. apply existsb_exists. eauto.
      + destruct notnets as [|e es]; [reflexivity|]. cbn [PolicyRef.is_nil orb existsb].
        apply orb_true_iff. left.
        rewrite forallb_forall in U2. specialize (U2 e (or_introl eq_refl)). rewrite forallb_forall in U2.
        specialize (U2 c IC). apply ipver_eqb_eq in U2. rewrite <- U2. exact HC.
  Qed.

  Lemma ports_nil : forall sel n ps,
    PolicyRef.is_nil (num_ranges ps) && PolicyRef.is_nil (named_sets sel n ps) = Spec.is_nil ps.
  Proof. intros sel n ps. destruct ps as [|[lo hi|s] ps]; try reflexivity. simpl. apply andb_false_r. Qed.

  Lemma ports_hit_same : forall sel n ps (p : packet) e,
    who (pk_dst p) = Some e -> ep_matches sel e = true -> pk_proto p = n ->
    in_ranges (num_ranges ps) (pk_dport p) || existsb (fun id => the_ipsets id (dst_port_member p)) (named_sets sel n ps)
    = existsb (cal_port_ok (pkt_dst p) (pk_proto p) (pk_dport p)) ps.
  Proof.
    intros sel n ps p e W M PN. induction ps as [|q ps IH]; [reflexivity|].
    destruct q as [lo hi|s]; cbn [num_ranges named_sets flat_map app existsb].
    - fold (num_ranges ps). fold (named_sets sel n ps). unfold in_ranges in *. cbn [existsb]. rewrite <- IH.
      unfold in_range, cal_port_ok. simpl fst. simpl snd. rewrite <- orb_assoc. reflexivity.
    - fold (num_ranges ps). fold (named_sets sel n ps). rewrite <- IH.
      unfold the_ipsets at 1. rewrite resolve_intern. unfold dst_port_member at 1. rewrite W, M, PN, N.eqb_refl.
      unfold cal_port_ok, pkt_dst. cbn [cq_ep]. rewrite W. simpl andb.
      destruct (cep_has_port e s n (pk_dport p)), (in_ranges (num_ranges ps) (pk_dport p)); reflexivity.
  Qed.

  Lemma ports_hit_no_named : forall ps (p : packet),
    existsb is_named ps = false ->
    in_ranges (num_ranges ps) (pk_dport p) = existsb (cal_port_ok (pkt_dst p) (pk_proto p) (pk_dport p)) ps.
  Proof.
    intros ps p H. induction ps as [|q ps IH]; [reflexivity|].
    destruct q as [lo hi|s]; simpl in H; [|discriminate].
    cbn [num_ranges flat_map app]. fold (num_ranges ps). unfold in_ranges in *. cbn [existsb]. rewrite IH by auto. reflexivity.
  Qed.
  Lemma no_named_sets_nil : forall ps, existsb is_named ps = false -> Spec.is_nil ps = PolicyRef.is_nil (num_ranges ps).
  Proof. intros ps H. destruct ps as [|[lo hi|s] ps]; try reflexivity. simpl in H. discriminate. Qed.

  Lemma named_sets_unowned : forall sel n ps (p : packet), who (pk_dst p) = None ->
    existsb (fun id => the_ipsets id (dst_port_member p)) (named_sets sel n ps) = false.
  Proof.
    intros sel n ps p W. induction ps as [|q ps IH]; [reflexivity|]. destruct q; cbn [named_sets flat_map app existsb]; auto.
    fold (named_sets sel n ps). rewrite IH. unfold the_ipsets. rewrite resolve_intern. unfold dst_port_member. rewrite W.
    rewrite andb_false_r. reflexivity.
  Qed.
  Lemma ports_unowned : forall ps (p : packet), who (pk_dst p) = None ->
    existsb (cal_port_ok (pkt_dst p) (pk_proto p) (pk_dport p)) ps = in_ranges (num_ranges ps) (pk_dport p).
  Proof.
    intros ps p W. induction ps as [|q ps IH]; [reflexivity|]. destruct q; cbn [num_ranges flat_map app existsb cal_port_ok].
    - fold (num_ranges ps). unfold in_ranges in *. cbn [existsb]. rewrite IH. reflexivity.
    - fold (num_ranges ps). cbn [pkt_dst cq_ep]. rewrite W. simpl. exact IH.
  Qed.

  Lemma ports_bridge : forall r (p : packet),
    match cr_proto r with
    | Some cp => match cproto_num cp with Some n => N.eqb n (pk_proto p) | None => false end
    | None => negb (existsb is_named (cr_dst_ports r))
    end = true ->
    cal_sel_ok (cr_dst_sel r) (pkt_dst p) = true ->
    (Spec.is_nil (cr_dst_ports r) || existsb (cal_port_ok (pkt_dst p) (pk_proto p) (pk_dport p)) (cr_dst_ports r))
    = PolicyRef.ports_ok the_ipsets (num_ranges (cr_dst_ports r))
        (match rule_proto r with Some n => named_sets (cr_dst_sel r) n (cr_dst_ports r) | None => [] end)
        (pk_dport p) (dst_port_member p).
  Proof.
    intros r p HP HS. unfold PolicyRef.ports_ok, PolicyRef.ports_hit, rule_proto.
    destruct (cr_proto r) as [cp|].
    - destruct (cproto_num cp) as [n|]; [|discriminate]. apply N.eqb_eq in HP. symmetry in HP.
      rewrite ports_nil. f_equal.
      destruct (who (pk_dst p)) as [e|] eqn:W.
      + symmetry. apply (ports_hit_same (cr_dst_sel r) n (cr_dst_ports r) p e W); auto.
        unfold cal_sel_ok in HS. destruct (cr_dst_sel r); [|reflexivity]. cbn [pkt_dst cq_ep] in HS. rewrite W in HS. exact HS.
      + rewrite named_sets_unowned, orb_false_r by auto. apply ports_unowned; auto.
    - apply negb_true_iff in HP. cbn [PolicyRef.is_nil existsb]. rewrite andb_true_r, orb_false_r.
      rewrite <- (no_named_sets_nil _ HP), <- (ports_hit_no_named _ p HP). reflexivity.
  Qed.

  (* a rule of the converted fragment matches a packet in the sense of Spec.v exactly when its felix/proto
     counterpart matches it in the sense of Common/PolicyRef.v *)
  Theorem rule_bridge : forall r p,
    bridgeable r = true ->
    cal_rule_matches r (pkt_src p) (pkt_dst p) (pk_proto p) (pk_dport p)
    = PolicyRef.rule_matches the_ipsets (to_ref r) p.
  Proof.
    intros r p B. unfold bridgeable in B. apply andb_true_iff in B. destruct B as [B UD].
    apply andb_true_iff in B. destruct B as [BP US].
    unfold cal_rule_matches, PolicyRef.rule_matches, rule_version_ok.
    cbn [to_ref r_ipver r_proto r_src_nets r_not_src_nets r_dst_nets r_not_dst_nets r_src_ports r_src_named_ports
         r_dst_ports r_dst_named_ports r_icmp r_src_ipsets r_dst_ipsets r_dst_ipport_sets r_not_proto r_not_src_ports
         r_not_dst_ports r_not_icmp r_not_src_ipsets r_not_dst_ipsets r_not_src_named_ports r_not_dst_named_ports].
    rewrite sel_sets_ok_src, sel_sets_ok_dst, !nets_ok_same.
    cbn [opt_ok forallb existsb PolicyRef.ports_ok PolicyRef.ports_hit PolicyRef.is_nil in_ranges negb andb orb].
    unfold cal_nets_ok. cbn [pkt_src pkt_dst cq_ver cq_ip].
    set (SN := Spec.is_nil (cr_src_nets r) || existsb (fun c => in_cidr c (pk_ver p) (pk_src p)) (cr_src_nets r)).
    set (DN := Spec.is_nil (cr_dst_nets r) || existsb (fun c => in_cidr c (pk_ver p) (pk_dst p)) (cr_dst_nets r)).
    set (NSN := existsb (fun c => in_cidr c (pk_ver p) (pk_src p)) (cr_not_src_nets r)).
    set (NDN := existsb (fun c => in_cidr c (pk_ver p) (pk_dst p)) (cr_not_dst_nets r)).
    set (SS := cal_sel_ok (cr_src_sel r) (pkt_src p)).
    set (DS := cal_sel_ok (cr_dst_sel r) (pkt_dst p)).
    set (PM := match cr_proto r with
               | Some p0 => match cproto_num p0 with Some n => N.eqb n (pk_proto p) | None => false end
               | None => true end).
    set (PO := Spec.is_nil (cr_dst_ports r) || existsb (cal_port_ok (pkt_dst p) (pk_proto p) (pk_dport p)) (cr_dst_ports r)).
    set (FV := field_has_version (cr_src_nets r) (pk_ver p) && field_has_version (cr_not_src_nets r) (pk_ver p)
               && field_has_version (cr_dst_nets r) (pk_ver p) && field_has_version (cr_not_dst_nets r) (pk_ver p)).
    set (PR := opt_ok (rule_proto r) (N.eqb (pk_proto p))).
    set (PF := PolicyRef.ports_ok the_ipsets _ _ _ _).
    assert (HF : SN = true -> DN = true -> FV = true).
    { intros A C. destruct (family_ok _ _ _ _ US A) as [F1 F2]. destruct (family_ok _ _ _ _ UD C) as [F3 F4].
      subst FV. rewrite F1, F2, F3, F4. reflexivity. }
    assert (HP : PM = PR).
    { subst PM PR. unfold rule_proto. destruct (cr_proto r) as [cp|]; [|reflexivity].
      destruct (cproto_num cp); [apply N.eqb_sym|discriminate]. }
    assert (HPO : PM = true -> DS = true -> PO = PF).
    { intros A C. subst PO PF. apply ports_bridge; auto.
      subst PM. destruct (cr_proto r) as [cp|]; auto. }
    clearbody SN DN NSN NDN SS DS PM PO FV PR PF.
    destruct SS, SN, NSN, DS, DN, NDN, PM, PR, FV, PO, PF; try reflexivity; try discriminate HP;
      try (specialize (HF eq_refl eq_refl); discriminate HF);
      try (specialize (HPO eq_refl eq_refl); discriminate HPO).
  Qed.
End Bridge.

(* ------------------------------------------------------------------ every rule the conversion produces is in the bridged fragment *)

(* Kubernetes validation: the except CIDRs lie inside cidr, in particular they are of its address family *)
Definition peer_family_ok (pe : peer) : bool :=
  match pe_ip pe with
  | Some ib => forallb (fun e => ipver_eqb (cidr_ver (ib_cidr ib)) (cidr_ver e)) (ib_except ib)
  | None => true
  end.

Lemma uniform_family_nil : uniform_family [] [] = true.
Proof. reflexivity. Qed.

Lemma peer_fields_family : forall pe,
  match pe with Some pe => peer_family_ok pe = true | None => True end ->
  let '(_, _, nets, notnets) := peer_fields pe in uniform_family nets notnets = true.
Proof.
  intros [pe|] H; [|reflexivity]. unfold peer_fields, peer_family_ok in *.
  destruct (pe_ip pe) as [ib|]; [|reflexivity].
  unfold uniform_family. cbn [Spec.is_nil negb orb andb]. rewrite ProofsSel.forallb_map.
  rewrite forallb_forall in *. intros e I. cbn [forallb]. rewrite andb_true_r. unfold mask_cidr. cbn [cidr_ver]. exact (H e I).
Qed.

Lemma mk_rule_bridgeable : forall ingress ns g pe,
  match fst g with
  | Some cp => match cproto_num cp with Some _ => true | None => false end
  | None => negb (existsb is_named (snd g))
  end = true ->
  match pe with Some pe => peer_family_ok pe = true | None => True end ->
  bridgeable (mk_rule ingress ns (fst g) (snd g) pe) = true.
Proof.
  intros ingress ns g pe HP HF. pose proof (peer_fields_family pe HF) as U. unfold mk_rule, bridgeable.
  destruct (peer_fields pe) as [[[sel nssel] nets] notnets].
  destruct ingress; cbn [cr_proto cr_dst_ports cr_src_nets cr_not_src_nets cr_dst_nets cr_not_dst_nets];
    rewrite HP, U, uniform_family_nil; reflexivity.
Qed.

Lemma proto_groups_protos : forall ports gs g, proto_groups ports = Some gs -> In g gs ->
  match fst g with
  | Some cp => match cproto_num cp with Some _ => true | None => false end
  | None => negb (existsb is_named (snd g))
  end = true.
Proof.
  intros ports gs g H I. unfold proto_groups in H. destruct ports as [|p0 ps0].
  - inversion H; subst. destruct I as [E|[]]. subst g. reflexivity.
  - destruct (group_ports pm_empty (p0 :: ps0)) as [m|]; [|discriminate]. injection H as E0. rewrite <- E0 in I. clear E0.
    repeat (apply in_app_or in I; destruct I as [I|I]);
      try (match type of I with In _ (match ?e with _ => _ end) => destruct e end;
           [destruct I as [E|[]]; subst g; reflexivity | contradiction]).
    contradiction.
Qed.

Theorem conv_rules_bridgeable : forall ingress ns rs cr,
  forallb (fun r => forallb peer_family_ok (nr_peers r)) rs = true ->
  In cr (conv_rules ingress ns rs) -> bridgeable cr = true.
Proof.
  intros ingress ns rs cr F IN. unfold conv_rules in IN. apply in_concat in IN. destruct IN as [l [IL IN]].
  apply in_map_iff in IL. destruct IL as [r [EL IR]]. subst l.
  rewrite forallb_forall in F. specialize (F r IR).
  destruct (conv_rule ingress ns r) as [l|] eqn:CR; [|contradiction].
  unfold conv_rule in CR. destruct (proto_groups (nr_ports r)) as [gs|] eqn:PG; [|discriminate]. inversion CR; subst; clear CR.
  apply in_concat in IN. destruct IN as [l' [IL IN]]. apply in_map_iff in IL. destruct IL as [g [EL IG]]. subst l'.
  apply in_map_iff in IN. destruct IN as [pe [E IP]]. subst cr.
  apply mk_rule_bridgeable.
  - eapply proto_groups_protos; eauto.
  - destruct pe as [pe|]; [|exact I]. destruct (nr_peers r) as [|q qs] eqn:EP.
    + destruct IP as [E|[]]. discriminate.
    + change (Some q :: map Some qs) with (map (@Some peer) (q :: qs)) in IP.
      apply in_map_iff in IP. destruct IP as [pe' [E IQ]]. inversion E; subst.
      rewrite forallb_forall in F. apply F. exact IQ.
Qed.
