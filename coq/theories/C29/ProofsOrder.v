(* C29 — proofs, part 5: the order of the converted policies inside the tier is irrelevant
   (all converted policies have the same Order 1000; Felix breaks the tie by name). *)
From Coq Require Import List Arith NArith Bool Sorting.Permutation.
From Verif.Common Require Import Labels Packet.
From Verif.C29 Require Import Model Spec ProofsSel ProofsPorts ProofsMain.
Import ListNotations.
Open Scope N_scope.

Lemma existsb_perm : forall {A} (f : A -> bool) l l', Permutation l l' -> existsb f l = existsb f l'.
Proof.
  intros A f l l' P. induction P; simpl; auto.
  - rewrite IHP. reflexivity.
  - destruct (f x), (f y); reflexivity.
  - congruence.
Qed.
Lemma forallb_perm : forall {A} (f : A -> bool) l l', Permutation l l' -> forallb f l = forallb f l'.
Proof.
  intros A f l l' P. induction P; simpl; auto.
  - rewrite IHP. reflexivity.
  - destruct (f x), (f y); reflexivity.
  - congruence.
Qed.

Lemma is_nil_filter : forall {A} (f : A -> bool) l, is_nil (filter f l) = negb (existsb f l).
Proof. induction l; simpl; auto. destruct (f a); simpl; auto. Qed.
Lemma existsb_filter : forall {A} (f g : A -> bool) l, existsb g (filter f l) = existsb (fun x => f x && g x) l.
Proof. induction l; simpl; auto. destruct (f a); simpl; rewrite IHl; reflexivity. Qed.

Lemma k8s_allows_dir_alt : forall nps cl dir p c,
  k8s_allows_dir nps cl dir p c
  = negb (existsb (fun np => k8s_applies np dir p) nps)
    || existsb (fun np => k8s_applies np dir p && k8s_np_allows cl dir np c) nps.
Proof.
  intros. unfold k8s_allows_dir. rewrite <- is_nil_filter, <- existsb_filter.
  destruct (filter (fun np => k8s_applies np dir p) nps); reflexivity.
Qed.

Lemma k8s_allows_perm : forall nps nps' cl c, Permutation nps nps' -> k8s_allows nps cl c = k8s_allows nps' cl c.
Proof.
  intros nps nps' cl c P. unfold k8s_allows.
  destruct (pa_pod (c_src c)), (pa_pod (c_dst c)); rewrite ?k8s_allows_dir_alt;
    rewrite ?(existsb_perm _ _ _ P); reflexivity.
Qed.

(* whatever order Felix puts the converted policies in, the verdict is the Kubernetes verdict *)
Theorem order_irrelevant : forall infer nps qs cl c,
  forallb (np_ok infer) nps = true ->
  Permutation qs (map (conv_np_v infer) nps) ->
  cal_allows qs (cparty_of cl (c_src c)) (cparty_of cl (c_dst c)) (c_proto c) (c_dport c) = k8s_allows nps cl c.
Proof.
  intros infer nps qs cl c OK P.
  apply Permutation_map_inv in P. destruct P as [nps' [E P]]. subst qs.
  rewrite same_meaning by (rewrite <- (forallb_perm _ _ _ P); exact OK).
  symmetry. apply k8s_allows_perm. exact P.
Qed.
