(* C29 — proofs, part 2: ports and protocols.
   - SimplifyPorts keeps the set of (port number | named port) accepted      (c29_simplify_ports_same_set)
   - the per-protocol grouping accepts the same (protocol, port) pairs as the Kubernetes port list
     (c29_protocol_grouping) *)
From Coq Require Import List Arith NArith Bool Lia Sorting.Mergesort Sorting.Sorted Sorting.Permutation.
From Verif.Common Require Import Labels Packet.
From Verif.C29 Require Import Model Spec ProofsSel.
Import ListNotations.
Open Scope N_scope.

Ltac nbool :=
  repeat match goal with
  | |- context [N.leb ?a ?c] => destruct (N.leb_spec a c)
  | |- context [N.ltb ?a ?c] => destruct (N.ltb_spec a c)
  | |- context [N.eqb ?a ?c] => destruct (N.eqb_spec a c)
  | H : context [N.leb ?a ?c] |- _ => destruct (N.leb_spec a c)
  | H : context [N.ltb ?a ?c] |- _ => destruct (N.ltb_spec a c)
  | H : context [N.eqb ?a ?c] |- _ => destruct (N.eqb_spec a c)
  end; simpl in *; try reflexivity; try discriminate; try lia.

(* ------------------------------------------------------------------ what a Calico port list accepts *)

Definition cports_hit (dst : cparty) (proto dport : N) (l : list cport) : bool :=
  existsb (cal_port_ok dst proto dport) l.

Definition num_in (d : N) (l : list cport) : bool :=
  existsb (fun p => match p with CRange lo hi => N.leb lo d && N.leb d hi | CNamed _ => false end) l.
Definition named_hit (dst : cparty) (proto dport : N) (l : list cport) : bool :=
  existsb (fun p => match p with CNamed _ => cal_port_ok dst proto dport p | CRange _ _ => false end) l.
Definition memN (d : N) (l : list N) : bool := existsb (N.eqb d) l.

Lemma cports_hit_split : forall dst proto d l,
  cports_hit dst proto d l = named_hit dst proto d l || num_in d l.
Proof.
  intros. unfold cports_hit, named_hit, num_in. induction l as [|p l IH]; simpl; auto.
  rewrite IH. destruct p; simpl.
  - destruct (N.leb lo d && N.leb d hi); simpl; auto. rewrite !orb_true_r. reflexivity.
  - destruct (cq_ep dst); simpl; auto. destruct (cep_has_port c s proto d); simpl; auto.
Qed.

Lemma named_hit_app : forall dst proto d l1 l2,
  named_hit dst proto d (l1 ++ l2) = named_hit dst proto d l1 || named_hit dst proto d l2.
Proof. intros. unfold named_hit. apply existsb_app. Qed.
Lemma num_in_app : forall d l1 l2, num_in d (l1 ++ l2) = num_in d l1 || num_in d l2.
Proof. intros. unfold num_in. apply existsb_app. Qed.

Lemma named_hit_filter : forall dst proto d l, named_hit dst proto d (filter is_named l) = named_hit dst proto d l.
Proof. intros. unfold named_hit. induction l as [|p l IH]; simpl; auto. destruct p; simpl; auto. rewrite IH. reflexivity. Qed.
Lemma num_in_filter : forall d l, num_in d (filter is_named l) = false.
Proof. intros. unfold num_in. induction l as [|p l IH]; simpl; auto. destruct p; simpl; auto. Qed.

(* ------------------------------------------------------------------ expansion of ranges into numbers *)

Lemma memN_In : forall d l, memN d l = true <-> In d l.
Proof.
  intros. unfold memN. rewrite existsb_exists. split.
  - intros [x [I E]]. apply N.eqb_eq in E. subst. exact I.
  - intros I. exists d. split; auto. apply N.eqb_refl.
Qed.

Lemma In_nseq : forall len lo d, In d (nseq lo len) <-> lo <= d < lo + N.of_nat len.
Proof.
  induction len as [|len IH]; intros lo d; cbn [nseq In].
  - lia.
  - rewrite IH. lia.
Qed.

Lemma memN_expand : forall d p, memN d (expand p) = match p with CRange lo hi => N.leb lo d && N.leb d hi | CNamed _ => false end.
Proof.
  intros d p. destruct p as [lo hi|s]; [|reflexivity]. unfold expand.
  apply eq_true_iff_eq. rewrite memN_In, In_nseq, andb_true_iff, !N.leb_le. lia.
Qed.

Lemma memN_app : forall d l1 l2, memN d (l1 ++ l2) = memN d l1 || memN d l2.
Proof. intros. unfold memN. apply existsb_app. Qed.

Lemma memN_concat_expand : forall d l, memN d (concat (map expand l)) = num_in d l.
Proof.
  intros d l. induction l as [|p l IH]; simpl; auto.
  rewrite memN_app, IH, memN_expand. reflexivity.
Qed.

Lemma memN_perm : forall d l l', Permutation l l' -> memN d l = memN d l'.
Proof.
  intros d l l' P. apply eq_true_iff_eq. rewrite !memN_In. split; intros H.
  - eapply Permutation_in; eauto.
  - eapply Permutation_in; [apply Permutation_sym|]; eauto.
Qed.

(* ------------------------------------------------------------------ the range builder *)

Definition leN (x y : N) : Prop := is_true (N.leb x y).

Lemma ranges_from_named : forall dst proto d l first last, named_hit dst proto d (ranges_from first last l) = false.
Proof.
  intros dst proto d l. induction l as [|x l IH]; intros; simpl; auto.
  destruct (last + 1 <? x); simpl; auto.
Qed.

Lemma ranges_from_in : forall l first last d,
  first <= last -> Sorted leN (last :: l) ->
  num_in d (ranges_from first last l) = (N.leb first d && N.leb d last) || memN d l.
Proof.
  induction l as [|x l IH]; intros first last d FL S.
  - simpl. rewrite !orb_false_r. reflexivity.
  - inversion S as [|? ? S' HD]; subst. inversion HD as [|? ? LE]; subst.
    unfold leN, is_true in LE. apply N.leb_le in LE.
    cbn [ranges_from]. destruct (N.ltb_spec (last + 1) x) as [GAP|NOGAP].
    + change (num_in d (CRange first last :: ranges_from x x l))
        with ((N.leb first d && N.leb d last) || num_in d (ranges_from x x l)).
      rewrite IH by (auto; lia). cbn [memN existsb]. fold (memN d l).
      destruct (memN d l); [rewrite !orb_true_r; reflexivity|]. rewrite !orb_false_r. f_equal. nbool.
    + rewrite IH by (auto; lia). cbn [memN existsb]. fold (memN d l).
      destruct (memN d l); [rewrite !orb_true_r; reflexivity|]. rewrite !orb_false_r. nbool.
Qed.

Lemma ranges_in : forall l d, Sorted leN l -> num_in d (ranges l) = memN d l.
Proof.
  intros l d S. destruct l as [|x l]; [reflexivity|]. unfold ranges.
  rewrite ranges_from_in by (auto; lia). cbn [memN existsb]. f_equal. nbool.
Qed.
Lemma ranges_named : forall dst proto d l, named_hit dst proto d (ranges l) = false.
Proof. intros. destruct l; [reflexivity|]. apply ranges_from_named. Qed.
Lemma ranges_from_not_nil : forall l first last, ranges_from first last l <> [].
Proof. induction l; intros; simpl; try discriminate. destruct (last + 1 <? a); [discriminate|apply IHl]. Qed.

(* ------------------------------------------------------------------ c29_simplify_ports_same_set *)

Lemma simplify_ports_same_set : forall dst proto d ports,
  cports_hit dst proto d (simplify_ports ports) = cports_hit dst proto d ports.
Proof.
  intros dst proto d ports. unfold simplify_ports.
  destruct (length ports <=? 1)%nat; [reflexivity|].
  destruct (length (concat (map expand ports)) <=? 1)%nat; [reflexivity|].
  rewrite !cports_hit_split, named_hit_app, num_in_app, named_hit_filter, num_in_filter, ranges_named.
  rewrite ranges_in by (apply NSort.Sorted_sort).
  rewrite <- (memN_perm d _ _ (NSort.Permuted_sort _)), memN_concat_expand.
  rewrite orb_false_r. reflexivity.
Qed.

Lemma simplify_ports_nil : forall ports, is_nil (simplify_ports ports) = is_nil ports.
Proof.
  intros ports. unfold simplify_ports.
  destruct (length ports <=? 1)%nat eqn:L1; [reflexivity|].
  destruct (length (concat (map expand ports)) <=? 1)%nat eqn:L2; [reflexivity|].
  apply Nat.leb_gt in L1, L2.
  destruct ports as [|p ports]; [simpl in L1; lia|]. cbn [is_nil].
  pose proof (Permutation_length (NSort.Permuted_sort (concat (map expand (p :: ports))))) as PL.
  destruct (NSort.sort (concat (map expand (p :: ports)))) as [|x s] eqn:E; [rewrite PL in L2; simpl in L2; lia|].
  unfold ranges. pose proof (ranges_from_not_nil s x x) as NN.
  destruct (filter is_named (p :: ports)); simpl; [|reflexivity].
  destruct (ranges_from x x s); [contradiction|reflexivity].
Qed.

Lemma simplify_ports_both : forall dst proto d ports,
  cports_hit dst proto d (simplify_ports ports) = cports_hit dst proto d ports
  /\ is_nil (simplify_ports ports) = is_nil ports.
Proof. intros. split; [apply simplify_ports_same_set | apply simplify_ports_nil]. Qed.

(* ------------------------------------------------------------------ one port entry *)

(* k8s_port_matches without its protocol test *)
Definition kport_part (pp : npport) (dst : party) (proto dport : N) : bool :=
  match pp_port pp with
  | KNoPort => true
  | KNum n => match pp_end pp with
              | None => N.eqb dport n
              | Some e => N.leb n dport && N.leb dport e
              end
  | KName s => match pa_pod dst with Some p => pod_has_port p s proto dport | None => false end
  end.

Lemma k8s_port_matches_split : forall pp dst proto dport,
  k8s_port_matches pp dst proto dport = N.eqb (kproto_num (port_proto pp)) proto && kport_part pp dst proto dport.
Proof. reflexivity. Qed.

Definition port_ok (pp : npport) : bool := match conv_port pp with Some _ => true | None => false end.

Lemma cep_has_port_of_pod : forall cl p s proto d, cep_has_port (cep_of_pod cl p) s proto d = pod_has_port p s proto d.
Proof. intros. unfold cep_has_port, pod_has_port, cep_of_pod. simpl. rewrite existsb_map. reflexivity. Qed.

Definition entry_hit (dst : cparty) (proto dport : N) (e : option (list cport)) : bool :=
  match e with None => false | Some l => is_nil l || cports_hit dst proto dport l end.

Lemma conv_port_meaning : forall cl pp dst proto d l,
  conv_port pp = Some l ->
  entry_hit (cparty_of cl dst) proto d (Some l) = kport_part pp dst proto d.
Proof.
  intros cl pp dst proto d l H. unfold conv_port in H. unfold kport_part, entry_hit, cports_hit.
  destruct (pp_port pp) as [|n|s].
  - inversion H; subst. reflexivity.
  - destruct (pp_end pp) as [e|].
    + destruct ((n <=? 65535) && (e <=? 65535) && (n <=? e)); inversion H; subst. simpl. rewrite orb_false_r. reflexivity.
    + destruct (n <=? 65535); inversion H; subst. simpl. rewrite orb_false_r. nbool.
  - destruct (pp_end pp); inversion H; subst. simpl. rewrite orb_false_r.
    unfold cparty_of. simpl. destruct (pa_pod dst); simpl; auto. apply cep_has_port_of_pod.
Qed.

(* ------------------------------------------------------------------ the protocol -> ports map *)

Lemma pm_get_set : forall m p q v, pm_get (pm_set m q v) p = if kproto_eqb q p then Some v else pm_get m p.
Proof. intros m p q v. destruct p, q; reflexivity. Qed.

Lemma cports_hit_app : forall dst proto d l1 l2,
  cports_hit dst proto d (l1 ++ l2) = cports_hit dst proto d l1 || cports_hit dst proto d l2.
Proof. intros. unfold cports_hit. apply existsb_app. Qed.

Lemma kproto_eqb_true : forall a c, kproto_eqb a c = true -> a = c.
Proof. destruct a, c; simpl; intros; congruence. Qed.

Lemma pm_add_hit : forall dst proto d m q cps p,
  entry_hit dst proto d (pm_get (pm_add m q cps) p)
  = entry_hit dst proto d (pm_get m p) || (kproto_eqb q p && entry_hit dst proto d (Some cps)).
Proof.
  intros dst proto d m q cps p. unfold pm_add.
  destruct cps as [|c cps].
  - rewrite pm_get_set. destruct (kproto_eqb q p); simpl; [rewrite orb_true_r|rewrite orb_false_r]; reflexivity.
  - destruct (kproto_eqb q p) eqn:QP.
    + apply kproto_eqb_true in QP. subst q.
      destruct (pm_get m p) as [[|x l]|] eqn:G.
      * rewrite G. reflexivity.
      * rewrite pm_get_set. replace (kproto_eqb p p) with true by (destruct p; reflexivity).
        unfold entry_hit. rewrite (cports_hit_app dst proto d (x :: l) (c :: cps)). cbn [is_nil app andb orb]. reflexivity.
      * rewrite pm_get_set. replace (kproto_eqb p p) with true by (destruct p; reflexivity). reflexivity.
    + rewrite andb_false_l, orb_false_r.
      destruct (pm_get m q) as [[|x l]|] eqn:G; try reflexivity; rewrite pm_get_set, QP; reflexivity.
Qed.

Lemma group_ports_hit : forall cl dst proto d ps m m',
  group_ports m ps = Some m' ->
  forall p, entry_hit (cparty_of cl dst) proto d (pm_get m' p)
            = entry_hit (cparty_of cl dst) proto d (pm_get m p)
              || existsb (fun pp => kproto_eqb (port_proto pp) p && kport_part pp dst proto d) ps.
Proof.
  intros cl dst proto d ps. induction ps as [|pp ps IH]; intros m m' H p.
  - simpl in H. inversion H; subst. simpl. rewrite orb_false_r. reflexivity.
  - simpl in H. destruct (conv_port pp) as [cps|] eqn:C; [|discriminate].
    rewrite (IH _ _ H p), pm_add_hit. rewrite (conv_port_meaning cl pp dst proto d cps C).
    simpl. rewrite orb_assoc. reflexivity.
Qed.

Lemma group_ports_some : forall ps m, forallb port_ok ps = true -> exists m', group_ports m ps = Some m'.
Proof.
  induction ps as [|pp ps IH]; intros m H; simpl in *; eauto.
  apply andb_true_iff in H. destruct H as [H1 H2]. unfold port_ok in H1.
  destruct (conv_port pp); [|discriminate]. apply IH. exact H2.
Qed.

(* ------------------------------------------------------------------ c29_protocol_grouping *)

Definition cproto_ok (o : option cproto) (proto : N) : bool :=
  match o with
  | None => true
  | Some p => match cproto_num p with Some n => N.eqb n proto | None => false end
  end.

Definition group_hit (dst : cparty) (proto d : N) (g : option cproto * list cport) : bool :=
  cproto_ok (fst g) proto && (is_nil (snd g) || cports_hit dst proto d (snd g)).

Lemma cproto_ok_of : forall p proto, cproto_ok (Some (cproto_of p)) proto = N.eqb (kproto_num p) proto.
Proof. destruct p; reflexivity. Qed.

Lemma entry_hit_simplify : forall dst proto d l,
  entry_hit dst proto d (Some (simplify_ports l)) = entry_hit dst proto d (Some l).
Proof. intros. unfold entry_hit. rewrite simplify_ports_nil, simplify_ports_same_set. reflexivity. Qed.

Lemma by_proto_sum : forall (proto : N) (part : npport -> bool) ps,
  existsb (fun p => N.eqb (kproto_num p) proto && existsb (fun pp => kproto_eqb (port_proto pp) p && part pp) ps) [KSCTP; KTCP; KUDP]
  = existsb (fun pp => N.eqb (kproto_num (port_proto pp)) proto && part pp) ps.
Proof.
  intros proto part ps. induction ps as [|pp ps IH].
  - simpl. rewrite !andb_false_r. reflexivity.
  - cbn [existsb] in *. rewrite <- IH. clear IH.
    destruct (port_proto pp); cbn [kproto_eqb kproto_num];
      destruct (N.eqb 132 proto), (N.eqb 6 proto), (N.eqb 17 proto), (part pp);
      cbn [andb orb];
      repeat match goal with |- context [existsb ?f ps] => destruct (existsb f ps) end; reflexivity.
Qed.

Lemma protocol_grouping : forall cl dst proto d ports gs,
  proto_groups ports = Some gs ->
  existsb (group_hit (cparty_of cl dst) proto d) gs
  = is_nil ports || existsb (fun pp => k8s_port_matches pp dst proto d) ports.
Proof.
  intros cl dst proto d ports gs H. unfold proto_groups in H.
  destruct ports as [|pp0 ps0] eqn:EP.
  - inversion H; subst. reflexivity.
  - rewrite <- EP in *. assert (NN : is_nil ports = false) by (rewrite EP; reflexivity). rewrite NN. clear EP NN. simpl orb.
    destruct (group_ports pm_empty ports) as [m|] eqn:G; [|discriminate]. inversion H; subst; clear H.
    pose proof (group_ports_hit cl dst proto d ports pm_empty m G) as GH.
    transitivity (existsb (fun pp => N.eqb (kproto_num (port_proto pp)) proto && kport_part pp dst proto d) ports); [|reflexivity].
    rewrite <- (by_proto_sum proto (fun pp => kport_part pp dst proto d) ports).
    cbn [map concat existsb]. rewrite app_nil_r.
    rewrite !existsb_app.
    assert (ONE : forall p,
      existsb (group_hit (cparty_of cl dst) proto d)
        (match pm_get m p with None => [] | Some l => [(Some (cproto_of p), simplify_ports l)] end)
      = N.eqb (kproto_num p) proto && existsb (fun pp => kproto_eqb (port_proto pp) p && kport_part pp dst proto d) ports).
    { intros p. specialize (GH p). destruct p; simpl pm_get in *; simpl in GH; rewrite <- GH; clear GH.
      all: match goal with |- context [match ?e with _ => _ end] => destruct e as [l|] end; simpl; try (rewrite andb_false_r; reflexivity).
      all: rewrite orb_false_r; unfold group_hit; cbn [fst snd]; rewrite cproto_ok_of;
           change (is_nil (simplify_ports l) || cports_hit (cparty_of cl dst) proto d (simplify_ports l))
             with (entry_hit (cparty_of cl dst) proto d (Some (simplify_ports l)));
           rewrite entry_hit_simplify; reflexivity. }
    pose proof (ONE KSCTP) as O1. pose proof (ONE KTCP) as O2. pose proof (ONE KUDP) as O3.
    cbn [pm_get] in O1, O2, O3. rewrite O1, O2, O3. rewrite orb_false_r. reflexivity.
Qed.
