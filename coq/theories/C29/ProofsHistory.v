(* C29 — proofs, part 8: the modelled conversion does not depend on what the process converted before. *)
From Coq Require Import List NArith Bool.
From Verif.Common Require Import Labels Packet.
From Verif.C29 Require Import Model Spec ProofsSel ProofsPorts ProofsMain ProofsValid.
Import ListNotations.
Open Scope N_scope.

Lemma step_history_independent : forall infer h1 h2 it, pipeline_step infer h1 it = pipeline_step infer h2 it.
Proof. intros. destruct it; reflexivity. Qed.

Lemma run_pipeline_pointwise : forall infer todo hist,
  run_pipeline infer hist todo = map (pipeline_step infer []) todo.
Proof.
  intros infer todo. induction todo as [|it rest IH]; intros hist; simpl; auto.
  rewrite IH. f_equal.
Qed.

Lemma outputs_run_pipeline : forall infer hist todo,
  outputs (run_pipeline infer hist todo) = map (conv_np_v infer) (k8s_items todo).
Proof.
  intros. rewrite run_pipeline_pointwise. unfold outputs, k8s_items.
  induction todo as [|it rest IH]; simpl; auto. destruct it; simpl; rewrite IH; reflexivity.
Qed.

(* a policy converted after ANY history (and any number of times) gets the same model.Policy *)
Theorem history_independent : forall infer h1 h2 before1 before2 np,
  last (run_pipeline infer h1 (before1 ++ [IK8s np])) None = last (run_pipeline infer h2 (before2 ++ [IK8s np])) None
  /\ last (run_pipeline infer h1 (before1 ++ [IK8s np])) None = Some (conv_np_v infer np).
Proof.
  intros. rewrite !run_pipeline_pointwise, !map_app. simpl. rewrite !last_last. auto.
Qed.

(* the main theorem for the policies as they come out of any history of the pipeline *)
Theorem same_meaning_any_history : forall infer hist todo cl c,
  forallb k8s_np_valid (k8s_items todo) = true ->
  forallb np_keys_ok (k8s_items todo) = true ->
  forallb (types_defaulted infer) (k8s_items todo) = true ->
  cal_allows (outputs (run_pipeline infer hist todo)) (cparty_of cl (c_src c)) (cparty_of cl (c_dst c)) (c_proto c) (c_dport c)
  = k8s_allows (k8s_items todo) cl c.
Proof. intros. rewrite outputs_run_pipeline. apply same_meaning_valid; auto. Qed.
