(* C29 — proofs. *)
From Coq Require Import List Arith NArith Bool Lia.
From Verif.Common Require Import Labels Packet.
From Verif.C29 Require Import Model Spec.
Import ListNotations.
Open Scope N_scope.

Lemma mem_insert_dd : forall x y l, mem_bytes x (insert_dd y l) = bytes_eqb x y || mem_bytes x l.
Proof.
  intros x y l. induction l as [|z l IH]; simpl.
  - reflexivity.
  - destruct (bytes_eqb y z) eqn:E.
    + apply bytes_eqb_eq in E. subst. simpl. destruct (bytes_eqb x z); reflexivity.
    + destruct (bytes_ltb z y); simpl.
      * rewrite IH. destruct (bytes_eqb x y), (bytes_eqb x z); reflexivity.
      * reflexivity.
Qed.

Lemma mem_sort_dd : forall x vs, mem_bytes x (sort_dd vs) = mem_bytes x vs.
Proof.
  intros x vs. induction vs as [|v vs IH]; simpl; auto.
  rewrite mem_insert_dd, IH. reflexivity.
Qed.
