(* C29 — proofs, part 4: witnesses.  (The proofs proper are in ProofsSel.v, ProofsPorts.v, ProofsMain.v.)
   - the hypotheses of the main theorem are satisfiable by non-trivial policies (examples)
   - each hypothesis that is not mere API validation is NECESSARY: refutations by computation, replayed on the
     real code by the driver's scripted cases *)
From Coq Require Import String.
From Coq Require Import List Arith NArith Bool.
From Verif.Common Require Import Labels Packet.
From Verif.C29 Require Export Model Spec ProofsSel ProofsPorts ProofsMain ProofsValid.
From Verif.C29 Require Import ProofsBridge.
Import ListNotations.
Open Scope N_scope.

Definition mkpod ns labels ports : pod := {| pod_ns := ns; pod_sa := []; pod_labels := labels; pod_ports := ports |}.
Definition pod_party (a : N) (p : pod) : party := {| pa_ver := V4; pa_ip := a; pa_pod := Some p |}.
Definition ext_party (a : N) : party := {| pa_ver := V4; pa_ip := a; pa_pod := None |}.
Definition no_sel : lsel := {| ls_match := []; ls_exprs := [] |}.

(* ------------------------------------------------------------------ a non-trivial well-formed example *)
Definition ex_np : netpol :=
  {| np_ns := b "prod";
     np_sel := {| ls_match := [(b "app", b "db")]; ls_exprs := [] |};
     np_ingress :=
       [{| nr_peers := [{| pe_pod := Some {| ls_match := []; ls_exprs := [{| rq_key := b "tier"; rq_op := OpIn; rq_vals := [b "fe"; b "be"] |}] |};
                           pe_ns := Some {| ls_match := [(b "team", b "a")]; ls_exprs := [] |}; pe_ip := None |};
                        {| pe_pod := None; pe_ns := None;
                           pe_ip := Some {| ib_cidr := {| cidr_ver := V4; cidr_addr := 167772160; cidr_len := 8 |};
                                            ib_except := [{| cidr_ver := V4; cidr_addr := 167772416; cidr_len := 24 |}] |} |}];
           nr_ports := [{| pp_proto := None; pp_port := KNum 80; pp_end := Some 82 |};
                        {| pp_proto := None; pp_port := KNum 83; pp_end := None |};
                        {| pp_proto := Some KUDP; pp_port := KName (b "dns"); pp_end := None |}] |}];
     np_egress := [];
     np_types := [TIngress] |}.
Definition ex_cl : cluster :=
  {| cl_ns := [(b "prod", [(b "team", b "b")]); (b "dev", [(b "team", b "a")])]; cl_sa := [] |}.
Definition no_cl : cluster := {| cl_ns := []; cl_sa := [] |}.
Definition ex_db := mkpod (b "prod") [(b "app", b "db")] [(b "dns", KUDP, 53)].
Definition ex_fe := mkpod (b "dev") [(b "tier", b "fe")] [].
Definition ex_conn (src : party) proto port : conn :=
  {| c_src := src; c_dst := pod_party 167837953 ex_db; c_proto := proto; c_dport := port |}.

Example ex_np_ok : np_ok false ex_np = true. Proof. vm_compute. reflexivity. Qed.
Example ex_np_hyps : k8s_np_valid ex_np = true /\ np_keys_ok ex_np = true /\ types_defaulted false ex_np = true.
Proof. vm_compute. auto. Qed.
(* allowed: selected pod from a matching namespace, port inside the merged range 80-83 *)
Example ex_allowed : k8s_allows [ex_np] ex_cl (ex_conn (pod_party 167838000 ex_fe) 6 83) = true
  /\ cal_allows [conv_np ex_np] (cparty_of ex_cl (pod_party 167838000 ex_fe)) (cparty_of ex_cl (pod_party 167837953 ex_db)) 6 83 = true.
Proof. vm_compute. auto. Qed.
(* denied: address inside the ipBlock's except *)
Example ex_denied_except : k8s_allows [ex_np] ex_cl (ex_conn (ext_party 167772421) 6 80) = false
  /\ cal_allows [conv_np ex_np] (cparty_of ex_cl (ext_party 167772421)) (cparty_of ex_cl (pod_party 167837953 ex_db)) 6 80 = false.
Proof. vm_compute. auto. Qed.
(* allowed: named port dns/UDP of the destination pod, from the ipBlock *)
Example ex_allowed_named : k8s_allows [ex_np] ex_cl (ex_conn (ext_party 167837700) 17 53) = true
  /\ cal_allows [conv_np ex_np] (cparty_of ex_cl (ext_party 167837700)) (cparty_of ex_cl (pod_party 167837953 ex_db)) 17 53 = true.
Proof. vm_compute. auto. Qed.
Example ex_bridgeable : forallb bridgeable (cp_in (conv_np ex_np)) = true.
Proof. vm_compute. reflexivity. Qed.
Example ex_ports_merged :
  map cr_dst_ports (cp_in (conv_np ex_np)) = [[CRange 80 83]; [CRange 80 83]; [CNamed (b "dns")]; [CNamed (b "dns")]].
Proof. vm_compute. reflexivity. Qed.

(* ------------------------------------------------------------------ refutation 1: policyTypes absent + egress rules (pinned tree) *)
Definition w1_np : netpol :=
  {| np_ns := b "default"; np_sel := no_sel; np_ingress := [];
     np_egress := [{| nr_peers := []; nr_ports := [{| pp_proto := None; pp_port := KNum 80; pp_end := None |}] |}];
     np_types := [] |}.
Definition w1_pod := mkpod (b "default") [] [].
Definition w1_conn : conn := {| c_src := pod_party 167772417 w1_pod; c_dst := ext_party 134744072; c_proto := 6; c_dport := 443 |}.

Lemma policytypes_absent_refuted :
  exists np cl c,
    np_ok true np = true /\                       (* well-formed in every other respect *)
    k8s_allows [np] cl c = false /\
    cal_allows [conv_np_v false np] (cparty_of cl (c_src c)) (cparty_of cl (c_dst c)) (c_proto c) (c_dport c) = true.
Proof. exists w1_np, no_cl, w1_conn. vm_compute. auto. Qed.

(* ------------------------------------------------------------------ refutation 2: Calico-reserved label prefix on a pod *)
Definition w2_np : netpol :=
  {| np_ns := b "default"; np_sel := {| ls_match := [(b "pcns.tier", b "db")]; ls_exprs := [] |};
     np_ingress := []; np_egress := []; np_types := [TIngress] |}.
Definition w2_pod := mkpod (b "default") [(b "pcns.tier", b "db")] [].
Definition w2_conn : conn := {| c_src := ext_party 134744072; c_dst := pod_party 167772417 w2_pod; c_proto := 6; c_dport := 80 |}.

Lemma reserved_label_refuted :
  exists np cl c,
    k8s_allows [np] cl c = false /\
    forall infer, cal_allows [conv_np_v infer np] (cparty_of cl (c_src c)) (cparty_of cl (c_dst c)) (c_proto c) (c_dport c) = true.
Proof. exists w2_np, no_cl, w2_conn. split; [vm_compute; reflexivity|]. intros [|]; vm_compute; reflexivity. Qed.
