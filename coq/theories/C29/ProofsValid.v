(* C29 — proofs, part 6: the main theorem stated with its three independent hypotheses:
   (a) the object is a Kubernetes NetworkPolicy (passes API validation, Spec.k8s_np_valid),
   (b) its selectors use no Calico-reserved label key,
   (c) policyTypes went through API-server defaulting (only needed for the pinned tree's variant). *)
From Coq Require Import List Arith NArith Bool Lia.
From Verif.Common Require Import Labels Packet.
From Verif.C29 Require Import Model Spec ProofsSel ProofsPorts ProofsMain.
Import ListNotations.
Open Scope N_scope.

Definition sel_keys (s : lsel) : list bytes := map fst (ls_match s) ++ map rq_key (ls_exprs s).
Definition osel_keys_ok (keyok : bytes -> bool) (s : option lsel) : bool :=
  match s with Some s => forallb keyok (sel_keys s) | None => true end.
Definition peer_keys_ok (pe : peer) : bool :=
  osel_keys_ok unreserved_key (pe_pod pe) && osel_keys_ok ns_key_ok (pe_ns pe).
Definition rule_keys_ok (r : nprule) : bool := forallb peer_keys_ok (nr_peers r).
Definition np_keys_ok (np : netpol) : bool :=
  forallb unreserved_key (sel_keys (np_sel np))
  && forallb rule_keys_ok (np_ingress np) && forallb rule_keys_ok (np_egress np).
Definition types_defaulted (infer : bool) (np : netpol) : bool :=
  infer || negb (is_nil (np_types np)) || is_nil (np_egress np).

Lemma lsel_ok_of_valid : forall keyok s,
  k8s_sel_valid s = true -> forallb keyok (sel_keys s) = true -> lsel_ok keyok s = true.
Proof.
  intros keyok s V K. unfold lsel_ok, sel_keys, k8s_sel_valid in *.
  rewrite forallb_app', !forallb_map in K. apply andb_true_iff in K. destruct K as [K1 K2].
  rewrite K1. simpl. rewrite forallb_forall in *. intros r I. unfold req_ok.
  rewrite (K2 r I). simpl. specialize (V r I). unfold k8s_req_valid in V. destruct (rq_op r); auto.
Qed.

Lemma port_ok_of_valid : forall pp, k8s_port_valid pp = true -> port_ok pp = true.
Proof.
  intros pp V. unfold k8s_port_valid, port_ok, conv_port in *.
  destruct (pp_port pp) as [|n|s]; auto.
  - destruct (pp_end pp) as [e|].
    + rewrite !andb_true_iff in V. destruct V as [[A B] [C D]]. rewrite B, C, D. reflexivity.
    + rewrite !andb_true_iff in V. destruct V as [[A B] _]. rewrite B. reflexivity.
  - destruct (pp_end pp); auto; try (rewrite andb_false_r in V; discriminate).
Qed.

Lemma peer_ok_of_valid : forall pe, k8s_peer_valid pe = true -> peer_keys_ok pe = true -> peer_ok pe = true.
Proof.
  intros pe V K. unfold k8s_peer_valid, peer_keys_ok, peer_ok in *. destruct (pe_ip pe); auto.
  apply andb_true_iff in K. destruct K as [K1 K2].
  repeat (apply andb_true_iff in V; destruct V as [V ?]).
  apply andb_true_iff. split.
  - destruct (pe_pod pe); auto. apply lsel_ok_of_valid; auto.
  - destruct (pe_ns pe); auto. apply lsel_ok_of_valid; auto.
Qed.

Lemma rule_ok_of_valid : forall r, k8s_rule_valid r = true -> rule_keys_ok r = true -> rule_ok r = true.
Proof.
  intros r V K. unfold k8s_rule_valid, rule_keys_ok, rule_ok in *.
  apply andb_true_iff in V. destruct V as [V1 V2]. apply andb_true_iff. split.
  - rewrite forallb_forall in *. intros pe I. apply peer_ok_of_valid; auto.
  - rewrite forallb_forall in *. intros pp I. apply port_ok_of_valid; auto.
Qed.

Lemma rules_ok_of_valid : forall rs, forallb k8s_rule_valid rs = true -> forallb rule_keys_ok rs = true -> forallb rule_ok rs = true.
Proof.
  intros rs V K. rewrite forallb_forall in *. intros r I. apply rule_ok_of_valid; auto.
Qed.

Lemma np_ok_of_valid : forall infer np,
  k8s_np_valid np = true -> np_keys_ok np = true -> types_defaulted infer np = true -> np_ok infer np = true.
Proof.
  intros infer np V K T. unfold k8s_np_valid, np_keys_ok, types_defaulted, np_ok in *.
  repeat (apply andb_true_iff in V; destruct V as [V ?]).
  repeat (apply andb_true_iff in K; destruct K as [K ?]).
  rewrite V, T. rewrite lsel_ok_of_valid by auto. rewrite !rules_ok_of_valid by auto. reflexivity.
Qed.

Theorem same_meaning_valid : forall infer nps cl c,
  forallb k8s_np_valid nps = true ->
  forallb np_keys_ok nps = true ->
  forallb (types_defaulted infer) nps = true ->
  cal_allows (map (conv_np_v infer) nps) (cparty_of cl (c_src c)) (cparty_of cl (c_dst c)) (c_proto c) (c_dport c)
  = k8s_allows nps cl c.
Proof.
  intros infer nps cl c V K T. apply same_meaning.
  rewrite forallb_forall in *. intros np I. apply np_ok_of_valid; auto.
Qed.
