(* C05 — the ValidationFilter part: an invalid write is, message for message, a delete. *)
From Coq Require Import List NArith Bool.
From Verif.Common Require Import Packet PolicyRef Labels.
From Verif.C05 Require Import Model.
Import ListNotations.
Open Scope N_scope.

Section Filter.
  Variable validate : value -> bool.

  Lemma vf_filter_idem : forall ov, vf_filter validate (vf_filter validate ov) = vf_filter validate ov.
  Proof.
    intros [v|]; simpl; auto. destruct (validate v) eqn:E; simpl; auto. rewrite E. reflexivity.
  Qed.

  Lemma vf_filter_invalid : forall v, validate v = false -> vf_filter validate (Some v) = vf_filter validate None.
  Proof. intros v H. simpl. rewrite H. reflexivity. Qed.

  (* vf_filter never forwards anything but the value itself or nil: nothing is partially applied *)
  Lemma vf_filter_whole_or_nil : forall ov, vf_filter validate ov = ov \/ vf_filter validate ov = None.
  Proof. intros [v|]; simpl; auto. destruct (validate v); auto. Qed.

  (* the same update with every invalid value replaced by a delete *)
  Definition as_delete (i : input) : input :=
    {| i_key := i_key i; i_val := vf_filter validate (i_val i); i_sched := i_sched i; i_ord := i_ord i |}.

  Lemma step_as_delete : forall s i, step validate s (as_delete i) = step validate s i.
  Proof. intros s i. unfold step, as_delete. simpl. rewrite vf_filter_idem. reflexivity. Qed.

  Lemma run_as_delete : forall h s, run validate s (map as_delete h) = run validate s h.
  Proof.
    induction h as [|i h IH]; intros s; simpl; auto.
    rewrite step_as_delete. destruct (step validate s i) as [s' evs]. rewrite IH. reflexivity.
  Qed.

  Lemma final_as_delete : forall h s, final validate s (map as_delete h) = final validate s h.
  Proof.
    induction h as [|i h IH]; intros s; simpl; auto. rewrite step_as_delete. apply IH.
  Qed.

  Definition write (k : key) (ov : option value) (sched : list mev) (ord : list N) : input :=
    {| i_key := k; i_val := ov; i_sched := sched; i_ord := ord |}.

  Lemma step_invalid_write : forall s k v sched ord,
    validate v = false -> step validate s (write k (Some v) sched ord) = step validate s (write k None sched ord).
  Proof. intros. unfold step, write. simpl. rewrite H. reflexivity. Qed.

  Lemma run_app : forall h1 h2 s, run validate s (h1 ++ h2) = run validate s h1 ++ run validate (final validate s h1) h2.
  Proof.
    induction h1 as [|i h1 IH]; intros h2 s; simpl; auto.
    destruct (step validate s i) as [s' evs] eqn:E. simpl. rewrite IH. reflexivity.
  Qed.

  Lemma final_app : forall h1 h2 s, final validate s (h1 ++ h2) = final validate (final validate s h1) h2.
  Proof. induction h1 as [|i h1 IH]; intros; simpl; auto. Qed.

  (* one invalid write anywhere in a history: the emitted stream is the one of the history with a delete there *)
  Lemma invalid_write_is_delete : forall h1 h2 s k v sched ord,
    validate v = false ->
    run validate s (h1 ++ write k (Some v) sched ord :: h2) = run validate s (h1 ++ write k None sched ord :: h2).
  Proof.
    intros. rewrite !run_app. f_equal. simpl. rewrite step_invalid_write by assumption. reflexivity.
  Qed.
End Filter.
