(* C05 — the oracle for traces with status messages (SpecSync.sok_case) accepts the model's own trace of every
   well-typed history of updates and status messages. *)
From Coq Require Import List NArith Bool Lia.
From Verif.Common Require Import Packet PolicyRef Labels.
From Verif.C05 Require Import Model Spec ModelSync SpecSync ProofsFilter ProofsProfiles ProofsStep ProofsVerdict ProofsMain
  ProofsOracle ProofsPolicies ProofsIndex ProofsPolStep ProofsPolMain ProofsNoPanic ProofsTrace ProofsSync.
Import ListNotations.
Open Scope N_scope.

Lemma missing_dangling_of_SInv : forall ss v d p, SInv ss v d -> ss_insync ss = false -> ukeys (d_eps d) ->
  (In p (ss_missing ss) <-> In p (dangling d)).
Proof.
  intros ss v d p [(I1h & I2h & [R1 R2]) HM] Hs Hu. rewrite Hs in HM.
  rewrite (HM p), (In_dangling d p Hu), R1. specialize (I2h p).
  split; intros [A B]; split; auto.
  - destruct (md_has_key p (s_p2e (ss_st ss))) eqn:Ek; [|rewrite I2h in A; congruence].
    apply md_has_key_true in Ek. destruct Ek as [e He]. apply I1h in He. destruct He as [ids [Hids Hin]].
    rewrite R2 in Hids. destruct (aget e (d_eps d)) as [ep|] eqn:Eep; [|discriminate].
    exists e, ep. split; auto. unfold ep_ids in Hids. destruct (ep_profiles ep); [discriminate|]. inversion Hids; subst. assumption.
  - destruct A as [e [ep [He Hp]]].
    assert (Hk : md_has_key p (s_p2e (ss_st ss)) = true).
    { apply md_has_key_true. exists e. apply I1h. exists (ep_profiles ep). split; auto.
      rewrite R2, He. unfold ep_ids. destruct (ep_profiles ep); [contradiction|reflexivity]. }
    rewrite I2h, Hk. discriminate.
Qed.

Lemma seteqN_of_iff : forall a b, (forall p, In p a <-> In p b) -> seteqN a b = true.
Proof.
  intros a b H. unfold seteqN, subsetN. apply andb_true_iff. split; apply forallb_forall; intros x Hx; apply memN_In; apply H; assumption.
Qed.

Definition swt (si : sinput) : Prop := match si with SUpd i => wt (i_key i) (i_val i) | SStat _ => True end.

Section STrace.
  Variable validate : value -> bool.

  Fixpoint strace_of (ss : sst) (h : list sinput) : list sitem :=
    match h with
    | [] => []
    | si :: h' =>
        let '(ss', (evs, w)) := sstep validate ss si in
        match si with
        | SUpd i => IOp {| o_key := i_key i; o_val := i_val i; o_valid := valid_of validate (i_val i);
                           o_fwd := match vf_filter validate (i_val i) with Some _ => FSame | None => FNil end;
                           o_evs := evs |}
        | SStat t => IStat t evs w
        end :: strace_of ss' h'
    end.

  Theorem smodel_meets_spec_trace : forall h ss v d,
    SInv ss v d -> KInv (ss_st ss) v d -> ukeys (d_eps d) -> ukeys (d_pols d) -> ukeys (v_pols v) ->
    (forall si, In si h -> swt si) ->
    sok_trace false (ss_insync ss) d v (strace_of ss h) = true.
  Proof.
    induction h as [|si h IH]; intros ss v d HS HK Hue Hup Huv Hwt; [reflexivity|].
    cbn [strace_of]. destruct (sstep validate ss si) as [ss' [evs w]] eqn:E.
    pose proof (sstep_SInv validate _ _ _ _ _ _ _ E HS) as HS'.
    assert (Hrest : forall sj, In sj h -> swt sj) by (intros; apply Hwt; right; assumption).
    destruct si as [i|t].
    - (* an update *)
      simpl in E. destruct (step validate (ss_st ss) i) as [s' evs'] eqn:Es. inversion E; subst ss' evs w. clear E.
      cbn [sok_trace]. rewrite filtered_trace. cbn [o_key o_evs orb].
      destruct HS as [HI HM].
      assert (HK' : KInv s' (view_apply_all v evs') (ds_apply d (i_key i) (vf_filter validate (i_val i)))).
      { unfold step in Es. apply (arc_update_KInv _ _ _ _ _ _ Es HI HK). }
      assert (Hue' := ds_apply_ukeys_eps d (i_key i) (vf_filter validate (i_val i)) Hue).
      assert (Hup' := ds_apply_ukeys_pols d (i_key i) (vf_filter validate (i_val i)) Hup).
      assert (Huv' := view_apply_all_ukeys evs' v Huv).
      apply andb_true_iff; split; [apply andb_true_iff; split; [apply andb_true_iff; split; [apply andb_true_iff; split|]|]|].
      + unfold ok_filter. rewrite filtered_trace. cbn [o_fwd]. destruct (vf_filter validate (i_val i)); reflexivity.
      + unfold step in Es. eapply arc_update_np; [exact Es|exact HK|]. simpl. apply wt_filter.
        apply (Hwt (SUpd i)). left. reflexivity.
      + destruct HS' as [HI' _]. eapply ok_profiles_of_Inv; eassumption.
      + eapply ok_policies_of_KInv; eassumption.
      + apply (IH _ _ _ HS' HK' Hue' Hup' Huv' Hrest).
    - (* a status message: nothing emitted, caches untouched *)
      destruct (sstep_status_silent validate ss t) as [A B]. rewrite E in A, B. simpl in A, B. subst evs.
      cbn [sok_trace view_apply_all fold_left existsb negb no_panic forallb andb orb].
      pose proof HS as [HI _].
      rewrite (ok_profiles_of_Inv _ _ _ HI Hue), (ok_policies_of_KInv _ _ _ HK Hue Hup Huv). cbn [andb].
      destruct t; simpl in E; try (inversion E; subst ss' w; cbn [negb andb orb]; rewrite orb_false_r;
                                   apply (IH _ _ _ HS HK Hue Hup Huv Hrest)).
      destruct (ss_insync ss) eqn:Ei; inversion E; subst ss' w; cbn [negb andb orb].
      + pose proof (IH _ _ _ HS HK Hue Hup Huv Hrest) as G. rewrite Ei in G. exact G.
      + rewrite (seteqN_of_iff _ _ (fun p => missing_dangling_of_SInv ss v d p HS Ei Hue)). cbn [andb].
        apply (IH {| ss_st := ss_st ss; ss_insync := true; ss_missing := [] |} v d); auto.
        all: try (split; [exact HI|reflexivity]).
  Qed.

  Theorem smodel_meets_spec : forall h sizes, (forall si, In si h -> swt si) ->
    sok_case {| sc_graph := false; sc_sizes := sizes; sc_items := strace_of sst0 h |} = true.
  Proof.
    intros. unfold sok_case. simpl.
    apply (smodel_meets_spec_trace h sst0 view0 ds0 (SInv0) KInv0); auto; constructor.
  Qed.
End STrace.
