(* C05 — specification: what "missing or invalid references fail closed" says, independent of how the
   ActiveRulesCalculator is written, plus the boolean oracle applied to the IMPLEMENTATION's own trace.

   The reference point is the *filtered datastore* D: the fold of the history in which every write of a value
   that fails validation counts as a delete (that is the property's "treated exactly as if it were absent").
   The dataplane's view is the fold of the emitted stream (OnProfileActive/Inactive, OnPolicyActive/Inactive).

   Property, as checked after EVERY update:
     (filter)   the ValidationFilter forwards a valid value untouched and an invalid one as nil: never a third thing;
     (profiles) for every endpoint in D and every profile id p it names, the dataplane has profile p, and its rules
                are D's rules for p when D has p, and the single-deny stand-in (inbound [deny], outbound [deny]) when
                D has no p  — so a missing/invalid profile denies, and a profile that appears later replaces the deny;
     (policies) a policy the dataplane has is exactly D's current version of it (an invalid or deleted version is
                never left applied, nothing is partially applied), and every policy of D that selects an endpoint of
                D (or is force-programmed) is in the dataplane (another resource becoming invalid never drops it). *)
From Coq Require Import List NArith Bool.
From Verif.Common Require Import Packet PolicyRef Labels.
From Verif.C05 Require Import Model.
Import ListNotations.
Open Scope N_scope.

(* ------------------------------------------------------------------ verdicts: deny < allow *)

(* v1 is at most as open as v2 *)
Definition vle (v1 v2 : verdict) : Prop := v1 = VDeny \/ v2 = VAllow \/ v1 = v2.

Definition ref_rules (rs : list crule) : list rule := map to_ref rs.

(* ------------------------------------------------------------------ filtered datastore *)

Record ds := { d_profs : amap prules; d_pols : amap policy; d_eps : amap endpoint; d_tiers : amap tier }.
Definition ds0 : ds := {| d_profs := []; d_pols := []; d_eps := []; d_tiers := [] |}.

(* apply one write; ov is the value AFTER treating an invalid value as absent *)
Definition ds_apply (d : ds) (k : key) (ov : option value) : ds :=
  match k, ov with
  | KProf p, Some (VProf r) => {| d_profs := aset p r (d_profs d); d_pols := d_pols d; d_eps := d_eps d; d_tiers := d_tiers d |}
  | KProf p, None => {| d_profs := adel p (d_profs d); d_pols := d_pols d; d_eps := d_eps d; d_tiers := d_tiers d |}
  | KPol p, Some (VPol q) => {| d_profs := d_profs d; d_pols := aset p q (d_pols d); d_eps := d_eps d; d_tiers := d_tiers d |}
  | KPol p, None => {| d_profs := d_profs d; d_pols := adel p (d_pols d); d_eps := d_eps d; d_tiers := d_tiers d |}
  | KEp e, Some (VEp ep) => {| d_profs := d_profs d; d_pols := d_pols d; d_eps := aset e ep (d_eps d); d_tiers := d_tiers d |}
  | KEp e, None => {| d_profs := d_profs d; d_pols := d_pols d; d_eps := adel e (d_eps d); d_tiers := d_tiers d |}
  | KTier t, Some (VTier ti) => {| d_profs := d_profs d; d_pols := d_pols d; d_eps := d_eps d; d_tiers := aset t ti (d_tiers d) |}
  | KTier t, None => {| d_profs := d_profs d; d_pols := d_pols d; d_eps := d_eps d; d_tiers := adel t (d_tiers d) |}
  | _, Some _ => d
  end.

(* ------------------------------------------------------------------ dataplane view = fold of the emitted stream *)

Record view := { v_profs : amap prules; v_pols : amap policy }.
Definition view0 : view := {| v_profs := []; v_pols := [] |}.

Definition view_apply (v : view) (e : ev) : view :=
  match e with
  | EProfActive p r => {| v_profs := aset p r (v_profs v); v_pols := v_pols v |}
  | EProfInactive p => {| v_profs := adel p (v_profs v); v_pols := v_pols v |}
  | EPolActive k q => {| v_profs := v_profs v; v_pols := aset k q (v_pols v) |}
  | EPolInactive k => {| v_profs := v_profs v; v_pols := adel k (v_pols v) |}
  | _ => v
  end.
Definition view_apply_all (v : view) (es : list ev) : view := fold_left view_apply es v.

(* ------------------------------------------------------------------ what the dataplane must hold *)

(* the rules the dataplane must have for a referenced profile p *)
Definition expected_profile (d : ds) (p : N) : prules :=
  match aget p (d_profs d) with Some r => r | None => dummy_drop end.

Definition ok_profiles (d : ds) (v : view) : bool :=
  forallb (fun eep : N * endpoint =>
    forallb (fun p => match aget p (v_profs v) with
                      | Some r => prules_eqb r (expected_profile d p)
                      | None => false
                      end) (ep_profiles (snd eep))) (d_eps d).

Definition selects (q : policy) (d : ds) : bool :=
  po_force q || existsb (fun eep : N * endpoint => eval (po_sel q) (ep_labels (snd eep))) (d_eps d).

Definition ok_policies (d : ds) (v : view) : bool :=
  forallb (fun kq : N * policy => match aget (fst kq) (d_pols d) with
                                  | Some q => policy_eqb (snd kq) q
                                  | None => false
                                  end) (v_pols v)
  && forallb (fun kq : N * policy => negb (selects (snd kq) d)
                                     || match aget (fst kq) (v_pols v) with Some _ => true | None => false end) (d_pols d).

(* ------------------------------------------------------------------ observed trace and oracle *)

Inductive fwd := FSame | FNil | FOther.     (* what the filter forwarded: the input value, nil, something else *)
Definition fwd_eqb (a b : fwd) : bool :=
  match a, b with FSame, FSame | FNil, FNil | FOther, FOther => true | _, _ => false end.

(* one update as fed to the real ValidationFilter, with the generator's verdict o_valid on the value
   ("does this object satisfy the validation rules?") and what the implementation did *)
Record oop := { o_key : key; o_val : option value; o_valid : bool; o_fwd : fwd; o_evs : list ev }.
(* c_graph = false: the trace was taken at the ARC's callbacks (o_evs in emission order, including match events);
   c_graph = true : the trace was taken at the END of the whole calculation graph: o_evs are the
                    proto.ActiveProfileUpdate / ActiveProfileRemove messages the EventSequencer flushed after the update *)
(* c_sizes: the sizes of the OnUpdates batches in which c_ops were delivered to the real ValidationFilter (the sink
   behind the filter attributes forwarded values and emitted events to the single updates, so c_ops stays flat) *)
Record case := { c_graph : bool; c_sizes : list nat; c_ops : list oop }.

(* short constructor names used by the generated case files *)
Definition R := Build_crule.
Definition PR := Build_prules.
Definition PO := Build_policy.
Definition EPv := Build_endpoint.
Definition TI := Build_tier.
Definition O := Build_oop.

Definition filtered (o : oop) : option value := vf_filter (fun _ => o_valid o) (o_val o).

Definition ok_filter (o : oop) : bool :=
  fwd_eqb (o_fwd o) (match filtered o with Some _ => FSame | None => FNil end).

Definition no_panic (es : list ev) : bool := forallb (fun e => match e with EPanic => false | _ => true end) es.

Fixpoint ok_trace (d : ds) (v : view) (ops : list oop) : bool :=
  match ops with
  | [] => true
  | o :: ops' =>
      let d' := ds_apply d (o_key o) (filtered o) in
      let v' := view_apply_all v (o_evs o) in
      ok_filter o && no_panic (o_evs o) && ok_profiles d' v' && ok_policies d' v' && ok_trace d' v' ops'
  end.

(* whole-graph traces: profile observables only *)
Fixpoint ok_trace_g (d : ds) (v : view) (ops : list oop) : bool :=
  match ops with
  | [] => true
  | o :: ops' =>
      let d' := ds_apply d (o_key o) (filtered o) in
      let v' := view_apply_all v (o_evs o) in
      ok_filter o && no_panic (o_evs o) && ok_profiles d' v' && ok_trace_g d' v' ops'
  end.

Definition ok_case (c : case) : bool :=
  if c_graph c then ok_trace_g ds0 view0 (c_ops c) else ok_trace ds0 view0 (c_ops c).

(* ------------------------------------------------------------------ model vs implementation *)

(* the Go-map iteration orders of this update, read off the implementation's trace *)
Definition sched_of (es : list ev) : list mev :=
  flat_map (fun e => match e with EMatch k x => [(true, k, x)] | EMatchStop k x => [(false, k, x)] | _ => [] end) es.
Definition ord_of (es : list ev) : list N :=
  flat_map (fun e => match e with EProfActive p _ => [p] | EProfInactive p => [p] | _ => [] end) es.

Definition input_of (o : oop) : input :=
  {| i_key := o_key o; i_val := o_val o; i_sched := sched_of (o_evs o); i_ord := ord_of (o_evs o) |}.

Fixpoint agree (s : st) (ops : list oop) : bool :=
  match ops with
  | [] => true
  | o :: ops' =>
      let '(s', evs) := step (fun _ => o_valid o) s (input_of o) in
      fwd_eqb (o_fwd o) (match filtered o with Some _ => FSame | None => FNil end)
      && list_eqb ev_eqb evs (o_evs o) && agree s' ops'
  end.

(* whole-graph traces: the iteration orders are not observable and the EventSequencer coalesces messages, so the
   comparison is on the dataplane's view of the profiles after every update (it does not depend on the orders) *)
Definition sub_view (a b : amap prules) : bool :=
  forallb (fun kv : N * prules => match aget (fst kv) b with Some r => prules_eqb (snd kv) r | None => false end) a.
Definition dedup_keys (a : amap prules) : amap prules :=
  filter (fun kv : N * prules => match aget (fst kv) a with Some r => prules_eqb r (snd kv) | None => false end) a.
Definition view_eqb (a b : amap prules) : bool := sub_view (dedup_keys a) b && sub_view (dedup_keys b) a.

Fixpoint agree_g (s : st) (vm vi : view) (ops : list oop) : bool :=
  match ops with
  | [] => true
  | o :: ops' =>
      let '(s', evs) := step (fun _ => o_valid o) s
                             {| i_key := o_key o; i_val := o_val o; i_sched := []; i_ord := [] |} in
      let vm' := view_apply_all vm evs in
      let vi' := view_apply_all vi (o_evs o) in
      fwd_eqb (o_fwd o) (match filtered o with Some _ => FSame | None => FNil end)
      && view_eqb (v_profs vm') (v_profs vi') && agree_g s' vm' vi' ops'
  end.

(* batch-wise comparison: the model's filter maps over the batch (with the case's validity verdicts), the ARC
   consumes the forwarded batch *)
Fixpoint take_batches {A} (sizes : list nat) (l : list A) : list (list A) :=
  match sizes with
  | [] => match l with [] => [] | _ => [l] end
  | n :: ss => firstn n l :: take_batches ss (skipn n l)
  end.

Definition filter_batch_obs (b : list oop) : list input :=
  map (fun o => {| i_key := o_key o; i_val := filtered o; i_sched := sched_of (o_evs o); i_ord := ord_of (o_evs o) |}) b.

Fixpoint agree_batches (s : st) (bs : list (list oop)) : bool :=
  match bs with
  | [] => true
  | b :: bs' =>
      let '(s', evss) := arc_batch s (filter_batch_obs b) in
      forallb ok_filter b && list_eqb (list_eqb ev_eqb) evss (map o_evs b) && agree_batches s' bs'
  end.

Definition sizes_ok (c : case) : bool := Nat.eqb (fold_right Nat.add 0%nat (c_sizes c)) (length (c_ops c)).

Definition check_case (c : case) : bool * bool :=
  (sizes_ok c &&
   (if c_graph c then agree_g st0 view0 view0 (c_ops c)
    else agree st0 (c_ops c) && agree_batches st0 (take_batches (c_sizes c) (c_ops c))),
   ok_case c).

(* ------------------------------------------------------------------ history-level reference objects (theorems) *)

(* the filtered datastore after a history: an invalid write counts as a delete *)
Fixpoint ds_of (validate : value -> bool) (d : ds) (h : list input) : ds :=
  match h with
  | [] => d
  | i :: h' => ds_of validate (ds_apply d (i_key i) (vf_filter validate (i_val i))) h'
  end.

(* the dataplane's view after a run: the fold of everything emitted *)
Definition view_of (evss : list (list ev)) : view := view_apply_all view0 (concat evss).

(* the profile stage of an endpoint whose ProfileIDs are ids, as programmed from the view (a profile the
   dataplane was never given has no chain to jump to: nothing can be allowed there) *)
Definition profile_chain (v : view) (ids : list N) (inbound : bool) : list (list rule) :=
  map (fun p => match aget p (v_profs v) with
                | Some r => ref_rules (if inbound then pr_in r else pr_out r)
                | None => [to_ref deny_rule]
                end) ids.

(* the endpoint's verdict under the reference semantics; how the tiers are assembled from the view's active
   policies is left open (tiers_of): the theorems hold for every way of doing it *)
Definition ep_verdict (s : ipsets) (tiers_of : view -> list PolicyRef.tier) (v : view) (ids : list N) (inbound : bool)
  (pkt : packet) : verdict :=
  endpoint_verdict s (tiers_of v) (profile_chain v ids inbound) pkt.
