(* C05 — policy statements over ALL histories / schedules, and the full oracle of Spec.v on the model. *)
From Coq Require Import List NArith Bool Lia.
From Verif.Common Require Import Packet PolicyRef Labels.
From Verif.C05 Require Import Model Spec ProofsFilter ProofsProfiles ProofsStep ProofsVerdict ProofsMain ProofsOracle
  ProofsPolicies ProofsIndex ProofsPolStep.
Import ListNotations.
Open Scope N_scope.

Local Arguments aset {V} k v m : simpl never.
Local Arguments adel {V} k m : simpl never.

Lemma pside_refl : forall s, pside_eq s s.
Proof. intros. repeat split. Qed.

Lemma arc_update_KInv : forall s i s' evs v d,
  arc_update s i = (s', evs) -> Inv s v d -> KInv s v d ->
  KInv s' (view_apply_all v evs) (ds_apply d (i_key i) (i_val i)).
Proof.
  intros s i s' evs v d H (I1h & I2h & IR) HK. unfold arc_update in H.
  destruct (i_key i) as [p|k|e|t] eqn:Ek; destruct (i_val i) as [[r|q|ep|ti]|] eqn:Ev;
    try (inversion H; subst; simpl; exact HK).
  - (* profile written *)
    assert (Hgen : forall s1, pside_eq s s1 ->
              KInv s1 (view_apply_all v ((if md_has_key p (s_p2e s1) then [send_profile_update s1 p (Some r)] else []) ++ [stats s1]))
                   (ds_apply d (KProf p) (Some (VProf r)))).
    { intros s1 Hp. eapply KInv_frame; [exact Hp| |reflexivity|reflexivity|exact HK].
      apply view_nonpol. rewrite forallb_app. destruct (md_has_key p (s_p2e s1)); simpl; auto.
      rewrite send_profile_update_nonpol. reflexivity. }
    destruct (aget p (s_profs s)) as [old|].
    + destruct (prules_eqb old r).
      * inversion H; subst. eapply KInv_frame; [apply pside_refl|reflexivity|reflexivity|reflexivity|exact HK].
      * inversion H; subst. apply (Hgen (set_profs s (aset p r (s_profs s)))). repeat split.
    + inversion H; subst. apply (Hgen (set_profs s (aset p r (s_profs s)))). repeat split.
  - (* profile deleted *)
    inversion H; subst. eapply KInv_frame; [| |reflexivity|reflexivity|exact HK]; [repeat split|].
    apply view_nonpol. rewrite forallb_app.
    destruct (md_has_key p _); simpl; auto. rewrite send_profile_update_nonpol. reflexivity.
  - (* policy written *)
    simpl.
    destruct (match aget k (s_pols s) with Some o => policy_eqb o q | None => false end) eqn:Enoop.
    { inversion H; subst s' evs. clear H.
      destruct (aget k (s_pols s)) as [o|] eqn:Eo; [|discriminate]. apply policy_eqb_eq in Enoop. subst o.
      destruct HK as (H1 & H2 & H3 & H4 & H5 & H6 & H7 & [H8 H9]).
      unfold KInv. repeat (split; [assumption|]). split; [|exact H9].
      intros k'. cbn [d_pols]. destruct (N.eq_dec k' k) as [->|Hne].
      - rewrite aget_aset_same. exact Eo.
      - rewrite aget_aset_other by assumption. apply H8. }
    destruct (if negb (force_of (aget k (s_pols s))) && po_force q
              then on_match_started (set_pols s (aset k q (s_pols s))) k LForce
              else (set_pols s (aset k q (s_pols s)), [])) as [s2 ev1] eqn:E1.
    destruct (idx_update_selector s2 k (po_sel q) (i_sched i)) as [s3 ms] eqn:E2.
    destruct (run_mevs s3 ms) as [s4 ev2] eqn:E3.
    destruct (if force_of (aget k (s_pols s)) && negb (po_force q) then on_match_stopped s4 k LForce else (s4, [])) as [s5 ev3] eqn:E4.
    inversion H; subst s' evs. clear H.
    eapply pol_write_KInv; eassumption.
  - (* policy deleted *)
    simpl.
    destruct (if force_of (aget k (s_pols s)) then on_match_stopped (set_pols s (adel k (s_pols s))) k LForce
              else (set_pols s (adel k (s_pols s)), [])) as [s2 ev1] eqn:E1.
    destruct (idx_delete_selector s2 k (i_sched i)) as [s3 ms] eqn:E2.
    destruct (run_mevs s3 ms) as [s4 ev2] eqn:E3.
    inversion H; subst s' evs. clear H.
    eapply pol_delete_KInv; eassumption.
  - (* endpoint written *)
    simpl.
    destruct (update_ep_profile_ids s e (ep_profiles ep) (i_ord i)) as [s1 ev1] eqn:E1.
    destruct (idx_update_labels s1 e (ep_labels ep) (i_sched i)) as [s2 ms] eqn:E2.
    destruct (run_mevs s2 ms) as [s3 ev2] eqn:E3.
    inversion H; subst s' evs. clear H.
    destruct (update_ep_profile_ids_spec _ _ _ _ _ _ _ E1 I1h I2h) as (_ & _ & A3 & A4 & A5 & A6 & A7 & A8 & A9 & A10 & A11).
    eapply ep_update_KInv; try eassumption.
    + repeat split; assumption.
    + reflexivity.
    + intros e'. cbn [d_eps]. destruct HK as (_ & _ & _ & _ & _ & _ & _ & [_ H9]).
      destruct (N.eq_dec e' e) as [->|Hne].
      * rewrite !aget_aset_same. reflexivity.
      * rewrite !aget_aset_other by assumption. apply H9.
  - (* endpoint deleted *)
    simpl.
    destruct (update_ep_profile_ids s e [] (i_ord i)) as [s1 ev1] eqn:E1.
    destruct (idx_delete_labels s1 e (i_sched i)) as [s2 ms] eqn:E2.
    destruct (run_mevs s2 ms) as [s3 ev2] eqn:E3.
    inversion H; subst s' evs. clear H.
    destruct (update_ep_profile_ids_spec _ _ _ _ _ _ _ E1 I1h I2h) as (_ & _ & A3 & A4 & A5 & A6 & A7 & A8 & A9 & A10 & A11).
    eapply ep_delete_KInv; try eassumption.
    + repeat split; assumption.
    + reflexivity.
    + intros e'. cbn [d_eps]. destruct HK as (_ & _ & _ & _ & _ & _ & _ & [_ H9]).
      destruct (N.eq_dec e' e) as [->|Hne].
      * rewrite !aget_adel_same. reflexivity.
      * rewrite !aget_adel_other by assumption. apply H9.
Qed.

Section Hist.
  Variable validate : value -> bool.

  Lemma run_KInv : forall h s v d, Inv s v d -> KInv s v d ->
    KInv (final validate s h) (view_apply_all v (concat (run validate s h))) (ds_of validate d h).
  Proof.
    induction h as [|i h IH]; intros s v d HI HK; simpl.
    - exact HK.
    - destruct (step validate s i) as [s' evs] eqn:E. simpl. rewrite view_apply_all_app.
      apply IH.
      + eapply step_Inv; eassumption.
      + unfold step in E. apply (arc_update_KInv _ _ _ _ _ _ E HI HK).
  Qed.

  Lemma reach_KInv : forall h,
    KInv (final validate st0 h) (view_of (run validate st0 h)) (ds_of validate ds0 h).
  Proof. intros. apply run_KInv; [apply Inv0|apply KInv0]. Qed.

  Lemma ds_of_ukeys_pols : forall h d, ukeys (d_pols d) -> ukeys (d_pols (ds_of validate d h)).
  Proof.
    induction h as [|i h IH]; intros d H; simpl; auto. apply IH.
    destruct (i_key i); destruct (vf_filter validate (i_val i)) as [[?|?|?|?]|]; simpl; auto using ukeys_aset, ukeys_adel.
  Qed.

  (* MAIN (policies): after every history, under every callback order, the dataplane holds policy k exactly
     when the filtered datastore has k and k selects an endpoint of the filtered datastore (or is
     force-programmed) - and then it holds the datastore's current version of it. *)
  Theorem policies_exact : forall h k,
    let d := ds_of validate ds0 h in
    aget k (v_pols (view_of (run validate st0 h))) =
    match aget k (d_pols d) with
    | Some q => if selects q d then Some q else None
    | None => None
    end.
  Proof.
    intros h k d. destruct (reach_KInv h) as (H1 & H2 & H3 & H4 & H5 & H6 & H7 & [H8 H9]).
    fold d in H8, H9. set (s := final validate st0 h) in *.
    destruct (H5 k) as [A _]. rewrite A by discriminate. rewrite H8.
    assert (Hu : ukeys (d_eps d)) by (apply ds_of_ukeys_eps; constructor).
    destruct (aget k (d_pols d)) as [q|] eqn:Eq.
    - destruct (selects q d) eqn:Es.
      + assert (md_has_key k (s_k2e s) = true) as ->; [|reflexivity].
        unfold selects in Es. apply orb_true_iff in Es. destruct Es as [Ef|Ee].
        * apply md_has_key_true. exists LForce. apply H3. rewrite H8, Eq. exact Ef.
        * apply existsb_exists in Ee. destruct Ee as [[e ep] [Hin Hev]]. simpl in Hev.
          apply md_has_key_true. exists (LEp e). apply H2. apply H1.
          exists (po_sel q), (ep_labels ep). split; [rewrite H4, H8, Eq; reflexivity|].
          split; [rewrite H9, (ukeys_aget _ _ _ Hu Hin); reflexivity|exact Hev].
      + destruct (md_has_key k (s_k2e s)) eqn:Ek; [|reflexivity]. exfalso.
        unfold selects in Es. apply orb_false_iff in Es. destruct Es as [Ef Ee].
        destruct (has_key_cases _ _ Ek) as [[e He]|Hf].
        * apply H2 in He. apply H1 in He. destruct He as (sel & labs & Hs & Hl & Hev).
          rewrite H4, H8, Eq in Hs. simpl in Hs. inversion Hs; subst sel.
          rewrite H9 in Hl. destruct (aget e (d_eps d)) as [ep|] eqn:Eep; [|discriminate]. simpl in Hl. inversion Hl; subst labs.
          assert (existsb (fun eep : N * endpoint => eval (po_sel q) (ep_labels (snd eep))) (d_eps d) = true); [|congruence].
          apply existsb_exists. exists (e, ep). split; [apply aget_In; assumption|exact Hev].
        * apply H3 in Hf. rewrite H8, Eq in Hf. simpl in Hf. congruence.
    - destruct (md_has_key k (s_k2e s)); reflexivity.
  Qed.

  Theorem model_meets_spec_policies : forall h,
    ok_policies (ds_of validate ds0 h) (view_of (run validate st0 h)) = true.
  Proof.
    intros h. unfold ok_policies. apply andb_true_iff. split.
    - apply forallb_forall. intros [k q] Hin. simpl.
      assert (Hu : ukeys (v_pols (view_of (run validate st0 h)))).
      { unfold view_of. generalize (concat (run validate st0 h)). intros es.
        assert (G : forall es v, ukeys (v_pols v) -> ukeys (v_pols (view_apply_all v es))).
        { induction es0 as [|e es0 IH]; intros v0 Hv; simpl; auto. apply IH.
          destruct e; simpl; auto using ukeys_aset, ukeys_adel. }
        apply G. constructor. }
      pose proof (ukeys_aget _ _ _ Hu Hin) as Hg. rewrite policies_exact in Hg.
      destruct (aget k (d_pols (ds_of validate ds0 h))) as [q'|]; [|discriminate].
      destruct (selects q' _); [|discriminate]. inversion Hg; subst.
      unfold policy_eqb. rewrite !N.eqb_refl.
      assert (optN_eqb (po_order q) (po_order q) = true) as -> by (destruct (po_order q); simpl; auto using N.eqb_refl).
      assert (Hast : forall a, ast_eqb a a = true).
      { induction a using ast_ind_nested; simpl; rewrite ?bytes_eqb_refl; simpl; auto;
          try (apply (list_eqb_refl bytes_eqb bytes_eqb_refl)).
        - induction H as [|x xs Hx Hxs IH]; auto. rewrite Hx. exact IH.
        - induction H as [|x xs Hx Hxs IH]; auto. rewrite Hx. exact IH. }
      rewrite Hast, !(list_eqb_refl crule_eqb crule_eqb_refl), Bool.eqb_reflx. reflexivity.
    - apply forallb_forall. intros [k q] Hin. simpl.
      assert (Hu : ukeys (d_pols (ds_of validate ds0 h))) by (apply ds_of_ukeys_pols; constructor).
      pose proof (ukeys_aget _ _ _ Hu Hin) as Hg.
      destruct (selects q (ds_of validate ds0 h)) eqn:Es; [|reflexivity]. simpl.
      rewrite policies_exact, Hg, Es. reflexivity.
  Qed.
End Hist.
