(* C05 — batches: ValidationFilter.OnUpdates receives a slice.  How a history is cut into batches, where in its
   batch an invalid value sits and what else the batch contains have no influence on the emitted stream. *)
From Coq Require Import List NArith Bool.
From Verif.Common Require Import Packet PolicyRef Labels.
From Verif.C05 Require Import Model Spec ProofsFilter.
Import ListNotations.
Open Scope N_scope.

Section Batch.
  Variable validate : value -> bool.

  Lemma step_batch_run : forall b s, step_batch validate s b = (final validate s b, run validate s b).
  Proof.
    induction b as [|i b IH]; intros s; [reflexivity|].
    unfold step_batch in *. simpl. unfold vf_filter_input at 1. fold (step validate s i).
    destruct (step validate s i) as [s1 evs]. simpl. rewrite IH. reflexivity.
  Qed.

  (* batching is irrelevant: the stream of a batched history is the stream of its concatenation *)
  Lemma run_batches_flat : forall hb s, run_batches validate s hb = run validate s (concat hb).
  Proof.
    induction hb as [|b hb IH]; intros s; [reflexivity|].
    simpl. rewrite step_batch_run, IH, run_app. reflexivity.
  Qed.

  Lemma concat_map_map {A B} (f : A -> B) : forall l, concat (map (map f) l) = map f (concat l).
  Proof. induction l; simpl; auto. rewrite map_app, IHl. reflexivity. Qed.

  (* every invalid value of every batch replaced by a delete: same stream *)
  Lemma run_batches_as_delete : forall hb s,
    run_batches validate s (map (map (as_delete validate)) hb) = run_batches validate s hb.
  Proof. intros. rewrite !run_batches_flat, concat_map_map. apply run_as_delete. Qed.

  Lemma regroup {A} : forall (l1 b1 : list A) x b2 l2, l1 ++ (b1 ++ x :: b2) ++ l2 = (l1 ++ b1) ++ x :: (b2 ++ l2).
  Proof. intros. repeat rewrite <- app_assoc. reflexivity. Qed.

  (* one invalid value anywhere in a batch, whatever else (valid or invalid) the batch and the history contain *)
  Lemma invalid_in_batch_is_delete : forall hb1 b1 b2 hb2 s k v sched ord,
    validate v = false ->
    run_batches validate s (hb1 ++ (b1 ++ write k (Some v) sched ord :: b2) :: hb2)
    = run_batches validate s (hb1 ++ (b1 ++ write k None sched ord :: b2) :: hb2).
  Proof.
    intros. rewrite !run_batches_flat, !concat_app. simpl. rewrite !regroup.
    apply invalid_write_is_delete. assumption.
  Qed.

  (* the forwarded batch: same length, same keys, each value whole or nil, decided by that value alone *)
  Lemma vf_filter_batch_shape : forall b,
    length (vf_filter_batch validate b) = length b
    /\ map i_key (vf_filter_batch validate b) = map i_key b
    /\ Forall2 (fun i o => i_val o = vf_filter validate (i_val i) /\ (i_val o = i_val i \/ i_val o = None))
               b (vf_filter_batch validate b).
  Proof.
    induction b as [|i b (A & B & C)]; simpl; [repeat split; constructor|].
    split; [congruence|split; [congruence|]]. constructor; [|exact C].
    split; [reflexivity|apply vf_filter_whole_or_nil].
  Qed.
End Batch.
