(* C05 — the complete oracle ok_trace of Spec.v (filter, no panic, profiles, policies, after EVERY update) accepts
   the model's own trace of every well-typed history. *)
From Coq Require Import List NArith Bool Lia.
From Verif.Common Require Import Packet PolicyRef Labels.
From Verif.C05 Require Import Model Spec ProofsFilter ProofsProfiles ProofsStep ProofsVerdict ProofsMain ProofsOracle
  ProofsPolicies ProofsIndex ProofsPolStep ProofsPolMain ProofsNoPanic.
Import ListNotations.
Open Scope N_scope.

Local Arguments aset {V} k v m : simpl never.
Local Arguments adel {V} k m : simpl never.

Lemma ok_profiles_of_Inv : forall s v d, Inv s v d -> ukeys (d_eps d) -> ok_profiles d v = true.
Proof.
  intros s v d (H1 & H2 & [R1 R2]) Hu. unfold ok_profiles. apply forallb_forall. intros [e ep] Hin.
  apply forallb_forall. intros p Hp. simpl in Hp.
  pose proof (ukeys_aget _ _ _ Hu Hin) as He.
  assert (Hepp : aget e (s_epp s) = Some (ep_profiles ep)).
  { rewrite R2, He. unfold ep_ids. destruct (ep_profiles ep); [contradiction|reflexivity]. }
  assert (Hk : md_has_key p (s_p2e s) = true) by (apply md_has_key_true; exists e; apply H1; eauto).
  rewrite H2, Hk. unfold resolve, expected_profile. rewrite R1. apply prules_eqb_refl.
Qed.

Lemma policy_eqb_refl : forall q, policy_eqb q q = true.
Proof.
  intros q. unfold policy_eqb. rewrite !N.eqb_refl.
  assert (optN_eqb (po_order q) (po_order q) = true) as -> by (destruct (po_order q); simpl; auto using N.eqb_refl).
  assert (Hast : forall a, ast_eqb a a = true).
  { induction a using ast_ind_nested; simpl; rewrite ?bytes_eqb_refl; simpl; auto;
      try (apply (list_eqb_refl bytes_eqb bytes_eqb_refl)).
    - induction H as [|x xs Hx Hxs IH]; auto. rewrite Hx. exact IH.
    - induction H as [|x xs Hx Hxs IH]; auto. rewrite Hx. exact IH. }
  rewrite Hast, !(list_eqb_refl crule_eqb crule_eqb_refl), Bool.eqb_reflx. reflexivity.
Qed.

Lemma policies_exact_of_KInv : forall s v d k, KInv s v d -> ukeys (d_eps d) ->
  aget k (v_pols v) = match aget k (d_pols d) with Some q => if selects q d then Some q else None | None => None end.
Proof.
  intros s v d k (H1 & H2 & H3 & H4 & H5 & H6 & H7 & [H8 H9]) Hu.
  destruct (H5 k) as [A _]. rewrite A by discriminate. rewrite H8.
  destruct (aget k (d_pols d)) as [q|] eqn:Eq.
  - destruct (selects q d) eqn:Es.
    + assert (md_has_key k (s_k2e s) = true) as ->; [|reflexivity].
      unfold selects in Es. apply orb_true_iff in Es. destruct Es as [Ef|Ee].
      * apply md_has_key_true. exists LForce. apply H3. rewrite H8, Eq. exact Ef.
      * apply existsb_exists in Ee. destruct Ee as [[e ep] [Hin Hev]]. simpl in Hev.
        apply md_has_key_true. exists (LEp e). apply H2. apply H1.
        exists (po_sel q), (ep_labels ep). split; [rewrite H4, H8, Eq; reflexivity|].
        split; [rewrite H9, (ukeys_aget _ _ _ Hu Hin); reflexivity|exact Hev].
    + destruct (md_has_key k (s_k2e s)) eqn:Ek; [|reflexivity]. exfalso.
      unfold selects in Es. apply orb_false_iff in Es. destruct Es as [Ef Ee].
      destruct (has_key_cases _ _ Ek) as [[e He]|Hf].
      * apply H2 in He. apply H1 in He. destruct He as (sel & labs & Hs & Hl & Hev).
        rewrite H4, H8, Eq in Hs. simpl in Hs. inversion Hs; subst sel.
        rewrite H9 in Hl. destruct (aget e (d_eps d)) as [ep|] eqn:Eep; [|discriminate]. simpl in Hl. inversion Hl; subst labs.
        assert (existsb (fun eep : N * endpoint => eval (po_sel q) (ep_labels (snd eep))) (d_eps d) = true); [|congruence].
        apply existsb_exists. exists (e, ep). split; [apply aget_In; assumption|exact Hev].
      * apply H3 in Hf. rewrite H8, Eq in Hf. simpl in Hf. congruence.
  - destruct (md_has_key k (s_k2e s)); reflexivity.
Qed.

Lemma ok_policies_of_KInv : forall s v d, KInv s v d -> ukeys (d_eps d) -> ukeys (d_pols d) -> ukeys (v_pols v) ->
  ok_policies d v = true.
Proof.
  intros s v d HK Hue Hup Huv. unfold ok_policies. apply andb_true_iff. split.
  - apply forallb_forall. intros [k q] Hin. simpl.
    pose proof (ukeys_aget _ _ _ Huv Hin) as Hg. rewrite (policies_exact_of_KInv _ _ _ k HK Hue) in Hg.
    destruct (aget k (d_pols d)) as [q'|]; [|discriminate]. destruct (selects q' d); [|discriminate].
    inversion Hg; subst. apply policy_eqb_refl.
  - apply forallb_forall. intros [k q] Hin. simpl.
    pose proof (ukeys_aget _ _ _ Hup Hin) as Hg.
    destruct (selects q d) eqn:Es; [|reflexivity]. simpl.
    rewrite (policies_exact_of_KInv _ _ _ k HK Hue), Hg, Es. reflexivity.
Qed.

Lemma view_apply_all_ukeys : forall es v, ukeys (v_pols v) -> ukeys (v_pols (view_apply_all v es)).
Proof.
  induction es as [|e es IH]; intros v Hv; simpl; auto. apply IH.
  destruct e; simpl; auto using ukeys_aset, ukeys_adel.
Qed.

Lemma ds_apply_ukeys_pols : forall d k ov, ukeys (d_pols d) -> ukeys (d_pols (ds_apply d k ov)).
Proof. intros d k ov H. destruct k; destruct ov as [[?|?|?|?]|]; simpl; auto using ukeys_aset, ukeys_adel. Qed.

Section Trace.
  Variable validate : value -> bool.

  Definition valid_of (ov : option value) : bool := match ov with Some v => validate v | None => true end.

  (* the model's own trace, in the form the correspondence run records the implementation's *)
  Fixpoint trace_of (s : st) (h : list input) : list oop :=
    match h with
    | [] => []
    | i :: h' =>
        let '(s', evs) := step validate s i in
        {| o_key := i_key i; o_val := i_val i; o_valid := valid_of (i_val i);
           o_fwd := match vf_filter validate (i_val i) with Some _ => FSame | None => FNil end;
           o_evs := evs |} :: trace_of s' h'
    end.

  Lemma filtered_trace : forall k ov f es,
    filtered {| o_key := k; o_val := ov; o_valid := valid_of ov; o_fwd := f; o_evs := es |} = vf_filter validate ov.
  Proof. intros. unfold filtered. simpl. destruct ov as [v|]; simpl; reflexivity. Qed.

  Theorem model_meets_spec_trace : forall h s v d,
    Inv s v d -> KInv s v d -> ukeys (d_eps d) -> ukeys (d_pols d) -> ukeys (v_pols v) ->
    (forall i, In i h -> wt (i_key i) (i_val i)) ->
    ok_trace d v (trace_of s h) = true.
  Proof.
    induction h as [|i h IH]; intros s v d HI HK Hue Hup Huv Hwt; simpl; auto.
    destruct (step validate s i) as [s' evs] eqn:E. cbn [ok_trace].
    rewrite filtered_trace. cbn [o_key o_evs].
    assert (HI' := step_Inv validate _ _ _ _ _ _ E HI).
    assert (HK' : KInv s' (view_apply_all v evs) (ds_apply d (i_key i) (vf_filter validate (i_val i)))).
    { unfold step in E. apply (arc_update_KInv _ _ _ _ _ _ E HI HK). }
    assert (Hue' := ds_apply_ukeys_eps d (i_key i) (vf_filter validate (i_val i)) Hue).
    assert (Hup' := ds_apply_ukeys_pols d (i_key i) (vf_filter validate (i_val i)) Hup).
    assert (Huv' := view_apply_all_ukeys evs v Huv).
    apply andb_true_iff; split; [apply andb_true_iff; split; [apply andb_true_iff; split; [apply andb_true_iff; split|]|]|].
    - unfold ok_filter. rewrite filtered_trace. cbn [o_fwd]. destruct (vf_filter validate (i_val i)); reflexivity.
    - unfold step in E. eapply arc_update_np; [exact E|exact HK|]. simpl. apply wt_filter. apply Hwt. left. reflexivity.
    - eapply ok_profiles_of_Inv; eassumption.
    - eapply ok_policies_of_KInv; eassumption.
    - apply IH; auto. intros j Hj. apply Hwt. right. assumption.
  Qed.

  Theorem model_meets_spec : forall h, (forall i, In i h -> wt (i_key i) (i_val i)) ->
    forall sizes, ok_case {| c_graph := false; c_sizes := sizes; c_ops := trace_of st0 h |} = true.
  Proof.
    intros h H sizes. unfold ok_case. simpl. apply model_meets_spec_trace; auto using Inv0, KInv0; constructor.
  Qed.
End Trace.
